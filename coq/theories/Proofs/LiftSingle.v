(* Proofs/LiftSingle.v — the single-cycle machine with any data cache and any instruction cache
   against the same machine on flat memory without instruction cache: [behavior], one step, runs. *)
From Coq Require Import Lia ZifyBool.
From ArchSim Require Import Spec.RefCache.
From ArchSim Require Import Model.Base Model.Mem Model.Cache Model.Fmt Model.RV Model.Single
  Proofs.WordLemmas Proofs.MapLemmas Proofs.CacheArith Proofs.CacheInv Proofs.C03Proofs
  Proofs.C11Proofs Proofs.LiftFlat Proofs.LiftAccess Proofs.LiftSim Proofs.LiftEcall.
Open Scope Z_scope.
Local Arguments Z.mul : simpl never.
Local Arguments Z.add : simpl never.
Local Arguments Z.sub : simpl never.
Local Arguments Z.pow : simpl never.
Local Arguments Z.div : simpl never.
Local Arguments Z.modulo : simpl never.
Local Arguments Z.of_nat : simpl never.
Local Arguments Z.to_nat : simpl never.

(** * Vocabulary *)
(* the data access an instruction performs: (is a write, width in bits, address) *)
Definition access_of (i : instr) (s : st) : option (bool * Z * Z) :=
  match i with
  | ILoad o _ rs1 imm => Some (false, load_bits o, rget s rs1 + imm)
  | IStore o rs1 _ imm => Some (true, store_bits o, U32 (rget s rs1 + U32 imm))
  | _ => None
  end.

(* the error with which a cache of configuration g rejects the word-crossing access of i *)
Definition rejects (g : mcfg) (i : instr) (s : st) : option err :=
  match g, access_of i s with
  | Some (c, wt), Some (w, nb, a) => if xw nb a then cerr c wt w nb a else None
  | _, _ => None
  end.

Definition is_store (i : instr) : bool := match i with IStore _ _ _ _ => true | _ => false end.

(* a fault of the flat machine as the cached machine reports it *)
Definition fmap (g : mcfg) (f : fault) : fault :=
  {| f_addr := f_addr f; f_instr := f_instr f; f_err := emap g (is_store (f_instr f)) (f_err f) |}.

Lemma fmap_none f : fmap None f = f.
Proof. destruct f; reflexivity. Qed.

Lemma cerr_xw c wt w nb a : xw nb a = true -> exists e, cerr c wt w nb a = Some e.
Proof.
  intros H. unfold cerr. rewrite H. destruct (w && wt); [eexists; reflexivity|].
  destruct (a mod 4294967296 <? 16384); eexists; reflexivity.
Qed.

Lemma okw_load o : okw (load_bits o).
Proof. destruct o; cbn [load_bits]; [apply okw8 | apply okw16 | apply okw32 | apply okw8 | apply okw16]. Qed.
Lemma okw_store o : okw (store_bits o).
Proof. destruct o; cbn [store_bits]; [apply okw8 | apply okw16 | apply okw32]. Qed.
Lemma store_val_range o v : 0 <= U (store_bits o) v < 2 ^ store_bits o.
Proof. unfold U. destruct o; cbn [store_bits]; lia. Qed.

Lemma sim_rejects s t i : sim s t -> rejects (ms_cfg (ms s)) i s = rejects (ms_cfg (ms s)) i t.
Proof.
  intros S. unfold rejects, access_of. destruct i; try reflexivity; rewrite (sim_rget s t _ S); reflexivity.
Qed.

(** * behavior *)
Definition beh_goal (i : instr) (s t s' : st) (oe : option err) : Prop :=
  exists t' oe', behavior i t = (t', oe') /\ ms_cfg (ms s') = ms_cfg (ms s) /\
    match rejects (ms_cfg (ms s)) i s with
    | Some e => oe = Some e /\ sim s' t
    | None => oe = option_map (emap (ms_cfg (ms s)) (is_store i)) oe' /\ sim s' t'
    end.

Lemma rset_ms s r v : ms (rset s r v) = ms s.
Proof. unfold rset. destruct (_ && _); reflexivity. Qed.

Lemma sim_behavior_load o rd rs1 imm s t s' oe : sim s t ->
  behavior (ILoad o rd rs1 imm) s = (s', oe) -> beh_goal (ILoad o rd rs1 imm) s t s' oe.
Proof.
  intros S H. unfold beh_goal. cbn [behavior] in *. rewrite <- (sim_rget s t rs1 S).
  destruct (st_read s (load_bits o) (rget s rs1 + imm) true) as [r s1] eqn:Hr.
  destruct (sim_st_read s t _ _ true r s1 S (okw_load o) Hr) as (r' & Hr' & S1 & Hcfg & Hin & Hx).
  rewrite Hr'. unfold rejects. cbn [access_of is_store].
  destruct (xw (load_bits o) (rget s rs1 + imm)) eqn:Ex.
  - specialize (Hx eq_refl). destruct (ms_cfg (ms s)) as [[c wt]|] eqn:Eg.
    + destruct Hx as (e & He & ->). injection H as <- <-. rewrite He.
      destruct r' as [v'|e']; (eexists; eexists; split; [reflexivity|]; split; [exact Hcfg|];
                               split; [reflexivity | exact S1]).
    + subst r'.
      destruct r as [v|e]; injection H as <- <-; eexists; eexists; (split; [reflexivity|]).
      * split; [rewrite rset_ms; exact Hcfg|]. split; [reflexivity|]. apply sim_rset; [exact S1 | reflexivity].
      * split; [exact Hcfg|]. split; [reflexivity | exact S1].
  - specialize (Hin eq_refl). subst r.
    assert (G : match ms_cfg (ms s) with Some (c, wt) => @None err | None => None end = None)
      by (destruct (ms_cfg (ms s)) as [[? ?]|]; reflexivity).
    destruct r' as [v|e]; cbn [rmap] in H; injection H as <- <-; eexists; eexists; (split; [reflexivity|]).
    + split; [rewrite rset_ms; exact Hcfg|]. rewrite G. split; [reflexivity|]. apply sim_rset; [exact S1 | reflexivity].
    + split; [exact Hcfg|]. rewrite G. split; [reflexivity | exact S1].
Qed.

Lemma sim_behavior_store o rs1 rs2 imm s t s' oe : sim s t ->
  behavior (IStore o rs1 rs2 imm) s = (s', oe) -> beh_goal (IStore o rs1 rs2 imm) s t s' oe.
Proof.
  intros S H. unfold beh_goal. cbn [behavior] in *. rewrite <- !(sim_rget s t _ S).
  set (v := U (store_bits o) (rget s rs2)) in *. set (a := U32 (rget s rs1 + U32 imm)) in *.
  destruct (st_write s (store_bits o) a v false) as [e s1] eqn:Hw.
  destruct (sim_st_write s t _ a v e s1 S (okw_store o) (store_val_range o _) Hw)
    as (e' & t1 & Hw' & Hcfg & Hin & Hx).
  rewrite Hw'. unfold rejects. cbn [access_of is_store]. fold a.
  assert (Hs' : s' = s1 /\ oe = e) by (destruct e; injection H as <- <-; split; reflexivity).
  destruct Hs' as [-> ->].
  assert (Ht : exists t' oe', (match e' with None => (t1, None) | Some e0 => (t1, Some e0) end) = (t', oe')
                              /\ t' = t1 /\ oe' = e') by (destruct e'; eexists; eexists; repeat split).
  destruct Ht as (t' & oe' & Et & -> & ->). rewrite Et. eexists; eexists. split; [reflexivity|].
  split; [exact Hcfg|].
  destruct (xw (store_bits o) a) eqn:Ex.
  - specialize (Hx eq_refl). destruct (ms_cfg (ms s)) as [[c wt]|] eqn:Eg.
    + destruct Hx as (e0 & He0 & -> & S1). rewrite He0. split; [reflexivity | exact S1].
    + destruct Hx as [-> S1]. split; [destruct e'; reflexivity | exact S1].
  - destruct (Hin eq_refl) as [-> S1].
    assert (G : match ms_cfg (ms s) with Some (c, wt) => @None err | None => None end = None)
      by (destruct (ms_cfg (ms s)) as [[? ?]|]; reflexivity).
    rewrite G. split; [reflexivity | exact S1].
Qed.

Lemma rejects_noaccess g i s : access_of i s = None -> rejects g i s = None.
Proof. intros H. unfold rejects. rewrite H. destruct g as [[c wt]|]; reflexivity. Qed.

Lemma emap_notaddr g st e : match e with EAddr _ _ _ _ => False | _ => True end -> emap g st e = e.
Proof. destruct g as [[c wt]|]; destruct e; cbn [emap]; intros H; try reflexivity; destruct H. Qed.

Lemma sim_behavior_ecall s t s' oe : sim s t ->
  behavior IEcall s = (s', oe) -> beh_goal IEcall s t s' oe.
Proof.
  intros S H. unfold beh_goal. cbn [behavior] in *.
  rewrite (rejects_noaccess _ IEcall s eq_refl). cbn [is_store].
  destruct (process_ecall s) as [r s1] eqn:Hp.
  destruct (sim_ecall s t r s1 S Hp) as (r' & Hp' & S1 & Hcfg & ->). rewrite Hp'.
  destruct r' as [[tx|c]|e]; cbn [rmapA] in H; injection H as <- <-; eexists; eexists; (split; [reflexivity|]).
  - split; [exact Hcfg|]. split; [reflexivity|]. apply sim_with_out; [exact S1|]. rewrite (sm_out _ _ S1). reflexivity.
  - split; [exact Hcfg|]. split; [reflexivity|]. apply sim_with_exit. exact S1.
  - split; [exact Hcfg|]. split; [reflexivity | exact S1].
Qed.

Lemma sim_behavior i s t s' oe : sim s t -> behavior i s = (s', oe) -> beh_goal i s t s' oe.
Proof.
  intros S H. destruct i;
    try (apply sim_behavior_load; assumption); try (apply sim_behavior_store; assumption);
    try (apply sim_behavior_ecall; assumption);
    unfold beh_goal; rewrite rejects_noaccess by reflexivity; cbn [behavior is_store] in *.
  - (* IR *) injection H as <- <-. eexists; eexists. split; [reflexivity|]. split; [apply f_equal, rset_ms|].
    split; [reflexivity|]. rewrite <- !(sim_rget s t _ S). apply sim_rset; [exact S | reflexivity].
  - (* II *) injection H as <- <-. eexists; eexists. split; [reflexivity|]. split; [apply f_equal, rset_ms|].
    split; [reflexivity|]. rewrite <- !(sim_rget s t _ S). apply sim_rset; [exact S | reflexivity].
  - (* ISh *) injection H as <- <-. eexists; eexists. split; [reflexivity|]. split; [apply f_equal, rset_ms|].
    split; [reflexivity|]. rewrite <- !(sim_rget s t _ S). apply sim_rset; [exact S | reflexivity].
  - (* IJalr *) injection H as <- <-. eexists; eexists. split; [reflexivity|].
    split; [cbn [with_pc ms]; apply f_equal, rset_ms|]. split; [reflexivity|].
    rewrite <- !(sim_rget s t _ S), <- (sm_pc _ _ S). apply sim_with_pc. apply sim_rset; [exact S | reflexivity].
  - (* IEbreak *) injection H as <- <-. eexists; eexists. split; [reflexivity|]. split; [reflexivity|].
    split; [cbn [option_map]; rewrite emap_notaddr by exact Logic.I; reflexivity | exact S].
  - (* IBranch *) rewrite <- !(sim_rget s t _ S).
    destruct (b_cond o (rget s rs1) (rget s rs2)); injection H as <- <-; eexists; eexists; (split; [reflexivity|]).
    + split; [reflexivity|]. split; [reflexivity|]. rewrite <- (sm_pc _ _ S), <- (sm_bc _ _ S).
      apply sim_with_bcount; [|reflexivity]. apply sim_with_pc. exact S.
    + split; [reflexivity|]. split; [reflexivity | exact S].
  - (* ILui *) injection H as <- <-. eexists; eexists. split; [reflexivity|]. split; [apply f_equal, rset_ms|].
    split; [reflexivity|]. apply sim_rset; [exact S | reflexivity].
  - (* IAuipc *) injection H as <- <-. eexists; eexists. split; [reflexivity|]. split; [apply f_equal, rset_ms|].
    split; [reflexivity|]. rewrite <- (sm_pc _ _ S). apply sim_rset; [exact S | reflexivity].
  - (* IJal *) injection H as <- <-. eexists; eexists. split; [reflexivity|].
    split; [cbn [with_pcount with_pc ms]; apply f_equal, rset_ms|]. split; [reflexivity|].
    assert (S1 : sim (rset s rd (U32 (pc s + 4))) (rset t rd (U32 (pc t + 4))))
      by (apply sim_rset; [exact S | rewrite (sm_pc _ _ S); reflexivity]).
    rewrite <- (sm_pc _ _ S1), <- (sm_pcn _ _ S1). apply sim_with_pcount; [|reflexivity]. apply sim_with_pc. exact S1.
  - (* IFence *) injection H as <- <-. eexists; eexists. split; [reflexivity|]. split; [reflexivity|].
    split; [cbn [option_map]; rewrite emap_notaddr by exact Logic.I; reflexivity | exact S].
  - (* ICsr *) injection H as <- <-. eexists; eexists. split; [reflexivity|]. split; [reflexivity|].
    split; [cbn [option_map]; rewrite emap_notaddr by exact Logic.I; reflexivity | exact S].
  - (* ICsri *) injection H as <- <-. eexists; eexists. split; [reflexivity|]. split; [reflexivity|].
    split; [cbn [option_map]; rewrite emap_notaddr by exact Logic.I; reflexivity | exact S].
Qed.

(** * One single-cycle step *)
(* the uncounted re-read of the single-cycle MEM display *)
Definition reread (i : instr) (s2 : st) (la : Z) : st * option err :=
  match i with
  | ILoad o _ _ _ =>
      match st_read s2 (load_bits o) la false with
      | (Ok _, s') => (s', None)
      | (Err e, s') => (s', Some e)
      end
  | _ => (s2, None)
  end.

Lemma single_stage_eq s :
  single_stage s =
  if has_instr (im s) (pc s) then
    let s0 := with_icount s (icount s + 1) in
    let a := pc s0 in
    match fetch s0 a with
    | (None, s1) => (s1, None)
    | (Some i, s1) =>
        match behavior i s1 with
        | (s2, Some e) => (s2, Some {| f_addr := a; f_instr := i; f_err := e |})
        | (s2, None) =>
            match reread i s2 (load_addr_pre i s1) with
            | (s3, Some e) => (s3, Some {| f_addr := a; f_instr := i; f_err := e |})
            | (s3, None) => (with_pc s3 (pc s3 + 4), None)
            end
        end
    end
  else (s, None).
Proof.
  unfold single_stage. destruct (has_instr (im s) (pc s)); [|reflexivity]. cbv zeta.
  destruct (fetch _ _) as [[i|] s1]; [|reflexivity].
  destruct (behavior i s1) as [s2 [e|]]; [reflexivity|].
  unfold reread. destruct i; try reflexivity.
Qed.

Lemma sim_reread i s2 t2 la s3 oe : sim s2 t2 ->
  (forall o rd rs1 imm, i = ILoad o rd rs1 imm -> ms_cfg (ms s2) = None \/ xw (load_bits o) la = false) ->
  reread i s2 la = (s3, oe) ->
  exists t3 oe', reread i t2 la = (t3, oe') /\ ms_cfg (ms s3) = ms_cfg (ms s2) /\
    oe = option_map (emap (ms_cfg (ms s2)) false) oe' /\ sim s3 t3.
Proof.
  intros S Hc H. unfold reread in *.
  destruct i; try (injection H as <- <-; eexists; eexists; split; [reflexivity|];
                   split; [reflexivity|]; split; [reflexivity | exact S]).
  destruct (st_read s2 (load_bits o) la false) as [r s1] eqn:Hr.
  destruct (sim_st_read s2 t2 _ _ false r s1 S (okw_load o) Hr) as (r' & Hr' & S1 & Hcfg & Hin & Hx).
  rewrite Hr'.
  assert (E : r = rmap (ms_cfg (ms s2)) r').
  { destruct (xw (load_bits o) la) eqn:Ex; [|apply Hin; reflexivity].
    destruct (Hc o rd rs1 imm eq_refl) as [Hn|Hf]; [|congruence].
    specialize (Hx eq_refl). rewrite Hn in *. rewrite rmap_none. exact Hx. }
  subst r. destruct r' as [v|e]; cbn [rmap] in H; injection H as <- <-;
    (eexists; eexists; split; [reflexivity|]; split; [exact Hcfg|]; split; [reflexivity | exact S1]).
Qed.

Lemma rejects_regs g i s s2 : regs s = regs s2 -> rejects g i s = rejects g i s2.
Proof. intros H. unfold rejects, access_of, rget. rewrite H. reflexivity. Qed.

Lemma xw_cong nb a a' : a mod 4294967296 = a' mod 4294967296 -> xw nb a = xw nb a'.
Proof. intros H. unfold xw. rewrite H. reflexivity. Qed.

Definition mkfault (a : Z) (i : instr) (e : err) : fault := {| f_addr := a; f_instr := i; f_err := e |}.

Lemma sim_single_step s t s' of : sim s t -> single_pipeline_step s = (s', of) ->
  exists t' of', single_pipeline_step t = (t', of') /\ ms_cfg (ms s') = ms_cfg (ms s) /\
    match instr_at (prog (im s)) (pc s) with
    | None => of = None /\ of' = None /\ sim s' t'
    | Some i =>
        match rejects (ms_cfg (ms s)) i s with
        | Some e => of = Some (mkfault (pc s) i e) /\ sim s' (with_icount t (icount t + 1))
        | None => of = option_map (fmap (ms_cfg (ms s))) of' /\ sim s' t'
        end
    end.
Proof.
  intros S H. unfold single_pipeline_step in *. rewrite single_stage_eq in *.
  set (s0 := with_cycles s (cycles s + 1)) in *. set (t0 := with_cycles t (cycles t + 1)).
  assert (S0 : sim s0 t0) by (apply sim_cycles_l, sim_cycles_r; exact S).
  rewrite <- (sim_has_instr s0 t0 S0).
  change (im s0) with (im s) in *. change (pc s0) with (pc s) in *.
  unfold has_instr in *. destruct (instr_at (prog (im s)) (pc s)) as [i|] eqn:Ei.
  2:{ injection H as <- <-. eexists; eexists. split; [reflexivity|]. split; [reflexivity|].
      split; [reflexivity|]. split; [reflexivity | exact S0]. }
  cbv zeta in *.
  set (s1 := with_icount s0 (icount s0 + 1)) in *. set (t1 := with_icount t0 (icount t0 + 1)).
  assert (S1 : sim s1 t1) by (apply sim_with_icount; [exact S0 | rewrite (sm_ic _ _ S0); reflexivity]).
  assert (Hh : has_instr (im s1) (pc s1) = true) by (unfold has_instr; change (im s1) with (im s); change (pc s1) with (pc s); rewrite Ei; reflexivity).
  destruct (fetch s1 (pc s1)) as [oi s1f] eqn:Hf.
  destruct (sim_fetch_l s1 t1 _ oi s1f S1 Hh Hf) as (S1f & Eoi & Hms1 & Hr1 & Hpc1).
  change (prog (im s1)) with (prog (im s)) in Eoi. change (pc s1) with (pc s) in Eoi, H. rewrite Ei in Eoi. subst oi.
  rewrite (fetch_flat t1 (pc t1) (sm_noic _ _ S1)).
  change (prog (im t1)) with (prog (im t)). change (pc t1) with (pc t).
  rewrite <- (sm_prog _ _ S), <- (sm_pc _ _ S), Ei.
  set (t1f := with_cycles (with_im t1 (im t1)) (cycles t1 + 0)).
  assert (S1f' : sim s1f t1f) by (apply sim_cycles_r, sim_with_im_r; exact S1f).
  assert (Hcfg1 : ms_cfg (ms s1f) = ms_cfg (ms s)) by (rewrite Hms1; reflexivity).
  assert (Hrej : rejects (ms_cfg (ms s)) i s = rejects (ms_cfg (ms s1f)) i s1f)
    by (rewrite Hcfg1; apply rejects_regs; rewrite Hr1; reflexivity).
  destruct (behavior i s1f) as [s2 oe] eqn:Hb.
  destruct (rejects (ms_cfg (ms s)) i s) as [e|] eqn:Er.
  - (* rejected by the cache *)
    assert (SX : sim s1f (with_icount t (icount t + 1))).
    { refine (proj1 (sim_fetch_l s1 (with_icount t (icount t + 1)) (pc s1) (Some i) s1f _ Hh Hf)).
      apply sim_with_icount; [apply sim_cycles_l; exact S | change (icount s0) with (icount s); rewrite (sm_ic _ _ S); reflexivity]. }
    destruct (sim_behavior i s1f _ s2 oe SX Hb) as (tx & oex & _ & Hcfg2 & Hres).
    rewrite <- Hrej in Hres. destruct Hres as [-> S2]. injection H as <- <-.
    destruct (behavior i t1f) as [t2 [e2|]];
      [|destruct (reread i t2 (load_addr_pre i t1f)) as [t3 [e3|]]];
      (eexists; eexists; split; [reflexivity|]; split; [rewrite Hcfg2; exact Hcfg1|];
       split; [reflexivity | exact S2]).
  - destruct (sim_behavior i s1f t1f s2 oe S1f' Hb) as (t2 & oe' & Hb' & Hcfg2 & Hres).
    rewrite <- Hrej in Hres. destruct Hres as [-> S2]. rewrite Hb'. rewrite Hcfg1 in *.
    destruct oe' as [e'|]; cbn [option_map] in H.
    + injection H as <- <-. eexists; eexists. split; [reflexivity|]. split; [rewrite Hcfg2; reflexivity|].
      split; [reflexivity | exact S2].
    + destruct (reread i s2 (load_addr_pre i s1f)) as [s3 oe3] eqn:Hrr.
      assert (Hla : load_addr_pre i s1f = load_addr_pre i t1f)
        by (unfold load_addr_pre; destruct i; try reflexivity; rewrite (sim_rget _ _ _ S1f'); reflexivity).
      rewrite <- Hla.
      assert (Hside : forall o rd rs1 imm, i = ILoad o rd rs1 imm ->
                ms_cfg (ms s2) = None \/ xw (load_bits o) (load_addr_pre i s1f) = false).
      { intros o rd rs1 imm ->. rewrite Hcfg2. destruct (ms_cfg (ms s)) as [[c wt]|] eqn:Eg; [right | left; reflexivity].
        unfold rejects in Hrej. cbn [access_of] in Hrej.
        rewrite (xw_cong _ _ (rget s1f rs1 + imm)).
        - destruct (xw (load_bits o) (rget s1f rs1 + imm)) eqn:Ex; [|reflexivity].
          destruct (cerr_xw c wt false (load_bits o) (rget s1f rs1 + imm) Ex) as [e0 He0].
          rewrite He0 in Hrej. discriminate.
        - cbn [load_addr_pre]. rewrite U32_eq. rewrite Z.add_mod_idemp_l by lia. reflexivity. }
      destruct (sim_reread i s2 t2 _ s3 oe3 S2 Hside Hrr) as (t3 & oe3' & Hrr' & Hcfg3 & -> & S3).
      rewrite Hrr'. rewrite Hcfg2 in *.
      destruct oe3' as [e3|]; cbn [option_map] in H; injection H as <- <-;
        eexists; eexists; (split; [reflexivity|]).
      * split; [exact Hcfg3|]. split; [|exact S3]. unfold fmap. cbn [f_addr f_instr f_err mkfault].
        destruct i; try discriminate Hrr; reflexivity.
      * split; [exact Hcfg3|]. split; [reflexivity|]. apply sim_with_pc2; [exact S3 | rewrite (sm_pc _ _ S3); reflexivity].
Qed.

(** * Runs: agreement up to the first cache rejection *)
Definition single_rejects (s : st) (fc : fault) : Prop :=
  exists i e, instr_at (prog (im s)) (pc s) = Some i /\ rejects (ms_cfg (ms s)) i s = Some e /\
              fc = mkfault (pc s) i e.

Lemma sim_single_done s t : sim s t -> single_done s = single_done t.
Proof.
  intros S. unfold single_done. rewrite (sm_exit _ _ S), (sim_has_instr s t S). reflexivity.
Qed.

Definition run_goal (n : nat) (s t : st) : Prop :=
  match single_run n s with
  | (s', Done) => exists t', single_run n t = (t', Done) /\ sim s' t'
  | (s', OutOfFuel) => exists t', single_run n t = (t', OutOfFuel) /\ sim s' t'
  | (s', Faulted fc) =>
      (exists t' ff, single_run n t = (t', Faulted ff) /\ fc = fmap (ms_cfg (ms s)) ff /\ sim s' t') \/
      (exists k sk tk, (k < n)%nat /\ single_run k s = (sk, OutOfFuel) /\ single_run k t = (tk, OutOfFuel) /\
         sim sk tk /\ single_rejects sk fc /\ sim s' (with_icount tk (icount tk + 1)))
  end.

Lemma sim_single_run n : forall s t, sim s t -> run_goal n s t.
Proof.
  induction n as [|n IH]; intros s t Hsim; unfold run_goal; cbn [single_run];
    rewrite <- (sim_single_done s t Hsim).
  - destruct (single_done s); eexists; (split; [reflexivity | exact Hsim]).
  - destruct (single_done s) eqn:Hd; [eexists; split; [reflexivity | exact Hsim]|].
    destruct (single_pipeline_step s) as [s1 of] eqn:Hs.
    destruct (sim_single_step s t s1 of Hsim Hs) as (t1 & of' & Ht & Hcfg & Hres). rewrite Ht.
    assert (Hnf : of = None -> of' = None -> sim s1 t1 ->
      match (let (s', r) := single_run n s1 in (s', r)) with
      | (s', Done) => exists t', single_run n t1 = (t', Done) /\ sim s' t'
      | (s', OutOfFuel) => exists t', single_run n t1 = (t', OutOfFuel) /\ sim s' t'
      | (s', Faulted fc) =>
         (exists t' ff, single_run n t1 = (t', Faulted ff) /\ fc = fmap (ms_cfg (ms s)) ff /\ sim s' t') \/
         (exists k sk tk, (k < S n)%nat /\ single_run k s = (sk, OutOfFuel) /\ single_run k t = (tk, OutOfFuel) /\
            sim sk tk /\ single_rejects sk fc /\ sim s' (with_icount tk (icount tk + 1)))
      end).
    { intros E1 E2 S1. subst of of'. specialize (IH s1 t1 S1). unfold run_goal in IH.
      destruct (single_run n s1) as [s' [|fc|]]; [exact IH | | exact IH].
      destruct IH as [(t' & ff & R & E & S')|(k & sk & tk & Hk & R1 & R2 & Sk & Rej & S')].
      - left. exists t', ff. rewrite <- Hcfg. split; [exact R | split; [exact E | exact S']].
      - right. exists (S k), sk, tk. split; [lia|]. cbn [single_run].
        rewrite <- (sim_single_done s t Hsim), Hd, Hs, Ht.
        split; [exact R1|]. split; [exact R2|]. split; [exact Sk|]. split; [exact Rej | exact S']. }
    destruct (instr_at (prog (im s)) (pc s)) as [i|] eqn:Ei.
    2:{ destruct Hres as (-> & -> & S1). specialize (Hnf eq_refl eq_refl S1).
        destruct (single_run n s1) as [s' r]. exact Hnf. }
    destruct (rejects (ms_cfg (ms s)) i s) as [e|] eqn:Er.
    + destruct Hres as [-> S1]. right. exists 0%nat, s, t. split; [lia|]. cbn [single_run].
      rewrite <- (sim_single_done s t Hsim), Hd. split; [reflexivity|]. split; [reflexivity|].
      split; [exact Hsim|]. split; [|exact S1]. exists i, e. split; [exact Ei|]. split; [exact Er | reflexivity].
    + destruct Hres as [-> S1]. destruct of' as [ff|]; cbn [option_map].
      * left. exists t1, ff. split; [reflexivity|]. split; [reflexivity | exact S1].
      * specialize (Hnf eq_refl eq_refl S1). destruct (single_run n s1) as [s' r]. exact Hnf.
Qed.

(** * The statements about [flatten] *)
Lemma single_step_lift s : cache_ok s ->
  let '(s', of) := single_pipeline_step s in
  let '(t', of') := single_pipeline_step (flatten s) in
  cache_ok s' /\ ms_cfg (ms s') = ms_cfg (ms s) /\
  match of with
  | None => of' = None /\ same_arch s' t'
  | Some f =>
      (exists ff, of' = Some ff /\ f = fmap (ms_cfg (ms s)) ff /\ same_arch s' t') \/
      (exists i e, instr_at (prog (im s)) (pc s) = Some i /\ rejects (ms_cfg (ms s)) i s = Some e /\
                   f = mkfault (pc s) i e /\ same_arch s' (with_icount (flatten s) (icount s + 1)))
  end.
Proof.
  intros Hok. pose proof (sim_flatten s Hok) as Hsim.
  destruct (single_pipeline_step s) as [s' of] eqn:Hs.
  destruct (sim_single_step s (flatten s) s' of Hsim Hs) as (t' & of' & Ht & Hcfg & Hres). rewrite Ht.
  destruct (instr_at (prog (im s)) (pc s)) as [i|] eqn:Ei.
  - destruct (rejects (ms_cfg (ms s)) i s) as [e|] eqn:Er.
    + destruct Hres as [-> S1]. split; [apply (sim_cache_ok _ _ S1)|]. split; [exact Hcfg|].
      right. exists i, e. split; [reflexivity|]. split; [exact Er|]. split; [reflexivity|].
      apply sim_same_arch. exact S1.
    + destruct Hres as [-> S1]. split; [apply (sim_cache_ok _ _ S1)|]. split; [exact Hcfg|].
      destruct of' as [ff|]; cbn [option_map].
      * left. exists ff. split; [reflexivity|]. split; [reflexivity|]. apply sim_same_arch. exact S1.
      * split; [reflexivity|]. apply sim_same_arch. exact S1.
  - destruct Hres as (-> & -> & S1). split; [apply (sim_cache_ok _ _ S1)|]. split; [exact Hcfg|].
    split; [reflexivity|]. apply sim_same_arch. exact S1.
Qed.

Lemma single_run_lift n s : cache_ok s ->
  match single_run n s with
  | (s', Done) => exists t', single_run n (flatten s) = (t', Done) /\ same_arch s' t' /\ cache_ok s'
  | (s', OutOfFuel) => exists t', single_run n (flatten s) = (t', OutOfFuel) /\ same_arch s' t' /\ cache_ok s'
  | (s', Faulted f) =>
      (exists t' ff, single_run n (flatten s) = (t', Faulted ff) /\ f = fmap (ms_cfg (ms s)) ff /\
                     same_arch s' t') \/
      (exists k sk tk, (k < n)%nat /\ single_run k s = (sk, OutOfFuel) /\
         single_run k (flatten s) = (tk, OutOfFuel) /\ same_arch sk tk /\ single_rejects sk f /\
         same_arch s' (with_icount tk (icount tk + 1)))
  end.
Proof.
  intros Hok. pose proof (sim_single_run n s (flatten s) (sim_flatten s Hok)) as H. unfold run_goal in H.
  destruct (single_run n s) as [s' [|f|]].
  - destruct H as (t' & R & S'). exists t'. split; [exact R|]. split; [apply sim_same_arch | apply (sim_cache_ok _ _ S')]. exact S'.
  - destruct H as [(t' & ff & R & E & S')|(k & sk & tk & Hk & R1 & R2 & Sk & Rej & S')].
    + left. exists t', ff. split; [exact R|]. split; [exact E|]. apply sim_same_arch. exact S'.
    + right. exists k, sk, tk. split; [exact Hk|]. split; [exact R1|]. split; [exact R2|].
      split; [apply sim_same_arch; exact Sk|]. split; [exact Rej|]. apply sim_same_arch. exact S'.
  - destruct H as (t' & R & S'). exists t'. split; [exact R|]. split; [apply sim_same_arch | apply (sim_cache_ok _ _ S')]. exact S'.
Qed.

(** * The vocabulary means what it says *)
Lemma rejects_meaning g i s e :
  rejects g i s = Some e <->
  exists c wt w nb a, g = Some (c, wt) /\ access_of i s = Some (w, nb, a) /\
    (a mod 4294967296) mod 4 + nb / 8 > 4 /\
    e = (if (w && wt) || (16384 <=? a mod 4294967296)
         then EOffset ((a mod 4294967296) mod 4) (4 - nb / 8)
         else EAddr (balign_of c a) 16384 4294967295 false).
Proof.
  unfold rejects. split.
  - destruct g as [[c wt]|]; [|discriminate]. destruct (access_of i s) as [[[w nb] a]|]; [|discriminate].
    destruct (xw nb a) eqn:Ex; [|discriminate]. intros H. exists c, wt, w, nb, a.
    split; [reflexivity|]. split; [reflexivity|]. split; [unfold xw in Ex; lia|].
    unfold cerr in H. rewrite Ex in H. destruct (w && wt); cbn [orb]; [injection H as <-; reflexivity|].
    destruct (a mod 4294967296 <? 16384) eqn:El; injection H as <-.
    + replace (16384 <=? a mod 4294967296) with false by lia. reflexivity.
    + replace (16384 <=? a mod 4294967296) with true by lia. reflexivity.
  - intros (c & wt & w & nb & a & -> & -> & Hx & ->).
    assert (Ex : xw nb a = true) by (unfold xw; lia). rewrite Ex. unfold cerr. rewrite Ex.
    destruct (w && wt); cbn [orb]; [reflexivity|].
    destruct (a mod 4294967296 <? 16384) eqn:El.
    + replace (16384 <=? a mod 4294967296) with false by lia. reflexivity.
    + replace (16384 <=? a mod 4294967296) with true by lia. reflexivity.
Qed.

(** * Initial states *)
Definition mk_icache (ic : option (ccfg * Z)) : option icache :=
  match ic with Some (g, ipen) => Some (icache_init g ipen) | None => None end.

Lemma cache_ok_init_lem p c wt pen (ic : option (ccfg * Z)) :
  cfg_ok c -> Z.of_nat (length p) <= 1073741824 ->
  match ic with Some (g, ipen) => 0 <= ibits g /\ 0 <= bbits g | None => True end ->
  cache_ok (init_st p (MCache (dcache_init c wt pen))
              (match ic with Some (g, ipen) => Some (icache_init g ipen) | None => None end)).
Proof.
  intros Hc Hl Hi. unfold cache_ok, init_st. cbn [ms im prog ms_ok].
  split; [apply cinv_init_proof; exact Hc|]. split; [|exact Hl].
  destruct ic as [[g ipen]|]; [apply iinv_init_proof; tauto | apply iinv_none].
Qed.

(* a cached initial state is simulated by the plain uncached initial state *)
Lemma sim_init p c wt pen ic : cfg_ok c -> Z.of_nat (length p) <= 1073741824 ->
  match ic with Some (g, ipen) => 0 <= ibits g /\ 0 <= bbits g | None => True end ->
  sim (init_st p (MCache (dcache_init c wt pen)) (mk_icache ic)) (init_st p (MFlat []) None).
Proof.
  intros Hc Hl Hi. destruct (cache_ok_init_lem p c wt pen ic Hc Hl Hi) as (Hm & Hii & Hlen).
  constructor; cbn [init_st pc regs ms im out exitc icount bcount pcount stalls flushes prog icc];
    try reflexivity; try assumption.
  split; [exact Hm|]. exists []. split; [reflexivity|]. split; [apply bytes_ok_nil|].
  intros a _. cbn [ms_logical]. unfold logical, dcache_init. cbn [dc lower].
  rewrite (init_logical c [] a Hc). reflexivity.
Qed.

Lemma single_run_on_off n p c wt pen ic : cfg_ok c -> Z.of_nat (length p) <= 1073741824 ->
  match ic with Some (g, ipen) => 0 <= ibits g /\ 0 <= bbits g | None => True end ->
  let s := init_st p (MCache (dcache_init c wt pen)) (mk_icache ic) in
  let t := init_st p (MFlat []) None in
  match single_run n s with
  | (s', Done) => exists t', single_run n t = (t', Done) /\ same_arch s' t'
  | (s', OutOfFuel) => exists t', single_run n t = (t', OutOfFuel) /\ same_arch s' t'
  | (s', Faulted f) =>
      (exists t' ff, single_run n t = (t', Faulted ff) /\ f = fmap (Some (c, wt)) ff /\ same_arch s' t') \/
      (exists k sk tk, (k < n)%nat /\ single_run k s = (sk, OutOfFuel) /\
         single_run k t = (tk, OutOfFuel) /\ same_arch sk tk /\ single_rejects sk f /\
         same_arch s' (with_icount tk (icount tk + 1)))
  end.
Proof.
  intros Hc Hl Hi. cbv zeta.
  pose proof (sim_single_run n _ _ (sim_init p c wt pen ic Hc Hl Hi)) as H. unfold run_goal in H.
  destruct (single_run n (init_st p (MCache (dcache_init c wt pen)) (mk_icache ic))) as [s' [|f|]].
  - destruct H as (t' & R & S'). exists t'. split; [exact R | apply sim_same_arch; exact S'].
  - destruct H as [(t' & ff & R & E & S')|(k & sk & tk & Hk & R1 & R2 & Sk & Rej & S')].
    + left. exists t', ff. split; [exact R|]. split; [exact E|]. apply sim_same_arch. exact S'.
    + right. exists k, sk, tk. split; [exact Hk|]. split; [exact R1|]. split; [exact R2|].
      split; [apply sim_same_arch; exact Sk|]. split; [exact Rej|]. apply sim_same_arch. exact S'.
  - destruct H as (t' & R & S'). exists t'. split; [exact R | apply sim_same_arch; exact S'].
Qed.
