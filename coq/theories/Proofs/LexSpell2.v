(* LexSpell2.v — the assembler on related token lines: same data memory and variable table, related expansion,
   same labels, same instructions: [assemble] and [rv_load] give the same result. *)
From Coq Require Import ZArith List Bool Lia.
From ArchSim Require Import Model.Base Model.Mem Model.Cache Model.Fmt Model.RV Model.Toy Model.Asm
  Proofs.LexSpell1.
Import ListNotations.
Open Scope Z_scope.

(** * data *)
Lemma write_vals_rel v v' : Forall2 lit0_eq v v' -> forall m nbits stride a ln,
  write_vals m nbits stride a v ln = write_vals m nbits stride a v' ln.
Proof.
  induction 1 as [|x y v v' Hxy _ IH]; intros m nbits stride a ln; [reflexivity|].
  cbn [write_vals]. unfold lit0_eq in Hxy. rewrite <- Hxy. destruct (py_int0 x); [|reflexivity].
  destruct (dwrite m nbits a (U nbits z)); [apply IH|reflexivity].
Qed.

Lemma write_data_rel d d' : toks_rel d d' -> forall m a vars, write_data d m a vars = write_data d' m a vars.
Proof.
  induction 1 as [|[ln x] [ln' y] d d' Hp _ IH]; intros m a vars; [reflexivity|].
  destruct Hp as [Hk Hx]. cbn [fst snd] in Hk, Hx. subst ln'. cbn [write_data].
  destruct x as [dd|n ty v|n s|n v|n|il b], y as [dd'|n' ty' v'|n' s'|n' v'|n'|il' b']; cbn in Hx; try contradiction;
    try reflexivity.
  - destruct Hx as (<- & <- & Hv). destruct (var_lookup vars n); [reflexivity|].
    destruct (if ty =? 0 then (8, 1) else if ty =? 1 then (16, 2) else (32, 4)) as [nbits stride].
    rewrite (write_vals_rel _ _ Hv). destruct (write_vals m nbits stride (align4 a) v' ln) as [[m' a']|]; [|reflexivity].
    destruct (a' >? data_limit); [reflexivity|apply IH].
  - destruct Hx as (<- & <-). destruct (var_lookup vars n); [reflexivity|].
    destruct (write_chars m (align4 a) (strip_quotes s)) as [[m' a']|]; [|reflexivity].
    destruct (dwrite m' 8 a' 0); [|reflexivity]. destruct (a' + 1 >? data_limit); [reflexivity|apply IH].
  - destruct Hx as (<- & Hv). unfold lit10_eq in Hv. destruct (var_lookup vars n); [reflexivity|]. rewrite <- Hv.
    destruct (py_int10 v); [|reflexivity]. destruct (align4 a + 4 * z >? data_limit); [reflexivity|apply IH].
Qed.

(** * fields *)
Lemma need_reg_rel r r' ln : orel reg_eq r r' -> need_reg r ln = need_reg r' ln.
Proof. destruct r, r'; cbn; intros H; try contradiction; [|reflexivity]. unfold reg_eq in H. rewrite H. reflexivity. Qed.
Lemma need_int_rel s s' ln : orel lit0_eq s s' -> need_int s ln = need_int s' ln.
Proof. destruct s, s'; cbn; intros H; try contradiction; [|reflexivity]. unfold lit0_eq in H. rewrite H. reflexivity. Qed.
Lemma orel_some {A} (R : A -> A -> Prop) a b : orel R a b -> (a = None <-> b = None).
Proof. destruct a, b; cbn; intros H; try contradiction; split; congruence. Qed.

Lemma label_or_imm_rel i j lb a ln : itok_rel i j -> label_or_imm i lb a ln = label_or_imm j lb a ln.
Proof.
  intros (Hmn & _ & _ & _ & _ & _ & _ & Himm & _ & _ & Hoff & Hlab & _). unfold label_or_imm.
  destruct (k_imm i) as [s|], (k_imm j) as [s'|]; cbn in Himm; try contradiction.
  - rewrite (need_int_rel (Some s) (Some s') ln Himm). reflexivity.
  - rewrite Hlab. destruct (k_offset i) as [o|], (k_offset j) as [o'|]; cbn in Hoff; try contradiction; [|reflexivity].
    rewrite (need_int_rel (Some o) (Some o') ln Hoff). reflexivity.
Qed.

Lemma instantiate_one_rel i j lb a ln : itok_rel i j -> instantiate_one i lb a ln = instantiate_one j lb a ln.
Proof.
  intros H. pose proof (label_or_imm_rel i j lb a ln H) as HL.
  destruct H as (Hmn & Hrd & Hrs1 & Hrs2 & Hr1 & Hr2 & Hrs & Himm & Hcsr & Hu & Hoff & Hlab & Hvar).
  unfold instantiate_one. rewrite <- Hmn, <- HL.
  rewrite <- (need_reg_rel _ _ ln Hrd), <- (need_reg_rel _ _ ln Hrs1), <- (need_reg_rel _ _ ln Hrs2),
    <- (need_reg_rel _ _ ln Hr1), <- (need_reg_rel _ _ ln Hr2),
    <- (need_int_rel _ _ ln Himm), <- (need_int_rel _ _ ln Hcsr), <- (need_int_rel _ _ ln Hu).
  destruct (k_imm i), (k_imm j); cbn in Himm; try contradiction; reflexivity.
Qed.

(** * pseudo-instructions *)
Lemma var_address_rel vars v v' ln : var_eq v v' -> var_address vars v ln = var_address vars v' ln.
Proof.
  intros [Hn Hi]. unfold var_address. rewrite <- Hn. destruct (var_lookup vars (fst v)) as [[a size]|]; [|reflexivity].
  destruct (snd v) as [d|], (snd v') as [d'|]; cbn in Hi; try contradiction; [|reflexivity].
  unfold lit10_eq in Hi. rewrite Hi. reflexivity.
Qed.

Lemma tok_rri_rel mn a a' b b' s : reg_eq a a' -> reg_eq b b' -> itok_rel (tok_rri mn a b s) (tok_rri mn a' b' s).
Proof. intros Ha Hb. unfold itok_rel, tok_rri; cbn. repeat split; auto. Qed.
Lemma tok_u_rel mn a a' s : reg_eq a a' -> itok_rel (tok_u mn a s) (tok_u mn a' s).
Proof. intros Ha. unfold itok_rel, tok_u; cbn. repeat split; auto. Qed.

Definition bodies_rel := Forall2 tbody_rel.
Lemma F1 {A} (R : A -> A -> Prop) a b : R a b -> Forall2 R [a] [b].
Proof. intros; repeat constructor; assumption. Qed.
Lemma F2 {A} (R : A -> A -> Prop) a b c d : R a b -> R c d -> Forall2 R [a; c] [b; d].
Proof. intros; repeat constructor; assumption. Qed.
Lemma F3 {A} (R : A -> A -> Prop) a b c d e f : R a b -> R c d -> R e f -> Forall2 R [a; c; e] [b; d; f].
Proof. intros; repeat constructor; assumption. Qed.

Lemma expand_one_rel vars ln b b' : tbody_rel b b' -> pres_rel bodies_rel (expand_one vars ln b) (expand_one vars ln b').
Proof.
  destruct b as [k|i|], b' as [k'|j|]; cbn [tbody_rel]; intros H; try contradiction.
  - subst k'. unfold expand_one. destruct k as [|[q|[r|r|]|]|q]; cbn [pres_rel]; apply F1; cbn; auto. apply itok_rel_refl.
  - pose proof H as (Hmn & Hrd & Hrs1 & Hrs2 & Hr1 & Hr2 & Hrs & Himm & Hcsr & Hu & Hoff & Hlab & Hvar).
    unfold expand_one. rewrite <- Hmn.
    destruct (k_mn i =? MN_LI).
    { destruct (k_rd i) as [rd|], (k_rd j) as [rd'|]; cbn in Hrd; try contradiction; [|reflexivity].
      destruct (k_imm i) as [s|], (k_imm j) as [s'|]; cbn in Himm; try contradiction; [|reflexivity].
      unfold lit0_eq in Himm. rewrite <- Himm. destruct (py_int0 s) as [imm|]; [|reflexivity].
      destruct (hi_lo imm) as [hi lo]. destruct ((imm >? 2047) || (imm <? -2048)); cbn [pres_rel].
      - apply F2; [apply tok_u_rel|apply tok_rri_rel]; assumption.
      - apply F1. apply tok_rri_rel; [assumption|reflexivity]. }
    destruct (is_load_mn (k_mn i) || (k_mn i =? MN_LA)).
    { destruct (k_var i) as [v|], (k_var j) as [v'|]; cbn in Hvar; try contradiction;
        [|cbn [pres_rel]; apply F1; exact H].
      rewrite <- (var_address_rel vars v v' ln Hvar). destruct (var_address vars v ln) as [a|]; [|reflexivity].
      destruct (k_reg1 i) as [r|], (k_reg1 j) as [r'|]; cbn in Hr1; try contradiction; [|reflexivity].
      destruct (hi_lo a) as [hi lo]. destruct (is_load_mn (k_mn i)); cbn [pres_rel app].
      - apply F3; [apply tok_u_rel|apply tok_rri_rel|apply tok_rri_rel]; assumption.
      - apply F2; [apply tok_u_rel|apply tok_rri_rel]; assumption. }
    destruct (is_store_mn (k_mn i)).
    { destruct (k_var i) as [v|], (k_var j) as [v'|]; cbn in Hvar; try contradiction;
        [|cbn [pres_rel]; apply F1; exact H].
      rewrite <- (var_address_rel vars v v' ln Hvar). destruct (var_address vars v ln) as [a|]; [|reflexivity].
      destruct (k_reg1 i) as [r|], (k_reg1 j) as [r'|]; cbn in Hr1; try contradiction; [|reflexivity].
      destruct (k_reg2 i) as [rt|], (k_reg2 j) as [rt'|]; cbn in Hr2; try contradiction; [|reflexivity].
      destruct (hi_lo a) as [hi lo]. cbn [pres_rel].
      apply F3; [apply tok_u_rel|apply tok_rri_rel|apply tok_rri_rel]; assumption. }
    destruct (k_mn i =? MN_MV); [|cbn [pres_rel]; apply F1; exact H].
    destruct (k_rd i) as [rd|], (k_rd j) as [rd'|]; cbn in Hrd; try contradiction; [|reflexivity].
    destruct (k_rs i) as [rs|], (k_rs j) as [rs'|]; cbn in Hrs; try contradiction; [|reflexivity].
    cbn [pres_rel]. apply F1. apply tok_rri_rel; assumption.
  - cbn. apply F1. exact Logic.I.
Qed.

Lemma expand_all_rel vars t t' : text_rel t t' -> pres_rel text_rel (expand_all vars t) (expand_all vars t').
Proof.
  induction 1 as [|[ln e] [ln' e'] t t' Hp _ IH]; [constructor|].
  destruct Hp as [Hk He]. cbn [fst snd] in Hk, He. subst ln'. cbn [expand_all].
  destruct e as [n|b], e' as [n'|b']; cbn in He; try contradiction.
  - subst n'. destruct (expand_all vars t) as [r|], (expand_all vars t') as [r'|]; cbn in IH; try contradiction; cbn.
    + constructor; [split; reflexivity|exact IH].
    + exact IH.
  - pose proof (expand_one_rel vars ln b b' He) as E1.
    destruct (expand_one vars ln b) as [bs|], (expand_one vars ln b') as [bs'|]; cbn in E1; try contradiction; [|exact E1].
    destruct (expand_all vars t) as [r|], (expand_all vars t') as [r'|]; cbn in IH; try contradiction; cbn; [|exact IH].
    apply Forall2_app; [|exact IH]. clear - E1. induction E1; cbn [map]; constructor; [split; [reflexivity|assumption]|assumption].
Qed.

(** * labels and instructions *)
Lemma body_is_instruction_rel b b' : tbody_rel b b' -> body_is_instruction b = body_is_instruction b'.
Proof.
  destruct b, b'; cbn; intros H; try contradiction; try reflexivity; [subst; reflexivity|].
  destruct H as [H _]. rewrite H. reflexivity.
Qed.
Lemma rv_labels_rel t t' : text_rel t t' -> forall inl addr labels last,
  rv_labels t inl addr labels last = rv_labels t' inl addr labels last.
Proof.
  induction 1 as [|[ln e] [ln' e'] t t' Hp _ IH]; intros inl addr labels last; [reflexivity|].
  destruct Hp as [Hk He]. cbn [fst snd] in Hk, He. subst ln'. cbn [rv_labels].
  destruct e as [n|b], e' as [n'|b']; cbn in He; try contradiction.
  - subst n'. destruct (add_label labels n addr ln); [apply IH|reflexivity].
  - rewrite <- (body_is_instruction_rel b b' He).
    destruct (match mget_opt inl ln with Some name => _ | None => _ end); [apply IH|reflexivity].
Qed.
Lemma instantiate_rel t t' : text_rel t t' -> forall labels addr, instantiate t labels addr = instantiate t' labels addr.
Proof.
  induction 1 as [|[ln e] [ln' e'] t t' Hp _ IH]; intros labels addr; [reflexivity|].
  destruct Hp as [Hk He]. cbn [fst snd] in Hk, He. subst ln'. cbn [instantiate].
  destruct e as [n|b], e' as [n'|b']; cbn in He; try contradiction; [apply IH|].
  destruct b as [k|i|], b' as [k'|j|]; cbn in He; try contradiction.
  - subst k'. rewrite !IH. reflexivity.
  - rewrite (instantiate_one_rel i j labels addr ln He), IH. reflexivity.
  - reflexivity.
Qed.

(** * the assembler and load_program *)
Theorem assemble_rel toks toks' m : toks_rel toks toks' -> assemble toks m = assemble toks' m.
Proof.
  intros H. unfold assemble.
  pose proof (segment_rel rline rline_rel rdir_of rline_rel_dir toks toks' H) as S.
  destruct (segment rdir_of toks) as [[data text0]|e], (segment rdir_of toks') as [[data' text0']|e']; cbn in S;
    try contradiction; [|subst; reflexivity].
  destruct S as [Sd St]. cbn [fst snd] in Sd, St. cbn [pbind].
  destruct (split_inline_rel text0 text0' St) as [T1 T2].
  destruct (split_inline text0) as [text1 inlabs], (split_inline text0') as [text1' inlabs']. cbn [fst snd] in T1, T2. subst inlabs'.
  rewrite <- (write_data_rel data data' Sd). destruct (write_data data m 16384 []) as [[m' vars]|]; [|reflexivity]. cbn [pbind].
  pose proof (expand_all_rel vars text1 text1' T1) as X.
  destruct (expand_all vars text1) as [text2|e], (expand_all vars text1') as [text2'|e']; cbn in X; try contradiction;
    [|subst; reflexivity].
  cbn [pbind]. rewrite <- (rv_labels_rel text2 text2' X).
  destruct (rv_labels text2 inlabs 0 [] None) as [labels|]; [|reflexivity]. cbn [pbind].
  rewrite <- (instantiate_rel text2 text2' X). reflexivity.
Qed.

Theorem rv_load_rel s toks toks' : toks_rel toks toks' -> rv_load s toks = rv_load s toks'.
Proof. intros H. unfold rv_load. rewrite (assemble_rel toks toks' _ H). reflexivity. Qed.
