(* LexProofs3.v — Model/Lex.v: infrastructure for "blanks inserted next to a separator do not matter".
   A run of blanks [ws] is inserted into a line between [s1] and [s2].  While the lexer works through the
   line, the two remaining inputs are related by [RS]/[RR] below; every reader of the grammar maps related
   inputs to equal values and related rests ([resp]). *)
From Coq Require Import ZArith List Bool Lia ZifyBool.
From ArchSim Require Import Model.Base Model.Fmt Model.Toy Model.Asm Model.Lex Proofs.LexProofs2.
Import ListNotations.
Open Scope Z_scope.

(* separators: the characters matched by the grammar's free-standing Literals, and blanks *)
Definition is_punct (c : Z) : bool :=
  (c =? 44) || (c =? 40) || (c =? 41) || (c =? 58) || (c =? 43) || (c =? 46).      (* , ( ) : + . *)
Definition sep (c : Z) : bool := is_punct c || is_ws c.
Definition is_quote (c : Z) : bool := (c =? 34) || (c =? 39).
Definition noquote (s : str) : bool := forallb (fun c => negb (is_quote c)) s.
Definition nosep (s : str) : bool := forallb (fun c => negb (sep c)) s.
Definition hd_sep (s : str) : bool := match s with [] => true | c :: _ => sep c end.

Ltac cc := unfold sep, is_punct, is_ws, is_quote, is_labn, is_lab1, is_hex, is_bin, is_alpha, is_upper, is_lower,
             is_digit in *.

Lemma ws_sep c : is_ws c = true -> sep c = true.            Proof. cc; lia. Qed.
Lemma sep_labn c : sep c = true -> is_labn c = false.        Proof. cc; lia. Qed.
Lemma sep_lab1 c : sep c = true -> is_lab1 c = false.        Proof. cc; lia. Qed.
Lemma sep_digit c : sep c = true -> is_digit c = false.      Proof. cc; lia. Qed.
Lemma sep_hex c : sep c = true -> is_hex c = false.          Proof. cc; lia. Qed.
Lemma sep_bin c : sep c = true -> is_bin c = false.          Proof. cc; lia. Qed.
Lemma sep_quote c : sep c = true -> is_quote c = false.      Proof. cc; lia. Qed.

(** results of two runs: equal values, related rests *)
Inductive rres {A} (Post : str -> str -> Prop) : option (A * str) -> option (A * str) -> Prop :=
| rr_none : rres Post None None
| rr_some x r r' : Post r r' -> rres Post (Some (x, r)) (Some (x, r')).
Definition resp {A} (Pre Post : str -> str -> Prop) (p : str -> option (A * str)) : Prop :=
  forall u u', Pre u u' -> rres Post (p u) (p u').
(* total readers (Optional-like) *)
Definition rtot {A} (Post : str -> str -> Prop) (x y : A * str) : Prop := fst x = fst y /\ Post (snd x) (snd y).

Lemma rres_weaken {A} (P Q : str -> str -> Prop) (x y : option (A * str)) :
  (forall r r', P r r' -> Q r r') -> rres P x y -> rres Q x y.
Proof. intros H [|v r r' Hr]; constructor. apply H, Hr. Qed.

Definition cons0 {A} (g : str -> option (A * str)) : Prop :=
  forall s x r, g s = Some (x, r) -> (List.length r <= List.length s)%nat.
Definition cons1 {A} (g : str -> option (A * str)) : Prop :=
  forall s x r, g s = Some (x, r) -> (List.length r < List.length s)%nat.

Lemma skip_ws_len s : (List.length (skip_ws s) <= List.length s)%nat.
Proof. induction s as [|c t IH]; [cbn; lia|]. cbn [skip_ws]. destruct (is_ws c); cbn [List.length]; lia. Qed.

Lemma skip_ws_hd s : match skip_ws s with [] => True | c :: _ => is_ws c = false end.
Proof. induction s as [|c t IH]; [exact Logic.I|]. cbn [skip_ws]. destruct (is_ws c) eqn:E; [exact IH|exact E]. Qed.

(* skip_ws over a ++ x: either a is blank, or a non-empty suffix a' of a remains *)
Lemma skip_ws_app_cases a :
  (blanks a = true /\ forall x, skip_ws (a ++ x) = skip_ws x) \/
  (exists p a', a = p ++ a' /\ a' <> [] /\ forall x, skip_ws (a ++ x) = a' ++ x).
Proof.
  induction a as [|c a IH]; [left; split; reflexivity|].
  cbn [app skip_ws]. destruct (is_ws c) eqn:E.
  - destruct IH as [[Hb Hs]|(p & a' & -> & Hn & Hs)].
    + left. split; [cbn [blanks forallb]; rewrite E; exact Hb|exact Hs].
    + right. exists (c :: p), a'. split; [reflexivity|]. split; assumption.
  - right. exists [], (c :: a). split; [reflexivity|]. split; [discriminate|reflexivity].
Qed.

Lemma last_app_ne {A} (p a : list A) d : a <> [] -> last (p ++ a) d = last a d.
Proof.
  intros H. induction p as [|x p IH]; [reflexivity|].
  cbn [app]. destruct (p ++ a) as [|y l] eqn:E.
  - destruct p; [cbn in E; congruence|discriminate].
  - cbn [last]. exact IH.
Qed.

Section Gap.
  Variables (ws b : str).
  Hypothesis Hws : blanks ws = true.
  Hypothesis Hne : ws <> [].

  (* the part [a] of the left piece not yet consumed: either the gap is next to a separator on its left
     (last character of a) or on its right (first character of b) *)
  Definition cond (a : str) : Prop :=
    match a with
    | [] => hd_sep b = true
    | _ => sep (last a 0) = true \/ hd_sep b = true
    end.
  Definition Aft (u u' : str) : Prop := u = u' /\ (List.length u < List.length b)%nat.
  Definition Gst (a u u' : str) : Prop := u = a ++ ws ++ b /\ u' = a ++ b /\ noquote a = true /\ cond a.
  Definition RR (u u' : str) : Prop := (exists a, Gst a u u') \/ Aft u u'.
  Definition E0 (u u' : str) : Prop := u = ws ++ b /\ u' = b.
  Definition RS (u u' : str) : Prop := RR u u' \/ E0 u u'.

  Lemma RR_RS u u' : RR u u' -> RS u u'.  Proof. intros H; left; exact H. Qed.
  Lemma Aft_RR u u' : Aft u u' -> RR u u'. Proof. intros H; right; exact H. Qed.
  Lemma Aft_RS u u' : Aft u u' -> RS u u'. Proof. intros H; left; right; exact H. Qed.

  Lemma ws_hd : exists v ws', ws = v :: ws' /\ is_ws v = true.
  Proof.
    destruct ws as [|v ws']; [congruence|]. exists v, ws'. split; [reflexivity|].
    cbn [blanks forallb] in Hws. apply andb_true_iff in Hws. tauto.
  Qed.

  Lemma cond_tail d a' : cond (d :: a') -> (a' = [] -> sep d = false) -> cond a'.
  Proof.
    intros H Hd. destruct a' as [|e a'']; cbn [cond] in *.
    - destruct H as [H|H]; [cbn [last] in H; rewrite Hd in H by reflexivity; discriminate|exact H].
    - exact H.
  Qed.
  Lemma cond_suffix p a : a <> [] -> cond (p ++ a) -> cond a.
  Proof.
    intros Hn H. destruct a as [|e a']; [congruence|].
    destruct (p ++ e :: a') eqn:E; [destruct p; discriminate|]. rewrite <- E in H.
    cbn [cond]. cbn [cond] in H. rewrite E in H. cbn [cond] in H. rewrite <- E in H.
    rewrite last_app_ne in H by discriminate. exact H.
  Qed.
  Lemma noquote_app p a : noquote (p ++ a) = noquote p && noquote a.
  Proof. apply forallb_app. Qed.

  (* lengths: before the gap the left input is |ws| longer and at least as long as b; after it both are equal
     and shorter than b *)
  Lemma RS_len u u' : RS u u' ->
    (List.length u = List.length u' + List.length ws /\ List.length b <= List.length u')%nat \/
    (u = u' /\ (List.length u < List.length b)%nat).
  Proof.
    intros [[(a & -> & -> & _)|H]|[-> ->]].
    - left. rewrite !app_length. lia.
    - right. exact H.
    - left. rewrite !app_length. lia.
  Qed.
  Lemma ws_len : (0 < List.length ws)%nat.
  Proof. destruct ws; [congruence|cbn; lia]. Qed.
  Lemma RS_cmp r1 r1' r2 r2' : RS r1 r1' -> RS r2 r2' ->
    Nat.ltb (List.length r2) (List.length r1) = Nat.ltb (List.length r2') (List.length r1').
  Proof.
    intros H1 H2. pose proof ws_len as W. apply RS_len in H1, H2.
    assert (K1 : (List.length r1 = List.length r1' + List.length ws /\ List.length b <= List.length r1')%nat \/
                 (List.length r1 = List.length r1' /\ List.length r1 < List.length b)%nat)
      by (destruct H1 as [H1|[E1 L1]]; [left; exact H1|right; rewrite <- E1; split; [reflexivity|exact L1]]).
    assert (K2 : (List.length r2 = List.length r2' + List.length ws /\ List.length b <= List.length r2')%nat \/
                 (List.length r2 = List.length r2' /\ List.length r2 < List.length b)%nat)
      by (destruct H2 as [H2|[E2 L2]]; [left; exact H2|right; rewrite <- E2; split; [reflexivity|exact L2]]).
    clear H1 H2.
    destruct (Nat.ltb_spec (List.length r2) (List.length r1)), (Nat.ltb_spec (List.length r2') (List.length r1'));
      try reflexivity; lia.
  Qed.
  Lemma skip_ws_nil_app a x : skip_ws (a ++ x) = [] <-> (skip_ws a = [] /\ skip_ws x = []).
  Proof.
    induction a as [|c a IH]; [cbn; tauto|]. cbn [app skip_ws]. destruct (is_ws c); [exact IH|].
    split; [discriminate|intros [H _]; discriminate].
  Qed.
  Lemma RS_end r r' : RS r r' -> (skip_ws r = [] <-> skip_ws r' = []).
  Proof.
    intros [[(a & -> & -> & _)|[-> _]]|[-> ->]]; [|tauto|].
    - rewrite !skip_ws_nil_app. pose proof (skip_ws_app ws [] Hws) as E.
      rewrite app_nil_r in E. cbn in E. tauto.
    - rewrite skip_ws_app by exact Hws. tauto.
  Qed.

  (** ** lifting lemmas *)
  Inductive rres1 (Post : str -> str -> Prop) : option str -> option str -> Prop :=
  | r1_none : rres1 Post None None
  | r1_some r r' : Post r r' -> rres1 Post (Some r) (Some r').
  Definition resp1 (Pre Post : str -> str -> Prop) (p : str -> option str) : Prop :=
    forall u u', Pre u u' -> rres1 Post (p u) (p u').
  Definition cons1u (g : str -> option str) : Prop :=
    forall s r, g s = Some r -> (List.length r < List.length s)%nat.

  Definition gresp {A} (ne : bool) (Post : str -> str -> Prop) (g : str -> option (A * str)) : Prop :=
    forall a, (ne = true -> a <> []) -> noquote a = true -> cond a -> rres Post (g (a ++ ws ++ b)) (g (a ++ b)).
  Definition gresp1 (ne : bool) (Post : str -> str -> Prop) (g : str -> option str) : Prop :=
    forall a, (ne = true -> a <> []) -> noquote a = true -> cond a -> rres1 Post (g (a ++ ws ++ b)) (g (a ++ b)).

  Lemma raw_resp {A} (g : str -> option (A * str)) Post :
    gresp false Post g -> cons0 g -> (forall r r', Aft r r' -> Post r r') -> resp RR Post g.
  Proof.
    intros G C HP u u' [(a & -> & -> & Hq & Hc)|[<- L]].
    - apply G; [discriminate|exact Hq|exact Hc].
    - destruct (g u) as [[x r]|] eqn:E; constructor. apply HP. split; [reflexivity|]. apply C in E. lia.
  Qed.

  Lemma skip_lift {A} (g : str -> option (A * str)) Post :
    gresp true Post g -> cons1 g -> (forall r r', Aft r r' -> Post r r') ->
    resp RS Post (fun s => g (skip_ws s)).
  Proof.
    intros G C HP u u' H.
    assert (Same : forall v, (List.length v <= List.length b)%nat -> rres Post (g v) (g v)).
    { intros v Lv. destruct (g v) as [[x r]|] eqn:E; constructor. apply HP. split; [reflexivity|].
      apply C in E. lia. }
    destruct H as [[(a & -> & -> & Hq & Hc)|[<- L]]|[-> ->]].
    - destruct (skip_ws_app_cases a) as [[Hb Hs]|(p & a' & -> & Hn & Hs)].
      + rewrite !Hs. rewrite skip_ws_app by exact Hws. apply Same, skip_ws_len.
      + rewrite !Hs. rewrite noquote_app in Hq. apply andb_true_iff in Hq as [_ Hq].
        apply G; [intros _; exact Hn|exact Hq|apply (cond_suffix p), Hc; exact Hn].
    - apply Same. pose proof (skip_ws_len u). lia.
    - rewrite skip_ws_app by exact Hws. apply Same, skip_ws_len.
  Qed.
  Lemma skip_lift1 (g : str -> option str) Post :
    gresp1 true Post g -> cons1u g -> (forall r r', Aft r r' -> Post r r') ->
    resp1 RS Post (fun s => g (skip_ws s)).
  Proof.
    intros G C HP u u' H.
    assert (Same : forall v, (List.length v <= List.length b)%nat -> rres1 Post (g v) (g v)).
    { intros v Lv. destruct (g v) as [r|] eqn:E; constructor. apply HP. split; [reflexivity|].
      apply C in E. lia. }
    destruct H as [[(a & -> & -> & Hq & Hc)|[<- L]]|[-> ->]].
    - destruct (skip_ws_app_cases a) as [[Hb Hs]|(p & a' & -> & Hn & Hs)].
      + rewrite !Hs. rewrite skip_ws_app by exact Hws. apply Same, skip_ws_len.
      + rewrite !Hs. rewrite noquote_app in Hq. apply andb_true_iff in Hq as [_ Hq].
        apply G; [intros _; exact Hn|exact Hq|apply (cond_suffix p), Hc; exact Hn].
    - apply Same. pose proof (skip_ws_len u). lia.
    - rewrite skip_ws_app by exact Hws. apply Same, skip_ws_len.
  Qed.

  (** ** inputs that start with a separator (or are empty): both [ws ++ x] and, in state G [], [b] *)
  Lemma hd_sep_ws x : hd_sep (ws ++ x) = true.
  Proof. destruct ws_hd as (v & ws' & E & Hv). rewrite E. cbn. apply ws_sep, Hv. Qed.

  Lemma lit_hd_sep c w s : sep c = false -> hd_sep s = true -> lit (c :: w) s = None.
  Proof.
    intros Hc Hs. destruct s as [|e t]; [reflexivity|]. cbn [lit]. cbn [hd_sep] in Hs.
    destruct (e =? c) eqn:E; [|reflexivity]. apply Z.eqb_eq in E. subst. congruence.
  Qed.
  Lemma span_hd_sep p s : (forall c, sep c = true -> p c = false) -> hd_sep s = true -> span p s = ([], s).
  Proof. intros Hp Hs. destruct s as [|e t]; [reflexivity|]. cbn [span]. rewrite (Hp e Hs). reflexivity. Qed.
  Lemma word_hd_sep s : hd_sep s = true -> word s = None.
  Proof. intros Hs. destruct s as [|e t]; [reflexivity|]. cbn [word]. rewrite (sep_lab1 e Hs). reflexivity. Qed.
  Lemma quoted_hd_sep s : hd_sep s = true -> quoted_raw s = None.
  Proof.
    intros Hs. destruct s as [|e t]; [reflexivity|]. cbn [quoted_raw]. pose proof (sep_quote e Hs) as Q.
    unfold is_quote in Q. rewrite Q. reflexivity.
  Qed.

  Lemma noquote_tail d a : noquote (d :: a) = true -> noquote a = true.
  Proof. cbn [noquote forallb]. intros H. apply andb_true_iff in H. tauto. Qed.
  Lemma noquote_hd d a : noquote (d :: a) = true -> is_quote d = false.
  Proof. cbn [noquote forallb]. intros H. apply andb_true_iff in H as [H _]. destruct (is_quote d); [discriminate|reflexivity]. Qed.

  Lemma G_nil : cond [] -> RR (ws ++ b) b.
  Proof. intros H. left. exists []. repeat split; [exact H]. Qed.
  Lemma G_mk a : noquote a = true -> cond a -> RR (a ++ ws ++ b) (a ++ b).
  Proof. intros Hq Hc. left. exists a. repeat split; assumption. Qed.

  (** ** raw primitives *)
  Lemma lit_g w : nosep w = true -> w <> [] -> gresp1 false RR (lit w).
  Proof.
    induction w as [|c w IH]; intros Hs Hn a _ Hq Hc; [congruence|].
    cbn [nosep forallb] in Hs. apply andb_true_iff in Hs as [Hc1 Hs].
    assert (Hsc : sep c = false) by (destruct (sep c); [discriminate|reflexivity]).
    destruct a as [|d a'].
    - cbn [app]. rewrite (lit_hd_sep _ _ _ Hsc (hd_sep_ws b)), (lit_hd_sep _ _ _ Hsc Hc). constructor.
    - cbn [app lit]. destruct (d =? c) eqn:E; [|constructor]. apply Z.eqb_eq in E. subst d.
      assert (Hc' : cond a') by (apply (cond_tail c); [exact Hc|intros _; exact Hsc]).
      destruct w as [|c2 w2].
      + cbn [lit]. constructor. apply G_mk; [apply (noquote_tail c), Hq|exact Hc'].
      + apply IH; [exact Hs|discriminate|discriminate|apply (noquote_tail c), Hq|exact Hc'].
  Qed.

  (* a free-standing punctuation literal: may leave the gap directly in front *)
  Lemma lit_punct_g c : gresp1 true RS (lit [c]).
  Proof.
    intros a Hn Hq Hc. destruct a as [|d a']; [exfalso; apply Hn; reflexivity|].
    cbn [app lit]. destruct (d =? c); [|constructor]. constructor.
    destruct a' as [|e a''].
    - right. split; reflexivity.
    - left. apply G_mk; [apply (noquote_tail d), Hq|]. apply (cond_tail d); [exact Hc|discriminate].
  Qed.

  Lemma span_g p : (forall c, sep c = true -> p c = false) ->
    forall a, noquote a = true -> cond a -> rtot RR (span p (a ++ ws ++ b)) (span p (a ++ b)).
  Proof.
    intros Hp. induction a as [|d a' IH]; intros Hq Hc.
    - cbn [app]. rewrite (span_hd_sep _ _ Hp (hd_sep_ws b)), (span_hd_sep _ _ Hp Hc).
      split; [reflexivity|]. cbn [snd]. apply G_nil, Hc.
    - cbn [app span]. destruct (p d) eqn:E.
      + assert (Hd : sep d = false) by (destruct (sep d) eqn:S; [rewrite (Hp d S) in E; discriminate|reflexivity]).
        destruct (IH (noquote_tail _ _ Hq) (cond_tail _ _ Hc (fun _ => Hd))) as [E1 E2].
        destruct (span p (a' ++ ws ++ b)) as [x r], (span p (a' ++ b)) as [x' r']. cbn [fst snd] in *.
        split; [cbn; f_equal; exact E1|exact E2].
      + split; [reflexivity|]. cbn [snd]. apply (G_mk (d :: a')); assumption.
  Qed.

  Lemma span1_g p : (forall c, sep c = true -> p c = false) -> gresp false RR (span1 p).
  Proof.
    intros Hp a _ Hq Hc. unfold span1. destruct (span_g p Hp a Hq Hc) as [E1 E2].
    destruct (span p (a ++ ws ++ b)) as [x r], (span p (a ++ b)) as [x' r']. cbn [fst snd] in *. subst x'.
    destruct x; constructor; exact E2.
  Qed.

  Lemma word_g : gresp false RR word.
  Proof.
    intros a _ Hq Hc. destruct a as [|d a'].
    - cbn [app]. rewrite (word_hd_sep _ (hd_sep_ws b)), (word_hd_sep _ Hc). constructor.
    - cbn [app word]. destruct (is_lab1 d) eqn:E; [|constructor].
      assert (Hd : sep d = false) by (destruct (sep d) eqn:S; [rewrite (sep_lab1 d S) in E; discriminate|reflexivity]).
      destruct (span_g is_labn sep_labn a' (noquote_tail _ _ Hq) (cond_tail _ _ Hc (fun _ => Hd))) as [E1 E2].
      destruct (span is_labn (a' ++ ws ++ b)) as [x r], (span is_labn (a' ++ b)) as [x' r']. cbn [fst snd] in *.
      subst x'. constructor. exact E2.
  Qed.

  Lemma quoted_g : gresp false RR quoted_raw.
  Proof.
    intros a _ Hq Hc. destruct a as [|d a'].
    - cbn [app]. rewrite (quoted_hd_sep _ (hd_sep_ws b)), (quoted_hd_sep _ Hc). constructor.
    - cbn [app quoted_raw]. pose proof (noquote_hd _ _ Hq) as Q. unfold is_quote in Q. rewrite Q. constructor.
  Qed.

  Definition syms_ok (syms : list str) : bool :=
    forallb (fun w => nosep w && negb (match w with [] => true | _ => false end)) syms.

  Lemma lit_best_g syms : syms_ok syms = true -> gresp false RR (lit_best syms).
  Proof.
    intros Hs a _ Hq Hc. induction syms as [|w syms IH]; [constructor|].
    cbn [syms_ok forallb] in Hs. apply andb_true_iff in Hs as [Hw Hs]. apply andb_true_iff in Hw as [Hw1 Hw2].
    assert (Hwn : w <> []) by (destruct w; [discriminate|discriminate]).
    specialize (IH Hs). cbn [lit_best].
    pose proof (lit_g w Hw1 Hwn a (fun H => match H with eq_refl => Logic.I end) Hq Hc) as L.
    inversion L as [E1 E2|r r' Hr E1 E2]; inversion IH as [F1 F2|x s s' Hss F1 F2]; try constructor.
    - exact Hss.
    - exact Hr.
    - destruct x as [w' ?] || idtac. destruct (Nat.ltb (List.length w) (List.length _)); constructor; assumption.
  Qed.

  (** caseless literals *)
  Lemma ci_regex_sep a c : is_lower a = true -> sep c = true -> ci_regex a c = false.
  Proof. unfold ci_regex. cc. lia. Qed.
  Lemma ci_upper_sep a c : is_lower a = true -> sep c = true -> ci_upper a c = false.
  Proof. unfold ci_upper. cc. lia. Qed.
  Definition cm_ok (cm : Z -> Z -> bool) : Prop := forall a c, is_lower a = true -> sep c = true -> cm a c = false.

  Lemma ci_lit_hd_sep cm x w s : cm_ok cm -> is_lower x = true -> hd_sep s = true -> ci_lit cm (x :: w) s = None.
  Proof. intros Hcm Hx Hs. destruct s as [|e t]; [reflexivity|]. cbn [ci_lit]. rewrite (Hcm x e Hx Hs). reflexivity. Qed.

  Lemma ci_lit_g cm w : cm_ok cm -> forallb is_lower w = true -> gresp false RR (ci_lit cm w).
  Proof.
    intros Hcm. induction w as [|x w IH]; intros Hw a _ Hq Hc.
    - cbn [ci_lit]. constructor. apply G_mk; assumption.
    - cbn [forallb] in Hw. apply andb_true_iff in Hw as [Hx Hw]. destruct a as [|d a'].
      + cbn [app]. rewrite (ci_lit_hd_sep cm x w _ Hcm Hx (hd_sep_ws b)), (ci_lit_hd_sep cm x w _ Hcm Hx Hc). constructor.
      + cbn [app ci_lit]. destruct (cm x d) eqn:E; [|constructor].
        assert (Hd : sep d = false) by (destruct (sep d) eqn:S; [rewrite (Hcm x d Hx S) in E; discriminate|reflexivity]).
        pose proof (IH Hw a' (fun H => match H with eq_refl => Logic.I end) (noquote_tail _ _ Hq)
                       (cond_tail _ _ Hc (fun _ => Hd))) as L.
        inversion L as [E1 E2|p r r' Hr E1 E2]; constructor. exact Hr.
  Qed.

  Definition kws_ok (syms : list (str * Z)) : bool := forallb (fun e => forallb is_lower (fst e)) syms.

  Lemma kw_best_g syms : kws_ok syms = true -> gresp false RR (kw_best syms).
  Proof.
    intros Hs a _ Hq Hc. induction syms as [|[w n] syms IH]; [constructor|].
    cbn [kws_ok forallb fst] in Hs. apply andb_true_iff in Hs as [Hw Hs]. specialize (IH Hs). cbn [kw_best].
    pose proof (ci_lit_g ci_regex w ci_regex_sep Hw a (fun H => match H with eq_refl => Logic.I end) Hq Hc) as L.
    inversion L as [E1 E2|p r r' Hr E1 E2]; inversion IH as [F1 F2|x s s' Hss F1 F2]; try constructor; try assumption.
    destruct x as [n1 p1]. rewrite (RS_cmp r r' s s' (RR_RS _ _ Hr) (RR_RS _ _ Hss)).
    destruct (Nat.ltb (List.length s') (List.length r')); constructor; assumption.
  Qed.

  (** ** consumption *)
  Lemma lit_len w : forall s r, lit w s = Some r -> (List.length s = List.length w + List.length r)%nat.
  Proof. intros s r H. apply lit_inv in H. subst. apply app_length. Qed.
  Lemma span_len p s : (List.length (snd (span p s)) <= List.length s)%nat.
  Proof.
    induction s as [|c t IH]; [cbn; lia|]. cbn [span]. destruct (p c); [|cbn; lia].
    destruct (span p t) as [x r]. cbn [snd List.length] in *. lia.
  Qed.
  Lemma span1_cons p : cons1 (span1 p).
  Proof.
    intros s x r H. unfold span1 in H. destruct s as [|c t]; [discriminate|]. cbn [span] in H.
    destruct (p c); [|discriminate]. pose proof (span_len p t) as L. destruct (span p t) as [y q].
    inversion H; subst. cbn [snd List.length] in *. lia.
  Qed.
  Lemma word_cons : cons1 word.
  Proof.
    intros s x r H. destruct s as [|c t]; [discriminate|]. cbn [word] in H. destruct (is_lab1 c); [|discriminate].
    pose proof (span_len is_labn t) as L. destruct (span is_labn t) as [y q]. inversion H; subst.
    cbn [snd List.length] in *. lia.
  Qed.
  Lemma lit_best_cons syms : syms_ok syms = true -> cons1 (lit_best syms).
  Proof.
    intros Hs s w r H. pose proof (lit_best_spec syms s) as S. rewrite H in S. destruct S as (Hin & Hl & _).
    apply lit_len in Hl. unfold syms_ok in Hs. rewrite forallb_forall in Hs. specialize (Hs _ Hin).
    apply andb_true_iff in Hs as [_ Hs]. destruct w; [discriminate|]. cbn [List.length] in Hl. lia.
  Qed.
  Lemma ci_lit_len cm w : forall s p r, ci_lit cm w s = Some (p, r) -> (List.length s = List.length w + List.length r)%nat.
  Proof.
    induction w as [|x w IH]; intros s p r H; [cbn in H; inversion H; reflexivity|].
    destruct s as [|c t]; [discriminate|]. cbn [ci_lit] in H. destruct (cm x c); [|discriminate].
    destruct (ci_lit cm w t) as [[p' r']|] eqn:E; [|discriminate]. inversion H; subst.
    apply IH in E. cbn [List.length]. lia.
  Qed.
  Definition kws_ne (syms : list (str * Z)) : bool :=
    forallb (fun e => negb (match fst e with [] => true | _ => false end)) syms.
  Lemma kw_best_cons syms : kws_ne syms = true -> cons1 (kw_best syms).
  Proof.
    intros Hs s x r. induction syms as [|[w n] syms IH]; [discriminate|].
    cbn [kws_ne forallb fst] in Hs. apply andb_true_iff in Hs as [Hw Hs]. specialize (IH Hs). cbn [kw_best].
    destruct (ci_lit ci_regex w s) as [[p q]|] eqn:E; [|exact IH].
    apply ci_lit_len in E. assert (0 < List.length w)%nat by (destruct w; [discriminate|cbn; lia]).
    destruct (kw_best syms s) as [[[n1 p1] r1]|].
    - destruct (Nat.ltb (List.length r1) (List.length q)); [exact IH|]. intros H1. inversion H1; subst. lia.
    - intros H1. inversion H1; subst. lia.
  Qed.
  Lemma qbody_len q s : (List.length (snd (qbody q s)) <= List.length s)%nat.
  Proof.
    revert s. fix IH 1. intros [|c t]; [cbn; lia|]. cbn [qbody].
    destruct (c =? q).
    - destruct t as [|c2 t2]; [cbn; lia|]. destruct (c2 =? q); [|cbn; lia].
      specialize (IH t2). destruct (qbody q t2). cbn [snd List.length] in *. lia.
    - destruct (c =? 92).
      + destruct t as [|c2 t2]; [cbn; lia|]. destruct (c2 =? 120).
        * destruct t2 as [|c3 t3]; [cbn; lia|]. destruct (is_hex c3); [|cbn; lia].
          specialize (IH t3). destruct (qbody q t3). cbn [snd List.length] in *. lia.
        * specialize (IH t2). destruct (qbody q t2). cbn [snd List.length] in *. lia.
      + destruct ((c =? 10) || (c =? 13)); [cbn; lia|].
        specialize (IH t). destruct (qbody q t). cbn [snd List.length] in *. lia.
  Qed.
  Lemma quoted_cons : cons1 quoted_raw.
  Proof.
    intros s x r H. destruct s as [|q t]; [discriminate|]. cbn [quoted_raw] in H.
    destruct ((q =? 34) || (q =? 39)); [|discriminate]. pose proof (qbody_len q t) as L.
    destruct (qbody q t) as [a r0]. destruct r0 as [|c r']; [discriminate|]. destruct (c =? q); [|discriminate].
    inversion H; subst. cbn [snd List.length] in *. lia.
  Qed.
End Gap.
