(* math.ceil(n / g) of the Python simulator (binary64 division, then ceiling)
   equals the exact integer ceiling (n + g - 1) / g. *)
From Coq Require Import ZArith Reals Lia Lra.
From Flocq Require Import Core Relative.
From ArchSim Require Import Proofs.FloatDiv.

Local Open Scope Z_scope.

Local Existing Instance b64_prec_gt_0.

Theorem float_ceil_div : forall n g : Z, 0 <= n < 2^53 -> 0 < g <= 2^53 ->
  Zceil (b64_round (IZR n / IZR g)) = (n + g - 1) / g.
Proof.
  intros n g Hn Hg.
  set (k := n / g).
  assert (Hdiv : n = g * k + n mod g) by (apply Z.div_mod; lia).
  assert (Hmod : 0 <= n mod g < g) by (apply Z.mod_pos_bound; lia).
  set (r := n mod g) in *.
  assert (Hk0 : 0 <= k) by (apply Z.div_pos; lia).
  assert (Hkn : k <= n) by nia.
  assert (HgR : (0 < IZR g)%R) by (apply IZR_lt; lia).
  assert (HgR1 : (1 <= IZR g)%R) by (apply IZR_le; lia).
  assert (Hq : (IZR n / IZR g = IZR k + IZR r / IZR g)%R).
  { rewrite Hdiv at 1. rewrite plus_IZR, mult_IZR. field. lra. }
  destruct (Z.eq_dec r 0) as [Hr0 | Hr0].
  - (* g divides n: the quotient is an integer, rounding is exact *)
    rewrite Hq, Hr0. unfold Rdiv at 1. rewrite Rmult_0_l, Rplus_0_r.
    unfold b64_round. rewrite round_generic; auto with typeclass_instances.
    2:{ apply b64_format_IZR; lia. }
    rewrite Zceil_IZR.
    apply Z.div_unique with (g - 1); lia.
  - assert (Hr1 : 1 <= r) by lia.
    assert (Hres : (n + g - 1) / g = k + 1).
    { symmetry. apply Z.div_unique with (r - 1); lia. }
    rewrite Hres.
    assert (Hk1n : k + 1 <= n) by nia.
    assert (Hinvg : (0 < / IZR g)%R) by (apply Rinv_0_lt_compat; exact HgR).
    assert (Hrlow : (/ IZR g <= IZR r / IZR g)%R).
    { unfold Rdiv. rewrite <- (Rmult_1_l (/ IZR g)) at 1.
      apply Rmult_le_compat_r; [lra | apply IZR_le; lia]. }
    assert (Hrup : (IZR r / IZR g <= 1)%R).
    { unfold Rdiv. apply Rmult_le_reg_r with (IZR g); [exact HgR |].
      rewrite Rmult_assoc, Rinv_l, Rmult_1_r, Rmult_1_l by lra. apply IZR_le; lia. }
    set (q := (IZR n / IZR g)%R) in *.
    assert (Hup : (b64_round q <= IZR (k + 1))%R).
    { unfold b64_round.
      apply (round_le_generic radix2 (FLT_exp (-1074) 53) ZnearestE q (IZR (k + 1))).
      - apply b64_format_IZR; lia.
      - rewrite plus_IZR. lra. }
    assert (Hlow : (IZR (k + 1 - 1) < b64_round q)%R).
    { replace (k + 1 - 1) with k by lia.
      assert (Hn1 : (1 <= IZR n)%R) by (apply IZR_le; lia).
      assert (HnU : (IZR n < bpow radix2 53)%R).
      { change (bpow radix2 53) with (IZR (2^53)). apply IZR_lt; lia. }
      assert (HgU : (IZR g <= bpow radix2 53)%R).
      { change (bpow radix2 53) with (IZR (2^53)). apply IZR_le; lia. }
      assert (Hqpos : (0 < q)%R) by (unfold q; apply Rdiv_lt_0_compat; lra).
      assert (Hqlow : (bpow radix2 (-1074 + 53 - 1) <= Rabs q)%R).
      { rewrite Rabs_pos_eq by lra.
        apply Rle_trans with (bpow radix2 (-53)).
        - apply bpow_le; lia.
        - change (-53) with (Z.opp 53). rewrite bpow_opp. unfold q, Rdiv.
          apply Rle_trans with (/ IZR g)%R.
          + apply Rinv_le; lra.
          + rewrite <- (Rmult_1_l (/ IZR g)) at 1.
            apply Rmult_le_compat_r; lra. }
      pose proof (relative_error_N_FLT radix2 (-1074) 53 b64_prec_gt_0 (fun x => negb (Z.even x)) q Hqlow) as Herr.
      fold (b64_round q) in Herr.
      rewrite (Rabs_pos_eq q) in Herr by lra.
      assert (Herr' : (q - b64_round q <= / 2 * bpow radix2 (-53 + 1) * q)%R).
      { eapply Rle_trans; [| exact Herr]. rewrite <- Rabs_Ropp.
        eapply Rle_trans; [| apply Rle_abs]. lra. }
      assert (Hlt : (/ 2 * bpow radix2 (-53 + 1) * q < / IZR g)%R).
      { replace (/ 2 * bpow radix2 (-53 + 1))%R with (/ bpow radix2 53)%R.
        2:{ change (-53 + 1) with (Z.opp 52). rewrite bpow_opp.
            change (bpow radix2 53) with (IZR (2^53)). change (bpow radix2 52) with (IZR (2^52)).
            change (2^53) with (2 * 2^52). rewrite mult_IZR. field.
            apply not_0_IZR. discriminate. }
        unfold q, Rdiv. rewrite <- Rmult_assoc.
        rewrite <- (Rmult_1_l (/ IZR g)) at 2.
        apply Rmult_lt_compat_r; [exact Hinvg |].
        apply Rmult_lt_reg_l with (bpow radix2 53); [apply bpow_gt_0 |].
        rewrite <- Rmult_assoc, Rinv_r, Rmult_1_l, Rmult_1_r; [exact HnU |].
        apply Rgt_not_eq, bpow_gt_0. }
      lra. }
    apply Zceil_imp. split; assumption.
Qed.

Corollary float_ceil_div4 : forall n : Z, 0 <= n < 2^53 ->
  Zceil (b64_round (IZR n / 4)) = (n + 3) / 4.
Proof.
  intros n Hn.
  replace (n + 3) with (n + 4 - 1) by lia.
  apply (float_ceil_div n 4); [exact Hn | split; [reflexivity | discriminate]].
Qed.

(* Non-vacuity: 12/4 = 3 exactly; 13/8 = 1.625 rounds up to 2. *)
Example float_ceil_12_4 : Zceil (b64_round (IZR 12 / 4)) = 3.
Proof. rewrite float_ceil_div4; [reflexivity | split; [discriminate | reflexivity]]. Qed.

Example float_ceil_13_8 : Zceil (b64_round (IZR 13 / IZR 8)) = 2.
Proof.
  rewrite float_ceil_div; [reflexivity | split; [discriminate | reflexivity] | split; [reflexivity | discriminate]].
Qed.
