(* PipeInvEcall.v — stage 4 of the control-path proof of C02: the invariant of PipeInv.v is
   preserved by every pipeline step for programs of ALL supported instructions, i.e. including
   ecall: the drain stall at EX (stalled at 2, countdown 2 and 1), the single firing of the ecall
   once every older instruction has retired, printing / exiting / faulting ecalls, and the three
   flushes of an exiting ecall (from EX, MEM and WB). *)
From Coq Require Import Lia ZifyBool Wf_nat.
From ArchSim Require Import Model.Base Model.Mem Model.Cache Model.Fmt Model.RV Model.Single
  Model.RVSplit Model.Pipe Proofs.WordLemmas Proofs.C01Step Proofs.SplitExec Proofs.C02Split
  Proofs.PipeLaws Proofs.PipeShape Proofs.PipeInv Proofs.PipeInvBase Proofs.PipeInvStages
  Proofs.PipeInvStraight Proofs.PipeInvControl.
Open Scope Z_scope.

Ltac Zify.zify_post_hook ::= Z.to_euclidean_division_equations.
Local Arguments Z.mul : simpl never.
Local Arguments Z.add : simpl never.
Local Arguments Z.sub : simpl never.
Local Arguments Z.div : simpl never.
Local Arguments Z.modulo : simpl never.
Local Arguments Z.land : simpl never.
Local Arguments Z.shiftl : simpl never.
Local Arguments Z.shiftr : simpl never.
Local Arguments Z.pow : simpl never.
Local Arguments Z.of_nat : simpl never.

(** * process_ecall looks at x17, x10 and the (flat) memory only *)
Lemma read_cstring_cong f : forall s s' m a acc, ms s = MFlat m -> ms s' = MFlat m ->
  fst (read_cstring f s a acc) = fst (read_cstring f s' a acc).
Proof.
  induction f as [|f IH]; intros s s' m a acc Hm Hm'; cbn [read_cstring]; [reflexivity|].
  rewrite (st_read_flat s m), (st_read_flat s' m) by assumption.
  destruct (mem_read rv_memcfg m 8 a) as [b|e]; [|reflexivity].
  destruct (b =? 0); [reflexivity|]. eapply IH; eauto.
Qed.

Lemma process_ecall_cong s s' m : regs s = regs s' -> ms s = MFlat m -> ms s' = MFlat m ->
  fst (process_ecall s) = fst (process_ecall s').
Proof.
  intros Hr Hm Hm'. unfold process_ecall, rget, cstring_fuel. rewrite <- Hr, Hm, Hm'.
  repeat match goal with |- context [if ?c then _ else _] => destruct c end; try reflexivity.
  pose proof (read_cstring_cong (S (length m)) s s' m (mget (regs s) 10) [] Hm Hm') as H.
  destruct (read_cstring _ s _ _) as [[t|e] s1], (read_cstring _ s' _ _) as [[t'|e'] s1'];
    cbn [fst] in *; congruence.
Qed.

(* the decode-stage fields of a slot *)
Definition dfields (y z : slot) : Prop :=
  sl_instr y = sl_instr z /\ sl_addr y = sl_addr z /\ sl_ra1 y = sl_ra1 z /\ sl_ra2 y = sl_ra2 z /\
  sl_rd1 y = sl_rd1 z /\ sl_rd2 y = sl_rd2 z /\ sl_imm y = sl_imm z /\ sl_wreg y = sl_wreg z.

Lemma ex_slot_ext y z cmp res st ex fl : dfields y z ->
  ex_slot y cmp res st ex fl = ex_slot z cmp res st ex fl.
Proof.
  intros (H1 & H2 & H3 & H4 & H5 & H6 & H7 & H8). unfold ex_slot, ex_pcimm.
  rewrite H1, H2, H3, H4, H5, H6, H7, H8. reflexivity.
Qed.

(** * EX of an ecall slot *)
Lemma ex_on_ecall y l2 l3 s : sl_instr y = IEcall ->
  ex_on (Some y) l2 l3 s =
  if ex_busy y l2 l3 then (Some (ex_slot y None (Some 0) true None None), s, None)
  else match process_ecall s with
       | (Ok (EPrint t), s') =>
           (Some (ex_slot y None (Some 0) false None None), with_out s' (out s' ++ t), None)
       | (Ok (EExit c), s') =>
           (Some (ex_slot y None (Some 0) false (Some c) (Some (sl_addr y + 4))), s', None)
       | (Err e, s') => (None, s', Some e)
       end.
Proof. intros Hi. rewrite ex_on_some, Hi. reflexivity. Qed.

(** * The single-cycle step of an ecall *)
Lemma mem_on_ecall x2 te : sl_instr x2 = IEcall ->
  mem_on (Some x2) te = (Some (mem_slot x2 None), te, None).
Proof.
  intros Hi. rewrite mem_on_some, Hi. cbn [memory_access]. unfold mem_count.
  destruct (mem_flush x2); [|reflexivity]. rewrite Hi. reflexivity.
Qed.

Lemma ecall_step t : wf t -> exitc t = None -> instr_at (prog (im t)) (pc t) = Some IEcall ->
  let d := dsl t IEcall in
  match fst (process_ecall (pre t)) with
  | Ok (EPrint txt) =>
      ex_on (Some d) None None (pre t) =
        (Some (ex_slot d None (Some 0) false None None), with_out (pre t) (out t ++ txt), None) /\
      plain t IEcall /\ out (nxt t) = out t ++ txt
  | Ok (EExit c) =>
      ex_on (Some d) None None (pre t) =
        (Some (ex_slot d None (Some 0) false (Some c) (Some (pc t + 4))), pre t, None) /\
      snd (single_pipeline_step t) = None /\ exitc (nxt t) = Some c /\ out (nxt t) = out t
  | Err e => single_pipeline_step t = (pre t, Some (mkfault (pc t) IEcall e))
  end.
Proof.
  intros W Hex Hi d. destruct (wf_flat _ (wf_pre t W)) as [m Hm].
  pose proof (process_ecall_flat (pre t) m Hm) as Hfl.
  assert (He : ex_on (Some d) None None (pre t) = ex_on (Some d) None None (pre t)) by reflexivity.
  rewrite (ex_on_ecall d None None (pre t) eq_refl) in He at 2.
  change (ex_busy d None None) with false in He. cbv iota in He.
  destruct (process_ecall (pre t)) as [[[txt|c]|e] s'] eqn:Hp; cbn [fst snd] in *; subst s'.
  - split; [exact He|].
    pose proof (mem_on_ecall (ex_slot d None (Some 0) false None None)
                  (with_out (pre t) (out (pre t) ++ txt)) eq_refl) as Hmem.
    destruct (nxt_fields t IEcall W Hex Hi eq_refl _ _ _ _ He Hmem) as (Hok & _ & _ & Hout & Hexn & _).
    cbn [mem_slot sl_exit ex_slot] in Hexn. split; [|exact Hout].
    split; [exact Hok|]. split; [exact Hexn|reflexivity].
  - split; [exact He|].
    pose proof (mem_on_ecall (ex_slot d None (Some 0) false (Some c) (Some (sl_addr d + 4)))
                  (pre t) eq_refl) as Hmem.
    destruct (nxt_fields t IEcall W Hex Hi eq_refl _ _ _ _ He Hmem) as (Hok & _ & _ & Hout & Hexn & _).
    cbn [mem_slot sl_exit ex_slot] in Hexn. split; [exact Hok|split; [exact Hexn|exact Hout]].
  - exact (stages_ex_fault t IEcall W Hi eq_refl _ _ _ He).
Qed.

(** * The ecall fires: every older instruction has retired *)
Section Fire.
Variable P : list instr.

Lemma ecall_fire t y l2 l3 s2 : wf t -> exitc t = None -> prog (im t) = P ->
  instr_at P (pc t) = Some IEcall -> dfields y (dsl t IEcall) ->
  regs s2 = regs t -> ms s2 = ms t -> out s2 = out t -> ex_busy y l2 l3 = false ->
  match ex_on (Some y) l2 l3 s2 with
  | (n2, s3, None) => exists x2, n2 = Some x2 /\ Eok t x2 /\ sl_instr x2 = IEcall /\
      sl_addr x2 = pc t /\ sl_stall x2 = false /\
      regs s3 = regs s2 /\ ms s3 = ms s2 /\ exitc s3 = exitc s2 /\ icount s3 = icount s2 /\
      bcount s3 = bcount s2 /\ pcount s3 = pcount s2 /\ pc s3 = pc s2 /\ im s3 = im s2 /\
      out s3 = out (nxt t) /\ snd (single_pipeline_step t) = None /\
      ((sl_flush x2 = None /\ plain t IEcall) \/
       (exists c, sl_flush x2 = Some (pc t + 4) /\ exitc (nxt t) = Some c))
  | (n2, s3, Some e) => exists tm, single_pipeline_step t = (tm, Some (mkfault (pc t) IEcall e)) /\
      regs s3 = regs tm /\ ms s3 = ms tm /\ out s3 = out tm
  end.
Proof.
  intros W Hex HP Hi Hdf Hr Hm Ho Hnb. rewrite <- HP in Hi.
  pose proof Hdf as (Hyi & Hya & _). cbn [dsl id_slot sl_instr sl_addr slot_if] in Hyi, Hya.
  rewrite (ex_on_ecall y l2 l3 s2 Hyi), Hnb.
  destruct (wf_flat _ (wf_pre t W)) as [m Hmf]. change (ms (pre t)) with (ms t) in Hmf.
  assert (Hm2 : ms s2 = MFlat m) by congruence.
  pose proof (process_ecall_cong s2 (pre t) m Hr Hm2 Hmf) as Hc.
  pose proof (process_ecall_flat s2 m Hm2) as Hfl.
  pose proof (ecall_step t W Hex Hi) as Hst. cbv zeta in Hst. rewrite <- Hc in Hst.
  destruct (process_ecall s2) as [[[txt|c]|e] s'] eqn:Hp; cbn [fst snd] in *; subst s'.
  - destruct Hst as (He & Hpl & Hout). eexists. split; [reflexivity|].
    rewrite (ex_slot_ext _ _ _ _ _ _ _ Hdf). cbn [ex_slot sl_instr sl_addr sl_stall sl_flush dsl id_slot slot_if]; stf.
    split; [unfold Eok; cbn [ex_slot sl_stall sl_instr dsl id_slot slot_if]; eexists; exact He|].
    csplit; try reflexivity; [congruence|apply Hpl|left; split; [reflexivity|exact Hpl]].
  - destruct Hst as (He & Hok & Hexn & Hout). eexists. split; [reflexivity|].
    rewrite (ex_slot_ext _ _ _ _ _ _ _ Hdf). cbn [ex_slot sl_instr sl_addr sl_stall sl_flush dsl id_slot slot_if]; stf.
    split; [unfold Eok; cbn [ex_slot sl_stall sl_instr dsl id_slot slot_if]; eexists; rewrite Hya; exact He|].
    csplit; try reflexivity; [congruence|exact Hok|right; exists c; split; [rewrite Hya; reflexivity|exact Hexn]].
  - exists (pre t). split; [exact Hst|]. repeat split; assumption.
Qed.

End Fire.

(** * Fields of the state after the bookkeeping of [pipe_step] *)
Lemma post_fields p next s :
  regs (pst (post p next s)) = regs s /\ ms (pst (post p next s)) = ms s /\
  out (pst (post p next s)) = out s /\ exitc (pst (post p next s)) = exitc s /\
  icount (pst (post p next s)) = icount s /\ bcount (pst (post p next s)) = bcount s /\
  pcount (pst (post p next s)) = pcount s /\ im (pst (post p next s)) = im s /\
  pc (pst (post p next s)) = match first_flush next with Some (_, a) => a | None => pc s end.
Proof.
  rewrite post_pst. unfold flush_st, stall_st.
  destruct (first_flush next) as [[i a]|], (new_stall next (stalled p)); repeat split.
Qed.

(* the bookkeeping after a cycle that was not stalled *)
Lemma post_normal p (n0 n1 n2 n3 n4 : latch) s4 : stalled p = None -> saved p = None ->
  has_stall n0 = false -> has_stall n3 = false -> has_stall n4 = false ->
  flush_of n0 = None -> flush_of n1 = None -> flush_of n4 = None ->
  let p' := post p [n0; n1; n2; n3; n4] s4 in
  match flush_of n3, flush_of n2 with
  | Some a, _ => lat p' = [None; None; None; n3; n4] /\ stalled p' = None /\ pc (pst p') = a
  | None, Some a => lat p' = [None; None; n2; n3; n4] /\ pc (pst p') = a /\
                    (has_stall n2 = false -> stalled p' = None)
  | None, None => lat p' = [n0; n1; n2; n3; n4] /\ pc (pst p') = pc s4 /\
       stalled p' = (if has_stall n2 then Some (2, 2) else if has_stall n1 then Some (1, 2) else None)
  end.
Proof.
  intros Hst Hsv H0 H3 H4 F0 F1 F4 p'.
  pose proof (post_lat p [n0; n1; n2; n3; n4] s4) as Hlat.
  destruct (post_fields p [n0; n1; n2; n3; n4] s4) as (_ & _ & _ & _ & _ & _ & _ & _ & Hpc).
  fold p' in Hlat, Hpc.
  assert (Hns : new_stall [n0; n1; n2; n3; n4] None =
                if has_stall n2 then Some 2 else if has_stall n1 then Some 1 else None).
  { rewrite new_stall_5 by assumption. cbn [above]. rewrite !Bool.andb_true_r. reflexivity. }
  assert (Hsp : exists stl2 sv2 s1, stall_part None None (lat p) [n0; n1; n2; n3; n4] s4 = (stl2, sv2, s1) /\
            stl2 = match new_stall [n0; n1; n2; n3; n4] None with Some k => Some (k, 2) | None => None end).
  { destruct (new_stall [n0; n1; n2; n3; n4] None) as [k|] eqn:E.
    - rewrite (stall_part_new _ _ _ _ E). do 3 eexists. split; reflexivity.
    - rewrite (stall_part_idle _ _ _ E). do 3 eexists. split; reflexivity. }
  destruct Hsp as (stl2 & sv2 & s1 & Hsp & Hstl2). rewrite <- Hst, <- Hsv in Hsp.
  destruct (post_stalled_saved p _ _ _ _ _ Hsp) as [Hstd _]. fold p' in Hstd.
  unfold flush_cancels in Hstd. rewrite first_flush_5 in Hlat, Hpc, Hstd by assumption. rewrite F4 in *.
  destruct (flush_of n3) as [a|].
  - change (Z.to_nat 3) with 3%nat in Hlat. cbn [clear_prefix] in Hlat.
    split; [exact Hlat|]. split; [|exact Hpc]. rewrite Hstd, Hstl2, Hns.
    destruct (has_stall n2); [reflexivity|]. destruct (has_stall n1); reflexivity.
  - destruct (flush_of n2) as [a|].
    + change (Z.to_nat 2) with 2%nat in Hlat. cbn [clear_prefix] in Hlat.
      split; [exact Hlat|]. split; [exact Hpc|]. intros Hs2. rewrite Hstd, Hstl2, Hns, Hs2.
      destruct (has_stall n1); reflexivity.
    + split; [exact Hlat|]. split; [exact Hpc|]. rewrite Hstd, Hstl2, Hns.
      destruct (has_stall n2); [reflexivity|]. destruct (has_stall n1); reflexivity.
Qed.

(* the bookkeeping after a stalled cycle: no new stall can start; a flush cancels the stall *)
Lemma post_stalled p (n0 n1 n2 n3 n4 : latch) s4 k d sv : stalled p = Some (k, d) -> saved p = Some sv ->
  (d = 2 \/ d = 1) -> (k = 1 \/ k = 2) ->
  has_stall n0 = false -> has_stall n3 = false -> has_stall n4 = false ->
  (k = 1 -> has_stall n2 = false) ->
  flush_of n0 = None -> flush_of n1 = None -> flush_of n4 = None ->
  let p' := post p [n0; n1; n2; n3; n4] s4 in
  match flush_of n3, flush_of n2 with
  | Some a, _ => lat p' = [None; None; None; n3; n4] /\ stalled p' = None /\ pc (pst p') = a
  | None, Some a => lat p' = [None; None; n2; n3; n4] /\ pc (pst p') = a /\
                    stalled p' = (if (k <? 2) || (d =? 1) then None else Some (k, 1))
  | None, None => lat p' = [n0; n1; n2; n3; n4] /\ pc (pst p') = pc s4 /\
                  stalled p' = (if d =? 1 then None else Some (k, 1))
  end.
Proof.
  intros Hst Hsv Hd Hk H0 H3 H4 H2 F0 F1 F4 p'.
  pose proof (post_lat p [n0; n1; n2; n3; n4] s4) as Hlat.
  destruct (post_fields p [n0; n1; n2; n3; n4] s4) as (_ & _ & _ & _ & _ & _ & _ & _ & Hpc).
  fold p' in Hlat, Hpc.
  assert (Hns : new_stall [n0; n1; n2; n3; n4] (Some (k, d)) = None).
  { rewrite new_stall_5 by assumption. cbn [above].
    destruct Hk as [-> | ->].
    - rewrite (H2 eq_refl). replace (1 <? 1) with false by lia. rewrite !Bool.andb_false_r. reflexivity.
    - replace (2 <? 2) with false by lia. replace (2 <? 1) with false by lia.
      rewrite !Bool.andb_false_r. reflexivity. }
  assert (Hsp : exists sv2 s1, stall_part (Some (k, d)) (Some sv) (lat p) [n0; n1; n2; n3; n4] s4 =
                               ((if d =? 1 then None else Some (k, 1)), sv2, s1)).
  { destruct Hd as [-> | ->].
    - rewrite (stall_part_first _ _ _ _ _ Hns). do 2 eexists. reflexivity.
    - rewrite (stall_part_last _ _ _ _ _ Hns). do 2 eexists. reflexivity. }
  destruct Hsp as (sv2 & s1 & Hsp). rewrite <- Hst, <- Hsv in Hsp.
  destruct (post_stalled_saved p _ _ _ _ _ Hsp) as [Hstd _]. fold p' in Hstd.
  unfold flush_cancels in Hstd. rewrite first_flush_5 in Hlat, Hpc, Hstd by assumption. rewrite F4 in *.
  destruct (flush_of n3) as [a|].
  - change (Z.to_nat 3) with 3%nat in Hlat. cbn [clear_prefix] in Hlat.
    split; [exact Hlat|]. split; [|exact Hpc]. rewrite Hstd.
    destruct (d =? 1); [reflexivity|]. replace (k <? 3) with true by lia. reflexivity.
  - destruct (flush_of n2) as [a|].
    + change (Z.to_nat 2) with 2%nat in Hlat. cbn [clear_prefix] in Hlat.
      split; [exact Hlat|]. split; [exact Hpc|]. rewrite Hstd.
      destruct (d =? 1); [rewrite Bool.orb_true_r; reflexivity|]. rewrite Bool.orb_false_r.
      destruct (k <? 2); reflexivity.
    + split; [exact Hlat|]. split; [exact Hpc|]. rewrite Hstd. destruct (d =? 1); reflexivity.
Qed.

(* cycles until the oldest instruction in flight reaches latch 3, with the drain stall *)
Definition mu4 (p : pstate) : Z :=
  if nonempty (lat_at (lat p) 3) then 0
  else if nonempty (lat_at (lat p) 2)
       then 1 + match stalled p with Some (k, d) => if k =? 2 then d else 0 | None => 0 end
  else if nonempty (lat_at (lat p) 1) then 2 + dcount p
  else if nonempty (lat_at (lat p) 0) then 3 else 4.

(* the final cycle of an exiting ecall: it sits in latch 3, everything younger has been flushed *)
Definition Exiting (P : list instr) (p : pstate) (s : st) : Prop :=
  exists l0 x3 l4, lat p = [l0; None; None; Some x3; l4] /\ Shape no_icache p /\ hazards p = true /\
    stalled p = None /\ prog (im (pst p)) = P /\ prog (im s) = P /\ wf s /\ exitc s = None /\
    onp P s x3 /\ Mok s x3 /\ snd (single_pipeline_step s) = None /\ exitc (nxt s) <> None /\
    regs (pst p) = regs s /\ ms (pst p) = ms (nxt s) /\ bcount (pst p) = bcount (nxt s) /\
    pcount (pst p) = pcount (nxt s) /\ out (pst p) = out (nxt s) /\ exitc (pst p) = None /\
    icount (pst p) = icount s.

Section Ecall.
Variable P : list instr.
Hypothesis Hsup : Forall (fun i => supported i = true) P.

Lemma sup_at a i : instr_at P a = Some i -> supported i = true.
Proof. apply instr_supported. exact Hsup. Qed.

(* a MEM that went through: no redirect and the slot was plain; or a redirect to the
   single-cycle successor; or an exiting ecall *)
Lemma mem_ok_cases_e dead t l2 n3 : L2ok P l2 -> prog (im t) = P -> lv P True (dead = 3%nat) t l2 Eok ->
  fired l2 = nonempty l2 ->
  match l2, n3 with
  | Some x2, Some x3 =>
      Mok t x3 /\ sl_instr x3 = sl_instr x2 /\ sl_addr x3 = sl_addr x2 /\
      sl_flush x3 = mem_flush x2 /\ sl_exit x3 = sl_exit x2 /\
      snd (single_pipeline_step t) = None /\
      exitc (nxt t) = match sl_exit x3 with Some c => Some c | None => None end /\
      pc (nxt t) = match sl_flush x3 with Some a => a | None => pc t + 4 end
  | None, None => True
  | _, _ => False
  end ->
  okl P t l2 /\
  ((flush_of n3 = None /\ dead <> 3%nat /\ lv3 P t n3) \/
   (exists a, flush_of n3 = Some a /\ nonempty n3 = true /\ lv3 P t n3 /\ pc (nxt t) = a /\
              wf (nxt t) /\ prog (im (nxt t)) = P /\ exitc (nxt t) = None) \/
   (exists a x3, n3 = Some x3 /\ flush_of n3 = Some a /\ wf t /\ exitc t = None /\ onp P t x3 /\
              Mok t x3 /\ snd (single_pipeline_step t) = None /\ exitc (nxt t) <> None)).
Proof.
  intros K2 HP2 L2 Hfd Hrel3. destruct l2 as [x2|], n3 as [x3|]; try contradiction.
  2:{ split; [exact Logic.I|]. left. split; [reflexivity|]. split; [exact L2|exact Logic.I]. }
  destruct Hrel3 as (HMok & Hi3 & Ha3 & Hfl3 & Hex3 & Hok & Hexn & Hpcn).
  cbn [lv] in L2. destruct (L2 Logic.I) as (Wt & (Hx & Ha & Hi) & HE & Hbar & _).
  cbn [fired nonempty] in Hfd.
  assert (Hst : sl_stall x2 = false) by (destruct (sl_stall x2); [discriminate Hfd|reflexivity]).
  destruct K2 as (R2 & _ & _ & Hexi & _).
  assert (Hon3 : onp P t x3) by (unfold onp; rewrite Hi3, Ha3; repeat split; assumption).
  split; [cbn [okl]; split; [exact Wt|split; [repeat split; assumption|exact Hok]]|].
  pose proof Hi as Hi'. rewrite <- HP2 in Hi'. destruct (wf_nxt t _ Wt Hx Hi') as [Wn Hpn].
  cbn [flush_of nonempty]. rewrite Hfl3 in *. rewrite Hex3 in Hexn.
  destruct (is_ecall (sl_instr x2)) eqn:Hec.
  - (* ecall *)
    apply is_ecall_true in Hec. rewrite (mem_flush_ecall x2 Hec) in *. unfold wb_flush in *.
    destruct (sl_exit x2) as [c|] eqn:Hxe.
    + right; right. exists (sl_addr x2 + 4), x3. split; [reflexivity|]. split; [reflexivity|].
      csplit; try assumption. rewrite Hexn. discriminate.
    + left. split; [reflexivity|].
      assert (Hpl : plain t (sl_instr x2)).
      { split; [exact Hok|]. split; [exact Hexn|]. rewrite Hec. reflexivity. }
      split; [intros Hd3; apply (Hbar Hd3); exact Hpl|].
      cbn [lv3]. csplit; try assumption. split; [exact Hok|exact Hexn].
  - (* anything else *)
    assert (Hn : noecall (sl_instr x2) = true).
    { unfold noecall. rewrite Hec, (sup_at _ _ R2). reflexivity. }
    assert (Hxe : sl_exit x2 = None).
    { destruct (sl_exit x2) eqn:E; [|reflexivity]. rewrite Hexi in Hec by discriminate. discriminate Hec. }
    rewrite Hxe in Hexn.
    assert (HL3 : lv3 P t (Some x3)).
    { cbn [lv3]. csplit; try assumption. split; [exact Hok|exact Hexn]. }
    pose proof (mem_flush_redirects t x2 HE Hst Hn) as Hred.
    destruct (mem_flush x2) as [a|] eqn:Hmf.
    + right; left. exists a. csplit; try reflexivity; try assumption. congruence.
    + left. split; [reflexivity|]. split; [|exact HL3]. intros Hd3. apply (Hbar Hd3).
      split; [exact Hok|]. split; [exact Hexn|]. apply Hred. reflexivity.
Qed.

(** * The last cycle of an exiting ecall *)
Lemma exiting_step p s : Exiting P p s ->
  pipe_done p = false /\ single_done s = false /\
  single_pipeline_step s = (nxt s, None) /\ single_done (nxt s) = true /\
  exists p', pipe_step p = (p', None) /\ pipe_done p' = true /\ arch_agree p' (nxt s) /\
             some_addr (lat_at (lat p') 4) = [pc s].
Proof.
  intros (l0 & x3 & l4 & Hl & Sh & Hz & Hst & HPp & HPs & W & Hexs & Hon & HM & Hok & Hexn &
          Hrg & Hms & Hbc & Hpcn & Hout & Hexc & Hic).
  destruct Hon as (_ & Ha & Hi). pose proof Hi as Hi'. rewrite <- HPs in Hi'.
  assert (Hnd : single_done s = false) by (apply (not_done s _ Hexs Hi')).
  split.
  { unfold pipe_done, pipe_empty. rewrite Hexc, Hl. lat5. cbn [nonempty orb negb andb].
    rewrite !Bool.orb_true_r. reflexivity. }
  split; [exact Hnd|].
  split.
  { unfold nxt. destruct (single_pipeline_step s) as [s' o]. cbn [snd fst] in *. rewrite Hok. reflexivity. }
  split.
  { unfold single_done. destruct (exitc (nxt s)); [reflexivity|congruence]. }
  rewrite (pipe_step_normal p _ _ _ _ _ Hl Hst). unfold run_normal. rewrite Hz.
  destruct (if_stage P (bumped (pst p)) (sh_im _ _ Sh) HPp)
    as (n0 & s1 & HIF & Hr1 & Hm1 & Ho1 & He1 & Hi1 & Hb1 & Hp1 & HP1 & Hnc1 & Hs0 & Hf0 & Hn0).
  rewrite HIF. clear HIF. unfold bumped in *. stf.
  destruct HM as (e & te & tm & He & Hm).
  pose proof (sup_at _ _ Hi) as Hs.
  destruct (nxt_fields s _ W Hexs Hi' Hs _ _ _ _ He Hm) as (_ & Hrgn & _ & _ & Hexn' & _ & _ & Hicn & _).
  destruct (wb_never_faults s _ _ _ _ _ _ s1 Hs He Hm) as [s2 Hw]. rewrite Hw.
  rewrite ex_on_none, mem_on_none. cbn [finish].
  pose proof (wb_on_regs _ _ _ _ Hw) as Hr2. pose proof (wb_on_exitc _ _ _ _ Hw) as Hx2.
  pose proof (wb_on_law _ _ _ _ _ Hw) as (_ & Hms2 & Hout2 & Hbc2 & Hpcn2 & _ & Hic2).
  pose proof (mem_on_law _ _ _ _ _ Hm) as (_ & Hr3 & _).
  pose proof (ex_on_law _ _ _ _ _ _ _ He) as (_ & Hr4 & _).
  eexists. split; [reflexivity|].
  match goal with |- context [post p ?nx s2] => destruct (post_fields p nx s2)
    as (Fr & Fm & Fo & Fe & Fi & Fb & Fp & _); pose proof (post_lat p nx s2) as Flat end.
  assert (Hx3 : exists c, sl_exit x3 = Some c).
  { rewrite Hexn' in Hexn. destruct (sl_exit x3) as [c|]; [exists c; reflexivity|congruence]. }
  destruct Hx3 as [c Hx3]. rewrite Hx3 in *.
  split; [unfold pipe_done; rewrite Fe, Hx2; reflexivity|].
  split.
  { unfold arch_agree. rewrite Fr, Fm, Fo, Fe, Fi, Fb, Fp. cbn [nonempty] in Hic2.
    change (regs (pre s)) with (regs s) in Hr4.
    csplit; try congruence; try lia.
    rewrite Hr2, Hrgn. apply wb_regs_ext. rewrite Hr1, Hr3, Hr4. exact Hrg. }
  rewrite Flat.
  rewrite first_flush_5 by (assumption || apply id_on_flags).
  cbn [flush_of wb_slot sl_flush]. unfold wb_flush. rewrite Hx3.
  change (Z.to_nat 4) with 4%nat. cbn [clear_prefix]. lat5. cbn [some_addr wb_slot sl_addr]. rewrite Ha. reflexivity.
Qed.
(** * EX in a cycle that is not stalled *)
Lemma dfields_set_stall d b : dfields (set_stall d b) d.
Proof. repeat split. Qed.

(* EX on latch 1 in a cycle that is not stalled *)
Lemma ex_latch_e t1 l1 l2 l3 s2 : Dsh_latch l1 -> L1ok P l1 ->
  (forall x1, l1 = Some x1 -> sl_instr x1 = IEcall -> l2 = None -> l3 = None ->
     wf t1 /\ exitc t1 = None /\ prog (im t1) = P /\ onp P t1 x1 /\ Dok t1 x1 /\
     regs s2 = regs t1 /\ ms s2 = ms t1 /\ out s2 = out t1) ->
  match ex_on l1 l2 l3 s2 with
  | (n2, s3, None) =>
      nonempty n2 = nonempty l1 /\
      regs s3 = regs s2 /\ ms s3 = ms s2 /\ exitc s3 = exitc s2 /\ icount s3 = icount s2 /\
      bcount s3 = bcount s2 /\ pcount s3 = pcount s2 /\ pc s3 = pc s2 /\ im s3 = im s2 /\
      match l1, n2 with
      | Some x1, Some x2 => sl_instr x2 = sl_instr x1 /\ sl_addr x2 = sl_addr x1 /\
                            (Dok t1 x1 -> Eok t1 x2)
      | None, None => True
      | _, _ => False
      end /\
      ((out s3 = out s2 /\ has_stall n2 = false /\ flush_of n2 = None /\ fired n2 = nonempty n2 /\
        forall x1, l1 = Some x1 -> is_ecall (sl_instr x1) = false) \/
       (out s3 = out s2 /\ has_stall n2 = true /\ flush_of n2 = None /\ fired n2 = false /\
        (nonempty l2 = true \/ nonempty l3 = true)) \/
       (l2 = None /\ l3 = None /\ has_stall n2 = false /\ fired n2 = true /\
        snd (single_pipeline_step t1) = None /\ out s3 = out (nxt t1) /\
        ((flush_of n2 = None /\ plain t1 IEcall) \/
         (exists a c, flush_of n2 = Some a /\ exitc (nxt t1) = Some c))))
  | (n2, s3, Some e) => exists x1 tm, l1 = Some x1 /\ l2 = None /\ l3 = None /\
      single_pipeline_step t1 = (tm, Some (mkfault (sl_addr x1) (sl_instr x1) e)) /\
      regs s3 = regs tm /\ ms s3 = ms tm /\ out s3 = out tm
  end.
Proof.
  intros D1 K1 Hfire. destruct l1 as [x1|].
  2:{ rewrite ex_on_none. csplit; try reflexivity. left. csplit; try reflexivity. intros x1 H; discriminate H. }
  destruct K1 as (R & _). pose proof (sup_at _ _ R) as Hs.
  destruct (is_ecall (sl_instr x1)) eqn:Hec.
  - apply is_ecall_true in Hec. rewrite (ex_on_ecall x1 l2 l3 s2 Hec).
    destruct (ex_busy x1 l2 l3) eqn:Hb.
    + csplit; try reflexivity.
      * intros [b Hd]. unfold Eok. cbn [ex_slot sl_stall sl_instr]. rewrite Hec. split; [reflexivity|].
        rewrite Hd at 1. rewrite Hec. apply ex_slot_ext. apply dfields_set_stall.
      * right; left. csplit; try reflexivity.
        unfold ex_busy in Hb. destruct D1 as (s0 & b & Hx). rewrite Hx in Hb. cbn [set_stall sl_saved id_slot] in Hb.
        destruct (nonempty l2); [left; reflexivity|right; exact Hb].
    + assert (Hl23 : l2 = None /\ l3 = None).
      { unfold ex_busy in Hb. destruct D1 as (s0 & b & Hx). rewrite Hx in Hb. cbn [set_stall sl_saved id_slot] in Hb.
        destruct l2, l3; try discriminate Hb. split; reflexivity. }
      destruct Hl23 as [-> ->].
      destruct (Hfire x1 eq_refl Hec eq_refl eq_refl) as (W & Hex & HP & (_ & Ha & Hi) & Hdok & Hr & Hm & Ho).
      rewrite Hec in Hi.
      assert (Hdf : dfields x1 (dsl t1 IEcall)).
      { destruct Hdok as [b Hd]. rewrite Hec in Hd. rewrite Hd. apply dfields_set_stall. }
      pose proof (ecall_fire P t1 x1 None None s2 W Hex HP Hi Hdf Hr Hm Ho Hb) as HF.
      rewrite (ex_on_ecall x1 None None s2 Hec), Hb in HF.
      destruct (process_ecall s2) as [[[txt|c]|e] s'].
      * destruct HF as (x2 & Hx2 & HE & Hi2 & Ha2 & Hst2 & F1 & F2 & F3 & F4 & F5 & F6 & F7 & F8 & Hout & Hok & Hcase).
        injection Hx2 as Hx2. rewrite Hx2. cbn [nonempty has_stall flush_of fired]. rewrite Hst2.
        csplit; try assumption; try reflexivity; try congruence.
        right; right. csplit; try reflexivity; try assumption.
        destruct Hcase as [[Hf Hpl]|(c & Hf & Hxn)]; [left; split; assumption|right; eauto].
      * destruct HF as (x2 & Hx2 & HE & Hi2 & Ha2 & Hst2 & F1 & F2 & F3 & F4 & F5 & F6 & F7 & F8 & Hout & Hok & Hcase).
        injection Hx2 as Hx2. rewrite Hx2. cbn [nonempty has_stall flush_of fired]. rewrite Hst2.
        csplit; try assumption; try reflexivity; try congruence.
        right; right. csplit; try reflexivity; try assumption.
        destruct Hcase as [[Hf Hpl]|(c' & Hf & Hxn)]; [left; split; assumption|right; eauto].
      * destruct HF as (tm & Hss & F1 & F2 & F3). exists x1, tm. rewrite Hec, Ha.
        csplit; try reflexivity; assumption.
  - destruct (ex_stage x1 l2 l3 s2 D1 Hs Hec) as (x2 & He & Hi & Ha & Hst & Hf & _ & Hd).
    rewrite He. cbn [nonempty has_stall flush_of fired]. rewrite Hst.
    csplit; try reflexivity; try assumption; [apply Hd|].
    left. csplit; try reflexivity; try assumption. intros x Hx. injection Hx as <-. exact Hec.
Qed.
(* output of a step that is not an ecall *)
Lemma adv_out_ne t l : wf t -> prog (im t) = P ->
  match l with Some x => onp P t x /\ is_ecall (sl_instr x) = false | None => True end ->
  out (adv l t) = out t.
Proof.
  intros W HP Hl. destruct l as [x|]; [|reflexivity]. destruct Hl as ((_ & _ & Hi) & Hec).
  cbn [adv nonempty]. pose proof (sup_at _ _ Hi) as Hs. rewrite <- HP in Hi.
  unfold nxt. rewrite (sstep_eq t _ W Hi).
  assert (Hn : noecall (sl_instr x) = true) by (unfold noecall; rewrite Hs, Hec; reflexivity).
  pose proof (behavior_noecall _ (pre t) Hn) as [H _].
  destruct (behavior (sl_instr x) (pre t)) as [s2 [e|]]; cbn [fst] in *; stf; exact H.
Qed.

(* what one cycle proves *)
Definition step_goal (p : pstate) (s : st) (l3 : latch) : Prop :=
  match pipe_step p with
  | (p', None) => (Inv P p' (adv l3 s) \/ Exiting P p' (adv l3 s)) /\
                  lat_at (lat p') 4 = option_map wb_slot l3 /\ (l3 = None -> mu4 p' < mu4 p)
  | (p', Some f) => exists tm, single_pipeline_step (adv l3 s) = (tm, Some f) /\
                  single_done (adv l3 s) = false /\
                  regs (pst p') = regs tm /\ ms (pst p') = ms tm /\ out (pst p') = out tm
  end.

(** * One step, not stalled *)
Lemma step_normal_e p s l0 l1 l2 l3 l4 dead : InvAt P p s l0 l1 l2 l3 l4 dead -> stalled p = None ->
  pipe_done p = false -> step_goal p s l3.
Proof.
  intros [Hl Sh Hz HPp HPs W Hexs Hd D1 L3 L2 L1 L0 HF Hrg Hms Hbc Hpcn Hout Hexc Hic Hfd] Hst Hnd.
  unfold step_goal.
  pose proof (shape_step no_icache p no_icache_faithful Sh) as Sh'.
  assert (Hsv : saved p = None) by (apply (shape_saved_iff no_icache p Sh); exact Hst).
  rewrite (pipe_step_normal p _ _ _ _ _ Hl Hst) in *. unfold run_normal in *. rewrite Hz in *.
  destruct (if_stage P (bumped (pst p)) (sh_im _ _ Sh) HPp)
    as (n0 & s1 & HIF & Hr1 & Hm1 & Ho1 & He1 & Hi1 & Hb1 & Hp1 & HP1 & Hnc1 & Hs0 & Hf0 & Hn0).
  rewrite HIF in *. clear HIF.
  destruct (wb_stage P Hsup s l3 s1 HPs L3 W Hexs ltac:(rewrite Hr1; exact Hrg))
    as (s2 & HWB & Hf4 & Hr2 & Hm2 & Ho2 & Hb2 & Hp2 & He2 & Hpc2 & Him2 & Hi2 & W2 & HP2 & Hex2).
  rewrite HWB in *. clear HWB. unfold bumped in *. stf.
  destruct (shape_at p _ _ _ _ _ Sh Hl) as (K0 & K1 & K2 & K3 & K4 & KM). rewrite HPp in *.
  assert (Hfd2 : fired l2 = nonempty l2) by (rewrite Hfd, Hst; reflexivity).
  assert (HPt1 : prog (im (adv l2 (adv l3 s))) = P /\ wf (adv l2 (adv l3 s))).
  { apply adv_prog; auto. destruct l2; [apply (L2 Logic.I)|exact Logic.I]. }
  destruct HPt1 as [HPt1 Wt1].
  (* the output so far is that of the pre-state of latch 1 *)
  assert (Hout1 : out s2 = out (adv l2 (adv l3 s))).
  { rewrite Ho2, Ho1, Hout, Hfd2. destruct l2; reflexivity. }
  pose proof (ex_latch_e (adv l2 (adv l3 s)) l1 l2 l3 s2 D1 K1) as HEX.
  assert (HFIRE : forall x1, l1 = Some x1 -> sl_instr x1 = IEcall -> l2 = None -> l3 = None ->
     wf (adv l2 (adv l3 s)) /\ exitc (adv l2 (adv l3 s)) = None /\ prog (im (adv l2 (adv l3 s))) = P /\
     onp P (adv l2 (adv l3 s)) x1 /\ Dok (adv l2 (adv l3 s)) x1 /\
     regs s2 = regs (adv l2 (adv l3 s)) /\ ms s2 = ms (adv l2 (adv l3 s)) /\ out s2 = out (adv l2 (adv l3 s))).
  { intros x1 -> Hec -> ->. cbn [adv nonempty lv] in *.
    assert (Hd2 : (dead <= 2)%nat) by lia. destruct (L1 Hd2) as (_ & Hon & Hdk & _). pose proof Hon as (Hx & _).
    csplit; try assumption; [apply Hdk; exact Hst|congruence]. }
  specialize (HEX HFIRE). clear HFIRE.
  destruct (ex_on l1 l2 l3 s2) as [[n2 s3] [e|]].
  { (* the ecall faults when it fires *)
    destruct HEX as (x1 & tm & -> & -> & -> & Hss & F1 & F2 & F3).
    cbn [finish fst snd faulted pst fault_at fault_of lat_at nthZ nth Z.to_nat adv nonempty] in *.
    exists tm. split; [exact Hss|].
    cbn [lv] in L1, L2. destruct (L1 ltac:(lia)) as (_ & (Hx & _ & Hi) & _).
    split; [apply (not_done _ (sl_instr x1)); [exact Hx|rewrite HPs; exact Hi]|].
    repeat split; assumption. }
  destruct HEX as (Hne2 & Fr3 & Fm3 & Fe3 & Fi3 & Fb3 & Fp3 & Fpc3 & Fim3 & Hrel2 & Hcase2).
  destruct (mem_on l2 s3) as [[n3 s4] oe] eqn:HM.
  pose proof (mem_stage P Hsup _ _ _ _ _ _ _ HP2 L2 Hfd2
                ltac:(rewrite Fm3, Hm2, Hm1; exact Hms) HM) as (Hr4 & Ho4 & He4 & Hi4 & Hpc4 & Him4 & HMEM).
  destruct oe as [e|].
  { destruct HMEM as (x2 & tm & -> & Hstep & Hm4 & Hrtm).
    cbn [finish fst snd faulted pst fault_at fault_of lat_at nthZ nth Z.to_nat].
    exists tm. split; [exact Hstep|].
    cbn [lv] in L2. destruct (L2 Logic.I) as (_ & (Hx & _ & Hi) & _).
    split; [apply (not_done _ (sl_instr x2)); [exact Hx|rewrite HP2; exact Hi]|].
    split; [rewrite Hr4, Fr3, Hr2, Hrtm; reflexivity|]. split; [exact Hm4|].
    assert (Ho3 : out s3 = out s2).
    { destruct Hcase2 as [(H & _)|[(H & _)|(H & _)]]; [exact H|exact H|discriminate H]. }
    rewrite Ho4, Ho3, Hout1. cbn [nonempty adv]. unfold nxt. rewrite Hstep. reflexivity. }
  destruct HMEM as (Hne3 & Hm4 & Hs3 & Hb4 & Hp4 & Hrel3).
  set (n1 := id_on true l0 l1 l2 s2) in *. set (n4 := option_map wb_slot l3) in *.
  assert (Hs4 : has_stall n4 = false) by (subst n4; destruct l3; reflexivity).
  assert (Hne1 : nonempty n1 = nonempty l0) by apply nonempty_id_on.
  assert (Hf1 : flush_of n1 = None) by apply id_on_flags.
  cbn [finish]. cbn [finish fst] in Sh'.
  pose proof (post_normal p n0 n1 n2 n3 n4 s4 Hst Hsv Hs0 Hs3 Hs4 Hf0 Hf1 Hf4) as HPOST. cbv zeta in HPOST.
  destruct (post_fields p [n0; n1; n2; n3; n4] s4) as (Fr & Fm & Fo & Fe & Fi & Fb & Fp & Fim & _).
  pose proof (post_hazards p [n0; n1; n2; n3; n4] s4) as Hhz'. rewrite Hz in Hhz'.
  match goal with |- context [post p ?nx s4] => set (p' := post p nx s4) in * end.
  change (post p [n0; n1; n2; n3; n4] s4) with p' in HPOST, Fr, Fm, Fo, Fe, Fi, Fb, Fp, Fim, Hhz'.
  assert (Hregs' : regs (pst p') = regs (adv l3 s)) by congruence.
  assert (Hms' : ms (pst p') = ms (adv l2 (adv l3 s))) by congruence.
  assert (Hbc' : bcount (pst p') = bcount (adv l2 (adv l3 s))) by (rewrite Fb; lia).
  assert (Hpcn' : pcount (pst p') = pcount (adv l2 (adv l3 s))) by (rewrite Fp; lia).
  assert (Hexc' : exitc (pst p') = None) by congruence.
  assert (Hic' : icount (pst p') = icount (adv l3 s)) by (rewrite Fi; lia).
  assert (Hprog' : prog (im (pst p')) = P) by (rewrite Fim, Him4, Fim3, Him2; exact HP1).
  assert (Hout' : out (pst p') = out s3) by congruence.
  destruct (mem_ok_cases_e dead _ _ _ K2 HP2 L2 Hfd2 Hrel3)
    as (O2 & [(Hf3 & Hd3 & L3') | [(a & Hf3 & Hn3 & L3' & Hpca & Wn & HPn & Hexn) |
                                  (a & x3 & Hn3 & Hf3 & Wt & Hxt & Hon3 & HM3 & Hok3 & Hexn)]]).
  3:{ (* an exiting ecall moves to latch 3 *)
      rewrite Hf3 in HPOST. destruct HPOST as (Hlat' & Hstl' & Hpc').
      assert (Hl2ne : nonempty l2 = true) by (rewrite <- Hne3, Hn3; reflexivity).
      assert (Hadv2 : forall t, adv l2 t = nxt t) by (intros; unfold adv; rewrite Hl2ne; reflexivity).
      rewrite Hadv2 in *.
      assert (Ho3 : out s3 = out s2).
      { destruct Hcase2 as [(H & _)|[(H & _)|(H & _)]]; [exact H|exact H|subst l2; discriminate Hl2ne]. }
      split; [|split].
      - right. exists None, x3, n4. rewrite Hn3 in Hlat'.
        csplit; try assumption; try congruence.
      - rewrite Hlat'. reflexivity.
      - intros ->. unfold mu4. rewrite Hlat', Hl. lat5. rewrite Hn3. cbn [nonempty]. rewrite Hl2ne, Hst. lia. }
  2:{ (* a control transfer redirects from latch 3 *)
      rewrite Hf3 in HPOST. destruct HPOST as (Hlat' & Hstl' & Hpc').
      assert (Hl2ne : nonempty l2 = true) by (rewrite <- Hne3; exact Hn3).
      assert (Hadv2 : forall t, adv l2 t = nxt t) by (intros; unfold adv; rewrite Hl2ne; reflexivity).
      assert (Hadv3 : forall t, adv n3 t = nxt t) by (intros; unfold adv; rewrite Hn3; reflexivity).
      rewrite Hadv2 in *.
      assert (Ho3 : out s3 = out s2).
      { destruct Hcase2 as [(H & _)|[(H & _)|(H & _)]]; [exact H|exact H|subst l2; discriminate Hl2ne]. }
      split; [|split].
      - left. exists None, None, None, n3, n4, 0%nat. constructor; try assumption; try lia.
        + exact Logic.I.
        + cbn [lv]. lia.
        + cbn [lv]. lia.
        + cbn [lv]. lia.
        + intros _. cbn [adv nonempty]. rewrite Hadv3. csplit; try assumption. congruence.
        + rewrite Hadv3. exact Hms'.
        + rewrite Hadv3. exact Hbc'.
        + rewrite Hadv3. exact Hpcn'.
        + cbn [fired]. rewrite Hadv3. congruence.
        + rewrite Hstl'. reflexivity.
      - rewrite Hlat'. reflexivity.
      - intros ->. unfold mu4. rewrite Hlat', Hl. lat5. rewrite Hn3. cbn [nonempty]. rewrite Hl2ne, Hst. lia. }
  rewrite Hf3 in HPOST.
  assert (Hd2 : (dead <= 2)%nat) by lia.
  assert (Hl1live : match l1 with Some x1 => wf (adv l2 (adv l3 s)) /\ onp P (adv l2 (adv l3 s)) x1 /\
                      Dok (adv l2 (adv l3 s)) x1 | None => True end).
  { destruct l1 as [x1|]; [|exact Logic.I]. cbn [lv] in L1. destruct (L1 Hd2) as (a & b & c & _).
    split; [exact a|]. split; [exact b|]. apply c. exact Hst. }
  assert (HI : (l2 = None /\ l3 = None /\ has_stall n2 = false /\ fired n2 = true /\
                out s3 = out (nxt (adv l2 (adv l3 s))) /\
                exists a c, flush_of n2 = Some a /\ exitc (nxt (adv l2 (adv l3 s))) = Some c) \/
               (flush_of n2 = None /\
                out s3 = out (if fired n2 then adv l1 (adv l2 (adv l3 s)) else adv l2 (adv l3 s)) /\
                fired n2 = (if has_stall n2 then false else nonempty n2) /\
                (has_stall n2 = true -> nonempty l2 = true \/ nonempty l3 = true))).
  { destruct Hcase2 as [(Ho3 & Hs2 & Hf2 & Hfd2' & Hnec) | [(Ho3 & Hs2 & Hf2 & Hfd2' & Hbusy) |
        (Hl2 & Hl3 & Hs2 & Hfd2' & Hok1 & Ho3 & [(Hf2 & Hpl1) | (a & c & Hf2 & Hxn1)])]].
    - right. rewrite Hs2, Hfd2', Hne2. csplit; try assumption; try reflexivity; [|intros H; discriminate H].
      rewrite Ho3, Hout1. destruct l1 as [x1|]; cbn [nonempty]; [|reflexivity].
      symmetry. apply (adv_out_ne); try assumption.
      destruct Hl1live as (_ & Hon & _). split; [exact Hon|apply Hnec; reflexivity].
    - right. rewrite Hs2, Hfd2'. csplit; try assumption; try reflexivity; [|intros _; exact Hbusy].
      rewrite Ho3, Hout1. reflexivity.
    - right. rewrite Hs2, Hfd2'. csplit; try assumption; try reflexivity; [| |intros H; discriminate H].
      + rewrite Ho3. destruct l1 as [x1|], n2 as [x2|]; try contradiction; try discriminate Hfd2'. reflexivity.
      + destruct n2; [reflexivity|discriminate Hfd2'].
    - left. csplit; try assumption. exists a, c. split; assumption. }
  destruct HI as [(Hl2 & Hl3 & Hs2 & Hfd2' & Ho3 & a & c & Hf2 & Hxn1) | (Hf2 & HoutI & HfI & HbusyI)].
  { (* the ecall fires and exits: flush from latch 2 *)
      subst l2 l3. rewrite Hf2 in HPOST. destruct HPOST as (Hlat' & Hpc' & Hstl'). specialize (Hstl' Hs2).
      cbn [adv nonempty] in *.
      destruct n3 as [?|]; [discriminate Hne3|]. subst n4. cbn [option_map] in *.
      destruct l1 as [x1|], n2 as [x2|]; try contradiction; try discriminate Hfd2'.
      destruct Hl1live as (Wt & Hon1 & Hdk1). destruct Hrel2 as (Hix2 & Hax2 & HE2).
      split; [|split].
      - left. exists None, None, (Some x2), None, None, 3%nat. constructor; try assumption; try lia.
        + cbn [lv adv nonempty]. intros _. split; [exact Wt|].
          split; [unfold onp; rewrite Hix2, Hax2; exact Hon1|]. split; [apply HE2; exact Hdk1|].
          split; [|intros H; exfalso; apply H; reflexivity].
          intros _ (_ & Hx & _). rewrite Hxn1 in Hx. discriminate Hx.
        + cbn [lv]. lia.
        + cbn [lv]. lia.
        + rewrite Hfd2'. cbn [adv nonempty]. congruence.
        + rewrite Hstl', Hfd2'. reflexivity.
      - rewrite Hlat'. reflexivity.
      - intros _. unfold mu4, dcount. rewrite Hlat', Hl, Hst, Hstl'. lat5. cbn [nonempty]. lia. }
  rewrite Hf2 in HPOST. destruct HPOST as (Hlat' & Hpc' & Hstl').
  destruct (new_fetch P dead (adv l0 (adv l1 (adv l2 (adv l3 s)))) n0 (pc (pst p)) (pc s1))
    as (dead' & Hdd & L0' & HF').
  { intros H0. destruct (HF H0) as (a & b & c & d). csplit; assumption. }
  { destruct n0; [destruct Hn0 as (a & b & c & _); csplit; assumption|apply Hn0]. }
  assert (O1 : (dead <= 1)%nat -> okl P (adv l2 (adv l3 s)) l1).
  { intros Hd1. destruct l1 as [x1|]; [|exact Logic.I]. cbn [lv] in L1.
    destruct (L1 ltac:(lia)) as (Wt & Hon & _ & _ & Hpl).
    split; [exact Wt|]. split; [exact Hon|]. apply Hpl. lia. }
  split; [|split].
  - left. exists n0, n1, n2, n3, n4, dead'. constructor; try assumption; try lia.
    + subst n1. destruct l0; [rewrite id_on_some; apply id_slot_Dsh|exact Logic.I].
    + rewrite (adv_ne n3 l2) by exact Hne3.
      apply (lv_map P _ _ _ _ _ _ _ _ _ L1); try lia.
      destruct l1 as [x1|], n2 as [x2|]; try contradiction; [|exact Logic.I].
      destruct Hrel2 as (a & b & c). split; [exact a|]. split; [exact b|]. intros _ _ _ Hc. apply c, Hc, Hst.
    + rewrite (adv_ne n3 l2), (adv_ne n2 l1) by assumption.
      apply (lv_map P _ _ _ _ _ _ _ _ _ L0); try lia.
      subst n1. destruct l0 as [y|]; [rewrite id_on_some|exact Logic.I].
      split; [reflexivity|]. split; [reflexivity|]. intros Hlv _ (_ & Hay & _) _ Hstl.
      rewrite Hstl' in Hstl. destruct (has_stall n2); [discriminate Hstl|].
      destruct (has_stall (id_on true (Some y) l1 l2 s2)) eqn:Hs1; [discriminate Hstl|].
      rewrite id_on_some in Hs1. cbn [has_stall id_slot sl_stall] in Hs1.
      apply (id_operands P Hsup); try assumption; [apply O1; lia].
    + rewrite (adv_ne n3 l2), (adv_ne n2 l1), (adv_ne n1 l0) by assumption. exact L0'.
    + rewrite (adv_ne n3 l2), (adv_ne n2 l1), (adv_ne n1 l0) by assumption.
      intros H0. cbv zeta. destruct (HF' H0) as (a & b & c & d). csplit; try assumption. congruence.
    + rewrite (adv_ne n3 l2) by assumption. exact Hms'.
    + rewrite (adv_ne n3 l2) by assumption. exact Hbc'.
    + rewrite (adv_ne n3 l2) by assumption. exact Hpcn'.
    + rewrite (adv_ne n3 l2), (adv_ne n2 l1) by assumption. rewrite Hout'. exact HoutI.
    + rewrite Hstl', HfI. destruct (has_stall n2), (has_stall n1); reflexivity.
  - rewrite Hlat'. reflexivity.
  - intros ->. unfold mu4, dcount. rewrite Hlat', Hl, Hst, Hstl'. lat5.
    rewrite Hne3, Hne2, Hne1. cbn [nonempty].
    destruct l2 as [x2|]; cbn [nonempty]; [lia|].
    assert (Hs2 : has_stall n2 = false).
    { destruct (has_stall n2); [|reflexivity]. destruct (HbusyI eq_refl) as [H|H]; discriminate H. }
    rewrite Hs2.
    destruct l1 as [x1|]; cbn [nonempty]; [destruct (has_stall n1); cbn; lia|].
    assert (Hs1 : has_stall n1 = false).
    { destruct (has_stall n1) eqn:E; [|reflexivity].
      apply has_stall_id_needs in E. cbn [nonempty] in E. destruct E as [_ [H|H]]; discriminate H. }
    rewrite Hs1.
    destruct l0 as [x0|]; cbn [nonempty]; [lia|].
    destruct n0 as [x|]; cbn [nonempty]; [lia|]. exfalso.
    destruct Hn0 as [_ Hn0]. unfold pipe_done, pipe_empty in Hnd. rewrite Hexc, Hl in Hnd. lat5h Hnd.
    cbn [nonempty orb negb andb] in Hnd. unfold has_instr in Hnd. rewrite HPp in Hnd.
    rewrite Hn0 in Hnd. discriminate Hnd.
Qed.

(** * One step, stalled at ID *)
Lemma step_stall1_e p s l0 l1 l2 l3 l4 dead d : InvAt P p s l0 l1 l2 l3 l4 dead ->
  stalled p = Some (1, d) -> step_goal p s l3.
Proof.
  intros [Hl Sh Hz HPp HPs W Hexs Hd D1 L3 L2 L1 L0 HF Hrg Hms Hbc Hpcn Hout Hexc Hic Hfd] Hst.
  unfold step_goal.
  pose proof (shape_step no_icache p no_icache_faithful Sh) as Sh'.
  destruct (shape_at p _ _ _ _ _ Sh Hl) as (K0 & K1 & K2 & K3 & K4 & KM). rewrite HPp in *.
  rewrite Hst in KM. unfold ModeInv in KM. destruct (saved p) as [svl|] eqn:Hsv; [|contradiction].
  destruct KM as [Hd12 [(_ & m & x1 & -> & -> & Hm & Him & Ham & _ & Hd1)|(Habs & _)]]; [|discriminate Habs].
  rewrite (pipe_step_stall1 p _ _ _ _ _ d Hl Hst) in *. unfold run_stall1, sv_at in *. rewrite Hz, Hsv in *.
  change (lat_at [Some m] 0) with (Some m) in *.
  destruct (wb_stage P Hsup s l3 (bumped (pst p)) HPs L3 W Hexs Hrg)
    as (s2 & HWB & Hf4 & Hr2 & Hm2 & Ho2 & Hb2 & Hp2 & He2 & Hpc2 & Him2 & Hi2 & W2 & HP2 & Hex2).
  rewrite HWB in *. clear HWB. unfold bumped in *. stf.
  assert (Hfd2 : fired l2 = nonempty l2) by (rewrite Hfd, Hst; reflexivity).
  assert (Hout1 : out s2 = out (adv l2 (adv l3 s))).
  { rewrite Ho2, Hout, Hfd2. destruct l2; reflexivity. }
  destruct (mem_on l2 s2) as [[n3 s4] oe] eqn:HM.
  pose proof (mem_stage P Hsup _ _ _ _ _ _ _ HP2 L2 Hfd2
                ltac:(rewrite Hm2; exact Hms) HM) as (Hr4 & Ho4 & He4 & Hi4 & Hpc4 & Him4 & HMEM).
  destruct oe as [e|].
  { destruct HMEM as (x2 & tm & -> & Hstep & Hm4 & Hrtm).
    cbn [finish fst snd faulted pst fault_at fault_of lat_at nthZ nth Z.to_nat].
    exists tm. split; [exact Hstep|].
    cbn [lv] in L2. destruct (L2 Logic.I) as (_ & (Hx & _ & Hi) & _).
    split; [apply (not_done _ (sl_instr x2)); [exact Hx|rewrite HP2; exact Hi]|].
    split; [rewrite Hr4, Hr2, Hrtm; reflexivity|]. split; [exact Hm4|].
    rewrite Ho4, Hout1. cbn [nonempty adv]. unfold nxt. rewrite Hstep. reflexivity. }
  destruct HMEM as (Hne3 & Hm4 & Hs3 & Hb4 & Hp4 & Hrel3).
  set (n1 := id_on true (Some m) (Some x1) l2 s2) in *. set (n4 := option_map wb_slot l3) in *.
  assert (Hs4 : has_stall n4 = false) by (subst n4; destruct l3; reflexivity).
  assert (Hne1 : nonempty n1 = true) by (subst n1; rewrite id_on_some; reflexivity).
  assert (Hf1 : flush_of n1 = None) by apply id_on_flags.
  destruct (L0ok_flags _ _ K0) as [Hs0 Hf0].
  cbn [finish]. cbn [finish fst] in Sh'.
  pose proof (post_stalled p l0 n1 None n3 n4 s4 1 d _ Hst Hsv Hd12 (or_introl eq_refl)
                Hs0 Hs3 Hs4 (fun _ => eq_refl) Hf0 Hf1 Hf4) as HPOST. cbv zeta in HPOST. cbn [flush_of] in HPOST.
  destruct (post_fields p [l0; n1; None; n3; n4] s4) as (Fr & Fm & Fo & Fe & Fi & Fb & Fp & Fim & _).
  pose proof (post_hazards p [l0; n1; None; n3; n4] s4) as Hhz'. rewrite Hz in Hhz'.
  match goal with |- context [post p ?nx s4] => set (p' := post p nx s4) in * end.
  change (post p [l0; n1; None; n3; n4] s4) with p' in HPOST, Fr, Fm, Fo, Fe, Fi, Fb, Fp, Fim, Hhz'.
  assert (Hregs' : regs (pst p') = regs (adv l3 s)) by congruence.
  assert (Hms' : ms (pst p') = ms (adv l2 (adv l3 s))) by congruence.
  assert (Hbc' : bcount (pst p') = bcount (adv l2 (adv l3 s))) by (rewrite Fb; lia).
  assert (Hpcn' : pcount (pst p') = pcount (adv l2 (adv l3 s))) by (rewrite Fp; lia).
  assert (Hexc' : exitc (pst p') = None) by congruence.
  assert (Hic' : icount (pst p') = icount (adv l3 s)) by (rewrite Fi; lia).
  assert (Hprog' : prog (im (pst p')) = P) by (rewrite Fim, Him4, Him2; exact HPp).
  assert (Hout' : out (pst p') = out (adv l2 (adv l3 s))) by congruence.
  destruct (mem_ok_cases_e dead _ _ _ K2 HP2 L2 Hfd2 Hrel3)
    as (O2 & [(Hf3 & Hd3 & L3') | [(a & Hf3 & Hn3 & L3' & Hpca & Wn & HPn & Hexn) |
                                  (a & x3 & Hn3 & Hf3 & Wt & Hxt & Hon3 & HM3 & Hok3 & Hexn)]]).
  3:{ rewrite Hf3 in HPOST. destruct HPOST as (Hlat' & Hstl' & Hpc').
      assert (Hl2ne : nonempty l2 = true) by (rewrite <- Hne3, Hn3; reflexivity).
      assert (Hadv2 : forall t, adv l2 t = nxt t) by (intros; unfold adv; rewrite Hl2ne; reflexivity).
      rewrite Hadv2 in *.
      split; [|split].
      - right. exists None, x3, n4. rewrite Hn3 in Hlat'. csplit; try assumption; try congruence.
      - rewrite Hlat'. reflexivity.
      - intros ->. unfold mu4. rewrite Hlat', Hl. lat5. rewrite Hn3. cbn [nonempty]. rewrite Hl2ne, Hst.
        replace (1 =? 2) with false by lia. lia. }
  2:{ rewrite Hf3 in HPOST. destruct HPOST as (Hlat' & Hstl' & Hpc').
      assert (Hl2ne : nonempty l2 = true) by (rewrite <- Hne3; exact Hn3).
      assert (Hadv2 : forall t, adv l2 t = nxt t) by (intros; unfold adv; rewrite Hl2ne; reflexivity).
      assert (Hadv3 : forall t, adv n3 t = nxt t) by (intros; unfold adv; rewrite Hn3; reflexivity).
      rewrite Hadv2 in *.
      split; [|split].
      - left. exists None, None, None, n3, n4, 0%nat. constructor; try assumption; try lia.
        + exact Logic.I.
        + cbn [lv]. lia.
        + cbn [lv]. lia.
        + cbn [lv]. lia.
        + intros _. cbn [adv nonempty]. rewrite Hadv3. csplit; try assumption. congruence.
        + rewrite Hadv3. exact Hms'.
        + rewrite Hadv3. exact Hbc'.
        + rewrite Hadv3. exact Hpcn'.
        + cbn [fired]. rewrite Hadv3. congruence.
        + rewrite Hstl'. reflexivity.
      - rewrite Hlat'. reflexivity.
      - intros ->. unfold mu4. rewrite Hlat', Hl. lat5. rewrite Hn3. cbn [nonempty]. rewrite Hl2ne, Hst.
        replace (1 =? 2) with false by lia. lia. }
  rewrite Hf3 in HPOST. destruct HPOST as (Hlat' & Hpc' & Hstl').
  split; [|split].
  - left. exists l0, n1, None, n3, n4, dead. constructor; try assumption; try lia.
    + subst n1. rewrite id_on_some. apply id_slot_Dsh.
    + rewrite (adv_ne n3 l2) by exact Hne3. cbn [adv nonempty].
      change (adv l2 (adv l3 s)) with (adv None (adv l2 (adv l3 s))) in L1 at 1.
      apply (lv_map P _ _ _ _ _ _ _ _ _ L1); try tauto.
      subst n1. rewrite id_on_some.
      split; [cbn [id_slot sl_instr]; congruence|]. split; [cbn [id_slot sl_addr]; congruence|].
      intros _ _ (_ & Hax & _) _ Hstl. rewrite Hstl' in Hstl.
      destruct (d =? 1) eqn:Ed1; [|discriminate Hstl]. assert (Hd1' : d = 1) by lia.
      rewrite (Hd1 Hd1') in *. cbn [adv nonempty] in *.
      apply id_operands_exact; [exact Hr2|congruence].
    + rewrite (adv_ne n3 l2) by exact Hne3. rewrite (adv_ne n1 (Some x1)) by (rewrite Hne1; reflexivity).
      exact L0.
    + rewrite (adv_ne n3 l2) by exact Hne3. rewrite (adv_ne n1 (Some x1)) by (rewrite Hne1; reflexivity).
      rewrite adv_none. intros H0. cbv zeta. destruct (HF H0) as (a & b & c & e). csplit; try assumption. congruence.
    + rewrite (adv_ne n3 l2) by assumption. exact Hms'.
    + rewrite (adv_ne n3 l2) by assumption. exact Hbc'.
    + rewrite (adv_ne n3 l2) by assumption. exact Hpcn'.
    + rewrite (adv_ne n3 l2) by assumption. cbn [fired]. exact Hout'.
    + rewrite Hstl'. cbn [fired nonempty]. destruct (d =? 1); [reflexivity|]. reflexivity.
  - rewrite Hlat'. reflexivity.
  - intros ->. unfold mu4, dcount. rewrite Hlat', Hl, Hst, Hstl'. lat5.
    rewrite Hne3, Hne1. cbn [nonempty]. replace (1 =? 2) with false by lia.
    destruct l2 as [x2|]; cbn [nonempty]; [lia|].
    destruct Hd12 as [-> | ->]; cbn; lia.
Qed.

(** * One step, stalled at EX (the drain of an ecall) *)
Lemma ecall_keeps_regs t : wf t -> exitc t = None -> instr_at (prog (im t)) (pc t) = Some IEcall ->
  snd (single_pipeline_step t) = None -> forall r, mget (regs (nxt t)) r = mget (regs t) r.
Proof.
  intros W Hex Hi Hok r. apply (nxt_regs_other t IEcall W Hi eq_refl r Hok).
  destruct (Z.eq_dec r 0) as [->|Hr]; [left; reflexivity|right; cbn [write_reg]; congruence].
Qed.

Lemma step_stall2_e p s l0 l1 l2 l3 l4 dead d : InvAt P p s l0 l1 l2 l3 l4 dead ->
  stalled p = Some (2, d) -> step_goal p s l3.
Proof.
  intros [Hl Sh Hz HPp HPs W Hexs Hd D1 L3 L2 L1 L0 HF Hrg Hms Hbc Hpcn Hout Hexc Hic Hfd] Hst.
  unfold step_goal.
  pose proof (shape_step no_icache p no_icache_faithful Sh) as Sh'.
  destruct (shape_at p _ _ _ _ _ Sh Hl) as (K0 & K1 & K2 & K3 & K4 & KM). rewrite HPp in *.
  rewrite Hst in KM. unfold ModeInv in KM. destruct (saved p) as [svl|] eqn:Hsv; [|contradiction].
  destruct KM as [Hd12 [(Habs & _)|(_ & m0 & y1 & x2 & -> & Hsk0 & -> & Hsk1 & _ & _ & Hd2 & Hd1)]];
    [discriminate Habs|].
  destruct Hsk1 as (Hy1i & Hy1s & Hy1f & Hy1e & Hx2i & Hx2a & Hf1 & Hf2 & Hf3 & Hf4 & Hf5 & Hf6).
  rewrite (pipe_step_stall2 p _ _ _ _ _ d Hl Hst) in *. unfold run_stall2, sv_at in *. rewrite Hz, Hsv in *.
  change (lat_at [m0; Some y1] 0) with m0 in *. change (lat_at [m0; Some y1] 1) with (Some y1) in *.
  destruct (wb_stage P Hsup s l3 (bumped (pst p)) HPs L3 W Hexs Hrg)
    as (s2 & HWB & Hf4' & Hr2 & Hm2 & Ho2 & Hb2 & Hp2 & He2 & Hpc2 & Him2 & Hi2 & W2 & HP2 & Hex2).
  rewrite HWB in *. clear HWB. unfold bumped in *. stf.
  (* the stalled ecall in latch 2 *)
  assert (Hfd2 : fired (Some x2) = false) by (rewrite Hfd, Hst; reflexivity).
  cbn [fired] in Hfd2. assert (Hx2s : sl_stall x2 = true) by (destruct (sl_stall x2); [reflexivity|discriminate Hfd2]).
  cbn [lv] in L2. destruct (L2 Logic.I) as (Wt & (Hxt & Hat & Hit) & HE2 & Hbar2 & Hpl2).
  unfold Eok in HE2. rewrite Hx2s, Hx2i in HE2. destruct HE2 as [_ HE2]. rewrite Hx2i in Hit.
  assert (Hdf : dfields y1 (dsl (adv l3 s) IEcall)).
  { rewrite HE2 in Hx2a, Hf1, Hf2, Hf3, Hf4, Hf5, Hf6.
    cbn [ex_slot sl_addr sl_ra1 sl_ra2 sl_rd1 sl_rd2 sl_imm sl_wreg] in Hx2a, Hf1, Hf2, Hf3, Hf4, Hf5, Hf6.
    unfold dfields. rewrite Hy1i. csplit; try reflexivity; symmetry; assumption. }
  assert (Hout2 : out s2 = out (adv l3 s)).
  { rewrite Ho2, Hout. cbn [fired]. rewrite Hx2s. reflexivity. }
  assert (Hbusy : ex_busy y1 (Some x2) l3 = nonempty l3).
  { unfold ex_busy. rewrite Hy1s. reflexivity. }
  set (n1 := id_on true m0 l1 (Some x2) s2) in *. set (n4 := option_map wb_slot l3) in *.
  assert (Hs4 : has_stall n4 = false) by (subst n4; destruct l3; reflexivity).
  assert (Hne1 : nonempty n1 = nonempty l1).
  { subst n1. rewrite nonempty_id_on. destruct m0, l1; cbn in Hsk0 |- *; tauto. }
  assert (Hfl1 : flush_of n1 = None) by apply id_on_flags.
  destruct (L0ok_flags _ _ K0) as [Hs0 Hf0].
  assert (Hadv1 : forall t, adv n1 t = adv l1 t) by (intros; apply adv_ne; exact Hne1).
  assert (HD1' : Dsh_latch n1).
  { subst n1. destruct m0; [rewrite id_on_some; apply id_slot_Dsh|exact Logic.I]. }
  rewrite (ex_on_ecall y1 (Some x2) l3 s2 Hy1i) in *. rewrite Hbusy in *.
  destruct Hd12 as [-> | ->].
  { (* countdown 2: an older instruction is still in latch 3; the ecall waits *)
    destruct l3 as [x3|]; [|exfalso; apply Hd2; reflexivity]. cbn [nonempty] in *.
    rewrite (ex_slot_ext _ _ _ _ _ _ _ Hdf), <- HE2 in *.
    cbn [finish]. cbn [finish fst] in Sh'.
    assert (Hf2' : flush_of (Some x2) = None) by (rewrite HE2; reflexivity).
    pose proof (post_stalled p l0 n1 (Some x2) None n4 s2 2 2 _ Hst Hsv (or_introl eq_refl) (or_intror eq_refl)
                  Hs0 eq_refl Hs4 ltac:(intros H; discriminate H) Hf0 Hfl1 Hf4') as HPOST.
    cbv zeta in HPOST. cbn [flush_of] in HPOST. cbn [flush_of] in Hf2'. rewrite Hf2' in HPOST.
    destruct (post_fields p [l0; n1; Some x2; None; n4] s2) as (Fr & Fm & Fo & Fe & Fi & Fb & Fp & Fim & _).
    pose proof (post_hazards p [l0; n1; Some x2; None; n4] s2) as Hhz'. rewrite Hz in Hhz'.
    match goal with |- context [post p ?nx s2] => set (p' := post p nx s2) in * end.
    change (post p [l0; n1; Some x2; None; n4] s2) with p' in HPOST, Fr, Fm, Fo, Fe, Fi, Fb, Fp, Fim, Hhz'.
    destruct HPOST as (Hlat' & Hpc' & Hstl'). change (2 =? 1) with false in Hstl'. cbv iota in Hstl'.
    split; [|split].
    - left. exists l0, n1, (Some x2), None, n4, dead. constructor; try assumption; try lia; try congruence.
      + exact Logic.I.
      + cbn [adv nonempty] in *.
        apply (lv_map P _ _ _ _ _ _ _ _ _ L1); try tauto.
        subst n1. destruct m0 as [m|], l1 as [x1|]; cbn in Hsk0; try contradiction; [|exact Logic.I].
        rewrite id_on_some. destruct Hsk0 as (_ & Hi0 & Ha0).
        split; [cbn [id_slot sl_instr]; congruence|]. split; [cbn [id_slot sl_addr]; congruence|].
        intros _ _ _ _ Hstl. rewrite Hstl' in Hstl. discriminate Hstl.
      + rewrite Hadv1, adv_none. exact L0.
      + rewrite Hadv1, adv_none. intros H0. cbv zeta. destruct (HF H0) as (a & b & c & e).
        csplit; try assumption. congruence.
      + rewrite adv_none. congruence.
      + rewrite adv_none. congruence.
      + rewrite adv_none. congruence.
      + cbn [fired]. rewrite Hx2s. cbn [negb]. rewrite adv_none. congruence.
      + rewrite Hstl'. cbn [fired]. rewrite Hx2s. reflexivity.
    - rewrite Hlat'. reflexivity.
    - intros H; discriminate H. }
  (* countdown 1: everything older has retired; the ecall fires *)
  subst n4. pose proof (Hd1 eq_refl) as Hl3. subst l3. clear Hd1 Hd2. cbn [nonempty adv option_map] in *.
  rewrite Hx2i in *.
  pose proof (ecall_fire P s y1 (Some x2) None s2 Wt Hxt HPs Hit Hdf Hr2
                ltac:(congruence) Hout2 Hbusy) as HFIRE.
  rewrite (ex_on_ecall y1 (Some x2) None s2 Hy1i), Hbusy in HFIRE.
  destruct (process_ecall s2) as [[[txt|c]|e] sx] eqn:Hpe.
  3:{ destruct HFIRE as (tm & Hss & F1 & F2 & F3).
      cbn [finish fst snd faulted pst fault_at fault_of lat_at nthZ nth Z.to_nat].
      rewrite Hy1i. replace (sl_addr y1) with (pc s) by congruence.
      exists tm. split; [exact Hss|]. split; [apply (not_done _ IEcall); [exact Hxt|rewrite HPs; exact Hit]|].
      repeat split; assumption. }
  all: destruct HFIRE as (x2' & Hx2' & HE' & Hi' & Ha' & Hst' & G1 & G2 & G3 & G4 & G5 & G6 & G7 & G8 & Hout3 & Hok & Hcase);
    injection Hx2' as Hx2'; rewrite Hx2' in *; clear Hx2'.
  all: cbn [finish]; cbn [finish fst] in Sh'.
  all: match goal with |- context [post ?pp ?nx ?s3] => match nx with [?a0; ?a1; ?a2; ?a3; ?a4] =>
         pose proof (post_stalled pp a0 a1 a2 a3 a4 s3 2 1 _ Hst Hsv (or_intror eq_refl) (or_intror eq_refl)
                  Hs0 eq_refl eq_refl ltac:(intros H; discriminate H) Hf0 Hfl1 eq_refl) as HPOST;
         cbv zeta in HPOST; cbn [flush_of] in HPOST;
         destruct (post_fields pp nx s3) as (Fr & Fm & Fo & Fe & Fi & Fb & Fp & Fim & _);
         pose proof (post_hazards pp nx s3) as Hhz'; rewrite Hz in Hhz';
         set (p' := post pp nx s3) in *;
         change (post pp [a0; a1; a2; a3; a4] s3) with p' in HPOST end end.
  all: assert (Hon' : onp P s x2') by (unfold onp; rewrite Hi', Ha'; repeat split; assumption).
  all: assert (Hkeep : forall r, mget (regs (nxt s)) r = mget (regs s) r)
         by (apply (ecall_keeps_regs s Wt Hxt); [rewrite HPs; exact Hit|exact Hok]).
  all: destruct Hcase as [(Hfl & Hpl) | (c' & Hfl & Hxn)]; rewrite Hfl in HPOST;
       destruct HPOST as (Hlat' & Hpc' & Hstl'); cbn in Hstl'.
  (* print / exit, in both branches of process_ecall: the same two scripts *)
  1,3: split; [|split];
    [ left; exists l0, n1, (Some x2'), None, None, dead; constructor; try assumption; try lia; try congruence
    | rewrite Hlat'; reflexivity
    | intros _; unfold mu4, dcount; rewrite Hlat', Hl, Hst, Hstl'; lat5; cbn; lia ].
  1,10: cbn [lv]; intros _; split; [exact Wt|]; split; [exact Hon'|]; split; [exact HE'|];
        rewrite Hi'; split; [exact Hbar2|exact Hpl2].
  1,9: cbn [adv nonempty] in *; apply (lv_map P _ _ _ _ _ _ _ _ _ L1); try tauto; subst n1;
       destruct m0 as [m|], l1 as [x1|]; cbn in Hsk0; try contradiction; [|exact Logic.I];
       rewrite id_on_some; destruct Hsk0 as (_ & Hi0 & Ha0);
       split; [cbn [id_slot sl_instr]; congruence|]; split; [cbn [id_slot sl_addr]; congruence|];
       intros _ _ (_ & Hax & _) _ _; unfold Dok; eexists;
       match goal with |- context [id_slot true ?mm ?w1 ?w2 ?ss] =>
         change (sl_instr (id_slot true mm w1 w2 ss)) with (sl_instr mm) end;
       apply id_slot_agree; [|congruence];
       intros r _; unfold rget; rewrite Hr2; symmetry; apply Hkeep.
  1,8: rewrite Hadv1; exact L0.
  1,7: rewrite Hadv1; intros H0; cbv zeta; cbn [adv nonempty]; destruct (HF H0) as (fa & fb & fc & fe);
       csplit; try assumption; congruence.
  1-3,6-8: cbn [adv nonempty]; congruence.
  1,3: cbn [fired]; rewrite Hst'; cbn [negb adv nonempty]; congruence.
  1,2: rewrite Hstl'; cbn [fired nonempty]; rewrite Hst'; reflexivity.
  all: split; [|split];
    [ left; exists None, None, (Some x2'), None, None, 3%nat; constructor; try assumption; try lia; try congruence
    | rewrite Hlat'; reflexivity
    | intros _; unfold mu4, dcount; rewrite Hlat', Hl, Hst, Hstl'; lat5; cbn; lia ].
  1,7: cbn [lv]; intros _; split; [exact Wt|]; split; [exact Hon'|]; split; [exact HE'|];
       rewrite Hi'; split; [intros _ (_ & Hx & _); cbn [adv nonempty] in Hx; congruence
                           |intros H; exfalso; apply H; reflexivity].
  1-3,6-8: cbn [adv nonempty]; congruence.
  1,3: cbn [fired]; rewrite Hst'; cbn [negb adv nonempty]; congruence.
  1,2: rewrite Hstl'; cbn [fired nonempty]; rewrite Hst'; reflexivity.
Qed.


(** * One step in any mode *)
Lemma inv_step_e p s l0 l1 l2 l3 l4 dead : InvAt P p s l0 l1 l2 l3 l4 dead -> pipe_done p = false ->
  step_goal p s l3.
Proof.
  intros I Hnd. pose proof (iv_shape _ _ _ _ _ _ _ _ _ I) as Sh.
  destruct (shape_mode_cases no_icache p Sh) as [Hst|(k & d & Hst & [-> | ->])].
  - eapply step_normal_e; eassumption.
  - eapply step_stall1_e; eassumption.
  - eapply step_stall2_e; eassumption.
Qed.
End Ecall.
