(* PipeShape.v — layer 1 of the control-path proof of C02/C07/C08: an invariant [Shape] of the
   REACHABLE pipeline states that says nothing about data values, and its consequences
   (bubbles come in pairs, an ecall never fires in its first drain cycle, two-cycle interlock).

   The invariant is parametrised by a predicate [IM] on instruction memories that makes fetches
   faithful ([fetch_faithful]): an instruction cache may hand out anything unless it is coherent
   with the program, and both "slots hold real program instructions" and "bubbles come in pairs"
   are false for an incoherent cache.  [no_icache] (no instruction cache) is one instance; a cache
   coherence invariant can be plugged in later. *)
From Coq Require Import Lia ZifyBool.
From ArchSim Require Import Model.Base Model.Mem Model.Cache Model.Fmt Model.RV Model.Single
  Model.RVSplit Model.Pipe Proofs.PipeLaws.
Open Scope Z_scope.

Ltac Zify.zify_post_hook ::= Z.to_euclidean_division_equations.
Local Arguments Z.mul : simpl never.
Local Arguments Z.add : simpl never.
Local Arguments Z.sub : simpl never.
Local Arguments Z.div : simpl never.
Local Arguments Z.modulo : simpl never.

(** * Vocabulary *)

(* the slot holds a real instruction of program P at its own address *)
Definition real (P : list instr) (x : slot) : Prop := instr_at P (sl_addr x) = Some (sl_instr x).

(* the skid copy of an IF-type slot *)
Definition saved_if (i : instr) (a : Z) : slot :=
  {| sl_instr := i; sl_addr := a; sl_ra1 := None; sl_ra2 := None; sl_rd1 := None; sl_rd2 := None;
     sl_imm := None; sl_wreg := None; sl_result := None; sl_cmp := None; sl_pcimm := None;
     sl_exit := None; sl_memdata := None; sl_wdata := None; sl_flush := None; sl_stall := false;
     sl_saved := true |}.

(* per-latch flag discipline *)
Definition L0ok (P : list instr) (l : latch) : Prop :=
  match l with
  | None => True
  | Some x => real P x /\ x = slot_if (sl_instr x) (sl_addr x)
  end.
Definition L1ok (P : list instr) (l : latch) : Prop :=
  match l with
  | None => True
  | Some x => real P x /\ sl_flush x = None /\ sl_saved x = false /\ sl_exit x = None
  end.
Definition L2ok (P : list instr) (l : latch) : Prop :=
  match l with
  | None => True
  | Some x => real P x /\ sl_saved x = false /\ sl_flush x = wb_flush x /\
              (sl_exit x <> None -> sl_instr x = IEcall) /\
              (sl_stall x = true -> sl_instr x = IEcall /\ sl_exit x = None)
  end.
Definition L3ok (P : list instr) (l : latch) : Prop :=
  match l with
  | None => True
  | Some x => real P x /\ sl_saved x = false /\ sl_stall x = false /\
              (sl_exit x <> None -> sl_instr x = IEcall /\ sl_flush x = Some (sl_addr x + 4))
  end.
Definition L4ok (P : list instr) (l : latch) : Prop :=
  match l with
  | None => True
  | Some x => real P x /\ sl_saved x = false /\ sl_stall x = false /\ sl_flush x = wb_flush x /\
              (sl_exit x <> None -> sl_instr x = IEcall)
  end.

(* no single bubble enclosed by two instructions (a younger, b, c older) *)
Definition no101 (a b c : bool) : Prop := a && negb b && c = false.

(* skid register 0 against latch 1: the IF slot of the instruction that sits (re-)decoded in latch 1 *)
Definition skid0 (m0 l1 : latch) : Prop :=
  match m0, l1 with
  | None, None => True
  | Some m, Some x => m = saved_if (sl_instr m) (sl_addr m) /\
                      sl_instr x = sl_instr m /\ sl_addr x = sl_addr m
  | _, _ => False
  end.
(* skid register 1 against latch 2: the decoded slot of the ecall that sits in latch 2 *)
Definition skid1 (y1 x2 : slot) : Prop :=
  sl_instr y1 = IEcall /\ sl_saved y1 = true /\ sl_flush y1 = None /\ sl_exit y1 = None /\
  sl_instr x2 = IEcall /\ sl_addr x2 = sl_addr y1 /\
  sl_ra1 x2 = sl_ra1 y1 /\ sl_ra2 x2 = sl_ra2 y1 /\ sl_rd1 x2 = sl_rd1 y1 /\ sl_rd2 x2 = sl_rd2 y1 /\
  sl_imm x2 = sl_imm y1 /\ sl_wreg x2 = sl_wreg y1.

(* stall register, skid registers and bubble discipline; h = "there is an instruction at pc" *)
Definition ModeInv (h : bool) (l0 l1 l2 l3 : latch) (stl : option (Z * Z))
    (sv : option (list latch)) : Prop :=
  match stl, sv with
  | None, None =>
      no101 h (nonempty l0) (nonempty l1) /\ no101 (nonempty l0) (nonempty l1) (nonempty l2) /\
      no101 (nonempty l1) (nonempty l2) (nonempty l3)
  | Some (k, d), Some svl =>
      (d = 2 \/ d = 1) /\
      ((k = 1 /\ exists m x1, svl = [Some m] /\ l1 = Some x1 /\
           m = saved_if (sl_instr m) (sl_addr m) /\ sl_instr x1 = sl_instr m /\ sl_addr x1 = sl_addr m /\
           no101 h (nonempty l0) true /\ (d = 1 -> l2 = None))
       \/
       (k = 2 /\ exists m0 y1 x2, svl = [m0; Some y1] /\ skid0 m0 l1 /\ l2 = Some x2 /\ skid1 y1 x2 /\
           no101 h (nonempty l0) (nonempty l1) /\ no101 (nonempty l0) (nonempty l1) true /\
           (d = 2 -> l3 <> None) /\ (d = 1 -> l3 = None)))
  | _, _ => False
  end.

(* input / output of the decode stage; of the execute stage *)
Definition idrel (x n : latch) : Prop :=
  match x, n with
  | Some y, Some z => sl_instr z = sl_instr y /\ sl_addr z = sl_addr y
  | None, None => True
  | _, _ => False
  end.
Definition exrel (l2 l3 x n : latch) : Prop :=
  match x, n with
  | Some y, Some z =>
      sl_instr z = sl_instr y /\ sl_addr z = sl_addr y /\
      sl_ra1 z = sl_ra1 y /\ sl_ra2 z = sl_ra2 y /\ sl_rd1 z = sl_rd1 y /\ sl_rd2 z = sl_rd2 y /\
      sl_imm z = sl_imm y /\ sl_wreg z = sl_wreg y /\
      sl_stall z = is_ecall (sl_instr y) && ex_busy y l2 l3 /\
      (sl_stall z = true -> sl_flush z = None)
  | None, None => True
  | _, _ => False
  end.

Section WithIM.
Variable IM : imem -> Prop.

(* fetches through instruction memories satisfying IM return the program's instruction *)
Definition fetch_faithful : Prop :=
  forall m a oi m' pen, IM m -> im_read m a = (oi, m', pen) -> IM m' /\ oi = instr_at (prog m) a.

Record Shape (p : pstate) : Prop := mkShape {
  sh_len : length (lat p) = 5%nat;
  sh_im : IM (im (pst p));
  sh_l0 : L0ok (prog (im (pst p))) (lat_at (lat p) 0);
  sh_l1 : L1ok (prog (im (pst p))) (lat_at (lat p) 1);
  sh_l2 : L2ok (prog (im (pst p))) (lat_at (lat p) 2);
  sh_l3 : L3ok (prog (im (pst p))) (lat_at (lat p) 3);
  sh_l4 : L4ok (prog (im (pst p))) (lat_at (lat p) 4);
  sh_mode : ModeInv (has_instr (im (pst p)) (pc (pst p)))
              (lat_at (lat p) 0) (lat_at (lat p) 1) (lat_at (lat p) 2) (lat_at (lat p) 3)
              (stalled p) (saved p) }.

Lemma shape_init s hz : IM (im s) -> Shape (pipe_init s hz).
Proof.
  intros H. constructor; cbn [pipe_init lat pst stalled saved]; try exact Logic.I; try reflexivity; try exact H.
  unfold ModeInv, no101. cbn [nonempty]. rewrite !Bool.andb_false_r. repeat split.
Qed.

(** * Stage outputs keep the per-latch discipline *)

Lemma real_instr_at P x : real P x ->
  0 <= sl_addr x < 4 * Z.of_nat (length P) /\ sl_addr x mod 4 = 0.
Proof.
  unfold real, instr_at. intros H.
  destruct ((0 <=? sl_addr x) && (sl_addr x mod 4 =? 0) && (sl_addr x / 4 <? Z.of_nat (length P))) eqn:Hc;
    [|discriminate]. lia.
Qed.

Lemma no101_if h h1 a b : no101 h a b -> (h = false -> h1 = false) -> no101 h1 a b.
Proof. unfold no101. destruct h, h1, a, b; cbn; intros H1 H2; try reflexivity; try discriminate; exact (H2 eq_refl). Qed.

Lemma stage_if_ok s n s1 : fetch_faithful -> IM (im s) -> stage_if s = (n, s1) ->
  IM (im s1) /\ prog (im s1) = prog (im s) /\ L0ok (prog (im s)) n /\
  nonempty n = has_instr (im s) (pc s) /\
  (has_instr (im s) (pc s) = false -> s1 = s).
Proof.
  intros FF Him H. unfold stage_if in H. destruct (has_instr (im s) (pc s)) eqn:Hh.
  - unfold fetch in H. destruct (im_read (im s) (pc s)) as [[oi m'] pen] eqn:Hr.
    pose proof (im_read_law _ _ _ _ _ Hr) as [Hprog _].
    destruct (FF _ _ _ _ _ Him Hr) as [Him' ->].
    unfold has_instr in Hh. destruct (instr_at (prog (im s)) (pc s)) as [i|] eqn:Hi; [|discriminate].
    inv H. stf. repeat split; try assumption; try discriminate.
  - inv H. repeat split; try assumption.
Qed.

Lemma id_on_ok P hz x l1 l2 s :
  match x with Some y => real P y | None => True end ->
  L1ok P (id_on hz x l1 l2 s) /\ nonempty (id_on hz x l1 l2 s) = nonempty x /\
  idrel x (id_on hz x l1 l2 s).
Proof.
  unfold idrel. destruct x as [y|]; [rewrite id_on_some|rewrite id_on_none]; intros H.
  - cbn [L1ok nonempty id_slot real sl_instr sl_addr sl_flush sl_saved sl_exit]. repeat split. exact H.
  - repeat split.
Qed.

Lemma ex_on_ok P x l2 l3 s n s' :
  match x with Some y => real P y | None => True end ->
  ex_on x l2 l3 s = (n, s', None) ->
  L2ok P n /\ nonempty n = nonempty x /\ exrel l2 l3 x n.
Proof.
  intros Hx H. apply ex_on_shape in H. unfold exrel. destruct x as [y|]; [|subst n; repeat split].
  destruct H as (cmp & res & stall & ex & fl & -> & Hst & Hef).
  cbn [L2ok nonempty ex_slot real sl_instr sl_addr sl_flush sl_saved sl_exit sl_stall
       sl_ra1 sl_ra2 sl_rd1 sl_rd2 sl_imm sl_wreg]. unfold wb_flush. cbn [sl_exit sl_addr ex_slot].
  destruct Hef as [[-> ->]|(He & Hb & c & -> & ->)].
  - repeat split; try assumption; try congruence.
    subst stall. match goal with Hs : _ && _ = true |- _ => apply Bool.andb_true_iff in Hs; destruct Hs as [Hs _] end.
    apply is_ecall_true. assumption.
  - rewrite He, Hb in Hst. cbn [andb] in Hst. subst stall.
    repeat split; try assumption; try discriminate.
    + intros _. apply is_ecall_true; exact He.
    + rewrite He, Hb. reflexivity.
Qed.

Lemma mem_flush_ecall y : sl_instr y = IEcall -> mem_flush y = wb_flush y.
Proof. unfold mem_flush, wb_flush. intros ->. reflexivity. Qed.

Lemma mem_on_ok P x s n s' : L2ok P x -> mem_on x s = (n, s', None) ->
  L3ok P n /\ nonempty n = nonempty x.
Proof.
  intros Hx H. apply mem_on_shape in H. destruct x as [y|]; [|subst n; repeat split].
  destruct H as [rd ->]. destruct Hx as (Hr & Hsv & Hfl & Hex & Hst).
  cbn [L3ok nonempty mem_slot real sl_instr sl_addr sl_flush sl_saved sl_exit sl_stall].
  repeat split; try assumption.
  - apply Hex; assumption.
  - rewrite mem_flush_ecall by (apply Hex; assumption). unfold wb_flush.
    destruct (sl_exit y); [reflexivity|congruence].
Qed.

Lemma wb_slot_ok P x : L3ok P x -> L4ok P (option_map wb_slot x) /\
  nonempty (option_map wb_slot x) = nonempty x.
Proof.
  destruct x as [y|]; [|repeat split]. intros (Hr & Hsv & Hst & Hex).
  cbn [option_map L4ok nonempty wb_slot real sl_instr sl_addr sl_flush sl_saved sl_exit sl_stall].
  unfold wb_flush at 2. cbn [wb_slot sl_exit sl_addr].
  repeat split; try assumption. intros H. apply Hex; exact H.
Qed.

(* the per-latch predicates only depend on the program *)
Lemma L0ok_flags P l : L0ok P l -> has_stall l = false /\ flush_of l = None.
Proof. destruct l as [x|]; [|split; reflexivity]. intros [_ ->]. split; reflexivity. Qed.
Lemma L1ok_flags P l : L1ok P l -> flush_of l = None.
Proof. destruct l as [x|]; [|reflexivity]. intros (_ & H & _). exact H. Qed.
Lemma L3ok_flags P l : L3ok P l -> has_stall l = false.
Proof. destruct l as [x|]; [|reflexivity]. intros (_ & _ & H & _). exact H. Qed.
Lemma L4ok_flags P l : L4ok P l -> has_stall l = false.
Proof. destruct l as [x|]; [|reflexivity]. intros (_ & _ & H & _). exact H. Qed.

(** * Building and using [Shape] *)

Lemma shape_intro p l0 l1 l2 l3 l4 : lat p = [l0; l1; l2; l3; l4] -> IM (im (pst p)) ->
  L0ok (prog (im (pst p))) l0 -> L1ok (prog (im (pst p))) l1 -> L2ok (prog (im (pst p))) l2 ->
  L3ok (prog (im (pst p))) l3 -> L4ok (prog (im (pst p))) l4 ->
  ModeInv (has_instr (im (pst p)) (pc (pst p))) l0 l1 l2 l3 (stalled p) (saved p) ->
  Shape p.
Proof. intros Hl. constructor; rewrite ?Hl; lat5; try assumption. reflexivity. Qed.

Lemma shape_elim p : Shape p -> exists l0 l1 l2 l3 l4, lat p = [l0; l1; l2; l3; l4] /\
  IM (im (pst p)) /\
  L0ok (prog (im (pst p))) l0 /\ L1ok (prog (im (pst p))) l1 /\ L2ok (prog (im (pst p))) l2 /\
  L3ok (prog (im (pst p))) l3 /\ L4ok (prog (im (pst p))) l4 /\
  ModeInv (has_instr (im (pst p)) (pc (pst p))) l0 l1 l2 l3 (stalled p) (saved p).
Proof.
  intros [Hlen Him H0 H1 H2 H3 H4 Hm]. destruct (length5 _ Hlen) as (l0 & l1 & l2 & l3 & l4 & Hl).
  rewrite Hl in *. lat5h H0. lat5h H1. lat5h H2. lat5h H3. lat5h H4. lat5h Hm.
  exists l0, l1, l2, l3, l4. repeat split; assumption.
Qed.

Lemma ModeInv_if h h1 l0 l1 l2 l3 stl sv : ModeInv h l0 l1 l2 l3 stl sv ->
  (h = false -> h1 = false) -> ModeInv h1 l0 l1 l2 l3 stl sv.
Proof.
  unfold ModeInv. intros H Hh. destruct stl as [[k d]|], sv as [svl|]; try exact H.
  - destruct H as [Hd [(Hk & m & x1 & Hsv & Hl1 & Hm & Hi & Ha & Hn & Hd1)
                      |(Hk & m0 & y1 & x2 & Hsv & Hs0 & Hl2 & Hs1 & Hn1 & Hn2 & Hd2 & Hd1)]];
      (split; [exact Hd|]); [left|right]; (split; [exact Hk|]).
    + exists m, x1. repeat split; try assumption. eapply no101_if; eauto.
    + exists m0, y1, x2. split; [exact Hsv|]. split; [exact Hs0|]. split; [exact Hl2|].
      split; [exact Hs1|]. split; [eapply no101_if; eauto|]. split; [exact Hn2|]. split; assumption.
  - destruct H as (Hn1 & Hn2 & Hn3). repeat split; try assumption. eapply no101_if; eauto.
Qed.

(* a faulting step leaves the latches and the stall registers alone *)
Lemma shape_faulted p s : Shape p -> IM (im s) -> prog (im s) = prog (im (pst p)) ->
  (has_instr (im (pst p)) (pc (pst p)) = false -> has_instr (im s) (pc s) = false) ->
  Shape (faulted p s).
Proof.
  intros [Hlen Him H0 H1 H2 H3 H4 Hm] Hims Hprog Hh.
  constructor; cbn [faulted lat pst stalled saved]; rewrite ?Hprog; try assumption.
  eapply ModeInv_if; eauto.
Qed.

Lemma no101_ff c : no101 false false c. Proof. reflexivity. Qed.
Lemma no101_f b c : no101 false b c. Proof. reflexivity. Qed.
Lemma no101_c0 a b : no101 a b false. Proof. unfold no101. apply Bool.andb_false_r. Qed.
Lemma no101_b1 a c : no101 a true c. Proof. unfold no101. cbn [negb]. rewrite Bool.andb_false_r. reflexivity. Qed.

(* every flush leaves a clean state: latches 0,1 (at least) emptied and no stall left, provided
   the stall register does not name a stage at or behind the flushing one *)
Lemma shape_flush hz n0 n1 n2 n3 n4 s1 i a stl2 sv2 :
  IM (im s1) ->
  L0ok (prog (im s1)) n0 -> L1ok (prog (im s1)) n1 -> L2ok (prog (im s1)) n2 ->
  L3ok (prog (im s1)) n3 -> L4ok (prog (im s1)) n4 ->
  first_flush [n0; n1; n2; n3; n4] = Some (i, a) ->
  match stl2 with None => sv2 = None | Some (k, _) => k = 1 \/ (k = 2 /\ flush_of n2 = None) end ->
  Shape (flush_part hz [n0; n1; n2; n3; n4] stl2 sv2 s1).
Proof.
  intros Him H0 H1 H2 H3 H4 Hff Hst.
  rewrite (flush_part_some _ _ _ _ _ _ _ Hff).
  pose proof (L0ok_flags _ _ H0) as [_ Hf0]. pose proof (L1ok_flags _ _ H1) as Hf1.
  rewrite first_flush_5 in Hff by assumption.
  assert (Hc : (if stall_cancelled i stl2 then @None (Z * Z) else stl2) = None /\
               (if stall_cancelled i stl2 then None else sv2) = None).
  { destruct stl2 as [[k d]|]; [|split; [reflexivity|exact Hst]]. unfold stall_cancelled.
    destruct (flush_of n4); [inv Hff; destruct Hst as [->|[-> _]]; split; reflexivity|].
    destruct (flush_of n3); [inv Hff; destruct Hst as [->|[-> _]]; split; reflexivity|].
    destruct (flush_of n2) eqn:Hf2; [|discriminate]. inv Hff.
    destruct Hst as [->|[_ Hf]]; [split; reflexivity|discriminate]. }
  assert (Hi : i = 2 \/ i = 3 \/ i = 4).
  { destruct (flush_of n4); [inv Hff; auto|]. destruct (flush_of n3); [inv Hff; auto|].
    destruct (flush_of n2); inv Hff; auto. }
  destruct Hc as [-> ->].
  destruct Hi as [->|[->| ->]];
    [change (Z.to_nat 2) with 2%nat|change (Z.to_nat 3) with 3%nat|change (Z.to_nat 4) with 4%nat];
    cbn [clear_prefix];
    (eapply shape_intro; [reflexivity|..]; cbn [pst stalled saved]; stf; try assumption; try exact Logic.I;
     unfold ModeInv; cbn [nonempty]; repeat split; first [apply no101_f | apply no101_c0]).
Qed.

(** * One round of the stages, per mode *)

Lemma keeps_pc_im s s' : keeps s s' -> pc s' = pc s /\ im s' = im s.
Proof. intros (H1 & H2 & _). split; assumption. Qed.

(* result of a round of stages: the final state still fetches faithfully from the same program,
   "no instruction at pc" persists, and (without fault) the five new latches are well-formed *)
Lemma run_normal_ok hz l0 l1 l2 l3 s0 next s f : fetch_faithful -> IM (im s0) ->
  L0ok (prog (im s0)) l0 -> L1ok (prog (im s0)) l1 -> L2ok (prog (im s0)) l2 -> L3ok (prog (im s0)) l3 ->
  run_normal hz l0 l1 l2 l3 s0 = (next, s, f) ->
  IM (im s) /\ prog (im s) = prog (im s0) /\
  (has_instr (im s0) (pc s0) = false -> has_instr (im s) (pc s) = false) /\
  (f = None -> exists n0 n1 n2 n3 n4, next = [n0; n1; n2; n3; n4] /\
     L0ok (prog (im s0)) n0 /\ L1ok (prog (im s0)) n1 /\ L2ok (prog (im s0)) n2 /\
     L3ok (prog (im s0)) n3 /\ L4ok (prog (im s0)) n4 /\
     nonempty n0 = has_instr (im s0) (pc s0) /\
     nonempty n1 = nonempty l0 /\ nonempty n2 = nonempty l1 /\ nonempty n3 = nonempty l2 /\
     idrel l0 n1 /\ exrel l2 l3 l1 n2).
Proof.
  intros FF Him H0 H1 H2 H3 Hr. unfold run_normal in Hr.
  destruct (stage_if s0) as [n0 s1] eqn:HIF.
  destruct (stage_if_ok _ _ _ FF Him HIF) as (Him1 & Hp1 & H0' & Ho0 & Hh1).
  assert (Hh : has_instr (im s0) (pc s0) = false -> has_instr (im s1) (pc s1) = false)
    by (intros E; rewrite (Hh1 E); exact E).
  destruct (wb_on l3 s1) as [[n4 s2] e4] eqn:HWB.
  pose proof (wb_on_law _ _ _ _ _ HWB) as (K2 & _). apply keeps_pc_im in K2. destruct K2 as [Hpc2 Him2].
  destruct e4 as [e|].
  { inv Hr. rewrite Hpc2, Him2. repeat split; try assumption.
    intros E; exfalso; exact (fault_at_not_none _ _ E). }
  apply wb_on_shape in HWB. subst n4. destruct (wb_slot_ok _ _ H3) as [H4' _].
  destruct (ex_on l1 l2 l3 s2) as [[n2 s3] e2] eqn:HEX.
  pose proof (ex_on_law _ _ _ _ _ _ _ HEX) as (K3 & _). apply keeps_pc_im in K3. destruct K3 as [Hpc3 Him3].
  destruct e2 as [e|].
  { inv Hr. rewrite Hpc3, Him3, Hpc2, Him2. repeat split; try assumption.
    intros E; exfalso; exact (fault_at_not_none _ _ E). }
  assert (R1 : match l1 with Some y => real (prog (im s0)) y | None => True end)
    by (destruct l1; [apply H1|exact Logic.I]).
  destruct (ex_on_ok _ _ _ _ _ _ _ R1 HEX) as (H2' & Ho2 & Hex).
  destruct (mem_on l2 s3) as [[n3 s4] e3] eqn:HMEM.
  pose proof (mem_on_law _ _ _ _ _ HMEM) as (K4 & _). apply keeps_pc_im in K4. destruct K4 as [Hpc4 Him4].
  destruct e3 as [e|].
  { inv Hr. rewrite Hpc4, Him4, Hpc3, Him3, Hpc2, Him2. repeat split; try assumption.
    intros E; exfalso; exact (fault_at_not_none _ _ E). }
  destruct (mem_on_ok _ _ _ _ _ H2 HMEM) as (H3' & Ho3).
  assert (R0 : match l0 with Some y => real (prog (im s0)) y | None => True end)
    by (destruct l0; [apply H0|exact Logic.I]).
  destruct (id_on_ok (prog (im s0)) hz l0 l1 l2 s2 R0) as (H1' & Ho1 & Hid).
  inv Hr. rewrite Hpc4, Him4, Hpc3, Him3, Hpc2, Him2.
  split; [assumption|]. split; [assumption|]. split; [assumption|]. intros _.
  do 5 eexists. split; [reflexivity|]. repeat split; assumption.
Qed.

(** * [shape_step], mode by mode *)

Lemma has_stall_ex l2 l3 x n : exrel l2 l3 x n -> has_stall n = true ->
  exists y z, x = Some y /\ n = Some z /\ sl_instr y = IEcall /\ ex_busy y l2 l3 = true /\
    sl_flush z = None /\ sl_instr z = IEcall /\ sl_addr z = sl_addr y /\
    sl_ra1 z = sl_ra1 y /\ sl_ra2 z = sl_ra2 y /\ sl_rd1 z = sl_rd1 y /\ sl_rd2 z = sl_rd2 y /\
    sl_imm z = sl_imm y /\ sl_wreg z = sl_wreg y.
Proof.
  unfold exrel. destruct x as [y|], n as [z|]; cbn [has_stall]; try contradiction; try discriminate.
  intros (Hi & Ha & F1 & F2 & F3 & F4 & F5 & F6 & Hst & Hfl) Hs.
  rewrite Hs in Hst. symmetry in Hst. apply Bool.andb_true_iff in Hst. destruct Hst as [He Hb].
  apply is_ecall_true in He.
  exists y, z. repeat split; try assumption; try congruence. apply Hfl; exact Hs.
Qed.

Lemma mark_saved_if x : x = slot_if (sl_instr x) (sl_addr x) ->
  mark_saved (Some x) = Some (saved_if (sl_instr x) (sl_addr x)).
Proof.
  intros E. destruct x as [i a f1 f2 f3 f4 f5 f6 f7 f8 f9 f10 f11 f12 f13 f14 f15].
  cbn [sl_instr sl_addr] in *. inversion E. reflexivity.
Qed.

Lemma has_stall_id x n : idrel x n -> has_stall n = true -> exists y z, x = Some y /\ n = Some z /\
  sl_instr z = sl_instr y /\ sl_addr z = sl_addr y.
Proof.
  unfold idrel. destruct x as [y|], n as [z|]; cbn [has_stall]; try contradiction; try discriminate.
  intros [Hi Ha] _. exists y, z. repeat split; assumption.
Qed.

Lemma no101_shift h h' o0 o1 : no101 h o0 o1 -> (h = false -> h' = false) -> no101 h' h o0.
Proof. unfold no101. destruct h, h', o0, o1; cbn; intros H1 H2; try reflexivity; try discriminate; exact (H2 eq_refl). Qed.

Lemma shape_step_normal p : fetch_faithful -> Shape p -> stalled p = None -> Shape (fst (pipe_step p)).
Proof.
  intros FF Sh Hs. destruct (shape_elim _ Sh) as (l0 & l1 & l2 & l3 & l4 & Hl & Him & H0 & H1 & H2 & H3 & H4 & Hm).
  rewrite Hs in Hm. unfold ModeInv in Hm. destruct (saved p) as [svl|] eqn:Hsv; [contradiction|].
  destruct Hm as (N1 & N2 & N3).
  rewrite (pipe_step_normal p _ _ _ _ _ Hl Hs).
  destruct (run_normal (hazards p) l0 l1 l2 l3 (bumped (pst p))) as [[next s] f] eqn:Hr.
  destruct (run_normal_ok _ _ _ _ _ (bumped (pst p)) _ _ _ FF Him H0 H1 H2 H3 Hr) as (Hims & Hprog & Hh & Hok).
  change (prog (im (bumped (pst p)))) with (prog (im (pst p))) in *.
  change (has_instr (im (bumped (pst p))) (pc (bumped (pst p)))) with (has_instr (im (pst p)) (pc (pst p))) in *.
  destruct f as [f|]; cbn [finish fst].
  { apply shape_faulted; assumption. }
  destruct (Hok eq_refl) as (n0 & n1 & n2 & n3 & n4 & -> & H0' & H1' & H2' & H3' & H4' & Ho0 & Ho1 & Ho2 & Ho3 & Hid & Hex).
  clear Hok. unfold post. rewrite Hs, Hsv.
  pose proof (L0ok_flags _ _ H0') as [Hs0 Hf0]. pose proof (L3ok_flags _ _ H3') as Hs3.
  pose proof (L4ok_flags _ _ H4') as Hs4.
  assert (Hns : new_stall [n0; n1; n2; n3; n4] None =
                if has_stall n2 then Some 2 else if has_stall n1 then Some 1 else None).
  { rewrite new_stall_5 by assumption. cbn [above]. rewrite !Bool.andb_true_r. reflexivity. }
  assert (Hh0 : nonempty n0 = false -> has_instr (im s) (pc s) = false) by (rewrite Ho0; exact Hh).
  rewrite <- Hprog in H0', H1', H2', H3', H4'.
  destruct (has_stall n2) eqn:S2.
  - (* an ecall starts draining *)
    rewrite (stall_part_new _ _ _ 2 Hns). rewrite Hl. change (Z.to_nat 2) with 2%nat. cbn [firstn map].
    destruct (has_stall_ex _ _ _ _ Hex S2) as (y & z & -> & -> & Hec & Hbusy & Hfz & Hiz & Haz & F1 & F2 & F3 & F4 & F5 & F6).
    destruct (first_flush [n0; n1; Some z; n3; n4]) as [[i a]|] eqn:Hff.
    + eapply shape_flush; try eassumption. right; split; [reflexivity|exact Hfz].
    + rewrite flush_part_none by exact Hff.
      eapply shape_intro; [reflexivity|..]; cbn [pst stalled saved]; stf; try assumption.
      unfold ModeInv. split; [left; reflexivity|]. right. split; [reflexivity|].
      destruct H1 as (Ry & Hfy & Hsy & Hey).
      eexists (mark_saved l0), _, z. split; [reflexivity|].
      split.
      { (* skid0 *) unfold skid0, idrel in *. destruct l0 as [x0|], n1 as [x1|]; try contradiction; [|exact Logic.I].
        destruct H0 as [_ E0]. destruct Hid as [Hi1 Ha1]. rewrite (mark_saved_if _ E0).
        cbn [sl_instr sl_addr saved_if]. split; [reflexivity|]. split; assumption. }
      split; [reflexivity|].
      split.
      { unfold skid1. cbn [sl_instr sl_saved sl_flush sl_exit sl_addr sl_ra1 sl_ra2 sl_rd1 sl_rd2 sl_imm sl_wreg].
        repeat split; assumption. }
      cbn [nonempty] in *.
      split; [rewrite Ho0, Ho1; eapply no101_shift; eauto|].
      split; [rewrite Ho0, Ho1; exact N1|].
      split; [|intros E; discriminate E].
      intros _. (* the MEM latch is occupied: a single bubble cannot sit between the ecall and an older instruction *)
      unfold ex_busy in Hbusy. rewrite Hsy in Hbusy.
      destruct n3 as [z3|]; [discriminate|]. cbn [nonempty] in Ho3.
      unfold no101 in N3. rewrite <- Ho3 in *. cbn in N3, Hbusy. rewrite Hbusy in N3. discriminate.
  - destruct (has_stall n1) eqn:S1.
    + (* decode-stage interlock *)
      rewrite (stall_part_new _ _ _ 1 Hns). rewrite Hl. change (Z.to_nat 1) with 1%nat. cbn [firstn map].
      destruct (has_stall_id _ _ Hid S1) as (y & z & -> & -> & Hiz & Haz).
      destruct (first_flush [n0; Some z; n2; n3; n4]) as [[i a]|] eqn:Hff.
      * eapply shape_flush; try eassumption. left; reflexivity.
      * rewrite flush_part_none by exact Hff.
        eapply shape_intro; [reflexivity|..]; cbn [pst stalled saved]; stf; try assumption.
        unfold ModeInv. split; [left; reflexivity|]. left. split; [reflexivity|].
        destruct H0 as [_ E0]. rewrite (mark_saved_if _ E0).
        eexists _, z. split; [reflexivity|]. split; [reflexivity|].
        cbn [sl_instr sl_addr saved_if]. split; [reflexivity|].
        split; [assumption|]. split; [assumption|].
        split; [|intros E; discriminate E].
        destruct (nonempty n0) eqn:E; [apply no101_b1|]. rewrite (Hh0 eq_refl). apply no101_f.
    + (* no stall signal *)
      rewrite (stall_part_idle _ _ _ Hns).
      destruct (first_flush [n0; n1; n2; n3; n4]) as [[i a]|] eqn:Hff.
      * eapply shape_flush; try eassumption. reflexivity.
      * rewrite flush_part_none by exact Hff.
        eapply shape_intro; [reflexivity|..]; cbn [pst stalled saved]; try assumption.
        unfold ModeInv. rewrite Ho1, Ho2, Ho3.
        split; [rewrite Ho0; eapply no101_shift; eauto|]. split; [rewrite Ho0; exact N1|exact N2].
Qed.

Lemma run_stall1_ok hz sv0 l0 l1 l2 l3 s0 next s f :
  match sv0 with Some m => real (prog (im s0)) m | None => True end ->
  L2ok (prog (im s0)) l2 -> L3ok (prog (im s0)) l3 ->
  run_stall1 hz sv0 l0 l1 l2 l3 s0 = (next, s, f) ->
  pc s = pc s0 /\ im s = im s0 /\
  (f = None -> exists n1 n3 n4, next = [l0; n1; None; n3; n4] /\
     L1ok (prog (im s0)) n1 /\ L3ok (prog (im s0)) n3 /\ L4ok (prog (im s0)) n4 /\
     idrel sv0 n1 /\ nonempty n3 = nonempty l2 /\ n4 = option_map wb_slot l3).
Proof.
  intros R0 H2 H3 Hr. unfold run_stall1 in Hr.
  destruct (wb_on l3 s0) as [[n4 s2] e4] eqn:HWB.
  pose proof (wb_on_law _ _ _ _ _ HWB) as (K2 & _). apply keeps_pc_im in K2. destruct K2 as [Hpc2 Him2].
  destruct e4 as [e|].
  { inv Hr. repeat split; try assumption. intros E; exfalso; exact (fault_at_not_none _ _ E). }
  apply wb_on_shape in HWB. subst n4. destruct (wb_slot_ok _ _ H3) as [H4' _].
  destruct (mem_on l2 s2) as [[n3 s4] e3] eqn:HMEM.
  pose proof (mem_on_law _ _ _ _ _ HMEM) as (K4 & _). apply keeps_pc_im in K4. destruct K4 as [Hpc4 Him4].
  destruct e3 as [e|].
  { inv Hr. rewrite Hpc4, Him4. repeat split; try assumption. intros E; exfalso; exact (fault_at_not_none _ _ E). }
  destruct (mem_on_ok _ _ _ _ _ H2 HMEM) as (H3' & Ho3).
  destruct (id_on_ok (prog (im s0)) hz sv0 l1 l2 s2 R0) as (H1' & Ho1 & Hid).
  inv Hr. rewrite Hpc4, Him4. split; [assumption|]. split; [assumption|]. intros _.
  do 3 eexists. split; [reflexivity|]. repeat split; assumption.
Qed.

Lemma run_stall2_ok hz sv0 sv1 l0 l1 l2 l3 s0 next s f :
  match sv0 with Some m => real (prog (im s0)) m | None => True end ->
  match sv1 with Some m => real (prog (im s0)) m | None => True end ->
  L3ok (prog (im s0)) l3 ->
  run_stall2 hz sv0 sv1 l0 l1 l2 l3 s0 = (next, s, f) ->
  pc s = pc s0 /\ im s = im s0 /\
  (f = None -> exists n1 n2 n4, next = [l0; n1; n2; None; n4] /\
     L1ok (prog (im s0)) n1 /\ L2ok (prog (im s0)) n2 /\ L4ok (prog (im s0)) n4 /\
     idrel sv0 n1 /\ exrel l2 l3 sv1 n2 /\ nonempty n2 = nonempty sv1 /\ n4 = option_map wb_slot l3).
Proof.
  intros R0 R1 H3 Hr. unfold run_stall2 in Hr.
  destruct (wb_on l3 s0) as [[n4 s2] e4] eqn:HWB.
  pose proof (wb_on_law _ _ _ _ _ HWB) as (K2 & _). apply keeps_pc_im in K2. destruct K2 as [Hpc2 Him2].
  destruct e4 as [e|].
  { inv Hr. repeat split; try assumption. intros E; exfalso; exact (fault_at_not_none _ _ E). }
  apply wb_on_shape in HWB. subst n4. destruct (wb_slot_ok _ _ H3) as [H4' _].
  destruct (ex_on sv1 l2 l3 s2) as [[n2 s3] e2] eqn:HEX.
  pose proof (ex_on_law _ _ _ _ _ _ _ HEX) as (K3 & _). apply keeps_pc_im in K3. destruct K3 as [Hpc3 Him3].
  destruct e2 as [e|].
  { inv Hr. rewrite Hpc3, Him3. repeat split; try assumption. intros E; exfalso; exact (fault_at_not_none _ _ E). }
  destruct (ex_on_ok _ _ _ _ _ _ _ R1 HEX) as (H2' & Ho2 & Hex).
  destruct (id_on_ok (prog (im s0)) hz sv0 l1 l2 s2 R0) as (H1' & Ho1 & Hid).
  inv Hr. rewrite Hpc3, Him3. split; [assumption|]. split; [assumption|]. intros _.
  do 3 eexists. split; [reflexivity|]. repeat split; assumption.
Qed.

Lemma shape_step_stall1 p d : Shape p -> stalled p = Some (1, d) -> Shape (fst (pipe_step p)).
Proof.
  intros Sh Hs. destruct (shape_elim _ Sh) as (l0 & l1 & l2 & l3 & l4 & Hl & Him & H0 & H1 & H2 & H3 & H4 & Hm).
  rewrite Hs in Hm. unfold ModeInv in Hm. destruct (saved p) as [svl|] eqn:Hsv; [|contradiction].
  destruct Hm as [Hd [(_ & m & x1 & -> & -> & Em & Hi & Ha & N1 & Hd1)|(Hk & _)]]; [|discriminate Hk].
  rewrite (pipe_step_stall1 p _ _ _ _ _ d Hl Hs).
  assert (Hsv0 : sv_at p 0 = Some m) by (unfold sv_at; rewrite Hsv; reflexivity). rewrite Hsv0.
  destruct (run_stall1 (hazards p) (Some m) l0 (Some x1) l2 l3 (bumped (pst p))) as [[next s] f] eqn:Hr.
  assert (Rm : real (prog (im (pst p))) m).
  { destruct H1 as [Rx _]. unfold real in *. rewrite <- Ha, <- Hi. exact Rx. }
  destruct (run_stall1_ok (hazards p) (Some m) l0 (Some x1) l2 l3 (bumped (pst p)) next s f Rm H2 H3 Hr)
    as (Hpc & Hims & Hok).
  change (im (bumped (pst p))) with (im (pst p)) in *. change (pc (bumped (pst p))) with (pc (pst p)) in *.
  destruct f as [f|]; cbn [finish fst].
  { apply shape_faulted; rewrite ?Hims, ?Hpc; auto. }
  destruct (Hok eq_refl) as (n1 & n3 & n4 & -> & H1' & H3' & H4' & Hid & Ho3 & _). clear Hok.
  unfold post. rewrite Hs, Hsv.
  pose proof (L0ok_flags _ _ H0) as [Hs0 Hf0]. pose proof (L3ok_flags _ _ H3') as Hs3.
  pose proof (L4ok_flags _ _ H4') as Hs4.
  unfold idrel in Hid. destruct n1 as [z|]; [|contradiction]. destruct Hid as [Hiz Haz].
  rewrite <- Hims in H0, H1', H3', H4', Him.
  destruct Hd as [-> | ->].
  - rewrite (stall_part_first _ _ _ _ _ (new_stall_ignored_1 _ _ _ _ _ Hs0 Hs3 Hs4)).
    destruct (first_flush [l0; Some z; None; n3; n4]) as [[i a]|] eqn:Hff.
    + eapply shape_flush; try eassumption; [exact Logic.I|left; reflexivity].
    + rewrite flush_part_none by exact Hff.
      eapply shape_intro; [reflexivity|..]; cbn [pst stalled saved]; try assumption; [exact Logic.I|].
      rewrite Hims, Hpc. unfold ModeInv. split; [right; reflexivity|]. left. split; [reflexivity|].
      exists m, z. repeat split; try assumption.
  - rewrite (stall_part_last _ _ _ _ _ (new_stall_ignored_1 _ _ _ _ _ Hs0 Hs3 Hs4)).
    destruct (first_flush [l0; Some z; None; n3; n4]) as [[i a]|] eqn:Hff.
    + eapply shape_flush; try eassumption; [exact Logic.I|reflexivity].
    + rewrite flush_part_none by exact Hff.
      eapply shape_intro; [reflexivity|..]; cbn [pst stalled saved]; try assumption; [exact Logic.I|].
      rewrite Hims, Hpc. unfold ModeInv. cbn [nonempty]. split; [exact N1|].
      split; [apply no101_c0|]. rewrite Ho3, (Hd1 eq_refl). apply no101_c0.
Qed.

Lemma shape_step_stall2 p d : Shape p -> stalled p = Some (2, d) -> Shape (fst (pipe_step p)).
Proof.
  intros Sh Hs. destruct (shape_elim _ Sh) as (l0 & l1 & l2 & l3 & l4 & Hl & Him & H0 & H1 & H2 & H3 & H4 & Hm).
  rewrite Hs in Hm. unfold ModeInv in Hm. destruct (saved p) as [svl|] eqn:Hsv; [|contradiction].
  destruct Hm as [Hd [(Hk & _)|(_ & m0 & y1 & x2 & -> & Sk0 & -> & Sk1 & N1 & N2 & Hd2 & Hd1)]]; [discriminate Hk|].
  rewrite (pipe_step_stall2 p _ _ _ _ _ d Hl Hs).
  assert (Hsv0 : sv_at p 0 = m0) by (unfold sv_at; rewrite Hsv; reflexivity).
  assert (Hsv1 : sv_at p 1 = Some y1) by (unfold sv_at; rewrite Hsv; reflexivity).
  rewrite Hsv0, Hsv1.
  destruct (run_stall2 (hazards p) m0 (Some y1) l0 l1 (Some x2) l3 (bumped (pst p))) as [[next s] f] eqn:Hr.
  assert (R0 : match m0 with Some m => real (prog (im (pst p))) m | None => True end).
  { unfold skid0 in Sk0. destruct m0 as [m|]; [|exact Logic.I]. destruct l1 as [x|]; [|contradiction].
    destruct Sk0 as (_ & Hi & Ha). destruct H1 as [Rx _]. unfold real in *. rewrite <- Ha, <- Hi. exact Rx. }
  pose proof Sk1 as (Iy & Sy & Fy & Ey & Ix & Ax & _).
  assert (R1 : real (prog (im (pst p))) y1).
  { destruct H2 as [Rx _]. unfold real in *. rewrite <- Ax, Iy, <- Ix. exact Rx. }
  destruct (run_stall2_ok (hazards p) m0 (Some y1) l0 l1 (Some x2) l3 (bumped (pst p)) next s f R0 R1 H3 Hr)
    as (Hpc & Hims & Hok).
  change (im (bumped (pst p))) with (im (pst p)) in *. change (pc (bumped (pst p))) with (pc (pst p)) in *.
  destruct f as [f|]; cbn [finish fst].
  { apply shape_faulted; rewrite ?Hims, ?Hpc; auto. }
  destruct (Hok eq_refl) as (n1 & n2 & n4 & -> & H1' & H2' & H4' & Hid & Hex & Ho2 & _). clear Hok.
  unfold post. rewrite Hs, Hsv.
  pose proof (L0ok_flags _ _ H0) as [Hs0 Hf0]. pose proof (L4ok_flags _ _ H4') as Hs4.
  unfold exrel in Hex. destruct n2 as [z|]; [|contradiction].
  destruct Hex as (Iz & Az & F1 & F2 & F3 & F4 & F5 & F6 & Hstz & Hflz).
  assert (Sk1' : skid1 y1 z) by (unfold skid1; repeat split; try assumption; congruence).
  assert (Sk0' : skid0 m0 n1 /\ nonempty n1 = nonempty l1).
  { unfold skid0, idrel in *. destruct m0 as [m|], n1 as [z1|], l1 as [x|]; try contradiction; [|split; [exact Logic.I|reflexivity]].
    destruct Sk0 as (Em & _ & _). destruct Hid as [Hi Ha]. repeat split; assumption. }
  destruct Sk0' as [Sk0' Ho1].
  rewrite <- Hims in H0, H1', H2', H4', Him.
  destruct Hd as [-> | ->].
  - (* first drain cycle: the WB input is occupied, the ecall cannot fire *)
    rewrite (stall_part_first _ _ _ _ _ (new_stall_ignored_2 l0 n1 (Some z) None n4 _ Hs0 eq_refl Hs4)).
    assert (Hbz : sl_stall z = true).
    { rewrite Hstz, Iy. unfold ex_busy. rewrite Sy. destruct l3 as [w|]; [reflexivity|]. exfalso; apply (Hd2 eq_refl); reflexivity. }
    destruct (first_flush [l0; n1; Some z; None; n4]) as [[i a]|] eqn:Hff.
    + eapply shape_flush; try eassumption; [exact Logic.I|]. right; split; [reflexivity|]. apply Hflz; exact Hbz.
    + rewrite flush_part_none by exact Hff.
      eapply shape_intro; [reflexivity|..]; cbn [pst stalled saved]; try assumption; [exact Logic.I|].
      rewrite Hims, Hpc. unfold ModeInv. split; [right; reflexivity|]. right. split; [reflexivity|].
      exists m0, y1, z. split; [reflexivity|]. split; [exact Sk0'|]. split; [reflexivity|]. split; [exact Sk1'|].
      rewrite Ho1. split; [exact N1|]. split; [exact N2|]. split; [intros E; discriminate E|reflexivity].
  - rewrite (stall_part_last _ _ _ _ _ (new_stall_ignored_2 l0 n1 (Some z) None n4 _ Hs0 eq_refl Hs4)).
    destruct (first_flush [l0; n1; Some z; None; n4]) as [[i a]|] eqn:Hff.
    + eapply shape_flush; try eassumption; [exact Logic.I|reflexivity].
    + rewrite flush_part_none by exact Hff.
      eapply shape_intro; [reflexivity|..]; cbn [pst stalled saved]; try assumption; [exact Logic.I|].
      rewrite Hims, Hpc. unfold ModeInv. cbn [nonempty]. rewrite Ho1. split; [exact N1|].
      split; [exact N2|apply no101_c0].
Qed.

(** * The invariant is inductive *)
Theorem shape_step p : fetch_faithful -> Shape p -> Shape (fst (pipe_step p)).
Proof.
  intros FF Sh. destruct (stalled p) as [[k d]|] eqn:Hs.
  - pose proof (sh_mode _ Sh) as Hm. rewrite Hs in Hm. unfold ModeInv in Hm.
    destruct (saved p); [|contradiction]. destruct Hm as [_ [[-> _]|[-> _]]].
    + eapply shape_step_stall1; eauto.
    + eapply shape_step_stall2; eauto.
  - apply shape_step_normal; assumption.
Qed.

(** * Reachability *)
Fixpoint pipe_iter (n : nat) (p : pstate) : pstate :=
  match n with O => p | S k => pipe_iter k (fst (pipe_step p)) end.

Theorem shape_iter n : forall p, fetch_faithful -> Shape p -> Shape (pipe_iter n p).
Proof. induction n as [|n IH]; intros p FF Sh; cbn [pipe_iter]; [exact Sh|]. apply IH; [exact FF|]. apply shape_step; assumption. Qed.

Theorem shape_run fuel : forall p, fetch_faithful -> Shape p -> Shape (fst (pipe_run fuel p)).
Proof.
  induction fuel as [|k IH]; intros p FF Sh; cbn [pipe_run]; [exact Sh|].
  destruct (pipe_done p); [exact Sh|].
  pose proof (shape_step p FF Sh) as Sh'. destruct (pipe_step p) as [p' [f|]]; cbn [fst] in *; [exact Sh'|].
  apply IH; assumption.
Qed.

(** * Reading the invariant *)

(* stall register and skid registers *)
Theorem shape_stalled p : Shape p ->
  (stalled p = None /\ saved p = None) \/
  exists k d sv, stalled p = Some (k, d) /\ saved p = Some sv /\ (k = 1 \/ k = 2) /\ (d = 2 \/ d = 1) /\
                 Z.of_nat (length sv) = k.
Proof.
  intros Sh. pose proof (sh_mode _ Sh) as Hm. unfold ModeInv in Hm.
  destruct (stalled p) as [[k d]|], (saved p) as [sv|]; try contradiction.
  - right. exists k, d, sv. destruct Hm as [Hd [(-> & m & x1 & -> & _)|(-> & m0 & y1 & x2 & -> & _)]];
      repeat split; auto.
  - left; split; reflexivity.
Qed.

Corollary shape_saved_iff p : Shape p -> (saved p = None <-> stalled p = None).
Proof.
  intros Sh. destruct (shape_stalled p Sh) as [[-> ->]|(k & d & sv & -> & -> & _)]; split; intros H; try reflexivity; discriminate.
Qed.

(* flags *)
Theorem shape_flags p : Shape p ->
  (forall j x, 0 <= j -> lat_at (lat p) j = Some x -> j <= 4 /\ sl_saved x = false /\
     real (prog (im (pst p))) x /\
     (sl_stall x = true -> j = 1 \/ j = 2) /\
     (sl_flush x <> None -> j = 2 \/ j = 3 \/ j = 4) /\
     (sl_exit x <> None -> sl_instr x = IEcall /\ sl_flush x = Some (sl_addr x + 4))) /\
  has_stall (lat_at (lat p) 0) = false /\ flush_of (lat_at (lat p) 0) = None /\
  flush_of (lat_at (lat p) 1) = None.
Proof.
  intros Sh. destruct (shape_elim _ Sh) as (l0 & l1 & l2 & l3 & l4 & Hl & Him & H0 & H1 & H2 & H3 & H4 & Hm).
  rewrite Hl. lat5. pose proof (L0ok_flags _ _ H0) as [Hs0 Hf0]. pose proof (L1ok_flags _ _ H1) as Hf1.
  split; [|repeat split; assumption].
  intros j x Hj0 Hx. unfold lat_at, nthZ in Hx.
  destruct (Z.to_nat j) as [|[|[|[|[|n]]]]] eqn:Hj; cbn [nth] in Hx.
  - subst l0. destruct H0 as [R E].
    assert (S : sl_saved x = false) by (rewrite E; reflexivity).
    assert (St : sl_stall x = false) by (rewrite E; reflexivity).
    assert (F : sl_flush x = None) by (rewrite E; reflexivity).
    assert (Ex : sl_exit x = None) by (rewrite E; reflexivity).
    refine (conj _ (conj S (conj R (conj _ (conj _ _))))); try lia; congruence.
  - subst l1. destruct H1 as (R & F & S & Ex).
    refine (conj _ (conj S (conj R (conj _ (conj _ _))))); try lia; try congruence.
  - subst l2. destruct H2 as (R & S & F & E & St).
    refine (conj _ (conj S (conj R (conj _ (conj _ _))))); try lia.
    intros Hex. split; [apply E; exact Hex|]. rewrite F. unfold wb_flush.
      destruct (sl_exit x); [reflexivity|congruence].
  - subst l3. destruct H3 as (R & S & St & E).
    refine (conj _ (conj S (conj R (conj _ (conj _ _))))); try lia; try congruence.
    exact E.
  - subst l4. destruct H4 as (R & S & St & F & E).
    refine (conj _ (conj S (conj R (conj _ (conj _ _))))); try lia; try congruence.
    intros Hex. split; [apply E; exact Hex|]. rewrite F. unfold wb_flush.
      destruct (sl_exit x); [reflexivity|congruence].
  - destruct n; discriminate Hx.
Qed.

(* addresses: slots hold real program instructions *)
Theorem shape_addresses p j x : Shape p -> 0 <= j -> lat_at (lat p) j = Some x ->
  instr_at (prog (im (pst p))) (sl_addr x) = Some (sl_instr x) /\
  0 <= sl_addr x < 4 * Z.of_nat (length (prog (im (pst p)))) /\ sl_addr x mod 4 = 0.
Proof.
  intros Sh Hj Hx. destruct (shape_flags p Sh) as [H _]. destruct (H j x Hj Hx) as (_ & _ & R & _).
  split; [exact R|]. apply real_instr_at; exact R.
Qed.

(* the program never changes *)
Theorem prog_constant p : prog (im (pst (fst (pipe_step p)))) = prog (im (pst p)).
Proof.
  rewrite pipe_step_eq. destruct (run_stages (bump p)) as [[next s] f] eqn:Hr.
  apply run_stages_law in Hr. destruct Hr as (_ & _ & _ & _ & _ & Hp & _).
  destruct f as [f|]; cbn [fst faulted pst]; [exact Hp|]. rewrite post_pst. unfold flush_st, stall_st.
  destruct (first_flush next) as [[i a]|]; destruct (new_stall next (stalled p)); exact Hp.
Qed.

(* skid consistency, as stated for the reader *)
Theorem shape_skid1 p d : Shape p -> stalled p = Some (1, d) ->
  exists i a x1, saved p = Some [Some (saved_if i a)] /\ lat_at (lat p) 1 = Some x1 /\
    sl_instr x1 = i /\ sl_addr x1 = a /\ (d = 1 -> lat_at (lat p) 2 = None).
Proof.
  intros Sh Hs. pose proof (sh_mode _ Sh) as Hm. rewrite Hs in Hm. unfold ModeInv in Hm.
  destruct (saved p) as [svl|]; [|contradiction].
  destruct Hm as [Hd [(_ & m & x1 & -> & Hl1 & Em & Hi & Ha & _ & Hd1)|(Hk & _)]]; [|discriminate Hk].
  exists (sl_instr m), (sl_addr m), x1. rewrite <- Em. repeat split; assumption.
Qed.

Theorem shape_skid2 p d : Shape p -> stalled p = Some (2, d) ->
  exists m0 y1 x2, saved p = Some [m0; Some y1] /\ skid0 m0 (lat_at (lat p) 1) /\
    lat_at (lat p) 2 = Some x2 /\ skid1 y1 x2 /\
    (d = 2 -> lat_at (lat p) 3 <> None) /\ (d = 1 -> lat_at (lat p) 3 = None).
Proof.
  intros Sh Hs. pose proof (sh_mode _ Sh) as Hm. rewrite Hs in Hm. unfold ModeInv in Hm.
  destruct (saved p) as [svl|]; [|contradiction].
  destruct Hm as [Hd [(Hk & _)|(_ & m0 & y1 & x2 & -> & Sk0 & Hl2 & Sk1 & _ & _ & Hd2 & Hd1)]]; [discriminate Hk|].
  exists m0, y1, x2. split; [reflexivity|]. split; [exact Sk0|]. split; [exact Hl2|].
  split; [exact Sk1|]. split; assumption.
Qed.

(** * Bubbles come in pairs *)

(* static form: in a reachable non-stalled state no SINGLE bubble is enclosed by two
   instructions — neither between latches (IF,ID,EX), (ID,EX,MEM), nor between the instruction
   about to be fetched and latches (IF, ID).  (Bubbles enter only through an interlock or an
   ecall drain — two cycles each — or through a flush, which empties at least latches IF and ID
   and, with the fetch bubble of a program that ran off its end, only ever makes runs longer.) *)
Theorem bubbles_come_in_pairs p : Shape p -> stalled p = None ->
  let o j := nonempty (lat_at (lat p) j) in
  ~ (has_instr (im (pst p)) (pc (pst p)) = true /\ o 0 = false /\ o 1 = true) /\
  ~ (o 0 = true /\ o 1 = false /\ o 2 = true) /\
  ~ (o 1 = true /\ o 2 = false /\ o 3 = true).
Proof.
  intros Sh Hs. cbv zeta. pose proof (sh_mode _ Sh) as Hm. rewrite Hs in Hm. unfold ModeInv in Hm.
  destruct (saved p); [contradiction|]. destruct Hm as (N1 & N2 & N3). unfold no101 in *.
  repeat split; intros (A & B & C); rewrite A, B, C in *; discriminate.
Qed.

(* dynamic form for the ecall drain: in the first drain cycle the WB input is still occupied, so
   the saved ecall is busy and does not fire; it fires (once) in the second drain cycle *)
Theorem ecall_drain_guard p : Shape p -> stalled p = Some (2, 2) ->
  exists y1, sv_at p 1 = Some y1 /\ sl_instr y1 = IEcall /\
    ex_busy y1 (lat_at (lat p) 2) (lat_at (lat p) 3) = true.
Proof.
  intros Sh Hs. destruct (shape_skid2 p 2 Sh Hs) as (m0 & y1 & x2 & Hsv & _ & _ & Sk1 & Hd2 & _).
  exists y1. unfold sv_at. rewrite Hsv. split; [reflexivity|]. destruct Sk1 as (Iy & Sy & _).
  split; [exact Iy|]. unfold ex_busy. rewrite Sy. destruct (lat_at (lat p) 3); [reflexivity|].
  exfalso; apply (Hd2 eq_refl); reflexivity.
Qed.

Theorem ecall_drain_fires p : Shape p -> stalled p = Some (2, 1) ->
  exists y1, sv_at p 1 = Some y1 /\ sl_instr y1 = IEcall /\
    ex_busy y1 (lat_at (lat p) 2) (lat_at (lat p) 3) = false.
Proof.
  intros Sh Hs. destruct (shape_skid2 p 1 Sh Hs) as (m0 & y1 & x2 & Hsv & _ & _ & Sk1 & _ & Hd1).
  exists y1. unfold sv_at. rewrite Hsv. split; [reflexivity|]. destruct Sk1 as (Iy & Sy & _).
  split; [exact Iy|]. unfold ex_busy. rewrite Sy, (Hd1 eq_refl). reflexivity.
Qed.

(** * Stall countdown on reachable states (L0.7 with the side conditions discharged) *)

(* while a stage is stalled no new stall can start *)
Lemma stalled_no_new_stall p k d next s : Shape p -> stalled p = Some (k, d) ->
  run_stages (bump p) = (next, s, None) -> new_stall next (Some (k, d)) = None.
Proof.
  intros Sh Hs Hr. destruct (shape_elim _ Sh) as (l0 & l1 & l2 & l3 & l4 & Hl & _ & H0 & _).
  pose proof (L0ok_flags _ _ H0) as [Hs0 _].
  destruct (shape_stalled p Sh) as [[E _]|(k' & d' & sv & E & _ & Hk & _)]; rewrite Hs in E; [discriminate|].
  inv E. destruct Hk as [-> | ->].
  - rewrite (run_stages_stall1 (bump p) _ _ _ _ _ d' Hl Hs) in Hr. unfold run_stall1 in Hr.
    destruct (wb_on l3 _) as [[n4 s2] [e|]] eqn:HWB; [nofault Hr|]. apply wb_on_flags in HWB.
    destruct (mem_on l2 s2) as [[n3 s4] [e|]] eqn:HMEM; [nofault Hr|]. apply mem_on_flags in HMEM.
    inv Hr. apply new_stall_ignored_1; assumption.
  - rewrite (run_stages_stall2 (bump p) _ _ _ _ _ d' Hl Hs) in Hr. unfold run_stall2 in Hr.
    destruct (wb_on l3 _) as [[n4 s2] [e|]] eqn:HWB; [nofault Hr|]. apply wb_on_flags in HWB.
    destruct (ex_on _ l2 l3 s2) as [[n2 s3] [e|]] eqn:HEX; [nofault Hr|].
    inv Hr. apply new_stall_ignored_2; [assumption|reflexivity|assumption].
Qed.

Lemma step_ok_run p : snd (pipe_step p) = None -> exists next s, run_stages (bump p) = (next, s, None).
Proof.
  rewrite pipe_step_eq. destruct (run_stages (bump p)) as [[next s] [f|]]; cbn [snd]; [discriminate|].
  intros _. exists next, s. reflexivity.
Qed.

(* a stall lasts exactly two cycles — (k,2) -> (k,1) -> not stalled — unless a flush raised
   behind the stalled stage cancels it; the stall counter moves only in the detection step *)
Theorem stall_countdown p k : Shape p -> snd (pipe_step p) = None ->
  let p' := fst (pipe_step p) in
  (stalled p = Some (k, 2) ->
     stalls (pst p') = stalls (pst p) /\ (stalled p' = Some (k, 1) \/ stalled p' = None)) /\
  (stalled p = Some (k, 1) -> stalls (pst p') = stalls (pst p) /\ stalled p' = None).
Proof.
  intros Sh Hok. cbv zeta. destruct (step_ok_run p Hok) as (next & s & Hr).
  split; intros Hs.
  - destruct (shape_stalled p Sh) as [[E _]|(k' & d' & sv & E & Hsv & _)]; rewrite Hs in E; [discriminate|]. inv E.
    destruct (stall_first p next s k' sv Hs Hsv Hr (stalled_no_new_stall _ _ _ _ _ Sh Hs Hr)) as [H1 H2].
    split; [exact H1|]. destruct (flush_cancels next k'); [right|left]; apply H2.
  - destruct (shape_stalled p Sh) as [[E _]|(k' & d' & sv & E & Hsv & _)]; rewrite Hs in E; [discriminate|]. inv E.
    destruct (stall_last p next s k' sv Hs Hsv Hr (stalled_no_new_stall _ _ _ _ _ Sh Hs Hr)) as (H1 & H2 & _).
    split; assumption.
Qed.

(* the interlock law (C07): once a decode-stage hazard has stalled ID — state (1,2) — two stalled
   cycles follow in which EX receives a bubble (no instruction enters EX), latch IF is held and
   the stall counter stands still; then the pipeline runs again.  A flush from MEM / WB may cut
   this short. *)
Theorem interlock_law p : fetch_faithful -> Shape p -> stalled p = Some (1, 2) ->
  let p1 := fst (pipe_step p) in let p2 := fst (pipe_step p1) in
  snd (pipe_step p) = None -> snd (pipe_step p1) = None ->
  lat_at (lat p1) 2 = None /\ stalls (pst p1) = stalls (pst p) /\
  (stalled p1 = None \/
   (stalled p1 = Some (1, 1) /\ lat_at (lat p1) 0 = lat_at (lat p) 0 /\
    lat_at (lat p2) 2 = None /\ stalls (pst p2) = stalls (pst p) /\ stalled p2 = None)).
Proof.
  intros FF Sh Hs. cbv zeta. intros Hok1 Hok2.
  destruct (shape_elim _ Sh) as (l0 & l1 & l2 & l3 & l4 & Hl & _).
  pose proof (interlock_ex_bubble p _ _ _ _ _ 2 Hl Hs Hok1) as Hb1.
  destruct (stall_countdown p 1 Sh Hok1) as [Hc _]. destruct (Hc Hs) as [Hst1 Hd1]. clear Hc.
  split; [exact Hb1|]. split; [exact Hst1|].
  destruct Hd1 as [Hd1|Hd1]; [right|left; exact Hd1].
  pose proof (shape_step p FF Sh) as Sh1.
  destruct (shape_elim _ Sh1) as (k0 & k1 & k2 & k3 & k4 & Hl1 & _).
  pose proof (interlock_ex_bubble _ _ _ _ _ _ 1 Hl1 Hd1 Hok2) as Hb2.
  destruct (stall_countdown _ 1 Sh1 Hok2) as [_ Hc]. destruct (Hc Hd1) as [Hst2 Hd2].
  split; [exact Hd1|]. split; [|split; [exact Hb2|split; [lia|exact Hd2]]].
  (* latch IF held: no flush happened, since the stall survived *)
  destruct (step_ok_run p Hok1) as (next & s & Hr).
  pose proof Hr as Hr'. rewrite (run_stages_stall1 (bump p) _ _ _ _ _ 2 Hl Hs) in Hr'. unfold run_stall1 in Hr'.
  destruct (wb_on l3 _) as [[n4 s2] [e|]]; [nofault Hr'|].
  destruct (mem_on l2 s2) as [[n3 s4] [e|]]; [nofault Hr'|]. inv Hr'.
  destruct (first_flush [l0; id_on (hazards (bump p)) (sv_at (bump p) 0) l1 l2 s2; None; n3; n4]) as [[i a]|] eqn:Hff.
  - exfalso. destruct (flush_law p _ _ _ _ Hr Hff) as (_ & _ & _ & _ & _ & Hk). cbv zeta in Hk.
    specialize (Hk 1 1 Hd1).
    destruct (shape_flags p Sh) as (_ & _ & Hf0 & Hf1). rewrite Hl in Hf0, Hf1. lat5h Hf0. lat5h Hf1.
    rewrite first_flush_5 in Hff by (assumption || apply id_on_flags).
    cbn [flush_of] in Hff. destruct (flush_of n4); [inv Hff; lia|]. destruct (flush_of n3); [inv Hff; lia|discriminate].
  - destruct (no_flush_law p _ _ Hr Hff) as (Hlat & _). cbv zeta in Hlat. rewrite Hlat, Hl. reflexivity.
Qed.

(** * The layer-0 laws with their side conditions discharged by [Shape] *)

Lemma shape_mode_cases p : Shape p ->
  stalled p = None \/ exists k d, stalled p = Some (k, d) /\ (k = 1 \/ k = 2).
Proof.
  intros Sh. destruct (shape_stalled p Sh) as [[E _]|(k & d & sv & E & _ & Hk & _)]; [left; exact E|].
  right. exists k, d. split; assumption.
Qed.

(* C08: hazard detection off => ID never raises a stall; only an ecall drain can start *)
Theorem nohaz_no_id_stall_reach p next s f : Shape p -> hazards p = false ->
  run_stages (bump p) = (next, s, f) ->
  has_stall (lat_at next 1) = false /\
  (new_stall next (stalled p) = None \/ new_stall next (stalled p) = Some 2).
Proof.
  intros Sh Hz Hr. destruct (shape_flags p Sh) as (_ & Hs0 & _).
  exact (nohaz_new_stall p next s f Hz Hs0 Hr).
Qed.

Theorem nohaz_stalls_only_ecall_reach p : Shape p -> hazards p = false ->
  stalls (pst (fst (pipe_step p))) <> stalls (pst p) ->
  stalled p = None /\
  exists y, lat_at (lat p) 1 = Some y /\ sl_instr y = IEcall /\
            ex_busy y (lat_at (lat p) 2) (lat_at (lat p) 3) = true.
Proof.
  intros Sh Hz Hne. destruct (shape_elim _ Sh) as (l0 & l1 & l2 & l3 & l4 & Hl & _ & H0 & _).
  pose proof (L0ok_flags _ _ H0) as [Hs0 _]. rewrite Hl. lat5.
  exact (nohaz_stalls_only_ecall p l0 l1 l2 l3 l4 Hl Hz Hs0 (shape_mode_cases p Sh) Hne).
Qed.

(* C08 / L0.5: the operands latched by ID in a cycle are read from the register file as it is
   after the WB stage of the same cycle: exactly the writes of the instructions that have
   completed write-back by that cycle (re-decodes during a stall included) *)
Theorem reads_completed_writes p next s y : Shape p ->
  run_stages (bump p) = (next, s, None) -> id_input p = Some y ->
  exists z, lat_at next 1 = Some z /\ sl_instr z = sl_instr y /\ sl_addr z = sl_addr y /\
    (sl_ra1 z, sl_ra2 z, sl_rd1 z, sl_rd2 z, sl_imm z) =
      access_rf (sl_instr y) (with_regs (pst p) (wb_regs (lat_at (lat p) 3) (pst p))) /\
    (hazards p = false -> sl_stall z = false).
Proof.
  intros Sh Hr Hy. destruct (shape_elim _ Sh) as (l0 & l1 & l2 & l3 & l4 & Hl & _).
  pose proof (wb_before_id (bump p) l0 l1 l2 l3 l4 next s Hl (shape_mode_cases p Sh) Hr) as Hid.
  change (id_input (bump p)) with (id_input p) in Hid. change (hazards (bump p)) with (hazards p) in Hid.
  rewrite Hy, id_on_some in Hid. rewrite Hl. lat5.
  eexists; split; [exact Hid|]. cbn [id_slot sl_instr sl_addr sl_ra1 sl_ra2 sl_rd1 sl_rd2 sl_imm sl_stall].
  split; [reflexivity|]. split; [reflexivity|]. split.
  - unfold rf_ra1, rf_ra2, rf_rd1, rf_rd2, rf_imm.
    rewrite (access_rf_ext (sl_instr y) (with_regs (pst (bump p)) (wb_regs l3 (pst (bump p))))
               (with_regs (pst p) (wb_regs l3 (pst p)))) by (stf; apply wb_regs_ext; reflexivity).
    destruct (access_rf _ _) as [[[[a b] c] d] e]. reflexivity.
  - intros ->. reflexivity.
Qed.

Theorem hazards_constant_iter n : forall p, hazards (pipe_iter n p) = hazards p.
Proof.
  induction n as [|n IH]; intros p; cbn [pipe_iter]; [reflexivity|].
  rewrite IH. apply hazards_flag_constant.
Qed.

(* the form the proof of "an ecall fires once" needs: when a not-yet-stalled ecall in latch ID
   finds an older instruction in flight, the MEM input is occupied (never: bubble in the MEM
   input, instruction in the WB input) — so the drain takes the full two cycles *)
Theorem ecall_busy_mem_occupied p y : Shape p -> stalled p = None ->
  lat_at (lat p) 1 = Some y -> ex_busy y (lat_at (lat p) 2) (lat_at (lat p) 3) = true ->
  lat_at (lat p) 2 <> None.
Proof.
  intros Sh Hs Hy Hb. pose proof (sh_l1 _ Sh) as H1. rewrite Hy in H1. destruct H1 as (_ & _ & Hsv & _).
  destruct (bubbles_come_in_pairs p Sh Hs) as (_ & _ & N3). cbv zeta in N3.
  unfold ex_busy in Hb. rewrite Hsv in Hb. intros E. rewrite E in *. cbn [nonempty orb] in Hb.
  apply N3. rewrite Hy. repeat split. exact Hb.
Qed.

Theorem icount_step_reach p : Shape p ->
  icount (pst (fst (pipe_step p))) = icount (pst p) + (if nonempty (lat_at (lat p) 3) then 1 else 0).
Proof. intros Sh. apply icount_step. exact (shape_mode_cases p Sh). Qed.

Theorem ecall_waits_for_drain_lem p : Shape p ->
  (stalled p = Some (2, 2) ->
     exists y1, sv_at p 1 = Some y1 /\ sl_instr y1 = IEcall /\
                ex_busy y1 (lat_at (lat p) 2) (lat_at (lat p) 3) = true) /\
  (stalled p = Some (2, 1) ->
     exists y1, sv_at p 1 = Some y1 /\ sl_instr y1 = IEcall /\
                ex_busy y1 (lat_at (lat p) 2) (lat_at (lat p) 3) = false).
Proof. intros Sh. split; [exact (ecall_drain_guard p Sh)|exact (ecall_drain_fires p Sh)]. Qed.

End WithIM.

(** * The instance without instruction cache *)
Definition no_icache (m : imem) : Prop := icc m = None.

Lemma no_icache_faithful : fetch_faithful no_icache.
Proof.
  unfold fetch_faithful, no_icache. intros m a oi m' pen Hm Hr.
  apply im_read_law in Hr. destruct Hr as [_ Hr]. rewrite Hm in Hr. destruct Hr as (-> & _ & ->).
  split; [exact Hm|reflexivity].
Qed.
