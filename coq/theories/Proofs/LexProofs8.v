(* LexProofs8.v — Model/Lex.v: (b) every instruction pattern, and the whole line, ignore the case of the
   mnemonic's letters (plain line and line with an in-line label). *)
From Coq Require Import String.
From Coq Require Import ZArith List Bool Lia ZifyBool.
From ArchSim Require Import Model.Base Model.Fmt Model.Toy Model.Asm Model.Lex
  Proofs.LexProofs2 Proofs.LexProofs3 Proofs.LexProofs7.
Import ListNotations.
Open Scope Z_scope.

Section Case2.
  Variables (mn mn' post : str).
  Hypothesis CH : case_hyp mn mn' post.
  Variable v : str.
  Hypothesis Hv : blanks v = true.
  Notation u := (v ++ mn ++ post).
  Notation u' := (v ++ mn' ++ post).

  Ltac intab := unfold kw_tables; cbn [In]; tauto.
  Ltac kwalt T :=
    let K := fresh "K" in let l := fresh "l" in let Hl := fresh "Hl" in
    assert (Hl : In T kw_tables) by intab; revert Hl; generalize T; intros l Hl;
    pose proof (kwreg_case mn mn' post CH l v Hl Hv) as K; unfold kwreg in K; revert K;
    destruct (kw l u) as [[[?n ?p] ?r]|]; destruct (kw l u') as [[[?n ?p] ?r]|]; cbv beta iota;
    repeat match goal with |- context [p_reg ?x] => destruct (p_reg x) as [[?a ?q]|] end;
    intros K; try discriminate; try reflexivity; inversion K; subst; reflexivity.

  Lemma alt_r_case : alt_r u = alt_r u'.        Proof. unfold alt_r, ins. kwalt syms_r. Qed.
  Lemma alt_u_case : alt_u u = alt_u u'.        Proof. unfold alt_u, ins. kwalt syms_u. Qed.
  Lemma alt_b_case : alt_b u = alt_b u'.        Proof. unfold alt_b, ins. kwalt syms_b. Qed.
  Lemma alt_mem_case : alt_mem u = alt_mem u'.  Proof. unfold alt_mem, ins. kwalt syms_mem. Qed.
  Lemma alt_memp_case : alt_memp u = alt_memp u'.  Proof. unfold alt_memp, ins. kwalt syms_memp. Qed.
  Lemma alt_sp_case : alt_sp u = alt_sp u'.     Proof. unfold alt_sp, ins. kwalt syms_sp. Qed.
  Lemma alt_csr_case : alt_csr u = alt_csr u'.  Proof. unfold alt_csr, ins. kwalt syms_csr. Qed.
  Lemma alt_csri_case : alt_csri u = alt_csri u'.  Proof. unfold alt_csri, ins. kwalt syms_csri. Qed.
  Lemma alt_rri_case : alt_rri u = alt_rri u'.  Proof. unfold alt_rri, ins. kwalt syms_rri. Qed.
  Lemma alt_rr_case : alt_rr u = alt_rr u'.     Proof. unfold alt_rr, ins. kwalt syms_rr. Qed.

  Ltac clalt w :=
    let K := fresh "K" in
    pose proof (clreg_case mn mn' post CH w v ltac:(cbn [In]; tauto) Hv) as K; unfold clreg in K; revert K;
    destruct (clit w u) as [?r|]; destruct (clit w u') as [?r|]; cbv beta iota;
    repeat match goal with |- context [p_reg ?x] => destruct (p_reg x) as [[?a ?q]|] end;
    intros K; try discriminate; try reflexivity; inversion K; subst; reflexivity.

  Lemma alt_fence_case : alt_fence u = alt_fence u'.  Proof. unfold alt_fence, ins. clalt "fence"%string. Qed.
  Lemma alt_jal_case : alt_jal u = alt_jal u'.        Proof. unfold alt_jal, ins. clalt "jal"%string. Qed.
  Lemma alt_li_case : alt_li u = alt_li u'.           Proof. unfold alt_li, ins. clalt "li"%string. Qed.
  Lemma alt_ecall_case : alt_ecall u = alt_ecall u'.
  Proof.
    unfold alt_ecall.
    rewrite (clit_bare_case mn mn' post CH "ecall"%string v ltac:(cbn [In]; tauto) Hv).
    rewrite (clit_bare_case mn mn' post CH "ebreak"%string v ltac:(cbn [In]; tauto) Hv). reflexivity.
  Qed.
  Lemma alt_nop_case : alt_nop u = alt_nop u'.
  Proof. unfold alt_nop. rewrite (clit_bare_case mn mn' post CH "nop"%string v ltac:(cbn [In]; tauto) Hv). reflexivity. Qed.

  Lemma instr_alts_case : map (fun a => a u) instr_alts = map (fun a => a u') instr_alts.
  Proof.
    unfold instr_alts. cbn [map].
    rewrite alt_r_case, alt_u_case, alt_b_case, alt_mem_case, alt_memp_case, alt_sp_case, alt_csr_case,
      alt_csri_case, alt_rri_case, alt_fence_case, alt_jal_case, alt_ecall_case, alt_nop_case, alt_li_case,
      alt_rr_case. reflexivity.
  Qed.
End Case2.

(** * whole lines *)
Lemma lit1_other d c t : (c =? d) = false -> lit [d] (c :: t) = None.
Proof. intros H. cbn [lit]. rewrite H. reflexivity. Qed.
Lemma alpha_hd m : alpha m = true -> m <> [] -> exists c t, m = c :: t /\ is_alpha c = true.
Proof.
  intros H Hn. destruct m as [|c t]; [congruence|]. exists c, t. split; [reflexivity|].
  cbn [alpha forallb] in H. apply andb_true_iff in H. tauto.
Qed.
Lemma hd_ws_stops post : hd_ws post = true -> stops is_labn post = true.
Proof. destruct post as [|c t]; [reflexivity|]. cbn [hd_ws stops]. unfold is_ws, is_labn, is_alpha, is_upper, is_lower, is_digit. lia. Qed.
Lemma alpha_labn m : alpha m = true -> forallb is_labn m = true.
Proof.
  unfold alpha. rewrite !forallb_forall. intros H x Hx. specialize (H x Hx). unfold is_labn. rewrite H. reflexivity.
Qed.

(* a word followed by something that is not a label character is read as that word *)
Lemma word_exact c t x :
  is_lab1 c = true -> forallb is_labn t = true -> stops is_labn x = true -> word ((c :: t) ++ x) = Some (c :: t, x).
Proof. intros Hc Ht Hx. cbn [app word]. rewrite Hc, (span_all is_labn t x Ht Hx). reflexivity. Qed.

Lemma p_label_mn m x : alpha m = true -> m <> [] -> hd_ws x = true -> p_label (m ++ x) = Some (m, x).
Proof.
  intros H Hn Hx. unfold p_label. rewrite (alpha_skip m x H Hn).
  destruct (alpha_hd m H Hn) as (c & t & -> & Hc). apply word_exact.
  - unfold is_lab1. rewrite Hc. reflexivity.
  - apply alpha_labn in H. cbn [forallb] in H. apply andb_true_iff in H. tauto.
  - apply hd_ws_stops, Hx.
Qed.
Lemma tlit_dot_mn m x w : alpha m = true -> m <> [] -> blanks w = true -> tlit [46] (w ++ m ++ x) = None.
Proof.
  intros H Hn Hw. rewrite tlit_blanks by exact Hw. unfold tlit. rewrite (alpha_skip m x H Hn).
  destruct (alpha_hd m H Hn) as (c & t & -> & Hc). cbn [app]. apply lit1_other. cl. lia.
Qed.

Section Plain.
  Variables (mn mn' post : str).
  Hypothesis CH : case_hyp mn mn' post.

  Definition plain_shape (m : str) : lexres :=
    match or_longest [None; None; None; None;
                      match or_longest (map (fun a => a (m ++ post)) instr_alts) with
                      | Some (pb, r') => Some ((fst pb, NInstr None (snd pb)), r')
                      | None => None
                      end; None] with
    | Some ((ok, l), r) => match skip_ws r with [] => if ok then LexOk l else LexSyntax | _ => LexSyntax end
    | None => LexSyntax
    end.

  Lemma lex_core_plain m : alpha m = true -> m <> [] -> lex_core (m ++ post) = plain_shape m.
  Proof.
    intros Ha Hn. destruct CH as [_ _ _ _ Hp Hc].
    unfold lex_core, plain_shape.
    assert (D : alt_directive (m ++ post) = None).
    { unfold alt_directive. change (m ++ post) with ([] ++ m ++ post). rewrite (tlit_dot_mn m post [] Ha Hn eq_refl). reflexivity. }
    assert (H : p_decl_head (m ++ post) = None).
    { unfold p_decl_head. rewrite (p_label_mn m post Ha Hn Hp), Hc. reflexivity. }
    assert (L : alt_labeldecl (m ++ post) = None).
    { unfold alt_labeldecl. rewrite (p_label_mn m post Ha Hn Hp), Hc. reflexivity. }
    assert (I : p_inline (m ++ post) = (None, m ++ post)).
    { unfold p_inline. rewrite (p_label_mn m post Ha Hn Hp), Hc. reflexivity. }
    unfold alt_vardecl, alt_strdecl, alt_zerodecl, alt_instruction. rewrite D, H, L, I. reflexivity.
  Qed.

  (** (b) for a plain instruction line *)
  Theorem lex_core_case_plain : lex_core (mn ++ post) = lex_core (mn' ++ post).
  Proof.
    destruct (mn_ne mn mn' post CH) as [N N']. pose proof CH as [Ha Ha' _ _ _ _].
    rewrite (lex_core_plain mn Ha N), (lex_core_plain mn' Ha' N'). unfold plain_shape.
    pose proof (instr_alts_case mn mn' post CH [] eq_refl) as E. cbn [app] in E. rewrite E. reflexivity.
  Qed.
End Plain.

Section Labelled.
  Variables (mn mn' post : str).
  Hypothesis CH : case_hyp mn mn' post.
  Variables (c0 : Z) (t0 w1 w2 : str).
  Hypothesis Hc0 : is_lab1 c0 = true.
  Hypothesis Ht0 : forallb is_labn t0 = true.
  Hypothesis Hw1 : blanks w1 = true.
  Hypothesis Hw2 : blanks w2 = true.
  Notation lab := (c0 :: t0).
  Definition lline (m : str) : str := lab ++ w1 ++ 58 :: w2 ++ m ++ post.

  Lemma lab_not_ws : is_ws c0 = false.   Proof. revert Hc0. unfold is_ws, is_lab1, is_alpha, is_upper, is_lower. lia. Qed.
  Lemma colon_after X : colon (w1 ++ 58 :: X) = Some X.
  Proof.
    unfold colon. rewrite tlit_blanks by exact Hw1. unfold tlit. rewrite skip_ws_stop by reflexivity.
    cbn [lit]. rewrite Z.eqb_refl. reflexivity.
  Qed.
  Lemma stops_after X : stops is_labn (w1 ++ 58 :: X) = true.
  Proof.
    destruct w1 as [|c t]; [reflexivity|]. cbn [blanks forallb] in Hw1. apply andb_true_iff in Hw1 as [H _].
    cbn [app stops]. revert H. unfold is_ws, is_labn, is_alpha, is_upper, is_lower, is_digit. lia.
  Qed.
  Lemma p_label_l m : p_label (lline m) = Some (lab, w1 ++ 58 :: w2 ++ m ++ post).
  Proof.
    unfold p_label, lline. rewrite skip_ws_stop by (cbn [app stops]; rewrite lab_not_ws; reflexivity).
    apply word_exact; [exact Hc0|exact Ht0|apply stops_after].
  Qed.

  Definition label_shape (m : str) : lexres :=
    match or_longest [None; None; None; None;
                      match or_longest (map (fun a => a (w2 ++ m ++ post)) instr_alts) with
                      | Some (pb, r') => Some ((fst pb, NInstr (Some lab) (snd pb)), r')
                      | None => None
                      end;
                      Some ((true, NLabelDecl lab), w2 ++ m ++ post)] with
    | Some ((ok, l), r) => match skip_ws r with [] => if ok then LexOk l else LexSyntax | _ => LexSyntax end
    | None => LexSyntax
    end.

  Lemma lex_core_label m : alpha m = true -> m <> [] -> lex_core (lline m) = label_shape m.
  Proof.
    intros Ha Hn. unfold lex_core, label_shape.
    assert (D : alt_directive (lline m) = None).
    { unfold alt_directive, tlit, lline. rewrite skip_ws_stop by (cbn [app stops]; rewrite lab_not_ws; reflexivity).
      cbn [app]. rewrite lit1_other; [reflexivity|]. revert Hc0. unfold is_ws, is_lab1, is_alpha, is_upper, is_lower. lia. }
    assert (H : p_decl_head (lline m) = None).
    { unfold p_decl_head. rewrite (p_label_l m), colon_after, (tlit_dot_mn m post w2 Ha Hn Hw2). reflexivity. }
    assert (L : alt_labeldecl (lline m) = Some ((true, NLabelDecl lab), w2 ++ m ++ post)).
    { unfold alt_labeldecl. rewrite (p_label_l m), colon_after. reflexivity. }
    assert (I : p_inline (lline m) = (Some lab, w2 ++ m ++ post)).
    { unfold p_inline. rewrite (p_label_l m), colon_after. reflexivity. }
    unfold alt_vardecl, alt_strdecl, alt_zerodecl, alt_instruction. rewrite D, H, L, I. reflexivity.
  Qed.

  Lemma or6 {A} (I L : option (A * str)) : or_longest [None; None; None; None; I; L] = better I L.
  Proof. reflexivity. Qed.

  (** (b) for an instruction line with an in-line label *)
  Theorem lex_core_case_label : lex_core (lline mn) = lex_core (lline mn').
  Proof.
    destruct (mn_ne mn mn' post CH) as [N N']. pose proof CH as [Ha Ha' Hs _ _ _].
    rewrite (lex_core_label mn Ha N), (lex_core_label mn' Ha' N'). unfold label_shape.
    rewrite (instr_alts_case mn mn' post CH w2 Hw2). rewrite !or6.
    assert (Len : List.length (w2 ++ mn ++ post) = List.length (w2 ++ mn' ++ post)).
    { rewrite !app_length. f_equal. f_equal. rewrite <- (map_length lower mn), Hs. apply map_length. }
    assert (K : forall m, alpha m = true -> m <> [] ->
                match skip_ws (w2 ++ m ++ post) with [] => LexOk (NLabelDecl lab) | _ => LexSyntax end = LexSyntax).
    { intros m Hm Hn. rewrite skip_ws_app by exact Hw2. rewrite (alpha_skip m post Hm Hn).
      destruct m; [congruence|reflexivity]. }
    destruct (match or_longest (map (fun a => a (w2 ++ mn' ++ post)) instr_alts) with
              | Some (pb, r') => Some (fst pb, NInstr (Some lab) (snd pb), r') | None => None end) as [[x r]|];
      unfold better.
    - rewrite Len. destruct (Nat.ltb (List.length (w2 ++ mn' ++ post)) (List.length r)); [|reflexivity].
      cbv beta iota. rewrite (K mn Ha N), (K mn' Ha' N'). reflexivity.
    - cbv beta iota. rewrite (K mn Ha N), (K mn' Ha' N'). reflexivity.
  Qed.
End Labelled.
