(* LexErr4.v — why the assembler reports a syntax error on token lines the tokenizer produced: a literal that
   int() rejects, or a declaration among the instructions. *)
From Coq Require Import String.
From Coq Require Import ZArith List Bool Lia ZifyBool.
From ArchSim Require Import Model.Base Model.Mem Model.Cache Model.Fmt Model.RV Model.Toy Model.Asm Model.Lex
  Proofs.C04Proofs Proofs.C14Proofs Proofs.C15Proofs Proofs.LexErr1 Proofs.LexErr2 Proofs.LexErr3.
Import ListNotations.
Open Scope Z_scope.

Definition olist {A} (o : option A) : list A := match o with Some x => [x] | None => [] end.
(* the numeric literals of a token record: immediates read with int(text, 0), the array index read with int(text) *)
Definition itok_literals (i : itok) : list str :=
  olist (k_imm i) ++ olist (k_csr i) ++ olist (k_uimm i) ++ olist (k_offset i).
Definition itok_index (i : itok) : list str :=
  match k_var i with Some (_, Some d) => [d] | _ => [] end.

(** * instantiate_one *)
Lemma label_or_imm_syntax i lb a ln l' : label_or_imm i lb a ln = PErr (PSyntax l') ->
  l' = ln /\ exists s, In s (itok_literals i) /\ py_int0 s = None.
Proof.
  unfold label_or_imm, itok_literals. destruct (k_imm i) as [s|].
  - intros H. apply pbind_err in H as [H|(v & _ & H)].
    + apply need_int_err in H as [[Hc _]|[Hc (t & Et & Hn)]]; [discriminate Hc|]. inversion Hc; subst. inversion Et; subst.
      split; [reflexivity|]. exists t. split; [left; reflexivity|exact Hn].
    + destruct (v mod 2 =? 0); discriminate H.
  - intros H. apply pbind_err in H as [H|(v & _ & H)].
    + destruct (k_offset i) as [o|]; [|discriminate H].
      apply need_int_err in H as [[Hc _]|[Hc (t & Et & Hn)]]; [discriminate Hc|]. inversion Hc; subst. inversion Et; subst.
      split; [reflexivity|]. exists t. split; [|exact Hn]. cbn [olist app]. apply in_or_app. right. apply in_or_app. right. left. reflexivity.
    + destruct (k_label i) as [l|]; [|discriminate H]. destruct (mget_opt lb l); discriminate H.
Qed.

Ltac lit_in := unfold itok_literals; repeat (apply in_or_app; first [left; solve [cbn; auto]|right]); cbn; auto.
Ltac pb H :=
  repeat match type of H with
  | pbind (need_reg _ _) _ = PErr _ =>
      apply pbind_err in H as [H|(? & _ & H)]; [apply need_reg_err in H as [H _]; discriminate H|cbv beta in H]
  end.

Lemma inst_one_syntax i lb a ln l' : instantiate_one i lb a ln = PErr (PSyntax l') ->
  l' = ln /\ (in_instruction_map (k_mn i) = false \/ exists s, In s (itok_literals i) /\ py_int0 s = None).
Proof.
  unfold instantiate_one.
  assert (NI : forall (fld : option str) (k : Z -> pres instr),
            (fld = k_imm i \/ fld = k_csr i \/ fld = k_uimm i) ->
            pbind (need_int fld ln) k = PErr (PSyntax l') ->
            (forall v, k v = PErr (PSyntax l') -> l' = ln /\ exists s, In s (itok_literals i) /\ py_int0 s = None) ->
            l' = ln /\ exists s, In s (itok_literals i) /\ py_int0 s = None).
  { intros fld k Hf H Hk. apply pbind_err in H as [H|(v & _ & H)]; [|eapply Hk, H].
    apply need_int_err in H as [[Hc _]|[Hc (t & Et & Hn)]]; [discriminate Hc|]. injection Hc as Hc. subst l'.
    split; [reflexivity|]. exists t. split; [|exact Hn].
    destruct Hf as [Hf|[Hf|Hf]]; rewrite Hf in Et; unfold itok_literals; rewrite Et; cbn [olist app];
      [left; reflexivity|apply in_or_app; right; left; reflexivity|
       apply in_or_app; right; apply in_or_app; right; left; reflexivity]. }
  destruct (in_instruction_map (k_mn i)) eqn:Em; cbn [negb].
  2:{ intros H. inversion H; subst. split; [reflexivity|left; reflexivity]. }
  intros H. cut (l' = ln /\ exists s, In s (itok_literals i) /\ py_int0 s = None); [intros [X Y]; split; [exact X|right; exact Y]|].
  destruct (k_mn i <=? 17).
  { pb H. discriminate H. }
  destruct ((k_mn i <=? 33) || (k_mn i =? 46)).
  { eapply NI; [left; reflexivity|exact H|]. intros v Hv. cbv beta in Hv. pb Hv. discriminate Hv. }
  destruct (k_mn i <=? 36).
  { pb H. eapply NI; [left; reflexivity|exact H|]. intros v Hv. discriminate Hv. }
  destruct (k_mn i <=? 42).
  { apply pbind_err in H as [H|(v & _ & H)]; [eapply label_or_imm_syntax, H|]. pb H. discriminate H. }
  destruct (k_mn i <=? 44).
  { pb H. eapply NI; [left; reflexivity|exact H|]. intros v Hv. discriminate Hv. }
  destruct (k_mn i =? 45).
  { apply pbind_err in H as [H|(v & _ & H)]; [eapply label_or_imm_syntax, H|]. pb H. discriminate H. }
  destruct (k_mn i =? 47); [discriminate H|].
  destruct (k_mn i <=? 50).
  { pb H. eapply NI; [right; left; reflexivity|exact H|]. intros v Hv. cbv beta in Hv. pb Hv. discriminate Hv. }
  pb H. eapply NI; [right; left; reflexivity|exact H|]. intros v Hv.
  eapply NI; [right; right; reflexivity|exact Hv|]. intros u Hu. discriminate Hu.
Qed.

(** * expansion of pseudo-instructions *)
Definition safe_gen (b : tbody) : Prop :=
  exists i, b = BIns i /\ in_instruction_map (k_mn i) = true /\ forall s, In s (itok_literals i) -> py_int0 s <> None.

Lemma safe_gen_no_syntax b : safe_gen b -> forall i lb a ln l', b = BIns i -> instantiate_one i lb a ln <> PErr (PSyntax l').
Proof.
  intros (i0 & -> & Hm & Hl) i lb a ln l' E H. inversion E; subst i0.
  destruct (inst_one_syntax _ _ _ _ _ H) as [_ [X|(s & Hs & Hn)]]; [congruence|exact (Hl s Hs Hn)].
Qed.

Lemma hi_lo_small v hi lo : hi_lo v = (hi, lo) -> 0 <= hi <= 1048576 /\ 0 <= lo < 4096.
Proof.
  unfold hi_lo, U32, U. change 4095 with (Z.ones 12). rewrite Z.land_ones by lia. rewrite Z.shiftr_div_pow2 by lia.
  assert (0 <= v mod 2 ^ 32 < 4294967296) by (apply Z.mod_pos_bound; lia).
  change (2 ^ 12) with 4096 in *. change (2 ^ 32) with 4294967296 in *.
  destruct ((v mod 4294967296 mod 4096 >? 2047) || (v mod 4294967296 mod 4096 <? -2048)); intros E; inversion E; subst;
    (split; [|apply Z.mod_pos_bound; lia]).
  - assert (0 <= v mod 4294967296 / 4096 < 1048576) by (split; [apply Z.div_pos; lia|apply Z.div_lt_upper_bound; lia]). lia.
  - assert (0 <= v mod 4294967296 / 4096 < 1048576) by (split; [apply Z.div_pos; lia|apply Z.div_lt_upper_bound; lia]). lia.
Qed.

Lemma dec_ok_lit z : Z.abs z <= 1099511627776 -> py_int0 (str_dec z) <> None.
Proof. intros H. rewrite py_int0_str_dec by (change (2 ^ 40) with 1099511627776; exact H). discriminate. Qed.

Lemma safe_u mn r z : in_instruction_map mn = true -> Z.abs z <= 1099511627776 -> safe_gen (BIns (tok_u mn r (str_dec z))).
Proof.
  intros Hm Hz. eexists. split; [reflexivity|]. split; [exact Hm|]. intros s Hs. cbn in Hs.
  destruct Hs as [<-|[]]. apply dec_ok_lit, Hz.
Qed.
Lemma safe_rri mn r1 r2 z : in_instruction_map mn = true -> Z.abs z <= 1099511627776 ->
  safe_gen (BIns (tok_rri mn r1 r2 (str_dec z))).
Proof.
  intros Hm Hz. eexists. split; [reflexivity|]. split; [exact Hm|]. intros s Hs. cbn in Hs.
  destruct Hs as [<-|[]]. apply dec_ok_lit, Hz.
Qed.
Lemma safe_rri0 mn r1 r2 : in_instruction_map mn = true -> safe_gen (BIns (tok_rri mn r1 r2 [48])).
Proof.
  intros Hm. eexists. split; [reflexivity|]. split; [exact Hm|]. intros s Hs. cbn in Hs.
  destruct Hs as [<-|[]]. discriminate.
Qed.

Lemma load_in_map mn : is_load_mn mn = true -> in_instruction_map mn = true.
Proof. unfold is_load_mn, in_instruction_map. lia. Qed.
Lemma store_in_map mn : is_store_mn mn = true -> in_instruction_map mn = true.
Proof. unfold is_store_mn, in_instruction_map. lia. Qed.

Lemma expand_one_gen vars ln b bs : expand_one vars ln b = POk bs -> Forall (fun b' => b' = b \/ safe_gen b') bs.
Proof.
  unfold expand_one. destruct b as [k|i|].
  - destruct k as [|[q|[r|r|]|]|q]; intros H; inversion H; subst; apply Forall_1;
      try (left; reflexivity). right. apply safe_rri0. reflexivity.
  - destruct (k_mn i =? MN_LI).
    { destruct (k_rd i) as [rd|]; [|discriminate]. destruct (k_imm i) as [s|]; [|discriminate].
      destruct (py_int0 s) as [imm|]; [|discriminate]. destruct (hi_lo imm) as [hi lo] eqn:Eh.
      destruct (hi_lo_small _ _ _ Eh) as [Hh Hl].
      destruct ((imm >? 2047) || (imm <? -2048)) eqn:Eb; intros H; inversion H; subst.
      - apply Forall_2; right; [apply safe_u|apply safe_rri]; try reflexivity; lia.
      - apply Forall_1; right. apply safe_rri; [reflexivity|lia]. }
    destruct (is_load_mn (k_mn i) || (k_mn i =? MN_LA)) eqn:El.
    { destruct (k_var i) as [v|]; [|intros H; inversion H; subst; apply Forall_1; left; reflexivity].
      destruct (var_address vars v ln) as [a|]; [|discriminate]. destruct (k_reg1 i) as [r|]; [|discriminate].
      destruct (hi_lo a) as [hi lo] eqn:Eh. destruct (hi_lo_small _ _ _ Eh) as [Hh Hl].
      destruct (is_load_mn (k_mn i)) eqn:Elo; intros H; inversion H; subst.
      - apply Forall_3; right; [apply safe_u; [reflexivity|lia]|apply safe_rri; [reflexivity|lia]|].
        apply safe_rri0, load_in_map, Elo.
      - apply Forall_2; right; [apply safe_u|apply safe_rri]; try reflexivity; lia. }
    destruct (is_store_mn (k_mn i)) eqn:Es.
    { destruct (k_var i) as [v|]; [|intros H; inversion H; subst; apply Forall_1; left; reflexivity].
      destruct (var_address vars v ln) as [a|]; [|discriminate]. destruct (k_reg1 i) as [r|]; [|discriminate].
      destruct (k_reg2 i) as [rt|]; [|discriminate].
      destruct (hi_lo a) as [hi lo] eqn:Eh. destruct (hi_lo_small _ _ _ Eh) as [Hh Hl].
      intros H; inversion H; subst.
      apply Forall_3; right; [apply safe_u; [reflexivity|lia]|apply safe_rri; [reflexivity|lia]|].
      apply safe_rri0, store_in_map, Es. }
    destruct (k_mn i =? MN_MV).
    { destruct (k_rd i) as [rd|]; [|discriminate]. destruct (k_rs i) as [rs|]; [|discriminate].
      intros H; inversion H; subst. apply Forall_1. right. apply safe_rri0. reflexivity. }
    intros H; inversion H; subst. apply Forall_1. left. reflexivity.
  - intros H; inversion H; subst. apply Forall_1. left. reflexivity.
Qed.

Lemma var_address_syntax vars v ln l' : var_address vars v ln = PErr (PSyntax l') ->
  l' = ln /\ exists d, snd v = Some d /\ py_int10 d = None.
Proof.
  unfold var_address. destruct (var_lookup vars (fst v)) as [[a size]|]; [|discriminate].
  destruct (snd v) as [d|]; [|discriminate]. destruct (py_int10 d) eqn:E; [discriminate|].
  intros H. inversion H; subst. split; [reflexivity|]. exists d. split; [reflexivity|exact E].
Qed.

Lemma expand_one_syntax vars ln b l' : expand_one vars ln b = PErr (PSyntax l') ->
  l' = ln /\ exists i, b = BIns i /\
    exists s, (In s (itok_literals i) /\ py_int0 s = None) \/ (In s (itok_index i) /\ py_int10 s = None).
Proof.
  unfold expand_one. destruct b as [k|i|]; [destruct k as [|[q|[r|r|]|]|q]; discriminate| |discriminate].
  assert (V : forall v, k_var i = Some v -> var_address vars v ln = PErr (PSyntax l') ->
            l' = ln /\ exists i0, BIns i = BIns i0 /\
              exists s, (In s (itok_literals i0) /\ py_int0 s = None) \/ (In s (itok_index i0) /\ py_int10 s = None)).
  { intros [n idx] Ev Hv. destruct (var_address_syntax _ _ _ _ Hv) as [-> (d & Ed & Hn)]. cbn [snd] in Ed. subst idx.
    split; [reflexivity|]. exists i. split; [reflexivity|]. exists d. right. split; [|exact Hn].
    unfold itok_index. rewrite Ev. left. reflexivity. }
  destruct (k_mn i =? MN_LI).
  { destruct (k_rd i) as [rd|]; [|discriminate]. destruct (k_imm i) as [s|] eqn:Ei; [|discriminate].
    destruct (py_int0 s) as [imm|] eqn:Ep.
    - destruct (hi_lo imm) as [hi lo]. destruct ((imm >? 2047) || (imm <? -2048)); discriminate.
    - intros H. inversion H; subst. split; [reflexivity|]. exists i. split; [reflexivity|]. exists s. left.
      split; [|exact Ep]. unfold itok_literals. rewrite Ei. left. reflexivity. }
  destruct (is_load_mn (k_mn i) || (k_mn i =? MN_LA)).
  { destruct (k_var i) as [v|] eqn:Ev; [|discriminate].
    destruct (var_address vars v ln) as [a|e] eqn:Ea.
    - destruct (k_reg1 i); [|discriminate]. destruct (hi_lo a). destruct (is_load_mn (k_mn i)); discriminate.
    - intros H. destruct (k_reg1 i); inversion H; subst; eapply V; eauto. }
  destruct (is_store_mn (k_mn i)).
  { destruct (k_var i) as [v|] eqn:Ev; [|discriminate].
    destruct (var_address vars v ln) as [a|e] eqn:Ea.
    - destruct (k_reg1 i); [|discriminate]. destruct (k_reg2 i); [|discriminate]. destruct (hi_lo a). discriminate.
    - intros H. destruct (k_reg1 i), (k_reg2 i); inversion H; subst; eapply V; eauto. }
  destruct (k_mn i =? MN_MV); [|discriminate].
  destruct (k_rd i); [|discriminate]. destruct (k_rs i); discriminate.
Qed.

(** * two more guarantees of the tokenizer: mnemonic numbers are those of the grammar, "la" has its variable *)
Definition ntok_mn (t : ntok) : Prop := 0 <= n_mn t <= 56 /\ (n_mn t = 55 -> n_var t <> None).
Ltac fin_mn :=
  unfold ntok_mn, MN_LA, MN_MV, MN_LI, MN_JAL; cbn [n_mn n_var tok_rd_imm tok_r1_r2_imm];
  split; [lia|intros; try discriminate; try lia].
Ltac by_mn2 Hin := cbn in Hin; unfold MN_LA, MN_MV, MN_LI, MN_JAL in Hin; repeat (destruct Hin as [<-|Hin]; [fin_mn|]); try contradiction.
Ltac kwfin2 := match goal with E : kw _ _ = Some _ |- _ => apply kw_in in E; by_mn2 E end.

Lemma alt_r_mn s p t r : alt_r s = Some ((p, NIns t), r) -> ntok_mn t.
Proof. unfold alt_r, ins. intros H. inv H. inversion H; subst. kwfin2. Qed.
Lemma alt_u_mn s p t r : alt_u s = Some ((p, NIns t), r) -> ntok_mn t.
Proof. unfold alt_u, ins. intros H. inv H. inversion H; subst. kwfin2. Qed.
Lemma alt_b_mn s p t r : alt_b s = Some ((p, NIns t), r) -> ntok_mn t.
Proof. unfold alt_b, ins. intros H. inv H. inversion H; subst. kwfin2. Qed.
Lemma alt_mem_mn s p t r : alt_mem s = Some ((p, NIns t), r) -> ntok_mn t.
Proof. unfold alt_mem, ins. intros H. inv H. inversion H; subst. kwfin2. Qed.
Lemma alt_memp_mn s p t r : alt_memp s = Some ((p, NIns t), r) -> ntok_mn t.
Proof. unfold alt_memp, ins. intros H. inv H. inversion H; subst. kwfin2. Qed.
Lemma alt_sp_mn s p t r : alt_sp s = Some ((p, NIns t), r) -> ntok_mn t.
Proof. unfold alt_sp, ins. intros H. inv H. inversion H; subst. kwfin2. Qed.
Lemma alt_csr_mn s p t r : alt_csr s = Some ((p, NIns t), r) -> ntok_mn t.
Proof. unfold alt_csr, ins. intros H. inv H. inversion H; subst. kwfin2. Qed.
Lemma alt_csri_mn s p t r : alt_csri s = Some ((p, NIns t), r) -> ntok_mn t.
Proof. unfold alt_csri, ins. intros H. inv H. inversion H; subst. kwfin2. Qed.
Lemma alt_rri_mn s p t r : alt_rri s = Some ((p, NIns t), r) -> ntok_mn t.
Proof. unfold alt_rri, ins. intros H. inv H. inversion H; subst. kwfin2. Qed.
Lemma alt_rr_mn s p t r : alt_rr s = Some ((p, NIns t), r) -> ntok_mn t.
Proof. unfold alt_rr, ins. intros H. inv H. inversion H; subst. kwfin2. Qed.
Lemma alt_fence_mn s p t r : alt_fence s = Some ((p, NIns t), r) -> ntok_mn t.
Proof. unfold alt_fence, ins. intros H. inv H. inversion H; subst. fin_mn. Qed.
Lemma alt_li_mn s p t r : alt_li s = Some ((p, NIns t), r) -> ntok_mn t.
Proof. unfold alt_li, ins. intros H. inv H. inversion H; subst. fin_mn. Qed.
Lemma alt_jal_mn s p t r : alt_jal s = Some ((p, NIns t), r) -> ntok_mn t.
Proof.
  unfold alt_jal, ins. intros H. inv H. destruct (p_imm _) as [[i q]|].
  - inversion H; subst. fin_mn.
  - inv H. inversion H; subst. fin_mn.
Qed.

Lemma alt_instruction_mn s ok il t r : alt_instruction s = Some ((ok, NInstr il (NIns t)), r) -> ntok_mn t.
Proof.
  unfold alt_instruction. destruct (p_inline s) as [il0 r0].
  destruct (or_longest (map (fun a => a r0) instr_alts)) as [[[p b] r']|] eqn:E; [|discriminate].
  intros H. cbn [fst snd] in H. inversion H; subst. apply or_longest_in in E. unfold instr_alts in E. cbn [map In] in E.
  repeat (destruct E as [E|E]; [first [eapply alt_r_mn, E|eapply alt_u_mn, E|eapply alt_b_mn, E|eapply alt_mem_mn, E
    |eapply alt_memp_mn, E|eapply alt_sp_mn, E|eapply alt_csr_mn, E|eapply alt_csri_mn, E|eapply alt_rri_mn, E
    |eapply alt_fence_mn, E|eapply alt_jal_mn, E|exfalso; eapply alt_ecall_str, E|exfalso; eapply alt_nop_str, E
    |eapply alt_li_mn, E|eapply alt_rr_mn, E]|]).
  contradiction.
Qed.
Lemma lex_line_mn l il t : lex_line l = LexOk (NInstr il (NIns t)) -> ntok_mn t.
Proof.
  unfold lex_line. destruct (sanitize l) as [s|]; [|discriminate]. unfold lex_core.
  destruct (or_longest _) as [[[ok nl] r]|] eqn:E; [|discriminate].
  destruct (skip_ws r); [|discriminate]. destruct ok; [|discriminate]. intros H. inversion H; subst.
  apply or_longest_in in E. cbn [In] in E.
  destruct E as [E|[E|[E|[E|[E|[E|[]]]]]]].
  - unfold alt_directive in E. inv E. discriminate.
  - unfold alt_vardecl in E. inv E. discriminate.
  - unfold alt_strdecl in E. inv E. discriminate.
  - unfold alt_zerodecl in E. inv E. discriminate.
  - eapply alt_instruction_mn, E.
  - unfold alt_labeldecl in E. inv E. discriminate.
Qed.

(* on interned token lines *)
Definition toks_mn (toks : list (Z * rline)) : Prop :=
  forall ln il b, In (ln, RInstr il b) toks ->
    match b with
    | BIns i => 0 <= k_mn i <= 56 /\ (k_mn i = 55 -> k_var i <> None)
    | BStr _ => True
    | BOther => False
    end.
Lemma lexes_to_mn l il b : lexes_to l (RInstr il b) ->
  match b with BIns i => 0 <= k_mn i <= 56 /\ (k_mn i = 55 -> k_var i <> None) | BStr _ => True | BOther => False end.
Proof.
  intros (nl & names & Hl & E). destruct nl as [d|n ty v|n s|n v|n|il0 nb]; cbn [intern_line] in E;
    try (destruct (intern names n) as [t' k]; discriminate E); try discriminate E.
  destruct (intern_opt names il0) as [t1 il']. destruct nb as [k|t].
  - cbn [snd] in E. inversion E; subst. exact Logic.I.
  - destruct (lex_line_mn l il0 t Hl) as [M1 M2]. unfold intern_tok in E.
    destruct (intern_opt t1 (n_label t)) as [t2 lab]. destruct (n_var t) as [[v idx]|] eqn:Ev.
    + destruct (intern t2 v) as [t3 k]. cbn [snd] in E. inversion E; subst. cbn [k_mn k_var]. split; [exact M1|discriminate].
    + cbn [snd] in E. inversion E; subst. cbn [k_mn k_var]. split; [exact M1|]. intros H55. exfalso. apply (M2 H55). reflexivity.
Qed.
Lemma lex_text_mn ls toks : lex_text ls = LTOk toks -> toks_mn toks.
Proof.
  intros H ln il b Hin. destruct (lex_text_ok ls toks H) as [_ B]. destruct (B _ _ Hin) as (l & _ & Hl).
  eapply lexes_to_mn, Hl.
Qed.
