(* ToyLexProofs4.v — (b) every letter-case spelling of a mnemonic, (c) decimal and hexadecimal
   spellings of one number: both are literals of the grammar and [toy_value] reads the same number. *)
From Coq Require Import Lia ZifyBool.
From ArchSim Require Import Model.Base Model.Mem Model.Fmt Model.Toy Model.Asm Model.ToyLex Spec.Numerals
  Proofs.C17Proofs Proofs.ToyLexProofs1 Proofs.ToyLexProofs2 Proofs.ToyLexProofs3.
Open Scope Z_scope.

(** * (b) spellings *)
Fixpoint recase (mask : list bool) (s : str) : str :=
  match s with
  | [] => []
  | c :: t => match mask with
              | b :: m => (if b then c + 32 else c) :: recase m t
              | [] => c :: recase [] t
              end
  end.

Lemma recase_upper s : forallb is_upper s = true -> forall mask, map to_upper (recase mask s) = s.
Proof.
  induction s as [|c t IH]; intros H mask; [reflexivity|]. cbn [forallb] in H. apply andb_prop in H as [Hc Ht].
  assert (H1 : to_upper c = c) by (unfold to_upper; cls; destruct ((97 <=? c) && (c <=? 122)) eqn:E; lia).
  assert (H2 : to_upper (c + 32) = c) by (unfold to_upper; cls; destruct ((97 <=? c + 32) && (c + 32 <=? 122)) eqn:E; lia).
  destruct mask as [|b m]; cbn [recase map]; [rewrite H1, (IH Ht); reflexivity|].
  destruct b; [rewrite H2 | rewrite H1]; rewrite (IH Ht); reflexivity.
Qed.

Lemma recase_spells mask op : spells (recase mask (mnemonic_of op)) op.
Proof. apply recase_upper, mnemonic_upper. Qed.

(* and every spelling is of that form *)
Lemma spells_recase sp op : spells sp op -> exists mask, sp = recase mask (mnemonic_of op).
Proof.
  unfold spells. pose proof (mnemonic_upper op) as Hu. generalize dependent (mnemonic_of op). intros m Hu.
  revert m Hu. induction sp as [|c t IH]; intros m Hu H.
  - exists []. rewrite <- H. reflexivity.
  - destruct m as [|u m]; [discriminate|]. cbn [map] in H. injection H as Hc Ht. cbn [forallb] in Hu.
    apply andb_prop in Hu as [Hu Hm]. destruct (IH m Hm Ht) as [mask ->].
    destruct (to_upper_inv c u Hc Hu) as [-> | ->].
    + exists (false :: mask). reflexivity.
    + exists (true :: mask). reflexivity.
Qed.

Theorem mnemonic_case lead trail cmt g il op opnd sp1 sp2 :
  spaces lead = true -> spaces trail = true -> gaps_ok g ->
  wf_rtline sp1 (RLInstr il op opnd) -> spells sp2 op ->
  toy_lex_line (render_line lead trail cmt g sp2 (RLInstr il op opnd)) = LTok (RLInstr il op opnd) /\
  toy_lex_line (render_line lead trail cmt g sp1 (RLInstr il op opnd)) = LTok (RLInstr il op opnd).
Proof.
  intros Hl Ht Hg Hwf Hsp. split; apply lex_render_line; try assumption.
  cbn [wf_rtline] in *. destruct Hwf as (A & B & _ & D). exact (conj A (conj B (conj Hsp D))).
Qed.

(** * (c) number bases *)
Lemma toy_value_hex h : toy_value (48 :: 120 :: h) = Some (digits_value 16 h).
Proof. reflexivity. Qed.

Definition dec_branch (s : str) : option Z :=
  if Z.of_nat (length s) >? max_str_digits then None else Some (digits_value 10 s).
Lemma toy_value_not0 c t : c <> 48 -> toy_value (c :: t) = dec_branch (c :: t).
Proof.
  intros Hc. destruct c as [|p|p]; try reflexivity.
  do 6 (destruct p as [p|p|]; try reflexivity). exfalso; apply Hc; reflexivity.
Qed.
Lemma toy_value_0_notx c t : c <> 120 -> toy_value (48 :: c :: t) = dec_branch (48 :: c :: t).
Proof.
  intros Hc. destruct c as [|p|p]; try reflexivity.
  do 7 (destruct p as [p|p|]; try reflexivity). exfalso; apply Hc; reflexivity.
Qed.
Lemma toy_value_dec d : forallb is_digit d = true -> toy_value d = dec_branch d.
Proof.
  intros H. destruct d as [|c1 t]; [reflexivity|]. destruct (Z.eq_dec c1 48) as [->|Hne].
  - destruct t as [|c2 t]; [reflexivity|]. apply toy_value_0_notx. cbn [forallb] in H.
    apply andb_prop in H as [_ H]. apply andb_prop in H as [H _]. cls. lia.
  - apply toy_value_not0, Hne.
Qed.

Lemma hexval_digit_val' c d : digit_val c = Some d -> hexval c = d.
Proof.
  unfold digit_val, hexval.
  destruct ((48 <=? c) && (c <=? 57)); [intros H; injection H as <-; reflexivity|].
  destruct ((65 <=? c) && (c <=? 70)); [intros H; injection H as <-; reflexivity | discriminate].
Qed.
Lemma horner_fold' base s : forall acc v, horner base acc s = Some v ->
  fold_left (fun a c => a * base + hexval c) s acc = v.
Proof.
  induction s as [|c t IH]; intros acc v H; cbn [horner fold_left] in *.
  - injection H as <-. reflexivity.
  - destruct (digit_val c) as [d|] eqn:Ed; [|discriminate].
    destruct (d <? base); [|discriminate].
    rewrite (hexval_digit_val' _ _ Ed). apply IH. exact H.
Qed.
Lemma digits_value_fmt_nat' base z : 2 <= base <= 16 -> 0 <= z -> digits_value base (fmt_nat base z) = z.
Proof.
  intros Hb Hz. destruct (fmt_nat_roundtrip_lem base z Hb Hz) as [H _].
  rewrite of_digits_horner in H by apply fmt_nat_nonempty.
  unfold digits_value. apply horner_fold'. exact H.
Qed.
Lemma hexval_lower' c : hexval (lower_hex c) = hexval c.
Proof.
  unfold lower_hex, hexval.
  destruct ((65 <=? c) && (c <=? 70)) eqn:E; [|rewrite E; reflexivity].
  replace ((48 <=? c + 32) && (c + 32 <=? 57)) with false by lia.
  replace ((65 <=? c + 32) && (c + 32 <=? 70)) with false by lia.
  replace ((48 <=? c) && (c <=? 57)) with false by lia. lia.
Qed.
Lemma digits_value_lower' base s : digits_value base (map lower_hex s) = digits_value base s.
Proof.
  unfold digits_value. generalize 0. induction s as [|c t IH]; intros acc; cbn [map fold_left]; [reflexivity|].
  rewrite hexval_lower'. apply IH.
Qed.
Lemma digits_value_zeros base k s : digits_value base (repeat 48 k ++ s) = digits_value base s.
Proof.
  unfold digits_value. rewrite fold_left_app. f_equal.
  induction k as [|k IH]; [reflexivity|]. cbn [repeat fold_left]. change (hexval 48) with 0.
  replace (0 * base + 0) with 0 by lia. exact IH.
Qed.

(* spellings of a number: leading zeros allowed; hexadecimal digits in either case *)
Definition dec_lit (zeros : nat) (n : Z) : str := repeat 48 zeros ++ fmt_nat 10 n.
Definition hex_digits (lower : bool) (n : Z) : str := if lower then map lower_hex (fmt_nat 16 n) else fmt_nat 16 n.
Definition hex_lit (zeros : nat) (lower : bool) (n : Z) : str := 48 :: 120 :: repeat 48 zeros ++ hex_digits lower n.

Lemma fmt_nat_digit_chars base z : 2 <= base <= 16 -> 0 <= z ->
  Forall (fun c => exists d, 0 <= d < base /\ c = digit_char d) (fmt_nat base z).
Proof.
  intros Hb Hz. unfold fmt_nat, nat_digits.
  destruct (digits_lsf_spec base (proj1 Hb) _ z (fuel_ok z Hz)) as [H1 _].
  apply Forall_forall. intros c Hc. apply in_map_iff in Hc. destruct Hc as (d & <- & Hd).
  apply in_rev in Hd. unfold digits_ok in H1. rewrite Forall_forall in H1. exists d. split; [apply H1, Hd | reflexivity].
Qed.
Lemma Forall_forallb {A} (p : A -> bool) l : Forall (fun x => p x = true) l -> forallb p l = true.
Proof. intros H. apply forallb_forall. rewrite Forall_forall in H. exact H. Qed.

Lemma dec_digits n : 0 <= n -> forallb is_digit (fmt_nat 10 n) = true.
Proof.
  intros Hn. apply Forall_forallb. eapply Forall_impl; [|apply (fmt_nat_digit_chars 10 n); lia].
  intros c (d & Hd & ->). unfold digit_char. cls. destruct (d <? 10) eqn:E; lia.
Qed.
Lemma hex_digits_ok lower n : 0 <= n -> forallb is_hexdigit (hex_digits lower n) = true.
Proof.
  intros Hn. assert (H : Forall (fun c => is_hexdigit c = true /\ is_hexdigit (lower_hex c) = true) (fmt_nat 16 n)).
  { eapply Forall_impl; [|apply (fmt_nat_digit_chars 16 n); lia].
    intros c (d & Hd & ->). unfold digit_char, lower_hex. cls.
    destruct (d <? 10) eqn:E; [replace ((65 <=? 48 + d) && (48 + d <=? 70)) with false by lia
                              | replace ((65 <=? 55 + d) && (55 + d <=? 70)) with true by lia]; lia. }
  unfold hex_digits. apply forallb_forall. rewrite Forall_forall in H. destruct lower.
  - intros c Hc. apply in_map_iff in Hc as (x & <- & Hx). apply (H x Hx).
  - intros c Hc. apply (H c Hc).
Qed.
Lemma zeros_digits k : forallb is_digit (repeat 48 k) = true.
Proof. induction k as [|k IH]; [reflexivity|]. cbn [repeat forallb]. rewrite IH. reflexivity. Qed.
Lemma hex_digits_nonempty lower n : hex_digits lower n <> [].
Proof.
  unfold hex_digits. pose proof (fmt_nat_nonempty 16 n) as H. destruct (fmt_nat 16 n); [congruence|].
  destruct lower; discriminate.
Qed.

Lemma dec_lit_value zeros n : 0 <= n -> is_value (dec_lit zeros n) = true.
Proof.
  intros Hn. unfold is_value. apply orb_true_intro. right. unfold dec_lit, is_dec.
  assert (H : forallb is_digit (repeat 48 zeros ++ fmt_nat 10 n) = true)
    by (rewrite forallb_app, zeros_digits, dec_digits by exact Hn; reflexivity).
  destruct (repeat 48 zeros ++ fmt_nat 10 n) eqn:E; [|exact H].
  apply app_eq_nil in E as [_ E]. exfalso. exact (fmt_nat_nonempty 10 n E).
Qed.
Lemma hex_lit_value zeros lower n : 0 <= n -> is_value (hex_lit zeros lower n) = true.
Proof.
  intros Hn. unfold is_value. apply orb_true_intro. left. unfold hex_lit. cbn [is_hexlit Z.eqb Pos.eqb andb].
  rewrite forallb_app, (forallb_impl _ _ _ digit_hexdigit (zeros_digits zeros)), (hex_digits_ok lower n Hn).
  destruct (repeat 48 zeros ++ hex_digits lower n) eqn:E; [|reflexivity].
  apply app_eq_nil in E as [_ E]. exfalso. exact (hex_digits_nonempty lower n E).
Qed.

Theorem number_bases n zd zh lower : 0 <= n -> Z.of_nat (length (dec_lit zd n)) <= 4300 ->
  is_value (dec_lit zd n) = true /\ is_value (hex_lit zh lower n) = true /\
  toy_value (dec_lit zd n) = Some n /\ toy_value (hex_lit zh lower n) = Some n.
Proof.
  intros Hn Hlen. split; [apply dec_lit_value, Hn|]. split; [apply hex_lit_value, Hn|]. split.
  - rewrite toy_value_dec.
    + unfold dec_branch, max_str_digits. replace (Z.of_nat (length (dec_lit zd n)) >? 4300) with false by lia.
      unfold dec_lit. rewrite digits_value_zeros, digits_value_fmt_nat' by lia. reflexivity.
    + unfold dec_lit. rewrite forallb_app, zeros_digits, dec_digits by exact Hn. reflexivity.
  - unfold hex_lit. rewrite toy_value_hex, digits_value_zeros. unfold hex_digits.
    destruct lower; [rewrite digits_value_lower'|]; rewrite digits_value_fmt_nat' by lia; reflexivity.
Qed.

(* the same number in an instruction operand / in a .word list: both lines lex, to literals of equal value *)
Theorem number_bases_lex lead trail cmt g sp il op n zd zh lower :
  spaces lead = true -> spaces trail = true -> gaps_ok g ->
  wf_rtline sp (RLInstr il op (RAddrLit (dec_lit zd n))) ->
  0 <= n -> Z.of_nat (length (dec_lit zd n)) <= 4300 ->
  toy_lex_line (render_line lead trail cmt g sp (RLInstr il op (RAddrLit (dec_lit zd n))))
    = LTok (RLInstr il op (RAddrLit (dec_lit zd n))) /\
  toy_lex_line (render_line lead trail cmt g sp (RLInstr il op (RAddrLit (hex_lit zh lower n))))
    = LTok (RLInstr il op (RAddrLit (hex_lit zh lower n))) /\
  toy_value (dec_lit zd n) = toy_value (hex_lit zh lower n) /\ toy_value (dec_lit zd n) = Some n.
Proof.
  intros Hl Ht Hg Hwf Hn Hlen. destruct (number_bases n zd zh lower Hn Hlen) as (Vd & Vh & Td & Th).
  split; [apply lex_render_line; assumption|]. split.
  - apply lex_render_line; try assumption. cbn [wf_rtline wf_operand] in *.
    destruct Hwf as (A & B & C & D & _). exact (conj A (conj B (conj C (conj D Vh)))).
  - rewrite Td, Th. split; reflexivity.
Qed.
