(* Proofs/CacheArith.v — arithmetic underneath the cache proofs (C03, C12): list update lemmas,
   bytes of a word, the lane extraction/merge of from_block/into_block, flat-memory accesses
   with LOCAL hypotheses (only the touched cells need to be bytes), block transfers
   (read_words/write_words) and the address decoding.  No invariant here (see CacheInv.v). *)
From Coq Require Import Lia ZifyBool.
From ArchSim Require Import Model.Base Model.Mem Model.Cache Proofs.WordLemmas Proofs.MapLemmas.
Open Scope Z_scope.
Ltac Zify.zify_post_hook ::= Z.to_euclidean_division_equations.
Local Arguments Z.mul : simpl never.
Local Arguments Z.add : simpl never.
Local Arguments Z.sub : simpl never.
Local Arguments Z.pow : simpl never.
Local Arguments Z.div : simpl never.
Local Arguments Z.modulo : simpl never.
Local Arguments Z.land : simpl never.
Local Arguments Z.lor : simpl never.
Local Arguments Z.lnot : simpl never.
Local Arguments Z.shiftl : simpl never.
Local Arguments Z.shiftr : simpl never.
Local Arguments Z.of_nat : simpl never.
Local Arguments Z.to_nat : simpl never.

(** * Lists indexed by Z *)
Lemma set_nth_len {A} (l : list A) p x : length (set_nth l p x) = length l.
Proof.
  revert p; induction l as [|y t IH]; intros p; [reflexivity|].
  destruct p; cbn [set_nth length]; [|rewrite IH]; reflexivity.
Qed.

Lemma nth_set_nth_gen {A} (l : list A) p x j d : (p < length l)%nat ->
  nth j (set_nth l p x) d = if Nat.eqb j p then x else nth j l d.
Proof.
  revert p j; induction l as [|y t IH]; intros p j Hp; cbn [length] in Hp; [lia|].
  destruct p as [|p], j as [|j]; cbn [set_nth nth Nat.eqb]; try reflexivity.
  apply IH. lia.
Qed.

Lemma set_nthZ_length {A} (l : list A) i x : length (set_nthZ l i x) = length l.
Proof. apply set_nth_len. Qed.

Lemma nthZ_set_nthZ {A} (l : list A) i j x d :
  0 <= i < Z.of_nat (length l) -> 0 <= j ->
  nthZ (set_nthZ l i x) j d = if j =? i then x else nthZ l j d.
Proof.
  intros Hi Hj. unfold nthZ, set_nthZ. rewrite nth_set_nth_gen by lia.
  destruct (Z.eqb_spec j i) as [->|Hne].
  - rewrite Nat.eqb_refl. reflexivity.
  - destruct (Nat.eqb_spec (Z.to_nat j) (Z.to_nat i)) as [E|E]; [lia | reflexivity].
Qed.

Lemma nthZ_set_nthZ_eq {A} (l : list A) i x d :
  0 <= i < Z.of_nat (length l) -> nthZ (set_nthZ l i x) i d = x.
Proof. intros. rewrite nthZ_set_nthZ by lia. rewrite Z.eqb_refl. reflexivity. Qed.

Lemma nthZ_set_nthZ_neq {A} (l : list A) i j x d :
  0 <= i < Z.of_nat (length l) -> 0 <= j -> j <> i -> nthZ (set_nthZ l i x) j d = nthZ l j d.
Proof.
  intros. rewrite nthZ_set_nthZ by lia. destruct (Z.eqb_spec j i); [contradiction | reflexivity].
Qed.

Lemma nthZ_repeat {A} (x d : A) n i : 0 <= i < Z.of_nat n -> nthZ (repeat x n) i d = x.
Proof.
  intros Hi. unfold nthZ.
  assert (H: (Z.to_nat i < n)%nat) by lia. revert H. generalize (Z.to_nat i) as p. clear Hi.
  induction n as [|n IH]; intros p Hp; [lia|]. destruct p; cbn [repeat nth]; [reflexivity|].
  apply IH. lia.
Qed.

Lemma nthZ_cons {A} (x : A) t i d : 1 <= i -> nthZ (x :: t) i d = nthZ t (i - 1) d.
Proof.
  intros Hi. unfold nthZ. replace (Z.to_nat i) with (S (Z.to_nat (i - 1))) by lia. reflexivity.
Qed.
Lemma nthZ_0 {A} (x : A) t d : nthZ (x :: t) 0 d = x.
Proof. reflexivity. Qed.

(** * Powers *)
Lemma p2pos n : 0 <= n -> 0 < 2 ^ n.
Proof. intros; apply Z.pow_pos_nonneg; lia. Qed.

Lemma pow8S i : 0 <= i -> 2 ^ (8 * (i + 1)) = 256 * 2 ^ (8 * i).
Proof. intros. replace (8 * (i + 1)) with (8 + 8 * i) by lia. rewrite Z.pow_add_r by lia. reflexivity. Qed.

(** * Bytes of a word *)
Definition byte_of (w o : Z) : Z := (w / 2 ^ (8 * o)) mod 256.

(* little-endian composition of k bytes g x, g (x+1), ... *)
Fixpoint le_bytes (g : Z -> Z) (x : Z) (k : nat) : Z :=
  match k with
  | O => 0
  | S k' => g x + 256 * le_bytes g (x + 1) k'
  end.

Lemma byte_of_range w o : 0 <= byte_of w o < 256.
Proof. unfold byte_of. apply Z.mod_pos_bound. lia. Qed.

Lemma byte_of_testbit w o i : 0 <= o -> 0 <= i ->
  Z.testbit (byte_of w o) i = (i <? 8) && Z.testbit w (8 * o + i).
Proof.
  intros Ho Hi. unfold byte_of. change 256 with (2 ^ 8).
  destruct (Z.ltb_spec i 8) as [Hlt|Hge]; cbn [andb].
  - rewrite Z.mod_pow2_bits_low by lia. rewrite Z.div_pow2_bits by lia. f_equal. lia.
  - apply Z.mod_pow2_bits_high. lia.
Qed.

Lemma byte_of_0 w : byte_of w 0 = w mod 256.
Proof. unfold byte_of. change (2 ^ (8 * 0)) with 1. rewrite Z.div_1_r. reflexivity. Qed.

Lemma byte_of_div w o : 0 <= o -> byte_of (w / 256) o = byte_of w (o + 1).
Proof.
  intros Ho. unfold byte_of. rewrite pow8S by lia.
  rewrite Z.div_div by (try apply p2pos; lia). reflexivity.
Qed.

Lemma le_bytes_range g : forall k x, (forall j, 0 <= j < Z.of_nat k -> 0 <= g (x + j) < 256) ->
  0 <= le_bytes g x k < 2 ^ (8 * Z.of_nat k).
Proof.
  induction k as [|k IH]; intros x Hg; cbn [le_bytes].
  - change (2 ^ (8 * Z.of_nat 0)) with 1. lia.
  - replace (Z.of_nat (S k)) with (Z.of_nat k + 1) by lia. rewrite pow8S by lia.
    pose proof (Hg 0 ltac:(lia)) as H0. replace (x + 0) with x in H0 by lia.
    assert (H1: 0 <= le_bytes g (x + 1) k < 2 ^ (8 * Z.of_nat k)).
    { apply IH. intros j Hj. replace (x + 1 + j) with (x + (j + 1)) by lia. apply Hg. lia. }
    lia.
Qed.

Lemma le_bytes_ext g g' : forall k x x',
  (forall j, 0 <= j < Z.of_nat k -> g (x + j) = g' (x' + j)) -> le_bytes g x k = le_bytes g' x' k.
Proof.
  induction k as [|k IH]; intros x x' H; cbn [le_bytes]; [reflexivity|].
  pose proof (H 0 ltac:(lia)) as H0. replace (x + 0) with x in H0 by lia.
  replace (x' + 0) with x' in H0 by lia. rewrite H0. f_equal. f_equal.
  apply IH. intros j Hj. replace (x + 1 + j) with (x + (j + 1)) by lia.
  replace (x' + 1 + j) with (x' + (j + 1)) by lia. apply H. lia.
Qed.

(* the k bytes of v starting at byte o compose to (v / 2^(8 o)) mod 2^(8 k) *)
Lemma le_bytes_byte_of v : forall k o, 0 <= o ->
  le_bytes (byte_of v) o k = (v / 2 ^ (8 * o)) mod 2 ^ (8 * Z.of_nat k).
Proof.
  induction k as [|k IH]; intros o Ho; cbn [le_bytes].
  - change (2 ^ (8 * Z.of_nat 0)) with 1. rewrite Z.mod_1_r. reflexivity.
  - rewrite IH by lia. replace (Z.of_nat (S k)) with (Z.of_nat k + 1) by lia.
    rewrite pow8S by lia. unfold byte_of at 1. rewrite pow8S by lia.
    assert (HP: 0 < 2 ^ (8 * o)) by (apply p2pos; lia).
    assert (HQ: 0 < 2 ^ (8 * Z.of_nat k)) by (apply p2pos; lia).
    set (P := 2 ^ (8 * o)) in *. set (Q := 2 ^ (8 * Z.of_nat k)) in *.
    rewrite (Z.mul_comm 256 P), <- Z.div_div by lia.
    rewrite (Z.rem_mul_r (v / P) 256 Q) by lia. reflexivity.
Qed.

Lemma word_bytes w : 0 <= w < 4294967296 -> le_bytes (byte_of w) 0 4 = w.
Proof.
  intros Hw. rewrite le_bytes_byte_of by lia. change (2 ^ (8 * 0)) with 1.
  change (2 ^ (8 * Z.of_nat 4)) with 4294967296. rewrite Z.div_1_r. apply Z.mod_small. exact Hw.
Qed.

(* byte j of a little-endian composition *)
Lemma byte_of_le_bytes g : forall k x j, (forall i, 0 <= i < Z.of_nat k -> 0 <= g (x + i) < 256) ->
  0 <= j < Z.of_nat k -> byte_of (le_bytes g x k) j = g (x + j).
Proof.
  induction k as [|k IH]; intros x j Hg Hj; [lia|]. cbn [le_bytes].
  pose proof (Hg 0 ltac:(lia)) as H0. replace (x + 0) with x in H0 by lia.
  destruct (Z.eq_dec j 0) as [->|Hne].
  - rewrite byte_of_0. replace (x + 0) with x by lia.
    generalize (le_bytes g (x + 1) k); intros L. lia.
  - replace j with ((j - 1) + 1) at 1 by lia. rewrite <- byte_of_div by lia.
    replace ((g x + 256 * le_bytes g (x + 1) k) / 256) with (le_bytes g (x + 1) k).
    + rewrite IH; [f_equal; lia | | lia].
      intros i Hi. replace (x + 1 + i) with (x + (i + 1)) by lia. apply Hg. lia.
    + generalize (le_bytes g (x + 1) k); intros L. lia.
Qed.

(** * Lane merge: clearing n bits at sh and or-ing in v *)
Lemma small_bits_high v n j : 0 <= n -> 0 <= v < 2 ^ n -> n <= j -> Z.testbit v j = false.
Proof.
  intros Hn Hv Hj. replace v with (v mod 2 ^ n) by (apply Z.mod_small; exact Hv).
  apply Z.mod_pow2_bits_high. lia.
Qed.

Lemma merge_bits w v sh n j : 0 <= sh -> 0 <= n -> 0 <= v < 2 ^ n -> 0 <= j ->
  Z.testbit (Z.lor (Z.land w (Z.lnot (Z.shiftl (Z.ones n) sh))) (Z.shiftl v sh)) j =
  if (sh <=? j) && (j <? sh + n) then Z.testbit v (j - sh) else Z.testbit w j.
Proof.
  intros Hsh Hn Hv Hj.
  rewrite Z.lor_spec, Z.land_spec, Z.lnot_spec, !Z.shiftl_spec by lia.
  destruct (Z.leb_spec sh j) as [H1|H1]; cbn [andb].
  - destruct (Z.ltb_spec j (sh + n)) as [H2|H2].
    + rewrite Z.ones_spec_low by lia. cbn [negb]. rewrite andb_false_r. reflexivity.
    + rewrite Z.ones_spec_high by lia. cbn [negb]. rewrite andb_true_r.
      rewrite (small_bits_high v n) by lia. apply orb_false_r.
  - rewrite (Z.testbit_neg_r (Z.ones n) (j - sh)), (Z.testbit_neg_r v (j - sh)) by lia. cbn [negb]. rewrite andb_true_r. apply orb_false_r.
Qed.

(* bytes of the merged word: nb bytes (8*nb bits) of v placed at byte offset o *)
Lemma merge_bytes w v o nb o' :
  0 <= o -> 0 <= nb -> o + nb <= 4 -> 0 <= v < 2 ^ (8 * nb) -> 0 <= o' < 4 ->
  byte_of (U32 (Z.lor (Z.land w (Z.lnot (Z.shiftl (2 ^ (8 * nb) - 1) (o * 8)))) (Z.shiftl v (o * 8)))) o' =
  if (o <=? o') && (o' <? o + nb) then byte_of v (o' - o) else byte_of w o'.
Proof.
  intros Ho Hnb Hsum Hv Ho'.
  replace (2 ^ (8 * nb) - 1) with (Z.ones (8 * nb)) by (rewrite Z.ones_equiv; unfold Z.pred; ring).
  apply Z.bits_inj'; intros i Hi.
  rewrite byte_of_testbit by lia.
  destruct (Z.ltb_spec i 8) as [Hlt|Hge]; cbn [andb].
  - assert (Hb: (i <? 8) = true) by lia.
    unfold U32, U. rewrite Z.mod_pow2_bits_low by lia.
    rewrite merge_bits by lia.
    destruct (Z.leb_spec o o') as [H1|H1]; destruct (Z.ltb_spec o' (o + nb)) as [H2|H2]; cbn [andb].
    + replace (o * 8 <=? 8 * o' + i) with true by lia.
      replace (8 * o' + i <? o * 8 + 8 * nb) with true by lia. cbn [andb].
      rewrite byte_of_testbit, Hb by lia. cbn [andb]. f_equal. lia.
    + replace (8 * o' + i <? o * 8 + 8 * nb) with false by lia. rewrite andb_false_r.
      rewrite byte_of_testbit, Hb by lia. reflexivity.
    + replace (o * 8 <=? 8 * o' + i) with false by lia. cbn [andb].
      rewrite byte_of_testbit, Hb by lia. reflexivity.
    + replace (o * 8 <=? 8 * o' + i) with false by lia. cbn [andb].
      rewrite byte_of_testbit, Hb by lia. reflexivity.
  - assert (Hb: (i <? 8) = false) by lia.
    destruct ((o <=? o') && (o' <? o + nb)) eqn:E; rewrite byte_of_testbit, Hb by lia; reflexivity.
Qed.

Lemma merged_in32 x : 0 <= U32 x < 4294967296.
Proof. apply U32_range. Qed.

(** * Lane extraction *)
Lemma extract8 w o : 0 <= o -> U8 (Z.shiftr w (o * 8)) = byte_of w o.
Proof. intros. rewrite U8_eq, shr_div by lia. unfold byte_of. f_equal. f_equal. f_equal. lia. Qed.

Lemma extract_le w o k : 0 <= o ->
  (Z.shiftr w (o * 8)) mod 2 ^ (8 * Z.of_nat k) = le_bytes (byte_of w) o k.
Proof. intros. rewrite le_bytes_byte_of, shr_div by lia. f_equal. f_equal. f_equal. lia. Qed.

(** * Flat memory accesses, hypotheses only about the touched cells *)
Definition aerr (y : Z) : err := EAddr y 16384 4294967295 false.

Lemma read_cell_loc m a y : a mod 4294967296 = y -> 16384 <= y ->
  read_cell rv_memcfg m a = Ok (mget m y).
Proof.
  intros Hy Hlo. unfold read_cell, eff_addr, in_range. cbn [aovf alen alo ahi rv_memcfg].
  change (2 ^ 32) with 4294967296. rewrite Hy.
  replace ((16384 <=? y) && (y <? 4294967296)) with true by lia. reflexivity.
Qed.

Lemma read_cell_bad m a y : a mod 4294967296 = y -> y < 16384 ->
  read_cell rv_memcfg m a = Err (aerr y).
Proof.
  intros Hy Hlo. unfold read_cell, eff_addr, in_range. cbn [aovf alen alo ahi rv_memcfg].
  change (2 ^ 32) with 4294967296. rewrite Hy.
  replace ((16384 <=? y) && (y <? 4294967296)) with false by lia. reflexivity.
Qed.

Lemma write_cell_loc m a v y : a mod 4294967296 = y -> 16384 <= y ->
  write_cell rv_memcfg m a v = Ok (mset m y v).
Proof.
  intros Hy Hlo. unfold write_cell, eff_addr, in_range. cbn [aovf alen alo ahi rv_memcfg].
  change (2 ^ 32) with 4294967296. rewrite Hy.
  replace ((16384 <=? y) && (y <? 4294967296)) with true by lia. reflexivity.
Qed.

Lemma write_cell_bad m a v y : a mod 4294967296 = y -> y < 16384 ->
  write_cell rv_memcfg m a v = Err (aerr y).
Proof.
  intros Hy Hlo. unfold write_cell, eff_addr, in_range. cbn [aovf alen alo ahi rv_memcfg].
  change (2 ^ 32) with 4294967296. rewrite Hy.
  replace ((16384 <=? y) && (y <? 4294967296)) with false by lia. reflexivity.
Qed.

Lemma read_mult_loc m : forall k a i acc y,
  0 <= i -> 0 <= acc < 2 ^ (8 * i) ->
  (forall j, 0 <= j < Z.of_nat k -> (a + (i + j)) mod 4294967296 = y + j) ->
  16384 <= y ->
  (forall j, 0 <= j < Z.of_nat k -> 0 <= mget m (y + j) < 256) ->
  read_mult rv_memcfg m a k i acc = Ok (acc + 2 ^ (8 * i) * le_bytes (mget m) y k).
Proof.
  induction k as [|k IH]; intros a i acc y Hi Hacc Haddr Hlo Hb; cbn [read_mult le_bytes].
  - f_equal. lia.
  - pose proof (Haddr 0 ltac:(lia)) as H0. replace (i + 0) with i in H0 by lia.
    replace (y + 0) with y in H0 by lia.
    rewrite (read_cell_loc m (a + i) y H0 Hlo).
    pose proof (Hb 0 ltac:(lia)) as Hb0. replace (y + 0) with y in Hb0 by lia.
    change (cw rv_memcfg) with 8.
    rewrite lor_add_disjoint; [| lia | replace (i * 8) with (8 * i) by lia; exact Hacc | lia].
    replace (i * 8) with (8 * i) by lia.
    assert (P: 0 < 2 ^ (8 * i)) by (apply p2pos; lia).
    rewrite (IH a (i + 1) _ (y + 1)).
    + f_equal. rewrite pow8S by lia. ring.
    + lia.
    + rewrite pow8S by lia. nia.
    + intros j Hj. replace (i + 1 + j) with (i + (j + 1)) by lia.
      replace (y + 1 + j) with (y + (j + 1)) by lia. apply Haddr. lia.
    + lia.
    + intros j Hj. replace (y + 1 + j) with (y + (j + 1)) by lia. apply Hb. lia.
Qed.

Lemma ncells_rv k : ncells rv_memcfg (8 * Z.of_nat k) = k.
Proof.
  unfold ncells. change (cw rv_memcfg) with 8.
  replace (8 * Z.of_nat k / 8) with (Z.of_nat k) by lia. apply Nat2Z.id.
Qed.

(* a successful access: the k cells start at y = a mod 2^32, all inside [2^14, 2^32) *)
Lemma mem_read_loc m nbits k a y :
  nbits = 8 * Z.of_nat k -> a mod 4294967296 = y -> 16384 <= y -> y + Z.of_nat k <= 4294967296 ->
  (forall j, 0 <= j < Z.of_nat k -> 0 <= mget m (y + j) < 256) ->
  mem_read rv_memcfg m nbits a = Ok (le_bytes (mget m) y k).
Proof.
  intros -> Hy Hlo Hhi Hb. unfold mem_read. rewrite ncells_rv.
  rewrite (read_mult_loc m k a 0 0 y); try lia; try assumption.
  change (2 ^ (8 * 0)) with 1. f_equal. unfold U.
  pose proof (le_bytes_range (mget m) k y Hb). rewrite Z.add_0_l, Z.mul_1_l.
  apply Z.mod_small. assumption.
Qed.

Lemma mem_read_bad m nbits k a y :
  nbits = 8 * Z.of_nat k -> (0 < k)%nat -> a mod 4294967296 = y -> y < 16384 ->
  mem_read rv_memcfg m nbits a = Err (aerr y).
Proof.
  intros -> Hk Hy Hlo. unfold mem_read. rewrite ncells_rv.
  destruct k as [|k]; [lia|]. cbn [read_mult].
  rewrite (read_cell_bad m (a + 0) y); [reflexivity | rewrite Z.add_0_r; exact Hy | exact Hlo].
Qed.

Lemma write_mult_loc : forall k m a i v y,
  (forall j, 0 <= j < Z.of_nat k -> (a + (i + j)) mod 4294967296 = y + j) ->
  16384 <= y ->
  snd (write_mult rv_memcfg m a k i v) = None /\
  forall z, mget (fst (write_mult rv_memcfg m a k i v)) z =
            if (y <=? z) && (z <? y + Z.of_nat k) then byte_of v (z - y) else mget m z.
Proof.
  induction k as [|k IH]; intros m a i v y Haddr Hlo; cbn [write_mult].
  - split; [reflexivity|]. intros z. cbn [fst].
    replace ((y <=? z) && (z <? y + Z.of_nat 0)) with false by lia. reflexivity.
  - pose proof (Haddr 0 ltac:(lia)) as H0. replace (i + 0) with i in H0 by lia.
    replace (y + 0) with y in H0 by lia.
    rewrite (write_cell_loc m (a + i) _ y H0 Hlo).
    change (cw rv_memcfg) with 8. change (2 ^ 8 - 1) with 255. rewrite land_255, shr_div by lia.
    change (2 ^ 8) with 256.
    destruct (IH (mset m y (v mod 256)) a (i + 1) (v / 256) (y + 1)) as [IH1 IH2].
    + intros j Hj. replace (i + 1 + j) with (i + (j + 1)) by lia.
      replace (y + 1 + j) with (y + (j + 1)) by lia. apply Haddr. lia.
    + lia.
    + split; [exact IH1|]. intros z. rewrite IH2.
      destruct (Z.eq_dec z y) as [->|Hne].
      * replace ((y + 1 <=? y) && (y <? y + 1 + Z.of_nat k)) with false by lia.
        replace ((y <=? y) && (y <? y + Z.of_nat (S k))) with true by lia.
        rewrite mget_mset_eq. replace (y - y) with 0 by lia. rewrite byte_of_0. reflexivity.
      * rewrite mget_mset_neq by lia.
        destruct ((y + 1 <=? z) && (z <? y + 1 + Z.of_nat k)) eqn:E.
        -- replace ((y <=? z) && (z <? y + Z.of_nat (S k))) with true by lia.
           rewrite byte_of_div by lia. f_equal. lia.
        -- replace ((y <=? z) && (z <? y + Z.of_nat (S k))) with false by lia. reflexivity.
Qed.

Lemma mem_write_loc m nbits k a v y :
  nbits = 8 * Z.of_nat k -> a mod 4294967296 = y -> 16384 <= y -> y + Z.of_nat k <= 4294967296 ->
  snd (mem_write rv_memcfg m nbits a v) = None /\
  forall z, mget (fst (mem_write rv_memcfg m nbits a v)) z =
            if (y <=? z) && (z <? y + Z.of_nat k) then byte_of v (z - y) else mget m z.
Proof.
  intros -> Hy Hlo Hhi. unfold mem_write. rewrite ncells_rv.
  apply write_mult_loc; [|exact Hlo]. intros j Hj. lia.
Qed.

Lemma mem_write_bad m nbits k a v y :
  nbits = 8 * Z.of_nat k -> (0 < k)%nat -> a mod 4294967296 = y -> y < 16384 ->
  mem_write rv_memcfg m nbits a v = (m, Some (aerr y)).
Proof.
  intros -> Hk Hy Hlo. unfold mem_write. rewrite ncells_rv.
  destruct k as [|k]; [lia|]. cbn [write_mult].
  rewrite (write_cell_bad m (a + 0) _ y); [reflexivity | rewrite Z.add_0_r; exact Hy | exact Hlo].
Qed.

(** * Block transfers *)
Lemma read_words_loc m : forall n x,
  16384 <= x -> x + 4 * Z.of_nat n <= 4294967296 ->
  (forall j, 0 <= j < 4 * Z.of_nat n -> 0 <= mget m (x + j) < 256) ->
  exists ws, read_words m x n = Ok ws /\ length ws = n /\
    forall j, 0 <= j < Z.of_nat n -> nthZ ws j 0 = le_bytes (mget m) (x + 4 * j) 4.
Proof.
  induction n as [|n IH]; intros x Hlo Hhi Hb; cbn [read_words].
  - exists []. split; [reflexivity|]. split; [reflexivity|]. intros j Hj. lia.
  - rewrite (mem_read_loc m 32 4 x x); [| reflexivity | lia | lia | lia | intros j Hj; apply Hb; lia].
    destruct (IH (x + 4)) as [ws [E [Hlen Hnth]]]; [lia | lia | |].
    { intros j Hj. replace (x + 4 + j) with (x + (j + 4)) by lia. apply Hb. lia. }
    rewrite E. exists (le_bytes (mget m) x 4 :: ws). split; [reflexivity|].
    split; [cbn [length]; lia|]. intros j Hj.
    destruct (Z.eq_dec j 0) as [->|Hne].
    + rewrite nthZ_0. f_equal. lia.
    + rewrite nthZ_cons by lia. rewrite Hnth by lia. f_equal. lia.
Qed.

Lemma read_words_bad m n x : (0 < n)%nat -> 0 <= x < 16384 -> read_words m x n = Err (aerr x).
Proof.
  intros Hn Hx. destruct n as [|n]; [lia|]. cbn [read_words].
  rewrite (mem_read_bad m 32 4 x x); [reflexivity | reflexivity | lia | lia | lia].
Qed.

Lemma write_words_loc : forall ws m x,
  16384 <= x -> x + 4 * Z.of_nat (length ws) <= 4294967296 ->
  forall z, mget (write_words m x ws) z =
            if (x <=? z) && (z <? x + 4 * Z.of_nat (length ws))
            then byte_of (nthZ ws ((z - x) / 4) 0) ((z - x) mod 4) else mget m z.
Proof.
  induction ws as [|w t IH]; intros m x Hlo Hhi z; cbn [write_words length].
  - replace ((x <=? z) && (z <? x + 4 * Z.of_nat 0)) with false by lia. reflexivity.
  - cbn [length] in Hhi.
    destruct (mem_write_loc m 32 4 x w x) as [_ Hw]; [reflexivity | lia | lia | lia |].
    rewrite IH by lia. rewrite Hw.
    destruct ((x + 4 <=? z) && (z <? x + 4 + 4 * Z.of_nat (length t))) eqn:E1.
    + replace ((x <=? z) && (z <? x + 4 * Z.of_nat (S (length t)))) with true by lia.
      rewrite (nthZ_cons w t ((z - x) / 4)) by lia. f_equal; [f_equal|]; lia.
    + destruct ((x <=? z) && (z <? x + Z.of_nat 4)) eqn:E2.
      * replace ((x <=? z) && (z <? x + 4 * Z.of_nat (S (length t)))) with true by lia.
        replace ((z - x) / 4) with 0 by lia. rewrite nthZ_0. f_equal. lia.
      * replace ((x <=? z) && (z <? x + 4 * Z.of_nat (S (length t)))) with false by lia.
        reflexivity.
Qed.
(** * Address decoding *)
Definition geom_ok (ib bb : Z) : Prop := 0 <= ib /\ 0 <= bb <= 12 /\ ib + bb + 2 <= 32.
Definition bsize (bb : Z) : Z := 2 ^ (bb + 2).

Lemma bsize_eq bb : 0 <= bb -> bsize bb = 4 * 2 ^ bb.
Proof. intros. unfold bsize. rewrite Z.pow_add_r by lia. change (2 ^ 2) with 4. ring. Qed.

Lemma bsize_pos bb : 0 <= bb -> 0 < bsize bb.
Proof. intros. apply p2pos. lia. Qed.

(* the block size divides 2^14 and 2^32 *)
Lemma bsize_div14 bb : 0 <= bb <= 12 -> 16384 = bsize bb * 2 ^ (12 - bb).
Proof.
  intros. unfold bsize. rewrite <- Z.pow_add_r by lia. replace (bb + 2 + (12 - bb)) with 14 by lia.
  reflexivity.
Qed.
Lemma bsize_div32 bb : 0 <= bb <= 12 -> 4294967296 = bsize bb * 2 ^ (30 - bb).
Proof.
  intros. unfold bsize. rewrite <- Z.pow_add_r by lia. replace (bb + 2 + (30 - bb)) with 32 by lia.
  reflexivity.
Qed.

Lemma decode_fields ib bb a : geom_ok ib bb ->
  let d := decode_addr ib bb a in
  let x := a mod 4294967296 in
  let q := x / bsize bb in
  da_full d = x /\ da_tag d = q / 2 ^ ib /\ da_idx d = q mod 2 ^ ib /\
  da_boff d = (x / 4) mod 2 ^ bb /\ da_byoff d = x mod 4 /\ da_balign d = q * bsize bb.
Proof.
  intros (Hib & Hbb & Hs). cbv zeta. unfold decode_addr.
  cbn [da_full da_tag da_idx da_boff da_byoff da_balign]. rewrite U32_eq.
  set (x := a mod 4294967296). unfold bsize.
  rewrite !shr_div, shl_mul by lia. rewrite !land_ones_mod by lia.
  change 3 with (2 ^ 2 - 1). rewrite land_ones_mod by lia. change (2 ^ 2) with 4.
  replace (2 + bb) with (bb + 2) by lia.
  repeat split.
  replace (ib + bb + 2) with ((bb + 2) + ib) by lia. rewrite Z.pow_add_r by lia.
  pose proof (p2pos (bb + 2)). pose proof (p2pos ib).
  rewrite Z.div_div by lia. reflexivity.
Qed.

Lemma decode_mod ib bb a : decode_addr ib bb (a mod 4294967296) = decode_addr ib bb a.
Proof.
  unfold decode_addr. rewrite !U32_eq. rewrite Z.mod_mod by lia. reflexivity.
Qed.

Lemma decode_spec ib bb a : geom_ok ib bb ->
  let d := decode_addr ib bb a in
  let x := a mod 4294967296 in
  x = da_balign d + 4 * da_boff d + da_byoff d /\
  0 <= da_boff d < 2 ^ bb /\ 0 <= da_byoff d < 4 /\ 0 <= da_idx d < 2 ^ ib /\ 0 <= da_tag d /\
  da_balign d = (da_tag d * 2 ^ ib + da_idx d) * bsize bb /\
  0 <= da_balign d /\ da_balign d + bsize bb <= 4294967296 /\
  (16384 <= x <-> 16384 <= da_balign d).
Proof.
  intros G. pose proof G as (Hib & Hbb & Hs). cbv zeta.
  destruct (decode_fields ib bb a G) as (_ & Ht & Hi & Hbo & Hby & Hba).
  rewrite Ht, Hi, Hbo, Hby, Hba. clear Ht Hi Hbo Hby Hba.
  set (x := a mod 4294967296). assert (Hx: 0 <= x < 4294967296) by (subst x; lia).
  pose proof (bsize_eq bb ltac:(lia)) as HB. pose proof (p2pos bb ltac:(lia)) as HP.
  pose proof (p2pos ib Hib) as HS.
  pose proof (bsize_div14 bb Hbb) as H14. pose proof (bsize_div32 bb Hbb) as H32.
  pose proof (p2pos (12 - bb) ltac:(lia)) as HK1. pose proof (p2pos (30 - bb) ltac:(lia)) as HK2.
  set (B := bsize bb) in *. set (P := 2 ^ bb) in *. set (S := 2 ^ ib) in *.
  set (K1 := 2 ^ (12 - bb)) in *. set (K2 := 2 ^ (30 - bb)) in *.
  assert (HBpos: 0 < B) by lia.
  pose proof (Z.div_mod x B ltac:(lia)) as Hdm. pose proof (Z.mod_pos_bound x B HBpos) as Hr.
  set (q := x / B) in *. set (r := x mod B) in *.
  assert (Hq: 0 <= q) by (subst q; apply Z.div_pos; lia).
  assert (Hx4: x / 4 = q * P + r / 4).
  { symmetry. apply (Z.div_unique x 4 (q * P + r / 4) (r mod 4)); [lia|].
    rewrite Hdm, HB. pose proof (Z.div_mod r 4 ltac:(lia)). lia. }
  assert (Hbo: (x / 4) mod P = r / 4).
  { rewrite Hx4. rewrite Z.add_comm, Z.mod_add by lia. apply Z.mod_small.
    split; [lia|]. apply Z.div_lt_upper_bound; lia. }
  assert (Hby: x mod 4 = r mod 4).
  { rewrite Hdm, HB. replace (4 * P * q + r) with (r + (P * q) * 4) by ring. apply Z.mod_add. lia. }
  rewrite Hbo, Hby.
  repeat split; try lia.
  - apply Z.div_pos; lia.
  - assert (q < K2) by nia. nia.
  - intros Hge. assert (K1 <= q) by nia. nia.
Qed.

(* same tag and index <-> same block-aligned address *)
Lemma same_block_iff ib bb a a' : geom_ok ib bb ->
  let d := decode_addr ib bb a in let d' := decode_addr ib bb a' in
  (da_tag d = da_tag d' /\ da_idx d = da_idx d') <-> da_balign d = da_balign d'.
Proof.
  intros G. cbv zeta.
  destruct (decode_spec ib bb a G) as (_ & _ & _ & Hi & Ht & Hba & _).
  destruct (decode_spec ib bb a' G) as (_ & _ & _ & Hi' & Ht' & Hba' & _).
  destruct G as (Hib & Hbb & Hs).
  pose proof (bsize_pos bb ltac:(lia)) as HB. pose proof (p2pos ib Hib) as HS.
  rewrite Hba, Hba'. set (B := bsize bb) in *. set (S := 2 ^ ib) in *.
  generalize dependent (da_tag (decode_addr ib bb a)). intros t Ht.
  generalize dependent (da_tag (decode_addr ib bb a')). intros t' Ht'.
  generalize dependent (da_idx (decode_addr ib bb a)). intros i Hi.
  generalize dependent (da_idx (decode_addr ib bb a')). intros i' Hi'.
  split.
  - intros [-> ->]. reflexivity.
  - intros E. assert (E2: t * S + i = t' * S + i') by nia.
    assert (t = t') by nia. subst t'. split; [reflexivity | lia].
Qed.

(* the addresses of a block are exactly those decoding to its block-aligned address *)
Lemma in_block_iff ib bb a a' : geom_ok ib bb ->
  let d := decode_addr ib bb a in let d' := decode_addr ib bb a' in
  let x' := a' mod 4294967296 in
  (da_balign d <= x' < da_balign d + bsize bb) <-> da_balign d' = da_balign d.
Proof.
  intros G. cbv zeta.
  destruct (decode_spec ib bb a G) as (_ & _ & _ & Hi & Ht & Hba & _).
  destruct (decode_spec ib bb a' G) as (Hx' & Hbo' & Hby' & Hi' & Ht' & Hba' & _).
  destruct G as (Hib & Hbb & Hs).
  pose proof (bsize_pos bb ltac:(lia)) as HB. pose proof (bsize_eq bb ltac:(lia)) as HB4.
  pose proof (p2pos ib Hib) as HS. pose proof (p2pos bb ltac:(lia)) as HP.
  rewrite Hx'. rewrite Hba, Hba'. rewrite Hba' in Hx'.
  set (B := bsize bb) in *. set (S := 2 ^ ib) in *. set (P := 2 ^ bb) in *.
  set (Q := da_tag (decode_addr ib bb a) * S + da_idx (decode_addr ib bb a)) in *.
  set (Q' := da_tag (decode_addr ib bb a') * S + da_idx (decode_addr ib bb a')) in *.
  split.
  - intros H. assert (E: Q = Q') by nia. rewrite E. reflexivity.
  - intros E. rewrite <- E. lia.
Qed.

(* moving inside one word keeps the block and the word, and shifts the byte offset *)
Lemma decode_same_word ib bb a j : geom_ok ib bb ->
  let d := decode_addr ib bb a in let d' := decode_addr ib bb (a mod 4294967296 + j) in
  0 <= j -> da_byoff d + j < 4 ->
  (a mod 4294967296 + j) mod 4294967296 = a mod 4294967296 + j /\
  da_tag d' = da_tag d /\ da_idx d' = da_idx d /\ da_balign d' = da_balign d /\
  da_boff d' = da_boff d /\ da_byoff d' = da_byoff d + j.
Proof.
  intros G. cbv zeta. intros Hj Hlt.
  destruct (decode_spec ib bb a G) as (Hx & Hbo & Hby & _ & _ & _ & Hba0 & Hbahi & _).
  pose proof (bsize_eq bb ltac:(destruct G; lia)) as HB4.
  assert (Hm: (a mod 4294967296 + j) mod 4294967296 = a mod 4294967296 + j).
  { apply Z.mod_small. lia. }
  destruct (decode_spec ib bb (a mod 4294967296 + j) G) as (Hx' & Hbo' & Hby' & _).
  rewrite Hm in Hx'.
  assert (Hba: da_balign (decode_addr ib bb (a mod 4294967296 + j)) = da_balign (decode_addr ib bb a)).
  { apply (in_block_iff ib bb a (a mod 4294967296 + j) G). rewrite Hm. lia. }
  pose proof (proj2 (same_block_iff ib bb (a mod 4294967296 + j) a G) Hba) as [Et Ei].
  repeat split; try assumption; lia.
Qed.

(** * Access widths *)
Definition okw (nbits : Z) : Prop := nbits = 8 \/ nbits = 16 \/ nbits = 32.
Definition kof (nbits : Z) : nat := Z.to_nat (nbits / 8).

Lemma okw_kof nbits : okw nbits -> nbits = 8 * Z.of_nat (kof nbits) /\ (0 < kof nbits)%nat /\
  (kof nbits = 1 \/ kof nbits = 2 \/ kof nbits = 4)%nat.
Proof. intros [-> | [-> | ->]]; cbv; repeat split; auto. Qed.

(** * from_block / into_block against bytes *)
Lemma from_block_in nbits da blk : okw nbits ->
  0 <= da_byoff da -> da_byoff da + Z.of_nat (kof nbits) <= 4 ->
  0 <= nthZ blk (da_boff da) 0 < 4294967296 ->
  from_block nbits da blk = Ok (le_bytes (byte_of (nthZ blk (da_boff da) 0)) (da_byoff da) (kof nbits)).
Proof.
  intros Hw Ho Hk Hr. unfold from_block. set (w := nthZ blk (da_boff da) 0) in *.
  set (o := da_byoff da) in *.
  destruct Hw as [-> | [-> | ->]].
  - change (8 =? 8) with true. cbv iota. change (kof 8) with 1%nat. f_equal.
    rewrite extract8 by lia. cbn [le_bytes]. lia.
  - change (16 =? 8) with false. change (16 =? 16) with true. cbv iota.
    change (kof 16) with 2%nat in *. replace (o >? 2) with false by lia.
    f_equal. rewrite U16_eq. change 65536 with (2 ^ (8 * Z.of_nat 2)). apply extract_le. lia.
  - change (32 =? 8) with false. change (32 =? 16) with false. cbv iota.
    change (kof 32) with 4%nat in *. replace (o =? 0) with true by lia. cbn [negb].
    f_equal. replace o with 0 by lia. symmetry. apply word_bytes. exact Hr.
Qed.

Lemma from_block_cross nbits da blk : okw nbits ->
  0 <= da_byoff da < 4 -> da_byoff da + Z.of_nat (kof nbits) > 4 ->
  from_block nbits da blk = Err (EOffset (da_byoff da) (4 - Z.of_nat (kof nbits))).
Proof.
  intros Hw Ho Hk. unfold from_block. set (o := da_byoff da) in *.
  destruct Hw as [-> | [-> | ->]].
  - change (kof 8) with 1%nat in *. lia.
  - change (16 =? 8) with false. change (16 =? 16) with true. cbv iota.
    change (kof 16) with 2%nat in *. replace (o >? 2) with true by lia. reflexivity.
  - change (32 =? 8) with false. change (32 =? 16) with false. cbv iota.
    change (kof 32) with 4%nat in *. replace (o =? 0) with false by lia. reflexivity.
Qed.

Lemma into_block_in nbits da blk v : okw nbits ->
  0 <= da_byoff da -> da_byoff da + Z.of_nat (kof nbits) <= 4 -> 0 <= v < 2 ^ nbits ->
  exists w', into_block nbits da blk v = Ok (set_nthZ blk (da_boff da) w') /\
    0 <= w' < 4294967296 /\
    forall o', 0 <= o' < 4 ->
      byte_of w' o' = if (da_byoff da <=? o') && (o' <? da_byoff da + Z.of_nat (kof nbits))
                      then byte_of v (o' - da_byoff da)
                      else byte_of (nthZ blk (da_boff da) 0) o'.
Proof.
  intros Hw Ho Hk Hv. unfold into_block. set (w := nthZ blk (da_boff da) 0) in *.
  set (o := da_byoff da) in *.
  destruct Hw as [-> | [-> | ->]].
  - change (8 =? 8) with true. cbv iota. change (kof 8) with 1%nat in *.
    eexists. split; [reflexivity|]. split; [apply U32_range|].
    intros o' Ho'. change 255 with (2 ^ (8 * 1) - 1). apply merge_bytes; lia.
  - change (16 =? 8) with false. change (16 =? 16) with true. cbv iota.
    change (kof 16) with 2%nat in *. replace (o >? 2) with false by lia.
    eexists. split; [reflexivity|]. split; [apply U32_range|].
    intros o' Ho'. change 65535 with (2 ^ (8 * 2) - 1). apply merge_bytes; lia.
  - change (32 =? 8) with false. change (32 =? 16) with false. cbv iota.
    change (kof 32) with 4%nat in *. replace (o =? 0) with true by lia. cbn [negb].
    exists v. split; [reflexivity|]. split; [exact Hv|].
    intros o' Ho'. replace ((o <=? o') && (o' <? o + Z.of_nat 4)) with true by lia.
    f_equal. lia.
Qed.

Lemma into_block_cross nbits da blk v : okw nbits ->
  0 <= da_byoff da < 4 -> da_byoff da + Z.of_nat (kof nbits) > 4 ->
  into_block nbits da blk v = Err (EOffset (da_byoff da) (4 - Z.of_nat (kof nbits))).
Proof.
  intros Hw Ho Hk. unfold into_block. set (o := da_byoff da) in *.
  destruct Hw as [-> | [-> | ->]].
  - change (kof 8) with 1%nat in *. lia.
  - change (16 =? 8) with false. change (16 =? 16) with true. cbv iota.
    change (kof 16) with 2%nat in *. replace (o >? 2) with true by lia. reflexivity.
  - change (32 =? 8) with false. change (32 =? 16) with false. cbv iota.
    change (kof 32) with 4%nat in *. replace (o =? 0) with false by lia. reflexivity.
Qed.

(* the write-through pre-check is exactly the cross-word test *)
Lemma wt_precheck nbits o : okw nbits -> 0 <= o < 4 ->
  ((nbits =? 16) && (o >? 2) = true \/ (nbits =? 32) && negb (o =? 0) = true) <->
  o + Z.of_nat (kof nbits) > 4.
Proof.
  intros [-> | [-> | ->]] Ho.
  - change (kof 8) with 1%nat. cbn. lia.
  - change (kof 16) with 2%nat. change (16 =? 16) with true. change (16 =? 32) with false. cbn [andb]. lia.
  - change (kof 32) with 4%nat. change (32 =? 16) with false. change (32 =? 32) with true. cbn [andb]. lia.
Qed.
