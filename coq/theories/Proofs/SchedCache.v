(* SchedCache.v — the timing theorem of C07 (Props/C07Sched.v) for EVERY memory configuration:
   with any data cache and any instruction cache the pipeline makes the same steps as on flat memory
   (the caches only add their miss penalties to the cycle counter).  The cached pipeline is tied to
   its flattened copy by the simulation [sim] of Proofs/LiftSim.v, step by step
   ([sim_pipe_step], Proofs/LiftPipeRun.v); the cycle counter follows from the conserved quantity
   [Phi] of Proofs/PipeLaws.v. *)
From Coq Require Import Lia ZifyBool.
From ArchSim Require Import Spec.RefCache.
From ArchSim Require Import Model.Base Model.Mem Model.Cache Model.Fmt Model.RV Model.Single
  Model.RVSplit Model.Pipe Proofs.CacheArith Proofs.CacheInv Proofs.C01Step Proofs.SplitExec
  Proofs.PipeLaws Proofs.PipeShape Proofs.PipeInv
  Proofs.LiftFlat Proofs.LiftAccess Proofs.LiftSim Proofs.LiftSingle Proofs.LiftPipe Proofs.LiftPipeRun
  Proofs.LiftRefine Proofs.SchedDefs Proofs.SchedMain.
Open Scope Z_scope.

Local Arguments Z.of_nat : simpl never.
Local Arguments Z.add : simpl never.
Local Arguments Z.mul : simpl never.
Local Arguments Z.sub : simpl never.

(** * The cycle law summed over a run *)
Lemma pipe_run_Phi fuel : forall p,
  Phi (pst (fst (pipe_run fuel p))) = Phi (pst p) + Z.of_nat (pipe_run_steps fuel p) /\
  dpen (pst (fst (pipe_run fuel p))) = dpen (pst p) /\ ipen (pst (fst (pipe_run fuel p))) = ipen (pst p).
Proof.
  induction fuel as [|k IH]; intros p; cbn [pipe_run pipe_run_steps].
  - cbn [fst]. repeat split; lia.
  - destruct (pipe_done p); [cbn [fst]; repeat split; lia|].
    destruct (step_Phi p) as (HP & Hd & Hi).
    destruct (pipe_step p) as [p' [f|]]; cbn [fst] in *.
    + repeat split; try assumption; lia.
    + destruct (IH p') as (HP' & Hd' & Hi'). repeat split; try congruence; lia.
Qed.

Lemma pipe_run_cycles_gen fuel p :
  let s := pst p in let s' := pst (fst (pipe_run fuel p)) in
  cycles s' = cycles s + Z.of_nat (pipe_run_steps fuel p)
              + ipen s * ((iacc s' - iacc s) - (ihit s' - ihit s))
              + dpen s * ((dacc s' - dacc s) - (dhit s' - dhit s)).
Proof.
  cbv zeta. destruct (pipe_run_Phi fuel p) as (HP & Hd & Hi). unfold Phi in HP. rewrite Hd, Hi in HP. lia.
Qed.

(** * A run that ends [PDone] never faults with any other fuel *)
Lemma pipe_run_done_nofault a : forall p p', pipe_run a p = (p', PDone) ->
  forall b p'' f, pipe_run b p <> (p'', PFaulted f).
Proof.
  induction a as [|a IH]; intros p p' H b p'' f; cbn [pipe_run] in H.
  - destruct (pipe_done p) eqn:Hd; [|discriminate H].
    destruct b; cbn [pipe_run]; rewrite Hd; discriminate.
  - destruct (pipe_done p) eqn:Hd.
    + destruct b; cbn [pipe_run]; rewrite Hd; discriminate.
    + destruct (pipe_step p) as [p1 [g|]] eqn:Hs; [discriminate H|].
      destruct b; cbn [pipe_run]; rewrite Hd; [discriminate|]. rewrite Hs. apply (IH p1 p' H).
Qed.

(** * The simulation along a run that does not fault: same outcome, same steps, same retirements *)
Lemma sim_retire n : forall t0 p tt, sim (pst p) tt ->
  (forall p' f, pipe_run n p <> (p', PFaulted f)) ->
  pipe_retire_from t0 n (with_pst p tt) = pipe_retire_from t0 n p /\
  pipe_run_steps n (with_pst p tt) = pipe_run_steps n p /\
  snd (pipe_run n (with_pst p tt)) = snd (pipe_run n p).
Proof.
  induction n as [|n IH]; intros t0 p tt Hsim Hnf;
    cbn [pipe_run pipe_retire_from pipe_run_steps] in *; rewrite (sim_pipe_done p tt Hsim) in *.
  - repeat split.
  - destruct (pipe_done p) eqn:Hd; [repeat split|].
    destruct (pipe_step p) as [p1 of] eqn:Hs.
    destruct (sim_pipe_step p tt p1 of Hsim Hs) as [_ [(t1 & of' & Ht & S1 & Eo & _ & _)|Hrej]].
    2:{ exfalso. destruct Hrej as (z & e & _ & _ & ->). apply (Hnf p1 _ eq_refl). }
    destruct of as [f|]; [exfalso; apply (Hnf p1 f eq_refl)|].
    destruct of' as [ff|]; [discriminate Eo|]. rewrite Ht.
    destruct (IH (S t0) p1 t1 S1 Hnf) as (Hr & Hst & Ho).
    cbn [with_pst lat]. rewrite Hr, Hst, Ho. repeat split.
Qed.

(** * The events of the single-cycle run do not depend on the caches *)
Lemma sim_ev_of s t s1 t1 : sim s t -> sim s1 t1 -> nxt s = s1 -> nxt t = t1 -> ev_of s = ev_of t.
Proof.
  intros S S1 Hn Ht. unfold ev_of. rewrite (sm_prog _ _ S), (sm_pc _ _ S).
  destruct (instr_at (prog (im t)) (pc t)) as [i|]; [|reflexivity].
  unfold ev_instr. rewrite Hn, Ht, (sm_pc _ _ S), (sm_bc _ _ S), (sm_bc _ _ S1), (sm_exit _ _ S1).
  rewrite !SchedStep.rf_ra1_src, !SchedStep.rf_ra2_src. reflexivity.
Qed.

Lemma sim_single_events n : forall s t s', sim s t -> single_run n s = (s', Done) ->
  single_events n s = single_events n t /\ single_trace n s = single_trace n t.
Proof.
  induction n as [|n IH]; intros s t s' Hsim H; cbn [single_run single_events single_trace] in *;
    rewrite <- ?(sim_single_done s t Hsim).
  - split; reflexivity.
  - destruct (single_done s) eqn:Hd; [split; reflexivity|].
    destruct (single_pipeline_step s) as [s1 of] eqn:Hs.
    destruct of as [f|]; [discriminate H|].
    destruct (sim_single_step s t s1 None Hsim Hs) as (t1 & of' & Ht & _ & Hres).
    assert (Hok : of' = None /\ sim s1 t1).
    { destruct (instr_at (prog (im s)) (pc s)) as [i|]; [|destruct Hres as (_ & -> & S1); split; [reflexivity|exact S1]].
      destruct (rejects (ms_cfg (ms s)) i s) as [e|]; [destruct Hres as [Hc _]; discriminate Hc|].
      destruct Hres as [Eo S1]. destruct of'; [discriminate Eo|]. split; [reflexivity|exact S1]. }
    destruct Hok as [-> S1]. rewrite Ht.
    destruct (IH s1 t1 s' S1 H) as [He Htr]. rewrite He, Htr, (sm_pc _ _ Hsim).
    rewrite (sim_ev_of s t s1 t1 Hsim S1) by (unfold nxt; rewrite ?Hs, ?Ht; reflexivity).
    split; reflexivity.
Qed.

(** * The theorem *)
Theorem pipe_schedule_caches_lem s n s' :
  cwf s -> Forall (fun i => supported i = true) (prog (im s)) ->
  single_run n s = (s', Done) ->
  exists c p,
    pipe_run c (pipe_init s true) = (p, PDone) /\
    pipe_run_steps c (pipe_init s true) = c /\
    pipe_retire c (pipe_init s true) = combine (single_trace n s) (schedule (single_events n s)) /\
    c = total_cycles (schedule (single_events n s)) /\
    cycles (pst p) = cycles s + Z.of_nat c
                     + ipen s * ((iacc (pst p) - iacc s) - (ihit (pst p) - ihit s))
                     + dpen s * ((dacc (pst p) - dacc s) - (dhit (pst p) - dhit s)).
Proof.
  intros W HS Hrun. pose proof (cwf_cache_ok s W) as Hok. pose proof (sim_flatten s Hok) as Hsim.
  (* the flat single-cycle run: same outcome, same events *)
  pose proof (sim_single_run n s (flatten s) Hsim) as Hfl. unfold run_goal in Hfl. rewrite Hrun in Hfl.
  destruct Hfl as (t' & Hrunf & _).
  destruct (sim_single_events n s (flatten s) s' Hsim Hrun) as [Hev Htr].
  (* the flat pipeline: the timing theorem *)
  assert (HSf : Forall (fun i => supported i = true) (prog (im (flatten s)))) by exact HS.
  destruct (pipe_schedule_lem _ (flatten s) n t' HSf (cwf_flatten s W) eq_refl Hrunf)
    as (c & q & Hq & Hret & Hc & Hcy).
  rewrite <- Hev in Hret, Hc. rewrite <- Htr in Hret.
  destruct (wf_flat _ (cwf_flatten s W)) as [mm Hm].
  pose proof (pipe_run_cycles_flat c (pipe_init (flatten s) true) mm Hm (wf_noic _ (cwf_flatten s W))) as Hst.
  rewrite Hq in Hst. cbn [fst] in Hst. change (pst (pipe_init (flatten s) true)) with (flatten s) in Hst.
  assert (Hsteps : pipe_run_steps c (pipe_init (flatten s) true) = c) by lia.
  (* the cached pipeline does not fault ... *)
  pose proof (pipe_refines_single_caches_lem s n W HS) as Href. rewrite Hrun in Href.
  destruct Href as (c0 & p0 & _ & Hp0 & _).
  pose proof (pipe_run_done_nofault c0 _ _ Hp0 c) as Hnf.
  (* ... so it makes the same steps as the flat one *)
  destruct (sim_retire c 0%nat (pipe_init s true) (flatten s) Hsim Hnf) as (Hr & Hs & Ho).
  change (with_pst (pipe_init s true) (flatten s)) with (pipe_init (flatten s) true) in Hr, Hs, Ho.
  rewrite Hq in Ho. cbn [snd] in Ho.
  destruct (pipe_run c (pipe_init s true)) as [p e] eqn:Hp. cbn [snd] in Ho. subst e.
  exists c, p. split; [exact Hp|]. split; [congruence|].
  split; [unfold pipe_retire in *; rewrite <- Hr; exact Hret|]. split; [exact Hc|].
  pose proof (pipe_run_cycles_gen c (pipe_init s true)) as Hg. cbv zeta in Hg.
  rewrite Hp in Hg. cbn [fst] in Hg. change (pst (pipe_init s true)) with s in Hg.
  rewrite Hg. rewrite <- Hs, Hsteps. reflexivity.
Qed.
Print Assumptions pipe_schedule_caches_lem.

Lemma single_events_flatten n s s' : cache_ok s -> single_run n s = (s', Done) ->
  single_events n s = single_events n (flatten s) /\ single_trace n s = single_trace n (flatten s).
Proof. intros H. exact (sim_single_events n s (flatten s) s' (sim_flatten s H)). Qed.
