(* PipeInvControl.v — stage 3 of the control-path proof of C02: the invariant of PipeInv.v is
   preserved by every pipeline step for programs WITHOUT ecalls: straight-line instructions plus
   taken / not-taken branches, jal and jalr.  New relative to PipeInvStraight.v: the flush raised
   by MEM (latch 3) clears the wrong-path slots in latches 0..2, redirects the fetch and cancels
   an interlock stall; wrong-path slots are decoded and executed without architectural effect. *)
From Coq Require Import Lia ZifyBool Wf_nat.
From ArchSim Require Import Model.Base Model.Mem Model.Cache Model.Fmt Model.RV Model.Single
  Model.RVSplit Model.Pipe Proofs.WordLemmas Proofs.C01Step Proofs.SplitExec Proofs.C02Split
  Proofs.PipeLaws Proofs.PipeShape Proofs.PipeInv Proofs.PipeInvBase Proofs.PipeInvStages
  Proofs.PipeInvStraight.
Open Scope Z_scope.

Ltac Zify.zify_post_hook ::= Z.to_euclidean_division_equations.
Local Arguments Z.mul : simpl never.
Local Arguments Z.add : simpl never.
Local Arguments Z.sub : simpl never.
Local Arguments Z.div : simpl never.
Local Arguments Z.modulo : simpl never.
Local Arguments Z.land : simpl never.
Local Arguments Z.shiftl : simpl never.
Local Arguments Z.shiftr : simpl never.
Local Arguments Z.pow : simpl never.
Local Arguments Z.of_nat : simpl never.

(** * Everything but ecall *)
Definition noecall (i : instr) : bool := supported i && negb (is_ecall i).

Lemma noecall_supported i : noecall i = true -> supported i = true.
Proof. unfold noecall. intros H. apply Bool.andb_true_iff in H. apply H. Qed.
Lemma noecall_not_ecall i : noecall i = true -> is_ecall i = false.
Proof. unfold noecall. intros H. apply Bool.andb_true_iff in H. destruct H as [_ H]. destruct (is_ecall i); [discriminate|reflexivity]. Qed.

(* they touch neither the output nor the exit code *)
Lemma behavior_noecall i s : noecall i = true ->
  out (fst (behavior i s)) = out s /\ exitc (fst (behavior i s)) = exitc s.
Proof.
  intros Hn. destruct i; try discriminate Hn; cbn [behavior fst];
    try (match goal with |- context [rset s ?r ?v] =>
           destruct (rset_fields s r v) as (_ & _ & _ & Ho & He & _) end; stf; split; assumption).
  - match goal with |- context [st_read ?a ?b ?c ?d] =>
      destruct (st_read a b c d) as [[v|e] s'] eqn:E end;
      apply st_read_mframe, mframe_out_exit in E; cbn [fst]; [|split; apply E].
    match goal with |- context [rset s' ?r ?v] =>
      destruct (rset_fields s' r v) as (_ & _ & _ & Ho & He & _) end.
    destruct E as (E1 & E2 & _). split; congruence.
  - match goal with |- context [st_write ?a ?b ?c ?d ?g] =>
      destruct (st_write a b c d g) as [[e|] s'] eqn:E end;
      apply st_write_mframe, mframe_out_exit in E; cbn [fst]; split; apply E.
  - destruct (b_cond _ _ _); cbn [fst]; split; reflexivity.
Qed.

(* the redirect MEM requests is the control transfer of the single-cycle machine *)
Lemma mem_flush_redirects t x2 : Eok t x2 -> sl_stall x2 = false -> noecall (sl_instr x2) = true ->
  (mem_flush x2 = None <-> redirects (sl_instr x2) t = false).
Proof.
  unfold Eok. intros He Hst Hn. rewrite Hst in He. destruct He as [te He].
  remember (sl_instr x2) as i eqn:Ei. rewrite ex_on_some in He.
  change (sl_instr (dsl t i)) with i in He. rewrite (noecall_not_ecall i Hn) in He.
  destruct (alu_compute i (ex_in1 (dsl t i)) (ex_in2 (dsl t i))) as [[cmp res]|e] eqn:Ha; [|discriminate He].
  injection He as Hx2 _. unfold mem_flush. rewrite <- Ei. rewrite <- Hx2.
  cbn [ex_slot sl_cmp sl_pcimm sl_result sl_exit].
  destruct i; try discriminate Hn; cbn [signals sig c_branch c_jump c_alu_to_pc redirects andb orb];
    try (split; reflexivity).
  all: cbn in Ha.
  - injection Ha as _ <-. split; discriminate.
  - injection Ha as <- _. rewrite b_alu_cond. change (rget (pre t)) with (rget t).
    destruct (b_cond o (rget t rs1) (rget t rs2)); cbn; split; try reflexivity; discriminate.
  - cbn. split; discriminate.
Qed.

Section Control.
Variable P : list instr.
Hypothesis HC : Forall (fun i => noecall i = true) P.

Lemma Hsupc : Forall (fun i => supported i = true) P.
Proof. eapply Forall_impl; [|exact HC]. intros i. apply noecall_supported. Qed.

Lemma ne_at a i : instr_at P a = Some i -> noecall i = true.
Proof. intros H. rewrite Forall_forall in HC. apply HC. eapply instr_at_In; eauto. Qed.

Lemma nxt_noecall t i : wf t -> prog (im t) = P -> instr_at P (pc t) = Some i ->
  out (nxt t) = out t /\ exitc (nxt t) = exitc t.
Proof.
  intros W HP Hi. pose proof (ne_at _ _ Hi) as Hn. rewrite <- HP in Hi.
  unfold nxt. rewrite (sstep_eq t i W Hi).
  pose proof (behavior_noecall i (pre t) Hn) as H.
  destruct (behavior i (pre t)) as [s2 [e|]]; cbn [fst] in *; stf; exact H.
Qed.

Lemma okstep_noecall t i : wf t -> prog (im t) = P -> exitc t = None -> instr_at P (pc t) = Some i ->
  snd (single_pipeline_step t) = None -> okstep t.
Proof.
  intros W HP Hex Hi Hok. destruct (nxt_noecall t i W HP Hi) as (_ & He). split; [exact Hok|congruence].
Qed.

Lemma adv_out_c t l : wf t -> prog (im t) = P ->
  match l with Some x => onp P t x | None => True end -> out (adv l t) = out t.
Proof.
  intros W HP Hl. destruct l as [x|]; [|reflexivity]. destruct Hl as (_ & _ & Hi).
  cbn [adv nonempty]. apply (nxt_noecall t _ W HP Hi).
Qed.

Lemma ex_latch_c l1 l2 l3 s : Dsh_latch l1 -> L1ok P l1 ->
  exists n2, ex_on l1 l2 l3 s = (n2, s, None) /\ nonempty n2 = nonempty l1 /\
    has_stall n2 = false /\ flush_of n2 = None /\ fired n2 = nonempty n2 /\
    match l1, n2 with
    | Some x1, Some x2 => sl_instr x2 = sl_instr x1 /\ sl_addr x2 = sl_addr x1 /\
                          forall t, Dok t x1 -> Eok t x2
    | None, None => True
    | _, _ => False
    end.
Proof.
  intros D1 K1. destruct l1 as [x1|].
  2:{ exists None. rewrite ex_on_none. repeat split. }
  destruct K1 as (R & _). pose proof (ne_at _ _ R) as Hn.
  destruct (ex_stage x1 l2 l3 s D1 (noecall_supported _ Hn) (noecall_not_ecall _ Hn))
    as (x2 & He & Hi & Ha & Hst & Hf & _ & Hd).
  exists (Some x2). cbn [nonempty has_stall flush_of fired]. rewrite Hst.
  repeat split; assumption.
Qed.

Lemma fired_c l2 : L2ok P l2 -> fired l2 = nonempty l2.
Proof.
  destruct l2 as [x|]; [|reflexivity]. intros (R & _ & _ & _ & Hst). cbn [fired nonempty].
  destruct (sl_stall x) eqn:E; [|reflexivity]. destruct (Hst eq_refl) as [Hi _].
  pose proof (ne_at _ _ R) as Hs. rewrite Hi in Hs. discriminate Hs.
Qed.


(* a MEM that went through: either no redirect and the slot was plain, or a flush to the
   single-cycle successor *)
Lemma mem_ok_cases dead t l2 n3 : L2ok P l2 -> prog (im t) = P -> lv P True (dead = 3%nat) t l2 Eok ->
  match l2, n3 with
  | Some x2, Some x3 =>
      Mok t x3 /\ sl_instr x3 = sl_instr x2 /\ sl_addr x3 = sl_addr x2 /\
      sl_flush x3 = mem_flush x2 /\ sl_exit x3 = sl_exit x2 /\
      snd (single_pipeline_step t) = None /\
      exitc (nxt t) = match sl_exit x3 with Some c => Some c | None => None end /\
      pc (nxt t) = match sl_flush x3 with Some a => a | None => pc t + 4 end
  | None, None => True
  | _, _ => False
  end ->
  lv3 P t n3 /\ okl P t l2 /\
  ((flush_of n3 = None /\ dead <> 3%nat) \/
   (exists a, flush_of n3 = Some a /\ nonempty n3 = true /\ pc (nxt t) = a /\ wf (nxt t) /\
              prog (im (nxt t)) = P /\ exitc (nxt t) = None)).
Proof.
  intros K2 HP2 L2 Hrel3. destruct l2 as [x2|], n3 as [x3|]; try contradiction.
  2:{ split; [exact Logic.I|]. split; [exact Logic.I|]. left. split; [reflexivity|exact L2]. }
  destruct Hrel3 as (HMok & Hi3 & Ha3 & Hfl3 & Hex3 & Hok & _ & Hpcn).
  cbn [lv] in L2. destruct (L2 Logic.I) as (Wt & (Hx & Ha & Hi) & HE & Hbar & _).
  pose proof (fired_c _ K2) as Hfd. cbn [fired nonempty] in Hfd.
  assert (Hst : sl_stall x2 = false) by (destruct (sl_stall x2); [discriminate Hfd|reflexivity]).
  destruct K2 as (R2 & _).
  pose proof (okstep_noecall t _ Wt HP2 Hx Hi Hok) as Hoks.
  split.
  { cbn [lv3]. split; [exact Wt|]. split; [unfold onp; rewrite Hi3, Ha3; repeat split; assumption|].
    split; [exact HMok|exact Hoks]. }
  split; [cbn [okl]; split; [exact Wt|split; [repeat split; assumption|exact Hok]]|].
  pose proof (mem_flush_redirects t x2 HE Hst (ne_at _ _ R2)) as Hred.
  cbn [flush_of nonempty]. rewrite Hfl3 in *. destruct (mem_flush x2) as [a|] eqn:Hmf.
  - right. exists a. split; [reflexivity|]. split; [reflexivity|]. split; [exact Hpcn|].
    pose proof Hi as Hi'. rewrite <- HP2 in Hi'. destruct (wf_nxt t _ Wt Hx Hi') as [Wn Hpn].
    split; [exact Wn|]. split; [congruence|apply Hoks].
  - left. split; [reflexivity|]. intros Hd3. apply (Hbar Hd3).
    destruct Hoks as [H1 H2]. split; [exact H1|]. split; [exact H2|]. apply Hred. reflexivity.
Qed.

End Control.
