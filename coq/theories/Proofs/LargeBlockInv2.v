(* Proofs/LargeBlockInv2.v — copy of the corresponding part of Proofs/CacheInv.v for cache geometries
   WITHOUT the bound bbits <= 12 ([cfg_ok] below, [geom_ok] of Proofs/LargeBlockArith.v): the data
   cache invariant, the logical contents and the master lemmas of the accesses, with the side
   condition "block base >= 2^14" where the original used "address >= 2^14" (the two coincide
   for bbits <= 12).  Same definition and lemma names as in CacheInv.v; do not import both. *)
From Coq Require Import Lia ZifyBool.
From ArchSim Require Import Model.Base Model.Mem Model.Cache Spec.Policy
  Proofs.WordLemmas Proofs.MapLemmas Proofs.C10Proofs Proofs.CacheArith Proofs.LargeBlockArith Proofs.LargeBlockInv1.
Open Scope Z_scope.
Ltac Zify.zify_post_hook ::= Z.to_euclidean_division_equations.
Local Arguments Z.mul : simpl never.
Local Arguments Z.add : simpl never.
Local Arguments Z.sub : simpl never.
Local Arguments Z.pow : simpl never.
Local Arguments Z.div : simpl never.
Local Arguments Z.modulo : simpl never.
Local Arguments Z.land : simpl never.
Local Arguments Z.lor : simpl never.
Local Arguments Z.lnot : simpl never.
Local Arguments Z.shiftl : simpl never.
Local Arguments Z.shiftr : simpl never.
Local Arguments Z.of_nat : simpl never.
Local Arguments Z.to_nat : simpl never.

(** * The data cache: block read *)
Definition same_logical (d d' : dcache) : Prop := forall a, in32b a -> logical d' a = logical d a.

Lemma pair_eq {A B} (a c : A) (b e : B) : (a, b) = (c, e) -> a = c /\ b = e.
Proof. intros H; injection H; auto. Qed.

Lemma cinv_sinv d : CInv d -> SInvC (dc d) (lower d).
Proof. intros [H _]; exact H. Qed.

Lemma dc_read_block_ok d a r d' : CInv d ->
  dc_read_block d (cdecode (dc d) a) = (r, d') ->
  CInv d' /\ wthrough d' = wthrough d /\ cfg (dc d') = cfg (dc d) /\ same_logical d d' /\
  match r with
  | Ok (blk, hit) =>
      16384 <= da_balign (cdecode (dc d) a) /\
      forall a', in32b a' -> da_balign (cdecode (dc d) a') = da_balign (cdecode (dc d) a) ->
        0 <= nthZ blk (da_boff (cdecode (dc d) a')) 0 < 4294967296 /\
        byte_of (nthZ blk (da_boff (cdecode (dc d) a')) 0) (da_byoff (cdecode (dc d) a')) = logical d a'
  | Err e => da_balign (cdecode (dc d) a) < 16384 /\ e = aerr (da_balign (cdecode (dc d) a)) /\ d' = d
  end.
Proof.
  intros [HS HW] H. unfold SInv in HS. unfold dc_read_block in H. rewrite cache_read_block_eq in H.
  destruct (find_block (blocks (get_set (dc d) (da_idx (cdecode (dc d) a)))) (da_tag (cdecode (dc d) a)) 0)
    as [bi|] eqn:Hf.
  - (* hit *)
    apply pair_eq in H; destruct H as [<- <-].
    destruct (find_hit_facts _ _ a bi HS Hf) as (Hbi & Hvo & Hto & Hoko & Hbao & H14 & [Hl Hw] & Hno & Hres).
    pose proof (sinv_idx _ _ a HS) as Hi.
    assert (SL: same_logical d (upd_dc d (touch (dc d) (da_idx (cdecode (dc d) a)) bi))).
    { intros a' Ha'. unfold logical. cbn [dc lower upd_dc]. apply (logical_touch _ _ _ _ _ HS Hi). }
    split.
    { split.
      - unfold SInv. cbn [dc lower upd_dc]. apply sinv_touch; assumption.
      - intros Hwt a' Ha'. rewrite (SL a' Ha'). apply (HW Hwt a' Ha'). }
    split; [reflexivity|]. split; [reflexivity|]. split; [exact SL|].
    split; [exact H14|]. intros a' Ha' E.
    assert (Hr: res_block (dc d) a' = Some (nthZ (blocks (get_set (dc d) (da_idx (cdecode (dc d) a)))) bi empty_block)).
    { apply (res_block_of _ _ _ bi a' HS Hi Hbi Hvo). rewrite E. symmetry. exact Hbao. }
    pose proof (blk_off _ _ a' HS Ha') as Ho. cbv zeta in Ho. destruct Ho as (_ & Hbo & _).
    split; [apply Hw; exact Hbo|].
    unfold logical, logicalC. rewrite Hr. reflexivity.
  - (* miss *)
    destruct (Z_le_gt_dec 16384 (da_balign (cdecode (dc d) a))) as [H14|H14].
    + destruct (read_block_lower _ _ a HS H14) as (v & Hr & Hvok & Hbytes).
      unfold block_words in H. rewrite Hr in H. rewrite cache_write_block_eq, Hf in H. cbv zeta in H.
      assert (Hfresh: forall a', in32b a' ->
                da_balign (cdecode (dc d) a') = da_balign (cdecode (dc d) a) ->
                byte_of (nthZ v (da_boff (cdecode (dc d) a')) 0) (da_byoff (cdecode (dc d) a')) =
                logicalC (dc d) (lower d) a').
      { intros a' Ha' E. rewrite (Hbytes a' Ha' E). unfold logicalC.
        rewrite (miss_block _ _ a a' HS Hf E). reflexivity. }
      assert (Hres: forall a', in32b a' ->
                da_balign (cdecode (dc d) a') = da_balign (cdecode (dc d) a) ->
                0 <= nthZ v (da_boff (cdecode (dc d) a')) 0 < 4294967296 /\
                byte_of (nthZ v (da_boff (cdecode (dc d) a')) 0) (da_byoff (cdecode (dc d) a')) = logical d a').
      { intros a' Ha' E. split; [|apply Hfresh; assumption].
        pose proof (blk_off _ _ a' HS Ha') as Ho. cbv zeta in Ho. destruct Ho as (_ & Hbo & _).
        apply Hvok. exact Hbo. }
      destruct (wthrough d) eqn:Hwt.
      * (* write-through: the displaced block is dropped *)
        destruct (fill_wt _ _ a v HS (HW eq_refl) Hf H14 Hvok) as [S' L'].
        set (c' := install (dc d) (da_idx (cdecode (dc d) a))
                     (pol_victim (policy (get_set (dc d) (da_idx (cdecode (dc d) a)))))
                     (mkblock (cdecode (dc d) a) v)) in *.
        assert (E': d' = upd_dc d c' /\ r = Ok (v, false)).
        { destruct (dirty _) in H; apply pair_eq in H; destruct H as [<- <-]; split; reflexivity. }
        destruct E' as [-> ->].
        assert (SL: same_logical d (upd_dc d c')).
        { intros a' Ha'. unfold logical. cbn [dc lower upd_dc]. rewrite (L' a' Ha').
          destruct (Z.eqb_spec (da_balign (cdecode (dc d) a')) (da_balign (cdecode (dc d) a))) as [E|]; [|reflexivity].
          apply Hfresh; assumption. }
        split.
        { split; [exact S'|]. intros _ a' Ha'. rewrite (SL a' Ha').
          apply (HW eq_refl a' Ha'). }
        split; [cbn [wthrough upd_dc]; exact Hwt|]. split; [reflexivity|]. split; [exact SL|].
        split; [exact H14 | exact Hres].
      * (* write-back *)
        destruct (fill_wb _ _ a v HS Hf H14 Hvok) as [S' L'].
        set (c' := install (dc d) (da_idx (cdecode (dc d) a))
                     (pol_victim (policy (get_set (dc d) (da_idx (cdecode (dc d) a)))))
                     (mkblock (cdecode (dc d) a) v)) in *.
        set (old := nthZ (blocks (get_set (dc d) (da_idx (cdecode (dc d) a))))
                      (pol_victim (policy (get_set (dc d) (da_idx (cdecode (dc d) a))))) empty_block) in *.
        assert (E': dc d' = c' /\ lower d' = (if dirty old then write_words (lower d) (baddr old) (vals old) else lower d)
                    /\ wthrough d' = false /\ r = Ok (v, false)).
        { destruct (dirty old) in H |- *; apply pair_eq in H; destruct H as [<- <-]; cbn [dc lower wthrough upd_dc upd_lower];
            repeat split; try reflexivity; exact Hwt. }
        destruct E' as (E1 & E2 & E3 & ->).
        assert (SL: same_logical d d').
        { intros a' Ha'. unfold logical. rewrite E1, E2. rewrite (L' a' Ha').
          destruct (Z.eqb_spec (da_balign (cdecode (dc d) a')) (da_balign (cdecode (dc d) a))) as [E|]; [|reflexivity].
          apply Hfresh; assumption. }
        split.
        { split; [unfold SInv; rewrite E1, E2; exact S'|]. rewrite E3. discriminate. }
        split; [exact E3|]. split; [rewrite E1; reflexivity|]. split; [exact SL|].
        split; [exact H14 | exact Hres].
    + unfold block_words in H. rewrite (read_block_lower_bad _ _ a HS) in H by lia.
      apply pair_eq in H; destruct H as [<- <-].
      split; [split; assumption|]. split; [reflexivity|]. split; [reflexivity|].
      split; [intros a' _; reflexivity|]. split; [lia|]. split; reflexivity.
Qed.

(** * Everything depends only on (dc, lower, wthrough) *)
Definition same_core (d1 d2 : dcache) : Prop :=
  dc d2 = dc d1 /\ lower d2 = lower d1 /\ wthrough d2 = wthrough d1.

Lemma core_logical d1 d2 a : same_core d1 d2 -> logical d2 a = logical d1 a.
Proof. intros (E1 & E2 & _). unfold logical. rewrite E1, E2. reflexivity. Qed.

Lemma core_cinv d1 d2 : same_core d1 d2 -> CInv d1 -> CInv d2.
Proof.
  intros (E1 & E2 & E3) [HS HW]. split.
  - unfold SInv. rewrite E1, E2. exact HS.
  - rewrite E3. intros Hwt a Ha. unfold logical. rewrite E1, E2. apply (HW Hwt a Ha).
Qed.

Lemma core_stats d hit (counted : bool) :
  same_core d (fst (if counted then upd_stats d hit else (d, 0))).
Proof. destruct counted; cbn [fst upd_stats]; repeat split; reflexivity. Qed.

Lemma core_upd_stats d hit : same_core d (fst (upd_stats d hit)).
Proof. repeat split; reflexivity. Qed.

(** * Addresses inside one word *)
Lemma cdecode_mod (c : cache Z) a : cdecode c (a mod 4294967296) = cdecode c a.
Proof. unfold cdecode. apply decode_mod. Qed.

Lemma byoff_eq (c : cache Z) m a : SInvC c m -> da_byoff (cdecode c a) = (a mod 4294967296) mod 4.
Proof.
  intros HS. unfold cdecode.
  destruct (decode_fields _ _ a (sinv_geom c m HS)) as (_ & _ & _ & _ & H & _). exact H.
Qed.

Lemma inword_addrs c m a j : SInvC c m -> 0 <= j -> da_byoff (cdecode c a) + j < 4 ->
  in32b (a mod 4294967296 + j) /\
  da_balign (cdecode c (a mod 4294967296 + j)) = da_balign (cdecode c a) /\
  da_boff (cdecode c (a mod 4294967296 + j)) = da_boff (cdecode c a) /\
  da_byoff (cdecode c (a mod 4294967296 + j)) = da_byoff (cdecode c a) + j.
Proof.
  intros HS Hj Hlt. unfold cdecode in *.
  destruct (decode_same_word _ _ a j (sinv_geom c m HS) Hj Hlt) as (Hm & _ & _ & Hba & Hbo & Hby).
  repeat split; try assumption; unfold in32b; lia.
Qed.

Lemma inword_range c m a : SInvC c m ->
  let x := a mod 4294967296 in
  x = da_balign (cdecode c a) + 4 * da_boff (cdecode c a) + da_byoff (cdecode c a) /\
  0 <= da_byoff (cdecode c a) < 4 /\
  x - da_byoff (cdecode c a) + 4 <= 4294967296 /\
  (16384 <= da_balign (cdecode c a) -> 16384 <= x) /\
  (16384 <= x <-> 16384 <= x - da_byoff (cdecode c a)).
Proof.
  intros HS. cbv zeta. unfold cdecode.
  pose proof (sinv_geom c m HS) as G.
  destruct (decode_spec _ _ a G) as (Hx & Hbo & Hby & _ & _ & Hba & H0 & Hhi & H14).
  pose proof (bsize_eq (bbits (cfg c)) ltac:(destruct G as (_ & ? & _); lia)) as HB.
  rewrite HB in Hba.
  set (Q := da_tag (decode_addr (ibits (cfg c)) (bbits (cfg c)) a) * 2 ^ ibits (cfg c) +
            da_idx (decode_addr (ibits (cfg c)) (bbits (cfg c)) a)) in *.
  assert (Hk : exists k, a mod 4294967296 - da_byoff (decode_addr (ibits (cfg c)) (bbits (cfg c)) a) = 4 * k).
  { exists (Q * 2 ^ bbits (cfg c) + da_boff (decode_addr (ibits (cfg c)) (bbits (cfg c)) a)). lia. }
  destruct Hk as [k Hk]. repeat split; lia.
Qed.

Lemma inword_iff c m a a' k : SInvC c m -> in32b a' -> 0 <= k ->
  da_byoff (cdecode c a) + k <= 4 ->
  let x := a mod 4294967296 in
  (x <= a' < x + k ->
     da_balign (cdecode c a') = da_balign (cdecode c a) /\
     da_boff (cdecode c a') = da_boff (cdecode c a) /\
     da_byoff (cdecode c a') = da_byoff (cdecode c a) + (a' - x)) /\
  (da_balign (cdecode c a') = da_balign (cdecode c a) ->
   da_boff (cdecode c a') = da_boff (cdecode c a) ->
   a' - x = da_byoff (cdecode c a') - da_byoff (cdecode c a)).
Proof.
  intros HS Ha' Hk Hin. cbv zeta. split.
  - intros Hr. destruct (inword_addrs c m a (a' - a mod 4294967296) HS) as (_ & H1 & H2 & H3); try lia.
    replace (a mod 4294967296 + (a' - a mod 4294967296)) with a' in * by lia. tauto.
  - intros E1 E2. destruct (inword_range c m a HS) as (Hx & _).
    destruct (blk_off c m a' HS Ha') as (Hx' & _). lia.
Qed.

(** * dc_read *)
Lemma dc_read_ok d nbits a counted r d' p : CInv d -> okw nbits ->
  dc_read d nbits a counted = (r, d', p) ->
  let x := a mod 4294967296 in
  let o := da_byoff (cdecode (dc d) a) in
  let k := kof nbits in
  CInv d' /\ wthrough d' = wthrough d /\ cfg (dc d') = cfg (dc d) /\ same_logical d d' /\
  (o + Z.of_nat k <= 4 -> 16384 <= da_balign (cdecode (dc d) a) -> r = Ok (le_bytes (logical d) x k)) /\
  (da_balign (cdecode (dc d) a) < 16384 -> r = Err (aerr (da_balign (cdecode (dc d) a)))) /\
  (o + Z.of_nat k > 4 -> 16384 <= da_balign (cdecode (dc d) a) -> r = Err (EOffset o (4 - Z.of_nat k))).
Proof.
  intros HC Hw H. cbv zeta. pose proof (cinv_sinv d HC) as HS.
  unfold dc_read in H.
  destruct (dc_read_block d (cdecode (dc d) a)) as [rb d1] eqn:Hrb.
  destruct (dc_read_block_ok d a rb d1 HC Hrb) as (HC1 & Hwt1 & Hcfg1 & SL1 & Hres).
  destruct (inword_range _ _ a HS) as (Hx & Ho & _ & H14 & _).
  destruct rb as [[blk hit]|e].
  - destruct Hres as [Hlo Hblk].
    pose proof (core_stats d1 hit counted) as Hcore.
    destruct (if counted then upd_stats d1 hit else (d1, 0)) as [d2 pen] eqn:Est.
    cbn [fst] in Hcore. apply pair_eq in H. destruct H as [H <-]. apply pair_eq in H. destruct H as [<- <-].
    split; [apply (core_cinv d1 d2 Hcore HC1)|].
    split; [destruct Hcore as (_ & _ & ->); exact Hwt1|].
    split; [destruct Hcore as (-> & _); exact Hcfg1|].
    split; [intros a' Ha'; rewrite (core_logical d1 d2 a' Hcore); apply SL1; exact Ha'|].
    assert (Hw0: 0 <= nthZ blk (da_boff (cdecode (dc d) a)) 0 < 4294967296).
    { destruct (Hblk (a mod 4294967296)) as [R _]; [unfold in32b; lia | rewrite cdecode_mod; reflexivity |].
      rewrite cdecode_mod in R. exact R. }
    split; [|split].
    + intros Hin _. rewrite from_block_in by (try assumption; lia). f_equal.
      apply le_bytes_ext. intros j Hj.
      destruct (inword_addrs _ _ a j HS) as (Ha' & E1 & E2 & E3); [lia | lia |].
      destruct (Hblk _ Ha' E1) as [_ B]. rewrite E2, E3 in B. exact B.
    + intros Hlt. lia.
    + intros Hcross _. apply from_block_cross; assumption.
  - destruct Hres as (Hlt & -> & ->). apply pair_eq in H. destruct H as [H <-].
    apply pair_eq in H. destruct H as [<- <-].
    split; [exact HC|]. split; [reflexivity|]. split; [reflexivity|].
    split; [intros a' _; reflexivity|].
    split; [intros _ Hge; lia|]. split; [intros _; reflexivity | intros _ Hge; lia].
Qed.

(** * In-word flat accesses (any map; only the touched cells matter) *)
Lemma inword_fits x k : 0 <= x < 4294967296 -> 0 <= k -> x mod 4 + k <= 4 -> x + k <= 4294967296.
Proof. intros. lia. Qed.

Lemma mem_write_inword m nbits a v : okw nbits ->
  let x := a mod 4294967296 in
  x mod 4 + Z.of_nat (kof nbits) <= 4 ->
  (16384 <= x ->
     snd (mem_write rv_memcfg m nbits a v) = None /\
     forall z, mget (fst (mem_write rv_memcfg m nbits a v)) z =
               if (x <=? z) && (z <? x + Z.of_nat (kof nbits)) then byte_of v (z - x) else mget m z) /\
  (x < 16384 -> mem_write rv_memcfg m nbits a v = (m, Some (aerr x))).
Proof.
  intros Hw. cbv zeta. intros Hin. destruct (okw_kof nbits Hw) as (Hn & Hk & _). split.
  - intros Hlo. apply (mem_write_loc m nbits (kof nbits) a v _ Hn eq_refl Hlo).
    apply inword_fits; lia.
  - intros Hlt. apply (mem_write_bad m nbits (kof nbits) a v _ Hn Hk eq_refl Hlt).
Qed.

Lemma mem_read_inword m nbits a : okw nbits ->
  let x := a mod 4294967296 in
  x mod 4 + Z.of_nat (kof nbits) <= 4 ->
  (16384 <= x -> (forall j, 0 <= j < Z.of_nat (kof nbits) -> 0 <= mget m (x + j) < 256) ->
     mem_read rv_memcfg m nbits a = Ok (le_bytes (mget m) x (kof nbits))) /\
  (x < 16384 -> mem_read rv_memcfg m nbits a = Err (aerr x)).
Proof.
  intros Hw. cbv zeta. intros Hin. destruct (okw_kof nbits Hw) as (Hn & Hk & _). split.
  - intros Hlo Hb. apply (mem_read_loc m nbits (kof nbits) a _ Hn eq_refl Hlo); [|exact Hb].
    apply inword_fits; lia.
  - intros Hlt. apply (mem_read_bad m nbits (kof nbits) a _ Hn Hk eq_refl Hlt).
Qed.

Lemma write_mult_bytes : forall k m a i v, bytes_ok m -> bytes_ok (fst (write_mult rv_memcfg m a k i v)).
Proof.
  induction k as [|k IH]; intros m a i v Hm; cbn [write_mult]; [exact Hm|].
  unfold write_cell. destruct (Mem.in_range rv_memcfg (eff_addr rv_memcfg (a + i))); [|exact Hm].
  apply IH. intros z. rewrite mget_mset. destruct (_ =? _); [|apply Hm].
  change (cw rv_memcfg) with 8. change (2 ^ 8 - 1) with 255. rewrite land_255. lia.
Qed.

Lemma mem_write_bytes m nbits a v : bytes_ok m -> bytes_ok (fst (mem_write rv_memcfg m nbits a v)).
Proof. apply write_mult_bytes. Qed.

(** * Merging a value into a fetched block *)
Lemma merged_formula c m a blk w' v k (L : Z -> Z) : SInvC c m -> 0 <= k ->
  da_byoff (cdecode c a) + k <= 4 ->
  Z.of_nat (length blk) = 2 ^ bbits (cfg c) ->
  (forall o', 0 <= o' < 4 ->
     byte_of w' o' = if (da_byoff (cdecode c a) <=? o') && (o' <? da_byoff (cdecode c a) + k)
                     then byte_of v (o' - da_byoff (cdecode c a))
                     else byte_of (nthZ blk (da_boff (cdecode c a)) 0) o') ->
  (forall a', in32b a' -> da_balign (cdecode c a') = da_balign (cdecode c a) ->
     byte_of (nthZ blk (da_boff (cdecode c a')) 0) (da_byoff (cdecode c a')) = L a') ->
  forall a', in32b a' ->
    (if da_balign (cdecode c a') =? da_balign (cdecode c a)
     then byte_of (nthZ (set_nthZ blk (da_boff (cdecode c a)) w') (da_boff (cdecode c a')) 0)
            (da_byoff (cdecode c a'))
     else L a') =
    (if (a mod 4294967296 <=? a') && (a' <? a mod 4294967296 + k)
     then byte_of v (a' - a mod 4294967296) else L a').
Proof.
  intros HS Hk Hin Hlen Hw' Hblk a' Ha'.
  destruct (inword_iff c m a a' k HS Ha' Hk Hin) as [I1 I2].
  destruct (inword_range c m a HS) as (_ & Ho & _).
  pose proof (blk_off c m a' HS Ha') as Hoff. cbv zeta in Hoff. destruct Hoff as (_ & Hbo' & Hby' & _).
  assert (Hbo: 0 <= da_boff (cdecode c a) < 2 ^ bbits (cfg c)).
  { unfold cdecode. destruct (decode_spec _ _ a (sinv_geom c m HS)) as (_ & H & _). exact H. }
  destruct (Z.eqb_spec (da_balign (cdecode c a')) (da_balign (cdecode c a))) as [E|Hne].
  - rewrite nthZ_set_nthZ by lia.
    destruct (Z.eqb_spec (da_boff (cdecode c a')) (da_boff (cdecode c a))) as [Eb|Nb].
    + rewrite (Hw' _ Hby'). specialize (I2 E Eb).
      destruct ((da_byoff (cdecode c a) <=? da_byoff (cdecode c a')) &&
                (da_byoff (cdecode c a') <? da_byoff (cdecode c a) + k)) eqn:Ec.
      * replace ((a mod 4294967296 <=? a') && (a' <? a mod 4294967296 + k)) with true by lia.
        f_equal. lia.
      * replace ((a mod 4294967296 <=? a') && (a' <? a mod 4294967296 + k)) with false by lia.
        rewrite <- Eb. apply Hblk; assumption.
    + replace ((a mod 4294967296 <=? a') && (a' <? a mod 4294967296 + k)) with false.
      * apply Hblk; assumption.
      * symmetry. apply not_true_is_false. intros Hc. apply Nb. apply I1. lia.
  - replace ((a mod 4294967296 <=? a') && (a' <? a mod 4294967296 + k)) with false; [reflexivity|].
    symmetry. apply not_true_is_false. intros Hc. apply Hne. apply I1. lia.
Qed.

Lemma merged_vals_ok c m a blk w' : SInvC c m -> vals_ok c blk -> 0 <= w' < 4294967296 ->
  vals_ok c (set_nthZ blk (da_boff (cdecode c a)) w').
Proof.
  intros HS [Hlen Hw] Hw'. split; [rewrite set_nthZ_length; exact Hlen|].
  assert (Hbo: 0 <= da_boff (cdecode c a) < 2 ^ bbits (cfg c)).
  { unfold cdecode. destruct (decode_spec _ _ a (sinv_geom c m HS)) as (_ & H & _). exact H. }
  intros j Hj. rewrite nthZ_set_nthZ by lia. destruct (j =? _); [exact Hw' | apply Hw; exact Hj].
Qed.

(* the words of a resident block are the logical contents of its addresses *)
Lemma hit_blk_formula c m a bi : SInvC c m ->
  find_block (blocks (get_set c (da_idx (cdecode c a)))) (da_tag (cdecode c a)) 0 = Some bi ->
  forall a', in32b a' -> da_balign (cdecode c a') = da_balign (cdecode c a) ->
    byte_of (nthZ (vals (nthZ (blocks (get_set c (da_idx (cdecode c a)))) bi empty_block))
               (da_boff (cdecode c a')) 0) (da_byoff (cdecode c a')) = logicalC c m a'.
Proof.
  intros HS Hf a' Ha' E.
  destruct (find_hit_facts c m a bi HS Hf) as (Hbi & Hvo & _ & _ & Hbao & _).
  unfold logicalC.
  rewrite (res_block_of c m _ bi a' HS (sinv_idx c m a HS) Hbi Hvo); [reflexivity|].
  rewrite E. symmetry. exact Hbao.
Qed.

