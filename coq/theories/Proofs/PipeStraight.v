(* PipeStraight.v — the straight-line timing law of C07 ("n independent ALU instructions take
   n + 4 cycles"), proved by its own induction over the steps with a simple invariant:
   after t steps latch j holds instruction t-1-j.  Uses the laws of PipeLaws.v. *)
From Coq Require Import Lia ZifyBool.
From ArchSim Require Import Model.Base Model.Mem Model.Cache Model.Fmt Model.RV Model.Single
  Model.RVSplit Model.Pipe Proofs.PipeLaws Proofs.PipeShape.
Open Scope Z_scope.

Ltac Zify.zify_post_hook ::= Z.to_euclidean_division_equations.
Local Arguments Z.mul : simpl never.
Local Arguments Z.add : simpl never.
Local Arguments Z.sub : simpl never.
Local Arguments Z.div : simpl never.
Local Arguments Z.modulo : simpl never.
Local Arguments Z.min : simpl never.
Local Arguments Z.max : simpl never.

(** * Vocabulary *)
Definition is_alu (i : instr) : bool :=
  match i with IR _ _ _ _ | II _ _ _ _ | ISh _ _ _ _ => true | _ => false end.
Definition srcs (i : instr) : list Z :=
  match i with
  | IR _ _ rs1 rs2 => [rs1; rs2]
  | II _ _ rs1 _ | ISh _ _ rs1 _ => [rs1]
  | _ => []
  end.
(* no source register of any instruction is the destination of any instruction *)
Definition no_src_is_dst (P : list instr) : Prop :=
  forall i j r, In i P -> In j P -> In r (srcs i) -> write_reg j <> Some r.
Definition dsts (P : list instr) : list (option Z) := map write_reg P.
(* "mutually independent": pairwise distinct destinations and no source equal to a destination *)
Definition mutually_independent (P : list instr) : Prop := NoDup (dsts P) /\ no_src_is_dst P.

(** * Per-stage facts for ALU instructions *)
Definition Fok (x : slot) : Prop := x = slot_if (sl_instr x) (sl_addr x).
Definition Dok (x : slot) : Prop :=
  is_alu (sl_instr x) = true /\ ex_in1 x <> None /\ ex_in2 x <> None /\ sl_wreg x <> None /\
  sl_saved x = false.
Definition Eok (x : slot) : Prop :=
  is_alu (sl_instr x) = true /\ sl_result x <> None /\ sl_wreg x <> None /\ sl_exit x = None.
Definition Mok (x : slot) : Prop :=
  is_alu (sl_instr x) = true /\ sl_result x <> None /\ sl_wreg x <> None /\ sl_exit x = None.

Lemma id_alu hz y w1 w2 s : is_alu (sl_instr y) = true -> Dok (id_slot hz y w1 w2 s).
Proof.
  intros Ha. unfold Dok, ex_in1, ex_in2.
  cbn [id_slot sl_instr sl_rd1 sl_rd2 sl_imm sl_wreg sl_addr sl_saved].
  unfold rf_rd1, rf_rd2, rf_imm. destruct (sl_instr y); try discriminate Ha; cbn; repeat split; discriminate.
Qed.

Lemma hazard_free i w s : is_alu i = true -> (forall r, In r (srcs i) -> w <> Some r) ->
  hazard_with (rf_ra1 i s) (rf_ra2 i s) w = false.
Proof.
  intros Ha Hw. unfold hazard_with. destruct w as [r|]; [|reflexivity].
  destruct (r =? 0); [reflexivity|]. unfold rf_ra1, rf_ra2.
  destruct i; try discriminate Ha; cbn [access_rf fst snd opt_eqb srcs] in *.
  - assert (rs1 <> r) by (intros ->; apply (Hw r); [left; reflexivity|reflexivity]).
    assert (rs2 <> r) by (intros ->; apply (Hw r); [right; left; reflexivity|reflexivity]).
    apply Bool.orb_false_iff; split; lia.
  - assert (rs1 <> r) by (intros ->; apply (Hw r); [left; reflexivity|reflexivity]).
    apply Bool.orb_false_iff; split; [lia|reflexivity].
  - assert (rs1 <> r) by (intros ->; apply (Hw r); [left; reflexivity|reflexivity]).
    apply Bool.orb_false_iff; split; [lia|reflexivity].
Qed.

Lemma ex_alu y l2 l3 s : Dok y ->
  exists z, ex_on (Some y) l2 l3 s = (Some z, s, None) /\ Eok z /\ sl_addr z = sl_addr y /\
    sl_instr z = sl_instr y /\ sl_stall z = false /\ sl_flush z = None.
Proof.
  intros (Ha & H1 & H2 & Hw & _). rewrite ex_on_some.
  destruct (ex_in1 y) as [a|]; [|congruence]. destruct (ex_in2 y) as [b|]; [|congruence].
  destruct (sl_instr y) eqn:Hi; try discriminate Ha; cbn [alu_compute is_ecall];
    (eexists; split; [reflexivity|]; unfold Eok; cbn [ex_slot sl_instr sl_result sl_wreg sl_exit sl_addr sl_stall sl_flush];
     rewrite Hi; repeat split; try assumption; discriminate).
Qed.

Lemma mem_alu y s : Eok y ->
  mem_on (Some y) s = (Some (mem_slot y None), s, None) /\ Mok (mem_slot y None) /\
  sl_flush (mem_slot y None) = None.
Proof.
  intros (Ha & Hr & Hw & Hex). rewrite mem_on_some.
  assert (Hf : mem_flush y = None).
  { unfold mem_flush. rewrite Hex. destruct (sl_instr y); try discriminate Ha; reflexivity. }
  unfold mem_count. rewrite Hf.
  split; [destruct (sl_instr y); try discriminate Ha; reflexivity|].
  split; [unfold Mok; cbn [mem_slot sl_instr sl_result sl_wreg sl_exit]; repeat split; assumption|].
  cbn [mem_slot sl_flush]. exact Hf.
Qed.

Lemma wb_alu y s : Mok y -> exists s2,
  wb_on (Some y) s = (Some (wb_slot y), s2, None) /\ sl_flush (wb_slot y) = None /\
  pc s2 = pc s /\ im s2 = im s /\ exitc s2 = exitc s /\ stalls s2 = stalls s /\
  flushes s2 = flushes s /\ icount s2 = icount s + 1.
Proof.
  intros (Ha & Hr & Hw & Hex). rewrite wb_on_some.
  assert (Hd : wb_data y = sl_result y).
  { unfold wb_data. destruct (sl_instr y); try discriminate Ha; reflexivity. }
  rewrite Hd. destruct (sl_result y) as [d|]; [|congruence]. destruct (sl_wreg y) as [r|]; [|congruence].
  unfold wb_exit. rewrite Hex.
  assert (Hwb : write_back (sl_instr y) (Some r) (Some d) (with_icount s (icount s + 1)) =
                (rset (with_icount s (icount s + 1)) r (U32 d), None))
    by (destruct (sl_instr y); try discriminate Ha; reflexivity).
  rewrite Hwb. eexists. split; [reflexivity|].
  split; [cbn [wb_slot sl_flush]; unfold wb_flush; rewrite Hex; reflexivity|].
  pose proof (rset_fields (with_icount s (icount s + 1)) r (U32 d)) as
    (Hpc & _ & Him & _ & Hexi & Hic & _ & _ & _ & Hst & Hfl).
  stf. repeat split; assumption.
Qed.

Section Straight.
Variable IM : imem -> Prop.
Hypothesis FF : fetch_faithful IM.
Variable P : list instr.
Hypothesis Halu : Forall (fun i => is_alu i = true) P.
Hypothesis Hind : no_src_is_dst P.
Let n := Z.of_nat (length P).

Definition in_prog (k : Z) : bool := (0 <=? k) && (k <? n).

(* latch l holds instruction number k of the program (nothing when k is out of range) *)
Definition slot_at (ok : slot -> Prop) (k : Z) (l : latch) : Prop :=
  if in_prog k
  then exists x, l = Some x /\ sl_addr x = 4 * k /\ nth_error P (Z.to_nat k) = Some (sl_instr x) /\ ok x
  else l = None.

Definition platch (l : latch) : Prop := match l with None => True | Some x => In (sl_instr x) P end.

Lemma slot_at_platch ok k l : slot_at ok k l -> platch l.
Proof.
  unfold slot_at. destruct (in_prog k); [|intros ->; exact Logic.I].
  intros (x & -> & _ & Hn & _). cbn [platch]. eapply nth_error_In; eauto.
Qed.

Lemma slot_at_nonempty ok k l : slot_at ok k l -> nonempty l = in_prog k.
Proof.
  unfold slot_at. destruct (in_prog k); [intros (x & -> & _); reflexivity|intros ->; reflexivity].
Qed.

Lemma in_P_alu i : In i P -> is_alu i = true.
Proof. intros H. rewrite Forall_forall in Halu. apply Halu; exact H. Qed.

Lemma instr_at_4k k : instr_at P (4 * k) = if in_prog k then nth_error P (Z.to_nat k) else None.
Proof.
  unfold instr_at, in_prog. fold n.
  replace (4 * k / 4) with k by lia. replace ((4 * k) mod 4 =? 0) with true by lia.
  replace (0 <=? 4 * k) with (0 <=? k) by lia. rewrite Bool.andb_true_r. reflexivity.
Qed.

Lemma in_prog_some k : in_prog k = true -> exists i, nth_error P (Z.to_nat k) = Some i.
Proof.
  unfold in_prog. intros H. destruct (nth_error P (Z.to_nat k)) as [i|] eqn:E; [eauto|].
  apply nth_error_None in E. unfold n in H. lia.
Qed.

(** stage by stage *)
Lemma if_straight s t : IM (im s) -> prog (im s) = P -> 0 <= t -> pc s = 4 * Z.min t n ->
  exists n0 s1, stage_if s = (n0, s1) /\ slot_at Fok t n0 /\ pc s1 = 4 * Z.min (t + 1) n /\
    IM (im s1) /\ prog (im s1) = P /\ exitc s1 = exitc s /\ icount s1 = icount s /\
    stalls s1 = stalls s /\ flushes s1 = flushes s /\
    has_stall n0 = false /\ flush_of n0 = None.
Proof.
  intros Him Hp Ht Hpc. destruct (stage_if s) as [n0 s1] eqn:HIF. exists n0, s1. split; [reflexivity|].
  pose proof (stage_if_flags _ _ _ HIF) as [Hs0 Hf0].
  destruct (stage_if_ok IM _ _ _ FF Him HIF) as (Him1 & Hp1 & H0 & Ho0 & Hh1).
  apply stage_if_law in HIF.
  destruct HIF as (_ & _ & _ & Hex & Hic & _ & _ & Hst & Hfl & _ & _ & _ & _ & Hcase).
  rewrite Hp in *. unfold has_instr in *. rewrite Hp, Hpc in *.
  unfold slot_at. destruct (in_prog t) eqn:Hin.
  - assert (Hm : Z.min t n = t) by (unfold in_prog in Hin; lia). rewrite Hm in *.
    rewrite instr_at_4k, Hin in *. destruct (in_prog_some t Hin) as [i Hi]. rewrite Hi in *.
    destruct Hcase as [[-> _]|(i' & -> & Hpc1 & _)]; [discriminate Ho0|].
    destruct H0 as [R _]. unfold real in R. cbn [slot_if sl_addr sl_instr] in R.
    rewrite instr_at_4k, Hin, Hi in R. inv R.
    split; [exists (slot_if i' (4 * t)); repeat split; assumption|].
    split; [rewrite Hpc1; unfold in_prog in Hin; lia|]. repeat split; assumption.
  - assert (Hm : Z.min t n = n) by (unfold in_prog in Hin; lia). rewrite Hm in *.
    assert (Hnn : instr_at P (4 * n) = None).
    { rewrite instr_at_4k. unfold in_prog. replace (n <? n) with false by lia.
      rewrite Bool.andb_false_r. reflexivity. }
    rewrite Hnn in *. rewrite (Hh1 eq_refl) in *.
    destruct n0; [discriminate Ho0|]. split; [reflexivity|].
    split; [rewrite Hpc; unfold in_prog in Hin; lia|]. repeat split; assumption.
Qed.

Lemma wb_straight k l3 s : slot_at Mok k l3 -> exists n4 s2,
  wb_on l3 s = (n4, s2, None) /\ flush_of n4 = None /\ has_stall n4 = false /\
  pc s2 = pc s /\ im s2 = im s /\ exitc s2 = exitc s /\ stalls s2 = stalls s /\
  flushes s2 = flushes s /\ icount s2 = icount s + (if in_prog k then 1 else 0).
Proof.
  unfold slot_at. destruct (in_prog k).
  - intros (x & -> & _ & _ & Hm). destruct (wb_alu x s Hm) as (s2 & Hw & Hf & Hrest).
    exists (Some (wb_slot x)), s2. split; [exact Hw|]. split; [exact Hf|]. split; [reflexivity|exact Hrest].
  - intros ->. exists None, s. rewrite wb_on_none. repeat split. lia.
Qed.

Lemma ex_straight k l1 l2 l3 s : slot_at Dok k l1 -> exists n2,
  ex_on l1 l2 l3 s = (n2, s, None) /\ slot_at Eok k n2 /\ has_stall n2 = false /\ flush_of n2 = None.
Proof.
  unfold slot_at. destruct (in_prog k).
  - intros (x & -> & Ha & Hn & Hd). destruct (ex_alu x l2 l3 s Hd) as (z & He & Hz & Haz & Hiz & Hsz & Hfz).
    exists (Some z). split; [exact He|]. split; [|split; assumption].
    exists z. rewrite Haz, Hiz. split; [reflexivity|]. split; [exact Ha|]. split; [exact Hn|exact Hz].
  - intros ->. exists None. rewrite ex_on_none. repeat split.
Qed.

Lemma mem_straight k l2 s : slot_at Eok k l2 -> exists n3,
  mem_on l2 s = (n3, s, None) /\ slot_at Mok k n3 /\ has_stall n3 = false /\ flush_of n3 = None.
Proof.
  unfold slot_at. destruct (in_prog k).
  - intros (x & -> & Ha & Hn & He). destruct (mem_alu x s He) as (Hm & Hz & Hf).
    exists (Some (mem_slot x None)). split; [exact Hm|]. split; [|split; [reflexivity|exact Hf]].
    exists (mem_slot x None). split; [reflexivity|]. split; [exact Ha|]. split; [exact Hn|exact Hz].
  - intros ->. exists None. rewrite mem_on_none. repeat split.
Qed.

Lemma id_straight hz k l0 l1 l2 s : slot_at Fok k l0 -> platch l1 -> platch l2 ->
  slot_at Dok k (id_on hz l0 l1 l2 s) /\ has_stall (id_on hz l0 l1 l2 s) = false /\
  flush_of (id_on hz l0 l1 l2 s) = None.
Proof.
  intros H0 P1 P2. split; [|split; [|apply id_on_flags]].
  - unfold slot_at in *. destruct (in_prog k); [|subst l0; reflexivity].
    destruct H0 as (x & -> & Ha & Hn & _). rewrite id_on_some.
    eexists; split; [reflexivity|]. cbn [id_slot sl_addr sl_instr]. split; [exact Ha|]. split; [exact Hn|].
    apply id_alu. apply in_P_alu. eapply nth_error_In; eauto.
  - unfold slot_at in H0. destruct (in_prog k); [|subst l0; reflexivity].
    destruct H0 as (x & -> & Ha & Hn & _). rewrite id_on_some. cbn [has_stall id_slot sl_stall].
    unfold id_stall. assert (Hx : In (sl_instr x) P) by (eapply nth_error_In; eauto).
    assert (W : forall l, platch l -> forall r, In r (srcs (sl_instr x)) -> latch_wreg l <> Some r).
    { intros [y|] Hy r Hr; cbn [latch_wreg]; [|discriminate]. exact (Hind _ _ _ Hx Hy Hr). }
    rewrite !hazard_free by (try apply in_P_alu; auto). apply Bool.andb_false_r.
Qed.

(** * The invariant: after t steps latch j holds instruction t-1-j *)
Record Inv (ic0 st0 fl0 t : Z) (p : pstate) : Prop := mkInv {
  iv_lat : exists l0 l1 l2 l3 l4, lat p = [l0; l1; l2; l3; l4] /\
             slot_at Fok (t - 1) l0 /\ slot_at Dok (t - 2) l1 /\
             slot_at Eok (t - 3) l2 /\ slot_at Mok (t - 4) l3;
  iv_stalled : stalled p = None;
  iv_saved : saved p = None;
  iv_pc : pc (pst p) = 4 * Z.min t n;
  iv_im : IM (im (pst p));
  iv_prog : prog (im (pst p)) = P;
  iv_exit : exitc (pst p) = None;
  iv_icount : icount (pst p) = ic0 + Z.max 0 (Z.min (t - 4) n);
  iv_stalls : stalls (pst p) = st0;
  iv_flushes : flushes (pst p) = fl0 }.

Lemma inv_step ic0 st0 fl0 t p : 0 <= t -> Inv ic0 st0 fl0 t p ->
  snd (pipe_step p) = None /\ Inv ic0 st0 fl0 (t + 1) (fst (pipe_step p)).
Proof.
  intros Ht [(l0 & l1 & l2 & l3 & l4 & Hl & S0 & S1 & S2 & S3) Hs Hsv Hpc Him Hp Hex Hic Hst Hfl].
  rewrite (pipe_step_normal p _ _ _ _ _ Hl Hs). unfold run_normal.
  destruct (if_straight (bumped (pst p)) t Him Hp Ht Hpc)
    as (n0 & s1 & -> & S0' & Hpc1 & Him1 & Hp1 & Hex1 & Hic1 & Hst1 & Hfl1 & Hs0 & Hf0).
  destruct (wb_straight (t - 4) l3 s1 S3)
    as (n4 & s2 & -> & Hf4 & Hs4 & Hpc2 & Him2 & Hex2 & Hst2 & Hfl2 & Hic2).
  destruct (ex_straight (t - 2) l1 l2 l3 s2 S1) as (n2 & -> & S2' & Hs2 & Hf2).
  destruct (mem_straight (t - 3) l2 s2 S2) as (n3 & -> & S3' & Hs3 & Hf3).
  destruct (id_straight (hazards p) (t - 1) l0 l1 l2 s2 S0 (slot_at_platch _ _ _ S1) (slot_at_platch _ _ _ S2))
    as (S1' & Hs1 & Hf1).
  set (n1 := id_on (hazards p) l0 l1 l2 s2) in *.
  cbn [finish snd fst]. split; [reflexivity|].
  assert (Hns : new_stall [n0; n1; n2; n3; n4] None = None).
  { rewrite new_stall_5 by assumption. rewrite Hs2, Hs1. reflexivity. }
  assert (Hff : first_flush [n0; n1; n2; n3; n4] = None).
  { rewrite first_flush_5 by assumption. rewrite Hf4, Hf3, Hf2. reflexivity. }
  unfold post. rewrite Hs, Hsv, (stall_part_idle _ _ _ Hns), (flush_part_none _ _ _ _ _ Hff).
  change (stalls (bumped (pst p))) with (stalls (pst p)) in *.
  change (flushes (bumped (pst p))) with (flushes (pst p)) in *.
  change (icount (bumped (pst p))) with (icount (pst p)) in *.
  change (exitc (bumped (pst p))) with (exitc (pst p)) in *.
  constructor; cbn [pst lat stalled saved]; try reflexivity; try congruence.
  - exists n0, n1, n2, n3, n4. split; [reflexivity|].
    replace (t + 1 - 1) with t by lia. replace (t + 1 - 2) with (t - 1) by lia.
    replace (t + 1 - 3) with (t - 2) by lia. replace (t + 1 - 4) with (t - 3) by lia.
    repeat split; assumption.
  - rewrite Hic2, Hic1, Hic. unfold in_prog. destruct ((0 <=? t - 4) && (t - 4 <? n)) eqn:E; lia.
Qed.

Lemma inv_init s hz : IM (im s) -> prog (im s) = P -> pc s = 0 -> exitc s = None ->
  Inv (icount s) (stalls s) (flushes s) 0 (pipe_init s hz).
Proof.
  intros Him Hp Hpc Hex. constructor; cbn [pipe_init pst lat stalled saved]; try assumption; try reflexivity.
  - exists None, None, None, None, None. split; [reflexivity|].
    unfold slot_at, in_prog. repeat split;
      match goal with |- (if ?c then _ else _) => replace c with false by lia; reflexivity end.
  - rewrite Hpc. lia.
  - lia.
Qed.

Lemma inv_iter ic0 st0 fl0 m : forall t p, 0 <= t -> Inv ic0 st0 fl0 t p ->
  Inv ic0 st0 fl0 (t + Z.of_nat m) (pipe_iter m p) /\
  (forall j, (j < m)%nat -> snd (pipe_step (pipe_iter j p)) = None).
Proof.
  induction m as [|m IH]; intros t p Ht Hi.
  - cbn [pipe_iter]. replace (t + Z.of_nat 0) with t by lia. split; [exact Hi|]. intros j Hj; lia.
  - destruct (inv_step _ _ _ _ _ Ht Hi) as [Hok Hi']. cbn [pipe_iter].
    destruct (IH (t + 1) _ ltac:(lia) Hi') as [Hi'' Hoks].
    replace (t + Z.of_nat (S m)) with (t + 1 + Z.of_nat m) by lia. split; [exact Hi''|].
    intros [|j] Hj; cbn [pipe_iter]; [exact Hok|]. apply Hoks. lia.
Qed.

Lemma inv_done ic0 st0 fl0 t p : 0 <= t -> Inv ic0 st0 fl0 t p ->
  pipe_done p = negb (in_prog (t - 1) || in_prog (t - 2) || in_prog (t - 3) || in_prog (t - 4))
                && negb (t <? n).
Proof.
  intros Ht [(l0 & l1 & l2 & l3 & l4 & Hl & S0 & S1 & S2 & S3) _ _ Hpc _ Hp Hex _ _ _].
  unfold pipe_done, pipe_empty. rewrite Hex, Hl. lat5.
  rewrite (slot_at_nonempty _ _ _ S0), (slot_at_nonempty _ _ _ S1), (slot_at_nonempty _ _ _ S2),
    (slot_at_nonempty _ _ _ S3). f_equal. f_equal.
  unfold has_instr. rewrite Hp, Hpc, instr_at_4k.
  destruct (in_prog (Z.min t n)) eqn:E.
  - destruct (in_prog_some _ E) as [i ->]. unfold in_prog in E. lia.
  - unfold in_prog in E. lia.
Qed.

(* generic: if the first m states are not done and step without fault, and state m is done,
   [pipe_run] with fuel >= m stops exactly there *)
Lemma pipe_run_iter m : forall p fuel, (m <= fuel)%nat ->
  (forall j, (j < m)%nat -> pipe_done (pipe_iter j p) = false /\ snd (pipe_step (pipe_iter j p)) = None) ->
  pipe_done (pipe_iter m p) = true ->
  pipe_run fuel p = (pipe_iter m p, PDone) /\ pipe_run_steps fuel p = m.
Proof.
  induction m as [|m IH]; intros p fuel Hf Hj Hd.
  - cbn [pipe_iter] in *. destruct fuel; cbn [pipe_run pipe_run_steps]; rewrite Hd; split; reflexivity.
  - destruct fuel as [|fuel]; [lia|]. cbn [pipe_run pipe_run_steps pipe_iter].
    destruct (Hj 0%nat ltac:(lia)) as [Hnd Hok]. cbn [pipe_iter] in Hnd, Hok. rewrite Hnd.
    destruct (pipe_step p) as [p' [f|]] eqn:Hst; [discriminate Hok|]. cbn [fst] in *.
    destruct (IH p' fuel ltac:(lia)) as [H1 H2].
    + intros j Hjm. specialize (Hj (S j) ltac:(lia)). cbn [pipe_iter] in Hj. rewrite Hst in Hj. exact Hj.
    + cbn [pipe_iter] in Hd. rewrite Hst in Hd. exact Hd.
    + rewrite H1, H2. split; reflexivity.
Qed.

(** * n mutually independent ALU instructions take n + 4 cycles *)
Theorem straightline s hz : IM (im s) -> prog (im s) = P -> pc s = 0 -> exitc s = None ->
  let p0 := pipe_init s hz in
  let pN := pipe_iter (length P + 4) p0 in
  (* no step faults *)
  (forall j, (j < length P + 4)%nat -> snd (pipe_step (pipe_iter j p0)) = None) /\
  (* after n + 4 steps the pipeline is done; n instructions retired; no stall, no flush *)
  pipe_done pN = true /\
  icount (pst pN) = icount s + n /\ stalls (pst pN) = stalls s /\ flushes (pst pN) = flushes s /\
  stalled pN = None /\
  (* and (for a non-empty program) not earlier: [pipe_run] takes exactly n + 4 steps *)
  ((0 < length P)%nat ->
     (forall j, (j < length P + 4)%nat -> pipe_done (pipe_iter j p0) = false) /\
     forall fuel, (length P + 4 <= fuel)%nat ->
       pipe_run fuel p0 = (pN, PDone) /\ pipe_run_steps fuel p0 = (length P + 4)%nat).
Proof.
  intros Him Hp Hpc Hex. cbv zeta.
  pose proof (inv_init s hz Him Hp Hpc Hex) as Hi0.
  assert (Hall : forall m, Inv (icount s) (stalls s) (flushes s) (Z.of_nat m) (pipe_iter m (pipe_init s hz)) /\
                           (forall j, (j < m)%nat -> snd (pipe_step (pipe_iter j (pipe_init s hz))) = None)).
  { intros m. destruct (inv_iter _ _ _ m 0 _ ltac:(lia) Hi0) as [H1 H2].
    replace (0 + Z.of_nat m) with (Z.of_nat m) in H1 by lia. split; assumption. }
  destruct (Hall (length P + 4)%nat) as [HiN Hoks].
  assert (HdN : pipe_done (pipe_iter (length P + 4) (pipe_init s hz)) = true).
  { rewrite (inv_done _ _ _ (Z.of_nat (length P + 4)) _ ltac:(lia) HiN). unfold in_prog. fold n.
    assert (E : Z.of_nat (length P + 4) = n + 4) by (unfold n; lia). rewrite E.
    replace (n + 4 - 1 <? n) with false by lia. replace (n + 4 - 2 <? n) with false by lia.
    replace (n + 4 - 3 <? n) with false by lia. replace (n + 4 - 4 <? n) with false by lia.
    replace (n + 4 <? n) with false by lia. rewrite !Bool.andb_false_r. reflexivity. }
  split; [exact Hoks|]. split; [exact HdN|].
  destruct HiN as [_ Hstl _ _ _ _ _ Hic Hst Hfl].
  split; [rewrite Hic; unfold n; lia|]. split; [exact Hst|]. split; [exact Hfl|]. split; [exact Hstl|].
  intros Hpos.
  assert (Hnd : forall j, (j < length P + 4)%nat -> pipe_done (pipe_iter j (pipe_init s hz)) = false).
  { intros j Hj. destruct (Hall j) as [Hij _]. rewrite (inv_done _ _ _ (Z.of_nat j) _ ltac:(lia) Hij).
    assert (Hn : 0 < n) by (unfold n; lia). assert (Hjn : Z.of_nat j < n + 4) by (unfold n; lia).
    unfold in_prog. destruct (Z.of_nat j <? n) eqn:E1; [rewrite Bool.andb_false_r; reflexivity|].
    (* n <= j < n + 4: instruction n-1 sits in latch j - n *)
    apply Bool.andb_false_iff. left. apply Bool.negb_false_iff.
    assert (C : Z.of_nat j = n \/ Z.of_nat j = n + 1 \/ Z.of_nat j = n + 2 \/ Z.of_nat j = n + 3) by lia.
    destruct C as [C|[C|[C|C]]]; rewrite C.
    - replace ((0 <=? n - 1) && (n - 1 <? n)) with true by lia. reflexivity.
    - replace ((0 <=? n + 1 - 2) && (n + 1 - 2 <? n)) with true by lia. rewrite !Bool.orb_true_r. reflexivity.
    - replace ((0 <=? n + 2 - 3) && (n + 2 - 3 <? n)) with true by lia. rewrite !Bool.orb_true_r. reflexivity.
    - replace ((0 <=? n + 3 - 4) && (n + 3 - 4 <? n)) with true by lia. rewrite !Bool.orb_true_r. reflexivity. }
  split; [exact Hnd|]. intros fuel Hfuel. apply pipe_run_iter; [exact Hfuel| |exact HdN].
  intros j Hj. split; [apply Hnd; exact Hj|apply Hoks; exact Hj].
Qed.

End Straight.

(* with flat memory and no instruction cache the cycle counter reads n + 4 *)
Corollary straightline_cycles_flat_lem : forall P m s hz,
  Forall (fun i => is_alu i = true) P -> no_src_is_dst P -> (0 < length P)%nat ->
  s = init_st P (MFlat m) None ->
  forall fuel, (length P + 4 <= fuel)%nat ->
  snd (pipe_run fuel (pipe_init s hz)) = PDone /\
  cycles (pst (fst (pipe_run fuel (pipe_init s hz)))) = Z.of_nat (length P) + 4 /\
  icount (pst (fst (pipe_run fuel (pipe_init s hz)))) = Z.of_nat (length P) /\
  stalls (pst (fst (pipe_run fuel (pipe_init s hz)))) = 0 /\
  flushes (pst (fst (pipe_run fuel (pipe_init s hz)))) = 0.
Proof.
  intros P m s hz Ha Hi Hn -> fuel Hf.
  destruct (straightline no_icache no_icache_faithful P Ha Hi (init_st P (MFlat m) None) hz
              eq_refl eq_refl eq_refl eq_refl) as (_ & _ & Hic & Hst & Hfl & _ & Hrun).
  destruct (Hrun Hn) as [_ Hrun']. destruct (Hrun' fuel Hf) as [Hr Hsteps].
  pose proof (pipe_run_cycles_flat fuel (pipe_init (init_st P (MFlat m) None) hz) m eq_refl eq_refl) as Hc.
  rewrite Hsteps in Hc. rewrite Hr in *. cbn [fst snd] in *.
  split; [reflexivity|]. split; [rewrite Hc; cbn [pipe_init pst init_st cycles]; lia|].
  split; [rewrite Hic; reflexivity|]. split; [rewrite Hst; reflexivity|rewrite Hfl; reflexivity].
Qed.

(* the hypotheses are satisfiable: a checker for concrete programs *)
Lemma no_src_is_dst_check P :
  forallb (fun i => forallb (fun j => forallb (fun r =>
     match write_reg j with Some d => negb (d =? r) | None => true end) (srcs i)) P) P = true ->
  no_src_is_dst P.
Proof.
  intros H i j r Hi Hj Hr E. rewrite forallb_forall in H. specialize (H i Hi).
  rewrite forallb_forall in H. specialize (H j Hj). rewrite forallb_forall in H. specialize (H r Hr).
  rewrite E in H. rewrite Z.eqb_refl in H. discriminate.
Qed.
