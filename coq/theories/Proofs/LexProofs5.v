(* LexProofs5.v — Model/Lex.v: the instruction and line patterns respect an inserted run of blanks;
   the layout theorem for [lex_core]. *)
From Coq Require Import String.
From Coq Require Import ZArith List Bool Lia ZifyBool.
From ArchSim Require Import Model.Base Model.Fmt Model.Toy Model.Asm Model.Lex
  Proofs.LexProofs2 Proofs.LexProofs3 Proofs.LexProofs4.
Import ListNotations.
Open Scope Z_scope.

Section Gap3.
  Variables (ws b : str).
  Hypothesis Hws : blanks ws = true.
  Hypothesis Hne : ws <> [].
  Notation RSw := (RS ws b).

  Lemma weaken {A} (p : str -> option (A * str)) : resp RSw (RR ws b) p -> resp RSw RSw p.
  Proof. intros H u u' R. eapply rres_weaken; [apply rr_rs|apply H, R]. Qed.
  Lemma weaken1 (p : str -> option str) : resp1 RSw (RR ws b) p -> resp1 RSw RSw p.
  Proof. intros H u u' R. destruct (H u u' R); constructor. apply rr_rs. assumption. Qed.

  Definition reg_ss := weaken _ (p_reg_s ws b Hws Hne).
  Definition imm_ss := weaken _ (p_imm_s ws b Hws Hne).
  Definition label_ss := weaken _ (p_label_s ws b Hws Hne).
  Definition var_ss := weaken _ (p_var_s ws b Hws Hne).
  Definition quoted_ss := weaken _ (p_quoted_s ws b Hws Hne).
  Definition comma_ss := comma_s ws b Hws.
  Definition colon_ss := colon_s ws b Hws.
  Definition tl1_ss := tlit1_s ws b Hws.
  Lemma kw_ss syms : kws_ok syms = true -> kws_ne syms = true -> resp RSw RSw (kw syms).
  Proof. intros H1 H2. apply weaken, (kw_s ws b Hws Hne); assumption. Qed.
  Lemma clit_ss w : forallb is_lower (codes w) = true -> codes w <> [] -> resp1 RSw RSw (clit w).
  Proof. intros H1 H2. apply weaken1, (clit_s ws b Hws Hne); assumption. Qed.
  Lemma tlit_ss w : nosep w = true -> w <> [] -> resp1 RSw RSw (tlit w).
  Proof. intros H1 H2. apply weaken1, (tlit_s ws b Hws Hne); assumption. Qed.

  (* H : RSw u u' is replaced by the relation between the rests *)
  Ltac sx L H x :=
    let X := fresh "X" in let r := fresh "r" in let r' := fresh "r" in let Hn := fresh "Hn" in
    pose proof (L _ _ H) as X; cbv beta in X;
    match type of X with
    | rres _ ?t1 ?t2 =>
        let o1 := fresh "o" in let o2 := fresh "o" in let E1 := fresh "E" in let E2 := fresh "E" in
        remember t1 as o1 eqn:E1; remember t2 as o2 eqn:E2; destruct X as [|x r r' Hn]; clear E1 E2;
        cbv beta iota; [apply rr_none|clear H; rename Hn into H]
    end.
  Ltac su L H :=
    let X := fresh "X" in let r := fresh "r" in let r' := fresh "r" in let Hn := fresh "Hn" in
    pose proof (L _ _ H) as X; cbv beta in X;
    match type of X with
    | rres1 _ ?t1 ?t2 =>
        let o1 := fresh "o" in let o2 := fresh "o" in let E1 := fresh "E" in let E2 := fresh "E" in
        remember t1 as o1 eqn:E1; remember t2 as o2 eqn:E2; destruct X as [|r r' Hn]; clear E1 E2;
        cbv beta iota; [apply rr_none|clear H; rename Hn into H]
    end.
  Ltac fin H := constructor; exact H.
  Ltac skw T H mn p :=
    let k := fresh "k" in
    sx (kw_ss T ltac:(vm_compute; reflexivity) ltac:(vm_compute; reflexivity)) H k; destruct k as [mn p]; cbv beta iota.

  Lemma alt_r_s : resp RSw RSw alt_r.
  Proof.
    intros u u' H. unfold alt_r, ins. skw syms_r H mn p.
    sx reg_ss H a1. su comma_ss H. sx reg_ss H a2. su comma_ss H. sx reg_ss H a3. fin H.
  Qed.
  Lemma alt_u_s : resp RSw RSw alt_u.
  Proof.
    intros u u' H. unfold alt_u, ins. skw syms_u H mn p.
    sx reg_ss H a1. su comma_ss H. sx imm_ss H i. fin H.
  Qed.
  Lemma alt_b_s : resp RSw RSw alt_b.
  Proof.
    intros u u' H. unfold alt_b, ins. skw syms_b H mn p.
    sx reg_ss H a1. su comma_ss H. sx reg_ss H a2. su comma_ss H. sx label_ss H l.
    match type of H with
    | RS _ _ ?x ?y => destruct (p_offset_t ws b Hws Hne x y H) as [E1 E2];
                      destruct (p_offset x) as [o q], (p_offset y) as [o' q']
    end. cbn [fst snd] in E1, E2. subst o'. fin E2.
  Qed.
  Lemma alt_mem_s : resp RSw RSw alt_mem.
  Proof.
    intros u u' H. unfold alt_mem, ins. skw syms_mem H mn p.
    sx reg_ss H a1. su comma_ss H. sx imm_ss H i. su (tl1_ss 40) H. sx reg_ss H a2. su (tl1_ss 41) H. fin H.
  Qed.
  Lemma alt_memp_s : resp RSw RSw alt_memp.
  Proof.
    intros u u' H. unfold alt_memp, ins. skw syms_memp H mn p.
    sx reg_ss H a1. su comma_ss H. sx var_ss H v. fin H.
  Qed.
  Lemma alt_sp_s : resp RSw RSw alt_sp.
  Proof.
    intros u u' H. unfold alt_sp, ins. skw syms_sp H mn p.
    sx reg_ss H a1. su comma_ss H. sx var_ss H v. su comma_ss H. sx reg_ss H a2. fin H.
  Qed.
  Lemma alt_csr_s : resp RSw RSw alt_csr.
  Proof.
    intros u u' H. unfold alt_csr, ins. skw syms_csr H mn p.
    sx reg_ss H a1. su comma_ss H. sx imm_ss H c. su comma_ss H. sx reg_ss H a2. fin H.
  Qed.
  Lemma alt_csri_s : resp RSw RSw alt_csri.
  Proof.
    intros u u' H. unfold alt_csri, ins. skw syms_csri H mn p.
    sx reg_ss H a1. su comma_ss H. sx imm_ss H c. su comma_ss H. sx imm_ss H i. fin H.
  Qed.
  Lemma alt_rri_s : resp RSw RSw alt_rri.
  Proof.
    intros u u' H. unfold alt_rri, ins. skw syms_rri H mn p.
    sx reg_ss H a1. su comma_ss H. sx reg_ss H a2. su comma_ss H. sx imm_ss H i. fin H.
  Qed.
  Lemma alt_rr_s : resp RSw RSw alt_rr.
  Proof.
    intros u u' H. unfold alt_rr, ins. skw syms_rr H mn p.
    sx reg_ss H a1. su comma_ss H. sx reg_ss H a2. fin H.
  Qed.

  Ltac ok := vm_compute; first [reflexivity|discriminate].
  (* both continuations are kept *)
  Ltac sx2 L H x q q' Hq :=
    let X := fresh "X" in
    pose proof (L _ _ H) as X; cbv beta in X;
    match type of X with
    | rres _ ?t1 ?t2 =>
        let o1 := fresh "o" in let o2 := fresh "o" in let E1 := fresh "E" in let E2 := fresh "E" in
        remember t1 as o1 eqn:E1; remember t2 as o2 eqn:E2; destruct X as [|x q q' Hq]; clear E1 E2; cbv beta iota
    | rres1 _ ?t1 ?t2 =>
        let o1 := fresh "o" in let o2 := fresh "o" in let E1 := fresh "E" in let E2 := fresh "E" in
        remember t1 as o1 eqn:E1; remember t2 as o2 eqn:E2; destruct X as [|q q' Hq]; clear E1 E2; cbv beta iota
    end.
  Ltac offs H :=
    let E1 := fresh "E" in let E2 := fresh "E" in
    match type of H with
    | RS _ _ ?x ?y => destruct (p_offset_t ws b Hws Hne x y H) as [E1 E2];
                      destruct (p_offset x) as [?o ?q], (p_offset y) as [?o ?q];
                      cbn [fst snd] in E1, E2; subst; constructor; exact E2
    end.

  Lemma alt_fence_s : resp RSw RSw alt_fence.
  Proof.
    intros u u' H. unfold alt_fence, ins. su (clit_ss "fence"%string ltac:(ok) ltac:(ok)) H.
    sx reg_ss H a1. su comma_ss H. sx reg_ss H a2. fin H.
  Qed.
  Lemma alt_li_s : resp RSw RSw alt_li.
  Proof.
    intros u u' H. unfold alt_li, ins. su (clit_ss "li"%string ltac:(ok) ltac:(ok)) H.
    sx reg_ss H a1. su comma_ss H. sx imm_ss H i. fin H.
  Qed.
  Lemma alt_nop_s : resp RSw RSw alt_nop.
  Proof. intros u u' H. unfold alt_nop. su (clit_ss "nop"%string ltac:(ok) ltac:(ok)) H. fin H. Qed.
  Lemma alt_ecall_s : resp RSw RSw alt_ecall.
  Proof.
    intros u u' H. unfold alt_ecall. sx2 (clit_ss "ecall"%string ltac:(ok) ltac:(ok)) H x q q' Hq; [|fin Hq].
    su (clit_ss "ebreak"%string ltac:(ok) ltac:(ok)) H. fin H.
  Qed.
  Lemma alt_jal_s : resp RSw RSw alt_jal.
  Proof.
    intros u u' H. unfold alt_jal, ins. su (clit_ss "jal"%string ltac:(ok) ltac:(ok)) H.
    sx reg_ss H a1. su comma_ss H. sx2 imm_ss H i q q' Hq; [|fin Hq].
    sx label_ss H l. offs H.
  Qed.

  (** Or: longest match, first among equals *)
  Lemma better_s {A} (x x' y y' : option (A * str)) :
    rres RSw x x' -> rres RSw y y' -> rres RSw (better x y) (better x' y').
  Proof.
    intros [|v r r' Hr] [|w q q' Hq]; unfold better; try constructor; try assumption.
    rewrite (RS_cmp ws b Hws Hne r r' q q' Hr Hq). destruct (Nat.ltb (List.length q') (List.length r')); constructor; assumption.
  Qed.
  Lemma or_longest_s {A} (l l' : list (option (A * str))) :
    Forall2 (rres RSw) l l' -> rres RSw (or_longest l) (or_longest l').
  Proof.
    unfold or_longest. assert (G : rres RSw (@None (A * str)) None) by constructor. revert G.
    generalize (@None (A * str)) at 1 3. generalize (@None (A * str)). intros acc' acc G F. revert acc acc' G.
    induction F as [|x x' l l' Hx F IH]; intros acc acc' G; [exact G|].
    cbn [fold_left]. apply IH. apply better_s; assumption.
  Qed.

  Lemma instr_alts_s u u' : RSw u u' ->
    Forall2 (rres RSw) (map (fun a => a u) instr_alts) (map (fun a => a u') instr_alts).
  Proof.
    intros H. unfold instr_alts. cbn [map].
    repeat (apply Forall2_cons; [first [apply alt_r_s|apply alt_u_s|apply alt_b_s|apply alt_mem_s|apply alt_memp_s
      |apply alt_sp_s|apply alt_csr_s|apply alt_csri_s|apply alt_rri_s|apply alt_fence_s|apply alt_jal_s
      |apply alt_ecall_s|apply alt_nop_s|apply alt_li_s|apply alt_rr_s]; exact H|]).
    apply Forall2_nil.
  Qed.

  Lemma alt_instruction_s : resp RSw RSw alt_instruction.
  Proof.
    intros u u' H. unfold alt_instruction.
    destruct (p_inline_t ws b Hws Hne u u' H) as [E1 E2].
    destruct (p_inline u) as [il r], (p_inline u') as [il' r']. cbn [fst snd] in E1, E2. subst il'.
    pose proof (or_longest_s _ _ (instr_alts_s r r' E2)) as X.
    remember (or_longest (map (fun a => a r) instr_alts)) as o1 eqn:F1.
    remember (or_longest (map (fun a => a r') instr_alts)) as o2 eqn:F2.
    destruct X as [|pb q q' Hq]; constructor. exact Hq.
  Qed.

  (** the other line patterns *)
  Lemma dirs_ok : syms_ok [codes "text"%string; codes "data"%string] = true.  Proof. vm_compute. reflexivity. Qed.
  Lemma types_ok : syms_ok [codes "byte"%string; codes "half"%string; codes "word"%string] = true.  Proof. vm_compute. reflexivity. Qed.
  Lemma best_skip_s syms : syms_ok syms = true -> resp RSw RSw (fun s => lit_best syms (skip_ws s)).
  Proof.
    intros Hs. apply weaken. apply (skipped_s ws b Hws (lit_best syms)).
    - apply lit_best_r; assumption.
    - apply (lit_best_cons ws Hws), Hs.
  Qed.
  Lemma digits_skip_s : resp RSw RSw (fun s => span1 is_digit (skip_ws s)).
  Proof.
    apply weaken. apply (skipped_s ws b Hws (span1 is_digit)).
    - apply span1_r; [assumption..|apply sep_digit].
    - apply (span1_cons ws Hws).
  Qed.

  Lemma alt_directive_s : resp RSw RSw alt_directive.
  Proof.
    intros u u' H. unfold alt_directive. su (tl1_ss 46) H. sx (best_skip_s _ dirs_ok) H w. fin H.
  Qed.
  Lemma p_decl_head_s : resp RSw RSw p_decl_head.
  Proof.
    intros u u' H. unfold p_decl_head. sx label_ss H n. su colon_ss H. su (tl1_ss 46) H. fin H.
  Qed.
  Lemma alt_strdecl_s : resp RSw RSw alt_strdecl.
  Proof.
    intros u u' H. unfold alt_strdecl. sx p_decl_head_s H n.
    su (tlit_ss (codes "string"%string) ltac:(ok) ltac:(ok)) H. sx quoted_ss H q. fin H.
  Qed.
  Lemma alt_zerodecl_s : resp RSw RSw alt_zerodecl.
  Proof.
    intros u u' H. unfold alt_zerodecl. sx p_decl_head_s H n.
    su (tlit_ss (codes "zero"%string) ltac:(ok) ltac:(ok)) H. sx digits_skip_s H d. fin H.
  Qed.
  Lemma alt_labeldecl_s : resp RSw RSw alt_labeldecl.
  Proof. intros u u' H. unfold alt_labeldecl. sx label_ss H n. su colon_ss H. fin H. Qed.
  Lemma imm_tail_nil k : imm_tail k [] = ([], []).
  Proof. destruct k; reflexivity. Qed.
  Lemma imm_tail_fuel : forall f f' s, (List.length s <= f)%nat -> (List.length s <= f')%nat ->
    imm_tail f s = imm_tail f' s.
  Proof.
    induction f as [|f IH]; intros f' s L L'.
    - destruct s; [|cbn in L; lia]. rewrite !imm_tail_nil. reflexivity.
    - destruct f' as [|f'].
      + destruct s; [|cbn in L'; lia]. rewrite !imm_tail_nil. reflexivity.
      + cbn [imm_tail]. destruct (comma s) as [r|] eqn:E1; [|reflexivity].
        destruct (p_imm r) as [[i r']|] eqn:E2; [|reflexivity].
        apply (comma_len ws Hws) in E1. apply (p_imm_len ws Hws) in E2. rewrite (IH f' r') by lia. reflexivity.
  Qed.
  Lemma alt_vardecl_s : resp RSw RSw alt_vardecl.
  Proof.
    intros u u' H. unfold alt_vardecl. sx p_decl_head_s H n. sx (best_skip_s _ types_ok) H w. sx imm_ss H i.
    match type of H with
    | RS _ _ ?x ?y =>
        rewrite (imm_tail_fuel (List.length x) (List.length x + List.length y) x) by lia;
        rewrite (imm_tail_fuel (List.length y) (List.length x + List.length y) y) by lia;
        destruct (imm_tail_t ws b Hws Hne (List.length x + List.length y) x y
                    (List.length x + List.length y) (List.length x + List.length y)) as [E1 E2];
        try lia; try exact H;
        destruct (imm_tail (List.length x + List.length y) x) as [l1 q1];
        destruct (imm_tail (List.length x + List.length y) y) as [l2 q2]
    end.
    cbn [fst snd] in E1, E2. subst l2. fin E2.
  Qed.

  Theorem lex_core_gap_ne s1 : noquote s1 = true ->
    (s1 = [] \/ sep (last s1 0) = true \/ hd_sep b = true) ->
    lex_core (s1 ++ ws ++ b) = lex_core (s1 ++ b).
  Proof.
    intros Hq Hb.
    assert (H : RSw (s1 ++ ws ++ b) (s1 ++ b)).
    { destruct s1 as [|c t] eqn:E.
      - right. split; reflexivity.
      - left. rewrite <- E in *. apply G_mk; [exact Hq|]. rewrite E. cbn [cond]. rewrite <- E.
        destruct Hb as [Hb|Hb]; [subst; discriminate|exact Hb]. }
    unfold lex_core.
    assert (F : Forall2 (rres RSw)
      [alt_directive (s1 ++ ws ++ b); alt_vardecl (s1 ++ ws ++ b); alt_strdecl (s1 ++ ws ++ b);
       alt_zerodecl (s1 ++ ws ++ b); alt_instruction (s1 ++ ws ++ b); alt_labeldecl (s1 ++ ws ++ b)]
      [alt_directive (s1 ++ b); alt_vardecl (s1 ++ b); alt_strdecl (s1 ++ b);
       alt_zerodecl (s1 ++ b); alt_instruction (s1 ++ b); alt_labeldecl (s1 ++ b)]).
    { repeat (apply Forall2_cons; [first [apply alt_directive_s|apply alt_vardecl_s|apply alt_strdecl_s
        |apply alt_zerodecl_s|apply alt_instruction_s|apply alt_labeldecl_s]; exact H|]). apply Forall2_nil. }
    pose proof (or_longest_s _ _ F) as X.
    match type of X with rres _ ?t1 ?t2 => remember t1 as o1 eqn:F1; remember t2 as o2 eqn:F2 end.
    destruct X as [|[ok l] r r' Hr]; [reflexivity|].
    pose proof (RS_end ws b Hws r r' Hr) as K.
    destruct (skip_ws r) as [|c t], (skip_ws r') as [|c' t']; try reflexivity.
    - destruct K as [K _]. specialize (K eq_refl). discriminate.
    - destruct K as [_ K]. specialize (K eq_refl). discriminate.
  Qed.
End Gap3.

(* (a) inner part, on a sanitised and tab-expanded line: a run of blanks inserted (or removed) at a position that
   is next to a separator  , ( ) : + .  or a blank — or at the very beginning — and not after a quote character *)
Theorem lex_core_gap s1 ws s2 :
  blanks ws = true -> noquote s1 = true ->
  (s1 = [] \/ sep (last s1 0) = true \/ hd_sep s2 = true) ->
  lex_core (s1 ++ ws ++ s2) = lex_core (s1 ++ s2).
Proof.
  intros Hws Hq Hb. destruct ws as [|v ws'] eqn:E; [reflexivity|]. rewrite <- E in *.
  apply lex_core_gap_ne; [exact Hws|subst; discriminate|exact Hq|exact Hb].
Qed.
