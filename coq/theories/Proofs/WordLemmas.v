(* WordLemmas.v — arithmetic facts relating the fixedint-shaped model to plain arithmetic *)
From Coq Require Import Lia ZifyBool.
From ArchSim Require Import Model.Base.
Open Scope Z_scope.

Ltac Zify.zify_post_hook ::= Z.to_euclidean_division_equations.

Definition in32 (a : Z) : Prop := 0 <= a < 4294967296.

Lemma two32 : 2 ^ 32 = 4294967296. Proof. reflexivity. Qed.
Lemma two31 : 2 ^ 31 = 2147483648. Proof. reflexivity. Qed.

Lemma U32_eq z : U32 z = z mod 4294967296.
Proof. reflexivity. Qed.
Lemma U32_range z : in32 (U32 z).
Proof. unfold in32; rewrite U32_eq; lia. Qed.
Lemma U32_id a : in32 a -> U32 a = a.
Proof. unfold in32; rewrite U32_eq; intros; lia. Qed.
Lemma U16_eq z : U16 z = z mod 65536. Proof. reflexivity. Qed.
Lemma U8_eq z : U8 z = z mod 256. Proof. reflexivity. Qed.

Lemma I32_eq z : I32 z = let u := z mod 4294967296 in if u <? 2147483648 then u else u - 4294967296.
Proof. reflexivity. Qed.
Lemma I16_eq z : I16 z = let u := z mod 65536 in if u <? 32768 then u else u - 65536.
Proof. reflexivity. Qed.
Lemma I8_eq z : I8 z = let u := z mod 256 in if u <? 128 then u else u - 256.
Proof. reflexivity. Qed.

Lemma I32_range z : -2147483648 <= I32 z < 2147483648.
Proof. rewrite I32_eq; cbv zeta; destruct (_ <? _) eqn:E; lia. Qed.
Lemma I32_small z : -2147483648 <= z < 2147483648 -> I32 z = z.
Proof. intros; rewrite I32_eq; cbv zeta; destruct (_ <? _) eqn:E; lia. Qed.
Lemma I16_small z : -32768 <= z < 32768 -> I16 z = z.
Proof. intros; rewrite I16_eq; cbv zeta; destruct (_ <? _) eqn:E; lia. Qed.
Lemma U32_I32 z : U32 (I32 z) = U32 z.
Proof. rewrite I32_eq, !U32_eq; cbv zeta; destruct (_ <? _) eqn:E; lia. Qed.
Lemma I32_U32 z : I32 (U32 z) = I32 z.
Proof. rewrite !I32_eq, !U32_eq; cbv zeta. replace ((z mod 4294967296) mod 4294967296) with (z mod 4294967296) by lia. reflexivity. Qed.
Lemma I32_mod z : I32 z mod 4294967296 = z mod 4294967296.
Proof. apply U32_I32. Qed.

(** shifts *)
Lemma shl_mul a n : 0 <= n -> Z.shiftl a n = a * 2 ^ n.
Proof. intros; apply Z.shiftl_mul_pow2; assumption. Qed.
Lemma shr_div a n : 0 <= n -> Z.shiftr a n = a / 2 ^ n.
Proof. intros; apply Z.shiftr_div_pow2; assumption. Qed.

(** bitwise operations stay inside 32 bits *)
Lemma mod32_land z : z mod 4294967296 = Z.land z (Z.ones 32).
Proof. rewrite Z.land_ones by lia. reflexivity. Qed.

Lemma land_in32 a b : in32 a -> in32 b -> in32 (Z.land a b).
Proof.
  unfold in32; intros Ha Hb.
  assert (H: Z.land a b = Z.land a b mod 4294967296).
  { rewrite mod32_land. rewrite <- Z.land_assoc.
    replace (Z.land b (Z.ones 32)) with b; [reflexivity|].
    rewrite <- mod32_land. lia. }
  rewrite H; lia.
Qed.
Lemma lor_in32 a b : in32 a -> in32 b -> in32 (Z.lor a b).
Proof.
  unfold in32; intros Ha Hb.
  assert (H: Z.lor a b = Z.lor a b mod 4294967296).
  { rewrite mod32_land. rewrite Z.land_lor_distr_l. rewrite <- !mod32_land.
    replace (a mod 4294967296) with a by lia. replace (b mod 4294967296) with b by lia. reflexivity. }
  rewrite H; lia.
Qed.
Lemma lxor_in32 a b : in32 a -> in32 b -> in32 (Z.lxor a b).
Proof.
  unfold in32; intros Ha Hb.
  assert (H: Z.lxor a b = Z.lxor a b mod 4294967296).
  { rewrite mod32_land.
    assert (D: Z.land (Z.lxor a b) (Z.ones 32) = Z.lxor (Z.land a (Z.ones 32)) (Z.land b (Z.ones 32))).
    { apply Z.bits_inj'; intros i Hi. rewrite Z.land_spec, !Z.lxor_spec, !Z.land_spec.
      destruct (Z.testbit a i), (Z.testbit b i), (Z.testbit (Z.ones 32) i); reflexivity. }
    rewrite D, <- !mod32_land.
    replace (a mod 4294967296) with a by lia. replace (b mod 4294967296) with b by lia. reflexivity. }
  rewrite H; lia.
Qed.

(** disjoint or is addition *)
Lemma lor_add_disjoint acc v n :
  0 <= n -> 0 <= acc < 2 ^ n -> 0 <= v -> Z.lor acc (Z.shiftl v n) = acc + v * 2 ^ n.
Proof.
  intros Hn Hacc Hv.
  rewrite <- shl_mul by assumption.
  rewrite <- Z.lxor_lor, <- Z.add_nocarry_lxor; try reflexivity.
  all: apply Z.bits_inj'; intros i Hi; rewrite Z.land_spec, Z.bits_0;
    destruct (Z.ltb_spec i n) as [Hlt|Hge].
  1,3: rewrite (Z.shiftl_spec_low v n i) by assumption; apply andb_false_r.
  all: replace acc with (acc mod 2 ^ n) by (apply Z.mod_small; assumption);
    rewrite Z.mod_pow2_bits_high by lia; reflexivity.
Qed.

(** masks *)
Lemma land_255 v : Z.land v 255 = v mod 256.
Proof. change 255 with (Z.ones 8). rewrite Z.land_ones by lia. reflexivity. Qed.
Lemma land_ones_mod v n : 0 <= n -> Z.land v (2 ^ n - 1) = v mod 2 ^ n.
Proof.
  intros. replace (2 ^ n - 1) with (Z.ones n) by (rewrite Z.ones_equiv; unfold Z.pred; ring).
  rewrite Z.land_ones by assumption. reflexivity.
Qed.

(* JALR: clearing bit 0 of the wrapped sum *)
Lemma land_clear_bit0 y : Z.land y (2 ^ 32 - 2) = 2 * ((y mod 4294967296) / 2).
Proof.
  assert (H: Z.land y (2 ^ 32 - 2) = Z.shiftl (Z.land (Z.shiftr y 1) (Z.ones 31)) 1).
  { apply Z.bits_inj'; intros i Hi.
    rewrite Z.land_spec.
    destruct (Z.eq_dec i 0) as [->|Hnz].
    - rewrite Z.shiftl_spec_low by lia. change (Z.testbit (2 ^ 32 - 2) 0) with false. apply andb_false_r.
    - rewrite Z.shiftl_spec by lia. rewrite Z.land_spec, Z.shiftr_spec by lia.
      replace (i - 1 + 1) with i by lia. f_equal.
      change (2 ^ 32 - 2) with (Z.shiftl (Z.ones 31) 1).
      rewrite Z.shiftl_spec by lia. reflexivity. }
  rewrite H. rewrite Z.land_ones by lia. rewrite shl_mul, shr_div by lia.
  change (2 ^ 1) with 2. change (2 ^ 31) with 2147483648. lia.
Qed.

(** the constructors' sign-extension formulas *)
Lemma land_pow2_bit v n : 0 <= n -> Z.land v (2 ^ n) = ((v / 2 ^ n) mod 2) * 2 ^ n.
Proof.
  intros Hn.
  replace (2 ^ n) with (Z.shiftl 1 n) at 1 by (rewrite shl_mul by assumption; lia).
  assert (Z.land v (Z.shiftl 1 n) = Z.shiftl (Z.land (Z.shiftr v n) 1) n) as ->.
  { apply Z.bits_inj'; intros i Hi.
    rewrite Z.land_spec. destruct (Z.ltb_spec i n).
    - rewrite !Z.shiftl_spec_low by assumption. apply andb_false_r.
    - rewrite !Z.shiftl_spec by lia. rewrite Z.land_spec, Z.shiftr_spec by lia.
      replace (i - n + n) with i by lia. reflexivity. }
  change 1 with (Z.ones 1) at 1. rewrite Z.land_ones by lia.
  rewrite shl_mul, shr_div by assumption. change (2 ^ 1) with 2. reflexivity.
Qed.

Lemma sext_formula v n :
  0 < n -> Z.land v (2 ^ (n - 1) - 1) - Z.land v (2 ^ (n - 1)) =
           let u := v mod 2 ^ n in if u <? 2 ^ (n - 1) then u else u - 2 ^ n.
Proof.
  intros Hn. rewrite land_ones_mod by lia. rewrite land_pow2_bit by lia. cbv zeta.
  replace (2 ^ n) with (2 ^ (n - 1) * 2)
    by (rewrite Z.mul_comm, <- Z.pow_succ_r by lia; f_equal; lia).
  assert (Hp: 0 < 2 ^ (n - 1)) by (apply Z.pow_pos_nonneg; lia).
  set (P := 2 ^ (n - 1)) in *.
  rewrite (Z.rem_mul_r v P 2) by lia.
  assert (0 <= v mod P < P) by (apply Z.mod_pos_bound; lia).
  assert (Hq: 0 <= (v / P) mod 2 < 2) by (apply Z.mod_pos_bound; lia).
  set (q := (v / P) mod 2) in *. set (r := v mod P) in *.
  assert (Hq': q = 0 \/ q = 1) by lia.
  destruct Hq' as [-> | ->]; destruct (_ <? _) eqn:E; lia.
Qed.
