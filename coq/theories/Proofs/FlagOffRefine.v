(* FlagOffRefine.v — property C08, phase B, part 3: the main corollary.  For a program of
   supported instructions whose register dependencies are at least three instructions apart
   ([dep_free_weak], a fortiori [dep_free]) the pipeline WITHOUT hazard detection refines the
   single-cycle machine, with the same statement as [pipe_refines_single]: it runs cycle by
   cycle like the pipeline with hazard detection ([erase_run]), whose interlock never fires. *)
From Coq Require Import Lia ZifyBool.
From ArchSim Require Import Model.Base Model.Mem Model.Cache Model.Fmt Model.RV Model.Single
  Model.RVSplit Model.Pipe Proofs.C01Step Proofs.SplitExec Proofs.PipeLaws Proofs.PipeShape
  Proofs.PipeInv Proofs.PipeRefine Proofs.FlagOffDep Proofs.FlagOffSim.
Open Scope Z_scope.

Lemma clr1_lat_nonempty l j : nonempty (lat_at (clr1 l) j) = nonempty (lat_at l j).
Proof.
  unfold lat_at, nthZ. destruct l as [|a [|b t]]; try reflexivity. cbn [clr1].
  destruct (Z.to_nat j) as [|[|k]]; cbn [nth]; [reflexivity|apply un_nonempty|reflexivity].
Qed.

Lemma clr1_lat_4 l : some_addr (lat_at (clr1 l) 4) = some_addr (lat_at l 4).
Proof. destruct l as [|a [|b t]]; reflexivity. Qed.

Lemma erase_done p : pipe_done (erase p) = pipe_done p.
Proof.
  unfold pipe_done, pipe_empty. cbn [erase pst lat]. rewrite !clr1_lat_nonempty. reflexivity.
Qed.

Lemma erase_init s : pipe_init s false = erase (pipe_init s true).
Proof. reflexivity. Qed.

Section Run.
Variable P : list instr.
Hypothesis HD : dep_free_weak P = true.

(* lock step: same cycles, same latches (up to the erased flag), same architectural state *)
Lemma erase_run c : forall p, K P p ->
  pipe_run c (erase p) = (erase (fst (pipe_run c p)), snd (pipe_run c p)).
Proof.
  induction c as [|c IH]; intros p HK; cbn [pipe_run]; rewrite erase_done.
  - destruct (pipe_done p); reflexivity.
  - destruct (pipe_done p); [reflexivity|].
    destruct (erase_step P HD p HK) as [E HK']. rewrite E.
    destruct (pipe_step p) as [p' [f|]]; cbn [fst snd] in *; [reflexivity|].
    apply IH. apply HK'. reflexivity.
Qed.

Lemma erase_trace c : forall p, K P p -> pipe_trace c (erase p) = pipe_trace c p.
Proof.
  induction c as [|c IH]; intros p HK; cbn [pipe_trace]; [reflexivity|]. rewrite erase_done.
  destruct (pipe_done p); [reflexivity|].
  destruct (erase_step P HD p HK) as [E HK']. rewrite E.
  destruct (pipe_step p) as [p' [f|]]; cbn [fst snd] in *; [reflexivity|].
  cbn [erase lat]. rewrite clr1_lat_4. f_equal. apply IH. apply HK'. reflexivity.
Qed.

(* the interlock of the flag-ON pipeline never fires on such a program: no ID stall ever *)
Lemma K_run c : forall p, K P p -> snd (pipe_run c p) <> POutOfFuel ->
  (forall f, snd (pipe_run c p) <> PFaulted f) -> K P (fst (pipe_run c p)).
Proof.
  induction c as [|c IH]; intros p HK Hne Hnf; cbn [pipe_run] in *.
  - destruct (pipe_done p); exact HK.
  - destruct (pipe_done p); [exact HK|].
    destruct (erase_step P HD p HK) as [_ HK'].
    destruct (pipe_step p) as [p' [f|]]; cbn [fst snd] in *; [exfalso; exact (Hnf f eq_refl)|].
    apply IH; [apply HK'; reflexivity|assumption|assumption].
Qed.

End Run.

(** * The main corollary *)
Theorem flagoff_refines_single_weak P s n :
  Forall (fun i => supported i = true) P -> wf s -> prog (im s) = P -> dep_free_weak P = true ->
  match single_run n s with
  | (s', Done) => exists c p, (c <= 8 * n + 8)%nat /\
      pipe_run c (pipe_init s false) = (p, PDone) /\ arch_agree p s' /\
      pipe_trace c (pipe_init s false) = single_trace n s
  | (s', Faulted f) => exists c p, (c <= 8 * n + 8)%nat /\
      pipe_run c (pipe_init s false) = (p, PFaulted f) /\
      regs (pst p) = regs s' /\ ms (pst p) = ms s' /\ out (pst p) = out s'
  | (_, OutOfFuel) => True
  end.
Proof.
  intros HS W HP HD. pose proof (pipe_refines_single_lem P s n HS W HP) as H.
  pose proof (K_init P s (wf_noic s W) HP) as HK.
  rewrite erase_init.
  destruct (single_run n s) as [s' [|f|]]; [| |exact Logic.I].
  - destruct H as (c & p & Hc & Hrun & Hag & Htr). exists c, (erase p).
    split; [exact Hc|]. rewrite (erase_run P HD c _ HK), (erase_trace P HD c _ HK), Hrun.
    split; [reflexivity|]. split; [exact Hag|exact Htr].
  - destruct H as (c & p & Hc & Hrun & Hr & Hm & Ho). exists c, (erase p).
    split; [exact Hc|]. rewrite (erase_run P HD c _ HK), Hrun.
    split; [reflexivity|]. repeat split; assumption.
Qed.

Theorem flagoff_refines_single P s n :
  Forall (fun i => supported i = true) P -> wf s -> prog (im s) = P -> dep_free P = true ->
  match single_run n s with
  | (s', Done) => exists c p, (c <= 8 * n + 8)%nat /\
      pipe_run c (pipe_init s false) = (p, PDone) /\ arch_agree p s' /\
      pipe_trace c (pipe_init s false) = single_trace n s
  | (s', Faulted f) => exists c p, (c <= 8 * n + 8)%nat /\
      pipe_run c (pipe_init s false) = (p, PFaulted f) /\
      regs (pst p) = regs s' /\ ms (pst p) = ms s' /\ out (pst p) = out s'
  | (_, OutOfFuel) => True
  end.
Proof. intros HS W HP HD. exact (flagoff_refines_single_weak P s n HS W HP (dep_free_weaken P HD)). Qed.

(* lock step with the hazard-detecting pipeline, as a statement of its own: same number of
   cycles, same final architectural state, same retire list, same run end *)
Theorem flagoff_lockstep P s c : wf s -> prog (im s) = P -> dep_free_weak P = true ->
  pipe_run c (pipe_init s false) =
    (erase (fst (pipe_run c (pipe_init s true))), snd (pipe_run c (pipe_init s true))) /\
  pipe_trace c (pipe_init s false) = pipe_trace c (pipe_init s true).
Proof.
  intros W HP HD. pose proof (K_init P s (wf_noic s W) HP) as HK. rewrite erase_init.
  split; [apply (erase_run P HD c _ HK)|apply (erase_trace P HD c _ HK)].
Qed.

Lemma erase_keeps_lem p : pst (erase p) = pst p /\ stalled (erase p) = stalled p /\
  hazards (erase p) = false /\ pipe_done (erase p) = pipe_done p.
Proof. repeat split. apply erase_done. Qed.
