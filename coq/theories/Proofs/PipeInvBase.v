(* PipeInvBase.v — supporting lemmas for the simulation invariant of PipeInv.v:
   the single-cycle step in pipeline vocabulary ([sstep_flow], [flow_stages]), congruence of the
   stage functions in the parts of the state they read, register frames. *)
From Coq Require Import Lia ZifyBool.
From ArchSim Require Import Model.Base Model.Mem Model.Cache Model.Fmt Model.RV Model.Single
  Model.RVSplit Model.Pipe Proofs.WordLemmas Proofs.C01Step Proofs.SplitExec Proofs.C02Split
  Proofs.PipeLaws Proofs.PipeShape Proofs.PipeInv.
Open Scope Z_scope.

Ltac Zify.zify_post_hook ::= Z.to_euclidean_division_equations.
Local Arguments Z.mul : simpl never.
Local Arguments Z.add : simpl never.
Local Arguments Z.sub : simpl never.
Local Arguments Z.div : simpl never.
Local Arguments Z.modulo : simpl never.
Local Arguments Z.land : simpl never.
Local Arguments Z.shiftl : simpl never.
Local Arguments Z.shiftr : simpl never.
Local Arguments Z.pow : simpl never.

(** * [pre] *)
Lemma pre_pc t : pc (pre t) = pc t. Proof. reflexivity. Qed.
Lemma pre_regs t : regs (pre t) = regs t. Proof. reflexivity. Qed.
Lemma pre_ms t : ms (pre t) = ms t. Proof. reflexivity. Qed.
Lemma pre_im t : im (pre t) = im t. Proof. reflexivity. Qed.
Lemma pre_out t : out (pre t) = out t. Proof. reflexivity. Qed.
Lemma pre_exitc t : exitc (pre t) = exitc t. Proof. reflexivity. Qed.
Lemma pre_bcount t : bcount (pre t) = bcount t. Proof. reflexivity. Qed.
Lemma pre_pcount t : pcount (pre t) = pcount t. Proof. reflexivity. Qed.
Lemma pre_icount t : icount (pre t) = icount t + 1. Proof. reflexivity. Qed.

Lemma wf_pre t : wf t -> wf (pre t).
Proof. apply wf_proj; reflexivity. Qed.

Definition mkfault (a : Z) (i : instr) (e : err) : fault := {| f_addr := a; f_instr := i; f_err := e |}.

(* one single-cycle step is [behavior] on [pre], then pc += 4 *)
Lemma sstep_eq t i : wf t -> instr_at (prog (im t)) (pc t) = Some i ->
  single_pipeline_step t =
  match behavior i (pre t) with
  | (s2, Some e) => (s2, Some (mkfault (pc t) i e))
  | (s2, None) => (with_pc s2 (pc s2 + 4), None)
  end.
Proof.
  intros W Hi. unfold single_pipeline_step, single_stage.
  set (sc := with_cycles t (cycles t + 1)).
  change (im sc) with (im t). change (pc sc) with (pc t).
  unfold has_instr. rewrite Hi.
  change (pc (with_icount sc (icount sc + 1))) with (pc t).
  rewrite fetch_nocache by (apply (wf_noic t W)).
  change (prog (im (with_icount sc (icount sc + 1)))) with (prog (im t)). rewrite Hi.
  change (with_cycles (with_im (with_icount sc (icount sc + 1)) (im (with_icount sc (icount sc + 1))))
            (cycles (with_icount sc (icount sc + 1)) + 0)) with (pre t).
  destruct (behavior i (pre t)) as [s2 [e|]] eqn:Hb; [reflexivity|].
  destruct i; try reflexivity.
  destruct (instr_at_some t _ W Hi) as [_ Hwi].
  destruct (load_reread o rd rs1 imm (pre t) s2 (wf_pre t W)) as [v Hv]; [apply Hwi|exact Hb|].
  unfold load_addr_pre. rewrite Hv. reflexivity.
Qed.

(** * [flow] on [pre t] is the chain ex_on / mem_on / wb_on from [dsl t i] *)
Lemma flow_pre t i :
  flow i (pre t) =
  match ex_on (Some (dsl t i)) None None (pre t) with
  | (_, s1, Some e) => (s1, None, Some e)
  | (e, s1, None) =>
      match mem_on e s1 with
      | (_, s2, Some er) => (s2, None, Some er)
      | (m, s2, None) =>
          match wb_on m s2 with
          | (_, s3, Some er) => (s3, None, Some er)
          | (_, s3, None) => (s3, flush_of m, None)
          end
      end
  end.
Proof.
  unfold flow. rewrite stage_id_on.
  change (lat_at [Some (slot_if i (pc (pre t))); None; None; None; None] 0) with (Some (slot_if i (pc t))).
  change (lat_at [Some (slot_if i (pc (pre t))); None; None; None; None] 1) with (@None slot).
  change (lat_at [Some (slot_if i (pc (pre t))); None; None; None; None] 2) with (@None slot).
  rewrite id_on_some. reflexivity.
Qed.

(* the single-cycle step in terms of [flow] *)
Lemma sstep_flow t i : wf t -> instr_at (prog (im t)) (pc t) = Some i -> supported i = true ->
  match flow i (pre t) with
  | (tf, r, Some e) => single_pipeline_step t = (tf, Some (mkfault (pc t) i e)) /\ r = None
  | (tf, r, None) =>
      exists sb, behavior i (pre t) = (sb, None) /\
        single_pipeline_step t = (with_pc sb (pc sb + 4), None) /\
        tf = with_icount (with_pc sb (pc t)) (icount t + 1 + 1) /\
        next_pc (pre t) r = pc sb + 4 /\ icount sb = icount t + 1
  end.
Proof.
  intros W Hi Hs. destruct (instr_at_some t _ W Hi) as [_ Hwi].
  pose proof (split_core i (pre t) Hwi (wf_r _ (wf_pre t W))) as H.
  assert (Hm : mem_words_ok (ms (pre t))).
  { destruct (wf_flat _ (wf_pre t W)) as [m ->]. exact Logic.I. }
  specialize (H Hm Hs). rewrite (sstep_eq t i W Hi).
  destruct (behavior i (pre t)) as [sb [e|]].
  - rewrite H. split; reflexivity.
  - destruct H as (r & -> & Hn & Hic). exists sb. repeat split; assumption.
Qed.

(** * WB of a supported instruction never raises *)
Lemma wb_never_faults t i s x2 te x3 tm s' : supported i = true ->
  ex_on (Some (dsl t i)) None None s = (Some x2, te, None) ->
  mem_on (Some x2) te = (Some x3, tm, None) ->
  exists tw, wb_on (Some x3) s' = (Some (wb_slot x3), tw, None).
Proof.
  intros Hs He Hm. rewrite wb_on_some.
  assert (Hx2 : sl_instr x2 = i /\ sl_wreg x2 = write_reg i /\ sl_imm x2 = rf_imm i (pre t) /\
     exists cmp, alu_compute i (ex_in1 (dsl t i)) (ex_in2 (dsl t i)) = Ok (cmp, sl_result x2)).
  { rewrite ex_on_some in He. destruct (alu_compute _ _ _) as [[cmp res]|e] eqn:Ha; [|discriminate].
    change (sl_instr (dsl t i)) with i in *.
    destruct (is_ecall i).
    - cbn [ex_busy dsl id_slot sl_saved nonempty orb] in He.
      destruct (process_ecall s) as [[[tt|c]|e] s1]; [| |discriminate He];
        injection He as <- _; cbn; repeat split; exists cmp; reflexivity.
    - injection He as <- _. cbn. repeat split; exists cmp; reflexivity. }
  destruct Hx2 as (Hi2 & Hw2 & Him2 & cmp & Ha).
  rewrite mem_on_some in Hm. rewrite Hi2 in Hm.
  destruct (memory_access i (sl_result x2) (sl_rd2 x2) te) as [[rd|e] s1] eqn:Hma; [|discriminate Hm].
  injection Hm as Hx3 Htm. subst x3.
  cbn [mem_slot sl_instr sl_wreg]. unfold wb_data. cbn [mem_slot sl_instr sl_addr sl_memdata sl_result sl_imm].
  rewrite Hi2, Hw2, Him2.
  destruct i; try discriminate Hs;
    cbn [signals sig c_wb write_reg write_back rf_imm access_rf snd dsl id_slot ex_in1 ex_in2
         sl_instr sl_rd1 sl_rd2 sl_imm sl_addr slot_if c_src1 c_src2 rf_rd1 rf_rd2 fst alu_compute] in *;
    try (eexists; reflexivity);
    try (destruct (sl_result x2); [eexists; reflexivity|discriminate Ha]).
  injection Ha as _ Hr. rewrite <- Hr in Hma. cbn [memory_access] in Hma.
  destruct (st_read te (load_bits o) (U32 (rget (pre t) rs1) + imm) true) as [[v|e] s2]; [|discriminate Hma].
  injection Hma as <- _. eexists; reflexivity.
Qed.

(** * The single-cycle step, stage by stage *)
Section Stages.
Variables (t : st) (i : instr).
Hypothesis W : wf t.
Hypothesis Hi : instr_at (prog (im t)) (pc t) = Some i.
Hypothesis Hs : supported i = true.

Lemma stages_ex_fault n te e :
  ex_on (Some (dsl t i)) None None (pre t) = (n, te, Some e) ->
  single_pipeline_step t = (te, Some (mkfault (pc t) i e)).
Proof.
  intros He. pose proof (sstep_flow t i W Hi Hs) as H. rewrite flow_pre, He in H. apply H.
Qed.

Lemma stages_mem_fault x2 te n tm e :
  ex_on (Some (dsl t i)) None None (pre t) = (Some x2, te, None) ->
  mem_on (Some x2) te = (n, tm, Some e) ->
  single_pipeline_step t = (tm, Some (mkfault (pc t) i e)).
Proof.
  intros He Hm. pose proof (sstep_flow t i W Hi Hs) as H. rewrite flow_pre, He, Hm in H. apply H.
Qed.

Lemma stages_ok x2 te x3 tm :
  ex_on (Some (dsl t i)) None None (pre t) = (Some x2, te, None) ->
  mem_on (Some x2) te = (Some x3, tm, None) ->
  exists tw sb, wb_on (Some x3) tm = (Some (wb_slot x3), tw, None) /\
    single_pipeline_step t = (with_pc sb (pc sb + 4), None) /\
    tw = with_icount (with_pc sb (pc t)) (icount t + 1 + 1) /\
    pc sb + 4 = match sl_flush x3 with Some a => a | None => pc t + 4 end /\
    icount sb = icount t + 1.
Proof.
  intros He Hm. destruct (wb_never_faults t i _ _ _ _ _ tm Hs He Hm) as [tw Hw].
  pose proof (sstep_flow t i W Hi Hs) as H. rewrite flow_pre, He, Hm, Hw in H.
  destruct H as (sb & _ & Hst & Htw & Hn & Hic). exists tw, sb.
  split; [exact Hw|]. split; [exact Hst|]. split; [exact Htw|]. split; [|exact Hic].
  rewrite <- Hn. unfold next_pc. cbn [flush_of]. rewrite pre_pc. reflexivity.
Qed.

End Stages.

(** * Congruence of the stage functions *)
Lemma st_read_cong s s' nb a c r s1 : ms s = ms s' -> st_read s nb a c = (r, s1) ->
  exists s1', st_read s' nb a c = (r, s1') /\ ms s1' = ms s1.
Proof.
  unfold st_read. intros <-. destruct (ms_read (ms s) nb a c) as [[r0 m'] p]. intros H. inv H.
  eexists; split; reflexivity.
Qed.
Lemma st_write_cong_ms s s' nb a v d e s1 : ms s = ms s' -> st_write s nb a v d = (e, s1) ->
  exists s1', st_write s' nb a v d = (e, s1') /\ ms s1' = ms s1.
Proof.
  unfold st_write. intros <-. destruct (ms_write (ms s) nb a v d) as [[e0 m'] p]. intros H. inv H.
  eexists; split; reflexivity.
Qed.

Lemma memory_access_cong i a d s s' r s1 : ms s = ms s' -> memory_access i a d s = (r, s1) ->
  exists s1', memory_access i a d s' = (r, s1') /\ ms s1' = ms s1.
Proof.
  intros Hms H. unfold memory_access in *.
  destruct i; try (inv H; eexists; split; [reflexivity|symmetry; exact Hms]).
  - destruct a as [a|]; [|inv H; eexists; split; [reflexivity|symmetry; exact Hms]].
    destruct (st_read s (load_bits o) a true) as [r0 s2] eqn:Hr.
    destruct (st_read_cong _ _ _ _ _ _ _ Hms Hr) as (s2' & -> & Hm2).
    destruct r0; inv H; eexists; split; try reflexivity; exact Hm2.
  - destruct a as [a|]; [|inv H; eexists; split; [reflexivity|symmetry; exact Hms]].
    destruct d as [d|]; [|inv H; eexists; split; [reflexivity|symmetry; exact Hms]].
    destruct (st_write s (store_bits o) a (U (store_bits o) d) false) as [e0 s2] eqn:Hw.
    destruct (st_write_cong_ms _ _ _ _ _ _ _ _ Hms Hw) as (s2' & -> & Hm2).
    destruct e0; inv H; eexists; split; try reflexivity; exact Hm2.
Qed.

Lemma mem_count_ms y s : ms (mem_count y s) = ms s.
Proof.
  unfold mem_count. destruct (mem_flush y); [|reflexivity].
  destruct (is_btype _); [reflexivity|]. destruct (is_jal _); reflexivity.
Qed.

Lemma mem_on_cong y s s' n s1 e : ms s = ms s' -> mem_on (Some y) s = (n, s1, e) ->
  exists s1', mem_on (Some y) s' = (n, s1', e) /\ ms s1' = ms s1.
Proof.
  intros Hms. rewrite !mem_on_some.
  destruct (memory_access (sl_instr y) (sl_result y) (sl_rd2 y) s) as [r s2] eqn:Hm.
  destruct (memory_access_cong _ _ _ _ _ _ _ Hms Hm) as (s2' & -> & Hm2).
  destruct r; intros H; inv H; eexists; (split; [reflexivity|]); rewrite ?mem_count_ms; exact Hm2.
Qed.

Lemma write_back_err i w d s s' : snd (write_back i w d s) = snd (write_back i w d s').
Proof. unfold write_back. destruct i, w, d; reflexivity. Qed.

Lemma wb_on_cong y s s' n s1 : regs s = regs s' -> wb_on (Some y) s = (n, s1, None) ->
  exists s1', wb_on (Some y) s' = (n, s1', None) /\ regs s1' = regs s1.
Proof.
  intros Hr H. pose proof (wb_on_regs _ _ _ _ H) as Hr1.
  rewrite wb_on_some in H.
  destruct (wb_on (Some y) s') as [[n' s1'] e'] eqn:H'. pose proof H' as H''.
  rewrite wb_on_some in H'.
  pose proof (write_back_err (sl_instr y) (sl_wreg y) (wb_data y)
    (with_icount s (icount s + 1)) (with_icount s' (icount s' + 1))) as He.
  destruct (write_back _ _ _ (with_icount s _)) as [s2 [e|]]; [discriminate H|].
  destruct (write_back _ _ _ (with_icount s' _)) as [s2' [e|]]; [discriminate He|].
  inv H. inv H'. eexists; split; [reflexivity|].
  rewrite (wb_on_regs _ _ _ _ H''), Hr1. symmetry. apply wb_regs_ext. exact Hr.
Qed.

(* a non-ecall EX is a pure function of the slot's operand fields *)
Lemma ex_on_nonecall y b l2 l3 s s' : is_ecall (sl_instr y) = false ->
  ex_on (Some (set_stall y b)) l2 l3 s =
  (fst (fst (ex_on (Some y) None None s')), s, snd (ex_on (Some y) None None s')).
Proof.
  intros Hec. rewrite !ex_on_some.
  change (sl_instr (set_stall y b)) with (sl_instr y).
  change (ex_in1 (set_stall y b)) with (ex_in1 y). change (ex_in2 (set_stall y b)) with (ex_in2 y).
  destruct (alu_compute _ _ _) as [[cmp res]|e]; [|reflexivity]. rewrite Hec. reflexivity.
Qed.
Lemma ex_on_nonecall_state y s n s1 e : is_ecall (sl_instr y) = false ->
  ex_on (Some y) None None s = (n, s1, e) -> s1 = s.
Proof.
  intros Hec. rewrite ex_on_some. destruct (alu_compute _ _ _) as [[cmp res]|e0]; [|intros H; inv H; reflexivity].
  rewrite Hec. intros H; inv H; reflexivity.
Qed.

(** * Decode reads only its source registers *)
Lemma access_rf_agree i s s' :
  (forall r, rf_ra1 i s = Some r \/ rf_ra2 i s = Some r -> rget s r = rget s' r) ->
  access_rf i s = access_rf i s'.
Proof.
  unfold rf_ra1, rf_ra2. intros H.
  destruct i; cbn [access_rf fst snd] in *; try reflexivity;
    rewrite ?(H rs1) by (left; reflexivity || right; reflexivity);
    rewrite ?(H rs2) by (right; reflexivity);
    rewrite ?(H 0) by (left; reflexivity); reflexivity.
Qed.

Lemma id_slot_agree hz y w1 w2 s t :
  (forall r, rf_ra1 (sl_instr y) s = Some r \/ rf_ra2 (sl_instr y) s = Some r -> rget s r = rget t r) ->
  sl_addr y = pc t ->
  id_slot hz y w1 w2 s = set_stall (dsl t (sl_instr y)) (id_stall hz (sl_instr y) w1 w2 s).
Proof.
  intros H Ha. unfold dsl, id_slot, set_stall, rf_ra1, rf_ra2, rf_rd1, rf_rd2, rf_imm in *.
  cbn [sl_instr sl_addr slot_if sl_ra1 sl_ra2 sl_rd1 sl_rd2 sl_imm sl_wreg sl_result sl_cmp sl_pcimm
       sl_exit sl_memdata sl_wdata sl_flush sl_saved].
  rewrite (access_rf_agree _ s (pre t)) by exact H. rewrite Ha. reflexivity.
Qed.

Lemma hazard_with_false ra1 ra2 w r : hazard_with ra1 ra2 w = false ->
  ra1 = Some r \/ ra2 = Some r -> r = 0 \/ w <> Some r.
Proof.
  unfold hazard_with. destruct w as [x|]; [|intros _ _; right; discriminate].
  destruct (x =? 0) eqn:E0.
  - intros _ _. destruct (Z.eq_dec r 0); [left; assumption|right; intros H; inv H; lia].
  - intros H [->| ->]; right; intros Hx; inv Hx; cbn [opt_eqb] in H;
      rewrite Z.eqb_refl in H; rewrite ?Bool.orb_true_r in H; discriminate.
Qed.

Lemma wb_on_exitc y s n s1 : wb_on (Some y) s = (n, s1, None) ->
  exitc s1 = match sl_exit y with Some c => Some c | None => exitc s end.
Proof.
  rewrite wb_on_some. destruct (write_back _ _ _ _) as [s2 [e|]] eqn:Hw; [discriminate|].
  apply write_back_law in Hw. destruct Hw as (_ & _ & _ & _ & Hex & _). stf.
  intros H. inv H. unfold wb_exit. destruct (sl_exit y); [reflexivity|exact Hex].
Qed.

(** * The fields of [nxt t] from the stage results *)
Section Fields.
Variables (t : st) (i : instr).
Hypothesis W : wf t.
Hypothesis Hex : exitc t = None.
Hypothesis Hi : instr_at (prog (im t)) (pc t) = Some i.
Hypothesis Hs : supported i = true.

Lemma not_done : single_done t = false.
Proof. unfold single_done, has_instr. rewrite Hex, Hi. reflexivity. Qed.

Lemma wf_nxt : wf (nxt t) /\ prog (im (nxt t)) = prog (im t).
Proof. destruct (step_refines t W not_done) as (_ & _ & Hw & Hp). split; assumption. Qed.

Lemma nxt_fields x2 te x3 tm :
  ex_on (Some (dsl t i)) None None (pre t) = (Some x2, te, None) ->
  mem_on (Some x2) te = (Some x3, tm, None) ->
  snd (single_pipeline_step t) = None /\
  regs (nxt t) = wb_regs (Some x3) tm /\ ms (nxt t) = ms tm /\ out (nxt t) = out te /\
  exitc (nxt t) = match sl_exit x3 with Some c => Some c | None => None end /\
  bcount (nxt t) = bcount tm /\ pcount (nxt t) = pcount tm /\ icount (nxt t) = icount t + 1 /\
  pc (nxt t) = match sl_flush x3 with Some a => a | None => pc t + 4 end.
Proof.
  intros He Hm. destruct (stages_ok t i W Hi Hs _ _ _ _ He Hm) as (tw & sb & Hw & Hst & Htw & Hpc & Hicb).
  unfold nxt. rewrite Hst. cbn [fst snd].
  pose proof (wb_on_regs _ _ _ _ Hw) as Hr. pose proof (wb_on_exitc _ _ _ _ Hw) as Hx.
  pose proof (wb_on_law _ _ _ _ _ Hw) as (_ & Hms & Hout & Hbc & Hpcn & _ & Hic).
  pose proof (mem_on_law _ _ _ _ _ Hm) as (_ & _ & Hout2 & Hex2 & _).
  pose proof (ex_on_law _ _ _ _ _ _ _ He) as (_ & _ & Hex3 & _).
  subst tw. stf. cbn [nonempty] in Hic.
  split; [reflexivity|]. split; [exact Hr|]. split; [exact Hms|]. split; [congruence|].
  split; [rewrite Hx, Hex2, Hex3; change (exitc (pre t)) with (exitc t); rewrite Hex; reflexivity|].
  split; [exact Hbc|]. split; [exact Hpcn|]. split; [exact Hicb|exact Hpc].
Qed.

(* registers other than the destination are kept by a non-faulting step *)
Lemma nxt_regs_other k : snd (single_pipeline_step t) = None ->
  k = 0 \/ write_reg i <> Some k -> mget (regs (nxt t)) k = mget (regs t) k.
Proof.
  intros Hok Hk. pose proof (flow_regs_frame i (pre t) k Hk) as Hf. unfold flow_state in Hf.
  pose proof (sstep_flow t i W Hi Hs) as H.
  destruct (flow i (pre t)) as [[tf r] [e|]].
  - destruct H as [H _]. rewrite H in Hok. discriminate.
  - destruct H as (sb & _ & Hst & -> & _). unfold nxt. rewrite Hst. cbn [fst] in *. exact Hf.
Qed.

End Fields.
