(* LexRepr3.v — Model/Lex.v on printed instructions: loads/stores, U, jal, csr, ecall/ebreak; [lex_of_printed]. *)
From Coq Require Import String.
From Coq Require Import ZArith List Bool Lia ZifyBool.
From ArchSim Require Import Model.Base Model.Mem Model.Cache Model.Fmt Model.RV Model.Toy Model.Asm Model.Lex
  Proofs.LexProofs1 Proofs.LexProofs2 Proofs.LexProofs3 Proofs.LexProofs6
  Proofs.C14Proofs Proofs.LexProofs7 Proofs.LexProofs8 Proofs.LexProofs9 Proofs.LexRepr1 Proofs.LexRepr2.
Import ListNotations.
Open Scope Z_scope.

Lemma core_Load o rd rs1 imm : 0 <= rd < 32 -> 0 <= rs1 < 32 ->
  lex_core (mn_name (instr_mn (ILoad o rd rs1 imm)) ++ post_mem rd imm rs1) =
  LexOk (NInstr None (nbody_of (repr_tokens (ILoad o rd rs1 imm)))).
Proof. intros H1 H2. unfold post_mem. destruct o; cbn [instr_mn]; core. Qed.
Lemma core_Store o rs1 rs2 imm : 0 <= rs1 < 32 -> 0 <= rs2 < 32 ->
  lex_core (mn_name (instr_mn (IStore o rs1 rs2 imm)) ++ post_mem rs2 imm rs1) =
  LexOk (NInstr None (nbody_of (repr_tokens (IStore o rs1 rs2 imm)))).
Proof. intros H1 H2. unfold post_mem. destruct o; cbn [instr_mn]; core. Qed.
Lemma core_Lui rd imm : 0 <= rd < 32 ->
  lex_core (mn_name (instr_mn (ILui rd imm)) ++ post_ri rd imm) = LexOk (NInstr None (nbody_of (repr_tokens (ILui rd imm)))).
Proof. intros H1. unfold post_ri. cbn [instr_mn]; core. Qed.
Lemma core_Auipc rd imm : 0 <= rd < 32 ->
  lex_core (mn_name (instr_mn (IAuipc rd imm)) ++ post_ri rd imm) = LexOk (NInstr None (nbody_of (repr_tokens (IAuipc rd imm)))).
Proof. intros H1. unfold post_ri. cbn [instr_mn]; core. Qed.
Lemma core_Jal rd imm ab : 0 <= rd < 32 ->
  lex_core (mn_name (instr_mn (IJal rd imm ab)) ++ post_ri rd ab) = LexOk (NInstr None (nbody_of (repr_tokens (IJal rd imm ab)))).
Proof. intros H1. unfold post_ri. cbn [instr_mn]; core. Qed.
Lemma core_Csr o rd csr rs1 : 0 <= rd < 32 -> 0 <= rs1 < 32 -> 0 <= csr ->
  lex_core (mn_name (instr_mn (ICsr o rd csr rs1)) ++ post_csr rd csr rs1) =
  LexOk (NInstr None (nbody_of (repr_tokens (ICsr o rd csr rs1)))).
Proof. intros H1 H2 H3. unfold post_csr. destruct o; cbn [instr_mn]; core. Qed.
Lemma core_Csri o rd csr u : 0 <= rd < 32 -> 0 <= csr ->
  lex_core (mn_name (instr_mn (ICsri o rd csr u)) ++ post_csri rd csr u) =
  LexOk (NInstr None (nbody_of (repr_tokens (ICsri o rd csr u)))).
Proof. intros H1 H3. unfold post_csri. destruct o; cbn [instr_mn]; core. Qed.
Lemma core_Ecall : lex_core (mn_name 33 ++ []) = LexOk (NInstr None (NStr 0)).
Proof. core. Qed.
Lemma core_Ebreak : lex_core (mn_name 46 ++ []) = LexOk (NInstr None (NStr 1)).
Proof. core. Qed.

(** * the printed text is a clean core line *)
Definition safe (c : Z) : bool := is_labn c || (c =? 32) || (c =? 44) || (c =? 40) || (c =? 41) || (c =? 45).
Definition tightc (c : Z) : bool := negb (py_isspace c).
Lemma safe_clean s : forallb safe s = true -> no_hash s = true /\ no_tab s = true.
Proof.
  intros H. unfold no_hash, no_tab. rewrite forallb_forall in H. split; apply forallb_forall; intros x Hx;
    specialize (H x Hx); unfold safe, is_labn, is_alpha, is_upper, is_lower, is_digit in H; lia.
Qed.
Lemma digit_safe c : is_digit c = true -> safe c = true /\ tightc c = true.
Proof. unfold safe, tightc, is_labn, is_alpha, is_upper, is_lower, is_digit, py_isspace. lia. Qed.
Lemma hex_safe c : is_hex c = true -> safe c = true.
Proof. unfold safe, is_hex, is_labn, is_alpha, is_upper, is_lower, is_digit. lia. Qed.
Lemma safe_dec z : forallb safe (str_dec z) = true.
Proof.
  destruct (str_dec_shape z) as (sign & d & -> & Hs & _ & Hd). rewrite forallb_app.
  destruct (is_sign_inv _ Hs) as [->| ->]; cbn [forallb]; (replace (forallb safe d) with true; [reflexivity|]);
    symmetry; rewrite forallb_forall in *; intros x Hx; apply digit_safe, Hd, Hx.
Qed.
Lemma safe_xreg r : 0 <= r -> forallb safe (xreg r) = true.
Proof. intros H. unfold xreg. cbn [forallb]. rewrite safe_dec. reflexivity. Qed.
Lemma safe_hex c : 0 <= c -> forallb safe (py_hex c) = true.
Proof.
  intros H. unfold py_hex. replace (c <? 0) with false by lia. cbn [forallb].
  replace (forallb safe (map lower_hex (fmt_nat 16 c))) with true; [reflexivity|]. symmetry.
  pose proof (fmt_nat_hex_digits c H) as F. rewrite forallb_forall in *. intros x Hx. apply hex_safe, F, Hx.
Qed.
Lemma ends_tight s : s <> [] -> forallb tightc s = true -> ends_nonspace s = true.
Proof.
  intros Hn H. unfold ends_nonspace. assert (Hr : forallb tightc (rev s) = true).
  { rewrite forallb_forall in *. intros x Hx. apply H. rewrite in_rev. exact Hx. }
  destruct (rev s) as [|c t] eqn:E.
  - exfalso. apply Hn. rewrite <- (rev_involutive s), E. reflexivity.
  - cbn [forallb] in Hr. apply andb_true_iff in Hr as [Hc _]. exact Hc.
Qed.
Lemma ends_dec z : ends_nonspace (str_dec z) = true.
Proof.
  destruct (str_dec_shape z) as (sign & d & -> & Hs & Hn & Hd). apply ends_app, ends_tight; [exact Hn|].
  rewrite forallb_forall in *. intros x Hx. apply digit_safe, Hd, Hx.
Qed.
Lemma ends_xreg r : ends_nonspace (xreg r) = true.
Proof. unfold xreg. change (120 :: str_dec r) with ([120] ++ str_dec r). apply ends_app, ends_dec. Qed.

Lemma lex_line_clean s :
  forallb safe s = true -> starts_nonspace s = true -> ends_nonspace s = true -> lex_line s = lex_core s.
Proof. intros H1 H2 H3. destruct (safe_clean s H1). apply lex_line_core; assumption. Qed.

(** * the supported printing set *)
Definition printable (i : instr) : Prop :=
  match i with
  | IR _ a b c => enc_reg a /\ enc_reg b /\ enc_reg c
  | II _ a b _ | ISh _ a b _ | ILoad _ a b _ | IJalr a b _ | IStore _ a b _ | IBranch _ a b _ => enc_reg a /\ enc_reg b
  | ILui a _ | IAuipc a _ | IJal a _ _ => enc_reg a
  | IEcall | IEbreak => True
  | IFence => False
  | ICsr _ a c b => enc_reg a /\ enc_reg b /\ 0 <= c
  | ICsri _ a c _ => enc_reg a /\ 0 <= c
  end.
Lemma encodable_printable a i : encodable_at a i -> printable i.
Proof. destruct i; cbn [encodable_at printable]; tauto. Qed.

Ltac shape := unfold instr_repr, post_rrr, post_rri, post_mem, post_ri, post_csr, post_csri, sep; cbv zeta;
  cbn [app]; rewrite ?app_nil_r; reflexivity.
Ltac cleanup :=
  apply lex_line_clean;
  [ unfold instr_repr, sep; cbv zeta; rewrite !forallb_app;
    rewrite ?safe_xreg by lia; rewrite ?safe_dec; rewrite ?safe_hex by lia; reflexivity
  | reflexivity
  | unfold instr_repr, sep; cbv zeta; repeat apply ends_app; first [apply ends_xreg|apply ends_dec|reflexivity] ].

Lemma lex_of_printed_lem i : printable i ->
  lex_line (instr_repr i) = LexOk (NInstr None (nbody_of (repr_tokens i))).
Proof.
  intros H. unfold enc_reg in *.
  destruct i as [o rd rs1 rs2|o rd rs1 imm|o rd rs1 imm|o rd rs1 imm|rd rs1 imm| | |o rs1 rs2 imm
                |o rs1 rs2 imm|rd imm|rd imm|rd imm ab| |o rd csr rs1|o rd csr u];
    cbn [printable] in H; unfold enc_reg in H.
  - replace (lex_line (instr_repr (IR o rd rs1 rs2))) with (lex_core (instr_repr (IR o rd rs1 rs2)))
      by (symmetry; destruct o; cleanup).
    replace (instr_repr (IR o rd rs1 rs2)) with (mn_name (instr_mn (IR o rd rs1 rs2)) ++ post_rrr rd rs1 rs2) by shape.
    apply core_R; lia.
  - replace (lex_line (instr_repr (II o rd rs1 imm))) with (lex_core (instr_repr (II o rd rs1 imm)))
      by (symmetry; destruct o; cleanup).
    replace (instr_repr (II o rd rs1 imm)) with (mn_name (instr_mn (II o rd rs1 imm)) ++ post_rri rd rs1 imm) by shape.
    apply core_I; lia.
  - replace (lex_line (instr_repr (ISh o rd rs1 imm))) with (lex_core (instr_repr (ISh o rd rs1 imm)))
      by (symmetry; destruct o; cleanup).
    replace (instr_repr (ISh o rd rs1 imm)) with (mn_name (instr_mn (ISh o rd rs1 imm)) ++ post_rri rd rs1 imm) by shape.
    apply core_Sh; lia.
  - replace (lex_line (instr_repr (ILoad o rd rs1 imm))) with (lex_core (instr_repr (ILoad o rd rs1 imm)))
      by (symmetry; destruct o; cleanup).
    replace (instr_repr (ILoad o rd rs1 imm)) with (mn_name (instr_mn (ILoad o rd rs1 imm)) ++ post_mem rd imm rs1) by shape.
    apply core_Load; lia.
  - replace (lex_line (instr_repr (IJalr rd rs1 imm))) with (lex_core (instr_repr (IJalr rd rs1 imm)))
      by (symmetry; cleanup).
    replace (instr_repr (IJalr rd rs1 imm)) with (mn_name (instr_mn (IJalr rd rs1 imm)) ++ post_rri rd rs1 imm) by shape.
    apply core_Jalr; lia.
  - vm_compute. reflexivity.
  - vm_compute. reflexivity.
  - replace (lex_line (instr_repr (IStore o rs1 rs2 imm))) with (lex_core (instr_repr (IStore o rs1 rs2 imm)))
      by (symmetry; destruct o; cleanup).
    replace (instr_repr (IStore o rs1 rs2 imm)) with (mn_name (instr_mn (IStore o rs1 rs2 imm)) ++ post_mem rs2 imm rs1) by shape.
    apply core_Store; lia.
  - replace (lex_line (instr_repr (IBranch o rs1 rs2 imm))) with (lex_core (instr_repr (IBranch o rs1 rs2 imm)))
      by (symmetry; destruct o; cleanup).
    replace (instr_repr (IBranch o rs1 rs2 imm)) with (mn_name (instr_mn (IBranch o rs1 rs2 imm)) ++ post_rri rs1 rs2 imm) by shape.
    apply core_Branch; lia.
  - replace (lex_line (instr_repr (ILui rd imm))) with (lex_core (instr_repr (ILui rd imm))) by (symmetry; cleanup).
    replace (instr_repr (ILui rd imm)) with (mn_name (instr_mn (ILui rd imm)) ++ post_ri rd imm) by shape.
    apply core_Lui; lia.
  - replace (lex_line (instr_repr (IAuipc rd imm))) with (lex_core (instr_repr (IAuipc rd imm))) by (symmetry; cleanup).
    replace (instr_repr (IAuipc rd imm)) with (mn_name (instr_mn (IAuipc rd imm)) ++ post_ri rd imm) by shape.
    apply core_Auipc; lia.
  - replace (lex_line (instr_repr (IJal rd imm ab))) with (lex_core (instr_repr (IJal rd imm ab))) by (symmetry; cleanup).
    replace (instr_repr (IJal rd imm ab)) with (mn_name (instr_mn (IJal rd imm ab)) ++ post_ri rd ab) by shape.
    apply core_Jal; lia.
  - contradiction.
  - replace (lex_line (instr_repr (ICsr o rd csr rs1))) with (lex_core (instr_repr (ICsr o rd csr rs1)))
      by (symmetry; destruct o; cleanup).
    replace (instr_repr (ICsr o rd csr rs1)) with (mn_name (instr_mn (ICsr o rd csr rs1)) ++ post_csr rd csr rs1) by shape.
    apply core_Csr; lia.
  - replace (lex_line (instr_repr (ICsri o rd csr u))) with (lex_core (instr_repr (ICsri o rd csr u)))
      by (symmetry; destruct o; cleanup).
    replace (instr_repr (ICsri o rd csr u)) with (mn_name (instr_mn (ICsri o rd csr u)) ++ post_csri rd csr u) by shape.
    apply core_Csri; lia.
Qed.
