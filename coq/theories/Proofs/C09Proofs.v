(* Proofs/C09Proofs.v — data cache accounting (hits / accesses / last-hit / miss penalty) against
   the reference set-associative cache of Spec/RefCache.v.  Parts 1-3 are generic in the value
   type of the cache and are reused by C11Proofs.v for the instruction cache. *)
From Coq Require Import Lia ZifyBool.
From ArchSim Require Import Model.Base Model.Mem Model.Cache Spec.Policy Spec.RefCache
  Proofs.WordLemmas Proofs.C10Proofs.
Open Scope Z_scope.
Ltac Zify.zify_post_hook ::= Z.to_euclidean_division_equations.
Local Arguments Z.mul : simpl never.
Local Arguments Z.add : simpl never.
Local Arguments Z.sub : simpl never.
Local Arguments Z.pow : simpl never.
Local Arguments Z.div : simpl never.
Local Arguments Z.modulo : simpl never.
Local Arguments Z.land : simpl never.
Local Arguments Z.shiftl : simpl never.
Local Arguments Z.shiftr : simpl never.
Local Arguments Z.of_nat : simpl never.
Local Arguments Z.to_nat : simpl never.

(** * Part 1: lists — [nthZ] / [set_nthZ] *)
Lemma set_nthZ_length {A} (l : list A) i x : length (set_nthZ l i x) = length l.
Proof. apply set_nth_length. Qed.

Lemma nthZ_set_nthZ_eq {A} (l : list A) i x d :
  (Z.to_nat i < length l)%nat -> nthZ (set_nthZ l i x) i d = x.
Proof.
  intros Hi. unfold nthZ, set_nthZ. rewrite nth_set_nth by exact Hi.
  rewrite Nat.eqb_refl. reflexivity.
Qed.

Lemma set_nth_nth_other {A} (l : list A) p x j d : j <> p -> nth j (set_nth l p x) d = nth j l d.
Proof.
  revert p j; induction l as [|y t IH]; intros p j Hne; [destruct p; reflexivity|].
  destruct p as [|p], j as [|j]; cbn [set_nth nth]; try reflexivity; [lia|].
  apply IH. lia.
Qed.

Lemma nthZ_set_nthZ_neq {A} (l : list A) i j x d :
  Z.to_nat j <> Z.to_nat i -> nthZ (set_nthZ l i x) j d = nthZ l j d.
Proof. intros Hne. unfold nthZ, set_nthZ. apply set_nth_nth_other. exact Hne. Qed.

Lemma set_nth_same {A} (l : list A) p d : set_nth l p (nth p l d) = l.
Proof.
  revert p; induction l as [|y t IH]; intros p; [destruct p; reflexivity|].
  destruct p as [|p]; cbn [set_nth nth]; [reflexivity|]. rewrite IH. reflexivity.
Qed.

Lemma set_nth_overflow {A} (l : list A) p x : (length l <= p)%nat -> set_nth l p x = l.
Proof.
  revert p; induction l as [|y t IH]; intros p Hp; [destruct p; reflexivity|].
  destruct p as [|p]; cbn [length] in Hp; [lia|]. cbn [set_nth]. rewrite IH by lia. reflexivity.
Qed.

Lemma set_nthZ_same {A} (l : list A) i d : set_nthZ l i (nthZ l i d) = l.
Proof. apply set_nth_same. Qed.

Lemma set_nth_twice {A} (l : list A) p x y : set_nth (set_nth l p x) p y = set_nth l p y.
Proof.
  revert p; induction l as [|z t IH]; intros p; [destruct p; reflexivity|].
  destruct p as [|p]; cbn [set_nth]; [reflexivity|]. rewrite IH. reflexivity.
Qed.

Lemma set_nthZ_twice {A} (l : list A) i x y : set_nthZ (set_nthZ l i x) i y = set_nthZ l i y.
Proof. apply set_nth_twice. Qed.

Lemma map_set_nth {A B} (f : A -> B) (l : list A) p x :
  map f (set_nth l p x) = set_nth (map f l) p (f x).
Proof.
  revert p; induction l as [|y t IH]; intros p; [destruct p; reflexivity|].
  destruct p as [|p]; cbn [set_nth map]; [reflexivity|]. rewrite IH. reflexivity.
Qed.

Lemma map_set_nthZ {A B} (f : A -> B) (l : list A) i x :
  map f (set_nthZ l i x) = set_nthZ (map f l) i (f x).
Proof. apply map_set_nth. Qed.

Lemma map_nthZ {A B} (f : A -> B) (l : list A) i d : nthZ (map f l) i (f d) = f (nthZ l i d).
Proof. unfold nthZ. apply map_nth. Qed.

Lemma Forall_set_nth {A} (P : A -> Prop) (l : list A) p x :
  Forall P l -> P x -> Forall P (set_nth l p x).
Proof.
  intros Hl Hx. revert p; induction Hl as [|y t Hy Ht IH]; intros p; [destruct p; constructor|].
  destruct p as [|p]; cbn [set_nth]; constructor; auto.
Qed.

Lemma Forall_nth_default {A} (P : A -> Prop) (l : list A) p d :
  Forall P l -> P d -> P (nth p l d).
Proof.
  intros Hl Hd. revert p; induction Hl as [|y t Hy Ht IH]; intros p; [destruct p; exact Hd|].
  destruct p as [|p]; cbn [nth]; auto.
Qed.

Lemma Forall_nth_in {A} (P : A -> Prop) (l : list A) p d :
  Forall P l -> (p < length l)%nat -> P (nth p l d).
Proof.
  intros Hl. revert p; induction Hl as [|y t Hy Ht IH]; intros p Hp; cbn [length] in Hp; [lia|].
  destruct p as [|p]; cbn [nth]; [exact Hy|]. apply IH. lia.
Qed.

(** * Part 2: the model's directory read as a reference directory (any value type) *)
Section Generic.
  Context {T : Type}.
  Implicit Types (c : cache T) (s : cset T) (b : cblock T) (bl : list (cblock T)).

  Definition hitb (o : option Z) : bool := match o with Some _ => true | None => false end.

  (* the model's lookup is the reference's lookup on the abstracted ways *)
  Lemma find_block_ref_way bl tag i : find_block bl tag i = ref_way (map abs_block bl) tag i.
  Proof.
    revert i; induction bl as [|b t IH]; intros i; cbn [find_block map ref_way]; [reflexivity|].
    unfold abs_block at 1. destruct (valid b) eqn:Ev; cbn [andb].
    - destruct (btag b =? tag) eqn:Et; [reflexivity | apply IH].
    - apply IH.
  Qed.

  Lemma ref_way_lookup ways tag i :
    hitb (ref_way ways tag i)
    = existsb (fun w => match w with Some t => t =? tag | None => false end) ways.
  Proof.
    revert i; induction ways as [|[t|] rest IH]; intros i; cbn [ref_way existsb]; [reflexivity| |].
    - destruct (t =? tag) eqn:Et; cbn [orb hitb]; [reflexivity | apply IH].
    - cbn [orb]. apply IH.
  Qed.

  Lemma find_block_range bl tag i w : find_block bl tag i = Some w ->
    i <= w /\ (Z.to_nat (w - i) < length bl)%nat /\
    forall d, valid (nth (Z.to_nat (w - i)) bl d) = true /\ btag (nth (Z.to_nat (w - i)) bl d) = tag.
  Proof.
    revert i; induction bl as [|b t IH]; intros i Hf; cbn [find_block] in Hf; [discriminate|].
    destruct (valid b && (btag b =? tag)) eqn:E.
    - injection Hf as <-. replace (i - i) with 0 by lia. change (Z.to_nat 0) with 0%nat.
      cbn [nth length]. split; [lia|]. split; [lia|]. intros _.
      apply andb_true_iff in E. destruct E as [E1 E2]. apply Z.eqb_eq in E2. auto.
    - apply IH in Hf. destruct Hf as (Hle & Hlt & Hv).
      replace (Z.to_nat (w - i)) with (S (Z.to_nat (w - (i + 1)))) by lia.
      cbn [nth length]. split; [lia|]. split; [lia|]. exact Hv.
  Qed.

  (* after a miss, installing a valid block with the tag in way k makes the lookup find way k *)
  Lemma find_block_installed bl tag i (k : nat) nb :
    find_block bl tag i = None -> (k < length bl)%nat -> valid nb = true -> btag nb = tag ->
    find_block (set_nth bl k nb) tag i = Some (i + Z.of_nat k).
  Proof.
    revert i k; induction bl as [|b t IH]; intros i k Hf Hk Hv Ht; cbn [length] in Hk; [lia|].
    cbn [find_block] in Hf. destruct (valid b && (btag b =? tag)) eqn:E; [discriminate|].
    destruct k as [|k]; cbn [set_nth find_block].
    - rewrite Hv, Ht, Z.eqb_refl. cbn [andb]. f_equal. lia.
    - rewrite E. rewrite IH by (auto; lia). f_equal. lia.
  Qed.

  Lemma abs_get_set c i : abs_set (get_set c i) = nthZ (abs_dir c) i ref_dummy.
  Proof. unfold get_set, abs_dir. change ref_dummy with (abs_set (dummy_set T)). rewrite map_nthZ. reflexivity. Qed.

  Lemma abs_put_set c i s : abs_dir (put_set T c i s) = set_nthZ (abs_dir c) i (abs_set s).
  Proof. unfold put_set, abs_dir. cbn [sets]. apply map_set_nthZ. Qed.

  Lemma get_put_set c i s : (Z.to_nat i < length (sets c))%nat -> get_set (put_set T c i s) i = s.
  Proof. intros Hi. unfold get_set, put_set. cbn [sets]. apply nthZ_set_nthZ_eq. exact Hi. Qed.

  Lemma put_put_set c i s1 s2 : put_set T (put_set T c i s1) i s2 = put_set T c i s2.
  Proof. unfold put_set. cbn [cfg sets]. rewrite set_nthZ_twice. reflexivity. Qed.

  (* a hit can only happen in an existing set *)
  Lemma hit_in_range c i tag w : find_block (blocks (get_set c i)) tag 0 = Some w ->
    (Z.to_nat i < length (sets c))%nat.
  Proof.
    intros Hf. destruct (Nat.lt_ge_cases (Z.to_nat i) (length (sets c))) as [H|H]; [exact H|].
    unfold get_set, nthZ in Hf. rewrite nth_overflow in Hf by exact H. discriminate.
  Qed.

  Definition lookup_of c (da : daddr) : option Z :=
    find_block (blocks (get_set c (da_idx da))) (da_tag da) 0.

  Lemma lookup_of_ref c da :
    hitb (lookup_of c da) = ref_lookup (abs_dir c) (da_idx da) (da_tag da).
  Proof.
    unfold lookup_of, ref_lookup. rewrite find_block_ref_way, ref_way_lookup.
    rewrite <- abs_get_set. reflexivity.
  Qed.

  (** ** [cache_read_block]: lookup; on a hit the policy records the access *)
  Lemma read_block_miss c da : lookup_of c da = None -> cache_read_block c da = (None, c).
  Proof. unfold lookup_of, cache_read_block. intros ->. reflexivity. Qed.

  Lemma read_block_hit c da w : lookup_of c da = Some w ->
    cache_read_block c da =
      (Some (vals (nthZ (blocks (get_set c (da_idx da))) w empty_block)),
       put_set T c (da_idx da)
         {| blocks := blocks (get_set c (da_idx da));
            policy := pol_access (policy (get_set c (da_idx da))) w |}).
  Proof. unfold lookup_of, cache_read_block. intros ->. reflexivity. Qed.

  Lemma read_block_abs c da ob c' : cache_read_block c da = (ob, c') ->
    abs_dir c' = ref_touch false (abs_dir c) (da_idx da) (da_tag da) /\
    hitb (lookup_of c da) = match ob with Some _ => true | None => false end /\
    cfg c' = cfg c.
  Proof.
    intros Hr. unfold ref_touch, ref_set_touch. rewrite <- abs_get_set.
    cbn [abs_set rtags rpol]. rewrite <- find_block_ref_way. fold (lookup_of c da).
    destruct (lookup_of c da) as [w|] eqn:El.
    - rewrite (read_block_hit _ _ _ El) in Hr. injection Hr as <- <-.
      rewrite abs_put_set. cbn [abs_set blocks policy hitb cfg put_set]. auto.
    - rewrite (read_block_miss _ _ El) in Hr. injection Hr as <- <-.
      cbn [hitb]. change (abs_set (get_set c (da_idx da))) with
        {| rtags := map abs_block (blocks (get_set c (da_idx da))); rpol := policy (get_set c (da_idx da)) |}.
      fold (abs_set (get_set c (da_idx da))). rewrite abs_get_set, set_nthZ_same. auto.
  Qed.

  (** ** [cache_write_block] *)
  Definition new_block (da : daddr) (v : list T) : cblock T :=
    {| valid := true; dirty := true; btag := da_tag da; baddr := da_balign da; vals := v |}.

  Lemma write_block_miss c da v : lookup_of c da = None ->
    cache_write_block c da v =
      (false,
       (let old := nthZ (blocks (get_set c (da_idx da))) (pol_victim (policy (get_set c (da_idx da)))) empty_block in
        if dirty old then Some (baddr old, vals old) else None),
       put_set T c (da_idx da)
         {| blocks := set_nthZ (blocks (get_set c (da_idx da)))
                        (pol_victim (policy (get_set c (da_idx da)))) (new_block da v);
            policy := pol_access (policy (get_set c (da_idx da)))
                        (pol_victim (policy (get_set c (da_idx da)))) |}).
  Proof. unfold lookup_of, cache_write_block. intros ->. reflexivity. Qed.

  Lemma write_block_hit c da v w : lookup_of c da = Some w ->
    cache_write_block c da v =
      (true, None,
       put_set T c (da_idx da)
         {| blocks := set_nthZ (blocks (get_set c (da_idx da))) w (new_block da v);
            policy := pol_access (policy (get_set c (da_idx da))) w |}).
  Proof. unfold lookup_of, cache_write_block. intros ->. reflexivity. Qed.

  Lemma abs_new_block da v : abs_block (new_block da v) = Some (da_tag da).
  Proof. reflexivity. Qed.

  (* miss: the reference's allocating touch *)
  Lemma write_block_miss_abs c da v : lookup_of c da = None ->
    abs_dir (snd (cache_write_block c da v)) = ref_touch true (abs_dir c) (da_idx da) (da_tag da).
  Proof.
    intros El. rewrite (write_block_miss _ _ _ El). cbn [snd].
    rewrite abs_put_set. unfold ref_touch, ref_set_touch. rewrite <- abs_get_set.
    unfold abs_set. cbn [rtags rpol blocks policy]. rewrite <- find_block_ref_way. fold (lookup_of c da).
    rewrite El. rewrite map_set_nthZ, abs_new_block. reflexivity.
  Qed.

  (* the way found by a lookup already abstracts to the tag *)
  Lemma abs_hit_way bl tag w : find_block bl tag 0 = Some w ->
    set_nthZ (map abs_block bl) w (Some tag) = map abs_block bl.
  Proof.
    intros Hf. apply find_block_range in Hf. destruct Hf as (Hle & Hlt & Hv).
    rewrite Z.sub_0_r in *. destruct (Hv empty_block) as [Hva Htg].
    rewrite <- (set_nthZ_same (map abs_block bl) w (abs_block (@empty_block T))) at 2.
    f_equal. rewrite map_nthZ. unfold abs_block, nthZ. rewrite Hva, Htg. reflexivity.
  Qed.

  (* hit: tags unchanged, the policy records one more access to the same way *)
  Lemma write_block_hit_abs c da v w : lookup_of c da = Some w ->
    abs_dir (snd (cache_write_block c da v)) =
      set_nthZ (abs_dir c) (da_idx da)
        {| rtags := rtags (nthZ (abs_dir c) (da_idx da) ref_dummy);
           rpol := pol_access (rpol (nthZ (abs_dir c) (da_idx da) ref_dummy)) w |}.
  Proof.
    intros El. rewrite (write_block_hit _ _ _ _ El). cbn [snd].
    rewrite abs_put_set, <- abs_get_set. unfold abs_set. cbn [rtags rpol blocks policy].
    rewrite map_set_nthZ, abs_new_block, (abs_hit_way _ _ _ El). reflexivity.
  Qed.

  (** ** policy well-formedness *)
  Lemma pol_wf_idem n p i : pol_wf n p -> pol_access (pol_access p i) i = pol_access p i.
  Proof. intros H. apply access_idem_proof. destruct p; [apply H | exact Logic.I]. Qed.

  Lemma pol_wf_access n p i : pol_wf n p -> 0 <= i < n -> pol_wf n (pol_access p i).
  Proof.
    destruct p as [o|a bits]; cbn [pol_wf pol_access]; [|auto].
    intros [Hnd Hin] Hi. split.
    - apply NoDup_snoc; [apply remove_first_NoDup; exact Hnd|].
      intros H. apply (remove_first_In_iff _ _ _ Hnd) in H. lia.
    - intros x. rewrite in_app_iff, (remove_first_In_iff _ _ _ Hnd), Hin. cbn [In].
      split; [intros [[H _]|[H|[]]]; lia | intros H; destruct (Z.eq_dec x i); [right; left; lia | left; lia]].
  Qed.

  Lemma pol_wf_victim n p : 1 <= n -> pol_wf n p -> 0 <= pol_victim p < n.
  Proof.
    destruct p as [o|a bits]; cbn [pol_wf]; intros Hn.
    - intros [_ Hin]. cbn [pol_victim]. apply Hin. unfold nthZ. change (Z.to_nat 0) with 0%nat.
      destruct o as [|x t]; [exfalso; apply (Hin 0); lia | left; reflexivity].
    - intros [-> [k ->]]. apply (plru_tree_refines_proof k bits).
  Qed.

  Lemma pol_wf_init g : geom_ok g -> pol_wf (assoc g) (pol_init (plru g) (assoc g)).
  Proof.
    intros (_ & _ & _ & Ha & Hp). unfold pol_init. destruct (plru g) eqn:E; cbn [pol_wf].
    - split; [reflexivity | apply Hp; reflexivity].
    - split; [apply zrange_NoDup|]. intros x. rewrite zrange_In. lia.
  Qed.

  (** ** cache invariant: as many sets as index values, [assoc] ways each, policies well formed *)
  Lemma cinv_init g : geom_ok g -> CInv (@cache_init T g).
  Proof.
    intros Hg. pose proof Hg as (Hi & Hb & _ & Ha & _). unfold CInv, cache_init. cbn [cfg sets].
    split; [exact Hi|]. split; [exact Hb|]. split; [exact Ha|]. split; [apply repeat_length|].
    apply Forall_forall. intros s Hs. apply repeat_spec in Hs. subst s.
    split; cbn [empty_set blocks policy]; [apply repeat_length | apply pol_wf_init; exact Hg].
  Qed.

  Lemma cinv_put_set c i s : CInv c -> set_wf (cfg c) s -> CInv (put_set T c i s).
  Proof.
    intros (Hi & Hb & Ha & Hl & Hf) Hs. unfold CInv, put_set. cbn [cfg sets].
    rewrite set_nthZ_length. repeat split; auto. apply Forall_set_nth; assumption.
  Qed.

  Lemma cinv_get_set c i : CInv c -> (Z.to_nat i < length (sets c))%nat -> set_wf (cfg c) (get_set c i).
  Proof. intros (_ & _ & _ & _ & Hf) Hi. unfold get_set, nthZ. apply Forall_nth_in; assumption. Qed.

  Lemma lookup_way_range c da w : CInv c -> lookup_of c da = Some w ->
    0 <= w < assoc (cfg c) /\ (Z.to_nat (da_idx da) < length (sets c))%nat.
  Proof.
    intros Hc El. pose proof (hit_in_range _ _ _ _ El) as Hi.
    destruct (cinv_get_set _ _ Hc Hi) as [Hlen _].
    apply find_block_range in El. destruct El as (Hle & Hlt & _). rewrite Hlen in Hlt. lia.
  Qed.

  Lemma cinv_read_block c da : CInv c -> CInv (snd (cache_read_block c da)).
  Proof.
    intros Hc. destruct (lookup_of c da) as [w|] eqn:El.
    - rewrite (read_block_hit _ _ _ El). cbn [snd].
      destruct (lookup_way_range _ _ _ Hc El) as [Hw Hi].
      destruct (cinv_get_set _ _ Hc Hi) as [Hlen Hp].
      apply cinv_put_set; [exact Hc|]. split; cbn [blocks policy]; [exact Hlen|].
      apply pol_wf_access; assumption.
    - rewrite (read_block_miss _ _ El). exact Hc.
  Qed.

  Lemma cinv_write_block c da v : CInv c -> CInv (snd (cache_write_block c da v)).
  Proof.
    intros Hc. destruct (lookup_of c da) as [w|] eqn:El.
    - rewrite (write_block_hit _ _ _ _ El). cbn [snd].
      destruct (lookup_way_range _ _ _ Hc El) as [Hw Hi].
      destruct (cinv_get_set _ _ Hc Hi) as [Hlen Hp].
      apply cinv_put_set; [exact Hc|]. split; cbn [blocks policy].
      + rewrite set_nthZ_length. exact Hlen.
      + apply pol_wf_access; assumption.
    - rewrite (write_block_miss _ _ _ El). cbn [snd].
      destruct (Nat.lt_ge_cases (Z.to_nat (da_idx da)) (length (sets c))) as [Hi|Hi].
      + destruct (cinv_get_set _ _ Hc Hi) as [Hlen Hp].
        apply cinv_put_set; [exact Hc|]. split; cbn [blocks policy].
        * rewrite set_nthZ_length. exact Hlen.
        * apply pol_wf_access; [exact Hp|]. apply pol_wf_victim; [apply Hc | exact Hp].
      + (* no such set: nothing is stored *)
        unfold put_set, set_nthZ. rewrite set_nth_overflow by exact Hi. destruct c; exact Hc.
  Qed.

  Lemma cfg_read_block c da : cfg (snd (cache_read_block c da)) = cfg c.
  Proof. unfold cache_read_block. destruct (find_block _ _ _); reflexivity. Qed.

  Lemma cfg_write_block c da v : cfg (snd (cache_write_block c da v)) = cfg c.
  Proof. unfold cache_write_block. destruct (find_block _ _ _); reflexivity. Qed.

  (** ** write after a read hit (the store path): one reference touch *)
  Lemma write_after_read_hit c da v w : CInv c -> lookup_of c da = Some w ->
    let c1 := snd (cache_read_block c da) in
    lookup_of c1 da = Some w /\
    abs_dir (snd (cache_write_block c1 da v)) = abs_dir c1 /\
    fst (cache_write_block c1 da v) = (true, None).
  Proof.
    intros Hc El c1. subst c1. destruct (lookup_way_range _ _ _ Hc El) as [Hw Hi].
    destruct (cinv_get_set _ _ Hc Hi) as [Hlen Hp].
    rewrite (read_block_hit _ _ _ El). cbn [snd].
    set (s' := {| blocks := blocks (get_set c (da_idx da));
                  policy := pol_access (policy (get_set c (da_idx da))) w |}).
    assert (El' : lookup_of (put_set T c (da_idx da) s') da = Some w).
    { unfold lookup_of. rewrite get_put_set by exact Hi. exact El. }
    split; [exact El'|].
    rewrite (write_block_hit _ _ _ _ El'). cbn [snd fst]. split; [|reflexivity].
    rewrite get_put_set by exact Hi. rewrite put_put_set, !abs_put_set. f_equal.
    unfold abs_set. cbn [blocks policy s']. rewrite map_set_nthZ, abs_new_block.
    rewrite (abs_hit_way _ _ _ El). f_equal. apply (pol_wf_idem _ _ _ Hp).
  Qed.

  (** ** re-reading what a read or fill just touched changes nothing *)
  Lemma reread_after_hit c da w : CInv c -> lookup_of c da = Some w ->
    let c1 := snd (cache_read_block c da) in
    cache_read_block c1 da = (fst (cache_read_block c da), c1).
  Proof.
    intros Hc El c1. subst c1. destruct (lookup_way_range _ _ _ Hc El) as [Hw Hi].
    destruct (cinv_get_set _ _ Hc Hi) as [Hlen Hp].
    rewrite (read_block_hit _ _ _ El). cbn [snd fst].
    set (s' := {| blocks := blocks (get_set c (da_idx da));
                  policy := pol_access (policy (get_set c (da_idx da))) w |}).
    assert (El' : lookup_of (put_set T c (da_idx da) s') da = Some w).
    { unfold lookup_of. rewrite get_put_set by exact Hi. exact El. }
    rewrite (read_block_hit _ _ _ El'). rewrite get_put_set by exact Hi. cbn [blocks policy s'].
    rewrite put_put_set, (pol_wf_idem _ _ _ Hp). reflexivity.
  Qed.

  Lemma idx_in_range c da : CInv c -> 0 <= da_idx da < 2 ^ ibits (cfg c) ->
    (Z.to_nat (da_idx da) < length (sets c))%nat.
  Proof. intros (_ & _ & _ & Hl & _) Hi. rewrite Hl. lia. Qed.

  Lemma reread_after_fill c da v : CInv c -> 0 <= da_idx da < 2 ^ ibits (cfg c) ->
    lookup_of c da = None ->
    let c1 := snd (cache_write_block c da v) in
    cache_read_block c1 da = (Some v, c1).
  Proof.
    intros Hc Hidx El c1. subst c1. pose proof (idx_in_range _ _ Hc Hidx) as Hi.
    destruct (cinv_get_set _ _ Hc Hi) as [Hlen Hp].
    assert (Hv : 0 <= pol_victim (policy (get_set c (da_idx da))) < assoc (cfg c))
      by (apply pol_wf_victim; [apply Hc | exact Hp]).
    rewrite (write_block_miss _ _ _ El). cbn [snd].
    set (vi := pol_victim (policy (get_set c (da_idx da)))) in *.
    set (s' := {| blocks := set_nthZ (blocks (get_set c (da_idx da))) vi (new_block da v);
                  policy := pol_access (policy (get_set c (da_idx da))) vi |}).
    assert (El' : lookup_of (put_set T c (da_idx da) s') da = Some vi).
    { unfold lookup_of. rewrite get_put_set by exact Hi. cbn [blocks s']. unfold set_nthZ.
      rewrite (find_block_installed _ _ 0 (Z.to_nat vi) (new_block da v) El) by (try reflexivity; lia).
      f_equal. lia. }
    rewrite (read_block_hit _ _ _ El'). rewrite get_put_set by exact Hi. cbn [blocks policy s'].
    rewrite put_put_set, (pol_wf_idem _ _ _ Hp).
    rewrite nthZ_set_nthZ_eq by lia. reflexivity.
  Qed.
End Generic.

(** * Part 3: the decoded address against the reference's tag / index arithmetic *)
Lemma decode_idx g a : 0 <= ibits g -> 0 <= bbits g ->
  da_idx (decode_addr (ibits g) (bbits g) a) = ref_idx g a.
Proof.
  intros Hi Hb. unfold decode_addr, ref_idx. cbn [da_idx].
  rewrite shr_div by lia. rewrite land_ones_mod by lia. reflexivity.
Qed.

Lemma decode_tag g a : 0 <= ibits g -> 0 <= bbits g ->
  da_tag (decode_addr (ibits g) (bbits g) a) = ref_tag g a.
Proof. intros Hi Hb. unfold decode_addr, ref_tag. cbn [da_tag]. rewrite shr_div by lia. reflexivity. Qed.

Lemma ref_idx_range g a : 0 <= ibits g -> 0 <= ref_idx g a < 2 ^ ibits g.
Proof. intros Hi. unfold ref_idx. apply Z.mod_pos_bound. apply Z.pow_pos_nonneg; lia. Qed.

Lemma cdecode_idx {T} (c : cache T) a : CInv c -> da_idx (cdecode c a) = ref_idx (cfg c) a.
Proof. intros (Hi & Hb & _). apply decode_idx; assumption. Qed.

Lemma cdecode_tag {T} (c : cache T) a : CInv c -> da_tag (cdecode c a) = ref_tag (cfg c) a.
Proof. intros (Hi & Hb & _). apply decode_tag; assumption. Qed.

Lemma cdecode_idx_range {T} (c : cache T) a : CInv c -> 0 <= da_idx (cdecode c a) < 2 ^ ibits (cfg c).
Proof. intros Hc. rewrite (cdecode_idx _ _ Hc). apply ref_idx_range. apply Hc. Qed.

(* on a hit the allocate flag is irrelevant *)
Lemma ref_touch_hit r idx tag al : ref_lookup r idx tag = true ->
  ref_touch al r idx tag = ref_touch false r idx tag.
Proof.
  unfold ref_lookup, ref_touch, ref_set_touch. rewrite <- (ref_way_lookup _ _ 0).
  destruct (ref_way _ _ _); [reflexivity | discriminate].
Qed.

(** * Part 4: the data cache *)
Definition same_config (d d' : dcache) : Prop :=
  cfg (dc d') = cfg (dc d) /\ wthrough d' = wthrough d /\ penalty d' = penalty d.

Lemma same_config_refl d : same_config d d.
Proof. repeat split. Qed.

Lemma upd_dc_same d : upd_dc d (dc d) = d.
Proof. destruct d; reflexivity. Qed.

(* the state after a block fill: new directory; a displaced dirty block is written back unless
   the cache is write-through *)
Definition dfill (d : dcache) (da : daddr) (v : list Z) : dcache :=
  let d1 := upd_dc d (snd (cache_write_block (dc d) da v)) in
  match snd (fst (cache_write_block (dc d) da v)) with
  | Some (a, ws) => if wthrough d then d1 else upd_lower d1 (write_words (lower d1) a ws)
  | None => d1
  end.

Lemma dfill_dc d da v : dc (dfill d da v) = snd (cache_write_block (dc d) da v).
Proof.
  unfold dfill. destruct (snd (fst (cache_write_block (dc d) da v))) as [[a ws]|]; [|reflexivity].
  destruct (wthrough d); reflexivity.
Qed.

Lemma dfill_frame d da v :
  wthrough (dfill d da v) = wthrough d /\ penalty (dfill d da v) = penalty d /\
  counters_of (dfill d da v) = counters_of d.
Proof.
  unfold dfill. destruct (snd (fst (cache_write_block (dc d) da v))) as [[a ws]|]; [|repeat split].
  destruct (wthrough d) eqn:E; repeat split; cbn; auto.
Qed.

Lemma dc_read_block_cases d da :
  (exists w, lookup_of (dc d) da = Some w /\
     dc_read_block d da =
       (Ok (vals (nthZ (blocks (get_set (dc d) (da_idx da))) w empty_block), true),
        upd_dc d (snd (cache_read_block (dc d) da)))) \/
  (lookup_of (dc d) da = None /\
     exists e, read_words (lower d) (da_balign da) (block_words d) = Err e /\
       dc_read_block d da = (Err e, d)) \/
  (lookup_of (dc d) da = None /\
     exists v, read_words (lower d) (da_balign da) (block_words d) = Ok v /\
       dc_read_block d da = (Ok (v, false), dfill d da v)).
Proof.
  unfold dc_read_block. destruct (lookup_of (dc d) da) as [w|] eqn:El.
  - left. exists w. split; [reflexivity|]. rewrite (read_block_hit _ _ _ El). reflexivity.
  - right. rewrite (read_block_miss _ _ El).
    destruct (read_words (lower d) (da_balign da) (block_words d)) as [v|e] eqn:Er.
    + right. split; [reflexivity|]. exists v. split; [reflexivity|].
      unfold dfill. rewrite (write_block_miss _ _ _ El). reflexivity.
    + left. split; [reflexivity|]. exists e. split; reflexivity.
Qed.

Lemma dc_read_block_spec d da r d1 : DInv d -> dc_read_block d da = (r, d1) ->
  same_config d d1 /\ DInv d1 /\ counters_of d1 = counters_of d /\
  match r with
  | Err e => d1 = d /\ lookup_of (dc d) da = None
  | Ok (blk, hit) =>
      hit = hitb (lookup_of (dc d) da) /\
      tags_of d1 = ref_touch true (tags_of d) (da_idx da) (da_tag da) /\
      (hit = true -> lower d1 = lower d)
  end.
Proof.
  intros Hd Hr. unfold DInv, tags_of in *.
  destruct (dc_read_block_cases d da) as [(w & El & E)|[(El & e & Er & E)|(El & v & Er & E)]];
    rewrite E in Hr; injection Hr as <- <-.
  - cbn [upd_dc dc]. split; [repeat split; apply cfg_read_block|].
    split; [apply cinv_read_block; exact Hd|]. split; [reflexivity|].
    rewrite El. split; [reflexivity|]. split; [|reflexivity].
    destruct (cache_read_block (dc d) da) as [ob c'] eqn:Ec.
    destruct (read_block_abs _ _ _ _ Ec) as (Ha & Hh & _). cbn [snd]. rewrite Ha.
    symmetry. apply ref_touch_hit. rewrite <- lookup_of_ref, El. reflexivity.
  - split; [apply same_config_refl|]. split; [exact Hd|]. split; [reflexivity|]. split; [reflexivity | exact El].
  - destruct (dfill_frame d da v) as (Hw & Hp & Hc). unfold same_config. rewrite !dfill_dc.
    split; [split; [apply cfg_write_block | split; assumption]|].
    split; [apply cinv_write_block; exact Hd|]. split; [exact Hc|].
    rewrite El. split; [reflexivity|]. split; [|discriminate].
    apply write_block_miss_abs. exact El.
Qed.

Lemma dc_read_block_reread d da blk hit d1 : DInv d -> 0 <= da_idx da < 2 ^ ibits (cfg (dc d)) ->
  dc_read_block d da = (Ok (blk, hit), d1) -> dc_read_block d1 da = (Ok (blk, true), d1).
Proof.
  intros Hd Hidx Hr. unfold DInv in Hd.
  destruct (dc_read_block_cases d da) as [(w & El & E)|[(El & e & Er & E)|(El & v & Er & E)]];
    rewrite E in Hr; [|discriminate|]; injection Hr as <- <- <-.
  - unfold dc_read_block at 1. cbn [upd_dc dc].
    rewrite (reread_after_hit _ _ _ Hd El). rewrite (read_block_hit _ _ _ El). reflexivity.
  - unfold dc_read_block at 1. rewrite dfill_dc.
    rewrite (reread_after_fill _ _ v Hd Hidx El). rewrite <- dfill_dc, upd_dc_same. reflexivity.
Qed.

(* the statistics update and the block lookup/fill commute *)
Lemma dc_read_block_stats d da h :
  dc_read_block (fst (upd_stats d h)) da =
    (fst (dc_read_block d da), fst (upd_stats (snd (dc_read_block d da)) h)).
Proof.
  unfold dc_read_block, block_words. cbn [upd_stats fst dc lower].
  destruct (cache_read_block (dc d) da) as [[v|] c']; [reflexivity|].
  destruct (read_words (lower d) (da_balign da) _) as [v|e]; [|reflexivity].
  destruct (cache_write_block (dc d) da v) as [[h' [[a ws]|]] c2]; cbn [fst snd]; [|reflexivity].
  unfold upd_dc, upd_lower. cbn [dc lower wthrough penalty hits accesses lasthit].
  destruct (wthrough d); reflexivity.
Qed.

(** ** reads *)
Definition rd_hit (d : dcache) (a : Z) : bool :=
  ref_lookup (tags_of d) (ref_idx (cfg (dc d)) a) (ref_tag (cfg (dc d)) a).

Lemma dc_read_unfold d nbits a counted :
  dc_read d nbits a counted =
    match dc_read_block d (cdecode (dc d) a) with
    | (Err e, d') => (Err e, d', 0)
    | (Ok (blk, hit), d') =>
        (from_block nbits (cdecode (dc d) a) blk,
         (if counted then fst (upd_stats d' hit) else d'),
         (if counted then snd (upd_stats d' hit) else 0))
    end.
Proof.
  unfold dc_read. destruct (dc_read_block d (cdecode (dc d) a)) as [[[blk hit]|e] d']; [|reflexivity].
  destruct counted; reflexivity.
Qed.

(* everything about one read, accepted or not *)
Lemma dc_read_spec d nbits a counted r d' p : DInv d -> dc_read d nbits a counted = (r, d', p) ->
  same_config d d' /\ DInv d' /\
  ((* the block fill failed: nothing happened *)
   (exists e, r = Err e /\ d' = d /\ p = 0 /\ rd_hit d a = false) \/
   (* lookup, fill on a miss, lane extraction (which may still fail), statistics if counted *)
   (exists blk, r = from_block nbits (cdecode (dc d) a) blk /\
      tags_of d' = ref_touch true (tags_of d) (ref_idx (cfg (dc d)) a) (ref_tag (cfg (dc d)) a) /\
      (rd_hit d a = true -> lower d' = lower d) /\
      if counted
      then counters_of d' = count (counters_of d) (rd_hit d a) /\ p = miss_penalty (penalty d) (rd_hit d a)
      else counters_of d' = counters_of d /\ p = 0)).
Proof.
  intros Hd Hr. rewrite dc_read_unfold in Hr. unfold rd_hit.
  rewrite <- (cdecode_idx _ a Hd), <- (cdecode_tag _ a Hd).
  set (da := cdecode (dc d) a) in *.
  assert (Hh : ref_lookup (tags_of d) (da_idx da) (da_tag da) = hitb (lookup_of (dc d) da))
    by (symmetry; apply lookup_of_ref).
  rewrite Hh. clear Hh.
  destruct (dc_read_block d da) as [r1 d1] eqn:Eb.
  destruct (dc_read_block_spec _ _ _ _ Hd Eb) as (Hsc & Hd1 & Hc1 & Hres).
  destruct r1 as [[blk hit]|e].
  - destruct Hres as (Hhit & Htags & Hlow). rewrite <- Hhit.
    destruct counted; cbn [upd_stats fst snd] in Hr; injection Hr as <- <- <-.
    + split; [exact Hsc|]. split; [exact Hd1|]. right. exists blk. split; [reflexivity|].
      split; [exact Htags|]. split; [exact Hlow|].
      destruct Hsc as (_ & _ & Hp). rewrite Hp. unfold counters_of in *. cbn [hits accesses lasthit].
      injection Hc1 as -> -> _. split; reflexivity.
    + split; [exact Hsc|]. split; [exact Hd1|]. right. exists blk. auto.
  - destruct Hres as (-> & El). injection Hr as <- <- <-.
    split; [exact Hsc|]. split; [exact Hd1|]. left. exists e. rewrite El. auto.
Qed.

(* C09.5: the display re-read *)
Lemma reread_neutral_proof d nbits a counted r d1 p : DInv d ->
  dc_read d nbits a counted = (r, d1, p) -> dc_read d1 nbits a false = (r, d1, 0).
Proof.
  intros Hd Hr. pose proof (cdecode_idx_range _ a Hd) as Hidx.
  destruct (dc_read_spec _ _ _ _ _ _ _ Hd Hr) as ((Hcfg & _) & _ & _).
  rewrite dc_read_unfold in Hr. rewrite dc_read_unfold.
  assert (Hda : cdecode (dc d1) a = cdecode (dc d) a) by (unfold cdecode; rewrite Hcfg; reflexivity).
  rewrite Hda. set (da := cdecode (dc d) a) in *.
  destruct (dc_read_block d da) as [[[blk hit]|e] d0] eqn:Eb.
  - pose proof (dc_read_block_reread _ _ _ _ _ Hd Hidx Eb) as Hrr.
    assert (E1 : r = from_block nbits da blk) by congruence.
    assert (E2 : d1 = if counted then fst (upd_stats d0 hit) else d0) by congruence.
    subst r d1. clear Hr. destruct counted.
    + rewrite dc_read_block_stats, Hrr. reflexivity.
    + rewrite Hrr. reflexivity.
  - destruct (dc_read_block_spec _ _ _ _ Hd Eb) as (_ & _ & _ & -> & _).
    injection Hr as <- <- <-. rewrite Eb. reflexivity.
Qed.

(** ** writes *)
(* a halfword / word store that does not fit the addressed word *)
Definition crosses (nbits : Z) (da : daddr) : bool :=
  ((nbits =? 16) && (da_byoff da >? 2)) || ((nbits =? 32) && negb (da_byoff da =? 0)).

(* direct (parser) writes: only the lower memory is touched, even when the write fails *)
Lemma dc_write_direct_spec d nbits a v e d' p : dc_write d nbits a v true = (e, d', p) ->
  dc d' = dc d /\ counters_of d' = counters_of d /\ wthrough d' = wthrough d /\
  penalty d' = penalty d /\ p = 0 /\ mem_write rv_memcfg (lower d) nbits a v = (lower d', e).
Proof.
  unfold dc_write. destruct (mem_write rv_memcfg (lower d) nbits a v) as [m' e'] eqn:Em.
  intros H. injection H as <- <- <-. cbn [upd_lower dc wthrough penalty lower]. repeat split.
Qed.

Lemma read_block_facts (c : cache Z) da ob c1 : CInv c -> cache_read_block c da = (ob, c1) ->
  CInv c1 /\ cfg c1 = cfg c /\
  abs_dir c1 = ref_touch false (abs_dir c) (da_idx da) (da_tag da) /\
  match ob with
  | Some blk => ref_lookup (abs_dir c) (da_idx da) (da_tag da) = true /\
                exists w, lookup_of c da = Some w /\ c1 = snd (cache_read_block c da)
  | None => ref_lookup (abs_dir c) (da_idx da) (da_tag da) = false /\ lookup_of c da = None /\ c1 = c
  end.
Proof.
  intros Hc Er. pose proof (cinv_read_block _ da Hc) as Hc1. rewrite Er in Hc1. cbn [snd] in Hc1.
  destruct (read_block_abs _ _ _ _ Er) as (Ha & Hh & Hcfg). rewrite <- lookup_of_ref, Hh.
  split; [exact Hc1|]. split; [exact Hcfg|]. split; [exact Ha|].
  destruct ob as [blk|].
  - split; [reflexivity|]. destruct (lookup_of c da) as [w|] eqn:El; [|discriminate].
    exists w. rewrite Er. auto.
  - split; [reflexivity|]. destruct (lookup_of c da) as [w|] eqn:El; [discriminate|].
    rewrite (read_block_miss _ _ El) in Er. injection Er as <-. auto.
Qed.

Definition dc_hit := rd_hit.

(* write-through, no write-allocate *)
Lemma dc_write_wt_spec d nbits a v e d' p : DInv d -> wthrough d = true ->
  dc_write d nbits a v false = (e, d', p) ->
  let da := cdecode (dc d) a in
  let g := cfg (dc d) in
  same_config d d' /\ DInv d' /\
  ((crosses nbits da = true /\ d' = d /\ p = 0 /\
    e = Some (EOffset (da_byoff da) (if nbits =? 16 then 2 else 0))) \/
   (crosses nbits da = false /\
    tags_of d' = ref_touch false (tags_of d) (ref_idx g a) (ref_tag g a) /\
    counters_of d' = count (counters_of d) (dc_hit d a) /\
    p = miss_penalty (penalty d) (dc_hit d a))).
Proof.
  intros Hd Hwt Hw da g. unfold dc_hit, rd_hit. subst g.
  rewrite <- (cdecode_idx _ a Hd), <- (cdecode_tag _ a Hd). fold da.
  unfold dc_write in Hw. fold da in Hw. rewrite Hwt in Hw. unfold crosses.
  destruct ((nbits =? 16) && (da_byoff da >? 2)) eqn:E16.
  { injection Hw as <- <- <-. split; [apply same_config_refl|]. split; [exact Hd|]. left.
    apply andb_true_iff in E16. destruct E16 as [-> _]. auto. }
  destruct ((nbits =? 32) && negb (da_byoff da =? 0)) eqn:E32.
  { injection Hw as <- <- <-. split; [apply same_config_refl|]. split; [exact Hd|]. left.
    apply andb_true_iff in E32. destruct E32 as [E _]. apply Z.eqb_eq in E. subst nbits. auto. }
  cbn [orb].
  destruct (cache_read_block (dc d) da) as [ob c1] eqn:Er.
  destruct (read_block_facts _ _ _ _ Hd Er) as (Hc1 & Hcfg1 & Habs1 & Hob).
  unfold upd_stats in Hw. cbn [upd_dc dc lower wthrough penalty hits accesses lasthit] in Hw.
  destruct ob as [blk|].
  - destruct Hob as (Hhit & w & El & Ec1). unfold tags_of. rewrite Hhit.
    destruct (into_block nbits da blk v) as [blk'|e1] eqn:Ei.
    + destruct (write_after_read_hit (dc d) da blk' w Hd El) as (_ & Habs2 & _).
      rewrite <- Ec1 in Habs2.
      pose proof (cinv_write_block c1 da blk' Hc1) as Hc2.
      pose proof (cfg_write_block c1 da blk') as Hcfg2.
      destruct (cache_write_block c1 da blk') as [[h2 disp] c2] eqn:Ew. cbn [snd] in *.
      cbn [upd_dc dc lower wthrough penalty hits accesses lasthit] in Hw.
      destruct (mem_write rv_memcfg (lower d) nbits a v) as [m' e'] eqn:Em.
      injection Hw as <- <- <-. unfold same_config, DInv, counters_of, count, miss_penalty.
      cbn [upd_lower upd_dc dc wthrough penalty hits accesses lasthit c_hits c_accesses c_lasthit].
      split; [repeat split; congruence|]. split; [exact Hc2|]. right.
      split; [reflexivity|]. split; [congruence|]. split; reflexivity.
    + injection Hw as <- <- <-. unfold same_config, DInv, counters_of, count, miss_penalty.
      cbn [dc wthrough penalty hits accesses lasthit c_hits c_accesses c_lasthit].
      split; [repeat split; congruence|]. split; [exact Hc1|]. right.
      split; [reflexivity|]. split; [congruence|]. split; reflexivity.
  - destruct Hob as (Hhit & El & ->). unfold tags_of. rewrite Hhit.
    cbn [lower] in Hw.
    destruct (mem_write rv_memcfg (lower d) nbits a v) as [m' e'] eqn:Em.
    injection Hw as <- <- <-. unfold same_config, DInv, counters_of, count, miss_penalty.
    cbn [upd_lower upd_dc dc wthrough penalty hits accesses lasthit c_hits c_accesses c_lasthit].
    split; [repeat split; congruence|]. split; [exact Hc1|]. right.
    split; [reflexivity|]. split; [congruence|]. split; reflexivity.
Qed.

Lemma read_block_blocks {T} (c : cache T) da :
  map blocks (sets (snd (cache_read_block c da))) = map blocks (sets c).
Proof.
  unfold cache_read_block. destruct (find_block _ _ _) as [w|]; [|reflexivity].
  cbn [snd put_set sets]. rewrite map_set_nthZ. cbn [blocks].
  unfold get_set. change (@nil (cblock T)) with (blocks (dummy_set T)).
  rewrite <- (map_nthZ blocks). apply set_nthZ_same.
Qed.

(* write-back, write-allocate *)
Lemma dc_write_wb_spec d nbits a v e d' p : DInv d -> wthrough d = false ->
  dc_write d nbits a v false = (e, d', p) ->
  let da := cdecode (dc d) a in
  let g := cfg (dc d) in
  same_config d d' /\ DInv d' /\
  match e with
  | None =>
      tags_of d' = ref_touch true (tags_of d) (ref_idx g a) (ref_tag g a) /\
      counters_of d' = count (counters_of d) (dc_hit d a) /\
      p = miss_penalty (penalty d) (dc_hit d a)
  | Some e1 =>
      tags_of d' = ref_touch false (tags_of d) (ref_idx g a) (ref_tag g a) /\
      counters_of d' = counters_of d /\ p = 0 /\ lower d' = lower d /\
      map blocks (sets (dc d')) = map blocks (sets (dc d)) /\
      (dc_hit d a = false -> d' = d) /\
      ((dc_hit d a = false /\ read_words (lower d) (da_balign da) (block_words d) = Err e1) \/
       (exists blk, into_block nbits da blk v = Err e1))
  end.
Proof.
  intros Hd Hwt Hw da g. unfold dc_hit, rd_hit. subst g.
  rewrite <- (cdecode_idx _ a Hd), <- (cdecode_tag _ a Hd). fold da.
  unfold dc_write in Hw. fold da in Hw. rewrite Hwt in Hw.
  pose proof (read_block_blocks (dc d) da) as Hbl.
  destruct (cache_read_block (dc d) da) as [ob c1] eqn:Er. cbn [snd] in Hbl.
  destruct (read_block_facts _ _ _ _ Hd Er) as (Hc1 & Hcfg1 & Habs1 & Hob).
  destruct ob as [blk|].
  - destruct Hob as (Hhit & w & El & Ec1). unfold tags_of. rewrite Hhit.
    destruct (into_block nbits da blk v) as [blk'|e1] eqn:Ei.
    + destruct (write_after_read_hit (dc d) da blk' w Hd El) as (_ & Habs2 & Hfst).
      rewrite <- Ec1 in Habs2, Hfst.
      pose proof (cinv_write_block c1 da blk' Hc1) as Hc2.
      pose proof (cfg_write_block c1 da blk') as Hcfg2.
      cbn [upd_dc dc] in Hw.
      destruct (cache_write_block c1 da blk') as [[h2 disp] c2] eqn:Ew. cbn [snd fst] in *.
      injection Hfst as -> ->. unfold upd_stats in Hw. injection Hw as <- <- <-.
      unfold same_config, DInv, counters_of, count, miss_penalty.
      cbn [upd_lower upd_dc dc wthrough penalty hits accesses lasthit c_hits c_accesses c_lasthit].
      split; [repeat split; congruence|]. split; [exact Hc2|].
      split; [|split; reflexivity].
      rewrite Habs2, Habs1. symmetry. apply ref_touch_hit. exact Hhit.
    + injection Hw as <- <- <-. unfold same_config, DInv, counters_of.
      cbn [upd_dc dc wthrough penalty hits accesses lasthit lower].
      split; [repeat split; congruence|]. split; [exact Hc1|].
      split; [exact Habs1|]. split; [reflexivity|]. split; [reflexivity|]. split; [reflexivity|].
      split; [exact Hbl|]. split; [discriminate|]. right. exists blk. exact Ei.
  - destruct Hob as (Hhit & El & ->). unfold tags_of. rewrite Hhit.
    rewrite upd_dc_same in Hw.
    destruct (read_words (lower d) (da_balign da) (block_words d)) as [blk|e1] eqn:Erw.
    + destruct (into_block nbits da blk v) as [blk'|e1] eqn:Ei.
      * pose proof (write_block_miss_abs (dc d) da blk' El) as Habs2.
        pose proof (cinv_write_block (dc d) da blk' Hd) as Hc2.
        pose proof (cfg_write_block (dc d) da blk') as Hcfg2.
        rewrite (write_block_miss _ _ blk' El) in Hw, Habs2, Hc2, Hcfg2. cbn [snd] in *.
        unfold upd_stats in Hw. injection Hw as <- <- <-.
        unfold same_config, DInv, counters_of, count, miss_penalty.
        match goal with |- context [if dirty ?o then _ else _] => destruct (dirty o) end;
          cbn [upd_lower upd_dc dc wthrough penalty hits accesses lasthit c_hits c_accesses c_lasthit];
          (split; [repeat split; congruence|]); (split; [exact Hc2|]);
          (split; [exact Habs2|]); split; reflexivity.
      * injection Hw as <- <- <-.
        split; [apply same_config_refl|]. split; [exact Hd|]. split; [exact Habs1|].
        do 4 (split; [reflexivity|]). split; [intros _; reflexivity|]. right. exists blk. exact Ei.
    + injection Hw as <- <- <-.
      split; [apply same_config_refl|]. split; [exact Hd|]. split; [exact Habs1|].
      do 4 (split; [reflexivity|]). split; [intros _; reflexivity|]. left. auto.
Qed.

(** * Part 5: one step against the reference, histories *)
Lemma ref_of_eq d d' : tags_of d' = tags_of d -> counters_of d' = counters_of d -> ref_of d' = ref_of d.
Proof. unfold ref_of. intros -> ->. reflexivity. Qed.

(* every operation, accepted or rejected, keeps the invariant and the configuration *)
Lemma dc_step_inv d o : DInv d ->
  DInv (snd (fst (dc_step d o))) /\ same_config d (snd (fst (dc_step d o))).
Proof.
  intros Hd. destruct o as [nbits a counted|nbits a v direct]; unfold dc_step.
  - destruct (dc_read d nbits a counted) as [[r d'] p] eqn:E. cbn [fst snd].
    destruct (dc_read_spec _ _ _ _ _ _ _ Hd E) as (Hsc & Hd' & _). auto.
  - destruct (dc_write d nbits a v direct) as [[e d'] p] eqn:E. cbn [fst snd].
    destruct direct.
    + destruct (dc_write_direct_spec _ _ _ _ _ _ _ E) as (Hdc & _ & Hw & Hp & _).
      unfold DInv, same_config. rewrite Hdc. auto.
    + destruct (wthrough d) eqn:Hwt.
      * destruct (dc_write_wt_spec _ _ _ _ _ _ _ Hd Hwt E) as (Hsc & Hd' & _). auto.
      * destruct (dc_write_wb_spec _ _ _ _ _ _ _ Hd Hwt E) as (Hsc & Hd' & _). auto.
Qed.

(* an accepted operation is one step of the reference *)
Lemma dc_step_sim d o d' p : DInv d -> dc_step d o = (true, d', p) ->
  ref_step (cfg (dc d)) (wthrough d) (penalty d) (ref_of d) (acc_of o) = (ref_of d', p).
Proof.
  intros Hd Hs. destruct o as [nbits a counted|nbits a v direct]; unfold dc_step in Hs; cbn [acc_of ref_step].
  - destruct (dc_read d nbits a counted) as [[r d1] p1] eqn:E.
    destruct r as [x|e]; [|discriminate]. injection Hs as <- <-.
    destruct (dc_read_spec _ _ _ _ _ _ _ Hd E) as (_ & _ & [(e & He & _)|(blk & _ & Ht & _ & Hc)]);
      [discriminate|].
    unfold ref_of at 2. unfold rd_hit in Hc. cbn [r_dir r_cnt ref_of].
    destruct counted; destruct Hc as [Hc ->]; rewrite <- Ht, <- Hc; reflexivity.
  - destruct (dc_write d nbits a v direct) as [[e d1] p1] eqn:E.
    destruct e as [e|]; [discriminate|]. injection Hs as <- <-.
    destruct direct.
    + destruct (dc_write_direct_spec _ _ _ _ _ _ _ E) as (Hdc & Hc & _ & _ & -> & _).
      rewrite (ref_of_eq d d1); [reflexivity| |exact Hc]. unfold tags_of. rewrite Hdc. reflexivity.
    + unfold ref_of at 2. cbn [r_dir r_cnt ref_of]. destruct (wthrough d) eqn:Hwt; cbn [negb].
      * destruct (dc_write_wt_spec _ _ _ _ _ _ _ Hd Hwt E) as (_ & _ & [(_ & _ & _ & He)|(_ & Ht & Hc & ->)]);
          [discriminate|].
        unfold dc_hit, rd_hit in *. rewrite <- Ht, <- Hc. reflexivity.
      * destruct (dc_write_wb_spec _ _ _ _ _ _ _ Hd Hwt E) as (_ & _ & Ht & Hc & ->).
        unfold dc_hit, rd_hit in *. rewrite <- Ht, <- Hc. reflexivity.
Qed.

Lemma dc_run_ref d os : DInv d -> all_accepted d os ->
  dc_run d os = ref_run (cfg (dc d)) (wthrough d) (penalty d) (ref_of d) (map acc_of os).
Proof.
  revert d; induction os as [|o t IH]; intros d Hd Hacc; [reflexivity|].
  cbn [all_accepted] in Hacc. destruct Hacc as [Ha Ht].
  destruct (dc_step_inv d o Hd) as [Hd' (Hcfg & Hw & Hp)].
  cbn [dc_run map ref_run].
  destruct (dc_step d o) as [[acc d'] p] eqn:Es. cbn [fst snd] in *. subst acc.
  rewrite (dc_step_sim _ _ _ _ Hd Es). cbn [r_cnt ref_of]. f_equal.
  rewrite (IH d' Hd' Ht), Hcfg, Hw, Hp. reflexivity.
Qed.

(** ** the initial state *)
Lemma map_repeat {A B} (f : A -> B) x n : map f (repeat x n) = repeat (f x) n.
Proof. induction n as [|n IH]; cbn [repeat map]; [reflexivity | rewrite IH; reflexivity]. Qed.

Lemma abs_dir_init {T} g : abs_dir (@cache_init T g) = ref_init g.
Proof.
  unfold abs_dir, cache_init, ref_init. cbn [sets]. rewrite map_repeat. f_equal.
  unfold abs_set, empty_set, ref_init_set. cbn [blocks policy]. rewrite map_repeat. reflexivity.
Qed.

Definition dc_start (g : ccfg) (wt : bool) (pen : Z) (m : zmap) : dcache :=
  upd_lower (dcache_init g wt pen) m.

Lemma dinv_init_proof g wt pen m : geom_ok g -> DInv (dc_start g wt pen m).
Proof. intros Hg. unfold DInv, dc_start. cbn [upd_lower dcache_init dc]. apply cinv_init. exact Hg. Qed.

Lemma ref_of_init g wt pen m : ref_of (dc_start g wt pen m) = rcache_init g.
Proof.
  unfold ref_of, rcache_init, tags_of, counters_of, dc_start.
  cbn [upd_lower dcache_init dc hits accesses lasthit]. rewrite abs_dir_init. reflexivity.
Qed.

Lemma dinv_after d os : DInv d -> DInv (dc_after d os) /\ same_config d (dc_after d os).
Proof.
  revert d; induction os as [|o t IH]; intros d Hd; cbn [dc_after]; [split; [exact Hd | apply same_config_refl]|].
  destruct (dc_step_inv d o Hd) as [Hd' (Hcfg & Hw & Hp)].
  destruct (IH _ Hd') as [Hd'' (Hcfg' & Hw' & Hp')]. split; [exact Hd''|].
  unfold same_config. repeat split; congruence.
Qed.

(* C09.3 *)
Lemma counters_match_reference_proof g wt pen m os : geom_ok g ->
  all_accepted (dc_start g wt pen m) os ->
  dc_run (dc_start g wt pen m) os = ref_run g wt pen (rcache_init g) (map acc_of os).
Proof.
  intros Hg Hacc. rewrite (dc_run_ref _ _ (dinv_init_proof g wt pen m Hg) Hacc), ref_of_init.
  reflexivity.
Qed.

(** * Part 6: packaged statements for Props/C09.v *)
Section Packaged.
  Variables (d : dcache) (nbits a : Z).
  Let g := cfg (dc d).
  Let idx := ref_idx g a.
  Let tag := ref_tag g a.
  Let hit := ref_lookup (tags_of d) idx tag.

  (* C09.1 *)
  Lemma dir_refines_read_proof counted x d' p : DInv d ->
    dc_read d nbits a counted = (Ok x, d', p) -> tags_of d' = ref_touch true (tags_of d) idx tag.
  Proof.
    intros Hd E. destruct (dc_read_spec _ _ _ _ _ _ _ Hd E) as (_ & _ & [(e & He & _)|(blk & _ & Ht & _)]);
      [discriminate | exact Ht].
  Qed.

  Lemma dir_refines_write_proof v d' p : DInv d ->
    dc_write d nbits a v false = (None, d', p) ->
    tags_of d' = ref_touch (negb (wthrough d)) (tags_of d) idx tag.
  Proof.
    intros Hd E. destruct (wthrough d) eqn:Hwt; cbn [negb].
    - destruct (dc_write_wt_spec _ _ _ _ _ _ _ Hd Hwt E) as (_ & _ & [(_ & _ & _ & He)|(_ & Ht & _)]);
        [discriminate | exact Ht].
    - destruct (dc_write_wb_spec _ _ _ _ _ _ _ Hd Hwt E) as (_ & _ & Ht & _). exact Ht.
  Qed.

  Lemma hit_decision_proof blk h d1 : DInv d ->
    dc_read_block d (cdecode (dc d) a) = (Ok (blk, h), d1) -> h = hit.
  Proof.
    intros Hd E. destruct (dc_read_block_spec _ _ _ _ Hd E) as (_ & _ & _ & Hh & _).
    subst hit idx tag g. rewrite Hh, lookup_of_ref, (cdecode_idx _ a Hd), (cdecode_tag _ a Hd). reflexivity.
  Qed.

  (* C09.2 *)
  Lemma counters_read_counted_proof x d' p : DInv d ->
    dc_read d nbits a true = (Ok x, d', p) ->
    hits d' = hits d + (if hit then 1 else 0) /\ accesses d' = accesses d + 1 /\
    lasthit d' = hit /\ p = (if hit then 0 else penalty d).
  Proof.
    intros Hd E. destruct (dc_read_spec _ _ _ _ _ _ _ Hd E) as (_ & _ & [(e & He & _)|(blk & _ & _ & _ & Hc & Hp)]);
      [discriminate|].
    unfold counters_of, count, rd_hit in Hc. injection Hc as -> -> ->. auto.
  Qed.

  Lemma counters_read_uncounted_proof x d' p : DInv d ->
    dc_read d nbits a false = (Ok x, d', p) ->
    hits d' = hits d /\ accesses d' = accesses d /\ lasthit d' = lasthit d /\ p = 0.
  Proof.
    intros Hd E. destruct (dc_read_spec _ _ _ _ _ _ _ Hd E) as (_ & _ & [(e & He & _)|(blk & _ & _ & _ & Hc & Hp)]);
      [discriminate|].
    unfold counters_of in Hc. injection Hc as -> -> ->. auto.
  Qed.

  Lemma counters_write_proof v d' p : DInv d ->
    dc_write d nbits a v false = (None, d', p) ->
    hits d' = hits d + (if hit then 1 else 0) /\ accesses d' = accesses d + 1 /\
    lasthit d' = hit /\ p = (if hit then 0 else penalty d).
  Proof.
    intros Hd E. destruct (wthrough d) eqn:Hwt.
    - destruct (dc_write_wt_spec _ _ _ _ _ _ _ Hd Hwt E) as (_ & _ & [(_ & _ & _ & He)|(_ & _ & Hc & Hp)]);
        [discriminate|].
      unfold counters_of, count, dc_hit, rd_hit in Hc. injection Hc as -> -> ->. auto.
    - destruct (dc_write_wb_spec _ _ _ _ _ _ _ Hd Hwt E) as (_ & _ & _ & Hc & Hp).
      unfold counters_of, count, dc_hit, rd_hit in Hc. injection Hc as -> -> ->. auto.
  Qed.

  Lemma direct_write_proof v e d' p : dc_write d nbits a v true = (e, d', p) ->
    dc d' = dc d /\ hits d' = hits d /\ accesses d' = accesses d /\ lasthit d' = lasthit d /\
    p = 0 /\ mem_write rv_memcfg (lower d) nbits a v = (lower d', e).
  Proof.
    intros E. destruct (dc_write_direct_spec _ _ _ _ _ _ _ E) as (Hdc & Hc & _ & _ & Hp & Hm).
    unfold counters_of in Hc. injection Hc as -> -> ->. repeat split; assumption.
  Qed.

  Lemma config_constant_proof (o : dop) : DInv d ->
    let d' := snd (fst (dc_step d o)) in
    DInv d' /\ cfg (dc d') = cfg (dc d) /\ wthrough d' = wthrough d /\ penalty d' = penalty d.
  Proof. intros Hd. apply dc_step_inv. exact Hd. Qed.

  (* C09.4 *)
  Lemma rejected_wt_crossing_proof v : wthrough d = true ->
    crosses nbits (cdecode (dc d) a) = true ->
    dc_write d nbits a v false =
      (Some (EOffset (da_byoff (cdecode (dc d) a)) (if nbits =? 16 then 2 else 0)), d, 0).
  Proof.
    intros Hwt Hc. unfold dc_write. rewrite Hwt. unfold crosses in Hc.
    destruct ((nbits =? 16) && (da_byoff (cdecode (dc d) a) >? 2)) eqn:E16.
    - apply andb_true_iff in E16. destruct E16 as [-> _]. reflexivity.
    - cbn [orb] in Hc. rewrite Hc. apply andb_true_iff in Hc. destruct Hc as [E _].
      apply Z.eqb_eq in E. subst nbits. reflexivity.
  Qed.

  Lemma wt_write_effects_proof v e d' p : DInv d -> wthrough d = true ->
    crosses nbits (cdecode (dc d) a) = false ->
    dc_write d nbits a v false = (e, d', p) ->
    tags_of d' = ref_touch false (tags_of d) idx tag /\
    counters_of d' = count (counters_of d) hit /\ p = miss_penalty (penalty d) hit.
  Proof.
    intros Hd Hwt Hc E.
    destruct (dc_write_wt_spec _ _ _ _ _ _ _ Hd Hwt E) as (_ & _ & [(Hc' & _)|(_ & H)]);
      [congruence | exact H].
  Qed.

  Lemma read_effects_proof counted r d' p : DInv d -> dc_read d nbits a counted = (r, d', p) ->
    (exists e, r = Err e /\ d' = d /\ p = 0 /\ hit = false) \/
    (exists blk, r = from_block nbits (cdecode (dc d) a) blk /\
       tags_of d' = ref_touch true (tags_of d) idx tag /\
       (hit = true -> lower d' = lower d) /\
       if counted
       then counters_of d' = count (counters_of d) hit /\ p = miss_penalty (penalty d) hit
       else counters_of d' = counters_of d /\ p = 0).
  Proof. intros Hd E. apply (dc_read_spec _ _ _ _ _ _ _ Hd E). Qed.

  Lemma rejected_wb_proof v e d' p : DInv d -> wthrough d = false ->
    dc_write d nbits a v false = (Some e, d', p) ->
    tags_of d' = ref_touch false (tags_of d) idx tag /\
    counters_of d' = counters_of d /\ p = 0 /\ lower d' = lower d /\
    map blocks (sets (dc d')) = map blocks (sets (dc d)) /\
    (hit = false -> d' = d) /\
    ((hit = false /\
      read_words (lower d) (da_balign (cdecode (dc d) a)) (block_words d) = Err e) \/
     (exists blk, into_block nbits (cdecode (dc d) a) blk v = Err e)).
  Proof. intros Hd Hwt E. apply (dc_write_wb_spec _ _ _ _ _ _ _ Hd Hwt E). Qed.
End Packaged.

(* the byte offset the lane checks look at *)
Lemma byoff_mod4 {T} (c : cache T) a : da_byoff (cdecode c a) = (a mod 2 ^ 32) mod 4.
Proof. unfold cdecode, decode_addr. cbn [da_byoff]. change 3 with (2 ^ 2 - 1). rewrite land_ones_mod by lia. reflexivity. Qed.

Lemma DInv_meaning_proof : forall d,
  DInv d <->
  let g := cfg (dc d) in
  0 <= ibits g /\ 0 <= bbits g /\ 1 <= assoc g /\
  length (sets (dc d)) = Z.to_nat (2 ^ ibits g) /\
  Forall (fun s => length (blocks s) = Z.to_nat (assoc g) /\
                   match policy s with
                   | LRU o => NoDup o /\ forall x, In x o <-> 0 <= x < assoc g
                   | PLRU n _ => n = assoc g /\ exists k : nat, assoc g = 2 ^ Z.of_nat k
                   end) (sets (dc d)).
Proof. intros d. reflexivity. Qed.

Lemma dinv_reachable_proof g wt pen m os : geom_ok g ->
  let d := dc_after (dc_start g wt pen m) os in
  DInv d /\ cfg (dc d) = g /\ wthrough d = wt /\ penalty d = pen.
Proof.
  intros Hg d. destruct (dinv_after _ os (dinv_init_proof g wt pen m Hg)) as [Hd (H1 & H2 & H3)].
  fold d in Hd, H1, H2, H3. auto.
Qed.

Lemma decode_agrees_proof d a : DInv d ->
  da_idx (cdecode (dc d) a) = ref_idx (cfg (dc d)) a /\
  da_tag (cdecode (dc d) a) = ref_tag (cfg (dc d)) a /\
  da_byoff (cdecode (dc d) a) = (a mod 2 ^ 32) mod 4 /\
  0 <= ref_idx (cfg (dc d)) a < 2 ^ ibits (cfg (dc d)).
Proof.
  intros Hd. split; [apply cdecode_idx; exact Hd|]. split; [apply cdecode_tag; exact Hd|].
  split; [apply byoff_mod4|]. apply ref_idx_range. apply Hd.
Qed.

Lemma crosses_meaning_proof nbits da :
  crosses nbits da = true <-> (nbits = 16 /\ da_byoff da > 2) \/ (nbits = 32 /\ da_byoff da <> 0).
Proof. unfold crosses. lia. Qed.

(* reset(): fresh directory, cleared lower memory, counters KEPT *)
Lemma dc_reset_proof d : geom_ok (cfg (dc d)) ->
  DInv (dc_reset d) /\ tags_of (dc_reset d) = ref_init (cfg (dc d)) /\
  counters_of (dc_reset d) = counters_of d /\ lower (dc_reset d) = [] /\
  cfg (dc (dc_reset d)) = cfg (dc d) /\ wthrough (dc_reset d) = wthrough d /\
  penalty (dc_reset d) = penalty d.
Proof.
  intros Hg. unfold DInv, tags_of, dc_reset. cbn [dc lower wthrough penalty].
  split; [apply cinv_init; exact Hg|]. split; [apply abs_dir_init|]. repeat split.
Qed.
