(* LexProofs1.v — Model/Lex.v: sanitising lemmas; blank and comment lines produce no entry;
   indentation, trailing blanks and a trailing comment do not change the result. *)
From Coq Require Import ZArith List Bool Lia ZifyBool.
From ArchSim Require Import Model.Base Model.Fmt Model.Toy Model.Asm Model.Lex.
Import ListNotations.
Open Scope Z_scope.

Definition all_space (s : str) : bool := forallb py_isspace s.
Definition no_hash (s : str) : bool := forallb (fun c => negb (c =? 35)) s.

Lemma hash_not_space : py_isspace 35 = false.  Proof. reflexivity. Qed.

Lemma lstrip_app_space ws s : all_space ws = true -> lstrip (ws ++ s) = lstrip s.
Proof.
  induction ws as [|c ws IH]; intros H; [reflexivity|].
  cbn [all_space forallb] in H. apply andb_true_iff in H as [Hc Hw].
  cbn [app lstrip]. rewrite Hc. apply IH, Hw.
Qed.

Lemma lstrip_all s : all_space s = true -> lstrip s = [].
Proof. intros H. rewrite <- (app_nil_r s). rewrite lstrip_app_space by exact H. reflexivity. Qed.

Lemma lstrip_nil s : lstrip s = [] -> all_space s = true.
Proof.
  induction s as [|c s IH]; intros H; [reflexivity|].
  cbn [lstrip] in H. cbn [all_space forallb]. destruct (py_isspace c) eqn:Hc; [|discriminate].
  cbn [andb]. apply IH, H.
Qed.

Lemma lstrip_split s : exists p, all_space p = true /\ s = p ++ lstrip s.
Proof.
  induction s as [|c s [p [Hp Hs]]]; [exists []; split; reflexivity|].
  cbn [lstrip]. destruct (py_isspace c) eqn:Hc.
  - exists (c :: p). split; [cbn [all_space forallb]; rewrite Hc; exact Hp|]. cbn [app]. f_equal. exact Hs.
  - exists []. split; reflexivity.
Qed.

Lemma lstrip_head s c t : lstrip s = c :: t -> py_isspace c = false.
Proof.
  induction s as [|d s IH]; intros H; [discriminate|].
  cbn [lstrip] in H. destruct (py_isspace d) eqn:Hd; [apply IH, H|]. inversion H; subst. exact Hd.
Qed.

Lemma lstrip_cons_app s c t x : lstrip s = c :: t -> lstrip (s ++ x) = c :: t ++ x.
Proof.
  induction s as [|d s IH]; intros H; [discriminate|].
  cbn [lstrip app] in *. destruct (py_isspace d) eqn:Hd; [apply IH, H|].
  inversion H; subst. reflexivity.
Qed.

Lemma all_space_rev s : all_space (rev s) = all_space s.
Proof.
  unfold all_space. destruct (forallb py_isspace s) eqn:H.
  - apply forallb_forall. intros x Hx. rewrite <- in_rev in Hx. rewrite forallb_forall in H. auto.
  - destruct (forallb py_isspace (rev s)) eqn:H2; [|reflexivity].
    rewrite forallb_forall in H2. assert (forallb py_isspace s = true); [|congruence].
    apply forallb_forall. intros x Hx. apply H2. rewrite <- in_rev. exact Hx.
Qed.

Lemma all_space_app a b : all_space (a ++ b) = all_space a && all_space b.
Proof. apply forallb_app. Qed.

Lemma py_strip_pad ind l trail :
  all_space ind = true -> all_space trail = true -> py_strip (ind ++ l ++ trail) = py_strip l.
Proof.
  intros Hi Ht. unfold py_strip. rewrite lstrip_app_space by exact Hi.
  destruct (lstrip l) as [|c t] eqn:Hl.
  - rewrite (lstrip_all (l ++ trail)); [reflexivity|]. rewrite all_space_app, Ht, (lstrip_nil _ Hl). reflexivity.
  - rewrite (lstrip_cons_app _ _ _ trail Hl).
    change (c :: t ++ trail) with ((c :: t) ++ trail). rewrite rev_app_distr.
    rewrite lstrip_app_space; [reflexivity|]. rewrite all_space_rev. exact Ht.
Qed.

Lemma before_hash_app a b : no_hash a = true -> before_hash (a ++ b) = a ++ before_hash b.
Proof.
  induction a as [|c a IH]; intros H; [reflexivity|].
  cbn [no_hash forallb] in H. apply andb_true_iff in H as [Hc Ha].
  cbn [app before_hash]. destruct (c =? 35) eqn:E; [discriminate|]. f_equal. apply IH, Ha.
Qed.

Lemma before_hash_id a : no_hash a = true -> before_hash a = a.
Proof. intros H. rewrite <- (app_nil_r a) at 1. rewrite before_hash_app by exact H. cbn. apply app_nil_r. Qed.

Lemma space_no_hash s : all_space s = true -> no_hash s = true.
Proof.
  unfold all_space, no_hash. rewrite !forallb_forall. intros H x Hx. specialize (H x Hx).
  destruct (x =? 35) eqn:E; [|reflexivity]. apply Z.eqb_eq in E. subst. discriminate.
Qed.

Lemma no_hash_app a b : no_hash (a ++ b) = no_hash a && no_hash b.
Proof. apply forallb_app. Qed.

(* a trailing comment: nothing, or '#' followed by anything *)
Definition is_comment (c : str) : bool := match c with [] => true | h :: _ => h =? 35 end.

Lemma before_hash_comment c : is_comment c = true -> before_hash c = [].
Proof. destruct c as [|h t]; [reflexivity|]. cbn. intros ->. reflexivity. Qed.

Lemma sanitize_layout ind l trail cmt :
  all_space ind = true -> all_space trail = true -> no_hash l = true -> is_comment cmt = true ->
  sanitize (ind ++ l ++ trail ++ cmt) = sanitize l.
Proof.
  intros Hi Ht Hl Hc. unfold sanitize. rewrite lstrip_app_space by exact Hi.
  destruct (lstrip l) as [|c t] eqn:El.
  - rewrite app_assoc. rewrite lstrip_app_space.
    2:{ rewrite all_space_app, Ht, (lstrip_nil _ El). reflexivity. }
    destruct cmt as [|h ct]; [reflexivity|]. cbn in Hc. apply Z.eqb_eq in Hc. subst h.
    cbn [lstrip]. rewrite hash_not_space. reflexivity.
  - rewrite (lstrip_cons_app _ _ _ (trail ++ cmt) El).
    assert (Hc35 : (c =? 35) = false).
    { destruct (lstrip_split l) as [p [_ Hp]]. rewrite El in Hp. rewrite Hp in Hl.
      rewrite no_hash_app in Hl. apply andb_true_iff in Hl as [_ Hl]. cbn in Hl.
      destruct (c =? 35); [discriminate|reflexivity]. }
    rewrite Hc35. f_equal.
    rewrite before_hash_app by (apply space_no_hash, Hi).
    rewrite before_hash_app by exact Hl.
    rewrite before_hash_app by (apply space_no_hash, Ht).
    rewrite (before_hash_comment _ Hc), app_nil_r, (before_hash_id _ Hl).
    apply py_strip_pad; assumption.
Qed.

(** (a), outer part: indentation, trailing blanks, trailing comment *)
Theorem lex_outer_layout ind l trail cmt :
  all_space ind = true -> all_space trail = true -> no_hash l = true -> is_comment cmt = true ->
  lex_line (ind ++ l ++ trail ++ cmt) = lex_line l.
Proof. intros. unfold lex_line. rewrite sanitize_layout by assumption. reflexivity. Qed.

(** (e) blank and comment lines *)
Lemma lex_core_not_skip s : lex_core s <> LexSkip.
Proof.
  unfold lex_core. destruct (or_longest _) as [[[ok l] r]|]; [|discriminate].
  destruct (skip_ws r); [destruct ok|]; discriminate.
Qed.

(* a line gives no entry exactly when it is blank or its first non-blank character is '#' *)
Theorem lex_skip_iff l :
  lex_line l = LexSkip <-> (all_space l = true \/ exists ws c, all_space ws = true /\ l = ws ++ 35 :: c).
Proof.
  unfold lex_line, sanitize. destruct (lstrip_split l) as [p [Hp Hl]].
  destruct (lstrip l) as [|c t] eqn:El.
  - split; [intros _; left; apply lstrip_nil, El|reflexivity].
  - destruct (c =? 35) eqn:E.
    + apply Z.eqb_eq in E. subst c. split; [|reflexivity]. intros _. right. exists p, t. split; assumption.
    + split; [intros H; exfalso; exact (lex_core_not_skip _ H)|].
      intros [H|[ws [c' [Hw Hx]]]].
      * rewrite (lstrip_all _ H) in El. discriminate.
      * rewrite Hx, lstrip_app_space in El by exact Hw. cbn [lstrip] in El. rewrite hash_not_space in El.
        inversion El; subst. discriminate.
Qed.

Theorem lex_blank_line l : all_space l = true -> lex_line l = LexSkip.
Proof. intros H. apply lex_skip_iff. left. exact H. Qed.
Theorem lex_comment_line ws c : all_space ws = true -> lex_line (ws ++ 35 :: c) = LexSkip.
Proof. intros H. apply lex_skip_iff. right. exists ws, c. split; [exact H|reflexivity]. Qed.

(* no entry, no effect on the names interned so far; only the line counter advances *)
Theorem lex_lines_skip ln t l rest : lex_line l = LexSkip -> lex_lines ln t (l :: rest) = lex_lines (ln + 1) t rest.
Proof. intros H. cbn [lex_lines]. rewrite H. reflexivity. Qed.
