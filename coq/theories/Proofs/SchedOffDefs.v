(* SchedOffDefs.v — the documented recurrence with the hazard term switchable, as in
   harness/sched.py: [schedule(tr, hazards)].  [schedule_off] = hazards False: decode never waits
   (the hazard-FREE recurrence); redirects and the ecall drain are as before.
   Pure list reasoning:
     schedule_g true  = schedule                       (Proofs/SchedDefs.v)
     schedule_off evs = schedule (map nosrc evs)       the hazard term is false exactly when no
                                                       event has source registers
   so that everything proved about [schedule] (window form, gap law, closed form of the total)
   applies to [schedule_off]. *)
From Coq Require Import Lia ZifyBool.
From ArchSim Require Import Model.Base Model.Mem Model.Cache Model.Fmt Model.RV Model.Single
  Model.RVSplit Model.Pipe Proofs.PipeLaws Proofs.PipeShape Proofs.PipeInv Proofs.SchedDefs
  Proofs.SchedRec.
Open Scope nat_scope.

(* sched.py, schedule(tr, hazards): literally, the rows of all earlier instructions searched *)
Definition row_next_g (hz : bool) (hist : list row) (e : event) : row :=
  let d0 := match hist with
            | [] => 2
            | r :: _ => if ev_redirect (r_ev r) then (r_X r + 1) + 2 else r_D r + 1
            end in
  let d1 := match hist with [] => d0 | r :: _ => Nat.max d0 (r_X r) end in
  let haz := hz && existsb (fun r => dst_in (r_ev r) e && ((r_X r =? d1) || (r_X r + 1 =? d1))) hist in
  let d := if haz then d1 + 2 else d1 in
  let x0 := d + 1 in
  let x := if ev_ecall e && existsb (fun r => (r_X r + 1 =? x0) || (r_X r + 2 =? x0)) hist
           then x0 + 2 else x0 in
  {| r_ev := e; r_D := d; r_X := x |}.

Fixpoint sched_go_g (hz : bool) (hist : list row) (evs : list event) : list nat :=
  match evs with
  | [] => []
  | e :: tl => let r := row_next_g hz hist e in (r_X r + 2) :: sched_go_g hz (r :: hist) tl
  end.
Definition schedule_g (hz : bool) (evs : list event) : list nat := sched_go_g hz [] evs.
Definition schedule_off (evs : list event) : list nat := schedule_g false evs.

(** * hazards = True is [schedule] *)
Lemma row_next_g_true hist e : row_next_g true hist e = row_next hist e.
Proof. reflexivity. Qed.

Lemma sched_go_g_true evs : forall hist, sched_go_g true hist evs = sched_go hist evs.
Proof.
  induction evs as [|e tl IH]; intros hist; cbn [sched_go_g sched_go]; [reflexivity|].
  rewrite row_next_g_true, IH. reflexivity.
Qed.
Theorem schedule_g_true evs : schedule_g true evs = schedule evs.
Proof. apply sched_go_g_true. Qed.

(** * hazards = False is [schedule] on events without source registers *)
Definition nosrc (e : event) : event :=
  {| ev_addr := ev_addr e; ev_srcs := []; ev_dst := ev_dst e; ev_redirect := ev_redirect e;
     ev_ecall := ev_ecall e |}.
Definition nosrc_row (r : row) : row := {| r_ev := nosrc (r_ev r); r_D := r_D r; r_X := r_X r |}.

Lemma dst_in_nosrc ej e : dst_in ej (nosrc e) = false.
Proof. unfold dst_in. destruct (ev_dst ej); reflexivity. Qed.

Lemma existsb_map {A B} (f : B -> bool) (g : A -> B) l : existsb f (map g l) = existsb (fun a => f (g a)) l.
Proof. induction l as [|a l IH]; cbn [map existsb]; [reflexivity|rewrite IH; reflexivity]. Qed.

Lemma row_next_off hist e :
  row_next (map nosrc_row hist) (nosrc e) = nosrc_row (row_next_g false hist e).
Proof.
  unfold row_next, row_next_g. cbn [andb].
  assert (Hh : existsb (fun r => dst_in (r_ev r) (nosrc e) &&
                 ((r_X r =? match map nosrc_row hist with
                            | [] => match map nosrc_row hist with [] => 2 | r0 :: _ =>
                                      if ev_redirect (r_ev r0) then r_X r0 + 1 + 2 else r_D r0 + 1 end
                            | r0 :: _ => Nat.max (match map nosrc_row hist with [] => 2 | r1 :: _ =>
                                      if ev_redirect (r_ev r1) then r_X r1 + 1 + 2 else r_D r1 + 1 end) (r_X r0)
                            end) || (r_X r + 1 =? match map nosrc_row hist with
                            | [] => match map nosrc_row hist with [] => 2 | r0 :: _ =>
                                      if ev_redirect (r_ev r0) then r_X r0 + 1 + 2 else r_D r0 + 1 end
                            | r0 :: _ => Nat.max (match map nosrc_row hist with [] => 2 | r1 :: _ =>
                                      if ev_redirect (r_ev r1) then r_X r1 + 1 + 2 else r_D r1 + 1 end) (r_X r0)
                            end))) (map nosrc_row hist) = false).
  { apply existsb_none. apply Forall_forall. intros r _. rewrite dst_in_nosrc. reflexivity. }
  rewrite Hh. clear Hh. rewrite existsb_map. unfold nosrc_row at 1. cbn [r_ev r_D r_X nosrc ev_ecall].
  destruct hist as [|r0 tl]; cbn [map nosrc_row r_ev r_D r_X nosrc ev_redirect]; reflexivity.
Qed.

Lemma sched_go_off evs : forall hist,
  sched_go_g false hist evs = sched_go (map nosrc_row hist) (map nosrc evs).
Proof.
  induction evs as [|e tl IH]; intros hist; cbn [sched_go_g sched_go map]; [reflexivity|].
  rewrite row_next_off. cbn [nosrc_row r_X]. f_equal.
  rewrite (IH (row_next_g false hist e :: hist)). reflexivity.
Qed.

Theorem schedule_off_nosrc evs : schedule_off evs = schedule (map nosrc evs).
Proof. exact (sched_go_off evs []). Qed.
