(* SplitExec.v — vocabulary of the data-path half of property C02
   ("five-stage pipeline = single-cycle"): one instruction flowing ALONE through the stages
   ID, EX, MEM, WB of the modelled pipeline (Model/Pipe.v), to be compared with [behavior].
   Definitions only (plus three closed computations that justify the hypotheses);
   the proofs are in Proofs/C02Split.v, the statements in Props/C02Split.v. *)
From ArchSim Require Import Model.Base Model.Mem Model.Cache Model.Fmt Model.RV Model.Single
  Model.RVSplit Model.Pipe Proofs.WordLemmas.
Open Scope Z_scope.

(** the instruction classes that have a four-phase split in the simulator (ebreak, fence and the
    csr classes are "not implemented" in both machines, with different exception texts) *)
Definition supported (i : instr) : bool :=
  match i with
  | IEbreak | IFence | ICsr _ _ _ _ | ICsri _ _ _ _ => false
  | _ => true
  end.

(** [flow i s]: the instruction [i], fetched at [pc s], is alone in the pipeline and traverses
    ID, EX, MEM, WB — the real stage functions of Pipe.v applied to the one occupied latch.
    Result: final architectural state, the redirect requested by the MEM stage
    (flush_signal.address: taken branch, jal, jalr, exiting ecall), and the exception raised.
    A stage that raises stops the instruction: later stages do not run. *)
Definition flow (i : instr) (s : st) : st * option Z * option err :=
  let d := stage_id false [Some (slot_if i (pc s)); None; None; None; None] 0 s in
  match stage_ex [None; d; None; None; None] 1 s with
  | (_, s1, Some e) => (s1, None, Some e)
  | (e, s1, None) =>
      match stage_mem [None; None; e; None; None] 2 s1 with
      | (_, s2, Some er) => (s2, None, Some er)
      | (m, s2, None) =>
          match stage_wb [None; None; None; m; None] 3 s2 with
          | (_, s3, Some er) => (s3, None, Some er)
          | (_, s3, None) => (s3, flush_of m, None)
          end
      end
  end.

(* the same with the hazard-detection flag of the pipeline switched on *)
Definition flow_hz (hz : bool) (i : instr) (s : st) : st * option Z * option err :=
  let d := stage_id hz [Some (slot_if i (pc s)); None; None; None; None] 0 s in
  match stage_ex [None; d; None; None; None] 1 s with
  | (_, s1, Some e) => (s1, None, Some e)
  | (e, s1, None) =>
      match stage_mem [None; None; e; None; None] 2 s1 with
      | (_, s2, Some er) => (s2, None, Some er)
      | (m, s2, None) =>
          match stage_wb [None; None; None; m; None] 3 s2 with
          | (_, s3, Some er) => (s3, None, Some er)
          | (_, s3, None) => (s3, flush_of m, None)
          end
      end
  end.

Definition flow_state (i : instr) (s : st) : st := fst (fst (flow i s)).
Definition flow_redirect (i : instr) (s : st) : option Z := snd (fst (flow i s)).
Definition flow_err (i : instr) (s : st) : option err := snd (flow i s).

(* the address the fetch stage uses next: the redirect if there is one, else the fall-through *)
Definition next_pc (s : st) (redirect : option Z) : Z :=
  match redirect with Some a => a | None => pc s + 4 end.

(** Words held in data-cache blocks are 32-bit.  (Python keeps them as UInt32 objects; in the
    model they are plain integers, so this is an invariant of reachable states.  It matters for
    LW only: [behavior] writes the word read as it is, write_back writes UInt32 of it.)
    A flat memory system needs nothing: its reads are cast by the memory itself. *)
Definition block_words_ok (b : cblock Z) : Prop := Forall in32 (vals b).
Definition set_words_ok (cs : cset Z) : Prop := Forall block_words_ok (blocks cs).
Definition cache_words_ok (c : cache Z) : Prop := Forall set_words_ok (sets c).
Definition mem_words_ok (m : memsys) : Prop :=
  match m with MFlat _ => True | MCache d => cache_words_ok (dc d) end.

(** * Concrete states for the examples *)
Definition ex_flat (p : Z) (r : zmap) (m : zmap) : st :=
  {| pc := p; regs := r; ms := MFlat m; im := {| prog := []; icc := None |};
     out := []; exitc := None;
     icount := 0; bcount := 0; pcount := 0; cycles := 0; stalls := 0; flushes := 0 |}.

(* a one-set, one-way, one-word-per-block write-back cache whose only block is valid for tag 0x4000
   (address 0x10000) and holds the non-32-bit integer 2^32 + 5: not a reachable state *)
Definition ex_badcache : st :=
  {| pc := 0; regs := [(6, 65536)];
     ms := MCache {| dc := {| cfg := {| ibits := 0; bbits := 0; assoc := 1; plru := false |};
                               sets := [ {| blocks := [ {| valid := true; dirty := false; btag := 16384;
                                                           baddr := 65536; vals := [4294967301] |} ];
                                            policy := LRU [0] |} ] |};
                     lower := []; wthrough := false; penalty := 0; hits := 0; accesses := 0;
                     lasthit := false |};
     im := {| prog := []; icc := None |}; out := []; exitc := None;
     icount := 0; bcount := 0; pcount := 0; cycles := 0; stalls := 0; flushes := 0 |}.
