(* Proofs/Lift2Run.v — the refinement theorem for every memory configuration, strong form: at a
   fault of ANY kind the pipeline and the single-cycle machine (same caches) hold the same
   registers, the same output and EXACTLY the same data memory system. *)
From Coq Require Import Lia ZifyBool.
From ArchSim Require Import Spec.RefCache.
From ArchSim Require Import Model.Base Model.Mem Model.Cache Model.Fmt Model.RV Model.Single
  Model.RVSplit Model.Pipe
  Proofs.WordLemmas Proofs.C01Mem Proofs.C01Step Proofs.SplitExec Proofs.C02Split Proofs.PipeLaws Proofs.PipeShape
  Proofs.PipeInv Proofs.PipeInvBase Proofs.PipeInvStages Proofs.PipeInvStraight Proofs.PipeInvControl
  Proofs.PipeInvEcall Proofs.PipeRefine
  Proofs.LiftSim Proofs.LiftSingle Proofs.LiftPipe Proofs.LiftPipeRun Proofs.LiftRefineBase Proofs.LiftRefine
  Proofs.AcctRead Proofs.AcctExec Proofs.AcctStep Proofs.AcctRefine Proofs.Lift2Fault.
Open Scope Z_scope.
Local Arguments Z.mul : simpl never.
Local Arguments Z.add : simpl never.
Local Arguments Z.sub : simpl never.
Local Arguments Z.of_nat : simpl never.

Section Fault.
Variable P : list instr.
Hypothesis Hsup : Forall (fun i => supported i = true) P.

(* an ecall is allowed to fire in EX: nothing older is in flight and it is the next instruction *)
Lemma fire_facts qc qf sc sf l0 l1 l2 l3 l4 dead y :
  InvAt P qf sf l0 l1 l2 l3 l4 dead -> J qc qf sc sf ->
  lat_at (regs_for qc 2) 1 = Some y -> sl_instr y = IEcall -> ex_busy y l2 l3 = false ->
  l3 = None /\ efired l2 = false /\ fired l2 = false /\ mem_input qc = None /\
  instr_at P (pc sf) = Some IEcall /\ exitc sf = None.
Proof.
  intros I HJ Hei Hiy Hbusy.
  pose proof (iv_shape _ _ _ _ _ _ _ _ _ I) as Sh. pose proof (iv_lat _ _ _ _ _ _ _ _ _ I) as Hlf.
  destruct (j_lat _ _ _ _ HJ) as (El & Est & Esv).
  assert (Hl : lat qc = [l0; l1; l2; l3; l4]) by (rewrite El; exact Hlf).
  assert (Hmodes : stalled qc = None \/ exists k d, stalled qc = Some (k, d) /\ (k = 1 \/ k = 2)).
  { rewrite Est. apply (shape_mode_cases no_icache qf Sh). }
  destruct (views qc _ _ _ _ _ Hl Hmodes) as (_ & _ & _ & Vm).
  assert (H3 : l3 = None).
  { unfold ex_busy in Hbusy. destruct l3; [|reflexivity]. cbn [nonempty] in Hbusy.
    rewrite orb_true_r in Hbusy. discriminate. }
  subst l3. split; [reflexivity|].
  assert (HF : fired l2 = match stalled qc with Some (k, _) => if k =? 2 then false else nonempty l2
                                            | None => nonempty l2 end).
  { rewrite Est. exact (iv_fired _ _ _ _ _ _ _ _ _ I). }
  destruct Vm as [(E & V1 & Vmi)|[(d & E & V1 & _)|(d & E & Vmi)]].
  - rewrite V1 in Hei. clear V1. subst l1.
    pose proof (sh_l1 _ _ Sh) as L1. rewrite Hlf in L1.
    change (lat_at [l0; Some y; l2; None; l4] 1) with (Some y) in L1.
    unfold L1ok in L1. destruct L1 as (_ & _ & Hsv & _). unfold ex_busy in Hbusy. rewrite Hsv in Hbusy.
    destruct l2 as [x2|]; [discriminate Hbusy|]. split; [reflexivity|]. split; [reflexivity|]. split; [exact Vmi|].
    pose proof (iv_l2 _ _ _ _ _ _ _ _ _ I) as L2. cbn [lv] in L2.
    pose proof (iv_dead _ _ _ _ _ _ _ _ _ I) as Hd.
    pose proof (iv_l1 _ _ _ _ _ _ _ _ _ I) as L1'. cbn [lv adv nonempty] in L1'.
    destruct (L1' ltac:(lia)) as (_ & (Hex & _ & Hi) & _). rewrite Hiy in Hi. split; assumption.
  - rewrite V1 in Hei. discriminate.
  - assert (E2 : exists x2, l2 = Some x2).
    { pose proof (sh_mode _ _ Sh) as Hmo. unfold ModeInv in Hmo. rewrite <- Est, E in Hmo.
      destruct (saved qf); [|contradiction].
      destruct Hmo as (_ & [(Hk & _)|(_ & m0 & y1 & x2 & _ & _ & Hx & _)]); [discriminate|].
      rewrite Hlf in Hx. exists x2. exact Hx. }
    destruct E2 as [x2 ->]. rewrite E in HF. change (2 =? 2) with true in HF. cbn [fired] in HF.
    pose proof (iv_l2 _ _ _ _ _ _ _ _ _ I) as L2. cbn [lv adv nonempty] in L2.
    destruct (L2 Logic.I) as (_ & (Hex & _ & Hi) & Hek & _).
    unfold Eok in Hek. destruct (sl_stall x2) eqn:Est2; [|discriminate]. destruct Hek as [Hi2 _]. rewrite Hi2 in Hi.
    split; [cbn [efired]; rewrite Est2; apply andb_false_r|].
    split; [cbn [fired]; rewrite Est2; reflexivity|]. split; [exact Vmi|]. split; assumption.
Qed.

(* the EX input never makes the ALU raise *)
Lemma ex_alu_ok qc qf sc sf l0 l1 l2 l3 l4 dead y :
  InvAt P qf sf l0 l1 l2 l3 l4 dead -> J qc qf sc sf ->
  lat_at (regs_for qc 2) 1 = Some y -> is_ecall (sl_instr y) = false ->
  forall a b u, exists x2, ex_on (Some y) a b u = (Some x2, u, None).
Proof.
  intros I HJ Hei Hec a b u.
  pose proof (iv_shape _ _ _ _ _ _ _ _ _ I) as Sh. pose proof (iv_lat _ _ _ _ _ _ _ _ _ I) as Hlf.
  destruct (j_lat _ _ _ _ HJ) as (El & Est & Esv).
  assert (Hl : lat qc = [l0; l1; l2; l3; l4]) by (rewrite El; exact Hlf).
  unfold regs_for in Hei. rewrite Hl, Est, Esv in Hei.
  destruct (shape_stalled no_icache qf Sh) as [[E _]|(k & d & sv & E & Esv' & [-> | ->] & _)]; rewrite E in Hei.
  - change (lat_at [l0; l1; l2; l3; l4] 1) with l1 in Hei. subst l1.
    pose proof (iv_d1 _ _ _ _ _ _ _ _ _ I) as D1. cbn [Dsh_latch] in D1.
    pose proof (sh_l1 _ _ Sh) as L1. rewrite Hlf in L1.
    change (lat_at [l0; Some y; l2; l3; l4] 1) with (Some y) in L1. unfold L1ok in L1.
    destruct L1 as (Hreal & _). unfold real in Hreal. rewrite (iv_progp _ _ _ _ _ _ _ _ _ I) in Hreal.
    pose proof (instr_supported P Hsup _ _ Hreal) as Hs.
    destruct (ex_stage y a b u D1 Hs Hec) as (x2 & He & _). exists x2. exact He.
  - discriminate Hei.
  - exfalso. pose proof (sh_mode _ _ Sh) as Hmo. unfold ModeInv in Hmo. rewrite E, Esv' in Hmo.
    destruct Hmo as (_ & [(Hk & _)|(_ & m0 & y1 & x2 & Hsv & _ & _ & Hsk & _)]); [discriminate|].
    rewrite Esv', Hsv in Hei. change (2 <=? 2) with true in Hei. change (2 =? 2 + 1) with false in Hei.
    cbv iota in Hei. change (lat_at (set_nthZ [l0; l1; l2; l3; l4] (2 - 1) (lat_at [m0; Some y1] (2 - 1))) 1)
      with (Some y1) in Hei. injection Hei as <-. destruct Hsk as (Hi1 & _). rewrite Hi1 in Hec. discriminate.
Qed.

Lemma ex_on_unfired x l2 l3 u n u' : ex_on x l2 l3 u = (n, u', None) -> efired n = false -> u' = u.
Proof.
  intros H Hef. destruct x as [y|]; [|rewrite ex_on_none in H; injection H as _ <-; reflexivity].
  rewrite ex_on_some in H. destruct (alu_compute _ _ _) as [[cmp res]|e]; [|discriminate].
  destruct (is_ecall (sl_instr y)) eqn:Eec; [|injection H as _ <-; reflexivity].
  destruct (ex_busy y l2 l3); [injection H as _ <-; reflexivity|].
  destruct (process_ecall u) as [[[t|c]|e] u1]; [| |discriminate]; injection H as <- _;
    cbn [efired ex_slot sl_instr sl_stall] in Hef; rewrite Eec in Hef; discriminate.
Qed.

Lemma memory_access_err_ldst i a d u e u' t : memory_access i a d u = (Err e, u') -> access_of i t <> None.
Proof. intros H. destruct i; cbn [memory_access] in H; try discriminate H; discriminate. Qed.

(* the faulting cycle: the single-cycle machine faults at the aligned state with the same record,
   and the two machines then hold the same registers, output and data memory system *)
Lemma fault_step qc qf sc sf l0 l1 l2 l3 l4 dead qc' f :
  InvAt P qf sf l0 l1 l2 l3 l4 dead -> J qc qf sc sf -> MS qc sc -> pipe_done qf = false ->
  pipe_step qc = (qc', Some f) ->
  single_done (adv l3 sc) = false /\
  match l3 with Some _ => single_pipeline_step sc = (adv l3 sc, None) | None => True end /\
  exists s1, single_pipeline_step (adv l3 sc) = (s1, Some f) /\
    ms (pst qc') = ms s1 /\ regs (pst qc') = regs s1 /\ out (pst qc') = out s1.
Proof.
  intros I HJ HMS Hpd Hpsc. pose proof (j_ps _ _ _ _ HJ) as Sp. pose proof (j_ss _ _ _ _ HJ) as Ss.
  pose proof (iv_shape _ _ _ _ _ _ _ _ _ I) as Sh. pose proof (iv_lat _ _ _ _ _ _ _ _ _ I) as Hlf.
  destruct (j_lat _ _ _ _ HJ) as (El & Est & Esv).
  assert (Hl : lat qc = [l0; l1; l2; l3; l4]) by (rewrite El; exact Hlf).
  pose proof (inv_step_e P Hsup _ _ _ _ _ _ _ _ I Hpd) as Hstep. unfold step_goal in Hstep.
  destruct (aligned P qc qf sc sf _ _ _ _ _ _ I HJ) as (sc' & Ss' & Hcfgs & Hsc' & W' & HP' & HL2).
  assert (Esa : adv l3 sc = sc').
  { destruct l3 as [x3|]; cbn [adv nonempty]; [|symmetry; exact Hsc'].
    destruct Hsc' as (E & _). unfold nxt. rewrite E. reflexivity. }
  rewrite Esa. set (tf := adv l3 sf) in *.
  assert (Hg : ms_cfg (ms (pst qc)) = ms_cfg (ms sc')) by (rewrite (j_cfg _ _ _ _ HJ), Hcfgs; reflexivity).
  (* A. the single-cycle machine faults at sc' with the record f *)
  assert (HA : single_done sc' = false /\ exists s1, single_pipeline_step sc' = (s1, Some f)).
  { destruct (sim_pipe_step qc (pst qf) qc' (Some f) Sp Hpsc) as [_ [(t' & of' & Hpf & Sa & Eo & Htag & _)|Hrej]].
    - destruct of' as [ff|]; [|discriminate Eo]. cbn [option_map] in Eo. injection Eo as ->.
      rewrite <- (j_pf _ _ _ _ HJ) in Hpf. rewrite Hpf in Hstep.
      destruct Hstep as (tm & Hss & Hnd & _).
      assert (Hdn : single_done sc' = false) by (rewrite (sim_single_done _ _ Ss'); exact Hnd).
      assert (Hii : exists i, instr_at (prog (im tf)) (pc tf) = Some i).
      { unfold single_done, has_instr in Hnd. destruct (exitc tf); [discriminate|].
        destruct (instr_at (prog (im tf)) (pc tf)) as [i|]; [exists i; reflexivity | discriminate]. }
      destruct Hii as [i Hi].
      assert (Hnrej : rejects (ms_cfg (ms sc')) i sc' = None).
      { destruct (rejects (ms_cfg (ms sc')) i sc') as [e|] eqn:Er; [exfalso|reflexivity].
        destruct (flat_ldst_fault tf i tm ff W' Hi (rejects_access _ _ _ _ tf Er) Hss) as (Hfi & _ & x & lo & hi & b & Hfe).
        destruct (Htag ff eq_refl) as [E7|[Eec|(z & Hz & Hzr)]].
        - rewrite Hfe in E7. discriminate.
        - rewrite Hfi in Eec. rewrite Eec in Er. rewrite rejects_noaccess in Er by reflexivity. discriminate.
        - destruct (HL2 z Hz) as (Hi2 & _ & _ & HK). rewrite <- HP', Hi in Hi2. injection Hi2 as ->.
          rewrite HK, Er in Hzr. discriminate. }
      destruct (cstep_fault sc' tf i tm ff Ss' Hi Hnrej Hss) as (s1 & Hs1 & _).
      split; [exact Hdn|]. exists s1. rewrite Hg. exact Hs1.
    - destruct Hrej as (z & e & Hz & Hr & E). injection E as ->.
      destruct (HL2 z Hz) as (Hi & Ha & Hex & HK). rewrite <- HP' in Hi. rewrite HK in Hr.
      destruct (cstep_reject sc' tf _ e Ss' Hi Hr) as [s1 Hs1]. rewrite <- Ha in Hs1.
      split; [|exists s1; exact Hs1].
      rewrite (sim_single_done _ _ Ss'). unfold single_done, has_instr. rewrite Hex, Hi. reflexivity. }
  destruct HA as [Hdn [s1 Hs1]]. split; [exact Hdn|].
  split; [destruct l3; [destruct Hsc' as (E & _); exact E | exact Logic.I]|].
  exists s1. split; [exact Hs1|].
  assert (Hdtf : single_done tf = false) by (rewrite <- (sim_single_done _ _ Ss'); exact Hdn).
  destruct (cached_fault_frame sc' tf s1 f Ss' W' Hdtf Hs1) as [Fr Fo]. rewrite Fr, Fo.
  assert (Es1 : s1 = nxt sc') by (unfold nxt; rewrite Hs1; reflexivity). rewrite Es1.
  (* B. the stage that raised *)
  unfold MS in HMS. rewrite Hl in HMS.
  change (lat_at [l0; l1; l2; l3; l4] 3) with l3 in HMS. change (lat_at [l0; l1; l2; l3; l4] 2) with l2 in HMS.
  cbv zeta in HMS. rewrite Esa in HMS.
  assert (Hmodes : stalled qc = None \/ exists k d, stalled qc = Some (k, d) /\ (k = 1 \/ k = 2)).
  { rewrite Est. apply (shape_mode_cases no_icache qf Sh). }
  destruct (views qc _ _ _ _ _ Hl Hmodes) as (V4 & V22 & V23 & Vm).
  destruct (fault_decomp qc qc' f Hpsc) as (u1 & Hm1 & Hr1 & Ho1 & Hstage). unfold fault_stage in Hstage.
  rewrite V4, V22, V23 in Hstage. clear V4 V22 V23.
  assert (Hrsf : regs u1 = regs sf) by (rewrite Hr1, (sm_regs _ _ Sp); apply (iv_regs _ _ _ _ _ _ _ _ _ I)).
  assert (Hosf : out (pst qc) = out (if fired l2 then adv l2 tf else tf)).
  { rewrite (sm_out _ _ Sp). apply (iv_out _ _ _ _ _ _ _ _ _ I). }
  (* WB never raises and yields the registers of the aligned state *)
  assert (HWB : forall n4 u2 o, wb_on l3 u1 = (n4, u2, o) ->
            o = None /\ regs u2 = regs sc' /\ ms u2 = ms u1 /\ out u2 = out u1).
  { intros n4 u2 o Hwb.
    destruct (wb_stage P Hsup sf l3 sf (iv_progs _ _ _ _ _ _ _ _ _ I) (iv_l3 _ _ _ _ _ _ _ _ _ I)
               (iv_wf _ _ _ _ _ _ _ _ _ I) (iv_exit_s _ _ _ _ _ _ _ _ _ I) eq_refl) as (s2 & Hwbf & _ & Hrg2 & _).
    fold tf in Hrg2.
    assert (K : o = None /\ regs u2 = regs s2).
    { destruct l3 as [y|].
      - destruct (wb_on_cong y sf u1 _ s2 (eq_sym Hrsf) Hwbf) as (s1' & Hc & Hr). rewrite Hc in Hwb.
        injection Hwb as _ <- <-. split; [reflexivity | exact Hr].
      - rewrite wb_on_none in Hwb, Hwbf. injection Hwb as _ <- <-. injection Hwbf as <-.
        split; [reflexivity | exact Hrsf]. }
    destruct K as [-> K2]. pose proof (wb_on_law _ _ _ _ _ Hwb) as (_ & Hm2 & Ho2 & _).
    split; [reflexivity|]. split; [rewrite K2, Hrg2; symmetry; apply (sm_regs _ _ Ss')|]. split; assumption. }
  destruct Hstage as [(n4 & e & Hwb)|(n4 & u2 & Hwb & Hrest)].
  { destruct (HWB _ _ _ Hwb) as [E _]. discriminate E. }
  destruct (HWB _ _ _ Hwb) as (_ & Hr2 & Hm2 & Ho2).
  destruct Hrest as [(n2 & e & Hex)|(n2 & u3 & Hex & n3 & e & Hmem)].
  - (* EX raised: an ecall that fires *)
    destruct (lat_at (regs_for qc 2) 1) as [y|] eqn:Hei; [|rewrite ex_on_none in Hex; discriminate Hex].
    destruct (is_ecall (sl_instr y)) eqn:Eec.
    2:{ destruct (ex_alu_ok qc qf sc sf _ _ _ _ _ _ y I HJ Hei Eec l2 l3 u2) as [x2 E]. rewrite E in Hex. discriminate. }
    assert (Hiy : sl_instr y = IEcall) by (destruct (sl_instr y); try discriminate; reflexivity).
    rewrite ex_on_some, Hiy in Hex. cbn [alu_compute is_ecall] in Hex.
    destruct (ex_busy y l2 l3) eqn:Hbusy; [discriminate|].
    destruct (process_ecall u2) as [r u3] eqn:Hp.
    assert (Eu : pst qc' = u3) by (destruct r as [[t|c]|e0]; try discriminate; injection Hex as _ <- _; reflexivity).
    destruct (fire_facts qc qf sc sf _ _ _ _ _ _ y I HJ Hei Hiy Hbusy) as (H3 & Hnf & Hnfi & _ & Hie & _).
    subst l3. cbn [adv nonempty] in *. subst sc'. rewrite Hnf in HMS. rewrite Hnfi in Hosf.
    pose proof (process_ecall_law _ _ _ Hp) as ((_ & Hr3 & _ & Ho3 & _) & _).
    rewrite Eu. split; [|split].
    + rewrite (ecall_bms u2 r u3 Hp). rewrite (bms_cong IEcall u2 sc Hr2 ltac:(rewrite Hm2, Hm1; exact HMS)).
      symmetry. apply (single_step_ms sc sf IEcall Ss). rewrite (iv_progs _ _ _ _ _ _ _ _ _ I). exact Hie.
    + rewrite Hr3. exact Hr2.
    + rewrite Ho3, Ho2, Ho1, Hosf. symmetry. apply (sm_out _ _ Ss).
  - (* MEM raised *)
    destruct (ex_on_cases _ _ _ _ _ _ Hex) as [[Hef _]|(_ & y & Hei & Hiy & Hbusy & _)].
    2:{ destruct (fire_facts qc qf sc sf _ _ _ _ _ _ y I HJ Hei Hiy Hbusy) as (_ & _ & _ & Hmi & _).
        rewrite Hmi, mem_on_none in Hmem. discriminate. }
    pose proof (ex_on_unfired _ _ _ _ _ _ Hex Hef) as ->.
    destruct (mem_input qc) as [x|] eqn:Hmi; [|rewrite mem_on_none in Hmem; discriminate].
    rewrite mem_on_some in Hmem.
    destruct (memory_access (sl_instr x) (sl_result x) (sl_rd2 x) u2) as [[rd|e0] u4] eqn:Hma; [discriminate|].
    assert (Eu : pst qc' = u4) by (injection Hmem as _ <- _; reflexivity).
    assert (E2 : l2 = Some x).
    { assert (Hmi' : mem_input qf = Some x) by (rewrite (j_pf _ _ _ _ HJ); exact Hmi).
      pose proof (mem_input_l2 qf x Sh Hmi') as H. rewrite Hlf in H. exact H. }
    subst l2. pose proof (iv_l2 _ _ _ _ _ _ _ _ _ I) as L2. cbn [lv] in L2. fold tf in L2.
    destruct (L2 Logic.I) as (_ & (_ & _ & Hi) & Hek & _).
    assert (HF : fired (Some x) = match stalled qc with Some (k, _) => if k =? 2 then false else true
                                                   | None => true end).
    { rewrite Est. exact (iv_fired _ _ _ _ _ _ _ _ _ I). }
    assert (Hst : sl_stall x = false).
    { cbn [fired] in HF. destruct Vm as [(E & _)|[(d & E & _)|(d & E & Hn)]]; rewrite E in HF;
        [destruct (sl_stall x); [discriminate | reflexivity]
        |change (1 =? 2) with false in HF; destruct (sl_stall x); [discriminate | reflexivity]
        |discriminate Hn]. }
    assert (Eec : is_ecall (sl_instr x) = false).
    { destruct (is_ecall (sl_instr x)) eqn:E; [|reflexivity].
      destruct (sl_instr x); try discriminate E. discriminate Hma. }
    cbn [efired] in HMS. rewrite Eec in HMS. cbn [andb] in HMS.
    cbn [fired] in Hosf. rewrite Hst in Hosf. cbn [negb adv nonempty] in Hosf.
    pose proof (memory_access_law _ _ _ _ _ _ Hma) as ((_ & Hr4 & _ & Ho4 & _) & _).
    rewrite <- HP' in Hi. rewrite Eu. split; [|split].
    + pose proof (mem_bms tf sc' x u2 Hek Hst Eec (sm_regs _ _ Ss') ltac:(rewrite Hm2, Hm1; exact HMS)) as Hb.
      rewrite Hma in Hb. cbn [snd] in Hb. rewrite Hb. symmetry. apply (single_step_ms sc' tf _ Ss' Hi).
    + rewrite Hr4. exact Hr2.
    + rewrite Ho4, Ho2, Ho1, Hosf.
      rewrite (flat_ldst_out tf _ W' Hi Eec (memory_access_err_ldst _ _ _ _ _ _ tf Hma)).
      symmetry. apply (sm_out _ _ Ss').
Qed.

(** * Runs that end in a fault *)
Lemma sreach_run_fault k : forall s sk s1 f1 n r f, sreach k s sk -> single_done sk = false ->
  single_pipeline_step sk = (s1, Some f1) -> single_run n s = (r, Faulted f) -> r = s1 /\ f = f1.
Proof.
  induction k as [|k IH]; intros s sk s1 f1 n r f Hr Hd Hs Hrun; cbn [sreach] in Hr.
  - subst sk. destruct n as [|n]; cbn [single_run] in Hrun; rewrite Hd in Hrun; [discriminate|].
    rewrite Hs in Hrun. injection Hrun as <- <-. split; reflexivity.
  - destruct Hr as (Hnd & Hnf & Hr). destruct n as [|n]; cbn [single_run] in Hrun; rewrite Hnd in Hrun; [discriminate|].
    unfold nxt in Hr. destruct (single_pipeline_step s) as [s2 of]. cbn [fst snd] in *. subst of.
    apply (IH s2 sk s1 f1 n r f Hr Hd Hs Hrun).
Qed.

Lemma racct_fault c : forall qc sc p' f, Rinv P qc sc -> pipe_run c qc = (p', PFaulted f) ->
  exists k sk s1, sreach k sc sk /\ single_done sk = false /\ single_pipeline_step sk = (s1, Some f) /\
    ms (pst p') = ms s1 /\ regs (pst p') = regs s1 /\ out (pst p') = out s1.
Proof.
  induction c as [|c IH]; intros qc sc p' f HR Hrun; cbn [pipe_run] in Hrun.
  - destruct (pipe_done qc); discriminate.
  - destruct (pipe_done qc) eqn:Hd; [discriminate|].
    destruct (pipe_step qc) as [q1 [g|]] eqn:Hps.
    + injection Hrun as <- <-.
      destruct HR as (qf & sf & HJ & HMS & [(l0 & l1 & l2 & l3 & l4 & dead & I)|E]).
      * assert (Hpdf : pipe_done qf = false) by (rewrite <- (j_done _ _ _ _ HJ); exact Hd).
        destruct (fault_step qc qf sc sf _ _ _ _ _ _ q1 g I HJ HMS Hpdf Hps) as (Hdn & Hs3 & s1 & Hs1 & Em & Er & Eo).
        destruct l3 as [x3|]; cbn [adv nonempty] in *.
        -- exists 1%nat, (nxt sc), s1. cbn [sreach]. split.
           { split; [rewrite (sim_single_done _ _ (j_ss _ _ _ _ HJ)), <- (done_iff P _ _ _ _ _ _ _ _ I); exact Hpdf|].
             split; [rewrite Hs3; reflexivity | reflexivity]. }
           split; [exact Hdn|]. split; [exact Hs1|]. split; [exact Em | split; assumption].
        -- exists 0%nat, sc, s1. cbn [sreach]. split; [reflexivity|]. split; [exact Hdn|].
           split; [exact Hs1|]. split; [exact Em | split; assumption].
      * exfalso. destruct (exiting_step P Hsup qf sf E) as (_ & _ & _ & _ & qf' & Hpsf & _).
        pose proof E as (a0 & x3 & a4 & Hl & _ & _ & Hst & _).
        destruct (sim_pipe_step qc (pst qf) q1 (Some g) (j_ps _ _ _ _ HJ) Hps) as [_ [(t' & of' & Hpf & _ & Eo & _)|Hrej]].
        -- rewrite <- (j_pf _ _ _ _ HJ), Hpsf in Hpf. injection Hpf as _ <-. discriminate Eo.
        -- destruct Hrej as (z & e & Hz & _). rewrite (j_pf _ _ _ _ HJ) in Hl, Hst. cbn [with_pst lat stalled] in Hl, Hst.
           unfold mem_input, regs_for in Hz. rewrite Hst, Hl in Hz. discriminate Hz.
    + destruct HR as (qf & sf & HJ & HMS & [(l0 & l1 & l2 & l3 & l4 & dead & I)|E]).
      * assert (Hpdf : pipe_done qf = false) by (rewrite <- (j_done _ _ _ _ HJ); exact Hd).
        destruct (jstep P Hsup qc qf sc sf _ _ _ _ _ _ q1 I HJ Hpdf Hps) as (t' & HJ' & Hinv' & Hs3).
        pose proof (ms_step P Hsup qc qf sc sf _ _ _ _ _ _ q1 I HJ HMS Hps) as HMS'.
        destruct (IH q1 (adv l3 sc) p' f ltac:(exists (with_pst q1 t'), (adv l3 sf); split; [exact HJ'|split; [exact HMS' | exact Hinv']]) Hrun)
          as (k & sk & s1 & Hr & Hdk & Hsk & Est).
        destruct l3 as [x3|]; cbn [adv nonempty] in *.
        -- exists (S k), sk, s1. split; [|split; [exact Hdk | split; [exact Hsk | exact Est]]]. cbn [sreach].
           split; [rewrite (sim_single_done _ _ (j_ss _ _ _ _ HJ)), <- (done_iff P _ _ _ _ _ _ _ _ I); exact Hpdf|].
           split; [rewrite Hs3; reflexivity | exact Hr].
        -- exists k, sk, s1. split; [exact Hr | split; [exact Hdk | split; [exact Hsk | exact Est]]].
      * exfalso. destruct (exiting_final P Hsup qc qf sc sf q1 HJ HMS E Hps) as (Hd1 & _).
        destruct c; cbn [pipe_run] in Hrun; rewrite Hd1 in Hrun; discriminate.
Qed.

End Fault.

(** * The theorem, strong form *)
Theorem pipe_refines_single_caches_strong_lem s n :
  cwf s -> Forall (fun i => supported i = true) (prog (im s)) ->
  match single_run n s with
  | (s', Done) => exists c p, (c <= 8 * n + 8)%nat /\
      pipe_run c (pipe_init s true) = (p, PDone) /\ agree_log p s' /\ ms (pst p) = ms s' /\
      pipe_trace c (pipe_init s true) = single_trace n s
  | (s', Faulted f) => exists c p, (c <= 8 * n + 8)%nat /\
      pipe_run c (pipe_init s true) = (p, PFaulted f) /\ fault_agree p s' /\ ms (pst p) = ms s'
  | (_, OutOfFuel) => True
  end.
Proof.
  intros HW HS. destruct (single_run n s) as [s' [|f|]] eqn:Hrun; [| |exact Logic.I].
  - destruct (pipe_single_same_dcache_lem s n s' HW HS Hrun) as (c & p & Hc & Hp & Hm & Hag & Htr).
    exists c, p. repeat (split; [assumption|]). exact Htr.
  - pose proof (pipe_refines_single_caches_lem s n HW HS) as H. rewrite Hrun in H.
    destruct H as (c & p & Hc & Hp & _). exists c, p. split; [exact Hc|]. split; [exact Hp|].
    assert (Hex : exitc s = None).
    { destruct (exitc s) eqn:E; [|reflexivity].
      assert (Hd : single_done s = true) by (unfold single_done; rewrite E; reflexivity).
      destruct (single_run_done n s Hd) as [E1 _]. rewrite E1 in Hrun. discriminate. }
    pose proof (sim_flatten s (cwf_cache_ok s HW)) as S0.
    assert (HR : Rinv (prog (im s)) (pipe_init s true) s).
    { exists (pipe_init (flatten s) true), (flatten s). split.
      - constructor; [exact S0 | reflexivity | exact S0 | intros H; discriminate H | reflexivity].
      - split; [reflexivity|]. left. apply inv_init; [apply cwf_flatten; exact HW | reflexivity | exact Hex]. }
    destruct (racct_fault (prog (im s)) HS c _ _ p f HR Hp) as (k & sk & s1 & Hr & Hdk & Hsk & Em & Er & Eo).
    destruct (sreach_run_fault k s sk s1 f n s' f Hr Hdk Hsk Hrun) as [-> _].
    split; [|exact Em]. unfold fault_agree. split; [exact Er|]. split; [exact Eo|].
    intros a _. rewrite Em. reflexivity.
Qed.
Print Assumptions pipe_refines_single_caches_strong_lem.
