(* SchedPrefixCacheMain.v — the prefix and fault forms of the timing theorem of C07
   (Props/C07SchedPrefix.v) and the retire trace at a fault (Props/C02FaultTrace.v) for EVERY memory
   configuration: any data cache, any instruction cache, any penalties.  The reference is the CACHED
   single-cycle run: its events (those of the flat run up to the instruction at which it stops — a
   cache rejection included) and the state at which it stopped. *)
From Coq Require Import Lia ZifyBool.
From ArchSim Require Import Spec.RefCache.
From ArchSim Require Import Model.Base Model.Mem Model.Cache Model.Fmt Model.RV Model.Single
  Model.RVSplit Model.Pipe Proofs.WordLemmas Proofs.C01Step Proofs.SplitExec Proofs.C02Split
  Proofs.PipeLaws Proofs.PipeShape Proofs.PipeInv Proofs.PipeInvEcall
  Proofs.LiftSim Proofs.LiftSingle Proofs.LiftPipe Proofs.LiftPipeRun Proofs.LiftRefineBase Proofs.LiftRefine
  Proofs.SchedDefs Proofs.SchedRec Proofs.SchedStep Proofs.SchedInv Proofs.SchedLink Proofs.SchedMain
  Proofs.SchedCor Proofs.SchedCache
  Proofs.SchedPrefixLink Proofs.SchedPrefixRun Proofs.SchedPrefixMain Proofs.SchedPrefixTrace
  Proofs.SchedPrefixCacheLink Proofs.SchedPrefixCacheRun.
Open Scope Z_scope.

Local Arguments Z.of_nat : simpl never.
Local Arguments Z.add : simpl never.
Local Arguments Z.sub : simpl never.
Local Arguments Z.mul : simpl never.

(* the event of an instruction, its redirect flag aside, is the same with and without caches *)
Lemma sim_mark_ev s t : sim s t -> mark (ev_of s) = mark (ev_of t).
Proof.
  intros S. unfold ev_of. rewrite (sm_prog _ _ S), (sm_pc _ _ S).
  destruct (instr_at (prog (im t)) (pc t)) as [i|]; [|reflexivity].
  unfold mark, ev_instr. cbn [ev_addr ev_srcs ev_dst ev_ecall].
  rewrite (sm_pc _ _ S), !rf_ra1_src, !rf_ra2_src. reflexivity.
Qed.

Lemma single_not_done_exit s : single_done s = false -> exitc s = None.
Proof. unfold single_done. destruct (exitc s); [discriminate|reflexivity]. Qed.

Section CMain.
Variable s : st.
Hypothesis CW : cwf s.
Hypothesis HS : Forall (fun i => supported i = true) (prog (im s)).
Variable N : nat.
Hypothesis HC1 : forall j, (j < N)%nat ->
  single_done (sigma j s) = false /\ snd (single_pipeline_step (sigma j s)) = None.
Hypothesis HCe : single_done (sigma N s) = false.

Let tf := flatten s.
Let P := prog (im s).
Let S0 : sim s tf := sim_flatten s (cwf_cache_ok s CW).
Let Wf : wf tf := cwf_flatten s CW.
Let HPf : prog (im tf) = P := eq_refl.

Notation evc := (evm tf N true).
Notation cf := (SchedPrefixLink.fault_step s N true).

Lemma csimj j : (j <= N)%nat -> sim (sigma j s) (sigma j tf).
Proof. intros Hj. apply (csim s tf S0 N HC1 j Hj). Qed.

Lemma cev_eq j : (j <= N)%nat -> evm s N true j = evc j.
Proof.
  intros Hj. unfold evm. cbn [andb]. destruct (Nat.eqb_spec j N) as [->|Hne].
  - apply sim_mark_ev. apply csimj. lia.
  - unfold ev. apply (sim_ev_of _ _ (sigma (S j) s) (sigma (S j) tf)).
    + apply csimj. lia.
    + apply csimj. lia.
    + symmetry. apply sigS.
    + symmetry. apply sigS.
Qed.

Lemma cX j : (j <= N)%nat -> X (ev s) j = X evc j.
Proof.
  intros Hj. rewrite <- (X_evm s N HC1 true j Hj).
  apply (X_ext _ _ N); [intros i Hi; apply cev_eq; exact Hi|exact Hj].
Qed.

Lemma cec : ec (ev s) N = ec (ev tf) N.
Proof.
  pose proof (cev_eq N ltac:(lia)) as H. unfold evm in H. cbn [andb] in H. rewrite Nat.eqb_refl in H.
  unfold ec. change (ev_ecall (ev s N)) with (ev_ecall (mark (ev s N))). rewrite H. reflexivity.
Qed.

Lemma cfstep : cf = SchedPrefixLink.fault_step tf N true.
Proof.
  unfold SchedPrefixLink.fault_step. rewrite cec, (X_evm s N HC1 true N), (cX N) by lia. reflexivity.
Qed.

Lemma cpc j : (j <= N)%nat -> pc (sigma j s) = pc (sigma j tf).
Proof. intros Hj. apply (sm_pc _ _ (csimj j Hj)). Qed.

Lemma cexit : exitc tf = None.
Proof.
  assert (H : single_done s = false).
  { destruct N as [|N']; [exact HCe|]. destruct (HC1 0%nat ltac:(lia)) as [H _]. exact H. }
  rewrite <- (sm_exit _ _ S0). apply single_not_done_exit. exact H.
Qed.

Lemma cinit : CJ P s tf N 0 (pipe_init s true) 0.
Proof. apply (CJ_init P s tf S0 Wf HPf N HC1 cexit). Qed.

Lemma retire_c_of m : (m <= N)%nat ->
  map (retire_c tf N) (seq 0 m) = map (fun j => (pc (sigma j s), (X (ev s) j + 2)%nat)) (seq 0 m).
Proof.
  intros Hm. apply map_ext_in. intros j Hj. apply in_seq in Hj. unfold retire_c.
  rewrite (cpc j), (cX j) by lia. reflexivity.
Qed.

(** * Before the cycle at which instruction N would raise *)
Lemma cprefix_core c : (c < cf)%nat ->
  pipe_retire c (pipe_init s true) = filter (fun aw => (snd aw <=? c)%nat) (sched_of s N) /\
  snd (pipe_run c (pipe_init s true)) = POutOfFuel /\ pipe_run_steps c (pipe_init s true) = c.
Proof.
  intros Hc. rewrite cfstep in Hc.
  destruct (crun_nofault P HS s tf S0 N HC1 HCe c 0%nat (pipe_init s true) 0%nat cinit Hc)
    as (p' & m & Hrun & Hsteps & Hret & HJ').
  cbn [Nat.add] in *. split; [|rewrite Hrun; split; [reflexivity|exact Hsteps]].
  destruct (CJ_bound P s tf S0 N HC1 c p' m HJ') as [Hb Hle].
  unfold pipe_retire. rewrite Hret, (retire_c_of m Hle). unfold sched_of. symmetry.
  apply (filter_sched (fun j => pc (sigma j s)) (fun j => (X (ev s) j + 2)%nat) (fun w => (w <=? c)%nat) m N Hle).
  intros j Hj. destruct (Nat.ltb_spec j m) as [Hlt|Hge].
  - pose proof (CJ_retired P s tf N c p' m HJ' ltac:(lia)) as Hm. rewrite <- (cX (m - 1)) in Hm by lia.
    pose proof (X_mono (ev s) j (m - 1) ltac:(lia)). apply Nat.leb_le. lia.
  - rewrite <- (cX m) in Hb by lia. pose proof (X_mono (ev s) m j ltac:(lia)). apply Nat.leb_gt. lia.
Qed.

(** * Runs that end in a fault *)
Variables (sf : st) (f : fault).
Hypothesis HNf : single_pipeline_step (sigma N s) = (sf, Some f).

Lemma cicount_fault : icount sf = icount (sigma N tf) + 1.
Proof.
  pose proof (csimj N ltac:(lia)) as SN.
  destruct (sim_single_step _ _ sf (Some f) SN HNf) as (t' & of' & Ht & _ & Hres).
  destruct (sig_wf P tf Wf HPf N (HF1 s tf S0 N HC1) N ltac:(lia)) as [WN HPN].
  pose proof (HFe s tf S0 N HC1 HCe) as Hd. unfold single_done, has_instr in Hd.
  destruct (exitc (sigma N tf)); [discriminate Hd|].
  destruct (instr_at (prog (im (sigma N tf))) (pc (sigma N tf))) as [i|] eqn:Hi; [|discriminate Hd].
  rewrite (sm_prog _ _ SN), (sm_pc _ _ SN), Hi in Hres.
  destruct (rejects (ms_cfg (ms (sigma N s))) i (sigma N s)) as [e|].
  - destruct Hres as [_ S1]. rewrite (sm_ic _ _ S1). reflexivity.
  - destruct Hres as [_ S1]. rewrite (sm_ic _ _ S1).
    assert (Hn : t' = nxt (sigma N tf)) by (unfold nxt; rewrite Ht; reflexivity).
    rewrite Hn. apply (icount_nxt _ i WN Hi). apply (sup_at P HS (pc (sigma N tf))). rewrite <- HPN. exact Hi.
Qed.

Lemma cfault_core c0 pf f' : pipe_run c0 (pipe_init s true) = (pf, PFaulted f') ->
  f' = f /\ pipe_run cf (pipe_init s true) = (pf, PFaulted f) /\ pipe_run_steps cf (pipe_init s true) = cf /\
  icount (pst pf) + 1 = icount sf /\
  exists m, (m = N \/ S m = N) /\
    pipe_retire cf (pipe_init s true) = map (fun j => (pc (sigma j s), (X (ev s) j + 2)%nat)) (seq 0 m) /\
    pipe_retire c0 (pipe_init s true) = pipe_retire cf (pipe_init s true) /\
    pipe_retire cf (pipe_init s true) = filter (fun aw => (snd aw <? cf)%nat) (sched_of s N) /\
    (cf <= X (ev s) m + 2)%nat /\ ((0 < m)%nat -> (X (ev s) (m - 1) + 2 < cf)%nat).
Proof.
  intros Hrun.
  assert (HCf : snd (single_pipeline_step (sigma N s)) <> None) by (rewrite HNf; discriminate).
  destruct (crun_fault P HS s tf S0 N HC1 HCe c0 HCf 0%nat _ 0%nat pf f' cinit Hrun)
    as (m & Hret & HmN & Hsteps & Hic & (tm & Hs') & Hb1 & Hb2).
  cbn [Nat.add] in *. rewrite HNf in Hs'. injection Hs' as _ <-. rewrite <- cfstep in *.
  destruct (fault_exact c0 0%nat _ pf f Hrun) as (A & B & C). cbv zeta in *. rewrite Hsteps in A, B, C.
  assert (Hm : (m <= N)%nat) by (destruct HmN; lia).
  rewrite <- (cX m Hm) in Hb1.
  assert (Hb2' : (0 < m)%nat -> (X (ev s) (m - 1) + 2 < cf)%nat).
  { intros H0. specialize (Hb2 H0). rewrite <- (cX (m - 1)) in Hb2 by lia. exact Hb2. }
  split; [reflexivity|]. split; [exact A|]. split; [exact C|].
  split; [rewrite Hic, cicount_fault; reflexivity|].
  exists m. split; [exact HmN|].
  assert (Hlist : pipe_retire cf (pipe_init s true) = map (fun j => (pc (sigma j s), (X (ev s) j + 2)%nat)) (seq 0 m)).
  { unfold pipe_retire. rewrite B, Hret. apply (retire_c_of m Hm). }
  split; [exact Hlist|]. split; [unfold pipe_retire; symmetry; exact B|]. split; [|split; assumption].
  rewrite Hlist. unfold sched_of. symmetry.
  apply (filter_sched (fun j => pc (sigma j s)) (fun j => (X (ev s) j + 2)%nat) (fun w => (w <? cf)%nat) m N Hm).
  intros j Hj. destruct (Nat.ltb_spec j m) as [Hlt|Hge].
  - specialize (Hb2' ltac:(lia)). pose proof (X_mono (ev s) j (m - 1) ltac:(lia)). apply Nat.ltb_lt. lia.
  - pose proof (X_mono (ev s) m j ltac:(lia)). apply Nat.ltb_ge. lia.
Qed.

(* the retire counter of the single-cycle run *)
Lemma cicount_N : icount (sigma N s) = icount s + Z.of_nat N.
Proof.
  rewrite (sm_ic _ _ (csimj N ltac:(lia))), (sm_ic _ _ S0).
  assert (Hcnt : forall j, (j <= N)%nat -> icount (sigma j tf) = icount tf + Z.of_nat j).
  { induction j as [|j IHj]; intros Hj; [cbn [sigma]; lia|].
    destruct (sig_wf P tf Wf HPf N (HF1 s tf S0 N HC1) j ltac:(lia)) as [Wj HPj].
    destruct (HF1 s tf S0 N HC1 j ltac:(lia)) as [Hnd _].
    unfold single_done, has_instr in Hnd. destruct (exitc (sigma j tf)); [discriminate Hnd|].
    destruct (instr_at (prog (im (sigma j tf))) (pc (sigma j tf))) as [i|] eqn:Hi; [|discriminate Hnd].
    assert (Hsi : supported i = true) by (apply (sup_at P HS (pc (sigma j tf))); rewrite <- HPj; exact Hi).
    rewrite sigS, (icount_nxt _ i Wj Hi Hsi), (IHj ltac:(lia)). lia. }
  apply Hcnt. lia.
Qed.

End CMain.

(** * The theorems *)
(* the cycle counter after c steps of fuel: one cycle per step plus the miss penalties *)
Theorem pipe_cycles_prefix_caches_lem s c :
  let p0 := pipe_init s true in let p := fst (pipe_run c p0) in
  cycles (pst p) = cycles s + Z.of_nat (pipe_run_steps c p0)
                   + ipen s * ((iacc (pst p) - iacc s) - (ihit (pst p) - ihit s))
                   + dpen s * ((dacc (pst p) - dacc s) - (dhit (pst p) - dhit s)).
Proof. exact (pipe_run_cycles_gen c (pipe_init s true)). Qed.

Definition prefix_goal (s : st) (n c : nat) : Prop :=
  let p0 := pipe_init s true in let p := fst (pipe_run c p0) in
  pipe_retire c p0 = filter (fun aw => (snd aw <=? c)%nat) (sched_list n s) /\
  snd (pipe_run c p0) = POutOfFuel /\ pipe_run_steps c p0 = c /\
  cycles (pst p) = cycles s + Z.of_nat c
                   + ipen s * ((iacc (pst p) - iacc s) - (ihit (pst p) - ihit s))
                   + dpen s * ((dacc (pst p) - dacc s) - (dhit (pst p) - dhit s)).

Lemma prefix_goal_intro s n c :
  pipe_retire c (pipe_init s true) = filter (fun aw => (snd aw <=? c)%nat) (sched_list n s) /\
  snd (pipe_run c (pipe_init s true)) = POutOfFuel /\ pipe_run_steps c (pipe_init s true) = c ->
  prefix_goal s n c.
Proof.
  intros (A & B & C). unfold prefix_goal. cbv zeta. split; [exact A|]. split; [exact B|]. split; [exact C|].
  pose proof (pipe_cycles_prefix_caches_lem s c) as H. cbv zeta in H. rewrite C in H. exact H.
Qed.

Theorem pipe_schedule_prefix_caches_lem s n c :
  cwf s -> Forall (fun i => supported i = true) (prog (im s)) ->
  match snd (single_run n s) with
  | Done => pipe_retire c (pipe_init s true) = filter (fun aw => (snd aw <=? c)%nat) (sched_list n s)
  | OutOfFuel => (c + 6 <= n)%nat -> prefix_goal s n c
  | Faulted f => (c < fault_cycle n s)%nat -> prefix_goal s n c
  end.
Proof.
  intros CW HS. destruct (run_states_gen n s) as (N & HNn & H1 & Ht & He & Hl & Hend).
  destruct (single_run n s) as [s' [|f|]] eqn:Hrun; cbn [snd fst] in *.
  - (* the run terminates: the full theorem and the prefix property of [pipe_retire] *)
    destruct (pipe_schedule_caches_lem s n s' CW HS Hrun) as (C & p & Hr & _ & Hret & _).
    fold (sched_list n s) in Hret.
    destruct (Nat.le_gt_cases c C) as [Hc|Hc].
    + unfold pipe_retire in *. rewrite (SchedPrefixMain.retire_prefix c C 0%nat _ Hc), Hret. reflexivity.
    + unfold pipe_retire in *. rewrite (retire_done C c 0%nat _ p Hr ltac:(lia)), Hret.
      symmetry. apply filter_all. intros aw Hin. rewrite <- Hret in Hin. apply retire_range in Hin. apply Nat.leb_le. lia.
  - (* the single-cycle machine stops at instruction N (a fault of any kind): before its cycle *)
    destruct Hend as [HNd HNf]. intros Hc. apply prefix_goal_intro.
    rewrite (fault_cycle_step s N H1 n He Hl) in Hc. rewrite (sched_list_of n s N Ht He).
    apply (cprefix_core s CW HS N H1 HNd c Hc).
  - (* the run goes on beyond the fuel *)
    destruct Hend as [-> HNd]. intros Hc. apply prefix_goal_intro. rewrite (sched_list_of n s n Ht He).
    apply (cprefix_core s CW HS n H1 HNd c).
    unfold SchedPrefixLink.fault_step. pose proof (X_ge3 (evm s n true) n). destruct (ec (ev s) n); lia.
Qed.
Print Assumptions pipe_schedule_prefix_caches_lem.

Theorem pipe_schedule_fault_caches_lem s n s' f :
  cwf s -> Forall (fun i => supported i = true) (prog (im s)) ->
  single_run n s = (s', Faulted f) ->
  let cf := fault_cycle n s in let p0 := pipe_init s true in
  exists p, pipe_run cf p0 = (p, PFaulted f) /\ pipe_run_steps cf p0 = cf /\
    pipe_retire cf p0 = filter (fun aw => (snd aw <? cf)%nat) (sched_list n s) /\
    icount (pst p) + 1 = icount s' /\
    cycles (pst p) = cycles s + Z.of_nat cf
                     + ipen s * ((iacc (pst p) - iacc s) - (ihit (pst p) - ihit s))
                     + dpen s * ((dacc (pst p) - dacc s) - (dhit (pst p) - dhit s)) /\
    (forall c q g, pipe_run c p0 = (q, PFaulted g) ->
       g = f /\ q = p /\ pipe_retire c p0 = pipe_retire cf p0).
Proof.
  intros CW HS Hrun. destruct (run_states_gen n s) as (N & HNn & H1 & Ht & He & Hl & Hend).
  rewrite Hrun in Hend. cbn [snd fst] in Hend. destruct Hend as [HNd HNf]. cbv zeta.
  rewrite (fault_cycle_step s N H1 n He Hl), (sched_list_of n s N Ht He).
  pose proof (pipe_refines_single_caches_lem s n CW HS) as Href. rewrite Hrun in Href.
  destruct Href as (c0 & p & _ & Hp & _).
  destruct (cfault_core s CW HS N H1 HNd s' f HNf c0 p f Hp) as (_ & A & B & Hic & m & _ & _ & _ & Hfil & _).
  exists p. split; [exact A|]. split; [exact B|]. split; [exact Hfil|]. split; [exact Hic|]. split.
  { pose proof (pipe_cycles_prefix_caches_lem s (SchedPrefixLink.fault_step s N true)) as H. cbv zeta in H.
    rewrite A, B in H. exact H. }
  intros c q g Hq. destruct (cfault_core s CW HS N H1 HNd s' f HNf c q g Hq) as (Eg & A' & _ & _ & m' & _ & _ & Hsame & _).
  split; [exact Eg|]. split; [|exact Hsame]. rewrite A in A'. congruence.
Qed.
Print Assumptions pipe_schedule_fault_caches_lem.

Theorem pipe_faulted_trace_caches_lem s n s' f :
  cwf s -> Forall (fun i => supported i = true) (prog (im s)) ->
  single_run n s = (s', Faulted f) ->
  forall c p g, pipe_run c (pipe_init s true) = (p, PFaulted g) ->
    g = f /\
    pipe_trace c (pipe_init s true) =
      firstn (length (single_trace n s) - (if fault_b2b n s then 1 else 0)) (single_trace n s) /\
    icount (pst p) + 1 = icount s' /\
    icount (pst p) = icount s + Z.of_nat (length (single_trace n s)).
Proof.
  intros CW HS Hrun c p g Hp. destruct (run_states_gen n s) as (N & HNn & H1 & Ht & He & Hl & Hend).
  rewrite Hrun in Hend. cbn [snd fst] in Hend. destruct Hend as [HNd HNf].
  destruct (cfault_core s CW HS N H1 HNd s' f HNf c p g Hp)
    as (Eg & A & B & Hic & m & HmN & Hlist & Hsame & _ & Hb1 & Hb2).
  split; [exact Eg|].
  assert (Hlen : length (single_trace n s) = N) by (rewrite Ht, map_length, seq_length; reflexivity).
  assert (Hcf : SchedPrefixLink.fault_step s N true = if ev_ecall (ev s N) then X (ev s) N else (X (ev s) N + 1)%nat).
  { unfold SchedPrefixLink.fault_step, ec. rewrite (X_evm s N H1 true N) by lia. reflexivity. }
  assert (Hb : fault_b2b n s = negb (ev_ecall (ev s N)) &&
                 match N with O => false | S h => (X (ev s) (S h) =? X (ev s) h + 1)%nat end).
  { unfold fault_b2b. rewrite Hl, He, map_length, seq_length.
    change (fun j => ev_of (sigma j s)) with (ev s). change (ev_of (sigma N s)) with (ev s N). f_equal.
    destruct N as [|h]; [reflexivity|].
    replace (map (ev s) (seq 0 (S h)) ++ [ev s (S h)]) with (map (ev s) (seq 0 (S (S h)))) by (rewrite (seq_S (S h)), map_app; reflexivity).
    rewrite schedule_xsched, xsched_X, map_map.
    rewrite (nth_map_seq (fun j => (X (ev s) j + 2)%nat) (S (S h)) (S h) 0%nat) by lia.
    rewrite (nth_map_seq (fun j => (X (ev s) j + 2)%nat) (S (S h)) h 0%nat) by lia.
    destruct (X (ev s) (S h) =? X (ev s) h + 1)%nat eqn:E; lia. }
  assert (Hm : m = (N - (if fault_b2b n s then 1 else 0))%nat).
  { rewrite Hb. rewrite Hcf in Hb1, Hb2. destruct N as [|h]; [destruct HmN; [subst m; destruct (negb _); reflexivity|lia]|].
    pose proof (X_lt (ev s) h) as Hlt.
    destruct (ev_ecall (ev s (S h))) eqn:Hec; cbn [negb andb].
    - pose proof (X_ecall_gap (ev s) h Hec). destruct HmN as [->|Hm]; [lia|].
      injection Hm as ->. lia.
    - destruct (X (ev s) (S h) =? X (ev s) h + 1)%nat eqn:E.
      + destruct HmN as [->|Hm]; [|injection Hm as ->; lia]. specialize (Hb2 ltac:(lia)).
        replace (S h - 1)%nat with h in Hb2 by lia. lia.
      + destruct HmN as [->|Hm]; [lia|]. injection Hm as ->. lia. }
  split.
  { rewrite (trace_of_retire c 0%nat). fold (pipe_retire c (pipe_init s true)). rewrite Hsame, Hlist, map_map. cbn [fst].
    rewrite Hlen, <- Hm, Ht, firstn_map. f_equal. symmetry.
    assert (Hle : (m <= N)%nat) by (destruct HmN; lia).
    clear - Hle. revert m Hle. generalize 0%nat. induction N as [|N' IH]; intros a m Hle.
    - assert (m = 0)%nat by lia. subst m. reflexivity.
    - destruct m as [|m']; [reflexivity|]. cbn [seq firstn]. f_equal. apply IH. lia. }
  split; [exact Hic|].
  rewrite Hlen. pose proof (cicount_N s CW HS N H1) as HcN.
  pose proof (cicount_fault s CW HS N H1 HNd s' f HNf) as Hs1.
  assert (HiN : icount (sigma N s) = icount (sigma N (flatten s))).
  { apply sm_ic. apply (csim s (flatten s) (sim_flatten s (cwf_cache_ok s CW)) N H1 N). lia. }
  lia.
Qed.
Print Assumptions pipe_faulted_trace_caches_lem.

(** * The reference of the cached run against that of the flat run *)
(* the cached single-cycle machine executes a prefix of what the flat one executes (it can only stop
   earlier, at a cache rejection): its events, its trace and so its schedule list are prefixes *)
Lemma sim_events_prefix n : forall s t, sim s t ->
  let k := length (single_trace n s) in
  single_events n s = firstn k (single_events n t) /\ single_trace n s = firstn k (single_trace n t) /\
  length (single_events n s) = k.
Proof.
  induction n as [|n IH]; intros s t Hsim; cbn [single_events single_trace]; [repeat split|].
  rewrite <- (sim_single_done s t Hsim). destruct (single_done s); [repeat split|].
  destruct (single_pipeline_step s) as [s1 [f|]] eqn:Hs; [repeat split|].
  destruct (csim_step s t Hsim ltac:(rewrite Hs; reflexivity)) as (Hok & S1 & _).
  unfold nxt in S1. rewrite Hs in S1. destruct (single_pipeline_step t) as [t1 of] eqn:Ht. cbn [snd fst] in *. subst of.
  destruct (IH s1 t1 S1) as (He & Htr & Hlen). cbv zeta in *. cbn [length firstn].
  rewrite <- He, <- Htr, Hlen, (sm_pc _ _ Hsim).
  rewrite (sim_ev_of s t s1 t1 Hsim S1) by (unfold nxt; rewrite ?Hs, ?Ht; reflexivity).
  repeat split.
Qed.

Lemma schedule_firstn k E : (k <= length E)%nat -> schedule (firstn k E) = firstn k (schedule E).
Proof.
  intros Hk. pose proof (schedule_prefix_stable (firstn k E) (skipn k E)) as H.
  rewrite firstn_skipn, firstn_length, Nat.min_l in H by exact Hk. symmetry. exact H.
Qed.

Theorem sched_list_flat_prefix_lem n s : cache_ok s ->
  let k := length (single_trace n s) in
  sched_list n s = firstn k (sched_list n (flatten s)) /\
  single_events n s = firstn k (single_events n (flatten s)) /\
  single_trace n s = firstn k (single_trace n (flatten s)).
Proof.
  intros Hok. destruct (sim_events_prefix n s (flatten s) (sim_flatten s Hok)) as (He & Ht & Hlen). cbv zeta in *.
  split; [|split; assumption].
  set (k := length (single_trace n s)) in *. unfold sched_list. rewrite combine_firstn.
  assert (Hk : (k <= length (single_events n (flatten s)))%nat).
  { rewrite <- Hlen, He, firstn_length. lia. }
  rewrite <- (schedule_firstn k _ Hk), <- He, <- Ht. reflexivity.
Qed.
Print Assumptions sched_list_flat_prefix_lem.
