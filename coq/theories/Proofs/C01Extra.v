(* C01Extra.v — remaining C01 facts: register invariant along runs, bit-level reading of the
   reference shifts, sign-extension formulas, well-formedness of constructed instructions,
   sufficiency of the C-string fuel, and a concrete well-formed state (non-vacuity). *)
From Coq Require Import Lia ZifyBool.
From ArchSim Require Import Model.Base Model.Mem Model.Cache Model.Fmt Model.RV Model.Single
  Spec.RV32IM Proofs.WordLemmas Proofs.MapLemmas Proofs.C01Arith Proofs.C01Mem Proofs.C01Step.
Open Scope Z_scope.
Ltac Zify.zify_post_hook ::= Z.to_euclidean_division_equations.
Local Arguments Z.mul : simpl never.
Local Arguments Z.add : simpl never.
Local Arguments Z.pow : simpl never.
Local Arguments Z.div : simpl never.
Local Arguments Z.modulo : simpl never.
Local Arguments Z.land : simpl never.
Local Arguments Z.sub : simpl never.

(** * 1. registers along runs *)
Lemma regs_invariant_run : forall n s, wf s ->
  mget (regs (fst (single_run n s))) 0 = 0 /\ forall k, in32 (mget (regs (fst (single_run n s))) k).
Proof.
  intros n s W. pose proof (run_refines n s W) as X. cbv zeta in X.
  destruct X as (_ & _ & W'). destruct (wf_r _ W') as [Hall H0]. split; assumption.
Qed.

(** * 2. the reference shifts, bit by bit *)
Lemma bits_above a n k : 0 <= a < 2 ^ n -> 0 <= n <= k -> Z.testbit a k = false.
Proof.
  intros Ha Hk. rewrite <- (Z.mod_small a (2 ^ n)) by assumption.
  apply Z.mod_pow2_bits_high. assumption.
Qed.

Lemma signed_bits a k : in32 a -> 0 <= k -> Z.testbit (signed a) k = Z.testbit a (Z.min 31 k).
Proof.
  unfold in32, signed. intros Ha Hk.
  destruct (a <? 2147483648) eqn:Elt.
  - (* non-negative reading *)
    destruct (Z.le_gt_cases k 31) as [Hle|Hgt].
    + rewrite Z.min_r by assumption. reflexivity.
    + rewrite Z.min_l by lia.
      rewrite (bits_above a 31 k) by (change (2 ^ 31) with 2147483648; lia).
      rewrite (bits_above a 31 31) by (change (2 ^ 31) with 2147483648; lia). reflexivity.
  - (* negative reading *)
    assert (H31 : Z.testbit a 31 = true).
    { apply Z.testbit_true; [lia|]. change (2 ^ 31) with 2147483648. lia. }
    destruct (Z.le_gt_cases k 31) as [Hle|Hgt].
    + rewrite Z.min_r by assumption.
      rewrite <- (Z.mod_pow2_bits_low (a - 4294967296) 32 k) by lia.
      rewrite <- (Z.mod_pow2_bits_low a 32 k) by lia.
      f_equal. change (2 ^ 32) with 4294967296. lia.
    + rewrite Z.min_l by lia. rewrite H31.
      replace (a - 4294967296) with (Z.lnot (4294967295 - a)) by (unfold Z.lnot; lia).
      rewrite Z.lnot_spec by assumption.
      rewrite (bits_above (4294967295 - a) 31 k) by (change (2 ^ 31) with 2147483648; lia).
      reflexivity.
Qed.

Lemma shift_bits : forall a b i, in32 a -> in32 b -> 0 <= i < 32 ->
  Z.testbit (spec_r SLL a b) i = (if i <? b mod 32 then false else Z.testbit a (i - b mod 32)) /\
  Z.testbit (spec_r SRL a b) i = (if i + b mod 32 <? 32 then Z.testbit a (i + b mod 32) else false) /\
  Z.testbit (spec_r SRA a b) i = Z.testbit a (Z.min 31 (i + b mod 32)).
Proof.
  intros a b i Ha Hb Hi. cbn [spec_r]; cbv zeta.
  pose proof (mod32_range b) as Hsh. set (sh := b mod 32) in *.
  unfold wrap. change 4294967296 with (2 ^ 32).
  split; [|split].
  - rewrite Z.mod_pow2_bits_low by lia. rewrite Z.mul_pow2_bits by lia.
    destruct (i <? sh) eqn:E; [|reflexivity].
    apply Z.testbit_neg_r. lia.
  - rewrite Z.div_pow2_bits by lia.
    destruct (i + sh <? 32) eqn:E; [reflexivity|].
    apply (bits_above a 32); [exact Ha | lia].
  - rewrite Z.mod_pow2_bits_low by lia. rewrite Z.div_pow2_bits by lia.
    apply signed_bits; [exact Ha | lia].
Qed.

(** * 3. constructor sign extension *)
Lemma sext_all : forall v,
  sext12 v = sextn 12 v /\ sext13 v = sextn 13 v /\ sext20 v = sextn 20 v /\ sext21 v = sextn 21 v.
Proof.
  intros v. split; [|split; [|split]].
  - exact (sext_formula v 12 eq_refl).
  - exact (sext_formula v 13 eq_refl).
  - exact (sext_formula v 20 eq_refl).
  - exact (sext_formula v 21 eq_refl).
Qed.

Lemma sext12_range v : -2048 <= sext12 v < 2048.
Proof.
  destruct (sext_all v) as (-> & _). unfold sextn; cbv zeta.
  change (2 ^ 12) with 4096. change (2 ^ (12 - 1)) with 2048.
  destruct (_ <? _) eqn:E; lia.
Qed.
Lemma sext13_range v : -4096 <= sext13 v < 4096.
Proof.
  destruct (sext_all v) as (_ & -> & _). unfold sextn; cbv zeta.
  change (2 ^ 13) with 8192. change (2 ^ (13 - 1)) with 4096.
  destruct (_ <? _) eqn:E; lia.
Qed.
Lemma sext20_range v : -524288 <= sext20 v < 524288.
Proof.
  destruct (sext_all v) as (_ & _ & -> & _). unfold sextn; cbv zeta.
  change (2 ^ 20) with 1048576. change (2 ^ (20 - 1)) with 524288.
  destruct (_ <? _) eqn:E; lia.
Qed.
Lemma sext21_range v : -1048576 <= sext21 v < 1048576.
Proof.
  destruct (sext_all v) as (_ & _ & _ & ->). unfold sextn; cbv zeta.
  change (2 ^ 21) with 2097152. change (2 ^ (21 - 1)) with 1048576.
  destruct (_ <? _) eqn:E; lia.
Qed.
Lemma land31_range v : 0 <= Z.land v 31 < 32.
Proof.
  change 31 with (Z.ones 5). rewrite Z.land_ones by lia. change (2 ^ 5) with 32. lia.
Qed.

(** * 4. constructed instructions are well-formed *)
Definition regs_ok (i : instr) : Prop :=
  match i with
  | IR _ rd rs1 rs2 => reg_ok rd /\ reg_ok rs1 /\ reg_ok rs2
  | II _ rd rs1 _ | ISh _ rd rs1 _ | ILoad _ rd rs1 _ | IJalr rd rs1 _ => reg_ok rd /\ reg_ok rs1
  | IStore _ rs1 rs2 _ | IBranch _ rs1 rs2 _ => reg_ok rs1 /\ reg_ok rs2
  | ILui rd _ | IAuipc rd _ | IJal rd _ _ => reg_ok rd
  | ICsr _ rd _ rs1 => reg_ok rd /\ reg_ok rs1
  | ICsri _ rd _ _ => reg_ok rd
  | IEcall | IEbreak | IFence => True
  end.

Lemma mk_wf_instr : forall i, regs_ok i -> wf_instr (mk i).
Proof.
  intros i H. destruct i; cbn [mk wf_instr regs_ok] in *.
  - exact H.
  - destruct H as [Hd H1]. split; [exact Hd | split; [exact H1 | apply sext12_range]].
  - destruct H as [Hd H1]. split; [exact Hd | split; [exact H1 | apply land31_range]].
  - destruct H as [Hd H1]. split; [exact Hd | split; [exact H1 | apply sext12_range]].
  - destruct H as [Hd H1]. split; [exact Hd | split; [exact H1 | apply sext12_range]].
  - exact H.
  - exact H.
  - destruct H as [H1 H2]. split; [exact H1 | split; [exact H2 | apply sext12_range]].
  - destruct H as [H1 H2]. split; [exact H1 | split; [exact H2 | apply sext13_range]].
  - split; [exact H | apply sext20_range].
  - split; [exact H | apply sext20_range].
  - split; [exact H | apply sext21_range].
  - exact H.
  - exact Logic.I.
  - exact Logic.I.
Qed.

(** * 5. the C-string scan never exhausts its fuel *)
Lemma cs_fuel_inv : forall f m a, spec_cstring f m a = CsFuel ->
  forall j, 0 <= j < Z.of_nat f -> valid_addr (wrap (a + j)) = true /\ mget m (wrap (a + j)) <> 0.
Proof.
  induction f as [|f IH]; intros m a H j Hj.
  - cbn in Hj. lia.
  - cbn [spec_cstring] in H.
    destruct (valid_addr (wrap a)) eqn:Ev; [|discriminate].
    destruct (mget m (wrap a) =? 0) eqn:Ez; [discriminate|].
    destruct (spec_cstring f m (a + 1)) as [t|x|] eqn:Er; try discriminate.
    destruct (Z.eq_dec j 0) as [->|Hnz].
    + rewrite Z.add_0_r. split; [assumption|]. apply Z.eqb_neq. assumption.
    + replace (a + j) with (a + 1 + (j - 1)) by lia. apply (IH m (a + 1) Er). lia.
Qed.

Lemma mget_nonzero_in m k : mget m k <> 0 -> In k (map fst m).
Proof.
  unfold mget. induction m as [|[k' v'] t IH]; cbn [mget_opt map fst In].
  - intros H. apply H. reflexivity.
  - destruct (k' =? k) eqn:E.
    + intros _. left. apply Z.eqb_eq. assumption.
    + intros H. right. apply IH. assumption.
Qed.

Lemma NoDup_map_inj_in {A B : Type} (g : A -> B) (l : list A) :
  (forall x y, In x l -> In y l -> g x = g y -> x = y) -> NoDup l -> NoDup (map g l).
Proof.
  intros Hinj Hnd. induction Hnd as [|x l Hx Hnd IH]; cbn [map].
  - constructor.
  - constructor.
    + intros Hin. apply in_map_iff in Hin. destruct Hin as (y & Hy & Hyl).
      assert (y = x) by (apply Hinj; [right; assumption | left; reflexivity | assumption]).
      subst y. contradiction.
    + apply IH. intros u w Hu Hw. apply Hinj; right; assumption.
Qed.

Lemma cs_fuel_bound f m a : spec_cstring f m a = CsFuel -> (f <= length m)%nat.
Proof.
  intros H. pose proof (cs_fuel_inv f m a H) as Inv.
  destruct (Z.le_gt_cases (Z.of_nat f) 4294967296) as [Hsmall|Hbig].
  - set (g := fun j : nat => wrap (a + Z.of_nat j)).
    assert (Hnd : NoDup (map g (seq 0 f))).
    { apply NoDup_map_inj_in; [|apply seq_NoDup].
      intros x y Hx Hy Hg. apply in_seq in Hx. apply in_seq in Hy.
      unfold g, wrap in Hg. lia. }
    assert (Hincl : incl (map g (seq 0 f)) (map fst m)).
    { intros k Hk. apply in_map_iff in Hk. destruct Hk as (j & <- & Hj). apply in_seq in Hj.
      apply mget_nonzero_in. unfold g. apply Inv. lia. }
    pose proof (NoDup_incl_length Hnd Hincl) as Hlen.
    rewrite !map_length, seq_length in Hlen. exact Hlen.
  - exfalso.
    destruct (Inv ((- a) mod 4294967296)) as [Hv _]; [lia|].
    replace (wrap (a + (- a) mod 4294967296)) with 0 in Hv by (unfold wrap; lia).
    discriminate Hv.
Qed.

Lemma cstring_no_fuel : forall m a, spec_cstring (S (length m)) m a <> CsFuel.
Proof.
  intros m a H. apply cs_fuel_bound in H. lia.
Qed.

(** * 6. a concrete well-formed state *)
Definition example_prog : list instr :=
  [ mk (II ADDI 5 0 100);          (* x5 := 100 *)
    mk (IStore SW 6 5 4);          (* mem32[x6 + 4] := x5 *)
    mk (ILoad LW 7 6 4);           (* x7 := mem32[x6 + 4] *)
    mk (IBranch BNE 7 5 8);        (* if x7 <> x5 skip the next instruction *)
    mk (IR ADD 10 7 5);            (* a0 := x7 + x5 *)
    IEcall ].                      (* a7 = 93: exit(a0) *)

Definition example_state : st :=
  {| pc := 0;
     regs := [(6, 65536); (17, 93)];
     ms := MFlat [(65536, 1); (65537, 255); (70000, 42)];
     im := {| prog := example_prog; icc := None |};
     out := []; exitc := None;
     icount := 0; bcount := 0; pcount := 0; cycles := 0; stalls := 0; flushes := 0 |}.

Lemma wf_example_proof : wf example_state /\ single_done example_state = false.
Proof.
  split.
  - constructor.
    + (* registers *)
      split.
      * intros k. unfold in32, mget. cbn [example_state regs mget_opt].
        destruct (6 =? k); [lia|]. destruct (17 =? k); lia.
      * reflexivity.
    + (* memory bytes *)
      intros k. unfold mget. cbn [example_state ms ms_lower mget_opt].
      destruct (65536 =? k); [lia|]. destruct (65537 =? k); [lia|]. destruct (70000 =? k); lia.
    + eexists. reflexivity.
    + reflexivity.
    + cbn [example_state pc]. lia.
    + cbn [example_state im prog example_prog].
      repeat (apply Forall_cons; [first [apply mk_wf_instr; cbn [regs_ok]; unfold reg_ok; lia | exact Logic.I]|]).
      apply Forall_nil.
    + cbn [example_state im prog example_prog length]. lia.
  - vm_compute. reflexivity.
Qed.
