(* IndepTablesCache.v — property C12, the displayed memory table of a CACHED memory system:
   the table shows the backing store [lower d]; under write-through that is the logical contents
   (every row is the logical word, and every word with a non-zero logical byte has a row); under
   write-back a row is the logical word whenever its block is not resident (resident blocks are
   always dirty in this simulator, so "resident" is where the table may lag). *)
From Coq Require Import Lia ZifyBool Sorted.
From ArchSim Require Import Model.Base Model.Mem Model.Cache Model.Fmt Model.RV Model.Single
  Spec.Numerals Spec.RV32IM Proofs.WordLemmas Proofs.C01Mem Proofs.C01Step Proofs.C17Proofs
  Proofs.CacheArith Proofs.CacheInv Proofs.C03Proofs Proofs.C12Proofs Proofs.IndepTables.
Open Scope Z_scope.

Local Arguments Z.mul : simpl never.
Local Arguments Z.add : simpl never.
Local Arguments Z.sub : simpl never.
Local Arguments Z.pow : simpl never.
Local Arguments Z.div : simpl never.
Local Arguments Z.modulo : simpl never.

(* the little-endian word of a byte-valued function *)
Definition le_wordf (g : Z -> Z) (a : Z) : Z :=
  g a + 256 * g (a + 1) + 65536 * g (a + 2) + 16777216 * g (a + 3).

Lemma le_word_f m a : le_word m a = le_wordf (mget m) a. Proof. reflexivity. Qed.

Lemma mget_nonzero_key m k : mget m k <> 0 -> In k (mkeys m).
Proof.
  unfold mget. destruct (mget_opt m k) as [v|] eqn:E; [|intros H; exfalso; apply H; reflexivity].
  intros _. apply (mget_opt_some m k v E).
Qed.

Lemma bytes_wf m : bytes_ok m -> wf_mem m. Proof. intros H k. apply H. Qed.

(** * write-through: the table is the logical memory *)
Lemma wt_table_current d rows : CInv d -> wthrough d = true -> keys_in_range rv_memcfg (lower d) ->
  mem_repr rv_memcfg (lower d) 32 = Ok rows ->
  StronglySorted Z.lt (map fst rows) /\
  (forall a v, In (a, v) rows -> a mod 4 = 0 /\ 16384 <= a /\ a + 3 < 4294967296 /\
     v = le_wordf (logical d) a /\ row_denotes 32 (n_bit_repr 32 v) v) /\
  (forall x, 0 <= x < 4294967296 -> logical d x <> 0 -> In (x - x mod 4) (map fst rows)).
Proof.
  intros [HS HW] Hwt Hk Hr. specialize (HW Hwt).
  pose proof (bytes_wf _ (sinv_bytes _ _ HS)) as Wm.
  destruct (rv_mem_rows_lem _ rows Wm Hk Hr) as (Hin & Hs & Hv).
  split; [exact Hs|]. split.
  - intros a v Hav. destruct (Hv a v Hav) as (A1 & A2 & A3 & _ & Hvw & _ & _ & _ & Hd).
    split; [exact A1|]. split; [exact A2|]. split; [exact A3|]. split; [|exact Hd].
    rewrite Hvw. unfold le_word, le_wordf. rewrite !HW by lia. reflexivity.
  - intros x Hx Hnz. apply Hin. exists x. split; [|reflexivity].
    apply mget_nonzero_key. rewrite HW by exact Hx. exact Hnz.
Qed.

(** * both policies: a row whose block is not resident shows the logical word *)
Lemma contains_same_word d a j : SInv d -> 0 <= a < 4294967296 -> a mod 4 = 0 -> 0 <= j < 4 ->
  cache_contains (dc d) (cdecode (dc d) (a + j)) = cache_contains (dc d) (cdecode (dc d) a).
Proof.
  intros HS Ha Hm Hj. unfold cache_contains, cdecode.
  pose proof (sinv_geom _ _ HS) as G.
  pose proof (byoff_eq (dc d) (lower d) a HS) as Hby. unfold cdecode in Hby.
  rewrite (Z.mod_small a 4294967296) in Hby by lia.
  destruct (decode_same_word _ _ a j G ltac:(lia) ltac:(rewrite Hby, Hm; lia)) as (_ & Ht & Hi & _).
  rewrite (Z.mod_small a 4294967296) in Ht, Hi by lia. rewrite Ht, Hi. reflexivity.
Qed.

Lemma table_row_nonresident d f rows a v : CInv d -> Flat f d -> keys_in_range rv_memcfg (lower d) ->
  mem_repr rv_memcfg (lower d) 32 = Ok rows -> In (a, v) rows ->
  v = le_word (lower d) a /\
  (cache_contains (dc d) (cdecode (dc d) a) = false -> v = le_word f a /\ v = le_wordf (logical d) a).
Proof.
  intros HC HF Hk Hr Hav. pose proof (cinv_sinv d HC) as HS.
  pose proof (bytes_wf _ (sinv_bytes _ _ HS)) as Wm.
  destruct (rv_mem_rows_lem _ rows Wm Hk Hr) as (_ & _ & Hv).
  destruct (Hv a v Hav) as (A1 & A2 & A3 & _ & Hvw & _).
  split; [exact Hvw|]. intros Hnr.
  assert (Hb : forall j, 0 <= j < 4 -> mget (lower d) (a + j) = mget f (a + j)).
  { intros j Hj. apply (wb_lag_only_resident_proof d f (a + j) HC HF); [lia|].
    rewrite (contains_same_word d a j HS) by lia. exact Hnr. }
  assert (Hw : le_word (lower d) a = le_word f a).
  { unfold le_word. rewrite <- (Z.add_0_r a) at 1. rewrite (Hb 0), (Hb 1), (Hb 2), (Hb 3) by lia.
    rewrite Z.add_0_r. reflexivity. }
  split; [congruence|]. rewrite Hvw, Hw. unfold le_word, le_wordf.
  rewrite !(HF _) by lia. reflexivity.
Qed.
