(* ToyLexErr1.v — which token line each error of [toy_load] names (refines C19Proofs.err_ok):
   PLabel: an address-type instruction with a label operand; PDirective: a directive line;
   PDupLabel: a line that declares a name; PDataSyntax: some token line. *)
From Coq Require Import Lia ZifyBool.
From ArchSim Require Import Model.Base Model.Mem Model.Fmt Model.Toy Proofs.C19Proofs.
Open Scope Z_scope.

Definition declares_name (x : tline) : Prop :=
  match x with TLLabel _ | TLInstr (Some _) _ _ | TLVar _ _ => True | _ => False end.

Definition shape_ok (l : list (Z * tline)) (e : perr) : Prop :=
  match e with
  | PLabel ln => exists il op lab, In (ln, TLInstr il op (TLabel lab)) l /\ is_address_type op = true
  | PDirective ln => exists d, In (ln, TLDirective d) l
  | PDupLabel ln => exists x, In (ln, x) l /\ declares_name x
  | PDataSyntax ln => exists x, In (ln, x) l
  | _ => True
  end.

Lemma shape_ok_incl l l' e : incl l l' -> shape_ok l e -> shape_ok l' e.
Proof.
  intros Hi. destruct e; cbn [shape_ok]; try (intros H; exact H).
  - intros (il & op & lab & Hin & Ha). exists il, op, lab. split; [apply Hi, Hin | exact Ha].
  - intros (x & Hin & Hx). exists x. split; [apply Hi, Hin | exact Hx].
  - intros (d & Hin). exists d. apply Hi, Hin.
  - intros (x & Hin). exists x. apply Hi, Hin.
Qed.
Lemma shape_ok_cons p l e : shape_ok l e -> shape_ok (p :: l) e.
Proof. apply shape_ok_incl. intros y Hy. right. exact Hy. Qed.

Lemma tdir_of_some x d : tdir_of x = Some d -> x = TLDirective d.
Proof. destruct x; cbn [tdir_of]; intros H; try discriminate H. injection H as ->. reflexivity. Qed.

Lemma segment_loop_shape rest : forall de te data text e,
  segment_loop tline tdir_of rest de te data text = PErr e -> shape_ok rest e.
Proof.
  induction rest as [|[ln x] t IH]; intros de te data text e H; cbn [segment_loop] in H; [discriminate H|].
  assert (G : forall de1 te1 d1 t1, segment_loop tline tdir_of t de1 te1 d1 t1 = PErr e -> shape_ok ((ln, x) :: t) e).
  { intros de1 te1 d1 t1 Ht. apply shape_ok_cons. eapply IH. exact Ht. }
  destruct (tdir_of x) as [d|] eqn:Ed; [|eapply G; exact H]. apply tdir_of_some in Ed. subst x.
  destruct (d =? 1).
  - destruct de.
    + injection H as <-. cbn [shape_ok]. exists d. left. reflexivity.
    + destruct (split_at_line tline ln text []) as [before after]. eapply G; exact H.
  - destruct te.
    + injection H as <-. cbn [shape_ok]. exists d. left. reflexivity.
    + destruct (split_at_line tline ln data []) as [before after]. eapply G; exact H.
Qed.

Lemma segment_shape toks e : segment tdir_of toks = PErr e -> shape_ok toks e.
Proof.
  destruct toks as [|p t]; [discriminate|].
  destruct (segment_unfold p t) as [de [te [d0 [t0 [-> _]]]]].
  intros H. apply shape_ok_cons. eapply segment_loop_shape. exact H.
Qed.

Lemma labels_shape l : forall pcv lb e, toy_labels l pcv lb = PErr e -> shape_ok l e.
Proof.
  induction l as [|[ln0 x0] t IH]; intros pcv lb e H; [discriminate H|].
  assert (G : forall pcv1 lb1, toy_labels t pcv1 lb1 = PErr e -> shape_ok ((ln0, x0) :: t) e).
  { intros pcv1 lb1 Ht. apply shape_ok_cons. eapply IH. exact Ht. }
  destruct x0 as [d|name vals|[name|] op opnd|name]; cbn [toy_labels] in H; try (eapply G; exact H).
  - destruct (add_label lb name pcv ln0) as [lb1|e1] eqn:Ea; [eapply G; exact H|].
    injection H as <-. apply add_label_err in Ea. subst e1. cbn [shape_ok].
    exists (TLInstr (Some name) op opnd). split; [left; reflexivity | exact Logic.I].
  - destruct (add_label lb name pcv ln0) as [lb1|e1] eqn:Ea; [eapply G; exact H|].
    injection H as <-. apply add_label_err in Ea. subst e1. cbn [shape_ok].
    exists (TLLabel name). split; [left; reflexivity | exact Logic.I].
Qed.

Definition low_level (e : perr) : Prop :=
  match e with PSyntax _ | PMemAddr _ | PUncaught _ => True | _ => False end.
Lemma write_vals_kind c vals : forall m a ln e, toy_write_vals c m a vals ln = PErr e -> low_level e.
Proof.
  induction vals as [|v t IH]; intros m a ln e H; cbn [toy_write_vals] in H; [discriminate H|].
  destruct (toy_value v) as [z|]; [|injection H as <-; exact Logic.I].
  destruct (mem_write c m 16 a (U16 z)) as [m' [er|]].
  - destruct er; injection H as <-; exact Logic.I.
  - eapply IH. exact H.
Qed.
Lemma write_instrs_kind c l : forall m a e, toy_write_instrs c m a l = PErr e -> low_level e.
Proof.
  induction l as [|i t IH]; intros m a e H; cbn [toy_write_instrs] in H; [discriminate H|].
  destruct (mem_write c m 16 a (U16 (toy_encode i))) as [m' [er|]].
  - destruct er; injection H as <-; exact Logic.I.
  - eapply IH. exact H.
Qed.
Lemma low_level_shape l e : low_level e -> shape_ok l e.
Proof. destruct e; cbn [low_level shape_ok]; intros H; try contradiction; exact Logic.I. Qed.

Lemma write_data_shape c data : forall last labels m e,
  toy_write_data c data last labels m = PErr e -> shape_ok data e.
Proof.
  induction data as [|[ln0 x0] t IH]; intros last labels m e H; [discriminate H|].
  cbn [toy_write_data] in H.
  destruct x0 as [d|name0 vals0|inl op opnd|name0];
    try (injection H as <-; cbn [shape_ok]; eexists; left; reflexivity).
  destruct (last - Z.of_nat (length vals0) + 1 <? 0).
  { injection H as <-. exact Logic.I. }
  destruct (add_label labels name0 (last - Z.of_nat (length vals0) + 1) ln0) as [lb1|e1] eqn:Ea.
  2:{ injection H as <-. apply add_label_err in Ea; subst e1. cbn [shape_ok].
      exists (TLVar name0 vals0). split; [left; reflexivity | exact Logic.I]. }
  destruct (toy_write_vals c m (last - Z.of_nat (length vals0) + 1) vals0 ln0) as [m1|e1] eqn:Ew.
  - apply shape_ok_cons. eapply IH. exact H.
  - injection H as <-. apply low_level_shape. eapply write_vals_kind. exact Ew.
Qed.

Lemma instantiate_shape text : forall labels e, toy_instantiate text labels = PErr e -> shape_ok text e.
Proof.
  induction text as [|[ln0 x0] t IH]; intros labels e H; [discriminate H|].
  cbn [toy_instantiate] in H.
  destruct x0 as [d|name0 vals0|inl0 op0 opnd0|name0].
  - apply shape_ok_cons. eapply IH; exact H.
  - injection H as <-. cbn [shape_ok]. eexists. left. reflexivity.
  - set (this := if is_address_type op0 then _ else _) in H.
    destruct this as [i|e1] eqn:Ethis.
    + destruct (toy_instantiate t labels) as [r|e2] eqn:Er; [discriminate H|].
      injection H as <-. apply shape_ok_cons. eapply IH; exact Er.
    + injection H as <-. subst this. destruct (is_address_type op0) eqn:Eat; [|discriminate Ethis].
      destruct opnd0 as [s|l|].
      * destruct (toy_value s) as [z|]; [discriminate Ethis|]. injection Ethis as <-. exact Logic.I.
      * destruct (mget_opt labels l); [discriminate Ethis|]. injection Ethis as <-. cbn [shape_ok].
        exists inl0, op0, l. split; [left; reflexivity | exact Eat].
      * injection Ethis as <-. exact Logic.I.
  - apply shape_ok_cons. eapply IH; exact H.
Qed.

(* the state after a failed load: fresh, except for the data words already written *)
Lemma toy_load_shape s toks s' e : toy_load s toks = (s', Some e) ->
  shape_ok toks e /\ s' = toy_fresh s (t_mem s') /\
  (match e with PDirective _ | PDupLabel _ => t_mem s' = [] | _ => True end).
Proof.
  rewrite toy_load_unfold. cbv zeta.
  destruct (segment tdir_of toks) as [[d t]|e1] eqn:Es.
  2:{ intros H; injection H as <- <-. split; [apply segment_shape; exact Es|]. split; [reflexivity|].
      destruct e1; reflexivity || exact Logic.I. }
  destruct (segment_ok_incl _ _ _ Es) as [Hd Ht].
  destruct (toy_labels toks 0 []) as [lb0|e1] eqn:El.
  2:{ intros H; injection H as <- <-. split; [eapply labels_shape; exact El|]. split; [reflexivity|].
      destruct e1; reflexivity || exact Logic.I. }
  destruct (toy_write_data (toy_memcfg (t_size s)) d (t_size s - 1) lb0 []) as [[[last lb] m]|e1] eqn:Ew.
  2:{ intros H; injection H as <- <-. split; [eapply shape_ok_incl; [exact Hd | eapply write_data_shape; exact Ew]|].
      split; [reflexivity|]. destruct e1; reflexivity || exact Logic.I. }
  destruct (toy_instantiate t lb) as [r|e1] eqn:Ei.
  2:{ intros H; injection H as <- <-. pose proof (instantiate_shape _ _ _ Ei) as Hs.
      split; [eapply shape_ok_incl; [exact Ht | exact Hs]|]. split; [reflexivity|].
      pose proof (instantiate_err (t_size s) _ _ _ Ei) as Hk.
      destruct e1; try exact Logic.I.
      - (* PDupLabel: not produced by instantiation *) exfalso. clear -Ei. revert Ei. generalize lb.
        induction t as [|[ln0 x0] t IH]; intros lb0 H; [discriminate H|]. cbn [toy_instantiate] in H.
        destruct x0 as [d0|n0 v0|i0 o0 p0|n0]; try (eapply IH; exact H); [discriminate H|].
        destruct (is_address_type o0).
        + destruct p0 as [sv|l|].
          * destruct (toy_value sv); [|discriminate H].
            destruct (toy_instantiate t lb0) eqn:E2; [discriminate H|]. injection H as ->. eapply IH; exact E2.
          * destruct (mget_opt lb0 l); [|discriminate H].
            destruct (toy_instantiate t lb0) eqn:E2; [discriminate H|]. injection H as ->. eapply IH; exact E2.
          * discriminate H.
        + destruct (toy_instantiate t lb0) eqn:E2; [discriminate H|]. injection H as ->. eapply IH; exact E2.
      - (* PDirective *) exfalso. clear -Ei. revert Ei. generalize lb.
        induction t as [|[ln0 x0] t IH]; intros lb0 H; [discriminate H|]. cbn [toy_instantiate] in H.
        destruct x0 as [d0|n0 v0|i0 o0 p0|n0]; try (eapply IH; exact H); [discriminate H|].
        destruct (is_address_type o0).
        + destruct p0 as [sv|l|].
          * destruct (toy_value sv); [|discriminate H].
            destruct (toy_instantiate t lb0) eqn:E2; [discriminate H|]. injection H as ->. eapply IH; exact E2.
          * destruct (mget_opt lb0 l); [|discriminate H].
            destruct (toy_instantiate t lb0) eqn:E2; [discriminate H|]. injection H as ->. eapply IH; exact E2.
          * discriminate H.
        + destruct (toy_instantiate t lb0) eqn:E2; [discriminate H|]. injection H as ->. eapply IH; exact E2. }
  destruct (Z.of_nat (length r) - 1 >? last).
  { intros H; injection H as <- <-. split; [exact Logic.I|]. split; [reflexivity | exact Logic.I]. }
  destruct (toy_write_instrs (toy_memcfg (t_size s)) m 0 r) as [m'|e1] eqn:Ewi; [discriminate|].
  intros H; injection H as <- <-. pose proof (write_instrs_kind _ _ _ _ _ Ewi) as Hk.
  split; [apply low_level_shape, Hk|]. split; [reflexivity|]. destruct e1; cbn [low_level] in Hk; try contradiction; exact Logic.I.
Qed.
