(* C15Proofs.v — property C15, RISC-V assembler part and run-time part:
   error typing of [assemble] / [rv_load] (Model/Asm.v): every failure is a parser error that
   carries the number of one of the token lines, or the memory address error; literals that
   int() rejects are syntax errors of their line; a non-parser error needs a token record the
   tokenizer cannot produce.  Run-time: the faults of [single_pipeline_step] and [pipe_step]
   carry the address and the instruction of the failing instruction. *)
From Coq Require Import Lia ZifyBool.
From ArchSim Require Import Model.Base Model.Mem Model.Cache Model.Fmt Model.RV Model.Single
  Model.RVSplit Model.Pipe Model.Toy Model.Asm Proofs.C19Proofs Proofs.C04Proofs.
Open Scope Z_scope.

Ltac Zify.zify_post_hook ::= Z.to_euclidean_division_equations.
Local Arguments Z.mul : simpl never.
Local Arguments Z.add : simpl never.
Local Arguments Z.sub : simpl never.
Local Arguments Z.pow : simpl never.
Local Arguments Z.div : simpl never.
Local Arguments Z.modulo : simpl never.
Local Arguments Z.land : simpl never.
Local Arguments Z.of_nat : simpl never.

(** * Vocabulary *)

(* the permitted failures of a load whose token lines have the numbers [lines] *)
Definition rv_err_ok (lines : list Z) (e : perr) : Prop :=
  match e with
  | PMemAddr _ => True
  | PMemSize _ => True          (* the data segment would extend past the address space *)
  | PSyntax ln | PLabel ln | POdd ln | PDupLabel ln | PDirective ln | PDataSyntax ln
  | PDataDup ln | PVariable ln | PUncaught ln => In ln lines
  end.

(* what the tokenizer guarantees about a token record: a register that is present is a known
   name, and the fields of the mnemonic's syntax class are present *)
Definition opt_reg_ok (r : option regtok) : Prop := forall t, r = Some t -> reg_num t <> None.

Definition itok_wf (i : itok) : Prop :=
  let mn := k_mn i in
  (opt_reg_ok (k_rd i) /\ opt_reg_ok (k_rs1 i) /\ opt_reg_ok (k_rs2 i) /\
   opt_reg_ok (k_reg1 i) /\ opt_reg_ok (k_reg2 i) /\ opt_reg_ok (k_rs i)) /\
  (0 <= mn <= 17 -> k_rd i <> None /\ k_rs1 i <> None /\ k_rs2 i <> None) /\
  (18 <= mn <= 26 \/ mn = 33 \/ mn = 46 -> k_reg1 i <> None /\ k_reg2 i <> None /\ k_imm i <> None) /\
  (27 <= mn <= 32 -> k_reg1 i <> None /\ (k_var i = None -> k_reg2 i <> None /\ k_imm i <> None)) /\
  (34 <= mn <= 36 -> k_reg1 i <> None /\ k_reg2 i <> None /\ (k_var i = None -> k_imm i <> None)) /\
  (37 <= mn <= 42 -> k_reg1 i <> None /\ k_reg2 i <> None) /\
  (43 <= mn <= 44 -> k_rd i <> None /\ k_imm i <> None) /\
  (mn = 45 -> k_rd i <> None) /\
  (48 <= mn <= 50 -> k_rd i <> None /\ k_csr i <> None /\ k_rs1 i <> None) /\
  (51 <= mn <= 53 -> k_rd i <> None /\ k_csr i <> None /\ k_uimm i <> None) /\
  (mn = 54 -> k_rd i <> None /\ k_imm i <> None) /\
  (mn = 55 -> k_var i <> None -> k_reg1 i <> None) /\
  (mn = 56 -> k_rd i <> None /\ k_rs i <> None).

Definition body_wf (b : tbody) : Prop := match b with BIns i => itok_wf i | _ => True end.
Definition entry_wf (e : Z * tentry) : Prop :=
  match snd e with EBody b => body_wf b | ELabel _ => True end.

Definition rv_tokens_wf (toks : list (Z * rline)) : Prop :=
  forall ln inl i, In (ln, RInstr inl (BIns i)) toks -> itok_wf i.

(** * 1. _segment, for any kind of token line *)
Section Seg.
  Variable A : Type.
  Variable dir_of : A -> option Z.

  Lemma seg_loop_ok_incl (L : list (Z * A)) rest : forall de te data text d' t',
    segment_loop A dir_of rest de te data text = POk (d', t') ->
    incl data L -> incl text L -> incl d' L /\ incl t' L.
  Proof.
    induction rest as [|[ln x] t IH]; intros de te data text d' t' H Hd Ht; cbn [segment_loop] in H.
    - injection H as <- <-. split; assumption.
    - destruct (dir_of x) as [d|]; [|eapply IH; eassumption].
      destruct (d =? 1).
      + destruct de; [discriminate H|].
        destruct (split_at_line A ln text []) as [before after] eqn:Es.
        destruct (split_at_line_incl _ _ _ _ _ _ Es) as [Hb Ha].
        eapply IH; [exact H | |].
        * intros y Hy. apply Ht, Ha, Hy.
        * intros y Hy. destruct (Hb y Hy) as [[]|Hc]. apply Ht, Hc.
      + destruct te; [discriminate H|].
        destruct (split_at_line A ln data []) as [before after] eqn:Es.
        destruct (split_at_line_incl _ _ _ _ _ _ Es) as [Hb Ha].
        eapply IH; [exact H | |].
        * intros y Hy. destruct (Hb y Hy) as [[]|Hc]. apply Hd, Hc.
        * intros y Hy. apply Hd, Ha, Hy.
  Qed.

  Lemma seg_loop_err rest : forall de te data text e,
    segment_loop A dir_of rest de te data text = PErr e ->
    exists ln, e = PDirective ln /\ In ln (map fst rest).
  Proof.
    induction rest as [|[ln x] t IH]; intros de te data text e H; cbn [segment_loop] in H;
      [discriminate H|].
    assert (G: forall de1 te1 d1 t1, segment_loop A dir_of t de1 te1 d1 t1 = PErr e ->
               exists ln', e = PDirective ln' /\ In ln' (map fst ((ln, x) :: t))).
    { intros de1 te1 d1 t1 Ht. destruct (IH _ _ _ _ _ Ht) as [ln' [He Hin]].
      exists ln'; split; [exact He | right; exact Hin]. }
    destruct (dir_of x) as [d|]; [|eapply G; exact H].
    destruct (d =? 1).
    - destruct de.
      + injection H as <-. exists ln; split; [reflexivity | left; reflexivity].
      + destruct (split_at_line A ln text []) as [before after]. eapply G; exact H.
    - destruct te.
      + injection H as <-. exists ln; split; [reflexivity | left; reflexivity].
      + destruct (split_at_line A ln data []) as [before after]. eapply G; exact H.
  Qed.

  Lemma seg_unfold p t :
    exists de te data text,
      segment dir_of (p :: t) = segment_loop A dir_of t de te data text /\
      incl data (p :: t) /\ incl text (p :: t).
  Proof.
    destruct p as [ln x]. unfold segment.
    assert (Ht: incl t ((ln, x) :: t)) by (intros y Hy; right; exact Hy).
    assert (Hn: incl (@nil (Z * A)) ((ln, x) :: t)) by (intros y []).
    destruct (dir_of x) as [[|[q|q|]|q]|].
    all: try (exists false, true, [], t; split; [reflexivity | split; assumption]).
    - exists true, false, t, []; split; [reflexivity | split; assumption].
    - exists false, true, [], ((ln, x) :: t); split; [reflexivity | split; [assumption | apply incl_refl]].
  Qed.

  Lemma seg_ok_incl toks data text : segment dir_of toks = POk (data, text) ->
    incl data toks /\ incl text toks.
  Proof.
    destruct toks as [|p t].
    - cbn [segment]. intros H; injection H as <- <-. split; apply incl_refl.
    - destruct (seg_unfold p t) as [de [te [d0 [t0 [-> [Hd Ht]]]]]].
      intros H. eapply seg_loop_ok_incl; eassumption.
  Qed.

  Lemma seg_err toks e : segment dir_of toks = PErr e ->
    exists ln, e = PDirective ln /\ In ln (map fst toks).
  Proof.
    destruct toks as [|p t]; [discriminate|].
    destruct (seg_unfold p t) as [de [te [d0 [t0 [-> _]]]]].
    intros H. destruct (seg_loop_err _ _ _ _ _ _ H) as [ln [-> Hin]].
    exists ln. split; [reflexivity | right; exact Hin].
  Qed.
End Seg.

Lemma incl_lines {A} (l l' : list (Z * A)) : incl l l' -> forall ln, In ln (map fst l) -> In ln (map fst l').
Proof.
  intros Hi ln Hin. apply in_map_iff in Hin as [[k x] [Hk Hin]]. apply in_map_iff.
  exists (k, x). split; [exact Hk | apply Hi; exact Hin].
Qed.

Lemma rv_err_ok_mono l l' e : (forall ln, In ln l -> In ln l') -> rv_err_ok l e -> rv_err_ok l' e.
Proof. intros H. destruct e; cbn [rv_err_ok]; auto. Qed.

(** * 2. The data segment *)

Lemma write_mult_err c : forall k m a i v m' e, write_mult c m a k i v = (m', Some e) ->
  exists x lo hi b, e = EAddr x lo hi b.
Proof.
  induction k as [|k IH]; intros m a i v m' e H; cbn [write_mult] in H; [discriminate|].
  unfold write_cell in H. destruct (in_range c (eff_addr c (a + i))).
  - eapply IH; exact H.
  - injection H as _ <-. unfold addr_err. eauto.
Qed.

Lemma dwrite_err m nbits a v e : dwrite m nbits a v = PErr e -> exists x, e = PMemAddr x.
Proof.
  unfold dwrite, ms_write. destruct m as [m0|d].
  - destruct (mem_write rv_memcfg m0 nbits a v) as [m' [e0|]] eqn:E; [|discriminate].
    destruct (write_mult_err _ _ _ _ _ _ _ _ E) as (x & lo & hi & b & ->).
    intros H; injection H as <-. eauto.
  - unfold dc_write. cbv zeta. cbn match.
    destruct (mem_write rv_memcfg (lower d) nbits a v) as [m' [e0|]] eqn:E; [|discriminate].
    destruct (write_mult_err _ _ _ _ _ _ _ _ E) as (x & lo & hi & b & ->).
    intros H; injection H as <-. eauto.
Qed.

Lemma write_vals_err vals : forall m nbits stride a ln e,
  write_vals m nbits stride a vals ln = PErr e ->
  (e = PSyntax ln /\ exists v, In v vals /\ py_int0 v = None) \/ exists x, e = PMemAddr x.
Proof.
  induction vals as [|v t IH]; intros m nbits stride a ln e H; cbn [write_vals] in H; [discriminate|].
  destruct (py_int0 v) as [z|] eqn:Ev.
  - destruct (dwrite m nbits a (U nbits z)) as [m'|e'] eqn:Ed.
    + destruct (IH _ _ _ _ _ _ H) as [[He (w & Hw & Hn)]|Hm]; [|right; exact Hm].
      left. split; [exact He|]. exists w. split; [right; exact Hw | exact Hn].
    + injection H as <-. right. eapply dwrite_err; exact Ed.
  - injection H as <-. left. split; [reflexivity|]. exists v. split; [left; reflexivity | exact Ev].
Qed.

(* a rejected literal makes the line fail (with the syntax error, unless a write of an earlier
   value has already failed) *)
Lemma write_vals_reject vals : forall m nbits stride a ln,
  (exists v, In v vals /\ py_int0 v = None) ->
  exists e, write_vals m nbits stride a vals ln = PErr e.
Proof.
  induction vals as [|v t IH]; intros m nbits stride a ln (w & Hw & Hn); [destruct Hw|].
  cbn [write_vals]. destruct (py_int0 v) as [z|] eqn:Ev; [|eexists; reflexivity].
  destruct (dwrite m nbits a (U nbits z)) as [m'|e']; [|eexists; reflexivity].
  apply IH. destruct Hw as [->|Hw]; [congruence|]. exists w. split; assumption.
Qed.

Lemma write_chars_err cs : forall m a e, write_chars m a cs = PErr e -> exists x, e = PMemAddr x.
Proof.
  induction cs as [|c t IH]; intros m a e H; cbn [write_chars] in H; [discriminate|].
  destruct (dwrite m 8 a (U8 c)) as [m'|e'] eqn:Ed.
  - eapply IH; exact H.
  - injection H as <-. eapply dwrite_err; exact Ed.
Qed.

Definition data_err (lines : list Z) (e : perr) : Prop :=
  (exists x, e = PMemAddr x \/ e = PMemSize x) \/
  exists ln, In ln lines /\ (e = PDataDup ln \/ e = PSyntax ln \/ e = PDataSyntax ln).

Lemma write_data_err data : forall m a vars e, write_data data m a vars = PErr e ->
  data_err (map fst data) e.
Proof.
  unfold data_err.
  induction data as [|[ln l] t IH]; intros m a vars e H; cbn [write_data] in H; [discriminate|].
  assert (Here: forall e0, (e0 = PDataDup ln \/ e0 = PSyntax ln \/ e0 = PDataSyntax ln) ->
            (exists x, e0 = PMemAddr x \/ e0 = PMemSize x) \/
            exists ln0, In ln0 (map fst ((ln, l) :: t)) /\
                        (e0 = PDataDup ln0 \/ e0 = PSyntax ln0 \/ e0 = PDataSyntax ln0)).
  { intros e0 He. right. exists ln. split; [left; reflexivity | exact He]. }
  assert (Rest: forall m1 a1 v1, write_data t m1 a1 v1 = PErr e ->
            (exists x, e = PMemAddr x \/ e = PMemSize x) \/
            exists ln0, In ln0 (map fst ((ln, l) :: t)) /\
                        (e = PDataDup ln0 \/ e = PSyntax ln0 \/ e = PDataSyntax ln0)).
  { intros m1 a1 v1 Hr. destruct (IH _ _ _ _ Hr) as [Hm|(ln0 & Hin & He)]; [left; exact Hm|].
    right. exists ln0. split; [right; exact Hin | exact He]. }
  assert (Addr: forall e0, (exists x, e0 = PMemAddr x) ->
            (exists x, e0 = PMemAddr x \/ e0 = PMemSize x) \/
            exists ln0, In ln0 (map fst ((ln, l) :: t)) /\
                        (e0 = PDataDup ln0 \/ e0 = PSyntax ln0 \/ e0 = PDataSyntax ln0)).
  { intros e0 [x Hx]. left. exists x. left. exact Hx. }
  assert (Size: forall w,
            (exists x, PMemSize w = PMemAddr x \/ PMemSize w = PMemSize x) \/
            exists ln0, In ln0 (map fst ((ln, l) :: t)) /\
                        (PMemSize w = PDataDup ln0 \/ PMemSize w = PSyntax ln0 \/ PMemSize w = PDataSyntax ln0)).
  { intros w. left. exists w. right. reflexivity. }
  cbv zeta in H.
  destruct l as [d|name ty vals|name s|name v|name|il b];
    try (injection H as <-; apply Here; right; right; reflexivity).
  - destruct (var_lookup vars name); [injection H as <-; apply Here; left; reflexivity|].
    destruct (if ty =? 0 then (8, 1) else if ty =? 1 then (16, 2) else (32, 4)) as [nbits stride].
    destruct (write_vals m nbits stride (align4 a) vals ln) as [[m' a']|e'] eqn:Ew.
    + destruct (a' >? data_limit); [injection H as <-; apply Size | eapply Rest; exact H].
    + injection H as <-. destruct (write_vals_err _ _ _ _ _ _ _ Ew) as [[-> _]|Hm].
      * apply Here. right; left; reflexivity.
      * apply Addr; exact Hm.
  - destruct (var_lookup vars name); [injection H as <-; apply Here; left; reflexivity|].
    destruct (write_chars m (align4 a) (strip_quotes s)) as [[m' a']|e'] eqn:Ew.
    + destruct (dwrite m' 8 a' 0) as [m''|e''] eqn:Ed.
      * destruct (a' + 1 >? data_limit); [injection H as <-; apply Size | eapply Rest; exact H].
      * injection H as <-. apply Addr. eapply dwrite_err; exact Ed.
    + injection H as <-. apply Addr. eapply write_chars_err; exact Ew.
  - destruct (var_lookup vars name); [injection H as <-; apply Here; left; reflexivity|].
    destruct (py_int10 v) as [n|].
    + destruct (align4 a + 4 * n >? data_limit); [injection H as <-; apply Size | eapply Rest; exact H].
    + injection H as <-. apply Here. right; left; reflexivity.
Qed.

(** * 3. Expansion *)

Lemma var_address_err vars v ln e : var_address vars v ln = PErr e -> e = PVariable ln \/ e = PSyntax ln.
Proof.
  unfold var_address. destruct (var_lookup vars (fst v)) as [[a sz]|].
  - destruct (snd v) as [d|]; [|discriminate]. destruct (py_int10 d); [discriminate|].
    intros H; injection H as <-. right; reflexivity.
  - intros H; injection H as <-. left; reflexivity.
Qed.

Definition expand_err (ln : Z) (e : perr) (wf : Prop) : Prop :=
  e = PSyntax ln \/ e = PVariable ln \/ (e = PUncaught ln /\ ~ wf).

Lemma wf_pseudo i : itok_wf i ->
  (k_mn i = 54 -> k_rd i <> None /\ k_imm i <> None) /\
  (k_mn i = 55 -> k_var i <> None -> k_reg1 i <> None) /\
  (k_mn i = 56 -> k_rd i <> None /\ k_rs i <> None) /\
  (27 <= k_mn i <= 32 -> k_reg1 i <> None) /\
  (34 <= k_mn i <= 36 -> k_reg1 i <> None /\ k_reg2 i <> None).
Proof.
  intros (_ & _ & _ & W3 & W4 & _ & _ & _ & _ & _ & Wli & Wla & Wmv).
  split; [exact Wli|]. split; [exact Wla|]. split; [exact Wmv|]. split.
  - intros H. exact (proj1 (W3 H)).
  - intros H. destruct (W4 H) as (? & ? & _). split; assumption.
Qed.

Lemma expand_one_err vars ln b e : expand_one vars ln b = PErr e -> expand_err ln e (body_wf b).
Proof.
  unfold expand_err. destruct b as [k|i|].
  - destruct (Z.eq_dec k 2) as [->|Hk]; [discriminate|]. rewrite expand_one_bstr by exact Hk. discriminate.
  - cbn [body_wf]. unfold expand_one; cbv zeta. unfold MN_LI, MN_LA, MN_MV.
    assert (U: forall e0, e0 = PUncaught ln -> (itok_wf i -> False) ->
               e0 = PSyntax ln \/ e0 = PVariable ln \/ e0 = PUncaught ln /\ ~ itok_wf i).
    { intros e0 -> Hw. right; right. split; [reflexivity | exact Hw]. }
    destruct (k_mn i =? 54) eqn:Eli.
    { destruct (k_rd i) as [rd|] eqn:Erd.
      - destruct (k_imm i) as [s|] eqn:Eimm.
        + destruct (py_int0 s); [destruct (hi_lo z); destruct (_ || _); discriminate|].
          intros H; injection H as <-. left; reflexivity.
        + intros H; injection H as <-. apply U; [reflexivity|].
          intros W. destruct (wf_pseudo i W) as (F & _). destruct (F ltac:(lia)) as (_ & F2). exact (F2 Eimm).
      - intros H; injection H as <-. apply U; [reflexivity|].
        intros W. destruct (wf_pseudo i W) as (F & _). destruct (F ltac:(lia)) as (F1 & _). exact (F1 Erd). }
    destruct (is_load_mn (k_mn i) || (k_mn i =? 55)) eqn:E1.
    { destruct (k_var i) as [v|] eqn:Ev; [|discriminate].
      destruct (var_address vars v ln) as [av|e'] eqn:Ea.
      - destruct (k_reg1 i) as [r|] eqn:Er.
        + destruct (hi_lo av). destruct (is_load_mn (k_mn i)); discriminate.
        + intros H; injection H as <-. apply U; [reflexivity|].
          intros W. destruct (wf_pseudo i W) as (_ & Fla & _ & Fld & _). unfold is_load_mn in E1.
          assert (Hc: 27 <= k_mn i <= 32 \/ k_mn i = 55) by lia. destruct Hc as [Hc|Hc].
          * exact (Fld Hc Er).
          * apply (Fla Hc); [congruence | exact Er].
      - intros H; injection H as <-. destruct (var_address_err _ _ _ _ Ea) as [->| ->]; auto. }
    destruct (is_store_mn (k_mn i)) eqn:E2.
    { destruct (k_var i) as [v|] eqn:Ev; [|discriminate].
      destruct (var_address vars v ln) as [av|e'] eqn:Ea.
      - apply is_store_mn_range in E2.
        destruct (k_reg1 i) as [r|] eqn:Er; [destruct (k_reg2 i) as [rt|] eqn:Er2|].
        + destruct (hi_lo av). discriminate.
        + intros H; injection H as <-. apply U; [reflexivity|].
          intros W. destruct (wf_pseudo i W) as (_ & _ & _ & _ & Fst). exact (proj2 (Fst E2) Er2).
        + intros H; injection H as <-. apply U; [reflexivity|].
          intros W. destruct (wf_pseudo i W) as (_ & _ & _ & _ & Fst). exact (proj1 (Fst E2) Er).
      - intros H; injection H as <-. destruct (var_address_err _ _ _ _ Ea) as [->| ->]; auto. }
    destruct (k_mn i =? 56) eqn:Emv; [|discriminate].
    destruct (k_rd i) as [rd|] eqn:Erd; [destruct (k_rs i) as [rs|] eqn:Ers|].
    + discriminate.
    + intros H; injection H as <-. apply U; [reflexivity|].
      intros W. destruct (wf_pseudo i W) as (_ & _ & Fmv & _). exact (proj2 (Fmv ltac:(lia)) Ers).
    + intros H; injection H as <-. apply U; [reflexivity|].
      intros W. destruct (wf_pseudo i W) as (_ & _ & Fmv & _). exact (proj1 (Fmv ltac:(lia)) Erd).
  - discriminate.
Qed.

(* the records the expansions build are well-formed *)
Lemma opt_reg_ok_none : opt_reg_ok None.
Proof. intros t H; discriminate H. Qed.
Lemma opt_reg_ok_x0 : opt_reg_ok (Some x0tok).
Proof. intros t H; injection H as <-. discriminate. Qed.

Lemma tok_rri_wf mn r1 r2 s : 18 <= mn <= 36 -> mn <> 33 ->
  opt_reg_ok (Some r1) -> opt_reg_ok (Some r2) -> itok_wf (tok_rri mn r1 r2 s).
Proof.
  intros Hm Hm' H1 H2. unfold itok_wf. cbn [tok_rri k_mn k_rd k_rs1 k_rs2 k_reg1 k_reg2 k_rs k_imm k_csr k_uimm k_var].
  repeat split; try apply opt_reg_ok_none; try assumption; try discriminate; try lia;
    intros; try lia; try discriminate; repeat split; try discriminate; try lia.
Qed.
Lemma tok_u_wf mn r s : 43 <= mn <= 44 -> opt_reg_ok (Some r) -> itok_wf (tok_u mn r s).
Proof.
  intros Hm H1. unfold itok_wf. cbn [tok_u k_mn k_rd k_rs1 k_rs2 k_reg1 k_reg2 k_rs k_imm k_csr k_uimm k_var].
  repeat split; try apply opt_reg_ok_none; try assumption; try discriminate; try lia;
    intros; try lia; try discriminate; repeat split; try discriminate; try lia.
Qed.

Lemma Forall_1 {A} (P : A -> Prop) a : P a -> Forall P [a].
Proof. intros H. constructor; [exact H | constructor]. Qed.
Lemma Forall_2 {A} (P : A -> Prop) a b : P a -> P b -> Forall P [a; b].
Proof. intros H1 H2. constructor; [exact H1 | apply Forall_1; exact H2]. Qed.
Lemma Forall_3 {A} (P : A -> Prop) a b c : P a -> P b -> P c -> Forall P [a; b; c].
Proof. intros H1 H2 H3. constructor; [exact H1 | apply Forall_2; assumption]. Qed.

Lemma expand_one_wf vars ln b bs : body_wf b -> expand_one vars ln b = POk bs -> Forall body_wf bs.
Proof.
  destruct b as [k|i|].
  - intros _. destruct (Z.eq_dec k 2) as [->|Hk].
    + cbn [expand_one]. intros H; injection H as <-. apply Forall_1. cbn [body_wf].
      apply tok_rri_wf; unfold MN_ADDI; try lia; apply opt_reg_ok_x0.
    + rewrite expand_one_bstr by exact Hk. intros H; injection H as <-. apply Forall_1. exact Logic.I.
  - cbn [body_wf]. intros W. pose proof W as ((Wrd & _ & _ & Wr1 & Wr2 & Wrs) & _).
    unfold expand_one; cbv zeta. unfold MN_LI, MN_LA, MN_MV, MN_LUI, MN_ADDI.
    destruct (k_mn i =? 54) eqn:Eli.
    { destruct (k_rd i) as [rd|] eqn:Erd; [|discriminate]. destruct (k_imm i) as [s|]; [|discriminate].
      destruct (py_int0 s) as [imm|]; [|discriminate]. destruct (hi_lo imm) as [hi lo].
      destruct ((imm >? 2047) || (imm <? -2048)); intros H; injection H as <-.
      - apply Forall_2; cbn [body_wf]; [apply tok_u_wf; [lia | exact Wrd]|].
        apply tok_rri_wf; try lia; exact Wrd.
      - apply Forall_1; cbn [body_wf]. apply tok_rri_wf; try lia; [exact Wrd | apply opt_reg_ok_x0]. }
    destruct (is_load_mn (k_mn i) || (k_mn i =? 55)) eqn:E1.
    { destruct (k_var i) as [v|] eqn:Ev.
      - destruct (var_address vars v ln) as [av|]; [|discriminate].
        destruct (k_reg1 i) as [r|] eqn:Er; [|discriminate]. destruct (hi_lo av) as [hi lo].
        destruct (is_load_mn (k_mn i)) eqn:El; intros H; injection H as <-.
        + apply is_load_mn_range in El. cbn [app].
          apply Forall_3; cbn [body_wf]; [apply tok_u_wf; [lia | exact Wr1] | |];
            apply tok_rri_wf; try lia; exact Wr1.
        + apply Forall_2; cbn [body_wf]; [apply tok_u_wf; [lia | exact Wr1]|].
          apply tok_rri_wf; try lia; exact Wr1.
      - intros H; injection H as <-. apply Forall_1. exact W. }
    destruct (is_store_mn (k_mn i)) eqn:E2.
    { pose proof (is_store_mn_range _ E2) as Hr. destruct (k_var i) as [v|] eqn:Ev.
      - destruct (var_address vars v ln) as [av|]; [|discriminate].
        destruct (k_reg1 i) as [r|] eqn:Er; [|discriminate].
        destruct (k_reg2 i) as [rt|] eqn:Er2; [|discriminate].
        destruct (hi_lo av) as [hi lo]. intros H; injection H as <-.
        apply Forall_3; cbn [body_wf]; [apply tok_u_wf; [lia | exact Wr2] | |];
          apply tok_rri_wf; try lia; assumption.
      - intros H; injection H as <-. apply Forall_1. exact W. }
    destruct (k_mn i =? 56) eqn:Emv.
    { destruct (k_rd i) as [rd|] eqn:Erd; [|discriminate]. destruct (k_rs i) as [rs|] eqn:Ers; [|discriminate].
      intros H; injection H as <-. apply Forall_1. cbn [body_wf]. apply tok_rri_wf; try lia; assumption. }
    intros H; injection H as <-. apply Forall_1. exact W.
  - intros _ H. cbn [expand_one] in H. injection H as <-. apply Forall_1. exact Logic.I.
Qed.

Lemma expand_all_err vars text : forall e, expand_all vars text = PErr e ->
  exists ln, In ln (map fst text) /\ expand_err ln e (Forall entry_wf text).
Proof.
  induction text as [|[ln en] t IH]; intros e H; cbn [expand_all] in H; [discriminate|].
  assert (Rest: expand_all vars t = PErr e ->
            exists ln0, In ln0 (map fst ((ln, en) :: t)) /\ expand_err ln0 e (Forall entry_wf ((ln, en) :: t))).
  { intros Hr. destruct (IH _ Hr) as (ln0 & Hin & He). exists ln0. split; [right; exact Hin|].
    unfold expand_err in *. destruct He as [He|[He|[He Hw]]]; auto.
    right; right. split; [exact He|]. intros W. apply Hw. inversion W; assumption. }
  destruct en as [n|b].
  - destruct (expand_all vars t) as [r|e'] eqn:Er; [discriminate|]. injection H as <-. apply Rest. reflexivity.
  - destruct (expand_one vars ln b) as [bs|e'] eqn:Eb.
    + destruct (expand_all vars t) as [r|e''] eqn:Er; [discriminate|]. injection H as <-. apply Rest. reflexivity.
    + injection H as <-. exists ln. split; [left; reflexivity|].
      pose proof (expand_one_err _ _ _ _ Eb) as He. unfold expand_err in *.
      destruct He as [He|[He|[He Hw]]]; auto. right; right. split; [exact He|].
      intros W. apply Hw. inversion W as [|x y Hx Hy]; subst. exact Hx.
Qed.

Lemma expand_all_wf vars text : forall text', Forall entry_wf text ->
  expand_all vars text = POk text' -> Forall entry_wf text'.
Proof.
  induction text as [|[ln en] t IH]; intros text' W H; cbn [expand_all] in H.
  - injection H as <-. constructor.
  - inversion W as [|x y Hx Hy]; subst. destruct en as [n|b].
    + destruct (expand_all vars t) as [r|] eqn:Er; [|discriminate]. injection H as <-.
      constructor; [exact Logic.I | apply IH; [exact Hy | reflexivity]].
    + destruct (expand_one vars ln b) as [bs|] eqn:Eb; [|discriminate].
      destruct (expand_all vars t) as [r|] eqn:Er; [|discriminate]. injection H as <-.
      apply Forall_app. split; [|apply IH; [exact Hy | reflexivity]].
      pose proof (expand_one_wf _ _ _ _ Hx Eb) as Hb. apply Forall_forall.
      intros z Hz. apply in_map_iff in Hz as (b' & <- & Hb'). rewrite Forall_forall in Hb. exact (Hb b' Hb').
Qed.

(** * 4. Instantiation *)

Definition inst_err (ln : Z) (e : perr) (wf : Prop) : Prop :=
  e = PSyntax ln \/ e = PLabel ln \/ e = POdd ln \/ (e = PUncaught ln /\ ~ wf).

Lemma label_or_imm_err i lb a ln e : label_or_imm i lb a ln = PErr e ->
  e = PSyntax ln \/ e = PLabel ln \/ e = POdd ln.
Proof.
  unfold label_or_imm. destruct (k_imm i) as [s|].
  - intros H. apply pbind_err in H as [H|(v & _ & H)].
    + apply need_int_err in H as [[_ Hc]|[-> _]]; [discriminate Hc | left; reflexivity].
    + destruct (v mod 2 =? 0); [discriminate|]. injection H as <-. right; right; reflexivity.
  - intros H. apply pbind_err in H as [H|(v & _ & H)].
    + destruct (k_offset i) as [o|]; [|discriminate].
      apply need_int_err in H as [[_ Hc]|[-> _]]; [discriminate Hc | left; reflexivity].
    + destruct (k_label i) as [l|]; [destruct (mget_opt lb l); [discriminate|]|];
        injection H as <-; right; left; reflexivity.
Qed.

(* a missing field or an unknown register name contradicts well-formedness *)
Definition good_reg (r : option regtok) : Prop := opt_reg_ok r /\ r <> None.

Lemma need_reg_good r ln e : need_reg r ln = PErr e -> good_reg r -> False.
Proof.
  intros H [Hok Hp]. apply need_reg_err in H as [_ [Hn|(t & Ht & Hr)]]; [exact (Hp Hn)|].
  exact (Hok t Ht Hr).
Qed.

(* the fields [instantiate_one] reads, for a well-formed record that the expansion leaves alone *)
Definition inst_wf (i : itok) : Prop := itok_wf i /\ plain_body (BIns i).

Lemma wf_fields i : inst_wf i ->
  let mn := k_mn i in
  (0 <= mn <= 17 -> good_reg (k_rd i) /\ good_reg (k_rs1 i) /\ good_reg (k_rs2 i)) /\
  (18 <= mn <= 36 \/ mn = 46 -> good_reg (k_reg1 i) /\ good_reg (k_reg2 i) /\ k_imm i <> None) /\
  (37 <= mn <= 42 -> good_reg (k_reg1 i) /\ good_reg (k_reg2 i)) /\
  (43 <= mn <= 44 -> good_reg (k_rd i) /\ k_imm i <> None) /\
  (mn = 45 -> good_reg (k_rd i)) /\
  (48 <= mn <= 50 -> good_reg (k_rd i) /\ k_csr i <> None /\ good_reg (k_rs1 i)) /\
  (51 <= mn <= 53 -> good_reg (k_rd i) /\ k_csr i <> None /\ k_uimm i <> None).
Proof.
  intros [W P]. cbv zeta. unfold good_reg.
  destruct W as ((Wrd & Wrs1 & Wrs2 & Wr1 & Wr2 & Wrs) & W1 & W2 & W3 & W4 & W5 & W6 & W7 & W8 & W9 & _).
  cbn [plain_body] in P. destruct P as (_ & _ & P). unfold MN_LA in P.
  split; [|split; [|split; [|split; [|split; [|split]]]]].
  - intros H. destruct (W1 H) as (? & ? & ?). repeat split; assumption.
  - intros H.
    assert (Hc: (18 <= k_mn i <= 26 \/ k_mn i = 33 \/ k_mn i = 46) \/ 27 <= k_mn i <= 32 \/
                34 <= k_mn i <= 36) by lia.
    destruct Hc as [Hc|[Hc|Hc]].
    + destruct (W2 Hc) as (? & ? & ?). repeat split; assumption.
    + assert (Hv: k_var i = None) by (apply P; unfold is_load_mn, is_store_mn; lia).
      destruct (W3 Hc) as (? & Hx). destruct (Hx Hv) as (? & ?). repeat split; assumption.
    + assert (Hv: k_var i = None) by (apply P; unfold is_load_mn, is_store_mn; lia).
      destruct (W4 Hc) as (? & ? & Hx). pose proof (Hx Hv). repeat split; assumption.
  - intros H. destruct (W5 H) as (? & ?). repeat split; assumption.
  - intros H. destruct (W6 H) as (? & ?). repeat split; assumption.
  - intros H. pose proof (W7 H). split; assumption.
  - intros H. destruct (W8 H) as (? & ? & ?). repeat split; assumption.
  - intros H. destruct (W9 H) as (? & ? & ?). repeat split; assumption.
Qed.

Ltac err_binds H :=
  repeat (apply pbind_err in H; destruct H as [H | (? & ? & H)]).

Ltac close_err W :=
  match goal with
  | H : POk _ = PErr _ |- _ => discriminate H
  | H : need_int _ _ = PErr _ |- _ =>
      apply need_int_err in H; destruct H as [[-> Hnone]|[-> _]];
      [right; right; right; split; [reflexivity|]; intros W | left; reflexivity]
  | H : need_reg _ _ = PErr _ |- _ =>
      pose proof (proj1 (need_reg_err _ _ _ H)) as ->;
      right; right; right; split; [reflexivity|]; intros W
  | H : label_or_imm _ _ _ _ = PErr _ |- _ =>
      apply label_or_imm_err in H; destruct H as [->|[->| ->]]; auto
  end.

Ltac solve_wf := first [eapply need_reg_good; [eassumption | eassumption] | congruence].

Lemma instantiate_one_err i lb a ln e : instantiate_one i lb a ln = PErr e -> inst_err ln e (inst_wf i).
Proof.
  unfold inst_err. intros H.
  destruct (mn_cases (k_mn i)) as [Hm|[Hm|[Hm|[Hm|[Hm|[Hm|[Hm|[Hm|[Hm|[Hm|[Hm|[Hm|[Hm|Hm]]]]]]]]]]]]].
  - rewrite inst_outside in H by exact Hm. injection H as <-. left; reflexivity.
  - rewrite inst_R in H by exact Hm. err_binds H; close_err W;
      destruct (wf_fields i W) as (F & _); destruct (F Hm) as (? & ? & ?); solve_wf.
  - rewrite inst_I in H by exact Hm. err_binds H; close_err W;
      destruct (wf_fields i W) as (_ & F & _); destruct (F ltac:(lia)) as (? & ? & ?); solve_wf.
  - rewrite inst_Sh in H by exact Hm. err_binds H; close_err W;
      destruct (wf_fields i W) as (_ & F & _); destruct (F ltac:(lia)) as (? & ? & ?); solve_wf.
  - rewrite inst_Load in H by exact Hm. err_binds H; close_err W;
      destruct (wf_fields i W) as (_ & F & _); destruct (F ltac:(lia)) as (? & ? & ?); solve_wf.
  - rewrite inst_Jalr in H by exact Hm. err_binds H; close_err W;
      destruct (wf_fields i W) as (_ & F & _); destruct (F ltac:(lia)) as (? & ? & ?); solve_wf.
  - rewrite inst_Sys in H by exact Hm. err_binds H; close_err W;
      destruct (wf_fields i W) as (_ & F & _); destruct (F ltac:(lia)) as (? & ? & ?); solve_wf.
  - rewrite inst_Store in H by exact Hm. err_binds H; close_err W;
      destruct (wf_fields i W) as (_ & F & _); destruct (F ltac:(lia)) as (? & ? & ?); solve_wf.
  - rewrite inst_Branch in H by exact Hm. err_binds H; close_err W;
      destruct (wf_fields i W) as (_ & _ & F & _); destruct (F Hm) as (? & ?); solve_wf.
  - rewrite inst_U in H by exact Hm. err_binds H; close_err W;
      destruct (wf_fields i W) as (_ & _ & _ & F & _); destruct (F Hm) as (? & ?); solve_wf.
  - rewrite inst_Jal in H by exact Hm. cbv zeta in H. err_binds H; close_err W;
      destruct (wf_fields i W) as (_ & _ & _ & _ & F & _); pose proof (F Hm); solve_wf.
  - rewrite inst_Fence in H by exact Hm. discriminate H.
  - rewrite inst_Csr in H by exact Hm. err_binds H; close_err W;
      destruct (wf_fields i W) as (_ & _ & _ & _ & _ & F & _); destruct (F Hm) as (? & ? & ?); solve_wf.
  - rewrite inst_Csri in H by exact Hm. err_binds H; close_err W;
      destruct (wf_fields i W) as (_ & _ & _ & _ & _ & _ & F); destruct (F Hm) as (? & ? & ?); solve_wf.
Qed.

Definition text_wf (text : list (Z * tentry)) : Prop := Forall entry_wf text /\ Forall plain_entry text.

Lemma instantiate_err text : forall lb a e, instantiate text lb a = PErr e ->
  exists ln, In ln (map fst text) /\ inst_err ln e (text_wf text).
Proof.
  unfold text_wf.
  induction text as [|[ln en] t IH]; intros lb a e H; cbn [instantiate] in H; [discriminate|].
  assert (Rest: forall a', instantiate t lb a' = PErr e ->
            exists ln0, In ln0 (map fst ((ln, en) :: t)) /\
                        inst_err ln0 e (Forall entry_wf ((ln, en) :: t) /\ Forall plain_entry ((ln, en) :: t))).
  { intros a' Hr. destruct (IH _ _ _ Hr) as (ln0 & Hin & He). exists ln0. split; [right; exact Hin|].
    unfold inst_err in *. destruct He as [He|[He|[He|[He Hw]]]]; auto.
    right; right; right. split; [exact He|]. intros [W1 W2]. apply Hw.
    inversion W1; inversion W2; split; assumption. }
  destruct en as [n|[k|i|]].
  - eapply Rest; exact H.
  - destruct (k =? 0).
    + apply pbind_err in H as [H|(r & _ & H)]; [eapply Rest; exact H | discriminate H].
    + destruct (k =? 1).
      * apply pbind_err in H as [H|(r & _ & H)]; [eapply Rest; exact H | discriminate H].
      * eapply Rest; exact H.
  - apply pbind_err in H as [H|(x & _ & H)].
    + exists ln. split; [left; reflexivity|]. pose proof (instantiate_one_err _ _ _ _ _ H) as He.
      unfold inst_err in *. destruct He as [He|[He|[He|[He Hw]]]]; auto.
      right; right; right. split; [exact He|]. intros [W1 W2]. apply Hw.
      inversion W1 as [|x1 y1 Hx1 Hy1]; inversion W2 as [|x2 y2 Hx2 Hy2]; subst. split; assumption.
    + apply pbind_err in H as [H|(r & _ & H)]; [eapply Rest; exact H | discriminate H].
  - injection H as <-. exists ln. split; [left; reflexivity | left; reflexivity].
Qed.

(** * 5. [assemble] *)

Lemma split_inline_lines text : map fst (fst (split_inline text)) = map fst text.
Proof.
  induction text as [|[ln l] t IH]; [reflexivity|]. cbn [split_inline].
  destruct (split_inline t) as [es labs]. cbn [fst] in IH.
  destruct l as [d|name ty vals|name s|name v|name|il b]; try destruct il; cbn [fst map]; rewrite IH; reflexivity.
Qed.

Lemma split_inline_wf text : (forall ln il i, In (ln, RInstr il (BIns i)) text -> itok_wf i) ->
  Forall entry_wf (fst (split_inline text)).
Proof.
  induction text as [|[ln l] t IH]; intros W; [constructor|]. cbn [split_inline].
  assert (Wt: Forall entry_wf (fst (split_inline t))).
  { apply IH. intros ln0 il i Hin. apply (W ln0 il i). right; exact Hin. }
  destruct (split_inline t) as [es labs]. cbn [fst] in Wt.
  destruct l as [d|name ty vals|name s|name v|name|il b]; try destruct il; cbn [fst];
    constructor; try exact Wt; try exact Logic.I.
  - unfold entry_wf; cbn [snd]. destruct b as [k|i|]; try exact Logic.I.
    apply (W ln (Some z) i). left; reflexivity.
  - unfold entry_wf; cbn [snd]. destruct b as [k|i|]; try exact Logic.I.
    apply (W ln None i). left; reflexivity.
Qed.

Lemma assemble_err toks m e : assemble toks m = PErr e ->
  rv_err_ok (map fst toks) e /\ (rv_tokens_wf toks -> forall ln, e <> PUncaught ln).
Proof.
  unfold assemble. intros H.
  destruct (segment rdir_of toks) as [[data text0]|e0] eqn:Es; cbn [pbind] in H.
  2:{ injection H as <-. destruct (seg_err _ _ _ _ Es) as (ln & -> & Hin).
      split; [exact Hin | intros _ l; discriminate]. }
  destruct (seg_ok_incl _ _ _ _ _ Es) as [Hd Ht].
  pose proof (split_inline_lines text0) as Hl1.
  assert (Hwf1: rv_tokens_wf toks -> Forall entry_wf (fst (split_inline text0))).
  { intros W. apply split_inline_wf. intros ln il i Hin. apply (W ln il i). apply Ht. exact Hin. }
  destruct (split_inline text0) as [text1 inlabs]. cbn [fst] in Hl1, Hwf1.
  assert (L1: forall ln, In ln (map fst text1) -> In ln (map fst toks)).
  { intros ln Hin. rewrite Hl1 in Hin. apply (incl_lines _ _ Ht). exact Hin. }
  destruct (write_data data m 16384 []) as [[m' vars]|e1] eqn:Ew; cbn [pbind] in H.
  2:{ injection H as <-. destruct (write_data_err _ _ _ _ _ Ew) as [[x [->| ->]]|(ln & Hin & He)].
      { split; [exact Logic.I | intros _ l; discriminate]. }
      { split; [exact Logic.I | intros _ l; discriminate]. }
      assert (Hin': In ln (map fst toks)) by (apply (incl_lines _ _ Hd); exact Hin).
      destruct He as [->|[->| ->]]; (split; [exact Hin' | intros _ l; discriminate]). }
  destruct (expand_all vars text1) as [text2|e2] eqn:Ex; cbn [pbind] in H.
  2:{ injection H as <-. destruct (expand_all_err _ _ _ Ex) as (ln & Hin & He).
      apply L1 in Hin. unfold expand_err in He. destruct He as [->|[->|[-> Hw]]].
      { split; [exact Hin | intros _ l; discriminate]. }
      { split; [exact Hin | intros _ l; discriminate]. }
      split; [exact Hin|]. intros W. exfalso. apply Hw. apply Hwf1. exact W. }
  assert (L2: forall ln, In ln (map fst text2) -> In ln (map fst toks)).
  { intros ln Hin. apply L1. eapply expand_all_lines; eassumption. }
  destruct (rv_labels text2 inlabs 0 [] None) as [labels|e3] eqn:El; cbn [pbind] in H.
  2:{ injection H as <-. destruct (label_errors_lem _ _ _ El) as (ln & -> & Hin).
      split; [apply L2; exact Hin | intros _ l; discriminate]. }
  destruct (instantiate text2 labels 0) as [ins|e4] eqn:Ei; cbn [pbind] in H.
  2:{ injection H as <-. destruct (instantiate_err _ _ _ _ Ei) as (ln & Hin & He).
      apply L2 in Hin. unfold inst_err in He. destruct He as [->|[->|[->|[-> Hw]]]].
      { split; [exact Hin | intros _ l; discriminate]. }
      { split; [exact Hin | intros _ l; discriminate]. }
      { split; [exact Hin | intros _ l; discriminate]. }
      split; [exact Hin|]. intros W. exfalso. apply Hw. split.
      { eapply expand_all_wf; [apply Hwf1; exact W | exact Ex]. }
      eapply expand_all_plain; exact Ex. }
  destruct (4 * Z.of_nat (length ins) >? imem_limit); [|discriminate].
  injection H as <-. split; [exact Logic.I | intros _ l; discriminate].
Qed.

Lemma assemble_outcomes_lem : forall toks m,
  (exists r, assemble toks m = POk r) \/
  (exists e, assemble toks m = PErr e /\ rv_err_ok (map fst toks) e /\
             (rv_tokens_wf toks -> forall ln, e <> PUncaught ln)).
Proof.
  intros toks m. destruct (assemble toks m) as [r|e] eqn:E; [left; exists r; reflexivity|].
  right. exists e. split; [reflexivity|]. apply (assemble_err toks m e E).
Qed.

Lemma assemble_no_uncaught_lem : forall toks m ln, rv_tokens_wf toks ->
  assemble toks m <> PErr (PUncaught ln).
Proof. intros toks m ln W H. exact (proj2 (assemble_err _ _ _ H) W ln eq_refl). Qed.

(** * 6. [rv_load] *)
Lemma rv_load_outcomes_lem : forall s toks,
  let s0 := with_im (with_ms s (ms_reset (ms s))) (im_reset (im s)) in
  (exists s' img, rv_load s toks = (s', None, Some img) /\
     exists m', assemble toks (ms s0) = POk (m', img) /\ prog (im s') = i_instrs img /\ ms s' = m') \/
  (exists e, rv_load s toks = (s0, Some e, None) /\ rv_err_ok (map fst toks) e /\
     (rv_tokens_wf toks -> forall ln, e <> PUncaught ln)).
Proof.
  intros s toks s0. unfold rv_load. fold s0.
  destruct (assemble toks (ms s0)) as [[m' img]|e] eqn:E.
  - left. eexists. exists img. split; [reflexivity|]. exists m'. repeat split; reflexivity.
  - right. exists e. split; [reflexivity|]. apply (assemble_err _ _ _ E).
Qed.

(** * 7. Literals that int() rejects *)
Lemma literal_errors_are_syntax_lem :
  (* a field read with int(text, 0) *)
  (forall s ln, py_int0 s = None -> need_int (Some s) ln = PErr (PSyntax ln)) /\
  (* data values: the first rejected value of a declaration *)
  (forall m nbits stride a v post ln, py_int0 v = None ->
     write_vals m nbits stride a (v :: post) ln = PErr (PSyntax ln)) /\
  (forall m nbits stride a vals ln, (exists v, In v vals /\ py_int0 v = None) ->
     exists e, write_vals m nbits stride a vals ln = PErr e /\
               (e = PSyntax ln \/ exists x, e = PMemAddr x)) /\
  (forall m nbits stride a vals ln l, write_vals m nbits stride a vals ln = PErr (PSyntax l) ->
     l = ln /\ exists v, In v vals /\ py_int0 v = None) /\
  (* a declaration line with a rejected value / a rejected .zero count *)
  (forall ln name ty vals t m a vars, var_lookup vars name = None ->
     (exists v, In v vals /\ py_int0 v = None) ->
     exists e, write_data ((ln, RVarDecl name ty vals) :: t) m a vars = PErr e /\
               (e = PSyntax ln \/ exists x, e = PMemAddr x)) /\
  (forall ln name v t m a vars, var_lookup vars name = None -> py_int10 v = None ->
     write_data ((ln, RZeroDecl name v) :: t) m a vars = PErr (PSyntax ln)) /\
  (* an array index *)
  (forall vars name d ln a sz, var_lookup vars name = Some (a, sz) -> py_int10 d = None ->
     var_address vars (name, Some d) ln = PErr (PSyntax ln)) /\
  (forall vars ln i name d a sz,
     (is_load_mn (k_mn i) || (k_mn i =? MN_LA) || is_store_mn (k_mn i)) = true ->
     k_var i = Some (name, Some d) -> var_lookup vars name = Some (a, sz) -> py_int10 d = None ->
     expand_one vars ln (BIns i) = PErr (PSyntax ln)) /\
  (* li *)
  (forall vars ln i rd s, k_mn i = MN_LI -> k_rd i = Some rd -> k_imm i = Some s -> py_int0 s = None ->
     expand_one vars ln (BIns i) = PErr (PSyntax ln)) /\
  (* immediates of I-type instructions, shifts, loads, jalr *)
  (forall i lb a ln s, 18 <= k_mn i <= 32 -> k_imm i = Some s -> py_int0 s = None ->
     instantiate_one i lb a ln = PErr (PSyntax ln)) /\
  (* stores, lui / auipc, csr numbers and csr immediates (read after the registers) *)
  (forall i lb a ln s r1 r2, 34 <= k_mn i <= 36 -> reg_field (k_reg1 i) r1 -> reg_field (k_reg2 i) r2 ->
     k_imm i = Some s -> py_int0 s = None -> instantiate_one i lb a ln = PErr (PSyntax ln)) /\
  (forall i lb a ln s rd, 43 <= k_mn i <= 44 -> reg_field (k_rd i) rd ->
     k_imm i = Some s -> py_int0 s = None -> instantiate_one i lb a ln = PErr (PSyntax ln)) /\
  (forall i lb a ln s rd, 48 <= k_mn i <= 53 -> reg_field (k_rd i) rd ->
     k_csr i = Some s -> py_int0 s = None -> instantiate_one i lb a ln = PErr (PSyntax ln)) /\
  (forall i lb a ln s rd c, 51 <= k_mn i <= 53 -> reg_field (k_rd i) rd -> int_field (k_csr i) c ->
     k_uimm i = Some s -> py_int0 s = None -> instantiate_one i lb a ln = PErr (PSyntax ln)) /\
  (* branch / jal operands: the number, or the offset behind a label *)
  (forall i lb a ln s, 37 <= k_mn i <= 42 \/ k_mn i = 45 -> k_imm i = Some s -> py_int0 s = None ->
     instantiate_one i lb a ln = PErr (PSyntax ln)) /\
  (forall i lb a ln o, 37 <= k_mn i <= 42 \/ k_mn i = 45 -> k_imm i = None -> k_offset i = Some o ->
     py_int0 o = None -> instantiate_one i lb a ln = PErr (PSyntax ln)).
Proof.
  assert (NI: forall s ln, py_int0 s = None -> need_int (Some s) ln = PErr (PSyntax ln)).
  { intros s ln H. unfold need_int. rewrite H. reflexivity. }
  assert (LI: forall i lb a ln s, k_imm i = Some s -> py_int0 s = None ->
                label_or_imm i lb a ln = PErr (PSyntax ln)).
  { intros i lb a ln s Hi Hs. unfold label_or_imm. rewrite Hi, (NI _ ln Hs). reflexivity. }
  assert (LO: forall i lb a ln o, k_imm i = None -> k_offset i = Some o -> py_int0 o = None ->
                label_or_imm i lb a ln = PErr (PSyntax ln)).
  { intros i lb a ln o Hi Ho Hs. unfold label_or_imm. rewrite Hi, Ho, (NI _ ln Hs). reflexivity. }
  split; [exact NI|]. split.
  { intros m nbits stride a v post ln H. cbn [write_vals]. rewrite H. reflexivity. }
  split.
  { intros m nbits stride a vals ln Hex. destruct (write_vals_reject vals m nbits stride a ln Hex) as [e He].
    exists e. split; [exact He|]. destruct (write_vals_err _ _ _ _ _ _ _ He) as [[-> _]|Hm]; auto. }
  split.
  { intros m nbits stride a vals ln l H. destruct (write_vals_err _ _ _ _ _ _ _ H) as [[Heq Hv]|[x Hx]].
    - injection Heq as ->. split; [reflexivity | exact Hv].
    - discriminate Hx. }
  split.
  { intros ln name ty vals t m a vars Hn Hex. cbn [write_data]. cbv zeta. rewrite Hn.
    destruct (if ty =? 0 then (8, 1) else if ty =? 1 then (16, 2) else (32, 4)) as [nbits stride].
    destruct (write_vals_reject vals m nbits stride (align4 a) ln Hex) as [e He]. rewrite He.
    exists e. split; [reflexivity|]. destruct (write_vals_err _ _ _ _ _ _ _ He) as [[-> _]|Hm]; auto. }
  split.
  { intros ln name v t m a vars Hn Hv. cbn [write_data]. cbv zeta. rewrite Hn, Hv. reflexivity. }
  assert (VA: forall vars name d ln a sz, var_lookup vars name = Some (a, sz) -> py_int10 d = None ->
     var_address vars (name, Some d) ln = PErr (PSyntax ln)).
  { intros vars name d ln a sz Hl Hd. unfold var_address. cbn [fst snd]. rewrite Hl, Hd. reflexivity. }
  split; [exact VA|]. split.
  { intros vars ln i name d a sz Hc Hv Hl Hd. unfold expand_one; cbv zeta.
    unfold MN_LI, MN_LA in *.
    assert (Hr: 27 <= k_mn i <= 32 \/ k_mn i = 55 \/ 34 <= k_mn i <= 36)
      by (unfold is_load_mn, is_store_mn in Hc; lia).
    replace (k_mn i =? 54) with false by lia. rewrite Hv, (VA vars name d ln a sz Hl Hd).
    destruct (is_load_mn (k_mn i) || (k_mn i =? 55)) eqn:E1; [reflexivity|].
    replace (is_store_mn (k_mn i)) with true by (unfold is_load_mn, is_store_mn in *; lia). reflexivity. }
  split.
  { intros vars ln i rd s Hm Hrd Hi Hs. unfold expand_one; cbv zeta. rewrite Hm, Z.eqb_refl, Hrd, Hi, Hs.
    reflexivity. }
  split.
  { intros i lb a ln s Hm Hi Hs.
    assert (Hc: 18 <= k_mn i <= 23 \/ 24 <= k_mn i <= 26 \/ 27 <= k_mn i <= 31 \/ k_mn i = 32) by lia.
    destruct Hc as [Hc|[Hc|[Hc|Hc]]];
      [rewrite inst_I by exact Hc | rewrite inst_Sh by exact Hc | rewrite inst_Load by exact Hc
       | rewrite inst_Jalr by exact Hc]; rewrite Hi, (NI _ ln Hs); reflexivity. }
  split.
  { intros i lb a ln s r1 r2 Hm H1 H2 Hi Hs. rewrite inst_Store by exact Hm.
    rewrite (need_reg_of_field _ _ ln H1), (need_reg_of_field _ _ ln H2). cbn [pbind].
    rewrite Hi, (NI _ ln Hs). reflexivity. }
  split.
  { intros i lb a ln s rd Hm H1 Hi Hs. rewrite inst_U by exact Hm.
    rewrite (need_reg_of_field _ _ ln H1). cbn [pbind]. rewrite Hi, (NI _ ln Hs). reflexivity. }
  split.
  { intros i lb a ln s rd Hm H1 Hi Hs.
    assert (Hc: 48 <= k_mn i <= 50 \/ 51 <= k_mn i <= 53) by lia.
    destruct Hc as [Hc|Hc]; [rewrite inst_Csr by exact Hc | rewrite inst_Csri by exact Hc];
      rewrite (need_reg_of_field _ _ ln H1); cbn [pbind]; rewrite Hi, (NI _ ln Hs); reflexivity. }
  split.
  { intros i lb a ln s rd c Hm H1 H2 Hi Hs. rewrite inst_Csri by exact Hm.
    rewrite (need_reg_of_field _ _ ln H1), (need_int_of_field _ _ ln H2). cbn [pbind].
    rewrite Hi, (NI _ ln Hs). reflexivity. }
  split.
  { intros i lb a ln s [Hm|Hm] Hi Hs; [rewrite inst_Branch by exact Hm | rewrite inst_Jal by exact Hm];
      rewrite (LI i lb a ln s Hi Hs); reflexivity. }
  { intros i lb a ln o [Hm|Hm] Hi Ho Hs; [rewrite inst_Branch by exact Hm | rewrite inst_Jal by exact Hm];
      rewrite (LO i lb a ln o Hi Ho Hs); reflexivity. }
Qed.

(** * 8. Run-time faults *)

Lemma single_fault_lem : forall s s' f, single_pipeline_step s = (s', Some f) ->
  let s0 := with_icount (with_cycles s (cycles s + 1)) (icount s + 1) in
  f_addr f = pc s /\
  fst (fetch s0 (pc s)) = Some (f_instr f) /\
  (icc (im s) = None -> instr_at (prog (im s)) (pc s) = Some (f_instr f)) /\
  has_instr (im s) (pc s) = true.
Proof.
  intros s s' f H s0. unfold single_pipeline_step, single_stage in H.
  set (sc := with_cycles s (cycles s + 1)) in H. cbv zeta in H.
  change (with_icount sc (icount sc + 1)) with s0 in H.
  change (pc s0) with (pc s) in H. change (im sc) with (im s) in H. change (pc sc) with (pc s) in H.
  destruct (has_instr (im s) (pc s)) eqn:Eh; [|discriminate H].
  destruct (fetch s0 (pc s)) as [[i|] s1] eqn:Ef; [|discriminate H].
  assert (Hf: f = {| f_addr := pc s; f_instr := i; f_err := f_err f |}).
  { destruct (behavior i s1) as [s2 [e|]].
    - injection H as _ <-. reflexivity.
    - destruct (match i with
                | ILoad o _ _ _ =>
                    match st_read s2 (load_bits o) (load_addr_pre i s1) false with
                    | (Ok _, s'0) => (s'0, None)
                    | (Err e, s'0) => (s'0, Some e)
                    end
                | _ => (s2, None)
                end) as [s3 [e|]]; [|discriminate H].
      injection H as _ <-. reflexivity. }
  rewrite Hf. cbn [f_addr f_instr fst]. split; [reflexivity|]. split; [reflexivity|]. split; [|reflexivity].
  intros Hc. unfold fetch, im_read in Ef. change (im s0) with (im s) in Ef. rewrite Hc in Ef.
  injection Ef as Ei _. exact Ei.
Qed.

Lemma stage_wb_fault regs own s l s' e : stage_wb regs own s = (l, s', Some e) ->
  exists x, lat_at regs own = Some x.
Proof. unfold stage_wb. destruct (lat_at regs own) as [x|]; [eexists; reflexivity | discriminate]. Qed.
Lemma stage_ex_fault regs own s l s' e : stage_ex regs own s = (l, s', Some e) ->
  exists x, lat_at regs own = Some x.
Proof. unfold stage_ex. destruct (lat_at regs own) as [x|]; [eexists; reflexivity | discriminate]. Qed.
Lemma stage_mem_fault regs own s l s' e : stage_mem regs own s = (l, s', Some e) ->
  exists x, lat_at regs own = Some x.
Proof. unfold stage_mem. destruct (lat_at regs own) as [x|]; [eexists; reflexivity | discriminate]. Qed.

Lemma run_stages_fault p next s f : run_stages p = (next, s, Some f) ->
  exists own x e, (own = 3 \/ own = 1 \/ own = 2) /\ lat_at (regs_for p (own + 1)) own = Some x /\
    f = {| f_addr := sl_addr x; f_instr := sl_instr x; f_err := e |}.
Proof.
  unfold run_stages. cbv zeta.
  destruct (match stalled p with Some _ => (lat_at (lat p) 0, pst p) | None => stage_if (pst p) end)
    as [n0 s1].
  destruct (stage_wb (regs_for p 4) 3 s1) as [[n4 s2] [e|]] eqn:Ewb.
  { destruct (stage_wb_fault _ _ _ _ _ _ Ewb) as [x Hx]. intros H. injection H as _ _ Hf.
    unfold fault_of in Hf. rewrite Hx in Hf. injection Hf as <-.
    exists 3, x, e. split; [left; reflexivity|]. split; [exact Hx | reflexivity]. }
  destruct (stage_ex (regs_for p 2) 1 s2) as [[n2 s3] [e|]] eqn:Eex.
  { destruct (stage_ex_fault _ _ _ _ _ _ Eex) as [x Hx]. intros H. injection H as _ _ Hf.
    unfold fault_of in Hf. rewrite Hx in Hf. injection Hf as <-.
    exists 1, x, e. split; [right; left; reflexivity|]. split; [exact Hx | reflexivity]. }
  destruct (stage_mem (regs_for p 3) 2 s3) as [[n3 s4] [e|]] eqn:Emem.
  { destruct (stage_mem_fault _ _ _ _ _ _ Emem) as [x Hx]. intros H. injection H as _ _ Hf.
    unfold fault_of in Hf. rewrite Hx in Hf. injection Hf as <-.
    exists 2, x, e. split; [right; right; reflexivity|]. split; [exact Hx | reflexivity]. }
  discriminate.
Qed.

Lemma pipe_fault_lem : forall p p' f, pipe_step p = (p', Some f) ->
  (exists own x e, (own = 3 \/ own = 1 \/ own = 2) /\
     lat_at (regs_for p (own + 1)) own = Some x /\
     f = {| f_addr := sl_addr x; f_instr := sl_instr x; f_err := e |}) /\
  lat p' = lat p /\ stalled p' = stalled p /\ saved p' = saved p /\ hazards p' = hazards p.
Proof.
  intros p p' f H. unfold pipe_step in H. cbv zeta in H.
  set (p0 := {| pst := with_cycles (pst p) (cycles (pst p) + 1); lat := lat p; stalled := stalled p;
                saved := saved p; hazards := hazards p |}) in H.
  destruct (run_stages p0) as [[next s] [f0|]] eqn:Er.
  - injection H as <- <-. split; [|repeat split; reflexivity].
    destruct (run_stages_fault _ _ _ _ Er) as (own & x & e & Ho & Hx & Hf).
    exists own, x, e. split; [exact Ho|]. split; [exact Hx | exact Hf].
  - exfalso. revert H.
    repeat match goal with
    | |- context [match ?x with _ => _ end] => destruct x
    end; discriminate.
Qed.
