(* ToyLexErr3.v — property C15 for TOY on arbitrary text: outcome typing, validity and meaning of the
   reported line, frame; with closed examples. *)
From Coq Require Import Lia ZifyBool String.
From ArchSim Require Import Model.Base Model.Mem Model.Fmt Model.Toy Model.ToyLex Proofs.C19Proofs
  Proofs.ToyLexErr1 Proofs.ToyLexErr2.
Open Scope Z_scope.
Open Scope list_scope.

(** * vocabulary *)
(* l is the ln-th line (1-based) of text.splitlines() *)
Definition nth_line (text : str) (ln : Z) (l : str) : Prop :=
  1 <= ln <= Z.of_nat (length (splitlines text)) /\ nth_error (splitlines text) (Z.to_nat (ln - 1)) = Some l.
Definition rline_literals (t : rtline) : list str :=
  match t with RLVar _ vals => vals | RLInstr _ _ (RAddrLit v) => [v] | _ => [] end.
Definition rdeclares (t : rtline) : Prop :=
  match t with RLLabel _ | RLInstr (Some _) _ _ | RLVar _ _ => True | _ => False end.
Definition all_lines_lex (text : str) : Prop := forall l, In l (splitlines text) -> toy_lex_line l <> LErr.

(* what an error of toy_load_text says about the text *)
Definition err_spec (s : tstate) (text : str) (e : perr) : Prop :=
  match e with
  | PSyntax ln =>
      exists l, nth_line text ln l /\
        ((* the first line the grammar rejects *)
         (toy_lex_line l = LErr /\ forall ln' l', ln' < ln -> nth_line text ln' l' -> toy_lex_line l' <> LErr) \/
         (* or every line lexes and this one carries a decimal literal int() refuses *)
         (all_lines_lex text /\ exists t lit, toy_lex_line l = LTok t /\ In lit (rline_literals t) /\ long_decimal lit))
  | PLabel ln => all_lines_lex text /\ exists l il op n, nth_line text ln l /\
                   toy_lex_line l = LTok (RLInstr il op (RLabel n)) /\ is_address_type op = true
  | PDirective ln => all_lines_lex text /\ exists l d, nth_line text ln l /\ toy_lex_line l = LTok (RLDirective d)
  | PDupLabel ln => all_lines_lex text /\ exists l t, nth_line text ln l /\ toy_lex_line l = LTok t /\ rdeclares t
  | PDataSyntax ln => all_lines_lex text /\ exists l t, nth_line text ln l /\ toy_lex_line l = LTok t
  | PMemSize w => all_lines_lex text /\ w = t_size s
  | POdd _ | PVariable _ | PDataDup _ | PMemAddr _ | PUncaught _ => False
  end.

Lemma from_line_nth text ln t' : from_line (splitlines text) 1 ln t' ->
  exists l t, nth_line text ln l /\ toy_lex_line l = LTok t /\ same_shape t t'.
Proof.
  intros (k & l & t & -> & Hn & Hl & Hs). exists l, t. split; [|split; assumption].
  assert (Hk : (k < length (splitlines text))%nat) by (apply nth_error_Some; rewrite Hn; discriminate).
  unfold nth_line. split; [lia|]. replace (Z.to_nat (1 + Z.of_nat k - 1)) with k by lia. exact Hn.
Qed.

Lemma same_shape_literals t x : same_shape t x -> line_literals x = rline_literals t.
Proof.
  destruct x as [d|n vals|il op opnd|n]; cbn [same_shape line_literals].
  - intros ->. reflexivity.
  - intros (m & ->). reflexivity.
  - intros (il0 & opnd0 & -> & _ & Ho). destruct opnd as [v|lab|]; cbn [rline_literals].
    + rewrite Ho. reflexivity.
    + destruct Ho as (m & ->). reflexivity.
    + rewrite Ho. reflexivity.
  - intros (m & ->). reflexivity.
Qed.

Lemma lexed_tokens_wf text toks : toy_lex_text text = POk toks -> tokens_wf toks.
Proof.
  intros H ln il op Hin. destruct (lex_lines_ok _ _ _ _ H) as [_ B].
  destruct (B _ _ Hin) as (k & l & t & _ & _ & Hl & Hs). cbn [same_shape] in Hs.
  destruct Hs as (il0 & opnd0 & -> & _ & ->). exact (toy_lex_line_ok _ _ Hl).
Qed.

Theorem load_text_err s text s' e : toy_load_text s text = (s', Some e) -> err_spec s text e.
Proof.
  unfold toy_load_text. destruct (toy_lex_text text) as [toks|e0] eqn:Elex.
  - intros Hload. unfold toy_lex_text in Elex. destruct (lex_lines_ok _ _ _ _ Elex) as [A B].
    assert (Hall : all_lines_lex text) by exact A.
    pose proof (lexed_tokens_wf text toks Elex) as Hwf.
    destruct (toy_load_outcomes_lem _ _ _ _ Hload) as (_ & Hkind & Hsyn & _).
    pose proof (toy_load_no_uncaught_lem _ _ _ _ Hwf Hload) as Hnu.
    destruct (toy_load_shape _ _ _ _ Hload) as (Hshape & _ & _).
    destruct e as [ln|ln|ln|ln|ln|ln|ln|ln|w|a|ln]; cbn [err_spec shape_ok] in *; try contradiction.
    + destruct (Hsyn ln eq_refl) as (x & lit & Hin & Hlit & Hlong).
      destruct (from_line_nth _ _ _ (B _ _ Hin)) as (l & t & Hn & Hl & Hs).
      exists l. split; [exact Hn|]. right. split; [exact Hall|]. exists t, lit.
      split; [exact Hl|]. split; [|exact Hlong]. rewrite <- (same_shape_literals t x Hs). exact Hlit.
    + destruct Hshape as (il & op & lab & Hin & Hat).
      destruct (from_line_nth _ _ _ (B _ _ Hin)) as (l & t & Hn & Hl & Hs). cbn [same_shape] in Hs.
      destruct Hs as (il0 & opnd0 & -> & _ & (n & ->)). split; [exact Hall|]. exists l, il0, op, n. split; [exact Hn|]. split; [exact Hl | exact Hat].
    + destruct Hshape as (x & Hin & Hx).
      destruct (from_line_nth _ _ _ (B _ _ Hin)) as (l & t & Hn & Hl & Hs). split; [exact Hall|]. exists l, t.
      split; [exact Hn|]. split; [exact Hl|]. destruct x as [d|n vals|[n|] op opnd|n]; cbn [declares_name same_shape] in *; try contradiction.
      * destruct Hs as (m & ->). exact Logic.I.
      * destruct Hs as (il0 & opnd0 & -> & Hil & _). destruct il0; [exact Logic.I | contradiction].
      * destruct Hs as (m & ->). exact Logic.I.
    + destruct Hshape as (d & Hin).
      destruct (from_line_nth _ _ _ (B _ _ Hin)) as (l & t & Hn & Hl & Hs). cbn [same_shape] in Hs. subst t.
      split; [exact Hall|]. exists l, d. split; assumption.
    + destruct Hshape as (x & Hin).
      destruct (from_line_nth _ _ _ (B _ _ Hin)) as (l & t & Hn & Hl & _). split; [exact Hall|]. exists l, t. split; assumption.
    + split; [exact Hall | exact Hkind].
    + exact (Hnu ln eq_refl).
  - intros H. injection H as _ <-. unfold toy_lex_text in Elex.
    destruct (lex_lines_err _ _ _ _ Elex) as (k & l & -> & Hn & He & Hfirst). cbn [err_spec].
    assert (Hk : (k < length (splitlines text))%nat) by (apply nth_error_Some; rewrite Hn; discriminate).
    exists l. split.
    + unfold nth_line. split; [lia|]. replace (Z.to_nat (1 + Z.of_nat k - 1)) with k by lia. exact Hn.
    + left. split; [exact He|]. intros ln' l' Hlt [Hr Hn']. eapply (Hfirst (Z.to_nat (ln' - 1))); [lia | exact Hn'].
Qed.

(** * (1) typing *)
Definition typed_outcome (s : tstate) (o : option perr) : Prop :=
  match o with
  | None => True
  | Some (PSyntax _) | Some (PLabel _) | Some (PDupLabel _) | Some (PDirective _) | Some (PDataSyntax _) => True
  | Some (PMemSize w) => w = t_size s
  | Some (POdd _) | Some (PVariable _) | Some (PDataDup _) | Some (PMemAddr _) | Some (PUncaught _) => False
  end.
Theorem load_text_typed s text : typed_outcome s (snd (toy_load_text s text)).
Proof.
  destruct (toy_load_text s text) as [s' [e|]] eqn:E; [|exact Logic.I]. cbn [snd].
  pose proof (load_text_err s text s' e E) as H. destruct e; cbn [err_spec typed_outcome] in *; try exact Logic.I; try contradiction.
  destruct H as [_ H]. exact H.
Qed.

(** * (2) the reported line exists *)
Theorem load_text_line_range s text s' e ln : toy_load_text s text = (s', Some e) -> perr_line e = Some ln ->
  1 <= ln <= Z.of_nat (length (splitlines text)) /\ exists l, nth_line text ln l.
Proof.
  intros E Hl. pose proof (load_text_err s text s' e E) as H.
  assert (G : forall l, nth_line text ln l -> 1 <= ln <= Z.of_nat (length (splitlines text)) /\ exists l, nth_line text ln l).
  { intros l Hn. split; [exact (proj1 Hn) | exists l; exact Hn]. }
  destruct e; cbn [perr_line] in Hl; try discriminate Hl; injection Hl as <-; cbn [err_spec] in H; try contradiction.
  - destruct H as (l & Hn & _). exact (G l Hn).
  - destruct H as (_ & l & il & op & n & Hn & _). exact (G l Hn).
  - destruct H as (_ & l & t & Hn & _). exact (G l Hn).
  - destruct H as (_ & l & d & Hn & _). exact (G l Hn).
  - destruct H as (_ & l & t & Hn & _). exact (G l Hn).
Qed.

(** * (3) frame *)
Lemma toy_fresh_nil s : toy_fresh s [] = toy_init (t_size s) (t_nextcycle s) (t_started s).
Proof. reflexivity. Qed.

Theorem load_text_frame s text s' o : toy_load_text s text = (s', o) ->
  match o with
  | Some e =>
      (* fresh state of that size; only data words written before the failure may be present *)
      s' = toy_fresh s (t_mem s') /\
      (toy_lex_text text = PErr e -> s' = toy_init (t_size s) (t_nextcycle s) (t_started s)) /\
      match e with
      | PDirective _ | PDupLabel _ => s' = toy_init (t_size s) (t_nextcycle s) (t_started s)
      | _ => True
      end
  | None =>
      (* success: the load of the token lines, to which the layout theorems of Props/C19.v apply *)
      exists toks, toy_lex_text text = POk toks /\ tokens_wf toks /\ toy_load s toks = (s', None)
  end.
Proof.
  unfold toy_load_text. destruct (toy_lex_text text) as [toks|e0] eqn:Elex.
  - intros Hload. destruct o as [e|].
    + destruct (toy_load_shape _ _ _ _ Hload) as (_ & Hf & Hm). split; [exact Hf|]. split; [discriminate|].
      destruct e; try exact Logic.I; rewrite Hf, Hm; apply toy_fresh_nil.
    + exists toks. split; [reflexivity|]. split; [exact (lexed_tokens_wf text toks Elex) | exact Hload].
  - intros H. injection H as <- <-. split; [reflexivity|]. split; [reflexivity|].
    unfold toy_lex_text in Elex. destruct (lex_lines_err _ _ _ _ Elex) as (k & l & -> & _). exact Logic.I.
Qed.

(** * examples *)
Definition st0 : tstate := toy_init 4096 1 false.
Definition NL : str := [10].
Definition CRLF : str := [13; 10].
Definition LS : str := [8232].                               (* U+2028 LINE SEPARATOR *)

(* an undefined label on line 3 of 5 *)
Definition text_label : str :=
  codes "LDA x" ++ NL ++ codes "INC" ++ NL ++ codes "  brz nowhere # ?" ++ NL ++ codes "x: NOP" ++ NL ++ codes "STO 5".
Example ex_undefined_label :
  length (splitlines text_label) = 5%nat /\ snd (toy_load_text st0 text_label) = Some (PLabel 3) /\
  option_map toy_lex_line (nth_error (splitlines text_label) 2) = Some (LTok (RLInstr None 2 (RLabel (codes "nowhere")))).
Proof. vm_compute. repeat split. Qed.

(* a lexical error behind two blank lines and a comment: line 4 *)
Definition text_lexical : str :=
  NL ++ codes "   " ++ NL ++ codes "# c" ++ NL ++ codes "ADD 0X1F" ++ NL ++ codes "NOPE" ++ NL.
Example ex_lexical_error :
  length (splitlines text_lexical) = 5%nat /\ toy_load_text st0 text_lexical = (st0, Some (PSyntax 4)) /\
  map toy_lex_line (splitlines text_lexical) = [LBlank; LBlank; LBlank; LErr; LErr].
Proof. vm_compute. repeat split. Qed.

(* CR LF and U+2028 are line boundaries and count: the undefined label is on line 5 of 6, the
   rejected line of the second text on line 3 *)
Definition text_boundaries : str :=
  codes "NOP" ++ CRLF ++ CRLF ++ codes "INC" ++ LS ++ codes "# c" ++ LS ++ codes "BRZ nowhere" ++ NL ++ codes "NOP".
Example ex_boundaries :
  length (splitlines text_boundaries) = 6%nat /\ snd (toy_load_text st0 text_boundaries) = Some (PLabel 5) /\
  snd (toy_load_text st0 (codes "NOP" ++ CRLF ++ codes "INC" ++ LS ++ codes "x: .word" ++ LS ++ codes "NOP")) = Some (PSyntax 3).
Proof. vm_compute. repeat split. Qed.

(* the other outcomes *)
Example ex_other_outcomes :
  snd (toy_load_text st0 (codes ".data" ++ NL ++ codes "x: .word 1" ++ NL ++ NL ++ codes ".data")) = Some (PDirective 4) /\
  snd (toy_load_text st0 (codes "a: NOP" ++ NL ++ codes "# c" ++ NL ++ codes "a:")) = Some (PDupLabel 3) /\
  snd (toy_load_text st0 (codes ".data" ++ NL ++ codes "INC")) = Some (PDataSyntax 2) /\
  snd (toy_load_text st0 (codes "NOP" ++ NL ++ codes "x: .word 1")) = Some (PDataSyntax 2) /\
  snd (toy_load_text st0 (NL ++ codes "LDA " ++ repeat 57 4301)) = Some (PSyntax 2) /\
  toy_lex_line (codes "LDA " ++ repeat 57 4301) = LTok (RLInstr None 1 (RAddrLit (repeat 57 4301))) /\
  snd (toy_load_text (toy_init 2 1 false) (codes "NOP" ++ NL ++ codes "NOP" ++ NL ++ codes "NOP")) = Some (PMemSize 2) /\
  snd (toy_load_text (toy_init 2 1 false) (codes "NOP" ++ NL ++ codes "x: .word 7")) = Some (PDataSyntax 2) /\
  snd (toy_load_text st0 []) = None /\ snd (toy_load_text st0 (codes "NOP")) = None.
Proof. vm_compute. repeat split. Qed.
