(* Proofs/AcctRead.v — the uncounted re-read of the single-cycle MEM stage leaves the data
   cache exactly as the counted read left it (same directory, replacement state, lower memory,
   counters): the block is resident and touching the most recently used way again changes
   nothing (LRU and PLRU are idempotent, Proofs/C10Proofs.v). *)
From Coq Require Import Lia ZifyBool.
From ArchSim Require Import Model.Base Model.Mem Model.Cache Model.Fmt Model.RV
  Proofs.WordLemmas Proofs.MapLemmas Proofs.C10Proofs Proofs.CacheArith Proofs.CacheInv Proofs.C03Proofs
  Proofs.C09Proofs Proofs.C16Proofs Proofs.LiftFlat Proofs.LiftAccess Proofs.LiftSim.
Open Scope Z_scope.
Local Arguments Z.mul : simpl never.
Local Arguments Z.add : simpl never.
Local Arguments Z.sub : simpl never.
Local Arguments Z.pow : simpl never.
Local Arguments Z.of_nat : simpl never.
Local Arguments Z.to_nat : simpl never.

Lemma put_set_twice (c : cache Z) i s1 s2 : put_set Z (put_set Z c i s1) i s2 = put_set Z c i s2.
Proof. unfold put_set. cbn [cfg sets]. rewrite set_nthZ_twice. reflexivity. Qed.

Lemma pol_ok_idem g p i : pol_ok g p -> pol_access (pol_access p i) i = pol_access p i.
Proof. intros H. apply access_idem_proof. destruct p; [apply H | exact Logic.I]. Qed.

(* the cache after a successful block read: the set of the address has been rewritten with the
   policy touched at the way bi that now holds the block *)
Lemma read_block_shape d a r d1 : CInv d -> dc_read_block d (cdecode (dc d) a) = (Ok r, d1) ->
  exists bi B, dc d1 = put_set Z (dc d) (da_idx (cdecode (dc d) a))
                         {| blocks := B;
                            policy := pol_access (policy (get_set (dc d) (da_idx (cdecode (dc d) a)))) bi |} /\
               matches (nthZ B bi empty_block) (da_tag (cdecode (dc d) a)) = true /\
               0 <= bi < Z.of_nat (length B).
Proof.
  intros HC H. pose proof (cinv_sinv d HC) as HS. unfold dc_read_block in H.
  rewrite cache_read_block_eq in H. set (da := cdecode (dc d) a) in *.
  pose proof (sinv_idx _ _ a HS) as Hi. fold da in Hi.
  pose proof (sinv_set _ _ _ HS Hi) as (Hlen & Hpol & _ & _).
  destruct (find_block (blocks (get_set (dc d) (da_idx da))) (da_tag da) 0) as [bi|] eqn:Hf.
  - injection H as _ <-. pose proof (find_block_Some _ _ _ _ Hf) as [Hbi Hm].
    replace (bi - 0) with bi in Hm by lia.
    exists bi, (blocks (get_set (dc d) (da_idx da))). split; [reflexivity|]. split; [exact Hm | lia].
  - destruct (read_words (lower d) (da_balign da) (block_words d)) as [v|e]; [|discriminate].
    rewrite cache_write_block_eq, Hf in H. cbv zeta in H.
    set (vb := pol_victim (policy (get_set (dc d) (da_idx da)))) in *.
    pose proof (pol_victim_range _ _ (sinv_cfg _ _ HS) Hpol) as Hvb. fold vb in Hvb.
    assert (E : dc d1 = install (dc d) (da_idx da) vb (mkblock da v)).
    { destruct (dirty _) in H; [destruct (wthrough d)|]; injection H as _ <-; reflexivity. }
    exists vb, (set_nthZ (blocks (get_set (dc d) (da_idx da))) vb (mkblock da v)).
    split; [exact E|]. rewrite set_nthZ_length. split; [|lia].
    rewrite nthZ_set_nthZ_eq by lia. unfold matches, mkblock. cbn [valid btag]. rewrite Z.eqb_refl. reflexivity.
Qed.

(* reading the same block again is a hit that changes nothing *)
Lemma reread_block d a r d1 : CInv d -> dc_read_block d (cdecode (dc d) a) = (Ok r, d1) ->
  exists v, cache_read_block (dc d1) (cdecode (dc d) a) = (Some v, dc d1).
Proof.
  intros HC H. pose proof (cinv_sinv d HC) as HS.
  destruct (dc_read_block_ok d a _ d1 HC H) as (HC1 & _ & Hcfg & _).
  pose proof (cinv_sinv d1 HC1) as HS1.
  destruct (read_block_shape d a r d1 HC H) as (bi & B & E & Hm & Hbi).
  set (da := cdecode (dc d) a) in *. pose proof (sinv_idx _ _ a HS) as Hi. fold da in Hi.
  destruct HS as (Hcf & Hls & Hsets & _).
  pose proof (Hsets _ Hi) as (_ & Hpol & _ & _).
  assert (Hg : get_set (dc d1) (da_idx da) =
               {| blocks := B; policy := pol_access (policy (get_set (dc d) (da_idx da))) bi |}).
  { rewrite E, get_put_set by lia. rewrite ?Z.eqb_refl. reflexivity. }
  assert (Hu : uniq B).
  { destruct HS1 as (_ & _ & Hsets1 & _). rewrite Hcfg in Hsets1.
    pose proof (Hsets1 _ Hi) as (_ & _ & _ & Hu). rewrite Hg in Hu. exact Hu. }
  rewrite cache_read_block_eq, Hg. cbn [blocks].
  rewrite (find_block_uniq B _ bi Hu Hbi Hm). eexists. f_equal.
  unfold touch. rewrite Hg. cbn [blocks policy]. rewrite (pol_ok_idem _ _ bi Hpol).
  rewrite E. apply put_set_twice.
Qed.

Lemma upd_dc_self d : upd_dc d (dc d) = d.
Proof. destruct d; reflexivity. Qed.

(* the data cache after an uncounted read that follows a successful read of the same address *)
Lemma dc_reread d nb a a' c v d' p : CInv d -> dc_read d nb a c = (Ok v, d', p) -> U32 a' = U32 a ->
  snd (fst (dc_read d' nb a' false)) = d'.
Proof.
  intros HC H Ha. rewrite (dc_read_mod d' nb a' a false Ha). unfold dc_read in *.
  destruct (dc_read_block d (cdecode (dc d) a)) as [[[blk hit]|e] d1] eqn:Hb; [|discriminate].
  destruct (reread_block d a _ d1 HC Hb) as [v1 Hrr].
  destruct (dc_read_block_ok d a _ d1 HC Hb) as (_ & _ & Hcfg & _).
  assert (Hd' : dc d' = dc d1 /\ lower d' = lower d1).
  { destruct c; [unfold upd_stats in H|]; injection H as _ <- _; split; reflexivity. }
  destruct Hd' as [Ed El].
  assert (Hda : cdecode (dc d') a = cdecode (dc d) a).
  { unfold cdecode. rewrite Ed, Hcfg. reflexivity. }
  rewrite Hda. unfold dc_read_block. rewrite Ed, Hrr. rewrite <- Ed. cbn [fst snd]. apply upd_dc_self.
Qed.

(** * At the level of machine states *)
Lemma st_reread s nb a a' c v s' s2 : ms_ok (ms s) -> st_read s nb a c = (Ok v, s') ->
  U32 a' = U32 a -> ms s2 = ms s' -> ms (snd (st_read s2 nb a' false)) = ms s'.
Proof.
  intros Hok H Ha Hms. unfold st_read in *. rewrite Hms.
  destruct (ms s) as [m|d] eqn:Em; cbn [ms_read] in H.
  - injection H as _ <-. cbn [with_cycles with_ms ms ms_read]. reflexivity.
  - cbn [ms_ok] in Hok. destruct (dc_read d nb a c) as [[r d'] p] eqn:Hr. injection H as -> <-.
    cbn [with_cycles with_ms ms ms_read].
    pose proof (dc_reread d nb a a' c v d' p Hok Hr Ha) as E.
    destruct (dc_read d' nb a' false) as [[r2 d2] p2]. cbn [fst snd] in E. subst d2. reflexivity.
Qed.
