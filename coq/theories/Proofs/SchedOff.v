(* SchedOff.v — timing of the five-stage pipeline with hazard detection OFF (property C08), part 1:
   programs whose register dependencies are at least three instructions apart ([dep_free_weak],
   Proofs/FlagOffDep.v).  On the single-cycle run of such a program the hazard term of the
   documented recurrence is false at every instruction, so [schedule] and the hazard-free
   [schedule_off] agree; the flag-off pipeline runs in lock step with the hazard-detecting one
   ([erase_step], Proofs/FlagOffSim.v), whose retire steps are given by Props/C07Sched.v. *)
From Coq Require Import Lia ZifyBool.
From ArchSim Require Import Model.Base Model.Mem Model.Cache Model.Fmt Model.RV Model.Single
  Model.RVSplit Model.Pipe Proofs.WordLemmas Proofs.C01Step Proofs.SplitExec
  Proofs.PipeLaws Proofs.PipeShape Proofs.PipeInv Proofs.PipeInvBase Proofs.PipeInvStages
  Proofs.PipeInvEcall Proofs.FlagOffDep Proofs.FlagOffSim Proofs.FlagOffRefine
  Proofs.SchedDefs Proofs.SchedRec Proofs.SchedStep Proofs.SchedInv Proofs.SchedLink Proofs.SchedMain
  Proofs.SchedOffDefs.
Open Scope Z_scope.

Local Arguments Z.of_nat : simpl never.
Local Arguments Z.add : simpl never.
Local Arguments Z.sub : simpl never.

(** * Pure: without hazards the execute cycles are those of the source-free event stream *)
Lemma X_nohaz ev N :
  (forall j, (S j < N)%nat -> ev_redirect (ev j) = false -> hazard ev j = false) ->
  forall j, (j < N)%nat -> X ev j = X (fun k => nosrc (ev k)) j.
Proof.
  intros H. induction j as [|j IH]; intros Hj; [reflexivity|].
  destruct (ev_redirect (ev j)) eqn:Hr.
  - rewrite (X_red ev j Hr), (X_red (fun k => nosrc (ev k)) j Hr), IH by lia. reflexivity.
  - rewrite (X_seq ev j Hr), (X_seq (fun k => nosrc (ev k)) j Hr), IH by lia. rewrite (H j Hj Hr).
    replace (hazard (fun k => nosrc (ev k)) j) with false; [reflexivity|].
    unfold hazard. rewrite dst_in_nosrc. destruct j; [reflexivity|]. rewrite dst_in_nosrc. reflexivity.
Qed.

Lemma schedule_off_X ev N :
  schedule_off (map ev (seq 0 N)) = map (fun j => (X (fun k => nosrc (ev k)) j + 2)%nat) (seq 0 N).
Proof.
  rewrite schedule_off_nosrc, map_map, schedule_xsched, (xsched_X (fun k => nosrc (ev k)) N), map_map.
  reflexivity.
Qed.

(** * The single-cycle run of a dependency-free program *)
Section DepFree.
Variable P : list instr.
Hypothesis Hsup : Forall (fun i => supported i = true) P.
Hypothesis HD : dep_free_weak P = true.
Variable s : st.
Hypothesis W : wf s.
Hypothesis HP : prog (im s) = P.
Variable N : nat.
Hypothesis H1 : forall j, (j < N)%nat ->
  single_done (sigma j s) = false /\ snd (single_pipeline_step (sigma j s)) = None.

Lemma sig_S j t : sigma (S j) t = nxt (sigma j t).
Proof. replace (S j) with (j + 1)%nat by apply Nat.add_1_r. rewrite sigma_add. reflexivity. Qed.

Lemma run_wf j : (j <= N)%nat -> wf (sigma j s) /\ prog (im (sigma j s)) = P.
Proof.
  induction j as [|j IH]; intros Hj; [split; assumption|].
  destruct (IH ltac:(lia)) as [Wj HPj]. destruct (H1 j ltac:(lia)) as [Hnd _].
  destruct (step_refines (sigma j s) Wj Hnd) as (_ & _ & Wn & Hpn). rewrite sig_S. unfold nxt.
  split; [exact Wn|congruence].
Qed.

(* the instruction executed at step j *)
Lemma run_instr j : (j < N)%nat -> exists i,
  instr_at P (pc (sigma j s)) = Some i /\ exitc (sigma j s) = None /\ supported i = true /\
  ev s j = ev_instr i (sigma j s).
Proof.
  intros Hj. destruct (run_wf j ltac:(lia)) as [Wj HPj]. destruct (H1 j Hj) as [Hnd _].
  unfold single_done, has_instr in Hnd. rewrite HPj in Hnd.
  destruct (exitc (sigma j s)) eqn:Hx; [discriminate Hnd|].
  destruct (instr_at P (pc (sigma j s))) as [i|] eqn:Hi; [|discriminate Hnd].
  exists i. split; [reflexivity|]. split; [reflexivity|]. split; [apply (sup_at P Hsup _ _ Hi)|].
  unfold ev, ev_of. rewrite HPj, Hi. reflexivity.
Qed.

(* a step that does not redirect goes to the next address *)
Lemma run_seq j : (j < N)%nat -> ev_redirect (ev s j) = false -> pc (sigma (S j) s) = pc (sigma j s) + 4.
Proof.
  intros Hj Hr. destruct (run_wf j ltac:(lia)) as [Wj HPj]. destruct (H1 j Hj) as [_ Hok].
  destruct (run_instr j Hj) as (i & Hi & _ & Hs & He). rewrite <- HPj in Hi. rewrite He in Hr.
  rewrite sig_S. apply (plain_pc _ i Wj Hi). apply (plain_iff_redirect _ i Wj Hi Hs Hok). exact Hr.
Qed.

Lemma reads_dep_ok i j : dep_ok false i j = true -> reads i (write_reg j) = false.
Proof.
  intros H. unfold reads. rewrite <- (SchedStep.rf_ra1_src i s), <- (SchedStep.rf_ra2_src i s).
  apply (dep_ok_no_hazard false). exact H.
Qed.

Lemma run_nohaz j : (S j < N)%nat -> ev_redirect (ev s j) = false -> hazard (ev s) j = false.
Proof.
  intros Hj Hr. unfold hazard.
  destruct (run_instr j ltac:(lia)) as (ij & Hij & _ & _ & Hej).
  destruct (run_instr (S j) Hj) as (i & Hi & _ & _ & Hei).
  pose proof (run_seq j ltac:(lia) Hr) as Hpc.
  destruct (dep_free_adjacent false P _ i ij HD Hi) as [A B].
  rewrite Hej, Hei, dst_in_reads.
  rewrite (reads_dep_ok i ij) by (apply A; rewrite Hpc; replace (pc (sigma j s) + 4 - 4) with (pc (sigma j s)) by lia; exact Hij).
  cbn [orb]. destruct j as [|h]; [reflexivity|].
  destruct (run_instr h ltac:(lia)) as (ih & Hih & _ & _ & Heh). rewrite Heh, dst_in_reads.
  destruct (ev_redirect (ev s h)) eqn:Hrh.
  - rewrite (X_red (ev s) h Hrh). replace (_ =? _)%nat with false by lia. apply Bool.andb_false_r.
  - pose proof (run_seq h ltac:(lia) Hrh) as Hpch.
    destruct (dep_free_adjacent false P _ i ih HD Hi) as [_ B'].
    rewrite (reads_dep_ok i ih); [reflexivity|]. apply B'. rewrite Hpc, Hpch.
    replace (pc (sigma h s) + 4 + 4 - 8) with (pc (sigma h s)) by lia. exact Hih.
Qed.

Lemma depfree_schedules : schedule (map (ev s) (seq 0 N)) = schedule_off (map (ev s) (seq 0 N)).
Proof.
  rewrite schedule_off_X, schedule_xsched, xsched_X, map_map. apply map_ext_in. intros j Hj.
  apply in_seq in Hj. rewrite (X_nohaz (ev s) N run_nohaz j) by lia. reflexivity.
Qed.

End DepFree.

(** * Lock step with the hazard-detecting pipeline, retire steps included *)
Lemma clr1_lat_ret l t : some_ret (lat_at (clr1 l) 4) t = some_ret (lat_at l 4) t.
Proof. destruct l as [|a [|b r]]; reflexivity. Qed.

Lemma erase_retire P (HD : dep_free_weak P = true) c : forall t p, K P p ->
  pipe_retire_from t c (erase p) = pipe_retire_from t c p /\
  pipe_run_steps c (erase p) = pipe_run_steps c p.
Proof.
  induction c as [|c IH]; intros t p HK; cbn [pipe_retire_from pipe_run_steps]; [split; reflexivity|].
  rewrite erase_done. destruct (pipe_done p); [split; reflexivity|].
  destruct (erase_step P HD p HK) as [E HK']. rewrite E.
  destruct (pipe_step p) as [p' [f|]]; cbn [fst snd] in *; [split; reflexivity|].
  cbn [erase lat]. rewrite clr1_lat_ret. destruct (IH (S t) p' (HK' eq_refl)) as [Hr Hs].
  rewrite Hr, Hs. split; reflexivity.
Qed.

(** * The theorem for dependency-free programs *)
Theorem flagoff_schedule_depfree_lem P s n s' :
  Forall (fun i => supported i = true) P -> wf s -> prog (im s) = P -> dep_free_weak P = true ->
  single_run n s = (s', Done) ->
  schedule (single_events n s) = schedule_off (single_events n s) /\
  exists c p,
    pipe_run c (pipe_init s false) = (p, PDone) /\
    pipe_retire c (pipe_init s false) = combine (single_trace n s) (schedule_off (single_events n s)) /\
    c = total_cycles (schedule_off (single_events n s)) /\
    cycles (pst p) = cycles s + Z.of_nat c.
Proof.
  intros HS W HP HD Hrun.
  destruct (run_states n s s' Hrun) as (N & _ & H1 & H2 & Ht & He).
  assert (Heq : schedule (single_events n s) = schedule_off (single_events n s)).
  { rewrite He. exact (depfree_schedules P HS HD s W HP N H1). }
  split; [exact Heq|].
  destruct (pipe_schedule_lem P s n s' HS W HP Hrun) as (c & p & Hr & Hret & Hc & Hcy).
  pose proof (K_init P s (wf_noic s W) HP) as HK.
  exists c, (erase p). rewrite erase_init.
  rewrite (erase_run P HD c _ HK), Hr. cbn [fst snd]. split; [reflexivity|].
  unfold pipe_retire in *. rewrite (proj1 (erase_retire P HD c 0%nat _ HK)), Hret, <- Heq.
  split; [reflexivity|]. split; [exact Hc|exact Hcy].
Qed.
Print Assumptions flagoff_schedule_depfree_lem.
