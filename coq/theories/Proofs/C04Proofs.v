(* C04Proofs.v — property C04: the RISC-V assembler after tokenisation (Model/Asm.v).
   Part A (shared with C14Proofs.v and C15Proofs.v): literals, one characterisation lemma of
   [instantiate_one] per instruction class, inversion of [pbind].
   Part B: the vocabulary of Props/C04.v and the proofs of its theorems. *)
From Coq Require Import Lia ZifyBool.
From ArchSim Require Import Model.Base Model.Mem Model.Cache Model.Fmt Model.RV Model.Toy Model.Asm
  Spec.RV32IM Spec.Numerals Proofs.WordLemmas Proofs.MapLemmas Proofs.C01Extra Proofs.C17Proofs
  Proofs.C19Proofs.
Open Scope Z_scope.

Ltac Zify.zify_post_hook ::= Z.to_euclidean_division_equations.
Local Arguments Z.mul : simpl never.
Local Arguments Z.add : simpl never.
Local Arguments Z.sub : simpl never.
Local Arguments Z.pow : simpl never.
Local Arguments Z.div : simpl never.
Local Arguments Z.modulo : simpl never.
Local Arguments Z.land : simpl never.
Local Arguments Z.shiftl : simpl never.
Local Arguments Z.shiftr : simpl never.
Local Arguments Z.of_nat : simpl never.

(** * A.1 Literals *)

Lemma hexval_digit_val c d : digit_val c = Some d -> hexval c = d.
Proof.
  unfold digit_val, hexval.
  destruct ((48 <=? c) && (c <=? 57)); [intros H; injection H as <-; reflexivity|].
  destruct ((65 <=? c) && (c <=? 70)); [intros H; injection H as <-; reflexivity | discriminate].
Qed.

Lemma horner_fold base s : forall acc v, horner base acc s = Some v ->
  fold_left (fun a c => a * base + hexval c) s acc = v.
Proof.
  induction s as [|c t IH]; intros acc v H; cbn [horner fold_left] in *.
  - injection H as <-. reflexivity.
  - destruct (digit_val c) as [d|] eqn:Ed; [|discriminate].
    destruct (d <? base); [|discriminate].
    rewrite (hexval_digit_val _ _ Ed). apply IH. exact H.
Qed.

Lemma digits_value_fmt_nat base z : 2 <= base <= 16 -> 0 <= z ->
  digits_value base (fmt_nat base z) = z.
Proof.
  intros Hb Hz. destruct (fmt_nat_roundtrip_lem base z Hb Hz) as [H _].
  rewrite of_digits_horner in H by apply fmt_nat_nonempty.
  unfold digits_value. apply horner_fold. exact H.
Qed.

Lemma hexval_lower c : hexval (lower_hex c) = hexval c.
Proof.
  unfold lower_hex, hexval.
  destruct ((65 <=? c) && (c <=? 70)) eqn:E; [|rewrite E; reflexivity].
  replace ((48 <=? c + 32) && (c + 32 <=? 57)) with false by lia.
  replace ((65 <=? c + 32) && (c + 32 <=? 70)) with false by lia.
  replace ((48 <=? c) && (c <=? 57)) with false by lia. lia.
Qed.

Lemma digits_value_lower base s : digits_value base (map lower_hex s) = digits_value base s.
Proof.
  unfold digits_value. generalize 0. induction s as [|c t IH]; intros acc; cbn [map fold_left].
  - reflexivity.
  - rewrite hexval_lower. apply IH.
Qed.

(* the leading character decides the branch of [py_int0_unsigned] / [py_int0] *)
Lemma py_int0_unsigned_nz c t : c <> 48 ->
  py_int0_unsigned (c :: t) =
  if Z.of_nat (length (c :: t)) >? max_str_digits then None else Some (digits_value 10 (c :: t)).
Proof.
  intros Hc. destruct c as [|p|p]; try reflexivity.
  do 6 (destruct p as [p|p|]; try reflexivity).
  exfalso; apply Hc; reflexivity.
Qed.

Lemma py_int0_not_minus c t : c <> 45 -> py_int0 (c :: t) = py_int0_unsigned (c :: t).
Proof.
  intros Hc. destruct c as [|p|p]; try reflexivity.
  do 6 (destruct p as [p|p|]; try reflexivity).
  exfalso; apply Hc; reflexivity.
Qed.

Lemma py_int0_minus r :
  py_int0 (45 :: r) = match py_int0_unsigned r with Some z => Some (- z) | None => None end.
Proof. reflexivity. Qed.

Lemma py_int0_fmt_nat n k : 0 <= n < 10 ^ Z.of_nat k -> (1 <= k)%nat -> Z.of_nat k <= 4300 ->
  py_int0_unsigned (fmt_nat 10 n) = Some n /\ py_int0 (fmt_nat 10 n) = Some n.
Proof.
  intros Hn Hk Hk'.
  destruct (fmt_nat_roundtrip_lem 10 n) as (_ & Hz & Hp); [lia | lia |].
  destruct (Z.eq_dec n 0) as [->|Hnz].
  - rewrite (Hz eq_refl). split; reflexivity.
  - destruct Hp as (c & t & Hf & Hc); [lia|].
    pose proof (fmt_nat_chars 10 n) as Hch. pose proof (fmt_nat_length 10 n k) as Hlen.
    pose proof (digits_value_fmt_nat 10 n) as Hv.
    rewrite Hf in *.
    assert (Hc45 : c <> 45).
    { specialize (Hch ltac:(lia) ltac:(lia)). inversion Hch; subst. lia. }
    rewrite py_int0_not_minus by exact Hc45. rewrite py_int0_unsigned_nz by exact Hc.
    specialize (Hlen ltac:(lia) Hn Hk). unfold max_str_digits.
    replace (Z.of_nat (length (c :: t)) >? 4300) with false by lia.
    rewrite Hv by lia. split; reflexivity.
Qed.

(* int(str(z), 0) = z for every decimal numeral of at most 4300 digits *)
Lemma py_int0_str_dec_gen z k : Z.abs z < 10 ^ Z.of_nat k -> (1 <= k)%nat -> Z.of_nat k <= 4300 ->
  py_int0 (str_dec z) = Some z.
Proof.
  intros Hz Hk Hk'. unfold str_dec, fmt_int. destruct (z <? 0) eqn:E.
  - rewrite py_int0_minus.
    destruct (py_int0_fmt_nat (- z) k) as [-> _]; [lia | exact Hk | exact Hk' |].
    f_equal; lia.
  - destruct (py_int0_fmt_nat z k) as [_ ->]; [lia | exact Hk | exact Hk' | reflexivity].
Qed.

Lemma py_int0_str_dec_4300 z : Z.abs z < 10 ^ 4300 -> py_int0 (str_dec z) = Some z.
Proof.
  intros Hz. apply (py_int0_str_dec_gen z 4300).
  - replace (Z.of_nat 4300) with 4300 by (vm_compute; reflexivity). exact Hz.
  - apply Nat.leb_le. vm_compute. reflexivity.
  - apply Z.leb_le. vm_compute. reflexivity.
Qed.

Lemma py_int0_str_dec z : Z.abs z <= 2 ^ 40 -> py_int0 (str_dec z) = Some z.
Proof.
  intros Hz. apply (py_int0_str_dec_gen z 13).
  - change (10 ^ Z.of_nat 13) with 10000000000000. change (2 ^ 40) with 1099511627776 in Hz. lia.
  - lia.
  - lia.
Qed.

Lemma digits_value_str_dec r : 0 <= r -> digits_value 10 (str_dec r) = r.
Proof.
  intros Hr. unfold str_dec, fmt_int. replace (r <? 0) with false by lia.
  apply digits_value_fmt_nat; lia.
Qed.

(* int(hex(c), 0) = c *)
Lemma py_int0_py_hex c : 0 <= c -> py_int0 (py_hex c) = Some c.
Proof.
  intros Hc. unfold py_hex. replace (c <? 0) with false by lia.
  change (py_int0 (48 :: 120 :: map lower_hex (fmt_nat 16 c)))
    with (Some (digits_value 16 (map lower_hex (fmt_nat 16 c)))).
  rewrite digits_value_lower, digits_value_fmt_nat by lia. reflexivity.
Qed.

(** * A.2 sign extension of in-range values *)
Lemma sext12_small v : -2048 <= v < 2048 -> sext12 v = v.
Proof.
  intros H. destruct (sext_all v) as (-> & _). unfold sextn; cbv zeta.
  change (2 ^ 12) with 4096. change (2 ^ (12 - 1)) with 2048. destruct (_ <? _) eqn:E; lia.
Qed.
Lemma sext13_small v : -4096 <= v < 4096 -> sext13 v = v.
Proof.
  intros H. destruct (sext_all v) as (_ & -> & _). unfold sextn; cbv zeta.
  change (2 ^ 13) with 8192. change (2 ^ (13 - 1)) with 4096. destruct (_ <? _) eqn:E; lia.
Qed.
Lemma sext20_small v : -524288 <= v < 524288 -> sext20 v = v.
Proof.
  intros H. destruct (sext_all v) as (_ & _ & -> & _). unfold sextn; cbv zeta.
  change (2 ^ 20) with 1048576. change (2 ^ (20 - 1)) with 524288. destruct (_ <? _) eqn:E; lia.
Qed.
Lemma sext21_small v : -1048576 <= v < 1048576 -> sext21 v = v.
Proof.
  intros H. destruct (sext_all v) as (_ & _ & _ & ->). unfold sextn; cbv zeta.
  change (2 ^ 21) with 2097152. change (2 ^ (21 - 1)) with 1048576. destruct (_ <? _) eqn:E; lia.
Qed.
Lemma land31_small v : 0 <= v < 32 -> Z.land v 31 = v.
Proof.
  intros H. change 31 with (Z.ones 5). rewrite Z.land_ones by lia. change (2 ^ 5) with 32. lia.
Qed.

(** * A.3 [instantiate_one], class by class *)

Ltac decide_cmp :=
  repeat match goal with
  | |- context [?x <=? ?y] =>
      first [replace (x <=? y) with true by lia | replace (x <=? y) with false by lia]
  | |- context [?x =? ?y] =>
      first [replace (x =? y) with true by lia | replace (x =? y) with false by lia]
  end.

Ltac open_inst :=
  unfold instantiate_one, in_instruction_map; cbv zeta; decide_cmp;
  cbn [negb andb orb]; try reflexivity.

Lemma inst_outside i lb a ln : k_mn i < 0 \/ 53 < k_mn i ->
  instantiate_one i lb a ln = PErr (PSyntax ln).
Proof.
  intros H. unfold instantiate_one, in_instruction_map; cbv zeta.
  destruct H as [H|H].
  - replace (0 <=? k_mn i) with false by lia. reflexivity.
  - replace (k_mn i <=? 53) with false by lia. rewrite andb_false_r. reflexivity.
Qed.

Lemma inst_R i lb a ln : 0 <= k_mn i <= 17 ->
  instantiate_one i lb a ln =
  pbind (need_reg (k_rs1 i) ln) (fun rs1 => pbind (need_reg (k_rs2 i) ln) (fun rs2 =>
  pbind (need_reg (k_rd i) ln) (fun rd => POk (mk (IR (rop_of_mn (k_mn i)) rd rs1 rs2))))).
Proof. intros H. open_inst. Qed.

Lemma inst_I i lb a ln : 18 <= k_mn i <= 23 ->
  instantiate_one i lb a ln =
  pbind (need_int (k_imm i) ln) (fun imm => pbind (need_reg (k_reg2 i) ln) (fun rs1 =>
  pbind (need_reg (k_reg1 i) ln) (fun rd => POk (mk (II (iop_of_mn (k_mn i)) rd rs1 imm))))).
Proof. intros H. open_inst. Qed.

Lemma inst_Sh i lb a ln : 24 <= k_mn i <= 26 ->
  instantiate_one i lb a ln =
  pbind (need_int (k_imm i) ln) (fun imm => pbind (need_reg (k_reg2 i) ln) (fun rs1 =>
  pbind (need_reg (k_reg1 i) ln) (fun rd => POk (mk (ISh (shop_of_mn (k_mn i)) rd rs1 imm))))).
Proof. intros H. open_inst. Qed.

Lemma inst_Load i lb a ln : 27 <= k_mn i <= 31 ->
  instantiate_one i lb a ln =
  pbind (need_int (k_imm i) ln) (fun imm => pbind (need_reg (k_reg2 i) ln) (fun rs1 =>
  pbind (need_reg (k_reg1 i) ln) (fun rd => POk (mk (ILoad (lop_of_mn (k_mn i)) rd rs1 imm))))).
Proof. intros H. open_inst. Qed.

Lemma inst_Jalr i lb a ln : k_mn i = 32 ->
  instantiate_one i lb a ln =
  pbind (need_int (k_imm i) ln) (fun imm => pbind (need_reg (k_reg2 i) ln) (fun rs1 =>
  pbind (need_reg (k_reg1 i) ln) (fun rd => POk (mk (IJalr rd rs1 imm))))).
Proof. intros H. open_inst. Qed.

(* the mnemonics "ecall"/"ebreak" inside a token record (the tokenizer returns them as plain
   strings instead, [BStr 0]/[BStr 1]) *)
Lemma inst_Sys i lb a ln : k_mn i = 33 \/ k_mn i = 46 ->
  instantiate_one i lb a ln =
  pbind (need_int (k_imm i) ln) (fun imm => pbind (need_reg (k_reg2 i) ln) (fun rs1 =>
  pbind (need_reg (k_reg1 i) ln) (fun rd => POk (if k_mn i =? 33 then IEcall else IEbreak)))).
Proof. intros [H|H]; open_inst. Qed.

Lemma inst_Store i lb a ln : 34 <= k_mn i <= 36 ->
  instantiate_one i lb a ln =
  pbind (need_reg (k_reg2 i) ln) (fun rs1 => pbind (need_reg (k_reg1 i) ln) (fun rs2 =>
  pbind (need_int (k_imm i) ln) (fun imm => POk (mk (IStore (sop_of_mn (k_mn i)) rs1 rs2 imm))))).
Proof. intros H. open_inst. Qed.

Lemma inst_Branch i lb a ln : 37 <= k_mn i <= 42 ->
  instantiate_one i lb a ln =
  pbind (label_or_imm i lb a ln) (fun imm =>
  pbind (need_reg (k_reg1 i) ln) (fun rs1 => pbind (need_reg (k_reg2 i) ln) (fun rs2 =>
    POk (mk (IBranch (bop_of_mn (k_mn i)) rs1 rs2 imm))))).
Proof. intros H. open_inst. Qed.

Lemma inst_U i lb a ln : 43 <= k_mn i <= 44 ->
  instantiate_one i lb a ln =
  pbind (need_reg (k_rd i) ln) (fun rd => pbind (need_int (k_imm i) ln) (fun imm =>
    POk (mk (if k_mn i =? 43 then ILui rd imm else IAuipc rd imm)))).
Proof. intros H. open_inst. Qed.

Lemma inst_Jal i lb a ln : k_mn i = 45 ->
  instantiate_one i lb a ln =
  pbind (label_or_imm i lb a ln) (fun v =>
    let imm := match k_imm i with Some _ => v - a | None => v end in
    pbind (need_reg (k_rd i) ln) (fun rd => POk (mk (IJal rd imm (imm + a))))).
Proof. intros H. open_inst. Qed.

Lemma inst_Fence i lb a ln : k_mn i = 47 -> instantiate_one i lb a ln = POk IFence.
Proof. intros H. open_inst. Qed.

Lemma inst_Csr i lb a ln : 48 <= k_mn i <= 50 ->
  instantiate_one i lb a ln =
  pbind (need_reg (k_rd i) ln) (fun rd => pbind (need_int (k_csr i) ln) (fun csr =>
  pbind (need_reg (k_rs1 i) ln) (fun rs1 => POk (ICsr (csrop_of_mn (k_mn i)) rd csr rs1)))).
Proof. intros H. open_inst. Qed.

Lemma inst_Csri i lb a ln : 51 <= k_mn i <= 53 ->
  instantiate_one i lb a ln =
  pbind (need_reg (k_rd i) ln) (fun rd => pbind (need_int (k_csr i) ln) (fun csr =>
  pbind (need_int (k_uimm i) ln) (fun u => POk (mk (ICsri (csriop_of_mn (k_mn i)) rd csr u))))).
Proof. intros H. open_inst. Qed.

(* the thirteen cases cover every mnemonic number *)
Lemma mn_cases (m : Z) :
  (m < 0 \/ 53 < m) \/ 0 <= m <= 17 \/ 18 <= m <= 23 \/ 24 <= m <= 26 \/ 27 <= m <= 31 \/ m = 32 \/
  (m = 33 \/ m = 46) \/ 34 <= m <= 36 \/ 37 <= m <= 42 \/ 43 <= m <= 44 \/ m = 45 \/ m = 47 \/
  48 <= m <= 50 \/ 51 <= m <= 53.
Proof. lia. Qed.

(** * A.4 [pbind] and the field readers *)
Lemma pbind_ok {A B} (r : pres A) (f : A -> pres B) b :
  pbind r f = POk b -> exists a, r = POk a /\ f a = POk b.
Proof. destruct r as [a|e]; cbn [pbind]; [intros H; exists a; split; [reflexivity | exact H] | discriminate]. Qed.

Lemma pbind_err {A B} (r : pres A) (f : A -> pres B) e :
  pbind r f = PErr e -> r = PErr e \/ exists a, r = POk a /\ f a = PErr e.
Proof.
  destruct r as [a|e']; cbn [pbind]; intros H.
  - right. exists a. split; [reflexivity | exact H].
  - left. injection H as <-. reflexivity.
Qed.

Lemma need_reg_ok r ln n : need_reg r ln = POk n -> exists t, r = Some t /\ reg_num t = Some n.
Proof.
  unfold need_reg. destruct r as [t|]; [|discriminate]. destruct (reg_num t) as [m|] eqn:E; [|discriminate].
  intros H; injection H as <-. exists t. split; [reflexivity | exact E].
Qed.
Lemma need_reg_some t ln n : reg_num t = Some n -> need_reg (Some t) ln = POk n.
Proof. intros H. unfold need_reg. rewrite H. reflexivity. Qed.
Lemma need_reg_err r ln e : need_reg r ln = PErr e ->
  e = PUncaught ln /\ (r = None \/ exists t, r = Some t /\ reg_num t = None).
Proof.
  unfold need_reg. destruct r as [t|].
  - destruct (reg_num t) eqn:E; [discriminate|]. intros H; injection H as <-.
    split; [reflexivity | right; exists t; split; [reflexivity | exact E]].
  - intros H; injection H as <-. split; [reflexivity | left; reflexivity].
Qed.

Lemma need_int_ok s ln z : need_int s ln = POk z -> exists t, s = Some t /\ py_int0 t = Some z.
Proof.
  unfold need_int. destruct s as [t|]; [|discriminate]. destruct (py_int0 t) as [m|] eqn:E; [|discriminate].
  intros H; injection H as <-. exists t. split; [reflexivity | exact E].
Qed.
Lemma need_int_some t ln z : py_int0 t = Some z -> need_int (Some t) ln = POk z.
Proof. intros H. unfold need_int. rewrite H. reflexivity. Qed.
Lemma need_int_err s ln e : need_int s ln = PErr e ->
  (e = PUncaught ln /\ s = None) \/ (e = PSyntax ln /\ exists t, s = Some t /\ py_int0 t = None).
Proof.
  unfold need_int. destruct s as [t|].
  - destruct (py_int0 t) eqn:E; [discriminate|]. intros H; injection H as <-.
    right. split; [reflexivity | exists t; split; [reflexivity | exact E]].
  - intros H; injection H as <-. left. split; reflexivity.
Qed.
