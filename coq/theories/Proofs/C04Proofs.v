(* C04Proofs.v — property C04: the RISC-V assembler after tokenisation (Model/Asm.v).
   Part A (shared with C14Proofs.v and C15Proofs.v): literals, one characterisation lemma of
   [instantiate_one] per instruction class, inversion of [pbind].
   Part B: the vocabulary of Props/C04.v and the proofs of its theorems. *)
From Coq Require Import Lia ZifyBool.
From ArchSim Require Import Model.Base Model.Mem Model.Cache Model.Fmt Model.RV Model.Toy Model.Asm
  Spec.RV32IM Spec.Numerals Proofs.WordLemmas Proofs.MapLemmas Proofs.C01Extra Proofs.C17Proofs
  Proofs.C19Proofs.
Open Scope Z_scope.

Ltac Zify.zify_post_hook ::= Z.to_euclidean_division_equations.
Local Arguments Z.mul : simpl never.
Local Arguments Z.add : simpl never.
Local Arguments Z.sub : simpl never.
Local Arguments Z.pow : simpl never.
Local Arguments Z.div : simpl never.
Local Arguments Z.modulo : simpl never.
Local Arguments Z.land : simpl never.
Local Arguments Z.shiftl : simpl never.
Local Arguments Z.shiftr : simpl never.
Local Arguments Z.of_nat : simpl never.

(** * A.1 Literals *)

Lemma hexval_digit_val c d : digit_val c = Some d -> hexval c = d.
Proof.
  unfold digit_val, hexval.
  destruct ((48 <=? c) && (c <=? 57)); [intros H; injection H as <-; reflexivity|].
  destruct ((65 <=? c) && (c <=? 70)); [intros H; injection H as <-; reflexivity | discriminate].
Qed.

Lemma horner_fold base s : forall acc v, horner base acc s = Some v ->
  fold_left (fun a c => a * base + hexval c) s acc = v.
Proof.
  induction s as [|c t IH]; intros acc v H; cbn [horner fold_left] in *.
  - injection H as <-. reflexivity.
  - destruct (digit_val c) as [d|] eqn:Ed; [|discriminate].
    destruct (d <? base); [|discriminate].
    rewrite (hexval_digit_val _ _ Ed). apply IH. exact H.
Qed.

Lemma digits_value_fmt_nat base z : 2 <= base <= 16 -> 0 <= z ->
  digits_value base (fmt_nat base z) = z.
Proof.
  intros Hb Hz. destruct (fmt_nat_roundtrip_lem base z Hb Hz) as [H _].
  rewrite of_digits_horner in H by apply fmt_nat_nonempty.
  unfold digits_value. apply horner_fold. exact H.
Qed.

Lemma hexval_lower c : hexval (lower_hex c) = hexval c.
Proof.
  unfold lower_hex, hexval.
  destruct ((65 <=? c) && (c <=? 70)) eqn:E; [|rewrite E; reflexivity].
  replace ((48 <=? c + 32) && (c + 32 <=? 57)) with false by lia.
  replace ((65 <=? c + 32) && (c + 32 <=? 70)) with false by lia.
  replace ((48 <=? c) && (c <=? 57)) with false by lia. lia.
Qed.

Lemma digits_value_lower base s : digits_value base (map lower_hex s) = digits_value base s.
Proof.
  unfold digits_value. generalize 0. induction s as [|c t IH]; intros acc; cbn [map fold_left].
  - reflexivity.
  - rewrite hexval_lower. apply IH.
Qed.

(* the leading character decides the branch of [py_int0_unsigned] / [py_int0] *)
Lemma py_int0_unsigned_nz c t : c <> 48 ->
  py_int0_unsigned (c :: t) =
  if Z.of_nat (length (c :: t)) >? max_str_digits then None else Some (digits_value 10 (c :: t)).
Proof.
  intros Hc. destruct c as [|p|p]; try reflexivity.
  do 6 (destruct p as [p|p|]; try reflexivity).
  exfalso; apply Hc; reflexivity.
Qed.

Lemma py_int0_not_minus c t : c <> 45 -> py_int0 (c :: t) = py_int0_unsigned (c :: t).
Proof.
  intros Hc. destruct c as [|p|p]; try reflexivity.
  do 6 (destruct p as [p|p|]; try reflexivity).
  exfalso; apply Hc; reflexivity.
Qed.

Lemma py_int0_minus r :
  py_int0 (45 :: r) = match py_int0_unsigned r with Some z => Some (- z) | None => None end.
Proof. reflexivity. Qed.

Lemma py_int0_fmt_nat n k : 0 <= n < 10 ^ Z.of_nat k -> (1 <= k)%nat -> Z.of_nat k <= 4300 ->
  py_int0_unsigned (fmt_nat 10 n) = Some n /\ py_int0 (fmt_nat 10 n) = Some n.
Proof.
  intros Hn Hk Hk'.
  destruct (fmt_nat_roundtrip_lem 10 n) as (_ & Hz & Hp); [lia | lia |].
  destruct (Z.eq_dec n 0) as [->|Hnz].
  - rewrite (Hz eq_refl). split; reflexivity.
  - destruct Hp as (c & t & Hf & Hc); [lia|].
    pose proof (fmt_nat_chars 10 n) as Hch. pose proof (fmt_nat_length 10 n k) as Hlen.
    pose proof (digits_value_fmt_nat 10 n) as Hv.
    rewrite Hf in *.
    assert (Hc45 : c <> 45).
    { specialize (Hch ltac:(lia) ltac:(lia)). inversion Hch; subst. lia. }
    rewrite py_int0_not_minus by exact Hc45. rewrite py_int0_unsigned_nz by exact Hc.
    specialize (Hlen ltac:(lia) Hn Hk). unfold max_str_digits.
    replace (Z.of_nat (length (c :: t)) >? 4300) with false by lia.
    rewrite Hv by lia. split; reflexivity.
Qed.

(* int(str(z), 0) = z for every decimal numeral of at most 4300 digits *)
Lemma py_int0_str_dec_gen z k : Z.abs z < 10 ^ Z.of_nat k -> (1 <= k)%nat -> Z.of_nat k <= 4300 ->
  py_int0 (str_dec z) = Some z.
Proof.
  intros Hz Hk Hk'. unfold str_dec, fmt_int. destruct (z <? 0) eqn:E.
  - rewrite py_int0_minus.
    destruct (py_int0_fmt_nat (- z) k) as [-> _]; [lia | exact Hk | exact Hk' |].
    f_equal; lia.
  - destruct (py_int0_fmt_nat z k) as [_ ->]; [lia | exact Hk | exact Hk' | reflexivity].
Qed.

Lemma py_int0_str_dec_4300 z : Z.abs z < 10 ^ 4300 -> py_int0 (str_dec z) = Some z.
Proof.
  intros Hz. apply (py_int0_str_dec_gen z 4300).
  - replace (Z.of_nat 4300) with 4300 by (vm_compute; reflexivity). exact Hz.
  - apply Nat.leb_le. vm_compute. reflexivity.
  - apply Z.leb_le. vm_compute. reflexivity.
Qed.

Lemma py_int0_str_dec z : Z.abs z <= 2 ^ 40 -> py_int0 (str_dec z) = Some z.
Proof.
  intros Hz. apply (py_int0_str_dec_gen z 13).
  - change (10 ^ Z.of_nat 13) with 10000000000000. change (2 ^ 40) with 1099511627776 in Hz. lia.
  - lia.
  - lia.
Qed.

Lemma digits_value_str_dec r : 0 <= r -> digits_value 10 (str_dec r) = r.
Proof.
  intros Hr. unfold str_dec, fmt_int. replace (r <? 0) with false by lia.
  apply digits_value_fmt_nat; lia.
Qed.

(* int(hex(c), 0) = c *)
Lemma py_int0_py_hex c : 0 <= c -> py_int0 (py_hex c) = Some c.
Proof.
  intros Hc. unfold py_hex. replace (c <? 0) with false by lia.
  change (py_int0 (48 :: 120 :: map lower_hex (fmt_nat 16 c)))
    with (Some (digits_value 16 (map lower_hex (fmt_nat 16 c)))).
  rewrite digits_value_lower, digits_value_fmt_nat by lia. reflexivity.
Qed.

(** * A.2 sign extension of in-range values *)
Lemma sext12_small v : -2048 <= v < 2048 -> sext12 v = v.
Proof.
  intros H. destruct (sext_all v) as (-> & _). unfold sextn; cbv zeta.
  change (2 ^ 12) with 4096. change (2 ^ (12 - 1)) with 2048. destruct (_ <? _) eqn:E; lia.
Qed.
Lemma sext13_small v : -4096 <= v < 4096 -> sext13 v = v.
Proof.
  intros H. destruct (sext_all v) as (_ & -> & _). unfold sextn; cbv zeta.
  change (2 ^ 13) with 8192. change (2 ^ (13 - 1)) with 4096. destruct (_ <? _) eqn:E; lia.
Qed.
Lemma sext20_small v : -524288 <= v < 524288 -> sext20 v = v.
Proof.
  intros H. destruct (sext_all v) as (_ & _ & -> & _). unfold sextn; cbv zeta.
  change (2 ^ 20) with 1048576. change (2 ^ (20 - 1)) with 524288. destruct (_ <? _) eqn:E; lia.
Qed.
Lemma sext21_small v : -1048576 <= v < 1048576 -> sext21 v = v.
Proof.
  intros H. destruct (sext_all v) as (_ & _ & _ & ->). unfold sextn; cbv zeta.
  change (2 ^ 21) with 2097152. change (2 ^ (21 - 1)) with 1048576. destruct (_ <? _) eqn:E; lia.
Qed.
Lemma land31_small v : 0 <= v < 32 -> Z.land v 31 = v.
Proof.
  intros H. change 31 with (Z.ones 5). rewrite Z.land_ones by lia. change (2 ^ 5) with 32. lia.
Qed.

(** * A.3 [instantiate_one], class by class *)

Ltac decide_cmp :=
  repeat match goal with
  | |- context [?x <=? ?y] =>
      first [replace (x <=? y) with true by lia | replace (x <=? y) with false by lia]
  | |- context [?x =? ?y] =>
      first [replace (x =? y) with true by lia | replace (x =? y) with false by lia]
  end.

Ltac open_inst :=
  unfold instantiate_one, in_instruction_map; cbv zeta; decide_cmp;
  cbn [negb andb orb]; try reflexivity.

Lemma inst_outside i lb a ln : k_mn i < 0 \/ 53 < k_mn i ->
  instantiate_one i lb a ln = PErr (PSyntax ln).
Proof.
  intros H. unfold instantiate_one, in_instruction_map; cbv zeta.
  destruct H as [H|H].
  - replace (0 <=? k_mn i) with false by lia. reflexivity.
  - replace (k_mn i <=? 53) with false by lia. rewrite andb_false_r. reflexivity.
Qed.

Lemma inst_R i lb a ln : 0 <= k_mn i <= 17 ->
  instantiate_one i lb a ln =
  pbind (need_reg (k_rs1 i) ln) (fun rs1 => pbind (need_reg (k_rs2 i) ln) (fun rs2 =>
  pbind (need_reg (k_rd i) ln) (fun rd => POk (mk (IR (rop_of_mn (k_mn i)) rd rs1 rs2))))).
Proof. intros H. open_inst. Qed.

Lemma inst_I i lb a ln : 18 <= k_mn i <= 23 ->
  instantiate_one i lb a ln =
  pbind (need_int (k_imm i) ln) (fun imm => pbind (need_reg (k_reg2 i) ln) (fun rs1 =>
  pbind (need_reg (k_reg1 i) ln) (fun rd => POk (mk (II (iop_of_mn (k_mn i)) rd rs1 imm))))).
Proof. intros H. open_inst. Qed.

Lemma inst_Sh i lb a ln : 24 <= k_mn i <= 26 ->
  instantiate_one i lb a ln =
  pbind (need_int (k_imm i) ln) (fun imm => pbind (need_reg (k_reg2 i) ln) (fun rs1 =>
  pbind (need_reg (k_reg1 i) ln) (fun rd => POk (mk (ISh (shop_of_mn (k_mn i)) rd rs1 imm))))).
Proof. intros H. open_inst. Qed.

Lemma inst_Load i lb a ln : 27 <= k_mn i <= 31 ->
  instantiate_one i lb a ln =
  pbind (need_int (k_imm i) ln) (fun imm => pbind (need_reg (k_reg2 i) ln) (fun rs1 =>
  pbind (need_reg (k_reg1 i) ln) (fun rd => POk (mk (ILoad (lop_of_mn (k_mn i)) rd rs1 imm))))).
Proof. intros H. open_inst. Qed.

Lemma inst_Jalr i lb a ln : k_mn i = 32 ->
  instantiate_one i lb a ln =
  pbind (need_int (k_imm i) ln) (fun imm => pbind (need_reg (k_reg2 i) ln) (fun rs1 =>
  pbind (need_reg (k_reg1 i) ln) (fun rd => POk (mk (IJalr rd rs1 imm))))).
Proof. intros H. open_inst. Qed.

(* the mnemonics "ecall"/"ebreak" inside a token record (the tokenizer returns them as plain
   strings instead, [BStr 0]/[BStr 1]) *)
Lemma inst_Sys i lb a ln : k_mn i = 33 \/ k_mn i = 46 ->
  instantiate_one i lb a ln =
  pbind (need_int (k_imm i) ln) (fun imm => pbind (need_reg (k_reg2 i) ln) (fun rs1 =>
  pbind (need_reg (k_reg1 i) ln) (fun rd => POk (if k_mn i =? 33 then IEcall else IEbreak)))).
Proof. intros [H|H]; open_inst. Qed.

Lemma inst_Store i lb a ln : 34 <= k_mn i <= 36 ->
  instantiate_one i lb a ln =
  pbind (need_reg (k_reg2 i) ln) (fun rs1 => pbind (need_reg (k_reg1 i) ln) (fun rs2 =>
  pbind (need_int (k_imm i) ln) (fun imm => POk (mk (IStore (sop_of_mn (k_mn i)) rs1 rs2 imm))))).
Proof. intros H. open_inst. Qed.

Lemma inst_Branch i lb a ln : 37 <= k_mn i <= 42 ->
  instantiate_one i lb a ln =
  pbind (label_or_imm i lb a ln) (fun imm =>
  pbind (need_reg (k_reg1 i) ln) (fun rs1 => pbind (need_reg (k_reg2 i) ln) (fun rs2 =>
    POk (mk (IBranch (bop_of_mn (k_mn i)) rs1 rs2 imm))))).
Proof. intros H. open_inst. Qed.

Lemma inst_U i lb a ln : 43 <= k_mn i <= 44 ->
  instantiate_one i lb a ln =
  pbind (need_reg (k_rd i) ln) (fun rd => pbind (need_int (k_imm i) ln) (fun imm =>
    POk (mk (if k_mn i =? 43 then ILui rd imm else IAuipc rd imm)))).
Proof. intros H. open_inst. Qed.

Lemma inst_Jal i lb a ln : k_mn i = 45 ->
  instantiate_one i lb a ln =
  pbind (label_or_imm i lb a ln) (fun v =>
    let imm := match k_imm i with Some _ => v - a | None => v end in
    pbind (need_reg (k_rd i) ln) (fun rd => POk (mk (IJal rd imm (imm + a))))).
Proof. intros H. open_inst. Qed.

Lemma inst_Fence i lb a ln : k_mn i = 47 -> instantiate_one i lb a ln = POk IFence.
Proof. intros H. open_inst. Qed.

Lemma inst_Csr i lb a ln : 48 <= k_mn i <= 50 ->
  instantiate_one i lb a ln =
  pbind (need_reg (k_rd i) ln) (fun rd => pbind (need_int (k_csr i) ln) (fun csr =>
  pbind (need_reg (k_rs1 i) ln) (fun rs1 => POk (ICsr (csrop_of_mn (k_mn i)) rd csr rs1)))).
Proof. intros H. open_inst. Qed.

Lemma inst_Csri i lb a ln : 51 <= k_mn i <= 53 ->
  instantiate_one i lb a ln =
  pbind (need_reg (k_rd i) ln) (fun rd => pbind (need_int (k_csr i) ln) (fun csr =>
  pbind (need_int (k_uimm i) ln) (fun u => POk (mk (ICsri (csriop_of_mn (k_mn i)) rd csr u))))).
Proof. intros H. open_inst. Qed.

(* the thirteen cases cover every mnemonic number *)
Lemma mn_cases (m : Z) :
  (m < 0 \/ 53 < m) \/ 0 <= m <= 17 \/ 18 <= m <= 23 \/ 24 <= m <= 26 \/ 27 <= m <= 31 \/ m = 32 \/
  (m = 33 \/ m = 46) \/ 34 <= m <= 36 \/ 37 <= m <= 42 \/ 43 <= m <= 44 \/ m = 45 \/ m = 47 \/
  48 <= m <= 50 \/ 51 <= m <= 53.
Proof. lia. Qed.

(** * A.4 [pbind] and the field readers *)
Lemma pbind_ok {A B} (r : pres A) (f : A -> pres B) b :
  pbind r f = POk b -> exists a, r = POk a /\ f a = POk b.
Proof. destruct r as [a|e]; cbn [pbind]; [intros H; exists a; split; [reflexivity | exact H] | discriminate]. Qed.

Lemma pbind_err {A B} (r : pres A) (f : A -> pres B) e :
  pbind r f = PErr e -> r = PErr e \/ exists a, r = POk a /\ f a = PErr e.
Proof.
  destruct r as [a|e']; cbn [pbind]; intros H.
  - right. exists a. split; [reflexivity | exact H].
  - left. injection H as <-. reflexivity.
Qed.

Lemma need_reg_ok r ln n : need_reg r ln = POk n -> exists t, r = Some t /\ reg_num t = Some n.
Proof.
  unfold need_reg. destruct r as [t|]; [|discriminate]. destruct (reg_num t) as [m|] eqn:E; [|discriminate].
  intros H; injection H as <-. exists t. split; [reflexivity | exact E].
Qed.
Lemma need_reg_some t ln n : reg_num t = Some n -> need_reg (Some t) ln = POk n.
Proof. intros H. unfold need_reg. rewrite H. reflexivity. Qed.
Lemma need_reg_err r ln e : need_reg r ln = PErr e ->
  e = PUncaught ln /\ (r = None \/ exists t, r = Some t /\ reg_num t = None).
Proof.
  unfold need_reg. destruct r as [t|].
  - destruct (reg_num t) eqn:E; [discriminate|]. intros H; injection H as <-.
    split; [reflexivity | right; exists t; split; [reflexivity | exact E]].
  - intros H; injection H as <-. split; [reflexivity | left; reflexivity].
Qed.

Lemma need_int_ok s ln z : need_int s ln = POk z -> exists t, s = Some t /\ py_int0 t = Some z.
Proof.
  unfold need_int. destruct s as [t|]; [|discriminate]. destruct (py_int0 t) as [m|] eqn:E; [|discriminate].
  intros H; injection H as <-. exists t. split; [reflexivity | exact E].
Qed.
Lemma need_int_some t ln z : py_int0 t = Some z -> need_int (Some t) ln = POk z.
Proof. intros H. unfold need_int. rewrite H. reflexivity. Qed.
Lemma need_int_err s ln e : need_int s ln = PErr e ->
  (e = PUncaught ln /\ s = None) \/ (e = PSyntax ln /\ exists t, s = Some t /\ py_int0 t = None).
Proof.
  unfold need_int. destruct s as [t|].
  - destruct (py_int0 t) eqn:E; [discriminate|]. intros H; injection H as <-.
    right. split; [reflexivity | exists t; split; [reflexivity | exact E]].
  - intros H; injection H as <-. left. split; reflexivity.
Qed.

(* ------------------------------------------------------------------------------------------ *)
(** * B. Vocabulary of Props/C04.v *)

(* a body that the expansion pass leaves alone: not "nop", not li / mv, and no variable operand
   on a load / store / la (an "la" WITHOUT variable operand stays and is rejected later) *)
Definition plain_body (b : tbody) : Prop :=
  match b with
  | BStr k => k <> 2
  | BIns i => k_mn i <> MN_LI /\ k_mn i <> MN_MV /\
              ((is_load_mn (k_mn i) || (k_mn i =? MN_LA) || is_store_mn (k_mn i)) = true ->
               k_var i = None)
  | BOther => True
  end.
Definition plain_entry (e : Z * tentry) : Prop :=
  match snd e with EBody b => plain_body b | ELabel _ => True end.

(* what one entry of the text contributes to the expanded text *)
Definition entry_expansion (vars : vartab) (e : Z * tentry) (out : list (Z * tentry)) : Prop :=
  match snd e with
  | ELabel _ => out = [e]
  | EBody b => exists bs, expand_one vars (fst e) b = POk bs /\
                          out = map (fun b' => (fst e, EBody b')) bs
  end.

(* number of instruction entries *)
Fixpoint ninsn (l : list (Z * tentry)) : nat :=
  match l with
  | [] => O
  | (_, EBody b) :: t => ((if body_is_instruction b then 1 else 0) + ninsn t)%nat
  | _ :: t => ninsn t
  end.

(* the entries of one source line are adjacent: a line number that occurs again later occurs
   again immediately *)
Fixpoint grouped (text : list (Z * tentry)) : Prop :=
  match text with
  | [] => True
  | (ln, _) :: t =>
      (In ln (map fst t) -> match t with (ln', _) :: _ => ln' = ln | [] => False end) /\ grouped t
  end.

(* entry (ln, e), preceded by the entries pre, declares label [name]: a stand-alone label, or
   the FIRST entry of a source line that carries the in-line label [name] *)
Definition declares (inl : zmap) (pre : list (Z * tentry)) (ln : Z) (e : tentry) (name : Z) : Prop :=
  e = ELabel name \/
  (exists b, e = EBody b /\ mget_opt inl ln = Some name /\ ~ In ln (map fst pre)).

(* a token field that holds a register / an integer literal *)
Definition reg_field (r : option regtok) (n : Z) : Prop := exists t, r = Some t /\ reg_num t = Some n.
Definition int_field (s : option str) (z : Z) : Prop := exists t, s = Some t /\ py_int0 t = Some z.
(* the optional hexadecimal offset of a label operand *)
Definition offset_value (i : itok) (o : Z) : Prop :=
  match k_offset i with Some s => py_int0 s = Some o | None => o = 0 end.

(* ------------------------------------------------------------------------------------------ *)
(** * B.1 Expansion *)

Lemma expand_one_bstr vars ln k : k <> 2 -> expand_one vars ln (BStr k) = POk [BStr k].
Proof.
  intros Hk. destruct k as [|p|p]; try reflexivity.
  do 2 (destruct p as [p|p|]; try reflexivity). exfalso; apply Hk; reflexivity.
Qed.

Lemma expand_one_plain_id vars ln b : plain_body b -> expand_one vars ln b = POk [b].
Proof.
  destruct b as [k|i|]; cbn [plain_body].
  - apply expand_one_bstr.
  - intros (H1 & H2 & H3). unfold MN_LI, MN_MV, MN_LA in *. unfold expand_one; cbv zeta.
    unfold MN_LI, MN_MV, MN_LA.
    replace (k_mn i =? 54) with false by lia. replace (k_mn i =? 56) with false by lia.
    destruct (is_load_mn (k_mn i) || (k_mn i =? 55)) eqn:E1.
    + rewrite H3 by reflexivity. reflexivity.
    + destruct (is_store_mn (k_mn i)) eqn:E2; [|reflexivity].
      rewrite H3 by reflexivity. reflexivity.
  - intros _. reflexivity.
Qed.

Lemma plain_tok_rri mn r1 r2 s : mn <> 54 -> mn <> 56 -> plain_body (BIns (tok_rri mn r1 r2 s)).
Proof. intros H1 H2. cbn [plain_body tok_rri k_mn k_var]. unfold MN_LI, MN_MV. repeat split; assumption. Qed.
Lemma plain_tok_u mn r s : mn <> 54 -> mn <> 56 -> plain_body (BIns (tok_u mn r s)).
Proof. intros H1 H2. cbn [plain_body tok_u k_mn k_var]. unfold MN_LI, MN_MV. repeat split; assumption. Qed.

Lemma is_load_mn_range m : is_load_mn m = true -> 27 <= m <= 32.
Proof. unfold is_load_mn. lia. Qed.
Lemma is_store_mn_range m : is_store_mn m = true -> 34 <= m <= 36.
Proof. unfold is_store_mn. lia. Qed.

Definition len123 (n : nat) : Prop := n = 1%nat \/ n = 2%nat \/ n = 3%nat.

Lemma expand_one_out vars ln b bs : expand_one vars ln b = POk bs ->
  Forall plain_body bs /\ len123 (length bs).
Proof.
  unfold len123. destruct b as [k|i|].
  - destruct (Z.eq_dec k 2) as [->|Hk].
    + cbn [expand_one]. intros H; injection H as <-. split; [|left; reflexivity].
      constructor; [|constructor]. apply plain_tok_rri; unfold MN_ADDI; lia.
    + rewrite expand_one_bstr by exact Hk. intros H; injection H as <-.
      split; [|left; reflexivity]. constructor; [exact Hk | constructor].
  - unfold expand_one; cbv zeta. unfold MN_LI, MN_MV, MN_LA, MN_LUI, MN_ADDI.
    destruct (k_mn i =? 54) eqn:Eli.
    { destruct (k_rd i) as [rd|]; [|discriminate]. destruct (k_imm i) as [s|]; [|discriminate].
      destruct (py_int0 s) as [imm|]; [|discriminate]. destruct (hi_lo imm) as [hi lo].
      destruct ((imm >? 2047) || (imm <? -2048)); intros H; injection H as <-.
      - split; [|right; left; reflexivity].
        repeat constructor; try (apply plain_tok_u; lia); try (apply plain_tok_rri; lia).
      - split; [|left; reflexivity]. repeat constructor; apply plain_tok_rri; lia. }
    destruct (is_load_mn (k_mn i) || (k_mn i =? 55)) eqn:E1.
    { destruct (k_var i) as [v|] eqn:Ev.
      - destruct (var_address vars v ln) as [av|]; [|discriminate].
        destruct (k_reg1 i) as [r|]; [|discriminate]. destruct (hi_lo av) as [hi lo].
        destruct (is_load_mn (k_mn i)) eqn:El; intros H; injection H as <-.
        + apply is_load_mn_range in El. split; [|right; right; reflexivity].
          cbn [app]. repeat constructor; try (apply plain_tok_u; lia); try (apply plain_tok_rri; lia).
        + split; [|right; left; reflexivity].
          repeat constructor; try (apply plain_tok_u; lia); try (apply plain_tok_rri; lia).
      - intros H; injection H as <-. split; [|left; reflexivity]. constructor; [|constructor].
        cbn [plain_body]. unfold MN_LI, MN_MV, MN_LA. split; [lia|]. split; [|intros _; exact Ev].
        assert (27 <= k_mn i <= 32 \/ k_mn i = 55) by (unfold is_load_mn in E1; lia). lia. }
    destruct (is_store_mn (k_mn i)) eqn:E2.
    { pose proof (is_store_mn_range _ E2) as Hr. destruct (k_var i) as [v|] eqn:Ev.
      - destruct (var_address vars v ln) as [av|]; [|discriminate].
        destruct (k_reg1 i) as [r|]; [|discriminate]. destruct (k_reg2 i) as [rt|]; [|discriminate].
        destruct (hi_lo av) as [hi lo]. intros H; injection H as <-.
        split; [|right; right; reflexivity].
        repeat constructor; try (apply plain_tok_u; lia); try (apply plain_tok_rri; lia).
      - intros H; injection H as <-. split; [|left; reflexivity]. constructor; [|constructor].
        cbn [plain_body]. unfold MN_LI, MN_MV, MN_LA. split; [lia|]. split; [lia|intros _; exact Ev]. }
    destruct (k_mn i =? 56) eqn:Emv.
    { destruct (k_rd i) as [rd|]; [|discriminate]. destruct (k_rs i) as [rs|]; [|discriminate].
      intros H; injection H as <-. split; [|left; reflexivity].
      repeat constructor; apply plain_tok_rri; lia. }
    intros H; injection H as <-. split; [|left; reflexivity]. constructor; [|constructor].
    cbn [plain_body]. unfold MN_LI, MN_MV, MN_LA. split; [lia|]. split; [lia|].
    intros Hc. rewrite E1, E2 in Hc. discriminate Hc.
  - cbn [expand_one]. intros H; injection H as <-. split; [|left; reflexivity].
    constructor; [exact Logic.I | constructor].
Qed.

(* the line number only appears inside error values *)
Lemma var_address_ln vars v ln ln' a : var_address vars v ln = POk a -> var_address vars v ln' = POk a.
Proof.
  unfold var_address. destruct (var_lookup vars (fst v)) as [[a0 sz]|]; [|discriminate].
  destruct (snd v) as [d|]; [|exact (fun H => H)].
  destruct (py_int10 d); [exact (fun H => H) | discriminate].
Qed.

Lemma expand_one_ln vars ln ln' b bs : expand_one vars ln b = POk bs -> expand_one vars ln' b = POk bs.
Proof.
  destruct b as [k|i|]; [exact (fun H => H) | | exact (fun H => H)].
  unfold expand_one; cbv zeta.
  destruct (k_mn i =? MN_LI).
  { destruct (k_rd i); [|discriminate]. destruct (k_imm i) as [s|]; [|discriminate].
    destruct (py_int0 s); [exact (fun H => H) | discriminate]. }
  destruct (is_load_mn (k_mn i) || (k_mn i =? MN_LA)).
  { destruct (k_var i) as [v|]; [|exact (fun H => H)].
    destruct (var_address vars v ln) as [av|] eqn:Ea; [|discriminate].
    rewrite (var_address_ln _ _ _ ln' _ Ea). destruct (k_reg1 i); [exact (fun H => H) | discriminate]. }
  destruct (is_store_mn (k_mn i)).
  { destruct (k_var i) as [v|]; [|exact (fun H => H)].
    destruct (var_address vars v ln) as [av|] eqn:Ea; [|discriminate].
    rewrite (var_address_ln _ _ _ ln' _ Ea).
    destruct (k_reg1 i); [|discriminate]. destruct (k_reg2 i); [exact (fun H => H) | discriminate]. }
  destruct (k_mn i =? MN_MV); [|exact (fun H => H)].
  destruct (k_rd i); [|discriminate]. destruct (k_rs i); [exact (fun H => H) | discriminate].
Qed.

Lemma expand_all_local vars text : forall text', expand_all vars text = POk text' ->
  exists outs, Forall2 (entry_expansion vars) text outs /\ text' = concat outs.
Proof.
  induction text as [|[ln e] t IH]; intros text' H; cbn [expand_all] in H.
  - injection H as <-. exists []. split; [constructor | reflexivity].
  - destruct e as [n|b].
    + destruct (expand_all vars t) as [r|] eqn:Er; [|discriminate]. injection H as <-.
      destruct (IH r eq_refl) as (outs & HF & ->).
      exists ([(ln, ELabel n)] :: outs). split; [|reflexivity].
      constructor; [reflexivity | exact HF].
    + destruct (expand_one vars ln b) as [bs|] eqn:Eb; [|discriminate].
      destruct (expand_all vars t) as [r|] eqn:Er; [|discriminate]. injection H as <-.
      destruct (IH r eq_refl) as (outs & HF & ->).
      exists (map (fun b' => (ln, EBody b')) bs :: outs). split; [|reflexivity].
      constructor; [|exact HF]. unfold entry_expansion; cbn [fst snd]. exists bs. split; [exact Eb | reflexivity].
Qed.

Lemma expand_all_local_conv vars text : forall outs, Forall2 (entry_expansion vars) text outs ->
  expand_all vars text = POk (concat outs).
Proof.
  induction text as [|[ln e] t IH]; intros outs HF; inversion HF as [|x y l l' Hxy Hl]; subst.
  - reflexivity.
  - cbn [expand_all concat]. rewrite (IH _ Hl). unfold entry_expansion in Hxy; cbn [fst snd] in Hxy.
    destruct e as [n|b].
    + subst y. reflexivity.
    + destruct Hxy as (bs & -> & ->). reflexivity.
Qed.

Lemma expand_all_plain_id vars text : Forall plain_entry text -> expand_all vars text = POk text.
Proof.
  induction 1 as [|[ln e] t He Ht IH]; [reflexivity|]. cbn [expand_all]. rewrite IH.
  destruct e as [n|b]; [reflexivity|]. unfold plain_entry in He; cbn [snd] in He.
  rewrite (expand_one_plain_id vars ln b He). reflexivity.
Qed.

Lemma expand_all_plain vars text : forall text', expand_all vars text = POk text' -> Forall plain_entry text'.
Proof.
  induction text as [|[ln e] t IH]; intros text' H; cbn [expand_all] in H.
  - injection H as <-. constructor.
  - destruct e as [n|b].
    + destruct (expand_all vars t) as [r|] eqn:Er; [|discriminate]. injection H as <-.
      constructor; [exact Logic.I | apply IH; reflexivity].
    + destruct (expand_one vars ln b) as [bs|] eqn:Eb; [|discriminate].
      destruct (expand_all vars t) as [r|] eqn:Er; [|discriminate]. injection H as <-.
      apply Forall_app. split; [|apply IH; reflexivity].
      destruct (expand_one_out _ _ _ _ Eb) as [Hp _].
      apply Forall_forall. intros x Hx. apply in_map_iff in Hx as (b' & <- & Hb').
      rewrite Forall_forall in Hp. exact (Hp b' Hb').
Qed.

Lemma expand_all_lines vars text : forall text', expand_all vars text = POk text' ->
  forall ln, In ln (map fst text') -> In ln (map fst text).
Proof.
  induction text as [|[l e] t IH]; intros text' H ln Hin; cbn [expand_all] in H.
  - injection H as <-. exact Hin.
  - destruct e as [n|b].
    + destruct (expand_all vars t) as [r|] eqn:Er; [|discriminate]. injection H as <-.
      cbn [map fst In] in *. destruct Hin as [Hin|Hin]; [left; exact Hin | right; eapply IH; eauto].
    + destruct (expand_one vars l b) as [bs|] eqn:Eb; [|discriminate].
      destruct (expand_all vars t) as [r|] eqn:Er; [|discriminate]. injection H as <-.
      rewrite map_app, in_app_iff in Hin. cbn [map fst In]. destruct Hin as [Hin|Hin].
      * left. rewrite map_map in Hin. cbn [fst] in Hin. apply in_map_iff in Hin as (x & Hx & _). exact Hx.
      * right. eapply IH; eauto.
Qed.

Lemma grouped_block {A} (f : A -> tentry) ln (bs : list A) r :
  grouped r -> ~ In ln (map fst r) -> grouped (map (fun x => (ln, f x)) bs ++ r).
Proof.
  intros Hr Hn. induction bs as [|b bs IH]; [exact Hr|].
  cbn [map app grouped]. split; [|exact IH].
  intros Hin. destruct bs as [|b' bs']; cbn [map app] in *.
  - exfalso. exact (Hn Hin).
  - reflexivity.
Qed.

Lemma expand_all_grouped vars text : forall text', NoDup (map fst text) ->
  expand_all vars text = POk text' -> grouped text'.
Proof.
  induction text as [|[l e] t IH]; intros text' Hnd H; cbn [expand_all] in H.
  - injection H as <-. exact Logic.I.
  - cbn [map fst] in Hnd. inversion Hnd as [|x y Hx Hy]; subst.
    destruct e as [n|b].
    + destruct (expand_all vars t) as [r|] eqn:Er; [|discriminate]. injection H as <-.
      apply (grouped_block (fun _ : unit => ELabel n) l [tt] r).
      * apply IH; [exact Hy | reflexivity].
      * intros Hin. apply Hx. eapply expand_all_lines; eauto.
    + destruct (expand_one vars l b) as [bs|] eqn:Eb; [|discriminate].
      destruct (expand_all vars t) as [r|] eqn:Er; [|discriminate]. injection H as <-.
      apply (grouped_block EBody l bs r).
      * apply IH; [exact Hy | reflexivity].
      * intros Hin. apply Hx. eapply expand_all_lines; eauto.
Qed.

(* the three statements of Props/C04.v *)
Lemma expand_local_lem : forall vars text text', expand_all vars text = POk text' ->
  (exists outs, Forall2 (entry_expansion vars) text outs /\ text' = concat outs) /\
  Forall plain_entry text' /\
  (forall vars', expand_all vars' text' = POk text') /\
  (forall ln, In ln (map fst text') -> In ln (map fst text)) /\
  (NoDup (map fst text) -> grouped text').
Proof.
  intros vars text text' H. split; [apply expand_all_local; exact H|].
  pose proof (expand_all_plain _ _ _ H) as Hp. split; [exact Hp|].
  split; [intros vars'; apply expand_all_plain_id; exact Hp|].
  split; [apply (expand_all_lines _ _ _ H)|]. intros Hnd. eapply expand_all_grouped; eauto.
Qed.

Lemma expand_one_facts_lem : forall vars ln b bs, expand_one vars ln b = POk bs ->
  (forall ln', expand_one vars ln' b = POk bs) /\
  Forall plain_body bs /\
  (forall vars' ln' b', In b' bs -> expand_one vars' ln' b' = POk [b']) /\
  (length bs = 1 \/ length bs = 2 \/ length bs = 3)%nat.
Proof.
  intros vars ln b bs H. destruct (expand_one_out _ _ _ _ H) as [Hp Hl].
  split; [intros ln'; eapply expand_one_ln; exact H|]. split; [exact Hp|]. split; [|exact Hl].
  intros vars' ln' b' Hb. apply expand_one_plain_id. rewrite Forall_forall in Hp. apply Hp, Hb.
Qed.

(* ------------------------------------------------------------------------------------------ *)
(** * B.2 Labels *)

Lemma ninsn_app a b : ninsn (a ++ b) = (ninsn a + ninsn b)%nat.
Proof.
  induction a as [|[ln e] t IH]; cbn [app ninsn]; [reflexivity|].
  destruct e as [n|bd]; [exact IH | rewrite IH; lia].
Qed.

(* line number of the entry before the current one *)
Fixpoint prev_ln (last : option Z) (pre : list (Z * tentry)) : option Z :=
  match pre with [] => last | (l, _) :: t => prev_ln (Some l) t end.
Definition is_first (last : option Z) (ln : Z) : bool :=
  match last with Some l => negb (l =? ln) | None => true end.

(* the declarations (name, address, line) in the order [rv_labels] meets them *)
Fixpoint decls (text : list (Z * tentry)) (inl : zmap) (addr : Z) (last : option Z)
  : list (Z * Z * Z) :=
  match text with
  | [] => []
  | (ln, ELabel name) :: t => (name, addr, ln) :: decls t inl addr (Some ln)
  | (ln, EBody b) :: t =>
      let rest := decls t inl (if body_is_instruction b then addr + 4 else addr) (Some ln) in
      match mget_opt inl ln with
      | Some name => if is_first last ln then (name, addr, ln) :: rest else rest
      | None => rest
      end
  end.

Fixpoint add_all (lb : zmap) (ds : list (Z * Z * Z)) : pres zmap :=
  match ds with
  | [] => POk lb
  | (n, a, ln) :: t =>
      match add_label lb n a ln with POk lb' => add_all lb' t | PErr e => PErr e end
  end.

Lemma rv_labels_decls text inl : forall addr lb last,
  rv_labels text inl addr lb last = add_all lb (decls text inl addr last).
Proof.
  induction text as [|[ln e] t IH]; intros addr lb last; cbn [rv_labels decls]; [reflexivity|].
  destruct e as [n|b].
  - cbn [add_all]. destruct (add_label lb n addr ln); [apply IH | reflexivity].
  - cbv zeta. fold (is_first last ln).
    destruct (mget_opt inl ln) as [name|]; [|apply IH].
    destruct (is_first last ln); [|apply IH].
    cbn [add_all]. destruct (add_label lb name addr ln); [apply IH | reflexivity].
Qed.

Lemma decls_app pre : forall rest inl addr last,
  decls (pre ++ rest) inl addr last =
  decls pre inl addr last ++ decls rest inl (addr + 4 * Z.of_nat (ninsn pre)) (prev_ln last pre).
Proof.
  induction pre as [|[ln e] t IH]; intros rest inl addr last; cbn [app decls ninsn prev_ln].
  - f_equal. lia.
  - destruct e as [n|b].
    + rewrite IH. reflexivity.
    + cbv zeta. rewrite IH.
      replace (addr + 4 * Z.of_nat ((if body_is_instruction b then 1 else 0) + ninsn t))
        with ((if body_is_instruction b then addr + 4 else addr) + 4 * Z.of_nat (ninsn t))
        by (destruct (body_is_instruction b); lia).
      destruct (mget_opt inl ln); [|reflexivity]. destruct (is_first last ln); reflexivity.
Qed.

Lemma prev_ln_in pre : forall last l, prev_ln last pre = Some l -> last = Some l \/ In l (map fst pre).
Proof.
  induction pre as [|[k e] t IH]; intros last l H; cbn [prev_ln] in H.
  - left; exact H.
  - right. cbn [map fst In]. destruct (IH _ _ H) as [Hs|Hin]; [left; congruence | right; exact Hin].
Qed.

Lemma is_first_true last ln : is_first last ln = true <-> last <> Some ln.
Proof.
  unfold is_first. destruct last as [l|].
  - split; [intros H Hc; injection Hc as ->; rewrite Z.eqb_refl in H; discriminate H|].
    intros H. destruct (l =? ln) eqn:E; [|reflexivity]. apply Z.eqb_eq in E. subst. congruence.
  - split; [discriminate | reflexivity].
Qed.

(* every declaration comes from an entry *)
Lemma decls_in text inl : forall addr last n a ln, In (n, a, ln) (decls text inl addr last) ->
  exists pre e post, text = pre ++ (ln, e) :: post /\ a = addr + 4 * Z.of_nat (ninsn pre) /\
    (e = ELabel n \/
     exists b, e = EBody b /\ mget_opt inl ln = Some n /\ prev_ln last pre <> Some ln).
Proof.
  induction text as [|[l e] t IH]; intros addr last n a ln H; cbn [decls] in H; [destruct H|].
  assert (Shift: forall addr', In (n, a, ln) (decls t inl addr' (Some l)) ->
            addr' = addr + 4 * Z.of_nat (ninsn [(l, e)]) ->
            exists pre e0 post, (l, e) :: t = pre ++ (ln, e0) :: post /\
              a = addr + 4 * Z.of_nat (ninsn pre) /\
              (e0 = ELabel n \/
               exists b, e0 = EBody b /\ mget_opt inl ln = Some n /\ prev_ln last pre <> Some ln)).
  { intros addr' Hin Ha. destruct (IH _ _ _ _ _ Hin) as (pre & e0 & post & -> & -> & Hd).
    exists ((l, e) :: pre), e0, post. split; [reflexivity|]. split.
    - change ((l, e) :: pre) with ([(l, e)] ++ pre). rewrite ninsn_app. lia.
    - exact Hd. }
  assert (Here: forall nm, (nm, addr, l) = (n, a, ln) ->
            (e = ELabel nm \/ exists b, e = EBody b /\ mget_opt inl l = Some nm /\ last <> Some l) ->
            exists pre e0 post, (l, e) :: t = pre ++ (ln, e0) :: post /\
              a = addr + 4 * Z.of_nat (ninsn pre) /\
              (e0 = ELabel n \/
               exists b, e0 = EBody b /\ mget_opt inl ln = Some n /\ prev_ln last pre <> Some ln)).
  { intros nm Heq Hd. injection Heq as -> -> ->. exists [], e, t. split; [reflexivity|].
    split; [cbn [ninsn]; lia | exact Hd]. }
  destruct e as [nm|b].
  - destruct H as [H|H].
    + apply (Here nm H). left; reflexivity.
    + apply (Shift addr H). cbn [ninsn]. lia.
  - cbv zeta in H.
    assert (Hs: In (n, a, ln) (decls t inl (if body_is_instruction b then addr + 4 else addr) (Some l)) ->
              exists pre e0 post, (l, EBody b) :: t = pre ++ (ln, e0) :: post /\
              a = addr + 4 * Z.of_nat (ninsn pre) /\
              (e0 = ELabel n \/
               exists b0, e0 = EBody b0 /\ mget_opt inl ln = Some n /\ prev_ln last pre <> Some ln)).
    { intros Hin. apply (Shift _ Hin). cbn [ninsn]. destruct (body_is_instruction b); lia. }
    destruct (mget_opt inl l) as [nm|] eqn:Einl; [|exact (Hs H)].
    destruct (is_first last l) eqn:Ef; [|exact (Hs H)].
    destruct H as [H|H]; [|exact (Hs H)].
    apply (Here nm H). right. exists b. split; [reflexivity|]. split; [first [exact Einl | reflexivity]|].
    apply is_first_true. exact Ef.
Qed.

(* [add_all] *)
Lemma add_all_ok ds : forall lb labels, add_all lb ds = POk labels ->
  lbl_ext lb labels /\
  (forall n a ln, In (n, a, ln) ds -> mget_opt labels n = Some a) /\
  (forall n a, mget_opt labels n = Some a -> mget_opt lb n = Some a \/ exists ln, In (n, a, ln) ds).
Proof.
  induction ds as [|[[n a] ln] t IH]; intros lb labels H; cbn [add_all] in H.
  - injection H as <-. split; [apply lbl_ext_refl|]. split; [intros n a ln []|].
    intros n a Hm. left; exact Hm.
  - destruct (add_label lb n a ln) as [lb'|] eqn:Ea; [|discriminate].
    destruct (add_label_ok _ _ _ _ _ Ea) as [-> Hnone].
    destruct (lbl_ext_add lb n a Hnone) as [Hext Hget].
    destruct (IH _ _ H) as (Hext' & Hin & Hback).
    split; [eapply lbl_ext_trans; eassumption|]. split.
    + intros n' a' ln' [Heq|Hi]; [|eapply Hin; exact Hi].
      injection Heq as <- <- <-. apply Hext'. exact Hget.
    + intros n' a' Hm. destruct (Hback _ _ Hm) as [Hl|[ln' Hl]].
      * rewrite mget_opt_app in Hl. destruct (mget_opt lb n') eqn:El; [left; exact Hl|].
        destruct (n =? n') eqn:En; [|discriminate]. apply Z.eqb_eq in En. injection Hl as <-. subst n'.
        right. exists ln. left. reflexivity.
      * right. exists ln'. right. exact Hl.
Qed.

Lemma add_all_err ds : forall lb e, add_all lb ds = PErr e ->
  exists n a ln, In (n, a, ln) ds /\ e = PDupLabel ln.
Proof.
  induction ds as [|[[n a] ln] t IH]; intros lb e H; cbn [add_all] in H; [discriminate|].
  destruct (add_label lb n a ln) as [lb'|e'] eqn:Ea.
  - destruct (IH _ _ H) as (n' & a' & ln' & Hin & He). exists n', a', ln'. split; [right; exact Hin | exact He].
  - injection H as <-. apply add_label_err in Ea. exists n, a, ln. split; [left; reflexivity | exact Ea].
Qed.

Lemma add_all_app A : forall lb B,
  add_all lb (A ++ B) = match add_all lb A with POk lb' => add_all lb' B | PErr e => PErr e end.
Proof.
  induction A as [|[[n a] ln] t IH]; intros lb B; cbn [app add_all]; [reflexivity|].
  destruct (add_label lb n a ln); [apply IH | reflexivity].
Qed.

Lemma add_all_present ds : forall lb n v a ln, mget_opt lb n = Some v -> In (n, a, ln) ds ->
  exists e, add_all lb ds = PErr e.
Proof.
  induction ds as [|[[n' a'] ln'] t IH]; intros lb n v a ln Hm Hin; [destruct Hin|].
  cbn [add_all]. destruct (add_label lb n' a' ln') as [lb'|e] eqn:Ea; [|exists e; reflexivity].
  destruct (add_label_ok _ _ _ _ _ Ea) as [-> Hnone].
  destruct Hin as [Heq|Hin].
  - injection Heq as -> -> ->. rewrite Hm in Hnone. discriminate Hnone.
  - apply (IH _ n v a ln); [|exact Hin]. apply (proj1 (lbl_ext_add lb n' a' Hnone)). exact Hm.
Qed.

Lemma add_all_dup D1 n a1 l1 D2 a2 l2 lb : In (n, a2, l2) D2 ->
  exists e, add_all lb (D1 ++ (n, a1, l1) :: D2) = PErr e.
Proof.
  intros Hin. rewrite add_all_app. destruct (add_all lb D1) as [lb1|e]; [|exists e; reflexivity].
  cbn [add_all]. destruct (add_label lb1 n a1 l1) as [lb2|e] eqn:Ea; [|exists e; reflexivity].
  destruct (add_label_ok _ _ _ _ _ Ea) as [-> Hnone].
  apply (add_all_present D2 _ n a1 a2 l2); [|exact Hin].
  apply (proj2 (lbl_ext_add lb1 n a1 Hnone)).
Qed.

(* under [grouped], "the previous entry is of another line" means "first entry of its line" *)
Lemma grouped_first pre : forall last ln e post,
  grouped (pre ++ (ln, e) :: post) -> prev_ln last pre <> Some ln -> ~ In ln (map fst pre).
Proof.
  induction pre as [|[l0 e0] t IH]; intros last ln e post Hg Hp Hin; [destruct Hin|].
  cbn [app grouped] in Hg. destruct Hg as [Hnext Hg]. cbn [prev_ln] in Hp.
  pose proof (IH (Some l0) ln e post Hg Hp) as Hnot.
  cbn [map fst In] in Hin. destruct Hin as [->|Hin]; [|exact (Hnot Hin)].
  assert (Hocc: In ln (map fst (t ++ (ln, e) :: post))).
  { rewrite map_app, in_app_iff. right. left. reflexivity. }
  specialize (Hnext Hocc). destruct t as [|[l1 e1] t'].
  - cbn [prev_ln] in Hp. apply Hp. reflexivity.
  - cbn [app] in Hnext. subst l1. apply Hnot. left. reflexivity.
Qed.

Lemma declares_prev inl pre ln e name : declares inl pre ln e name ->
  e = ELabel name \/ exists b, e = EBody b /\ mget_opt inl ln = Some name /\ prev_ln None pre <> Some ln.
Proof.
  intros [H|(b & H1 & H2 & H3)]; [left; exact H|]. right. exists b. split; [exact H1|]. split; [exact H2|].
  intros Hp. destruct (prev_ln_in _ _ _ Hp) as [Hc|Hc]; [discriminate Hc | exact (H3 Hc)].
Qed.

(* the declaration an entry contributes *)
Lemma decls_here inl ln e post name addr last :
  (e = ELabel name \/ exists b, e = EBody b /\ mget_opt inl ln = Some name /\ last <> Some ln) ->
  exists rest, decls ((ln, e) :: post) inl addr last = (name, addr, ln) :: rest.
Proof.
  intros [->|(b & -> & Hm & Hl)]; cbn [decls].
  - eexists. reflexivity.
  - cbv zeta. rewrite Hm. rewrite (proj2 (is_first_true last ln) Hl). eexists. reflexivity.
Qed.

Lemma decls_cons_decl inl ln e post name addr last :
  (e = ELabel name \/ exists b, e = EBody b /\ mget_opt inl ln = Some name /\ last <> Some ln) ->
  decls ((ln, e) :: post) inl addr last =
  (name, addr, ln) :: decls post inl (addr + 4 * Z.of_nat (ninsn [(ln, e)])) (Some ln).
Proof.
  intros [->|(b & -> & Hm & Hl)]; cbn [decls ninsn].
  - replace (addr + 4 * Z.of_nat 0) with addr by lia. reflexivity.
  - cbv zeta. rewrite Hm. rewrite (proj2 (is_first_true last ln) Hl).
    replace (addr + 4 * Z.of_nat ((if body_is_instruction b then 1 else 0) + 0))
      with (if body_is_instruction b then addr + 4 else addr)
      by (destruct (body_is_instruction b); lia).
    reflexivity.
Qed.

Lemma prev_ln_app last pre l e post : prev_ln last (pre ++ (l, e) :: post) = prev_ln (Some l) post.
Proof.
  revert last. induction pre as [|[l0 e0] t IH]; intros last; cbn [app prev_ln]; [reflexivity | apply IH].
Qed.

Lemma label_denotes_next_lem : forall text inl labels,
  rv_labels text inl 0 [] None = POk labels ->
  (forall pre ln e post name, text = pre ++ (ln, e) :: post -> declares inl pre ln e name ->
     mget_opt labels name = Some (4 * Z.of_nat (ninsn pre))) /\
  (grouped text -> forall name a, mget_opt labels name = Some a ->
     exists pre ln e post, text = pre ++ (ln, e) :: post /\ declares inl pre ln e name /\
                           a = 4 * Z.of_nat (ninsn pre)).
Proof.
  intros text inl labels H. rewrite rv_labels_decls in H.
  destruct (add_all_ok _ _ _ H) as (_ & Hin & Hback). split.
  - intros pre ln e post name -> Hd. apply declares_prev in Hd.
    destruct (decls_here inl ln e post name (0 + 4 * Z.of_nat (ninsn pre)) (prev_ln None pre) Hd)
      as (rest & Hr).
    apply (Hin name _ ln). rewrite decls_app, Hr. apply in_or_app. right. left.
    apply f_equal2; [apply f_equal2; [reflexivity | lia] | reflexivity].
  - intros Hg name a Hm. destruct (Hback _ _ Hm) as [Hc|[ln Hd]]; [discriminate Hc|].
    destruct (decls_in _ _ _ _ _ _ _ Hd) as (pre & e & post & -> & -> & Hcase).
    exists pre, ln, e, post. split; [reflexivity|]. split; [|lia].
    destruct Hcase as [->|(b & -> & Hi & Hp)]; [left; reflexivity|].
    right. exists b. split; [reflexivity|]. split; [exact Hi|].
    eapply grouped_first; eassumption.
Qed.

Lemma label_errors_lem : forall text inl e, rv_labels text inl 0 [] None = PErr e ->
  exists ln, e = PDupLabel ln /\ In ln (map fst text).
Proof.
  intros text inl e H. rewrite rv_labels_decls in H.
  destruct (add_all_err _ _ _ H) as (n & a & ln & Hin & ->). exists ln. split; [reflexivity|].
  destruct (decls_in _ _ _ _ _ _ _ Hin) as (pre & e0 & post & -> & _).
  rewrite map_app, in_app_iff. right. left. reflexivity.
Qed.

Lemma label_duplicates_lem : forall text inl pre ln1 e1 mid ln2 e2 post name,
  text = pre ++ (ln1, e1) :: mid ++ (ln2, e2) :: post ->
  declares inl pre ln1 e1 name -> declares inl (pre ++ (ln1, e1) :: mid) ln2 e2 name ->
  exists ln, rv_labels text inl 0 [] None = PErr (PDupLabel ln) /\ In ln (map fst text).
Proof.
  intros text inl pre ln1 e1 mid ln2 e2 post name -> H1 H2.
  assert (He: exists e, rv_labels (pre ++ (ln1, e1) :: mid ++ (ln2, e2) :: post) inl 0 [] None = PErr e).
  { rewrite rv_labels_decls. apply declares_prev in H1. apply declares_prev in H2.
    rewrite decls_app. rewrite (decls_cons_decl inl ln1 e1 _ name _ _ H1).
    eapply add_all_dup. rewrite decls_app. apply in_or_app. right.
    rewrite (prev_ln_app None pre ln1 e1 mid) in H2.
    rewrite (decls_cons_decl inl ln2 e2 _ name _ _ H2). left. reflexivity. }
  destruct He as [e He]. destruct (label_errors_lem _ _ _ He) as (ln & -> & Hin).
  exists ln. split; [exact He | exact Hin].
Qed.

(* corollaries in the words of the property *)
Lemma label_cases_lem : forall text inl labels, rv_labels text inl 0 [] None = POk labels ->
  (* a stand-alone label *)
  (forall pre ln name post, text = pre ++ (ln, ELabel name) :: post ->
     mget_opt labels name = Some (4 * Z.of_nat (ninsn pre))) /\
  (* an in-line label: the first entry of its source line, whatever the line expands to *)
  (forall pre ln b post name, text = pre ++ (ln, EBody b) :: post -> ~ In ln (map fst pre) ->
     mget_opt inl ln = Some name -> mget_opt labels name = Some (4 * Z.of_nat (ninsn pre))) /\
  (* a label at the end of the program *)
  (forall pre ln name, text = pre ++ [(ln, ELabel name)] ->
     mget_opt labels name = Some (4 * Z.of_nat (ninsn text))).
Proof.
  intros text inl labels H. destruct (label_denotes_next_lem _ _ _ H) as [HA _].
  split; [|split].
  - intros pre ln name post Ht. apply (HA pre ln _ post name Ht). left; reflexivity.
  - intros pre ln b post name Ht Hn Hm. apply (HA pre ln _ post name Ht). right.
    exists b. split; [reflexivity|]. split; assumption.
  - intros pre ln name Ht.
    replace (ninsn text) with (ninsn pre)
      by (rewrite Ht, ninsn_app; cbn [ninsn]; lia).
    apply (HA pre ln _ [] name Ht). left; reflexivity.
Qed.

(* ------------------------------------------------------------------------------------------ *)
(** * B.3 Addresses of the instantiated instructions *)

Lemma inst_ok_in_map i lb a ln x : instantiate_one i lb a ln = POk x -> in_instruction_map (k_mn i) = true.
Proof.
  unfold instantiate_one; cbv zeta. destruct (in_instruction_map (k_mn i)); [reflexivity | discriminate].
Qed.

Lemma instantiate_app pre : forall rest labels addr ins,
  instantiate (pre ++ rest) labels addr = POk ins ->
  exists i1 i2, instantiate pre labels addr = POk i1 /\
                instantiate rest labels (addr + 4 * Z.of_nat (ninsn pre)) = POk i2 /\
                ins = i1 ++ i2 /\ length i1 = ninsn pre.
Proof.
  induction pre as [|[ln e] t IH]; intros rest labels addr ins H; cbn [app] in H.
  - exists [], ins. cbn [ninsn instantiate]. replace (addr + 4 * Z.of_nat 0) with addr by lia.
    repeat split; [exact H].
  - cbn [instantiate] in H. cbn [instantiate ninsn].
    assert (Step: forall x r, instantiate (t ++ rest) labels (addr + 4) = POk r -> ins = x :: r ->
              forall f, (forall q, f q = POk (x :: q)) ->
              forall n, (n = 1 + ninsn t)%nat ->
              exists i1 i2, pbind (instantiate t labels (addr + 4)) f = POk i1 /\
                instantiate rest labels (addr + 4 * Z.of_nat n) = POk i2 /\
                ins = i1 ++ i2 /\ length i1 = n).
    { intros x r Hr -> f Hf n ->. destruct (IH _ _ _ _ Hr) as (i1 & i2 & H1 & H2 & -> & Hl).
      exists (x :: i1), i2. rewrite H1. cbn [pbind]. rewrite Hf.
      replace (addr + 4 * Z.of_nat (1 + ninsn t)) with (addr + 4 + 4 * Z.of_nat (ninsn t)) by lia.
      repeat split; [exact H2 | cbn [length]; lia]. }
    destruct e as [n|[k|i|]].
    + apply IH. exact H.
    + cbn [body_is_instruction]. destruct (k =? 0) eqn:E0.
      * apply pbind_ok in H as (r & Hr & Hx). injection Hx as <-.
        apply (Step IEcall r Hr eq_refl); [intros q; reflexivity | reflexivity].
      * destruct (k =? 1) eqn:E1.
        -- apply pbind_ok in H as (r & Hr & Hx). injection Hx as <-.
           apply (Step IEbreak r Hr eq_refl); [intros q; reflexivity | reflexivity].
        -- cbn [orb]. apply IH. exact H.
    + apply pbind_ok in H as (x & Hx & H). apply pbind_ok in H as (r & Hr & Hq). injection Hq as <-.
      rewrite Hx. cbn [pbind body_is_instruction]. rewrite (inst_ok_in_map _ _ _ _ _ Hx).
      apply (Step x r Hr eq_refl); [intros q; reflexivity | reflexivity].
    + discriminate H.
Qed.

Lemma instantiate_addresses_lem : forall text labels ins, instantiate text labels 0 = POk ins ->
  length ins = ninsn text /\
  (forall pre ln i post, text = pre ++ (ln, EBody (BIns i)) :: post ->
     exists x, instantiate_one i labels (4 * Z.of_nat (ninsn pre)) ln = POk x /\
               nth_error ins (ninsn pre) = Some x) /\
  (forall pre ln k post, text = pre ++ (ln, EBody (BStr k)) :: post -> (k = 0 \/ k = 1) ->
     nth_error ins (ninsn pre) = Some (if k =? 0 then IEcall else IEbreak)).
Proof.
  intros text labels ins H. split; [|split].
  - rewrite <- (app_nil_r text) in H. destruct (instantiate_app _ _ _ _ _ H) as (i1 & i2 & _ & H2 & -> & Hl).
    cbn [instantiate] in H2. injection H2 as <-. rewrite app_nil_r. exact Hl.
  - intros pre ln i post ->. destruct (instantiate_app _ _ _ _ _ H) as (i1 & i2 & _ & H2 & -> & Hl).
    cbn [instantiate] in H2. apply pbind_ok in H2 as (x & Hx & H2).
    apply pbind_ok in H2 as (r & _ & Hq). injection Hq as <-.
    exists x. split; [exact Hx|]. rewrite nth_error_app2 by lia. rewrite Hl, Nat.sub_diag. reflexivity.
  - intros pre ln k post -> Hk. destruct (instantiate_app _ _ _ _ _ H) as (i1 & i2 & _ & H2 & -> & Hl).
    rewrite nth_error_app2 by lia. rewrite Hl, Nat.sub_diag.
    cbn [instantiate] in H2. destruct Hk as [->| ->]; cbn [Z.eqb Pos.eqb] in *;
      apply pbind_ok in H2 as (r & _ & Hq); injection Hq as <-; reflexivity.
Qed.

(* ------------------------------------------------------------------------------------------ *)
(** * B.4 Branch and jump targets *)

Lemma need_reg_of_field r n ln : reg_field r n -> need_reg r ln = POk n.
Proof. intros (t & -> & H). apply need_reg_some. exact H. Qed.
Lemma need_int_of_field s z ln : int_field s z -> need_int s ln = POk z.
Proof. intros (t & -> & H). apply need_int_some. exact H. Qed.

Lemma label_or_imm_label i lb a ln l t o : k_imm i = None -> k_label i = Some l ->
  offset_value i o -> mget_opt lb l = Some t -> label_or_imm i lb a ln = POk (t + o - a).
Proof.
  intros Hi Hl Ho Hm. unfold label_or_imm, offset_value in *. rewrite Hi, Hl.
  destruct (k_offset i) as [s|].
  - rewrite (need_int_some _ _ _ Ho). cbn [pbind]. rewrite Hm. reflexivity.
  - subst o. cbn [pbind]. rewrite Hm. reflexivity.
Qed.

Lemma label_or_imm_unknown i lb a ln o : k_imm i = None -> offset_value i o ->
  (k_label i = None \/ exists l, k_label i = Some l /\ mget_opt lb l = None) ->
  label_or_imm i lb a ln = PErr (PLabel ln).
Proof.
  intros Hi Ho Hl. unfold label_or_imm, offset_value in *. rewrite Hi.
  assert (Hb: (match k_offset i with Some o0 => need_int (Some o0) ln | None => POk 0 end) = POk o).
  { destruct (k_offset i) as [s|]; [apply need_int_some; exact Ho | subst o; reflexivity]. }
  rewrite Hb. cbn [pbind]. destruct Hl as [->|(l & -> & ->)]; reflexivity.
Qed.

Lemma label_or_imm_num i lb a ln s v : k_imm i = Some s -> py_int0 s = Some v ->
  label_or_imm i lb a ln = if v mod 2 =? 0 then POk v else PErr (POdd ln).
Proof.
  intros Hi Hv. unfold label_or_imm. rewrite Hi. rewrite (need_int_some _ _ _ Hv). reflexivity.
Qed.

Lemma branch_target_lem : forall i lb a ln, 37 <= k_mn i <= 42 ->
  (forall l t o rs1 rs2, k_imm i = None -> k_label i = Some l -> offset_value i o ->
     mget_opt lb l = Some t -> reg_field (k_reg1 i) rs1 -> reg_field (k_reg2 i) rs2 ->
     instantiate_one i lb a ln = POk (IBranch (bop_of_mn (k_mn i)) rs1 rs2 (sext13 (t + o - a))) /\
     (-4096 <= t + o - a < 4096 -> a + sext13 (t + o - a) = t + o)) /\
  (forall s v rs1 rs2, k_imm i = Some s -> py_int0 s = Some v -> v mod 2 = 0 ->
     reg_field (k_reg1 i) rs1 -> reg_field (k_reg2 i) rs2 ->
     instantiate_one i lb a ln = POk (IBranch (bop_of_mn (k_mn i)) rs1 rs2 (sext13 v)) /\
     (-4096 <= v < 4096 -> sext13 v = v)) /\
  (forall s v, k_imm i = Some s -> py_int0 s = Some v -> v mod 2 <> 0 ->
     instantiate_one i lb a ln = PErr (POdd ln)) /\
  (forall o, k_imm i = None -> offset_value i o ->
     (k_label i = None \/ exists l, k_label i = Some l /\ mget_opt lb l = None) ->
     instantiate_one i lb a ln = PErr (PLabel ln)).
Proof.
  intros i lb a ln Hmn. rewrite (inst_Branch i lb a ln Hmn). split; [|split; [|split]].
  - intros l t o rs1 rs2 Hi Hl Ho Hm H1 H2. split.
    + rewrite (label_or_imm_label i lb a ln l t o Hi Hl Ho Hm). cbn [pbind].
      rewrite (need_reg_of_field _ _ ln H1), (need_reg_of_field _ _ ln H2). reflexivity.
    + intros Hr. rewrite sext13_small by exact Hr. lia.
  - intros s v rs1 rs2 Hi Hv He H1 H2. split; [|apply sext13_small].
    rewrite (label_or_imm_num i lb a ln s v Hi Hv). replace (v mod 2 =? 0) with true by lia.
    cbn [pbind]. rewrite (need_reg_of_field _ _ ln H1), (need_reg_of_field _ _ ln H2). reflexivity.
  - intros s v Hi Hv Ho. rewrite (label_or_imm_num i lb a ln s v Hi Hv).
    replace (v mod 2 =? 0) with false by lia. reflexivity.
  - intros o Hi Ho Hl. rewrite (label_or_imm_unknown i lb a ln o Hi Ho Hl). reflexivity.
Qed.

Lemma jal_target_lem : forall i lb a ln, k_mn i = 45 ->
  (* label (+ offset): pc-relative immediate, printed target = label + offset *)
  (forall l t o rd, k_imm i = None -> k_label i = Some l -> offset_value i o ->
     mget_opt lb l = Some t -> reg_field (k_rd i) rd ->
     instantiate_one i lb a ln = POk (IJal rd (sext21 (t + o - a)) (t + o)) /\
     (-1048576 <= t + o - a < 1048576 -> a + sext21 (t + o - a) = t + o)) /\
  (* number: an ABSOLUTE target *)
  (forall s v rd, k_imm i = Some s -> py_int0 s = Some v -> v mod 2 = 0 -> reg_field (k_rd i) rd ->
     instantiate_one i lb a ln = POk (IJal rd (sext21 (v - a)) v) /\
     (-1048576 <= v - a < 1048576 -> a + sext21 (v - a) = v)) /\
  (forall s v, k_imm i = Some s -> py_int0 s = Some v -> v mod 2 <> 0 ->
     instantiate_one i lb a ln = PErr (POdd ln)) /\
  (forall o, k_imm i = None -> offset_value i o ->
     (k_label i = None \/ exists l, k_label i = Some l /\ mget_opt lb l = None) ->
     instantiate_one i lb a ln = PErr (PLabel ln)).
Proof.
  intros i lb a ln Hmn. rewrite (inst_Jal i lb a ln Hmn). cbv zeta. split; [|split; [|split]].
  - intros l t o rd Hi Hl Ho Hm H1. split.
    + rewrite (label_or_imm_label i lb a ln l t o Hi Hl Ho Hm). cbn [pbind]. rewrite Hi.
      rewrite (need_reg_of_field _ _ ln H1). cbn [pbind mk].
      replace (t + o - a + a) with (t + o) by lia. reflexivity.
    + intros Hr. rewrite sext21_small by exact Hr. lia.
  - intros s v rd Hi Hv He H1. split.
    + rewrite (label_or_imm_num i lb a ln s v Hi Hv). replace (v mod 2 =? 0) with true by lia.
      cbn [pbind]. rewrite Hi. rewrite (need_reg_of_field _ _ ln H1). cbn [pbind mk].
      replace (v - a + a) with v by lia. reflexivity.
    + intros Hr. rewrite sext21_small by exact Hr. lia.
  - intros s v Hi Hv Ho. rewrite (label_or_imm_num i lb a ln s v Hi Hv).
    replace (v mod 2 =? 0) with false by lia. reflexivity.
  - intros o Hi Ho Hl. rewrite (label_or_imm_unknown i lb a ln o Hi Ho Hl). reflexivity.
Qed.

(* ------------------------------------------------------------------------------------------ *)
(** * B.5 Operand mapping, class by class *)

Ltac inv_binds H :=
  repeat (let v := fresh "v" in let E := fresh "E" in
          apply pbind_ok in H; destruct H as (v & E & H)).
Ltac fields :=
  repeat match goal with
  | E : need_reg _ _ = POk _ |- _ => apply need_reg_ok in E
  | E : need_int _ _ = POk _ |- _ => apply need_int_ok in E
  end.
Ltac refold_fields :=
  repeat match goal with
  | H : reg_field _ _ |- _ => rewrite (need_reg_of_field _ _ _ H); clear H
  | H : int_field _ _ |- _ => rewrite (need_int_of_field _ _ _ H); clear H
  end.

Lemma operand_mapping_lem : forall i lb a ln x,
  let mn := k_mn i in
  (0 <= mn <= 17 ->
     (instantiate_one i lb a ln = POk x <->
      exists rd rs1 rs2, reg_field (k_rd i) rd /\ reg_field (k_rs1 i) rs1 /\ reg_field (k_rs2 i) rs2 /\
        x = IR (rop_of_mn mn) rd rs1 rs2)) /\
  (18 <= mn <= 23 ->
     (instantiate_one i lb a ln = POk x <->
      exists rd rs1 v, reg_field (k_reg1 i) rd /\ reg_field (k_reg2 i) rs1 /\ int_field (k_imm i) v /\
        x = II (iop_of_mn mn) rd rs1 (sext12 v))) /\
  (24 <= mn <= 26 ->
     (instantiate_one i lb a ln = POk x <->
      exists rd rs1 v, reg_field (k_reg1 i) rd /\ reg_field (k_reg2 i) rs1 /\ int_field (k_imm i) v /\
        x = ISh (shop_of_mn mn) rd rs1 (Z.land v 31))) /\
  (27 <= mn <= 31 ->
     (instantiate_one i lb a ln = POk x <->
      exists rd rs1 v, reg_field (k_reg1 i) rd /\ reg_field (k_reg2 i) rs1 /\ int_field (k_imm i) v /\
        x = ILoad (lop_of_mn mn) rd rs1 (sext12 v))) /\
  (mn = 32 ->
     (instantiate_one i lb a ln = POk x <->
      exists rd rs1 v, reg_field (k_reg1 i) rd /\ reg_field (k_reg2 i) rs1 /\ int_field (k_imm i) v /\
        x = IJalr rd rs1 (sext12 v))) /\
  (34 <= mn <= 36 ->
     (instantiate_one i lb a ln = POk x <->
      exists rs2 rs1 v, reg_field (k_reg1 i) rs2 /\ reg_field (k_reg2 i) rs1 /\ int_field (k_imm i) v /\
        x = IStore (sop_of_mn mn) rs1 rs2 (sext12 v))) /\
  (37 <= mn <= 42 -> instantiate_one i lb a ln = POk x ->
      exists rs1 rs2 v, reg_field (k_reg1 i) rs1 /\ reg_field (k_reg2 i) rs2 /\
        label_or_imm i lb a ln = POk v /\ x = IBranch (bop_of_mn mn) rs1 rs2 (sext13 v)) /\
  (43 <= mn <= 44 ->
     (instantiate_one i lb a ln = POk x <->
      exists rd v, reg_field (k_rd i) rd /\ int_field (k_imm i) v /\
        x = if mn =? 43 then ILui rd (sext20 v) else IAuipc rd (sext20 v))) /\
  (48 <= mn <= 50 ->
     (instantiate_one i lb a ln = POk x <->
      exists rd csr rs1, reg_field (k_rd i) rd /\ int_field (k_csr i) csr /\ reg_field (k_rs1 i) rs1 /\
        x = ICsr (csrop_of_mn mn) rd csr rs1)) /\
  (51 <= mn <= 53 ->
     (instantiate_one i lb a ln = POk x <->
      exists rd csr u, reg_field (k_rd i) rd /\ int_field (k_csr i) csr /\ int_field (k_uimm i) u /\
        x = ICsri (csriop_of_mn mn) rd csr (Z.land u 31))) /\
  (mn = 47 -> instantiate_one i lb a ln = POk IFence) /\
  (mn < 0 \/ 53 < mn -> instantiate_one i lb a ln = PErr (PSyntax ln)).
Proof.
  intros i lb a ln x mn. unfold mn; clear mn. unfold reg_field, int_field.
  repeat match goal with |- _ /\ _ => split end.
  - intros Hm. rewrite inst_R by exact Hm. split.
    + intros H. inv_binds H. fields. injection H as <-. eauto 10.
    + intros (rd & rs1 & rs2 & H1 & H2 & H3 & ->). fold (reg_field (k_rd i) rd) in H1.
      fold (reg_field (k_rs1 i) rs1) in H2. fold (reg_field (k_rs2 i) rs2) in H3.
      refold_fields. reflexivity.
  - intros Hm. rewrite inst_I by exact Hm. split.
    + intros H. inv_binds H. fields. injection H as <-. eauto 10.
    + intros (rd & rs1 & v & H1 & H2 & H3 & ->). fold (reg_field (k_reg1 i) rd) in H1.
      fold (reg_field (k_reg2 i) rs1) in H2. fold (int_field (k_imm i) v) in H3.
      refold_fields. reflexivity.
  - intros Hm. rewrite inst_Sh by exact Hm. split.
    + intros H. inv_binds H. fields. injection H as <-. eauto 10.
    + intros (rd & rs1 & v & H1 & H2 & H3 & ->). fold (reg_field (k_reg1 i) rd) in H1.
      fold (reg_field (k_reg2 i) rs1) in H2. fold (int_field (k_imm i) v) in H3.
      refold_fields. reflexivity.
  - intros Hm. rewrite inst_Load by exact Hm. split.
    + intros H. inv_binds H. fields. injection H as <-. eauto 10.
    + intros (rd & rs1 & v & H1 & H2 & H3 & ->). fold (reg_field (k_reg1 i) rd) in H1.
      fold (reg_field (k_reg2 i) rs1) in H2. fold (int_field (k_imm i) v) in H3.
      refold_fields. reflexivity.
  - intros Hm. rewrite inst_Jalr by exact Hm. split.
    + intros H. inv_binds H. fields. injection H as <-. eauto 10.
    + intros (rd & rs1 & v & H1 & H2 & H3 & ->). fold (reg_field (k_reg1 i) rd) in H1.
      fold (reg_field (k_reg2 i) rs1) in H2. fold (int_field (k_imm i) v) in H3.
      refold_fields. reflexivity.
  - intros Hm. rewrite inst_Store by exact Hm. split.
    + intros H. inv_binds H. fields. injection H as <-. eauto 10.
    + intros (rs2 & rs1 & v & H1 & H2 & H3 & ->). fold (reg_field (k_reg1 i) rs2) in H1.
      fold (reg_field (k_reg2 i) rs1) in H2. fold (int_field (k_imm i) v) in H3.
      refold_fields. reflexivity.
  - intros Hm. rewrite inst_Branch by exact Hm. intros H. inv_binds H. fields.
    injection H as <-. eauto 10.
  - intros Hm. rewrite inst_U by exact Hm. split.
    + intros H. inv_binds H. fields. injection H as <-. exists v, v0.
      split; [assumption|]. split; [assumption|]. destruct (k_mn i =? 43); reflexivity.
    + intros (rd & v & H1 & H2 & ->). fold (reg_field (k_rd i) rd) in H1.
      fold (int_field (k_imm i) v) in H2. refold_fields. cbn [pbind]. destruct (k_mn i =? 43); reflexivity.
  - intros Hm. rewrite inst_Csr by exact Hm. split.
    + intros H. inv_binds H. fields. injection H as <-. eauto 10.
    + intros (rd & csr & rs1 & H1 & H2 & H3 & ->). fold (reg_field (k_rd i) rd) in H1.
      fold (int_field (k_csr i) csr) in H2. fold (reg_field (k_rs1 i) rs1) in H3.
      refold_fields. reflexivity.
  - intros Hm. rewrite inst_Csri by exact Hm. split.
    + intros H. inv_binds H. fields. injection H as <-. eauto 10.
    + intros (rd & csr & u & H1 & H2 & H3 & ->). fold (reg_field (k_rd i) rd) in H1.
      fold (int_field (k_csr i) csr) in H2. fold (int_field (k_uimm i) u) in H3.
      refold_fields. reflexivity.
  - intros Hm. apply inst_Fence. exact Hm.
  - intros Hm. apply inst_outside. exact Hm.
Qed.

(* ------------------------------------------------------------------------------------------ *)
(** * B.6 Register names *)

Lemma reg_num_x r : 0 <= r -> reg_num (RX (str_dec r)) = Some r.
Proof. intros H. cbn [reg_num]. rewrite digits_value_str_dec by exact H. reflexivity. Qed.

Lemma zrange_from_in n : forall s r, s <= r < s + Z.of_nat n -> In r (zrange_from s n).
Proof.
  induction n as [|n IH]; intros s r H; [lia|]. cbn [zrange_from In].
  destruct (Z.eq_dec s r) as [->|Hne]; [left; reflexivity | right; apply IH; lia].
Qed.

Definition abi_ok (p : str * Z) : bool :=
  match reg_num (RAbi (fst p)) with Some v => (v =? snd p) && (0 <=? v) && (v <? 32) | None => false end.

Lemma reg_names_lem :
  (forall r, 0 <= r < 32 -> reg_num (RX (str_dec r)) = Some r) /\
  (forall name r, In (name, r) abi_table -> reg_num (RAbi name) = Some r /\ 0 <= r < 32) /\
  (forall r, 0 <= r < 32 -> exists name, In (name, r) abi_table) /\
  (forall name, reg_num (RAbi name) <> None -> In name (map fst abi_table)) /\
  reg_num (RAbi [102; 112]) = Some 8 /\ reg_num (RAbi [115; 48]) = Some 8.
Proof.
  split; [intros r Hr; apply reg_num_x; lia|]. split; [|split; [|split; [|split; reflexivity]]].
  - assert (Hall: forallb abi_ok abi_table = true) by (vm_compute; reflexivity).
    rewrite forallb_forall in Hall. intros name r Hin. specialize (Hall _ Hin).
    unfold abi_ok in Hall; cbn [fst snd] in Hall.
    destruct (reg_num (RAbi name)) as [v|]; [|discriminate]. split; [f_equal|]; lia.
  - assert (Hall: forallb (fun r => existsb (fun p : str * Z => snd p =? r) abi_table)
                    (zrange_from 0 32) = true) by (vm_compute; reflexivity).
    rewrite forallb_forall in Hall. intros r Hr.
    assert (Hin: In r (zrange_from 0 32)) by (apply zrange_from_in; lia).
    specialize (Hall _ Hin). apply existsb_exists in Hall as ([name v] & Hp & Hv).
    cbn [snd] in Hv. exists name. replace r with v by lia. exact Hp.
  - intros name. cbn [reg_num]. generalize abi_table. intros tb.
    induction tb as [|[k v] t IH]; cbn [assoc_str map fst In]; [congruence|].
    destruct (str_eqb k name) eqn:E.
    + intros _. left. clear - E. revert name E.
      induction k as [|c k IHk]; intros [|d name]; cbn [str_eqb]; try discriminate; [reflexivity|].
      intros H. apply andb_true_iff in H as [Hc Hr]. f_equal; [lia | apply IHk; exact Hr].
    + intros H. right. apply IH. exact H.
Qed.

(* ------------------------------------------------------------------------------------------ *)
(** * B.7 nop and mv *)

Lemma nop_mv_expansion_lem :
  (forall vars ln lb a ln',
     exists t, expand_one vars ln (BStr 2) = POk [BIns t] /\
               instantiate_one t lb a ln' = POk (mk (II ADDI 0 0 0))) /\
  (forall vars ln i rd rs, k_mn i = MN_MV -> k_rd i = Some rd -> k_rs i = Some rs ->
     exists t, expand_one vars ln (BIns i) = POk [BIns t] /\
       forall lb a ln' d s0, reg_num rd = Some d -> reg_num rs = Some s0 ->
         instantiate_one t lb a ln' = POk (mk (II ADDI d s0 0))).
Proof.
  split.
  - intros vars ln lb a ln'. eexists. split; [reflexivity|]. vm_compute. reflexivity.
  - intros vars ln i rd rs Hm Hrd Hrs. exists (tok_rri MN_ADDI rd rs [48]). split.
    + unfold expand_one; cbv zeta. rewrite Hm. cbn. rewrite Hrd, Hrs. reflexivity.
    + intros lb a ln' d s0 Hd Hs. rewrite inst_I by (cbn [k_mn tok_rri]; unfold MN_ADDI; lia).
      cbn [k_imm k_reg1 k_reg2 tok_rri]. rewrite (need_reg_some _ _ _ Hd), (need_reg_some _ _ _ Hs).
      reflexivity.
Qed.

(* ------------------------------------------------------------------------------------------ *)
(** * [grouped] in words: between two entries of one line there are only entries of that line *)
Definition adjacent_lines (text : list (Z * tentry)) : Prop :=
  forall pre ln e mid e' post, text = pre ++ (ln, e) :: mid ++ (ln, e') :: post ->
    Forall (fun x => fst x = ln) mid.

Lemma grouped_run mid : forall ln e e' post, grouped ((ln, e) :: mid ++ (ln, e') :: post) ->
  Forall (fun x => fst x = ln) mid.
Proof.
  induction mid as [|[l1 e1] mid' IH]; intros ln e e' post Hg; [constructor|].
  cbn [app grouped] in Hg. destruct Hg as [Hnext Hg].
  assert (Hocc: In ln (map fst ((l1, e1) :: mid' ++ (ln, e') :: post))).
  { cbn [map fst]. right. rewrite map_app, in_app_iff. right. left. reflexivity. }
  specialize (Hnext Hocc). subst l1. constructor; [reflexivity|].
  apply (IH ln e1 e' post). exact Hg.
Qed.

Lemma grouped_spec_lem : forall text, grouped text <-> adjacent_lines text.
Proof.
  unfold adjacent_lines. intros text. split.
  - intros Hg pre. revert text Hg. induction pre as [|[l0 e0] pre' IH]; intros text Hg ln e mid e' post ->.
    + eapply grouped_run. exact Hg.
    + cbn [app grouped] in Hg. destruct Hg as [_ Hg]. eapply IH; [exact Hg | reflexivity].
  - induction text as [|[ln e] t IH]; intros H; [exact Logic.I|]. cbn [grouped]. split.
    + intros Hin. apply in_map_iff in Hin as ([l e'] & Hl & Hin). cbn [fst] in Hl. subst l.
      apply in_split in Hin as (a & b & ->).
      pose proof (H [] ln e a e' b eq_refl) as Ha.
      destruct a as [|[l1 e1] a']; cbn [app]; [reflexivity|].
      apply Forall_inv in Ha. cbn [fst] in Ha. exact Ha.
    + apply IH. intros pre l0 e0 mid e' post ->.
      apply (H ((ln, e) :: pre) l0 e0 mid e' post). reflexivity.
Qed.
