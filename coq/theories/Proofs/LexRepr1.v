(* LexRepr1.v — Model/Lex.v on the operand spellings that instruction printing (Asm.instr_repr) produces:
   xN registers, decimal immediates (with '-'), hexadecimal csr numbers. *)
From Coq Require Import String.
From Coq Require Import ZArith List Bool Lia ZifyBool.
From ArchSim Require Import Model.Base Model.Fmt Model.Toy Model.Asm Model.Lex
  Proofs.C17Proofs Proofs.LexProofs1 Proofs.LexProofs2 Proofs.LexProofs3 Proofs.LexProofs6
  Proofs.LexProofs7 Proofs.LexProofs8.
Import ListNotations.
Open Scope Z_scope.

(** * digit strings *)
Lemma digit_char_dec d : 0 <= d < 10 -> is_digit (digit_char d) = true.
Proof. unfold digit_char, is_digit. intros H. destruct (d <? 10) eqn:E; lia. Qed.
Lemma digit_char_hex d : 0 <= d < 16 -> is_hex (lower_hex (digit_char d)) = true.
Proof.
  unfold digit_char, lower_hex, is_hex, is_digit. intros H.
  destruct (d <? 10) eqn:E.
  - replace ((65 <=? 48 + d) && (48 + d <=? 70)) with false by lia. lia.
  - replace ((65 <=? 55 + d) && (55 + d <=? 70)) with true by lia. lia.
Qed.

Lemma fmt_nat_forall base (P : Z -> bool) z :
  2 <= base <= 16 -> 0 <= z -> (forall d, 0 <= d < base -> P (digit_char d) = true) ->
  forallb P (fmt_nat base z) = true.
Proof.
  intros Hb Hz HP. unfold fmt_nat, nat_digits.
  destruct (digits_lsf_spec base (proj1 Hb) _ z (fuel_ok z Hz)) as [H1 _].
  apply forallb_forall. intros c Hc. apply in_map_iff in Hc. destruct Hc as (d & <- & Hd).
  apply in_rev in Hd. unfold digits_ok in H1. rewrite Forall_forall in H1. apply HP, H1, Hd.
Qed.
Lemma fmt_nat_dec_digits z : 0 <= z -> forallb is_digit (fmt_nat 10 z) = true.
Proof. intros H. apply fmt_nat_forall; [lia|exact H|apply digit_char_dec]. Qed.
Lemma fmt_nat_hex_digits z : 0 <= z -> forallb is_hex (map lower_hex (fmt_nat 16 z)) = true.
Proof.
  intros H. rewrite forallb_forall. intros c Hc. apply in_map_iff in Hc. destruct Hc as (e & <- & He).
  pose proof (fmt_nat_forall 16 (fun c => is_hex (lower_hex c)) z ltac:(lia) H digit_char_hex) as F.
  rewrite forallb_forall in F. apply F, He.
Qed.

(* str_dec z = optional '-' followed by a non-empty digit string *)
Lemma str_dec_shape z : exists sign d, str_dec z = sign ++ d /\ is_sign sign = true /\ d <> [] /\
  forallb is_digit d = true.
Proof.
  unfold str_dec, fmt_int. destruct (z <? 0) eqn:E.
  - exists [45], (fmt_nat 10 (- z)). repeat split; [apply fmt_nat_nonempty|apply fmt_nat_dec_digits; lia].
  - exists [], (fmt_nat 10 z). repeat split; [apply fmt_nat_nonempty|apply fmt_nat_dec_digits; lia].
Qed.
Lemma str_dec_nat_digits r : 0 <= r -> str_dec r <> [] /\ forallb is_digit (str_dec r) = true.
Proof.
  intros H. unfold str_dec, fmt_int. replace (r <? 0) with false by lia.
  split; [apply fmt_nat_nonempty|apply fmt_nat_dec_digits, H].
Qed.

(** * readers on printed operands *)
Lemma digit_first_not_minus d : d <> [] -> forallb is_digit d = true -> match d with c :: _ => c <> 45 | [] => False end.
Proof.
  destruct d as [|c t]; [congruence|]. intros _ H. cbn [forallb] in H. apply andb_true_iff in H as [H _].
  unfold is_digit in H. lia.
Qed.

Lemma p_imm_dec ws z rest :
  blanks ws = true -> stops is_labn rest = true -> p_imm (ws ++ str_dec z ++ rest) = Some (str_dec z, rest).
Proof.
  intros Hw Hr. destruct (str_dec_shape z) as (sign & d & -> & Hs & Hn & Hd).
  rewrite <- app_assoc. apply p_imm_signed; [exact Hw|exact Hs|apply digit_first_not_minus; assumption|].
  apply num_raw_dec; assumption.
Qed.

Lemma p_imm_hex ws c rest :
  blanks ws = true -> 0 <= c -> stops is_labn rest = true -> p_imm (ws ++ py_hex c ++ rest) = Some (py_hex c, rest).
Proof.
  intros Hw Hc Hr. unfold py_hex. replace (c <? 0) with false by lia.
  change (ws ++ (48 :: 120 :: map lower_hex (fmt_nat 16 c)) ++ rest)
    with (ws ++ [] ++ (48 :: 120 :: map lower_hex (fmt_nat 16 c)) ++ rest).
  change (48 :: 120 :: map lower_hex (fmt_nat 16 c)) with ([] ++ 48 :: 120 :: map lower_hex (fmt_nat 16 c)) at 2.
  apply p_imm_signed; [exact Hw|reflexivity|cbn; congruence|].
  apply num_raw_hex; [|apply fmt_nat_hex_digits, Hc|apply stops_labn_hex, Hr].
  intros E. apply map_eq_nil in E. exact (fmt_nat_nonempty 16 c E).
Qed.

Lemma p_reg_xreg ws r rest :
  blanks ws = true -> 0 <= r < 32 -> stops is_digit rest = true -> p_reg (ws ++ xreg r ++ rest) = Some (xtok r, rest).
Proof.
  intros Hw Hr Hs. rewrite p_reg_blanks by exact Hw. unfold xreg, xtok. cbn [app].
  apply p_reg_x; [apply regnum_in, Hr|exact Hs].
Qed.

(* strings that start like a number: a digit or '-' *)
Definition numfirst (s : str) : bool := match s with c :: _ => is_digit c || (c =? 45) | [] => false end.
Lemma numfirst_str_dec z rest : numfirst (str_dec z ++ rest) = true.
Proof.
  destruct (str_dec_shape z) as (sign & d & -> & Hs & Hn & Hd). destruct (is_sign_inv _ Hs) as [->| ->]; [|reflexivity].
  destruct d as [|c t]; [congruence|]. cbn [forallb] in Hd. apply andb_true_iff in Hd as [Hc _]. cbn. rewrite Hc. reflexivity.
Qed.
Lemma numfirst_py_hex c rest : numfirst (py_hex c ++ rest) = true.
Proof. unfold py_hex. destruct (c <? 0); reflexivity. Qed.

Lemma abi_alpha_first : forallb (fun w => match w with c :: _ => is_alpha c | [] => false end) abi_names = true.
Proof. vm_compute. reflexivity. Qed.

Lemma numfirst_skip s : numfirst s = true -> skip_ws s = s.
Proof.
  destruct s as [|c t]; [discriminate|]. cbn [numfirst]. intros H. apply skip_ws_stop. cbn [stops].
  unfold is_ws, is_digit in *. lia.
Qed.
Lemma p_reg_numfirst ws s : blanks ws = true -> numfirst s = true -> p_reg (ws ++ s) = None.
Proof.
  intros Hw H. rewrite p_reg_blanks by exact Hw. unfold p_reg. rewrite (numfirst_skip s H).
  destruct s as [|c t]; [discriminate|]. cbn [numfirst] in H.
  pose proof (lit_best_spec abi_names (c :: t)) as S. destruct (lit_best abi_names (c :: t)) as [[w r]|].
  - exfalso. destruct S as (Hin & Hl & _). pose proof abi_alpha_first as F. rewrite forallb_forall in F.
    specialize (F _ Hin). destruct w as [|a w]; [discriminate|]. cbn [lit] in Hl.
    destruct (c =? a) eqn:E; [|discriminate]. apply Z.eqb_eq in E. subst.
    unfold is_alpha, is_upper, is_lower, is_digit in *. lia.
  - cbn [lit]. replace (c =? 120) with false by (unfold is_digit in H; lia). reflexivity.
Qed.
Lemma word_numfirst s : numfirst s = true -> word s = None.
Proof.
  destruct s as [|c t]; [discriminate|]. cbn [numfirst word]. intros H.
  replace (is_lab1 c) with false; [reflexivity|]. unfold is_lab1, is_alpha, is_upper, is_lower, is_digit in *. lia.
Qed.
Lemma p_label_numfirst ws s : blanks ws = true -> numfirst s = true -> p_label (ws ++ s) = None.
Proof. intros Hw H. rewrite p_label_blanks by exact Hw. unfold p_label. rewrite (numfirst_skip s H). apply word_numfirst, H. Qed.
Lemma p_var_numfirst ws s : blanks ws = true -> numfirst s = true -> p_var (ws ++ s) = None.
Proof.
  intros Hw H. rewrite p_var_blanks by exact Hw. unfold p_var. rewrite (numfirst_skip s H), (word_numfirst s H). reflexivity.
Qed.

Lemma p_imm_xreg ws r rest : blanks ws = true -> p_imm (ws ++ xreg r ++ rest) = None.
Proof. intros Hw. rewrite p_imm_blanks by exact Hw. reflexivity. Qed.

(* "xN" read as a variable name (the pseudo-instruction pattern looks at the second operand of jalr) *)
Lemma p_var_xreg ws r rest :
  blanks ws = true -> 0 <= r -> stops is_labn rest = true -> stops (fun c => c =? 91) rest = true ->
  p_var (ws ++ xreg r ++ rest) = Some ((xreg r, None), rest).
Proof.
  intros Hw Hr Hs Hb. rewrite p_var_blanks by exact Hw. unfold p_var, xreg. cbn [app].
  rewrite skip_ws_stop by reflexivity.
  destruct (str_dec_nat_digits r Hr) as [_ Hd].
  change (120 :: str_dec r ++ rest) with ((120 :: str_dec r) ++ rest).
  rewrite word_exact; [|reflexivity| |exact Hs].
  - destruct rest as [|c t]; [reflexivity|]. cbn [stops] in Hb.
    destruct c as [|p|p]; try reflexivity. do 7 (destruct p as [p|p|]; try reflexivity). discriminate.
  - rewrite forallb_forall in *. intros x Hx. apply labn_digit, Hd, Hx.
Qed.
