(* Proofs/LiftRefineBase.v — ingredients of the cached refinement theorem: the MEM access of an
   on-path EX-output slot is the access of its instruction in the single-cycle machine (so both
   cached machines reject the same instructions), and structural facts about one pipeline cycle. *)
From Coq Require Import Lia ZifyBool.
From ArchSim Require Import Spec.RefCache.
From ArchSim Require Import Model.Base Model.Mem Model.Cache Model.Fmt Model.RV Model.Single
  Model.RVSplit Model.Pipe
  Proofs.WordLemmas Proofs.C01Mem Proofs.C01Step Proofs.SplitExec Proofs.PipeLaws Proofs.PipeShape Proofs.PipeInv
  Proofs.PipeInvBase
  Proofs.CacheArith Proofs.CacheInv Proofs.C03Proofs
  Proofs.LiftFlat Proofs.LiftAccess Proofs.LiftSim Proofs.LiftEcall Proofs.LiftSingle Proofs.LiftPipe
  Proofs.LiftPipeRun.
Open Scope Z_scope.
Local Arguments Z.mul : simpl never.
Local Arguments Z.add : simpl never.
Local Arguments Z.sub : simpl never.
Local Arguments Z.pow : simpl never.
Local Arguments Z.div : simpl never.
Local Arguments Z.modulo : simpl never.
Local Arguments Z.of_nat : simpl never.
Local Arguments Z.to_nat : simpl never.

(** * Accesses modulo 2^32 *)
Lemma acc_rejects_cong g w nb a a' : a mod 4294967296 = a' mod 4294967296 ->
  acc_rejects g (Some (w, nb, a)) = acc_rejects g (Some (w, nb, a')).
Proof.
  intros H. unfold acc_rejects. destruct g as [[c wt]|]; [|reflexivity].
  rewrite (xw_cong nb a a' H), (cerr_cong c wt w nb a a' H). reflexivity.
Qed.

Lemma rejects_acc g i s : rejects g i s = acc_rejects g (access_of i s).
Proof. reflexivity. Qed.

(** * The EX output of the decoded slot of instruction i *)
Lemma ex_out_fields y l2 l3 s x te : ex_on (Some y) l2 l3 s = (Some x, te, None) ->
  exists cmp, alu_compute (sl_instr y) (ex_in1 y) (ex_in2 y) = Ok (cmp, sl_result x) /\
              sl_instr x = sl_instr y /\ sl_rd2 x = sl_rd2 y.
Proof.
  intros H. rewrite ex_on_some in H.
  destruct (alu_compute (sl_instr y) (ex_in1 y) (ex_in2 y)) as [[cmp res]|e]; [|discriminate].
  exists cmp. destruct (is_ecall (sl_instr y)).
  - destruct (ex_busy y l2 l3); [injection H as <- _; repeat split|].
    destruct (process_ecall s) as [[[tt|c]|e] s1]; [| |discriminate H]; injection H as <- _; repeat split.
  - injection H as <- _. repeat split.
Qed.

(* the access of a slot that satisfies [Eok t] is the access of its instruction at t *)
Lemma eok_rejects g t tc x : Eok t x -> regs tc = regs t ->
  slot_rejects g x = rejects g (sl_instr x) tc.
Proof.
  intros He Hr. unfold slot_rejects, slot_access. rewrite rejects_acc. unfold Eok in He.
  destruct (sl_stall x).
  - destruct He as [Hi _]. rewrite Hi. reflexivity.
  - destruct He as [te He]. destruct (ex_out_fields _ _ _ _ _ _ He) as (cmp & Ha & _ & Hd).
    change (sl_instr (dsl t (sl_instr x))) with (sl_instr x) in Ha.
    revert Ha Hd. generalize (sl_result x) (sl_rd2 x). intros res rd2.
    destruct (sl_instr x) eqn:Ei; try reflexivity.
    + (* load *)
      cbn [dsl id_slot slot_if ex_in1 ex_in2 sl_instr sl_rd1 sl_rd2 sl_imm signals sig c_src1 c_src2
           rf_rd1 rf_rd2 rf_imm access_rf fst snd alu_compute].
      intros Ha _. injection Ha as _ <-. cbn [macc access_of]. apply acc_rejects_cong.
      unfold rget. rewrite Hr. change (regs (pre t)) with (regs t). rewrite U32_eq.
      rewrite Z.add_mod_idemp_l by lia. reflexivity.
    + (* store *)
      cbn [dsl id_slot slot_if ex_in1 ex_in2 sl_instr sl_rd1 sl_rd2 sl_imm signals sig c_src1 c_src2
           rf_rd1 rf_rd2 rf_imm access_rf fst snd alu_compute].
      intros Ha Hd. injection Ha as _ <-. subst rd2. cbn [macc access_of]. apply acc_rejects_cong.
      unfold rget. rewrite Hr. change (regs (pre t)) with (regs t). rewrite !U32_eq.
      rewrite Z.mod_mod by lia. rewrite Z.add_mod_idemp_r by lia. reflexivity.
Qed.

(** * Structure of one cycle *)
Lemma mem_input_l2 p z : Shape no_icache p -> mem_input p = Some z -> lat_at (lat p) 2 = Some z.
Proof.
  intros Sh H. unfold mem_input, regs_for in H.
  destruct (shape_stalled no_icache p Sh) as [[E _]|(k & d & sv & E & _ & [-> | ->] & _)]; rewrite E in H.
  - exact H.
  - exact H.
  - change (3 =? 2 + 1) with true in H. cbv iota in H.
    pose proof (sh_len _ _ Sh) as Hl.
    destruct (lat p) as [|a [|b [|c [|dd [|e [|f tl]]]]]]; try discriminate Hl. discriminate H.
Qed.

Lemma lat_at_clear_prefix l n i y : lat_at (clear_prefix l n) i = Some y -> lat_at l i = Some y.
Proof.
  unfold lat_at, nthZ. generalize (Z.to_nat i). clear i. revert l.
  induction n as [|n IH]; intros l k H; [destruct l; exact H|].
  destruct l as [|a l]; [exact H|]. cbn [clear_prefix] in H.
  destruct k as [|k]; [discriminate H|]. cbn [nth] in *. apply IH. exact H.
Qed.

Lemma pipe_step_mem_input p p' y : pipe_step p = (p', None) -> lat_at (lat p') 3 = Some y ->
  exists z, mem_input p = Some z.
Proof.
  intros H Hy. rewrite pipe_step_eq in H.
  destruct (run_stages (bump p)) as [[next s] [f|]] eqn:Hrs; [discriminate|]. injection H as <-.
  assert (Hn : lat_at next 3 = Some y).
  { unfold post in Hy. destruct (stall_part _ _ _ _ _) as [[stl2 sv2] s1]. unfold flush_part in Hy.
    destruct (first_flush next) as [[i a]|].
    - destruct (match stl2 with Some (k, _) => if k <? i then (None, None) else (stl2, sv2) | None => (stl2, sv2) end)
        as [stl3 sv3]. cbn [lat] in Hy. apply lat_at_clear_prefix in Hy. exact Hy.
    - exact Hy. }
  unfold run_stages in Hrs. change (mem_input p) with (lat_at (regs_for (bump p) 3) 2).
  destruct (match stalled (bump p) with Some _ => _ | None => _ end) as [n0 s1].
  destruct (stage_wb (regs_for (bump p) 4) 3 s1) as [[n4 s2] [e|]];
    [exfalso; destruct (fault_of_cases (regs_for (bump p) 4) 3 e) as (f & Ef & _); rewrite Ef in Hrs; discriminate|].
  destruct (stage_ex (regs_for (bump p) 2) 1 s2) as [[n2 s3] [e|]];
    [exfalso; destruct (fault_of_cases (regs_for (bump p) 2) 1 e) as (f & Ef & _); rewrite Ef in Hrs; discriminate|].
  destruct (stage_mem (regs_for (bump p) 3) 2 s3) as [[n3 s4] [e|]] eqn:Hm;
    [exfalso; destruct (fault_of_cases (regs_for (bump p) 3) 2 e) as (f & Ef & _); rewrite Ef in Hrs; discriminate|].
  injection Hrs as <- _. assert (Hn' : n3 = Some y) by exact Hn. rewrite Hn' in Hm.
  unfold stage_mem in Hm. destruct (lat_at (regs_for (bump p) 3) 2) as [z|]; [exists z; reflexivity|discriminate].
Qed.

(** * Faults of the flat single-cycle machine at a load/store are address errors *)
Lemma read_mult_err c m a : forall k i acc e, read_mult c m a k i acc = Err e -> exists x, e = addr_err c x.
Proof.
  induction k as [|k IH]; intros i acc e H; cbn [read_mult] in H; [discriminate|].
  unfold read_cell in H. destruct (in_range c (eff_addr c (a + i))).
  - eapply IH. exact H.
  - injection H as <-. eexists. reflexivity.
Qed.

Lemma write_mult_err c : forall k m a i v m' e, write_mult c m a k i v = (m', Some e) -> exists x, e = addr_err c x.
Proof.
  induction k as [|k IH]; intros m a i v m' e H; cbn [write_mult] in H; [discriminate|].
  unfold write_cell in H. destruct (in_range c (eff_addr c (a + i))).
  - eapply IH. exact H.
  - injection H as _ <-. eexists. reflexivity.
Qed.

Lemma flat_ldst_fault t i tm ff : wf t -> instr_at (prog (im t)) (pc t) = Some i ->
  access_of i t <> None -> single_pipeline_step t = (tm, Some ff) ->
  f_instr ff = i /\ f_addr ff = pc t /\ exists x lo hi b, f_err ff = EAddr x lo hi b.
Proof.
  intros W Hi Hacc H. rewrite (sstep_eq t i W Hi) in H. destruct (wf_flat _ (wf_pre t W)) as [m Hm].
  destruct (behavior i (pre t)) as [s2 [e|]] eqn:Hb; [|discriminate]. injection H as _ <-.
  split; [reflexivity|]. split; [reflexivity|]. cbn [f_err mkfault].
  destruct i; try (exfalso; apply Hacc; reflexivity); cbn [behavior] in Hb.
  - rewrite (st_read_flat _ m _ _ _ Hm) in Hb. unfold mem_read in Hb.
    destruct (read_mult rv_memcfg m _ _ 0 0) as [v|e0] eqn:Hr; [discriminate|]. injection Hb as _ <-.
    destruct (read_mult_err _ _ _ _ _ _ _ Hr) as [x ->]. unfold addr_err. repeat eexists.
  - rewrite (st_write_flat _ m _ _ _ _ Hm) in Hb. unfold mem_write in Hb.
    destruct (write_mult rv_memcfg m _ _ 0 _) as [m' [e0|]] eqn:Hw; cbn [snd] in Hb; [|discriminate].
    injection Hb as _ <-. destruct (write_mult_err _ _ _ _ _ _ _ _ Hw) as [x ->]. unfold addr_err. repeat eexists.
Qed.
