(* MapLemmas.v — association-list maps *)
From Coq Require Import Lia.
From ArchSim Require Import Model.Base.
Open Scope Z_scope.

Lemma mget_opt_mset_eq m k v : mget_opt (mset m k v) k = Some v.
Proof.
  induction m as [|[k' v'] t IH]; cbn [mset mget_opt].
  - rewrite Z.eqb_refl; reflexivity.
  - destruct (k' =? k) eqn:E; cbn [mget_opt].
    + rewrite Z.eqb_refl; reflexivity.
    + rewrite E; exact IH.
Qed.

Lemma mget_opt_mset_neq m k k2 v : k <> k2 -> mget_opt (mset m k v) k2 = mget_opt m k2.
Proof.
  intros Hne. induction m as [|[k' v'] t IH]; cbn [mset mget_opt].
  - destruct (k =? k2) eqn:E; [apply Z.eqb_eq in E; contradiction | reflexivity].
  - destruct (k' =? k) eqn:E; cbn [mget_opt].
    + apply Z.eqb_eq in E; subst k'.
      destruct (k =? k2) eqn:E2; [apply Z.eqb_eq in E2; contradiction | reflexivity].
    + destruct (k' =? k2); [reflexivity | exact IH].
Qed.

Lemma mget_mset_eq m k v : mget (mset m k v) k = v.
Proof. unfold mget; rewrite mget_opt_mset_eq; reflexivity. Qed.

Lemma mget_mset_neq m k k2 v : k <> k2 -> mget (mset m k v) k2 = mget m k2.
Proof. intros; unfold mget; rewrite mget_opt_mset_neq by assumption; reflexivity. Qed.

Lemma mget_mset m k k2 v : mget (mset m k v) k2 = if k =? k2 then v else mget m k2.
Proof.
  destruct (k =? k2) eqn:E.
  - apply Z.eqb_eq in E; subst; apply mget_mset_eq.
  - apply Z.eqb_neq in E; apply mget_mset_neq; assumption.
Qed.

Lemma mget_nil k : mget [] k = 0.
Proof. reflexivity. Qed.

(* the length of a map never shrinks and grows by at most one *)
Lemma mset_length m k v : (length m <= length (mset m k v) <= S (length m))%nat.
Proof.
  induction m as [|[k' v'] t IH]; cbn [mset length]; [lia|].
  destruct (k' =? k); cbn [length]; lia.
Qed.
