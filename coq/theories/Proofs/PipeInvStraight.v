(* PipeInvStraight.v — stage 2 of the control-path proof of C02: the invariant of PipeInv.v is
   preserved by every pipeline step for programs WITHOUT control transfers and ecalls
   (R/I/shift/lui/auipc/load/store, arbitrary RAW hazards, faulting loads and stores), in all
   three modes that occur (not stalled, stalled at ID with countdown 2 and 1); and the resulting
   refinement theorem [pipe_refines_single_straight]. *)
From Coq Require Import Lia ZifyBool.
From ArchSim Require Import Model.Base Model.Mem Model.Cache Model.Fmt Model.RV Model.Single
  Model.RVSplit Model.Pipe Proofs.WordLemmas Proofs.C01Step Proofs.SplitExec Proofs.C02Split
  Proofs.PipeLaws Proofs.PipeShape Proofs.PipeInv Proofs.PipeInvBase Proofs.PipeInvStages.
Open Scope Z_scope.

Ltac Zify.zify_post_hook ::= Z.to_euclidean_division_equations.
Local Arguments Z.mul : simpl never.
Local Arguments Z.add : simpl never.
Local Arguments Z.sub : simpl never.
Local Arguments Z.div : simpl never.
Local Arguments Z.modulo : simpl never.
Local Arguments Z.land : simpl never.
Local Arguments Z.shiftl : simpl never.
Local Arguments Z.shiftr : simpl never.
Local Arguments Z.pow : simpl never.

(** * Straight-line instructions *)
Definition straight (i : instr) : bool :=
  match i with
  | IR _ _ _ _ | II _ _ _ _ | ISh _ _ _ _ | ILui _ _ | IAuipc _ _ | ILoad _ _ _ _ | IStore _ _ _ _ => true
  | _ => false
  end.

Lemma straight_supported i : straight i = true -> supported i = true.
Proof. destruct i; intros H; try discriminate H; reflexivity. Qed.
Lemma straight_not_ecall i : straight i = true -> is_ecall i = false.
Proof. destruct i; intros H; try discriminate H; reflexivity. Qed.
Lemma straight_no_redirect i t : straight i = true -> redirects i t = false.
Proof. destruct i; intros H; try discriminate H; reflexivity. Qed.

Lemma Dok_Dsh t x : sl_addr x = pc t -> Dok t x -> Dsh x.
Proof. intros Ha [b Hb]. exists (pre t), b. rewrite Ha. exact Hb. Qed.

(* MEM of a straight-line instruction requests no redirect *)
Lemma mem_flush_straight x : straight (sl_instr x) = true -> sl_exit x = None -> mem_flush x = None.
Proof.
  intros Hst Hex. unfold mem_flush. rewrite Hex.
  destruct (sl_instr x); try discriminate Hst; reflexivity.
Qed.

Lemma mframe_out_exit s s' : mframe s s' ->
  out s' = out s /\ exitc s' = exitc s /\ bcount s' = bcount s /\ pcount s' = pcount s.
Proof. intros (m & c & ->). repeat split. Qed.

(* straight-line instructions touch neither the output, the exit code nor the counters *)
Lemma behavior_straight i s : straight i = true ->
  out (fst (behavior i s)) = out s /\ exitc (fst (behavior i s)) = exitc s /\
  bcount (fst (behavior i s)) = bcount s /\ pcount (fst (behavior i s)) = pcount s.
Proof.
  intros Hst. destruct i; try discriminate Hst; cbn [behavior fst];
    try (match goal with |- context [rset s ?r ?v] =>
           destruct (rset_fields s r v) as (_ & _ & _ & Ho & He & _ & Hb & Hp & _) end; repeat split; assumption).
  - match goal with |- context [st_read ?a ?b ?c ?d] =>
      destruct (st_read a b c d) as [[v|e] s'] eqn:E end;
      apply st_read_mframe, mframe_out_exit in E; cbn [fst]; [|exact E].
    match goal with |- context [rset s' ?r ?v] =>
      destruct (rset_fields s' r v) as (_ & _ & _ & Ho & He & _ & Hb & Hp & _) end.
    destruct E as (E1 & E2 & E3 & E4). repeat split; congruence.
  - match goal with |- context [st_write ?a ?b ?c ?d ?g] =>
      destruct (st_write a b c d g) as [[e|] s'] eqn:E end;
      apply st_write_mframe, mframe_out_exit in E; cbn [fst]; exact E.
Qed.

(* cycles until the oldest instruction in flight reaches latch 3 *)
Definition dcount (p : pstate) : Z := match stalled p with Some (_, d) => d | None => 0 end.
Definition mu (p : pstate) : Z :=
  if nonempty (lat_at (lat p) 3) then 0 else if nonempty (lat_at (lat p) 2) then 1
  else if nonempty (lat_at (lat p) 1) then 2 + dcount p
  else if nonempty (lat_at (lat p) 0) then 3 else 4.

Section Straight.
Variable P : list instr.
Hypothesis HS : Forall (fun i => straight i = true) P.

Lemma Hsup : Forall (fun i => supported i = true) P.
Proof. eapply Forall_impl; [|exact HS]. intros i. apply straight_supported. Qed.

Lemma str_at a i : instr_at P a = Some i -> straight i = true.
Proof. intros H. rewrite Forall_forall in HS. apply HS. eapply instr_at_In; eauto. Qed.

Lemma nxt_straight t i : wf t -> prog (im t) = P -> instr_at P (pc t) = Some i ->
  out (nxt t) = out t /\ exitc (nxt t) = exitc t /\ bcount (nxt t) = bcount t /\ pcount (nxt t) = pcount t.
Proof.
  intros W HP Hi. pose proof (str_at _ _ Hi) as Hst. rewrite <- HP in Hi.
  unfold nxt. rewrite (sstep_eq t i W Hi).
  pose proof (behavior_straight i (pre t) Hst) as H.
  destruct (behavior i (pre t)) as [s2 [e|]]; cbn [fst] in *; stf; exact H.
Qed.

Lemma plain_straight t i : wf t -> prog (im t) = P -> exitc t = None -> instr_at P (pc t) = Some i ->
  snd (single_pipeline_step t) = None -> plain t i.
Proof.
  intros W HP Hex Hi Hok. destruct (nxt_straight t i W HP Hi) as (_ & He & _).
  split; [exact Hok|]. split; [congruence|]. apply straight_no_redirect. eapply str_at; eauto.
Qed.


(** * Latch-level stage facts for straight-line programs *)
Lemma shape_at p l0 l1 l2 l3 l4 : Shape no_icache p -> lat p = [l0; l1; l2; l3; l4] ->
  L0ok (prog (im (pst p))) l0 /\ L1ok (prog (im (pst p))) l1 /\ L2ok (prog (im (pst p))) l2 /\
  L3ok (prog (im (pst p))) l3 /\ L4ok (prog (im (pst p))) l4 /\
  ModeInv (has_instr (im (pst p)) (pc (pst p))) l0 l1 l2 l3 (stalled p) (saved p).
Proof.
  intros Sh Hl. destruct (shape_elim _ _ Sh) as (k0 & k1 & k2 & k3 & k4 & Hk & _ & H).
  rewrite Hl in Hk. injection Hk as <- <- <- <- <-. exact H.
Qed.

Lemma ex_latch l1 l2 l3 s : Dsh_latch l1 -> L1ok P l1 ->
  exists n2, ex_on l1 l2 l3 s = (n2, s, None) /\ nonempty n2 = nonempty l1 /\
    has_stall n2 = false /\ flush_of n2 = None /\ fired n2 = nonempty n2 /\
    match l1, n2 with
    | Some x1, Some x2 => sl_instr x2 = sl_instr x1 /\ sl_addr x2 = sl_addr x1 /\
                          forall t, Dok t x1 -> Eok t x2
    | None, None => True
    | _, _ => False
    end.
Proof.
  intros D1 K1. destruct l1 as [x1|].
  2:{ exists None. rewrite ex_on_none. repeat split. }
  destruct K1 as (R & _). pose proof (str_at _ _ R) as Hstr.
  destruct (ex_stage x1 l2 l3 s D1 (straight_supported _ Hstr) (straight_not_ecall _ Hstr))
    as (x2 & He & Hi & Ha & Hst & Hf & _ & Hd).
  exists (Some x2). cbn [nonempty has_stall flush_of fired]. rewrite Hst.
  repeat split; assumption.
Qed.

Lemma fired_straight l2 : L2ok P l2 -> fired l2 = nonempty l2.
Proof.
  destruct l2 as [x|]; [|reflexivity]. intros (R & _ & _ & _ & Hst). cbn [fired nonempty].
  destruct (sl_stall x); [|reflexivity]. destruct (Hst eq_refl) as [Hi _].
  pose proof (str_at _ _ R) as Hs. rewrite Hi in Hs. discriminate Hs.
Qed.

End Straight.
