(* PipeInvStraight.v — stage 2 of the control-path proof of C02: the invariant of PipeInv.v is
   preserved by every pipeline step for programs WITHOUT control transfers and ecalls
   (R/I/shift/lui/auipc/load/store, arbitrary RAW hazards, faulting loads and stores), in all
   three modes that occur (not stalled, stalled at ID with countdown 2 and 1); and the resulting
   refinement theorem [pipe_refines_single_straight]. *)
From Coq Require Import Lia ZifyBool Wf_nat.
From ArchSim Require Import Model.Base Model.Mem Model.Cache Model.Fmt Model.RV Model.Single
  Model.RVSplit Model.Pipe Proofs.WordLemmas Proofs.C01Step Proofs.SplitExec Proofs.C02Split
  Proofs.PipeLaws Proofs.PipeShape Proofs.PipeInv Proofs.PipeInvBase Proofs.PipeInvStages.
Open Scope Z_scope.

Ltac Zify.zify_post_hook ::= Z.to_euclidean_division_equations.
Local Arguments Z.mul : simpl never.
Local Arguments Z.add : simpl never.
Local Arguments Z.sub : simpl never.
Local Arguments Z.div : simpl never.
Local Arguments Z.modulo : simpl never.
Local Arguments Z.land : simpl never.
Local Arguments Z.shiftl : simpl never.
Local Arguments Z.shiftr : simpl never.
Local Arguments Z.pow : simpl never.

(** * Straight-line instructions *)
Definition straight (i : instr) : bool :=
  match i with
  | IR _ _ _ _ | II _ _ _ _ | ISh _ _ _ _ | ILui _ _ | IAuipc _ _ | ILoad _ _ _ _ | IStore _ _ _ _ => true
  | _ => false
  end.

Lemma straight_supported i : straight i = true -> supported i = true.
Proof. destruct i; intros H; try discriminate H; reflexivity. Qed.
Lemma straight_not_ecall i : straight i = true -> is_ecall i = false.
Proof. destruct i; intros H; try discriminate H; reflexivity. Qed.
Lemma straight_no_redirect i t : straight i = true -> redirects i t = false.
Proof. destruct i; intros H; try discriminate H; reflexivity. Qed.

Lemma Dok_Dsh t x : sl_addr x = pc t -> Dok t x -> Dsh x.
Proof. intros Ha [b Hb]. exists (pre t), b. rewrite Ha. exact Hb. Qed.

(* MEM of a straight-line instruction requests no redirect *)
Lemma mem_flush_straight x : straight (sl_instr x) = true -> sl_exit x = None -> mem_flush x = None.
Proof.
  intros Hst Hex. unfold mem_flush. rewrite Hex.
  destruct (sl_instr x); try discriminate Hst; reflexivity.
Qed.

Lemma mframe_out_exit s s' : mframe s s' ->
  out s' = out s /\ exitc s' = exitc s /\ bcount s' = bcount s /\ pcount s' = pcount s.
Proof. intros (m & c & ->). repeat split. Qed.

(* straight-line instructions touch neither the output, the exit code nor the counters *)
Lemma behavior_straight i s : straight i = true ->
  out (fst (behavior i s)) = out s /\ exitc (fst (behavior i s)) = exitc s /\
  bcount (fst (behavior i s)) = bcount s /\ pcount (fst (behavior i s)) = pcount s.
Proof.
  intros Hst. destruct i; try discriminate Hst; cbn [behavior fst];
    try (match goal with |- context [rset s ?r ?v] =>
           destruct (rset_fields s r v) as (_ & _ & _ & Ho & He & _ & Hb & Hp & _) end; repeat split; assumption).
  - match goal with |- context [st_read ?a ?b ?c ?d] =>
      destruct (st_read a b c d) as [[v|e] s'] eqn:E end;
      apply st_read_mframe, mframe_out_exit in E; cbn [fst]; [|exact E].
    match goal with |- context [rset s' ?r ?v] =>
      destruct (rset_fields s' r v) as (_ & _ & _ & Ho & He & _ & Hb & Hp & _) end.
    destruct E as (E1 & E2 & E3 & E4). repeat split; congruence.
  - match goal with |- context [st_write ?a ?b ?c ?d ?g] =>
      destruct (st_write a b c d g) as [[e|] s'] eqn:E end;
      apply st_write_mframe, mframe_out_exit in E; cbn [fst]; exact E.
Qed.

(* cycles until the oldest instruction in flight reaches latch 3 *)
Definition dcount (p : pstate) : Z := match stalled p with Some (_, d) => d | None => 0 end.
Definition mu (p : pstate) : Z :=
  if nonempty (lat_at (lat p) 3) then 0 else if nonempty (lat_at (lat p) 2) then 1
  else if nonempty (lat_at (lat p) 1) then 2 + dcount p
  else if nonempty (lat_at (lat p) 0) then 3 else 4.

(** * Run equations *)
Lemma single_run_done n s : single_done s = true -> single_run n s = (s, Done) /\ single_trace n s = [].
Proof. intros H. destruct n; cbn [single_run single_trace]; rewrite H; split; reflexivity. Qed.
Lemma single_run_step k s s' : single_done s = false -> single_pipeline_step s = (s', None) ->
  single_run (S k) s = single_run k s' /\ single_trace (S k) s = pc s :: single_trace k s'.
Proof. intros H E. cbn [single_run single_trace]. rewrite H, E. split; reflexivity. Qed.
Lemma single_run_fault k s s' f : single_done s = false -> single_pipeline_step s = (s', Some f) ->
  single_run (S k) s = (s', Faulted f).
Proof. intros H E. cbn [single_run]. rewrite H, E. reflexivity. Qed.
Lemma pipe_run_step c p p' : pipe_done p = false -> pipe_step p = (p', None) ->
  pipe_run (S c) p = pipe_run c p' /\
  pipe_trace (S c) p = some_addr (lat_at (lat p') 4) ++ pipe_trace c p'.
Proof. intros H E. cbn [pipe_run pipe_trace]. rewrite H, E. split; reflexivity. Qed.
Lemma pipe_run_fault c p p' f : pipe_done p = false -> pipe_step p = (p', Some f) ->
  pipe_run (S c) p = (p', PFaulted f).
Proof. intros H E. cbn [pipe_run]. rewrite H, E. reflexivity. Qed.

Lemma mu_bounds p : Shape no_icache p -> 0 <= mu p <= 4.
Proof.
  intros Sh. unfold mu, dcount.
  destruct (shape_stalled no_icache p Sh) as [[-> _]|(k & d & sv & -> & _ & _ & Hd & _)];
    repeat match goal with |- context [if ?c then _ else _] => destruct c end; lia.
Qed.

Definition sim_goal (n : nat) (s : st) (p : pstate) : Prop :=
  match single_run n s with
  | (s', Done) => exists c p', Z.of_nat c <= 5 * Z.of_nat n + mu p /\
      pipe_run c p = (p', PDone) /\ arch_agree p' s' /\ pipe_trace c p = single_trace n s
  | (s', Faulted f) => exists c p', Z.of_nat c <= 5 * Z.of_nat n + mu p + 1 /\
      pipe_run c p = (p', PFaulted f) /\
      regs (pst p') = regs s' /\ ms (pst p') = ms s' /\ out (pst p') = out s'
  | (_, OutOfFuel) => True
  end.

Section Straight.
Variable P : list instr.
Hypothesis HS : Forall (fun i => straight i = true) P.

Lemma Hsup : Forall (fun i => supported i = true) P.
Proof. eapply Forall_impl; [|exact HS]. intros i. apply straight_supported. Qed.

Lemma str_at a i : instr_at P a = Some i -> straight i = true.
Proof. intros H. rewrite Forall_forall in HS. apply HS. eapply instr_at_In; eauto. Qed.

Lemma nxt_straight t i : wf t -> prog (im t) = P -> instr_at P (pc t) = Some i ->
  out (nxt t) = out t /\ exitc (nxt t) = exitc t /\ bcount (nxt t) = bcount t /\ pcount (nxt t) = pcount t.
Proof.
  intros W HP Hi. pose proof (str_at _ _ Hi) as Hst. rewrite <- HP in Hi.
  unfold nxt. rewrite (sstep_eq t i W Hi).
  pose proof (behavior_straight i (pre t) Hst) as H.
  destruct (behavior i (pre t)) as [s2 [e|]]; cbn [fst] in *; stf; exact H.
Qed.

Lemma plain_straight t i : wf t -> prog (im t) = P -> exitc t = None -> instr_at P (pc t) = Some i ->
  snd (single_pipeline_step t) = None -> plain t i.
Proof.
  intros W HP Hex Hi Hok. destruct (nxt_straight t i W HP Hi) as (_ & He & _).
  split; [exact Hok|]. split; [congruence|]. apply straight_no_redirect. eapply str_at; eauto.
Qed.


(** * Latch-level stage facts for straight-line programs *)
Lemma shape_at p l0 l1 l2 l3 l4 : Shape no_icache p -> lat p = [l0; l1; l2; l3; l4] ->
  L0ok (prog (im (pst p))) l0 /\ L1ok (prog (im (pst p))) l1 /\ L2ok (prog (im (pst p))) l2 /\
  L3ok (prog (im (pst p))) l3 /\ L4ok (prog (im (pst p))) l4 /\
  ModeInv (has_instr (im (pst p)) (pc (pst p))) l0 l1 l2 l3 (stalled p) (saved p).
Proof.
  intros Sh Hl. destruct (shape_elim _ _ Sh) as (k0 & k1 & k2 & k3 & k4 & Hk & _ & H).
  rewrite Hl in Hk. injection Hk as <- <- <- <- <-. exact H.
Qed.

Lemma ex_latch l1 l2 l3 s : Dsh_latch l1 -> L1ok P l1 ->
  exists n2, ex_on l1 l2 l3 s = (n2, s, None) /\ nonempty n2 = nonempty l1 /\
    has_stall n2 = false /\ flush_of n2 = None /\ fired n2 = nonempty n2 /\
    match l1, n2 with
    | Some x1, Some x2 => sl_instr x2 = sl_instr x1 /\ sl_addr x2 = sl_addr x1 /\
                          forall t, Dok t x1 -> Eok t x2
    | None, None => True
    | _, _ => False
    end.
Proof.
  intros D1 K1. destruct l1 as [x1|].
  2:{ exists None. rewrite ex_on_none. repeat split. }
  destruct K1 as (R & _). pose proof (str_at _ _ R) as Hstr.
  destruct (ex_stage x1 l2 l3 s D1 (straight_supported _ Hstr) (straight_not_ecall _ Hstr))
    as (x2 & He & Hi & Ha & Hst & Hf & _ & Hd).
  exists (Some x2). cbn [nonempty has_stall flush_of fired]. rewrite Hst.
  repeat split; assumption.
Qed.

Lemma fired_straight l2 : L2ok P l2 -> fired l2 = nonempty l2.
Proof.
  destruct l2 as [x|]; [|reflexivity]. intros (R & _ & _ & _ & Hst). cbn [fired nonempty].
  destruct (sl_stall x); [|reflexivity]. destruct (Hst eq_refl) as [Hi _].
  pose proof (str_at _ _ R) as Hs. rewrite Hi in Hs. discriminate Hs.
Qed.


Lemma adv_out t l : wf t -> prog (im t) = P ->
  match l with Some x => onp P t x | None => True end -> out (adv l t) = out t.
Proof.
  intros W HP Hl. destruct l as [x|]; [|reflexivity]. destruct Hl as (_ & _ & Hi).
  cbn [adv nonempty]. apply (nxt_straight t _ W HP Hi).
Qed.


(** * One step, not stalled *)
Lemma step_normal p s l0 l1 l2 l3 l4 dead : InvAt P p s l0 l1 l2 l3 l4 dead -> stalled p = None ->
  pipe_done p = false ->
  match pipe_step p with
  | (p', None) => Inv P p' (adv l3 s) /\ lat_at (lat p') 4 = option_map wb_slot l3 /\
                  (l3 = None -> mu p' < mu p)
  | (p', Some f) => exists tm, single_pipeline_step (adv l3 s) = (tm, Some f) /\
                  single_done (adv l3 s) = false /\
                  regs (pst p') = regs tm /\ ms (pst p') = ms tm /\ out (pst p') = out tm
  end.
Proof.
  intros [Hl Sh Hz HPp HPs W Hexs Hd D1 L3 L2 L1 L0 HF Hrg Hms Hbc Hpcn Hout Hexc Hic] Hst Hnd.
  pose proof (shape_step no_icache p no_icache_faithful Sh) as Sh'.
  assert (Hsv : saved p = None) by (apply (shape_saved_iff no_icache p Sh); exact Hst).
  rewrite (pipe_step_normal p _ _ _ _ _ Hl Hst) in *. unfold run_normal in *. rewrite Hz in *.
  destruct (if_stage P (bumped (pst p)) (sh_im _ _ Sh) HPp)
    as (n0 & s1 & HIF & Hr1 & Hm1 & Ho1 & He1 & Hi1 & Hb1 & Hp1 & HP1 & Hnc1 & Hs0 & Hf0 & Hn0).
  rewrite HIF in *.
  destruct (wb_stage P Hsup s l3 s1 HPs L3 W Hexs ltac:(rewrite Hr1; exact Hrg))
    as (s2 & HWB & Hf4 & Hr2 & Hm2 & Ho2 & Hb2 & Hp2 & He2 & Hpc2 & Him2 & Hi2 & W2 & HP2 & Hex2).
  rewrite HWB in *.
  destruct (shape_at p _ _ _ _ _ Sh Hl) as (K0 & K1 & K2 & K3 & K4 & KM). rewrite HPp in *.
  destruct (ex_latch l1 l2 l3 s2 D1 K1) as (n2 & HEX & Hne2 & Hs2 & Hf2 & Hfd2 & Hrel2).
  rewrite HEX in *.
  destruct (mem_on l2 s2) as [[n3 s4] oe] eqn:HM.
  pose proof (mem_stage P Hsup _ _ _ _ _ _ _ HP2 L2 (fired_straight l2 K2)
                ltac:(rewrite Hm2, Hm1; exact Hms) HM) as (Hr4 & Ho4 & He4 & Hi4 & Hpc4 & Him4 & HMEM).
  destruct oe as [e|].
  - destruct HMEM as (x2 & tm & -> & Hstep & Hm4 & Hrtm).
    cbn [finish fst snd faulted pst fault_at fault_of lat_at nthZ nth Z.to_nat].
    exists tm. split; [exact Hstep|].
    cbn [lv] in L2. destruct (L2 Logic.I) as (_ & (Hx & _ & Hi) & _).
    split; [apply (not_done _ (sl_instr x2)); [exact Hx|rewrite HP2; exact Hi]|].
    split; [rewrite Hr4, Hr2, Hrtm; reflexivity|]. split; [exact Hm4|].
    rewrite Ho4, Ho2, Ho1. change (out (bumped (pst p))) with (out (pst p)). rewrite Hout.
    rewrite (fired_straight _ K2). cbn [nonempty adv]. unfold nxt. rewrite Hstep. reflexivity.
  - destruct HMEM as (Hne3 & Hm4 & Hs3 & Hb4 & Hp4 & Hrel3).
    set (n1 := id_on true l0 l1 l2 s2) in *.
    set (n4 := option_map wb_slot l3) in *.
    assert (Hs4 : has_stall n4 = false) by (subst n4; destruct l3; reflexivity).
    assert (HL2 : flush_of n3 = None /\ lv3 P (adv l3 s) n3 /\
                  okl P (adv l3 s) l2 /\ dead <> 3%nat).
    { destruct l2 as [x2|], n3 as [x3|]; try contradiction.
      - destruct Hrel3 as (HMok & Hi3 & Ha3 & Hfl3 & Hex3 & Hok & _).
        cbn [lv] in L2. destruct (L2 Logic.I) as (Wt & (Hx & Ha & Hi) & _ & Hbar & _).
        destruct K2 as (R2 & _ & _ & Hexi & _).
        assert (Hpl : plain (adv l3 s) (sl_instr x2)) by (apply (plain_straight _ _ Wt HP2 Hx Hi Hok)).
        split.
        { cbn [flush_of]. rewrite Hfl3. apply mem_flush_straight; [eapply str_at; eauto|].
          destruct (sl_exit x2) eqn:E; [|reflexivity]. exfalso.
          pose proof (str_at _ _ R2) as Hs. rewrite Hexi in Hs by discriminate. discriminate Hs. }
        split.
        { cbn [lv3]. split; [exact Wt|]. split; [unfold onp; rewrite Hi3, Ha3; repeat split; assumption|].
          split; [exact HMok|]. split; apply Hpl. }
        split; [cbn [okl]; split; [exact Wt|split; [repeat split; assumption|exact Hok]]|].
        intros Hd3. apply (Hbar Hd3). exact Hpl.
      - split; [reflexivity|]. split; [exact Logic.I|]. split; [exact Logic.I|exact L2]. }
    destruct HL2 as (Hf3 & L3' & O2 & Hd3).
    cbn [finish]. cbn [finish fst] in Sh'.
    match goal with |- context [post p ?nx s4] =>
    assert (Hpost : exists stl sv s5, post p nx s4 =
              {| pst := s5; lat := nx; stalled := stl; saved := sv; hazards := true |} /\
              (s5 = s4 \/ s5 = with_stalls s4 (stalls s4 + 1)) /\
              ((stl = None /\ has_stall n1 = false) \/ (stl = Some (1, 2) /\ has_stall n1 = true))) end.
    { assert (Hff : first_flush [n0; n1; n2; n3; n4] = None).
      { rewrite first_flush_5 by (assumption || apply id_on_flags). rewrite Hf4, Hf3, Hf2. reflexivity. }
      unfold post. rewrite Hst, Hsv, Hz.
      destruct (has_stall n1) eqn:Hs1.
      - assert (Hns : new_stall [n0; n1; n2; n3; n4] None = Some 1).
        { rewrite new_stall_5 by assumption. rewrite Hs2, Hs1. reflexivity. }
        rewrite (stall_part_new _ _ _ _ Hns), (flush_part_none _ _ _ _ _ Hff).
        do 3 eexists. split; [reflexivity|]. split; [right; reflexivity|right; split; reflexivity].
      - assert (Hns : new_stall [n0; n1; n2; n3; n4] None = None).
        { rewrite new_stall_5 by assumption. rewrite Hs2, Hs1. reflexivity. }
        rewrite (stall_part_idle _ _ _ Hns), (flush_part_none _ _ _ _ _ Hff).
        do 3 eexists. split; [reflexivity|]. split; [left; reflexivity|left; split; reflexivity]. }
    destruct Hpost as (stl & sv & s5 & Hpost & Hs5 & Hstl').
    rewrite Hpost in *.
    assert (F5 : regs s5 = regs s4 /\ ms s5 = ms s4 /\ out s5 = out s4 /\ exitc s5 = exitc s4 /\
                 icount s5 = icount s4 /\ bcount s5 = bcount s4 /\ pcount s5 = pcount s4 /\
                 pc s5 = pc s4 /\ im s5 = im s4) by (destruct Hs5 as [-> | ->]; repeat split).
    destruct F5 as (Fr & Fm & Fo & Fe & Fi & Fb & Fp & Fpc & Fim).
    destruct (new_fetch P dead (adv l0 (adv l1 (adv l2 (adv l3 s)))) n0 (pc (pst p)) (pc s1))
      as (dead' & Hdd & L0' & HF').
    { intros H0. destruct (HF H0) as (a & b & c & d). csplit; assumption. }
    { destruct n0; [destruct Hn0 as (a & b & c & _);
        change (pc (bumped (pst p))) with (pc (pst p)) in *; csplit; assumption|apply Hn0]. }
    assert (Hne1 : nonempty n1 = nonempty l0) by apply nonempty_id_on.
    assert (HPt1 : prog (im (adv l2 (adv l3 s))) = P /\ wf (adv l2 (adv l3 s))).
    { apply adv_prog; auto. destruct l2; [apply (L2 Logic.I)|exact Logic.I]. }
    destruct HPt1 as [HPt1 Wt1].
    assert (O1 : (dead <= 1)%nat -> okl P (adv l2 (adv l3 s)) l1).
    { intros Hd1. destruct l1 as [x1|]; [|exact Logic.I]. cbn [lv] in L1.
      destruct (L1 ltac:(lia)) as (Wt & Hon & _ & _ & Hpl).
      split; [exact Wt|]. split; [exact Hon|]. apply Hpl. lia. }
    split; [|split].
    + exists n0, n1, n2, n3, n4, dead'. constructor; cbn [pst lat stalled saved hazards].
      * reflexivity.
      * exact Sh'.
      * reflexivity.
      * rewrite Fim, Him4, Him2. exact HP1.
      * exact HP2.
      * exact W2.
      * exact Hex2.
      * lia.
      * subst n1. destruct l0; [rewrite id_on_some; apply id_slot_Dsh|exact Logic.I].
      * exact L3'.
      * rewrite (adv_ne n3 l2) by exact Hne3.
        apply (lv_map P _ _ _ _ _ _ _ _ _ L1); try lia.
        destruct l1 as [x1|], n2 as [x2|]; try contradiction; [|exact Logic.I].
        destruct Hrel2 as (a & b & c). split; [exact a|]. split; [exact b|]. intros _ _ _ Hc. apply c, Hc, Hst.
      * rewrite (adv_ne n3 l2), (adv_ne n2 l1) by assumption.
        apply (lv_map P _ _ _ _ _ _ _ _ _ L0); try lia.
        subst n1. destruct l0 as [y|]; [rewrite id_on_some|exact Logic.I].
        split; [reflexivity|]. split; [reflexivity|]. intros Hlv _ (_ & Hay & _) _ Hstl.
        destruct Hstl' as [[_ Hs1]|[Hstl' _]]; [|rewrite Hstl' in Hstl; discriminate Hstl].
        rewrite id_on_some in Hs1. cbn [has_stall id_slot sl_stall] in Hs1.
        apply (id_operands P Hsup); try assumption; [apply O1; lia].
      * rewrite (adv_ne n3 l2), (adv_ne n2 l1), (adv_ne n1 l0) by assumption. exact L0'.
      * rewrite (adv_ne n3 l2), (adv_ne n2 l1), (adv_ne n1 l0) by assumption.
        intros H0. destruct (HF' H0) as (a & b & c & d). csplit; try assumption. congruence.
      * congruence.
      * rewrite (adv_ne n3 l2) by assumption. congruence.
      * rewrite (adv_ne n3 l2) by assumption. change (bcount (bumped (pst p))) with (bcount (pst p)) in Hb1. lia.
      * rewrite (adv_ne n3 l2) by assumption. change (pcount (bumped (pst p))) with (pcount (pst p)) in Hp1. lia.
      * rewrite (adv_ne n3 l2), (adv_ne n2 l1) by assumption.
        assert (Ho_l2 : out (adv l2 (adv l3 s)) = out (adv l3 s)).
        { apply (adv_out); try assumption. destruct l2; [apply (L2 Logic.I)|exact Logic.I]. }
        assert (Hlhs : out s5 = out (adv l3 s)).
        { rewrite Fo, Ho4, Ho2, Ho1. change (out (bumped (pst p))) with (out (pst p)). rewrite Hout.
          destruct (fired l2); [exact Ho_l2|reflexivity]. }
        rewrite Hlhs, Hfd2, Hne2. destruct l1 as [x1|]; cbn [nonempty]; [|symmetry; exact Ho_l2].
        transitivity (out (adv l2 (adv l3 s))); [symmetry; exact Ho_l2|].
        symmetry. apply (adv_out); [exact Wt1|exact HPt1|].
        cbn [lv] in L1. apply L1. lia.
      * change (exitc (bumped (pst p))) with (exitc (pst p)) in He1. congruence.
      * change (icount (bumped (pst p))) with (icount (pst p)) in Hi1. lia.
      * rewrite Hfd2. destruct Hstl' as [[-> _]|[-> _]]; reflexivity.
    + reflexivity.
    + intros ->. unfold mu, dcount. cbn [lat stalled]. rewrite Hl, Hst. lat5.
      rewrite Hne3, Hne2, Hne1. cbn [nonempty].
      destruct l2 as [x2|]; cbn [nonempty]; [lia|].
      destruct l1 as [x1|]; cbn [nonempty]; [lia|].
      assert (Hstl0 : stl = None).
      { destruct Hstl' as [[H _]|[_ H]]; [exact H|].
        apply has_stall_id_needs in H. cbn [nonempty] in H. destruct H as [_ [H|H]]; discriminate H. }
      rewrite Hstl0.
      destruct l0 as [x0|]; cbn [nonempty]; [lia|].
      destruct n0 as [x|]; cbn [nonempty]; [lia|]. exfalso.
      destruct Hn0 as [_ Hn0]. unfold pipe_done, pipe_empty in Hnd. rewrite Hexc, Hl in Hnd. lat5h Hnd.
      cbn [nonempty orb negb andb] in Hnd. unfold has_instr in Hnd. rewrite HPp in Hnd.
      change (pc (bumped (pst p))) with (pc (pst p)) in Hn0. rewrite Hn0 in Hnd. discriminate Hnd.
Qed.


(* a MEM that went through: the slot was plain *)
Lemma mem_ok_plain dead t l2 n3 : L2ok P l2 -> prog (im t) = P -> lv P True (dead = 3%nat) t l2 Eok ->
  match l2, n3 with
  | Some x2, Some x3 =>
      Mok t x3 /\ sl_instr x3 = sl_instr x2 /\ sl_addr x3 = sl_addr x2 /\
      sl_flush x3 = mem_flush x2 /\ sl_exit x3 = sl_exit x2 /\
      snd (single_pipeline_step t) = None /\
      exitc (nxt t) = match sl_exit x3 with Some c => Some c | None => None end /\
      pc (nxt t) = match sl_flush x3 with Some a => a | None => pc t + 4 end
  | None, None => True
  | _, _ => False
  end ->
  flush_of n3 = None /\ lv3 P t n3 /\ okl P t l2 /\ dead <> 3%nat.
Proof.
  intros K2 HP2 L2 Hrel3. destruct l2 as [x2|], n3 as [x3|]; try contradiction.
  - destruct Hrel3 as (HMok & Hi3 & Ha3 & Hfl3 & Hex3 & Hok & _).
    cbn [lv] in L2. destruct (L2 Logic.I) as (Wt & (Hx & Ha & Hi) & _ & Hbar & _).
    destruct K2 as (R2 & _ & _ & Hexi & _).
    assert (Hpl : plain t (sl_instr x2)) by (apply (plain_straight _ _ Wt HP2 Hx Hi Hok)).
    split.
    { cbn [flush_of]. rewrite Hfl3. apply mem_flush_straight; [eapply str_at; eauto|].
      destruct (sl_exit x2) eqn:E; [|reflexivity]. exfalso.
      pose proof (str_at _ _ R2) as Hs. rewrite Hexi in Hs by discriminate. discriminate Hs. }
    split.
    { cbn [lv3]. split; [exact Wt|]. split; [unfold onp; rewrite Hi3, Ha3; repeat split; assumption|].
      split; [exact HMok|]. split; apply Hpl. }
    split; [cbn [okl]; split; [exact Wt|split; [repeat split; assumption|exact Hok]]|].
    intros Hd3. apply (Hbar Hd3). exact Hpl.
  - split; [reflexivity|]. split; [exact Logic.I|]. split; [exact Logic.I|exact L2].
Qed.


(** * One step, stalled at ID *)
Lemma step_stall1 p s l0 l1 l2 l3 l4 dead d : InvAt P p s l0 l1 l2 l3 l4 dead ->
  stalled p = Some (1, d) ->
  match pipe_step p with
  | (p', None) => Inv P p' (adv l3 s) /\ lat_at (lat p') 4 = option_map wb_slot l3 /\
                  (l3 = None -> mu p' < mu p)
  | (p', Some f) => exists tm, single_pipeline_step (adv l3 s) = (tm, Some f) /\
                  single_done (adv l3 s) = false /\
                  regs (pst p') = regs tm /\ ms (pst p') = ms tm /\ out (pst p') = out tm
  end.
Proof.
  intros [Hl Sh Hz HPp HPs W Hexs Hd D1 L3 L2 L1 L0 HF Hrg Hms Hbc Hpcn Hout Hexc Hic] Hst.
  pose proof (shape_step no_icache p no_icache_faithful Sh) as Sh'.
  destruct (shape_at p _ _ _ _ _ Sh Hl) as (K0 & K1 & K2 & K3 & K4 & KM). rewrite HPp in *.
  rewrite Hst in KM. unfold ModeInv in KM. destruct (saved p) as [svl|] eqn:Hsv; [|contradiction].
  destruct KM as [Hd12 [(_ & m & x1 & -> & -> & Hm & Him & Ham & _ & Hd1)|(Habs & _)]]; [|discriminate Habs].
  rewrite (pipe_step_stall1 p _ _ _ _ _ d Hl Hst) in *. unfold run_stall1, sv_at in *. rewrite Hz, Hsv in *.
  change (lat_at [Some m] 0) with (Some m) in *.
  destruct (wb_stage P Hsup s l3 (bumped (pst p)) HPs L3 W Hexs Hrg)
    as (s2 & HWB & Hf4 & Hr2 & Hm2 & Ho2 & Hb2 & Hp2 & He2 & Hpc2 & Him2 & Hi2 & W2 & HP2 & Hex2).
  rewrite HWB in *.
  destruct (mem_on l2 s2) as [[n3 s4] oe] eqn:HM.
  pose proof (mem_stage P Hsup _ _ _ _ _ _ _ HP2 L2 (fired_straight l2 K2)
                ltac:(rewrite Hm2; exact Hms) HM) as (Hr4 & Ho4 & He4 & Hi4 & Hpc4 & Him4 & HMEM).
  destruct oe as [e|].
  - destruct HMEM as (x2 & tm & -> & Hstep & Hm4 & Hrtm).
    cbn [finish fst snd faulted pst fault_at fault_of lat_at nthZ nth Z.to_nat].
    exists tm. split; [exact Hstep|].
    cbn [lv] in L2. destruct (L2 Logic.I) as (_ & (Hx & _ & Hi) & _).
    split; [apply (not_done _ (sl_instr x2)); [exact Hx|rewrite HP2; exact Hi]|].
    split; [rewrite Hr4, Hr2, Hrtm; reflexivity|]. split; [exact Hm4|].
    rewrite Ho4, Ho2. change (out (bumped (pst p))) with (out (pst p)). rewrite Hout.
    rewrite (fired_straight _ K2). cbn [nonempty adv]. unfold nxt. rewrite Hstep. reflexivity.
  - destruct HMEM as (Hne3 & Hm4 & Hs3 & Hb4 & Hp4 & Hrel3).
    set (n1 := id_on true (Some m) (Some x1) l2 s2) in *.
    set (n4 := option_map wb_slot l3) in *.
    assert (Hs4 : has_stall n4 = false) by (subst n4; destruct l3; reflexivity).
    destruct (mem_ok_plain dead _ _ _ K2 HP2 L2 Hrel3) as (Hf3 & L3' & O2 & Hd3).
    cbn [finish]. cbn [finish fst] in Sh'.
    match goal with |- context [post p ?nx s4] =>
    assert (Hpost : exists stl sv, post p nx s4 =
              {| pst := s4; lat := nx; stalled := stl; saved := sv; hazards := true |} /\
              ((d = 2 /\ stl = Some (1, 1)) \/ (d = 1 /\ stl = None))) end.
    { assert (Hff : first_flush [l0; n1; None; n3; n4] = None).
      { rewrite first_flush_5; [|apply (L0ok_flags _ _ K0)|apply id_on_flags].
        rewrite Hf4, Hf3. reflexivity. }
      assert (Hns : new_stall [l0; n1; None; n3; n4] (Some (1, d)) = None).
      { rewrite new_stall_5; [|apply (L0ok_flags _ _ K0)|assumption|assumption].
        cbn [has_stall andb above]. replace (1 <? 1) with false by lia. rewrite Bool.andb_false_r. reflexivity. }
      unfold post. rewrite Hst, Hsv, Hz.
      destruct Hd12 as [-> | ->].
      - rewrite (stall_part_first _ _ _ _ _ Hns), (flush_part_none _ _ _ _ _ Hff).
        do 2 eexists. split; [reflexivity|left; split; reflexivity].
      - rewrite (stall_part_last _ _ _ _ _ Hns), (flush_part_none _ _ _ _ _ Hff).
        do 2 eexists. split; [reflexivity|right; split; reflexivity]. }
    destruct Hpost as (stl & sv & Hpost & Hstl').
    rewrite Hpost in *.
    assert (Hne1 : nonempty n1 = true) by (subst n1; rewrite id_on_some; reflexivity).
    split; [|split].
    + exists l0, n1, None, n3, n4, dead. constructor; cbn [pst lat stalled saved hazards].
      * reflexivity.
      * exact Sh'.
      * reflexivity.
      * rewrite Him4, Him2. exact HPp.
      * exact HP2.
      * exact W2.
      * exact Hex2.
      * lia.
      * subst n1. rewrite id_on_some. apply id_slot_Dsh.
      * exact L3'.
      * cbn [lv]. exact Hd3.
      * rewrite (adv_ne n3 l2) by exact Hne3. cbn [adv nonempty].
        change (adv l2 (adv l3 s)) with (adv None (adv l2 (adv l3 s))) in L1 at 1.
        apply (lv_map P _ _ _ _ _ _ _ _ _ L1); try tauto.
        subst n1. rewrite id_on_some.
        split; [cbn [id_slot sl_instr]; congruence|]. split; [cbn [id_slot sl_addr]; congruence|].
        intros _ _ (_ & Hax & _) _ Hstl. destruct Hstl' as [[_ H]|[Hd1' _]]; [rewrite H in Hstl; discriminate|].
        rewrite (Hd1 Hd1') in *. cbn [adv nonempty] in *.
        apply id_operands_exact; [exact Hr2|congruence].
      * rewrite (adv_ne n3 l2) by exact Hne3. rewrite (adv_ne n1 (Some x1)) by (rewrite Hne1; reflexivity).
        exact L0.
      * rewrite (adv_ne n3 l2) by exact Hne3. rewrite (adv_ne n1 (Some x1)) by (rewrite Hne1; reflexivity).
        cbn [adv nonempty] in *.
        intros H0. destruct (HF H0) as (a & b & c & e). csplit; try assumption.
        change (pc (bumped (pst p))) with (pc (pst p)) in Hpc2. congruence.
      * congruence.
      * rewrite (adv_ne n3 l2) by assumption. congruence.
      * rewrite (adv_ne n3 l2) by assumption. change (bcount (bumped (pst p))) with (bcount (pst p)) in Hb2. lia.
      * rewrite (adv_ne n3 l2) by assumption. change (pcount (bumped (pst p))) with (pcount (pst p)) in Hp2. lia.
      * rewrite (adv_ne n3 l2) by assumption. cbn [fired].
        assert (Ho_l2 : out (adv l2 (adv l3 s)) = out (adv l3 s)).
        { apply (adv_out); try assumption. destruct l2; [apply (L2 Logic.I)|exact Logic.I]. }
        rewrite Ho4, Ho2. change (out (bumped (pst p))) with (out (pst p)). rewrite Hout, Ho_l2.
        destruct (fired l2); [exact Ho_l2|reflexivity].
      * change (exitc (bumped (pst p))) with (exitc (pst p)) in He2. congruence.
      * change (icount (bumped (pst p))) with (icount (pst p)) in Hi2. lia.
      * cbn [fired nonempty]. destruct Hstl' as [[_ ->]|[_ ->]]; reflexivity.
    + reflexivity.
    + intros ->. unfold mu, dcount. cbn [lat stalled]. rewrite Hl, Hst. lat5.
      rewrite Hne3, Hne1. cbn [nonempty].
      destruct l2 as [x2|]; cbn [nonempty]; [lia|].
      destruct Hstl' as [[-> ->]|[-> ->]]; lia.
Qed.

(** * One step in any mode *)
Lemma inv_step p s l0 l1 l2 l3 l4 dead : InvAt P p s l0 l1 l2 l3 l4 dead -> pipe_done p = false ->
  match pipe_step p with
  | (p', None) => Inv P p' (adv l3 s) /\ lat_at (lat p') 4 = option_map wb_slot l3 /\
                  (l3 = None -> mu p' < mu p)
  | (p', Some f) => exists tm, single_pipeline_step (adv l3 s) = (tm, Some f) /\
                  single_done (adv l3 s) = false /\
                  regs (pst p') = regs tm /\ ms (pst p') = ms tm /\ out (pst p') = out tm
  end.
Proof.
  intros I Hnd. pose proof (iv_shape _ _ _ _ _ _ _ _ _ I) as Sh.
  destruct (shape_mode_cases no_icache p Sh) as [Hst|(k & d & Hst & [-> | ->])].
  - eapply step_normal; eassumption.
  - eapply step_stall1; eassumption.
  - exfalso. pose proof (iv_lat _ _ _ _ _ _ _ _ _ I) as Hl. pose proof (iv_progp _ _ _ _ _ _ _ _ _ I) as HPp.
    destruct (shape_at p _ _ _ _ _ Sh Hl) as (_ & _ & K2 & _ & _ & KM). rewrite HPp in *.
    rewrite Hst in KM. unfold ModeInv in KM. destruct (saved p); [|contradiction].
    destruct KM as [_ [(Habs & _)|(_ & m0 & y1 & x2 & _ & _ & -> & Hsk & _)]]; [discriminate Habs|].
    destruct Hsk as (_ & _ & _ & _ & Hi2 & _). destruct K2 as (R2 & _).
    pose proof (str_at _ _ R2) as Hs. rewrite Hi2 in Hs. discriminate Hs.
Qed.


(** * The simulation *)
Lemma sim_done n s p : Inv P p s -> single_done s = true -> sim_goal n s p.
Proof.
  intros (l0 & l1 & l2 & l3 & l4 & dead & I) Hd. unfold sim_goal.
  destruct (single_run_done n s Hd) as [-> ->].
  destruct (done_empty P _ _ _ _ _ _ _ _ I Hd) as [-> ->].
  exists 0%nat, p. pose proof (mu_bounds p (iv_shape _ _ _ _ _ _ _ _ _ I)).
  split; [lia|]. split; [cbn [pipe_run]; rewrite (done_iff P _ _ _ _ _ _ _ _ I), Hd; reflexivity|].
  split; [eapply inv_empty_agree; eauto|reflexivity].
Qed.

Lemma sim n : forall s p, Inv P p s -> sim_goal n s p.
Proof.
  induction n as [|k IHk]; intros s p Hinv.
  { destruct (single_done s) eqn:Hd; [apply sim_done; assumption|].
    unfold sim_goal. cbn [single_run]. rewrite Hd. exact Logic.I. }
  remember (Z.to_nat (mu p)) as m eqn:Hm. revert p Hinv Hm.
  induction m as [m IHm] using lt_wf_ind. intros p Hinv Hm.
  destruct (single_done s) eqn:Hd; [apply sim_done; assumption|].
  destruct Hinv as (l0 & l1 & l2 & l3 & l4 & dead & I).
  pose proof (iv_shape _ _ _ _ _ _ _ _ _ I) as Sh. pose proof (mu_bounds p Sh) as Hmu.
  assert (Hpd : pipe_done p = false) by (rewrite (done_iff P _ _ _ _ _ _ _ _ I); exact Hd).
  pose proof (inv_step _ _ _ _ _ _ _ _ I Hpd) as Hstep.
  (* what the retirement of latch 3 means for the single-cycle machine *)
  assert (H3 : forall x3, l3 = Some x3 ->
             single_pipeline_step s = (nxt s, None) /\ sl_addr x3 = pc s).
  { intros x3 ->. destruct (iv_l3 _ _ _ _ _ _ _ _ _ I) as (_ & (_ & Ha & _) & _ & Hok & _).
    split; [|exact Ha].
    unfold nxt. destruct (single_pipeline_step s) as [s' o]. cbn [snd fst] in *. rewrite Hok. reflexivity. }
  destruct (pipe_step p) as [p' [f|]] eqn:Hps.
  - destruct Hstep as (tm & Hss & Hnd & Hr & Hms & Ho).
    destruct l3 as [x3|]; cbn [adv nonempty] in *.
    + destruct (H3 x3 eq_refl) as [Hs3 _]. unfold sim_goal.
      destruct (single_run_step k s _ Hd Hs3) as [-> _].
      destruct k as [|k']; [cbn [single_run]; rewrite Hnd; exact Logic.I|].
      rewrite (single_run_fault k' _ _ _ Hnd Hss).
      exists 1%nat, p'. split; [lia|]. split; [apply pipe_run_fault; assumption|]. repeat split; assumption.
    + unfold sim_goal. rewrite (single_run_fault k _ _ _ Hd Hss).
      exists 1%nat, p'. split; [lia|]. split; [apply pipe_run_fault; assumption|]. repeat split; assumption.
  - destruct Hstep as (Hinv' & Hl4 & Hmu').
    destruct l3 as [x3|]; cbn [adv nonempty option_map] in *.
    + destruct (H3 x3 eq_refl) as [Hs3 Ha3]. specialize (IHk (nxt s) p' Hinv').
      unfold sim_goal in *. destruct (single_run_step k s _ Hd Hs3) as [-> ->].
      assert (Hmu4 : 0 <= mu p' <= 4).
      { destruct Hinv' as (? & ? & ? & ? & ? & ? & I'). apply mu_bounds. apply (iv_shape _ _ _ _ _ _ _ _ _ I'). }
      destruct (single_run k (nxt s)) as [s' [|f|]]; [| |exact Logic.I].
      * destruct IHk as (c & p'' & Hc & Hrun & Hag & Htr). exists (S c), p''.
        destruct (pipe_run_step c p p' Hpd Hps) as [-> ->]. rewrite Hl4. cbn [some_addr wb_slot sl_addr app].
        split; [lia|]. split; [exact Hrun|]. split; [exact Hag|]. rewrite Htr, Ha3. reflexivity.
      * destruct IHk as (c & p'' & Hc & Hrun & Hag). exists (S c), p''.
        destruct (pipe_run_step c p p' Hpd Hps) as [-> _]. split; [lia|]. split; assumption.
    + specialize (Hmu' eq_refl).
      assert (Hlt : (Z.to_nat (mu p') < m)%nat).
      { destruct Hinv' as (? & ? & ? & ? & ? & ? & I'). pose proof (mu_bounds p' (iv_shape _ _ _ _ _ _ _ _ _ I')). lia. }
      specialize (IHm _ Hlt p' Hinv' eq_refl). unfold sim_goal in *.
      destruct (single_run (S k) s) as [s' [|f|]]; [| |exact Logic.I].
      * destruct IHm as (c & p'' & Hc & Hrun & Hag & Htr). exists (S c), p''.
        destruct (pipe_run_step c p p' Hpd Hps) as [-> ->]. rewrite Hl4. cbn [some_addr app].
        split; [lia|]. split; [exact Hrun|]. split; assumption.
      * destruct IHm as (c & p'' & Hc & Hrun & Hag). exists (S c), p''.
        destruct (pipe_run_step c p p' Hpd Hps) as [-> _]. split; [lia|]. split; assumption.
Qed.

End Straight.

(** * Refinement for straight-line programs *)
Theorem pipe_refines_single_straight P s n :
  Forall (fun i => straight i = true) P -> wf s -> prog (im s) = P ->
  match single_run n s with
  | (s', Done) => exists c p, (c <= 8 * n + 8)%nat /\
      pipe_run c (pipe_init s true) = (p, PDone) /\ arch_agree p s' /\
      pipe_trace c (pipe_init s true) = single_trace n s
  | (s', Faulted f) => exists c p, (c <= 8 * n + 8)%nat /\
      pipe_run c (pipe_init s true) = (p, PFaulted f) /\
      regs (pst p) = regs s' /\ ms (pst p) = ms s' /\ out (pst p) = out s'
  | (_, OutOfFuel) => True
  end.
Proof.
  intros HS W HP. destruct (exitc s) as [c0|] eqn:Hex.
  - assert (Hd : single_done s = true) by (unfold single_done; rewrite Hex; reflexivity).
    destruct (single_run_done n s Hd) as [-> ->].
    exists 0%nat, (pipe_init s true). split; [lia|].
    split; [cbn [pipe_run]; unfold pipe_done; cbn [pipe_init pst]; rewrite Hex; reflexivity|].
    split; [unfold arch_agree; cbn [pipe_init pst]; repeat split|reflexivity].
  - pose proof (sim P HS n s _ (inv_init P s W HP Hex)) as H. unfold sim_goal in H.
    assert (Hmu : mu (pipe_init s true) = 4) by reflexivity. rewrite Hmu in H.
    destruct (single_run n s) as [s' [|f|]]; [| |exact Logic.I].
    + destruct H as (c & p & Hc & Hrun & Hag & Htr). exists c, p. split; [lia|]. split; [exact Hrun|split; assumption].
    + destruct H as (c & p & Hc & Hrun & Hag). exists c, p. split; [lia|]. split; assumption.
Qed.
Print Assumptions pipe_refines_single_straight.
