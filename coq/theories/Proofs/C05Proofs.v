(* C05Proofs.v — property C05: the data segment layout of the RISC-V assembler, addresses of
   name / name[i], the li / la / load-by-name / store-by-name pseudo-instructions, the literal
   reader int(text, base=0), and independence of the segment order.

   The first part of every section holds the (model-independent) vocabulary that the statements in
   Props/C05.v use; the rest is proofs. *)
From Coq Require Import Lia ZifyBool.
From ArchSim Require Import Model.Base Model.Mem Model.Cache Model.Fmt Model.RV Model.Toy Model.Asm
  Spec.RV32IM Spec.Numerals Proofs.WordLemmas Proofs.MapLemmas Proofs.C01Arith Proofs.C01Step
  Proofs.C01Extra Proofs.C17Proofs Proofs.C19Proofs.
Open Scope Z_scope.

Ltac Zify.zify_post_hook ::= Z.to_euclidean_division_equations.
Local Arguments Z.mul : simpl never.
Local Arguments Z.add : simpl never.
Local Arguments Z.sub : simpl never.
Local Arguments Z.pow : simpl never.
Local Arguments Z.div : simpl never.
Local Arguments Z.modulo : simpl never.
Local Arguments Z.land : simpl never.
Local Arguments Z.shiftl : simpl never.
Local Arguments Z.shiftr : simpl never.
Local Arguments Z.of_nat : simpl never.
Local Arguments Z.to_nat : simpl never.

(** * 2. The lui/addi split *)

Lemma hi_lo_correct_lem : forall v hi lo, hi_lo v = (hi, lo) ->
  0 <= lo < 4096 /\ 0 <= hi <= 2 ^ 20 /\
  lo = v mod 4096 /\
  hi = (v mod 2 ^ 32) / 4096 + (if lo >? 2047 then 1 else 0) /\
  U32 (Z.shiftl (sext20 hi) 12 + sext12 lo) = U32 v.
Proof.
  intros v hi lo H. unfold hi_lo in H. cbv zeta in H.
  rewrite land_4095 in H. rewrite shr_div in H by lia.
  assert (Hu : 0 <= U32 v < 4294967296) by apply U32_range.
  change (2 ^ 12) with 4096 in H. change (2 ^ 20) with 1048576. change (2 ^ 32) with 4294967296.
  set (u := U32 v) in *.
  assert (Hlo : (u mod 4096 <? -2048) = false) by lia.
  rewrite Hlo, orb_false_r in H.
  destruct (sext_all hi) as (_ & _ & E20 & _). destruct (sext_all lo) as (E12 & _).
  rewrite E20, E12. unfold sextn; cbv zeta. rewrite shl_mul by lia.
  change (2 ^ 12) with 4096. change (2 ^ 20) with 1048576. change (2 ^ (20 - 1)) with 524288.
  change (2 ^ (12 - 1)) with 2048.
  rewrite !U32_eq. unfold u in *. rewrite U32_eq in *.
  destruct (v mod 4294967296 mod 4096 >? 2047) eqn:E; injection H as <- <-; rewrite ?E;
    (split; [lia|]); (split; [lia|]); (split; [lia|]); (split; [lia|]);
    destruct (_ <? 524288) eqn:E1; destruct (_ <? 2048) eqn:E2; lia.
Qed.

(** * 1. Literals: int(text, base=0) *)

(* vocabulary *)
Definition is_bin_char (c : Z) : Prop := c = 48 \/ c = 49.
(* the token pattern of an immediate: optional '-', then 0x<hex digits> | 0b<bits> | <decimal digits> *)
Inductive ushape : str -> Prop :=
| UHex h : h <> [] -> Forall is_hex_char h -> ushape (48 :: 120 :: h)
| UBin b : b <> [] -> Forall is_bin_char b -> ushape (48 :: 98 :: b)
| UDec d : d <> [] -> Forall is_dec_char d -> ushape d.
Definition imm_shape (s : str) : Prop := ushape s \/ exists u, s = 45 :: u /\ ushape u.
(* a decimal digit string int(.., 0) refuses: more than 4300 characters, or a leading '0' followed by
   further characters unless every character is '0' *)
Definition dec_rejected (u : str) : Prop :=
  Forall is_dec_char u /\
  (Z.of_nat (length u) > 4300 \/
   exists t, u = 48 :: t /\ t <> [] /\ exists c, In c t /\ c <> 48).

Lemma py_unsigned_cons2 c1 c2 t :
  py_int0_unsigned (c1 :: c2 :: t) =
  if c1 =? 48 then
    if c2 =? 120 then Some (digits_value 16 t)
    else if c2 =? 98 then Some (digits_value 2 t)
    else if all_zero (c1 :: c2 :: t) && (Z.of_nat (length (c1 :: c2 :: t)) <=? max_str_digits)
         then Some 0 else None
  else if Z.of_nat (length (c1 :: c2 :: t)) >? max_str_digits then None
       else Some (digits_value 10 (c1 :: c2 :: t)).
Proof.
  destruct c1 as [|p|p]; try reflexivity.
  do 6 (destruct p as [p|p|]; try reflexivity).
  destruct c2 as [|q|q]; try reflexivity.
  do 7 (destruct q as [q|q|]; try reflexivity).
Qed.

Lemma py_unsigned_single c : py_int0_unsigned [c] = Some (hexval c).
Proof.
  destruct c as [|p|p]; try reflexivity.
  do 6 (destruct p as [p|p|]; try reflexivity).
Qed.

Lemma py_int0_cons c r :
  py_int0 (c :: r) = if c =? 45 then match py_int0_unsigned r with Some z => Some (- z) | None => None end
                     else py_int0_unsigned (c :: r).
Proof.
  destruct c as [|p|p]; try reflexivity.
  do 6 (destruct p as [p|p|]; try reflexivity).
Qed.

Lemma py_int0_nil : py_int0 [] = Some 0.
Proof. reflexivity. Qed.

Lemma all_zero_value base s : all_zero s = true -> forall acc, fold_left (fun a c => a * base + hexval c) s acc = acc * base ^ Z.of_nat (length s).
Proof.
  induction s as [|c t IH]; intros H acc; cbn [fold_left length].
  - change (Z.of_nat 0) with 0. rewrite Z.pow_0_r. lia.
  - cbn [all_zero forallb] in H. apply andb_prop in H as [Hc Ht]. apply Z.eqb_eq in Hc. subst c.
    rewrite (IH Ht). change (hexval 48) with 0. rewrite Nat2Z.inj_succ, Z.pow_succ_r by lia. ring.
Qed.

Lemma all_zero_digits_value base s : all_zero s = true -> digits_value base s = 0.
Proof. intros H. unfold digits_value. rewrite all_zero_value by assumption. lia. Qed.

Lemma all_zero_iff s : all_zero s = true <-> forall c, In c s -> c = 48.
Proof.
  unfold all_zero. rewrite forallb_forall. split; intros H c Hc; specialize (H c Hc); lia.
Qed.

(* decimal digit strings *)
Definition leading_zero (s : str) : bool := match s with c :: _ :: _ => c =? 48 | _ => false end.

Lemma py_unsigned_dec s : Forall is_dec_char s -> s <> [] ->
  py_int0_unsigned s =
  if Z.of_nat (length s) >? 4300 then None
  else if leading_zero s then (if all_zero s then Some 0 else None)
  else Some (digits_value 10 s).
Proof.
  intros HF Hne. destruct s as [|c1 [|c2 t]]; [congruence | |].
  - rewrite py_unsigned_single. reflexivity.
  - rewrite py_unsigned_cons2. unfold max_str_digits. cbn [leading_zero].
    inversion HF as [|? ? H1 HF1]; subst. inversion HF1 as [|? ? H2 _]; subst.
    unfold is_dec_char in H1, H2.
    replace (c2 =? 120) with false by lia. replace (c2 =? 98) with false by lia.
    destruct (c1 =? 48) eqn:E1; [|reflexivity].
    destruct (Z.of_nat (length (c1 :: c2 :: t)) >? 4300) eqn:El.
    + replace (Z.of_nat (length (c1 :: c2 :: t)) <=? 4300) with false by lia.
      rewrite andb_false_r. reflexivity.
    + replace (Z.of_nat (length (c1 :: c2 :: t)) <=? 4300) with true by lia.
      rewrite andb_true_r. reflexivity.
Qed.

(* the characters of a decimal rendering *)
Lemma fmt_nat_dec_chars z : 0 <= z -> Forall is_dec_char (fmt_nat 10 z).
Proof.
  intros Hz. unfold fmt_nat, nat_digits.
  destruct (digits_lsf_spec 10 ltac:(lia) _ z (fuel_ok z Hz)) as [H1 _].
  apply Forall_forall. intros c Hc. apply in_map_iff in Hc. destruct Hc as (d & <- & Hd).
  apply in_rev in Hd. unfold digits_ok in H1. rewrite Forall_forall in H1. specialize (H1 _ Hd).
  unfold is_dec_char, digit_char. replace (d <? 10) with true by lia. lia.
Qed.

Lemma horner_digits_value base : forall s acc v, horner base acc s = Some v ->
  fold_left (fun a c => a * base + hexval c) s acc = v.
Proof.
  induction s as [|c t IH]; intros acc v H; cbn [horner fold_left] in *.
  - congruence.
  - destruct (digit_val c) as [d|] eqn:Ed; [|discriminate].
    destruct (d <? base); [|discriminate].
    replace (hexval c) with d; [apply IH; exact H|].
    unfold digit_val in Ed. unfold hexval.
    destruct ((48 <=? c) && (c <=? 57)); [congruence|].
    destruct ((65 <=? c) && (c <=? 70)); [congruence | discriminate].
Qed.

Lemma digits_value_fmt_nat base z : 2 <= base <= 16 -> 0 <= z -> digits_value base (fmt_nat base z) = z.
Proof.
  intros Hb Hz. destruct (fmt_nat_roundtrip_lem base z Hb Hz) as (H & _).
  rewrite of_digits_horner in H by apply fmt_nat_nonempty.
  apply horner_digits_value. exact H.
Qed.

(* 10^4300 is kept folded in the proofs so that lia never computes it *)
Definition dec_limit : Z := 10 ^ 4300.

Lemma pow10_4300 z : z < dec_limit -> z < 10 ^ Z.of_nat 4300.
Proof. intros H. exact H. Qed.

Lemma dec_limit_big : 4294967296 < dec_limit.
Proof.
  unfold dec_limit. assert (H : 10 ^ 10 <= 10 ^ 4300) by (apply Z.pow_le_mono_r; [reflexivity | discriminate]).
  eapply Z.lt_le_trans; [|exact H]. reflexivity.
Qed.

Lemma nat_1_le_4300 : (1 <= 4300)%nat.
Proof. apply Nat.leb_le. reflexivity. Qed.

Lemma py_unsigned_fmt_nat z : 0 <= z < dec_limit -> py_int0_unsigned (fmt_nat 10 z) = Some z.
Proof.
  intros Hz.
  pose proof (fmt_nat_dec_chars z (proj1 Hz)) as HF.
  pose proof (fmt_nat_nonempty 10 z) as Hne.
  assert (H2 : 2 <= 10) by lia.
  pose proof (fmt_nat_length 10 z 4300 H2 (conj (proj1 Hz) (pow10_4300 _ (proj2 Hz))) nat_1_le_4300) as Hl.
  rewrite py_unsigned_dec by assumption.
  assert (Hl' : Z.of_nat (length (fmt_nat 10 z)) <= 4300).
  { change 4300 with (Z.of_nat 4300). apply Nat2Z.inj_le. exact (proj2 Hl). }
  replace (Z.of_nat (length (fmt_nat 10 z)) >? 4300) with false by lia.
  destruct (fmt_nat_roundtrip_lem 10 z ltac:(lia) (proj1 Hz)) as (_ & H0 & Hp).
  destruct (Z.eq_dec z 0) as [->|Hnz].
  - rewrite (H0 eq_refl). reflexivity.
  - destruct (Hp ltac:(lia)) as (c & t & E & Hc).
    assert (Hv : digits_value 10 (fmt_nat 10 z) = z) by (apply digits_value_fmt_nat; lia).
    rewrite E in *.
    replace (leading_zero (c :: t)) with false; [rewrite Hv; reflexivity|].
    destruct t; cbn [leading_zero]; [reflexivity | lia].
Qed.

Lemma fmt_nat_head_not_minus z : 0 <= z -> exists c t, fmt_nat 10 z = c :: t /\ 48 <= c <= 57.
Proof.
  intros Hz. pose proof (fmt_nat_dec_chars z Hz) as HF. pose proof (fmt_nat_nonempty 10 z) as Hne.
  destruct (fmt_nat 10 z) as [|c t]; [congruence|]. exists c, t. split; [reflexivity|].
  inversion HF; assumption.
Qed.

(* 1a. decimal renderings read back *)
Lemma py_int0_str_dec : forall z, - dec_limit < z < dec_limit -> py_int0 (str_dec z) = Some z.
Proof.
  intros z Hz. unfold str_dec, fmt_int. destruct (z <? 0) eqn:E.
  - rewrite py_int0_cons. change (45 =? 45) with true. cbv iota.
    rewrite py_unsigned_fmt_nat by lia. f_equal. lia.
  - destruct (fmt_nat_head_not_minus z ltac:(lia)) as (c & t & Ef & Hc).
    rewrite <- (py_unsigned_fmt_nat z) by lia. rewrite Ef. rewrite py_int0_cons.
    replace (c =? 45) with false by lia. reflexivity.
Qed.

Lemma py_int0_neg_str_dec : forall z, 0 <= z < dec_limit -> py_int0 (45 :: str_dec z) = Some (- z).
Proof.
  intros z Hz. rewrite py_int0_cons. change (45 =? 45) with true. cbv iota.
  unfold str_dec, fmt_int. replace (z <? 0) with false by lia.
  rewrite py_unsigned_fmt_nat by lia. reflexivity.
Qed.

Lemma py_int0_str_dec_small z : -4294967296 < z < 4294967296 -> py_int0 (str_dec z) = Some z.
Proof.
  intros H. apply py_int0_str_dec. pose proof dec_limit_big. lia.
Qed.

(* 1b. hexadecimal and binary literals, either sign *)
Lemma py_int0_hex_lem : forall h, Forall is_hex_char h ->
  py_int0 (48 :: 120 :: h) = Some (positional 16 (map hex_digit h)) /\
  py_int0 (45 :: 48 :: 120 :: h) = Some (- positional 16 (map hex_digit h)).
Proof.
  intros h HF. rewrite !py_int0_cons. change (48 =? 45) with false. change (45 =? 45) with true. cbv iota.
  rewrite py_unsigned_cons2. change (48 =? 48) with true. change (120 =? 120) with true. cbv iota.
  rewrite digits_value_positional.
  rewrite (map_ext_Forall is_hex_char hexval hex_digit h hexval_hex HF). split; reflexivity.
Qed.

Lemma hexval_bin c : is_bin_char c -> hexval c = dec_digit c.
Proof. intros [-> | ->]; reflexivity. Qed.

Lemma py_int0_bin_lem : forall b, Forall is_bin_char b ->
  py_int0 (48 :: 98 :: b) = Some (positional 2 (map dec_digit b)) /\
  py_int0 (45 :: 48 :: 98 :: b) = Some (- positional 2 (map dec_digit b)).
Proof.
  intros b HF. rewrite !py_int0_cons. change (48 =? 45) with false. change (45 =? 45) with true. cbv iota.
  rewrite py_unsigned_cons2. change (48 =? 48) with true. change (98 =? 120) with false.
  change (98 =? 98) with true. cbv iota.
  rewrite digits_value_positional.
  rewrite (map_ext_Forall is_bin_char hexval dec_digit b hexval_bin HF). split; reflexivity.
Qed.

(* 1c. decimal digit strings in general *)
Lemma all_zero_false s : all_zero s = false <-> exists c, In c s /\ c <> 48.
Proof.
  induction s as [|x t IH]; cbn [all_zero forallb In].
  - split; [discriminate | intros (c & [] & _)].
  - fold (all_zero t). destruct (x =? 48) eqn:E; cbn [andb].
    + rewrite IH. split; intros (c & Hc & Hn); exists c; [tauto|].
      destruct Hc as [<- | Hc]; [lia | tauto].
    + split; [|reflexivity]. intros _. exists x. split; [left; reflexivity | lia].
Qed.

Lemma dec_head_not_minus s : Forall is_dec_char s -> py_int0 s = py_int0_unsigned s.
Proof.
  intros HF. destruct s as [|c t]; [reflexivity|]. rewrite py_int0_cons.
  inversion HF as [|? ? Hc _]; subst. unfold is_dec_char in Hc. replace (c =? 45) with false by lia.
  reflexivity.
Qed.

Lemma py_int0_dec_lem : forall s, Forall is_dec_char s -> s <> [] ->
  (* no leading zero (or a single character): the decimal value, up to 4300 digits *)
  (Z.of_nat (length s) <= 4300 -> leading_zero s = false ->
     py_int0 s = Some (positional 10 (map dec_digit s)) /\
     py_int0 (45 :: s) = Some (- positional 10 (map dec_digit s))) /\
  (* all zeros: 0 *)
  (Z.of_nat (length s) <= 4300 -> (forall c, In c s -> c = 48) -> py_int0 s = Some 0 /\ py_int0 (45 :: s) = Some 0) /\
  (* a leading zero before anything else than zeros: refused *)
  (leading_zero s = true -> (exists c, In c s /\ c <> 48) -> py_int0 s = None /\ py_int0 (45 :: s) = None) /\
  (* more than 4300 characters: refused *)
  (Z.of_nat (length s) > 4300 -> py_int0 s = None /\ py_int0 (45 :: s) = None).
Proof.
  intros s HF Hne.
  assert (Hneg : py_int0 (45 :: s) = match py_int0_unsigned s with Some z => Some (- z) | None => None end).
  { rewrite py_int0_cons. reflexivity. }
  rewrite Hneg, dec_head_not_minus by assumption. rewrite py_unsigned_dec by assumption.
  split; [|split; [|split]].
  - intros Hl Hz. replace (Z.of_nat (length s) >? 4300) with false by lia. rewrite Hz.
    rewrite digits_value_positional. rewrite (map_ext_Forall is_dec_char hexval dec_digit s hexval_dec HF).
    split; reflexivity.
  - intros Hl Hz. replace (Z.of_nat (length s) >? 4300) with false by lia.
    apply all_zero_iff in Hz. rewrite Hz. rewrite all_zero_digits_value by assumption.
    destruct (leading_zero s); split; reflexivity.
  - intros Hz Hc. apply all_zero_false in Hc. rewrite Hz, Hc.
    destruct (Z.of_nat (length s) >? 4300); split; reflexivity.
  - intros Hl. replace (Z.of_nat (length s) >? 4300) with true by lia. split; reflexivity.
Qed.

(* 1d. exactly which literals of the token pattern are refused *)
Lemma ushape_head u : ushape u -> exists c t, u = c :: t /\ 48 <= c <= 57.
Proof.
  intros H. destruct H as [h _ _ | b _ _ | d Hne HF].
  - exists 48, (120 :: h). split; [reflexivity | lia].
  - exists 48, (98 :: b). split; [reflexivity | lia].
  - destruct d as [|c t]; [congruence|]. exists c, t. split; [reflexivity|].
    inversion HF; assumption.
Qed.

Lemma dec_rejected_dec u : dec_rejected u -> Forall is_dec_char u.
Proof. intros [H _]. exact H. Qed.

Lemma py_unsigned_none_iff u : ushape u -> (py_int0_unsigned u = None <-> dec_rejected u).
Proof.
  intros H. destruct H as [h _ _ | b _ _ | d Hne HF].
  - rewrite py_unsigned_cons2. cbn. split; [discriminate|].
    intros [HF _]. inversion HF as [|? ? _ HF1]; subst. inversion HF1 as [|? ? Hx _]; subst.
    unfold is_dec_char in Hx. lia.
  - rewrite py_unsigned_cons2. cbn. split; [discriminate|].
    intros [HF _]. inversion HF as [|? ? _ HF1]; subst. inversion HF1 as [|? ? Hx _]; subst.
    unfold is_dec_char in Hx. lia.
  - rewrite py_unsigned_dec by assumption. unfold dec_rejected.
    destruct (Z.of_nat (length d) >? 4300) eqn:El.
    + split; [intros _; split; [exact HF | left; lia] | reflexivity].
    + destruct (leading_zero d) eqn:Ez.
      * destruct d as [|c1 [|c2 t]]; try discriminate Ez. cbn [leading_zero] in Ez.
        apply Z.eqb_eq in Ez. subst c1.
        destruct (all_zero (48 :: c2 :: t)) eqn:Ea.
        -- split; [discriminate|]. intros [_ [Hl | (t' & Et & _ & c & Hc & Hn)]]; [lia|].
           injection Et as <-. rewrite all_zero_iff in Ea. exfalso. apply Hn. apply Ea. right. exact Hc.
        -- split; [|reflexivity]. intros _. split; [exact HF|]. right.
           exists (c2 :: t). split; [reflexivity|]. split; [discriminate|].
           apply all_zero_false in Ea. destruct Ea as (c & [<- | Hc] & Hn); [congruence|].
           exists c. split; assumption.
      * split; [discriminate|]. intros [_ [Hl | (t' & Et & Hne' & _)]]; [lia|].
        subst d. destruct t' as [|c2 t]; [congruence|]. cbn [leading_zero] in Ez. discriminate Ez.
Qed.

Lemma py_int0_none_iff_lem : forall s, imm_shape s ->
  (py_int0 s = None <-> exists u, (s = u \/ s = 45 :: u) /\ dec_rejected u).
Proof.
  intros s [Hs | (u0 & -> & Hu)].
  - destruct (ushape_head s Hs) as (c & t & -> & Hc).
    rewrite py_int0_cons. replace (c =? 45) with false by lia.
    rewrite (py_unsigned_none_iff _ Hs). split.
    + intros H. exists (c :: t). split; [left; reflexivity | exact H].
    + intros (u & [<- | E] & H); [exact H|]. injection E as -> _. lia.
  - rewrite py_int0_cons. change (45 =? 45) with true. cbv iota.
    split.
    + intros H. exists u0. split; [right; reflexivity|]. apply (py_unsigned_none_iff _ Hu).
      destruct (py_int0_unsigned u0); [discriminate | reflexivity].
    + intros (u & [<- | E] & H).
      * apply dec_rejected_dec in H. inversion H as [|? ? Hx _]; subst. unfold is_dec_char in Hx. lia.
      * injection E as <-. apply (py_unsigned_none_iff _ Hu) in H. rewrite H. reflexivity.
Qed.

(* every literal of the token pattern that is accepted denotes an integer: nothing else can happen *)
Lemma py_int0_total_lem : forall s, imm_shape s ->
  (exists z, py_int0 s = Some z) \/ (exists u, (s = u \/ s = 45 :: u) /\ dec_rejected u).
Proof.
  intros s Hs. destruct (py_int0 s) as [z|] eqn:E; [left; exists z; reflexivity | right].
  apply py_int0_none_iff_lem; assumption.
Qed.

(** * 6. Addresses of name and name[i] *)

Lemma elem_address_lem : forall vars n a size ln,
  var_lookup vars n = Some (a, size) ->
  var_address vars (n, None) ln = POk a /\
  (forall d i, py_int10 d = Some i -> var_address vars (n, Some d) ln = POk (a + size * i)) /\
  (forall d, py_int10 d = None -> var_address vars (n, Some d) ln = PErr (PSyntax ln)).
Proof.
  intros vars n a size ln H. unfold var_address. cbn [fst snd]. rewrite H.
  split; [reflexivity|]. split; intros d; [intros i Hd | intros Hd]; rewrite Hd; reflexivity.
Qed.

Lemma elem_address_unknown_lem : forall vars n idx ln,
  var_lookup vars n = None -> var_address vars (n, idx) ln = PErr (PVariable ln).
Proof. intros vars n idx ln H. unfold var_address. cbn [fst]. rewrite H. reflexivity. Qed.

(* the index is read in base 10: a digit string of at most 4300 digits denotes its value *)
Lemma py_int10_dec_lem : forall d, Forall is_dec_char d -> Z.of_nat (length d) <= 4300 ->
  py_int10 d = Some (positional 10 (map dec_digit d)) /\ 0 <= positional 10 (map dec_digit d).
Proof.
  intros d HF Hl. unfold py_int10, max_str_digits.
  replace (Z.of_nat (length d) >? 4300) with false by lia.
  rewrite digits_value_positional.
  rewrite (map_ext_Forall is_dec_char hexval dec_digit d hexval_dec HF). split; [reflexivity|].
  clear Hl. induction HF as [|c t Hc Ht IH]; cbn [map positional]; [lia|].
  unfold is_dec_char, dec_digit in *.
  assert (0 <= 10 ^ Z.of_nat (length (map dec_digit t))) by (apply Z.pow_nonneg; lia). nia.
Qed.

(** * 3/4. Pseudo-instructions *)

(* run a list of instructions in sequence, stopping at the first exception *)
Fixpoint exec_list (l : list instr) (s : st) : st * option err :=
  match l with
  | [] => (s, None)
  | i :: t => match behavior i s with
              | (s', None) => exec_list t s'
              | r => r
              end
  end.

(* the instructions one source line assembles to: expansion, then instantiation of every entry *)
Definition assemble_line (vars : vartab) (labels : zmap) (addr ln : Z) (b : tbody) : pres (list instr) :=
  match expand_one vars ln b with
  | PErr e => PErr e
  | POk bs => instantiate (map (fun b' => (ln, EBody b')) bs) labels addr
  end.

Lemma exec_list_app a b s :
  exec_list (a ++ b) s = match exec_list a s with (s', None) => exec_list b s' | r => r end.
Proof.
  revert s. induction a as [|i t IH]; intros s; cbn [app exec_list]; [reflexivity|].
  destruct (behavior i s) as [s' [e|]]; [reflexivity | apply IH].
Qed.

Lemma mset_mset_same m k a b : mset (mset m k a) k b = mset m k b.
Proof.
  induction m as [|[k' v'] t IH]; cbn [mset].
  - rewrite Z.eqb_refl. reflexivity.
  - destruct (k' =? k) eqn:E; cbn [mset]; rewrite ?Z.eqb_refl, ?E; [reflexivity|]. rewrite IH. reflexivity.
Qed.

Lemma rset_rset s r a b : rset (rset s r a) r b = rset s r b.
Proof.
  unfold rset. destruct ((0 <? r) && (r <? 32)) eqn:E; [|reflexivity].
  unfold with_regs. cbn. rewrite mset_mset_same. reflexivity.
Qed.

Lemma rget_rset_same s r v : 0 < r < 32 -> rget (rset s r v) r = v.
Proof.
  intros H. unfold rget, rset. replace ((0 <? r) && (r <? 32)) with true by lia.
  cbn [regs with_regs]. apply mget_mset_eq.
Qed.

Lemma rget_rset_other s r v k : k <> r -> rget (rset s r v) k = rget s k.
Proof.
  intros H. unfold rget, rset. destruct ((0 <? r) && (r <? 32)); [|reflexivity].
  cbn [regs with_regs]. apply mget_mset_neq. congruence.
Qed.

Lemma rset_frame s r v :
  ms (rset s r v) = ms s /\ out (rset s r v) = out s /\ pc (rset s r v) = pc s /\ im (rset s r v) = im s /\
  exitc (rset s r v) = exitc s /\ cycles (rset s r v) = cycles s.
Proof. unfold rset. destruct (_ && _); repeat split; reflexivity. Qed.

(* the two-instruction constant loader *)
Lemma lui_addi_exec s r hi lo v : 0 < r < 32 -> hi_lo v = (hi, lo) ->
  exec_list [mk (ILui r hi); mk (II ADDI r r lo)] s = (rset s r (U32 v), None).
Proof.
  intros Hr Hv. destruct (hi_lo_correct_lem v hi lo Hv) as (_ & _ & _ & _ & E).
  cbn [exec_list mk behavior i_behavior]. rewrite rget_rset_same by assumption. rewrite rset_rset.
  f_equal. f_equal. rewrite <- E. rewrite !U32_eq. lia.
Qed.

(* instantiation of the re-parsed token trees *)
Lemma inst_lui rd r imm z labels addr ln : reg_num rd = Some r -> py_int0 imm = Some z ->
  instantiate_one (tok_u MN_LUI rd imm) labels addr ln = POk (mk (ILui r z)).
Proof.
  intros Hr Hz. unfold instantiate_one, tok_u, need_reg, need_int, pbind.
  cbn [k_mn k_rd k_imm k_reg1 k_reg2]. rewrite Hr, Hz. reflexivity.
Qed.

Lemma inst_addi r1 r2 n1 n2 imm z labels addr ln :
  reg_num r1 = Some n1 -> reg_num r2 = Some n2 -> py_int0 imm = Some z ->
  instantiate_one (tok_rri MN_ADDI r1 r2 imm) labels addr ln = POk (mk (II ADDI n1 n2 z)).
Proof.
  intros H1 H2 Hz. unfold instantiate_one, tok_rri, need_reg, need_int, pbind.
  cbn [k_mn k_rd k_imm k_reg1 k_reg2]. rewrite H1, H2, Hz. reflexivity.
Qed.

Lemma inst_load mn r1 r2 n1 n2 imm z labels addr ln : 27 <= mn <= 31 ->
  reg_num r1 = Some n1 -> reg_num r2 = Some n2 -> py_int0 imm = Some z ->
  instantiate_one (tok_rri mn r1 r2 imm) labels addr ln = POk (mk (ILoad (lop_of_mn mn) n1 n2 z)).
Proof.
  intros Hm H1 H2 Hz. unfold instantiate_one, tok_rri, need_reg, need_int, pbind.
  cbn [k_mn k_rd k_imm k_reg1 k_reg2]. rewrite H1, H2, Hz.
  assert (C : mn = 27 \/ mn = 28 \/ mn = 29 \/ mn = 30 \/ mn = 31) by lia.
  destruct C as [-> | [-> | [-> | [-> | ->]]]]; reflexivity.
Qed.

Lemma inst_store mn r1 r2 n1 n2 imm z labels addr ln : 34 <= mn <= 36 ->
  reg_num r1 = Some n1 -> reg_num r2 = Some n2 -> py_int0 imm = Some z ->
  instantiate_one (tok_rri mn r1 r2 imm) labels addr ln = POk (mk (IStore (sop_of_mn mn) n2 n1 z)).
Proof.
  intros Hm H1 H2 Hz. unfold instantiate_one, tok_rri, need_reg, need_int, pbind.
  cbn [k_mn k_rd k_imm k_reg1 k_reg2]. rewrite H1, H2, Hz.
  assert (C : mn = 34 \/ mn = 35 \/ mn = 36) by lia.
  destruct C as [-> | [-> | ->]]; reflexivity.
Qed.

Lemma reg_x0 : reg_num x0tok = Some 0.
Proof. reflexivity. Qed.

Lemma hi_lo_reparse v hi lo : hi_lo v = (hi, lo) ->
  py_int0 (str_dec hi) = Some hi /\ py_int0 (str_dec lo) = Some lo.
Proof.
  intros H. destruct (hi_lo_correct_lem v hi lo H) as (Hlo & Hhi & _).
  change (2 ^ 20) with 1048576 in Hhi. split; apply py_int0_str_dec_small; lia.
Qed.

(* 3. li *)
Lemma li_correct_lem : forall vars labels addr ln i rd imm c r s,
  k_mn i = MN_LI -> k_rd i = Some rd -> k_imm i = Some imm ->
  py_int0 imm = Some c -> reg_num rd = Some r -> 0 < r < 32 -> wf_regs (regs s) ->
  exists ins,
    assemble_line vars labels addr ln (BIns i) = POk ins /\
    ins = (if (-2048 <=? c) && (c <=? 2047) then [mk (II ADDI r 0 c)]
           else [mk (ILui r (fst (hi_lo c))); mk (II ADDI r r (snd (hi_lo c)))]) /\
    (length ins = 1%nat <-> -2048 <= c <= 2047) /\ (length ins = 2%nat <-> ~ -2048 <= c <= 2047) /\
    exec_list ins s = (rset s r (c mod 2 ^ 32), None).
Proof.
  intros vars labels addr ln i rd imm c r s Hmn Hrd Himm Hc Hr Hr32 [Hregs H0].
  unfold assemble_line, expand_one. rewrite Hmn, Hrd, Himm, Hc. change (MN_LI =? MN_LI) with true. cbv iota.
  destruct (hi_lo c) as [hi lo] eqn:Ehl. cbn [fst snd].
  destruct (hi_lo_reparse c hi lo Ehl) as [Phi Plo].
  destruct ((c >? 2047) || (c <? -2048)) eqn:Erange.
  - replace ((-2048 <=? c) && (c <=? 2047)) with false by lia.
    eexists. split.
    + cbn [map instantiate]. rewrite (inst_lui rd r _ hi) by assumption.
      rewrite (inst_addi rd rd r r _ lo) by assumption. cbn [pbind]. reflexivity.
    + split; [reflexivity|]. cbn [length]. split; [lia|]. split; [lia|].
      apply lui_addi_exec; assumption.
  - replace ((-2048 <=? c) && (c <=? 2047)) with true by lia.
    eexists. split.
    + cbn [map instantiate]. rewrite (inst_addi rd x0tok r 0 _ c); [cbn [pbind]; reflexivity | assumption | reflexivity |].
      apply py_int0_str_dec_small. lia.
    + split; [reflexivity|]. cbn [length]. split; [lia|]. split; [lia|].
      cbn [exec_list mk behavior i_behavior]. f_equal. f_equal.
      unfold rget. rewrite H0. destruct (sext_all c) as (E12 & _). rewrite E12. unfold sextn; cbv zeta.
      change (2 ^ 12) with 4096. change (2 ^ (12 - 1)) with 2048. change (2 ^ 32) with 4294967296.
      rewrite !U32_eq. destruct (c mod 4096 <? 2048) eqn:E; lia.
Qed.

(* 4. la, load by name, store by name *)
Lemma la_correct_lem : forall vars labels addr ln i v rd target r s,
  k_mn i = MN_LA -> k_var i = Some v -> k_reg1 i = Some rd ->
  var_address vars v ln = POk target -> reg_num rd = Some r -> 0 < r < 32 ->
  exists ins,
    assemble_line vars labels addr ln (BIns i) = POk ins /\
    ins = [mk (ILui r (fst (hi_lo target))); mk (II ADDI r r (snd (hi_lo target)))] /\
    exec_list ins s = (rset s r (U32 target), None).
Proof.
  intros vars labels addr ln i v rd target r s Hmn Hv Hrd Ha Hr Hr32.
  unfold assemble_line, expand_one. rewrite Hmn, Hv, Ha, Hrd.
  change (MN_LA =? MN_LI) with false. change (is_load_mn MN_LA) with false.
  change (MN_LA =? MN_LA) with true. cbv iota. cbn [orb]. cbv iota.
  destruct (hi_lo target) as [hi lo] eqn:Ehl. cbn [fst snd].
  destruct (hi_lo_reparse target hi lo Ehl) as [Phi Plo].
  eexists. split.
  - cbn [map instantiate]. rewrite (inst_lui rd r _ hi) by assumption.
    rewrite (inst_addi rd rd r r _ lo) by assumption. cbn [pbind]. reflexivity.
  - split; [reflexivity|]. apply lui_addi_exec; assumption.
Qed.

Lemma load_by_name_correct_lem : forall vars labels addr ln i v rd target r s,
  27 <= k_mn i <= 31 -> k_var i = Some v -> k_reg1 i = Some rd ->
  var_address vars v ln = POk target -> reg_num rd = Some r -> 0 < r < 32 ->
  let o := lop_of_mn (k_mn i) in
  let s1 := rset s r (U32 target) in
  exists ins,
    assemble_line vars labels addr ln (BIns i) = POk ins /\
    ins = [mk (ILui r (fst (hi_lo target))); mk (II ADDI r r (snd (hi_lo target))); ILoad o r r 0] /\
    exec_list ins s = behavior (ILoad o r r 0) s1 /\
    behavior (ILoad o r r 0) s1 =
      match st_read s1 (load_bits o) (U32 target) true with
      | (Ok w, s') => (rset s' r (load_ext o w), None)
      | (Err e, s') => (s', Some e)
      end.
Proof.
  intros vars labels addr ln i v rd target r s Hmn Hv Hrd Ha Hr Hr32 o s1.
  unfold assemble_line, expand_one. rewrite Hv, Ha, Hrd.
  replace (k_mn i =? MN_LI) with false by (unfold MN_LI; lia).
  replace (is_load_mn (k_mn i)) with true by (unfold is_load_mn; lia).
  cbn [orb]. cbv iota.
  destruct (hi_lo target) as [hi lo] eqn:Ehl. cbn [fst snd].
  destruct (hi_lo_reparse target hi lo Ehl) as [Phi Plo].
  eexists. split; [|split; [reflexivity|split]].
  - cbn [app map instantiate]. rewrite (inst_lui rd r _ hi) by assumption.
    rewrite (inst_addi rd rd r r _ lo) by assumption.
    rewrite (inst_load (k_mn i) rd rd r r [48] 0) by (try assumption; reflexivity).
    cbn [pbind]. reflexivity.
  - change [mk (ILui r hi); mk (II ADDI r r lo); ILoad o r r 0]
      with ([mk (ILui r hi); mk (II ADDI r r lo)] ++ [ILoad o r r 0]).
    rewrite exec_list_app. rewrite (lui_addi_exec s r hi lo target) by assumption.
    cbn [exec_list]. fold s1. destruct (behavior (ILoad o r r 0) s1) as [s' [e|]]; reflexivity.
  - assert (Ht1 : rget s1 r = U32 target) by (unfold s1; apply rget_rset_same; assumption).
    cbn [behavior]. rewrite Ht1. rewrite Z.add_0_r. reflexivity.
Qed.

Lemma store_by_name_correct_lem : forall vars labels addr ln i v rs rt target x t s,
  34 <= k_mn i <= 36 -> k_var i = Some v -> k_reg1 i = Some rs -> k_reg2 i = Some rt ->
  var_address vars v ln = POk target -> reg_num rs = Some x -> reg_num rt = Some t -> 0 < t < 32 ->
  let o := sop_of_mn (k_mn i) in
  let s1 := rset s t (U32 target) in
  exists ins,
    assemble_line vars labels addr ln (BIns i) = POk ins /\
    ins = [mk (ILui t (fst (hi_lo target))); mk (II ADDI t t (snd (hi_lo target))); IStore o t x 0] /\
    exec_list ins s = behavior (IStore o t x 0) s1 /\
    behavior (IStore o t x 0) s1 =
      match st_write s1 (store_bits o) (U32 target) (U (store_bits o) (rget s1 x)) false with
      | (None, s') => (s', None)
      | (Some e, s') => (s', Some e)
      end /\
    rget s1 t = U32 target /\
    rget s1 x = (if x =? t then U32 target else rget s x).
Proof.
  intros vars labels addr ln i v rs rt target x t s Hmn Hv Hrs Hrt Ha Hx Ht Ht32 o s1.
  unfold assemble_line, expand_one. rewrite Hv, Ha, Hrs, Hrt.
  replace (k_mn i =? MN_LI) with false by (unfold MN_LI; lia).
  replace (is_load_mn (k_mn i)) with false by (unfold is_load_mn; lia).
  replace (k_mn i =? MN_LA) with false by (unfold MN_LA; lia).
  replace (is_store_mn (k_mn i)) with true by (unfold is_store_mn; lia).
  cbn [orb]. cbv iota.
  destruct (hi_lo target) as [hi lo] eqn:Ehl. cbn [fst snd].
  destruct (hi_lo_reparse target hi lo Ehl) as [Phi Plo].
  assert (Ht1 : rget s1 t = U32 target) by (unfold s1; apply rget_rset_same; assumption).
  eexists. split; [|split; [reflexivity|split; [|split; [|split]]]].
  - cbn [map instantiate]. rewrite (inst_lui rt t _ hi) by assumption.
    rewrite (inst_addi rt rt t t _ lo) by assumption.
    rewrite (inst_store (k_mn i) rs rt x t [48] 0) by (try assumption; reflexivity).
    cbn [pbind]. reflexivity.
  - change [mk (ILui t hi); mk (II ADDI t t lo); IStore o t x 0]
      with ([mk (ILui t hi); mk (II ADDI t t lo)] ++ [IStore o t x 0]).
    rewrite exec_list_app. rewrite (lui_addi_exec s t hi lo target) by assumption.
    cbn [exec_list]. fold s1. destruct (behavior (IStore o t x 0) s1) as [s' [e|]]; reflexivity.
  - cbn [behavior]. rewrite Ht1. change (U32 0) with 0. rewrite Z.add_0_r.
    replace (U32 (U32 target)) with (U32 target) by (rewrite !U32_eq; lia). reflexivity.
  - exact Ht1.
  - destruct (x =? t) eqn:E.
    + apply Z.eqb_eq in E. subst x. exact Ht1.
    + unfold s1. apply rget_rset_other. lia.
Qed.

(* the same with the variable table spelled out: name[i] and plain name *)
Lemma la_elem_lem : forall vars labels addr ln i n idx rd a size r s,
  k_mn i = MN_LA -> k_var i = Some (n, idx) -> k_reg1 i = Some rd ->
  var_lookup vars n = Some (a, size) -> reg_num rd = Some r -> 0 < r < 32 ->
  forall target,
  (idx = None /\ target = a \/ exists d k, idx = Some d /\ py_int10 d = Some k /\ target = a + size * k) ->
  exists ins,
    assemble_line vars labels addr ln (BIns i) = POk ins /\ length ins = 2%nat /\
    exec_list ins s = (rset s r (U32 target), None) /\
    rget (rset s r (U32 target)) r = target mod 2 ^ 32 /\
    (forall k, k <> r -> rget (rset s r (U32 target)) k = rget s k) /\
    ms (rset s r (U32 target)) = ms s /\ out (rset s r (U32 target)) = out s.
Proof.
  intros vars labels addr ln i n idx rd a size r s Hmn Hv Hrd Hl Hr Hr32 target Hidx.
  assert (Ha : var_address vars (n, idx) ln = POk target).
  { destruct (elem_address_lem vars n a size ln Hl) as (E1 & E2 & _).
    destruct Hidx as [[-> ->] | (d & k & -> & Hd & ->)]; [exact E1 | apply E2; exact Hd]. }
  destruct (la_correct_lem vars labels addr ln i (n, idx) rd target r s Hmn Hv Hrd Ha Hr Hr32)
    as (ins & H1 & H2 & H3).
  exists ins. split; [exact H1|]. split; [rewrite H2; reflexivity|]. split; [exact H3|].
  split; [apply rget_rset_same; assumption|]. split; [intros k Hk; apply rget_rset_other; assumption|].
  destruct (rset_frame s r (U32 target)) as (F1 & F2 & _). split; assumption.
Qed.
