(* C05Proofs.v — property C05: the data segment layout of the RISC-V assembler, addresses of
   name / name[i], the li / la / load-by-name / store-by-name pseudo-instructions, the literal
   reader int(text, base=0), and independence of the segment order.

   The first part of every section holds the (model-independent) vocabulary that the statements in
   Props/C05.v use; the rest is proofs. *)
From Coq Require Import Lia ZifyBool.
From ArchSim Require Import Model.Base Model.Mem Model.Cache Model.Fmt Model.RV Model.Toy Model.Asm
  Spec.RV32IM Spec.Numerals Proofs.WordLemmas Proofs.MapLemmas Proofs.C01Arith Proofs.C01Step
  Proofs.C01Extra Proofs.C17Proofs Proofs.C19Proofs.
Open Scope Z_scope.

Ltac Zify.zify_post_hook ::= Z.to_euclidean_division_equations.
Local Arguments Z.mul : simpl never.
Local Arguments Z.add : simpl never.
Local Arguments Z.sub : simpl never.
Local Arguments Z.pow : simpl never.
Local Arguments Z.div : simpl never.
Local Arguments Z.modulo : simpl never.
Local Arguments Z.land : simpl never.
Local Arguments Z.shiftl : simpl never.
Local Arguments Z.shiftr : simpl never.
Local Arguments Z.of_nat : simpl never.
Local Arguments Z.to_nat : simpl never.

(** * 2. The lui/addi split *)

Lemma hi_lo_correct_lem : forall v hi lo, hi_lo v = (hi, lo) ->
  0 <= lo < 4096 /\ 0 <= hi <= 2 ^ 20 /\
  lo = v mod 4096 /\
  hi = (v mod 2 ^ 32) / 4096 + (if lo >? 2047 then 1 else 0) /\
  U32 (Z.shiftl (sext20 hi) 12 + sext12 lo) = U32 v.
Proof.
  intros v hi lo H. unfold hi_lo in H. cbv zeta in H.
  rewrite land_4095 in H. rewrite shr_div in H by lia.
  assert (Hu : 0 <= U32 v < 4294967296) by apply U32_range.
  change (2 ^ 12) with 4096 in H. change (2 ^ 20) with 1048576. change (2 ^ 32) with 4294967296.
  set (u := U32 v) in *.
  assert (Hlo : (u mod 4096 <? -2048) = false) by lia.
  rewrite Hlo, orb_false_r in H.
  destruct (sext_all hi) as (_ & _ & E20 & _). destruct (sext_all lo) as (E12 & _).
  rewrite E20, E12. unfold sextn; cbv zeta. rewrite shl_mul by lia.
  change (2 ^ 12) with 4096. change (2 ^ 20) with 1048576. change (2 ^ (20 - 1)) with 524288.
  change (2 ^ (12 - 1)) with 2048.
  rewrite !U32_eq. unfold u in *. rewrite U32_eq in *.
  destruct (v mod 4294967296 mod 4096 >? 2047) eqn:E; injection H as <- <-; rewrite ?E;
    (split; [lia|]); (split; [lia|]); (split; [lia|]); (split; [lia|]);
    destruct (_ <? 524288) eqn:E1; destruct (_ <? 2048) eqn:E2; lia.
Qed.

(** * 1. Literals: int(text, base=0) *)

(* vocabulary *)
Definition is_bin_char (c : Z) : Prop := c = 48 \/ c = 49.
(* the token pattern of an immediate: optional '-', then 0x<hex digits> | 0b<bits> | <decimal digits> *)
Inductive ushape : str -> Prop :=
| UHex h : h <> [] -> Forall is_hex_char h -> ushape (48 :: 120 :: h)
| UBin b : b <> [] -> Forall is_bin_char b -> ushape (48 :: 98 :: b)
| UDec d : d <> [] -> Forall is_dec_char d -> ushape d.
Definition imm_shape (s : str) : Prop := ushape s \/ exists u, s = 45 :: u /\ ushape u.
(* a decimal digit string int(.., 0) refuses: more than 4300 characters, or a leading '0' followed by
   further characters unless every character is '0' *)
Definition dec_rejected (u : str) : Prop :=
  Forall is_dec_char u /\
  (Z.of_nat (length u) > 4300 \/
   exists t, u = 48 :: t /\ t <> [] /\ exists c, In c t /\ c <> 48).

Lemma py_unsigned_cons2 c1 c2 t :
  py_int0_unsigned (c1 :: c2 :: t) =
  if c1 =? 48 then
    if c2 =? 120 then Some (digits_value 16 t)
    else if c2 =? 98 then Some (digits_value 2 t)
    else if all_zero (c1 :: c2 :: t) && (Z.of_nat (length (c1 :: c2 :: t)) <=? max_str_digits)
         then Some 0 else None
  else if Z.of_nat (length (c1 :: c2 :: t)) >? max_str_digits then None
       else Some (digits_value 10 (c1 :: c2 :: t)).
Proof.
  destruct c1 as [|p|p]; try reflexivity.
  do 6 (destruct p as [p|p|]; try reflexivity).
  destruct c2 as [|q|q]; try reflexivity.
  do 7 (destruct q as [q|q|]; try reflexivity).
Qed.

Lemma py_unsigned_single c : py_int0_unsigned [c] = Some (hexval c).
Proof.
  destruct c as [|p|p]; try reflexivity.
  do 6 (destruct p as [p|p|]; try reflexivity).
Qed.

Lemma py_int0_cons c r :
  py_int0 (c :: r) = if c =? 45 then match py_int0_unsigned r with Some z => Some (- z) | None => None end
                     else py_int0_unsigned (c :: r).
Proof.
  destruct c as [|p|p]; try reflexivity.
  do 6 (destruct p as [p|p|]; try reflexivity).
Qed.

Lemma py_int0_nil : py_int0 [] = Some 0.
Proof. reflexivity. Qed.

Lemma all_zero_value base s : all_zero s = true -> forall acc, fold_left (fun a c => a * base + hexval c) s acc = acc * base ^ Z.of_nat (length s).
Proof.
  induction s as [|c t IH]; intros H acc; cbn [fold_left length].
  - change (Z.of_nat 0) with 0. rewrite Z.pow_0_r. lia.
  - cbn [all_zero forallb] in H. apply andb_prop in H as [Hc Ht]. apply Z.eqb_eq in Hc. subst c.
    rewrite (IH Ht). change (hexval 48) with 0. rewrite Nat2Z.inj_succ, Z.pow_succ_r by lia. ring.
Qed.

Lemma all_zero_digits_value base s : all_zero s = true -> digits_value base s = 0.
Proof. intros H. unfold digits_value. rewrite all_zero_value by assumption. lia. Qed.

Lemma all_zero_iff s : all_zero s = true <-> forall c, In c s -> c = 48.
Proof.
  unfold all_zero. rewrite forallb_forall. split; intros H c Hc; specialize (H c Hc); lia.
Qed.

(* decimal digit strings *)
Definition leading_zero (s : str) : bool := match s with c :: _ :: _ => c =? 48 | _ => false end.

Lemma py_unsigned_dec s : Forall is_dec_char s -> s <> [] ->
  py_int0_unsigned s =
  if Z.of_nat (length s) >? 4300 then None
  else if leading_zero s then (if all_zero s then Some 0 else None)
  else Some (digits_value 10 s).
Proof.
  intros HF Hne. destruct s as [|c1 [|c2 t]]; [congruence | |].
  - rewrite py_unsigned_single. reflexivity.
  - rewrite py_unsigned_cons2. unfold max_str_digits. cbn [leading_zero].
    inversion HF as [|? ? H1 HF1]; subst. inversion HF1 as [|? ? H2 _]; subst.
    unfold is_dec_char in H1, H2.
    replace (c2 =? 120) with false by lia. replace (c2 =? 98) with false by lia.
    destruct (c1 =? 48) eqn:E1; [|reflexivity].
    destruct (Z.of_nat (length (c1 :: c2 :: t)) >? 4300) eqn:El.
    + replace (Z.of_nat (length (c1 :: c2 :: t)) <=? 4300) with false by lia.
      rewrite andb_false_r. reflexivity.
    + replace (Z.of_nat (length (c1 :: c2 :: t)) <=? 4300) with true by lia.
      rewrite andb_true_r. reflexivity.
Qed.

(* the characters of a decimal rendering *)
Lemma fmt_nat_dec_chars z : 0 <= z -> Forall is_dec_char (fmt_nat 10 z).
Proof.
  intros Hz. unfold fmt_nat, nat_digits.
  destruct (digits_lsf_spec 10 ltac:(lia) _ z (fuel_ok z Hz)) as [H1 _].
  apply Forall_forall. intros c Hc. apply in_map_iff in Hc. destruct Hc as (d & <- & Hd).
  apply in_rev in Hd. unfold digits_ok in H1. rewrite Forall_forall in H1. specialize (H1 _ Hd).
  unfold is_dec_char, digit_char. replace (d <? 10) with true by lia. lia.
Qed.

Lemma horner_digits_value base : forall s acc v, horner base acc s = Some v ->
  fold_left (fun a c => a * base + hexval c) s acc = v.
Proof.
  induction s as [|c t IH]; intros acc v H; cbn [horner fold_left] in *.
  - congruence.
  - destruct (digit_val c) as [d|] eqn:Ed; [|discriminate].
    destruct (d <? base); [|discriminate].
    replace (hexval c) with d; [apply IH; exact H|].
    unfold digit_val in Ed. unfold hexval.
    destruct ((48 <=? c) && (c <=? 57)); [congruence|].
    destruct ((65 <=? c) && (c <=? 70)); [congruence | discriminate].
Qed.

Lemma digits_value_fmt_nat base z : 2 <= base <= 16 -> 0 <= z -> digits_value base (fmt_nat base z) = z.
Proof.
  intros Hb Hz. destruct (fmt_nat_roundtrip_lem base z Hb Hz) as (H & _).
  rewrite of_digits_horner in H by apply fmt_nat_nonempty.
  apply horner_digits_value. exact H.
Qed.

(* 10^4300 is kept folded in the proofs so that lia never computes it *)
Definition dec_limit : Z := 10 ^ 4300.

Lemma pow10_4300 z : z < dec_limit -> z < 10 ^ Z.of_nat 4300.
Proof. intros H. exact H. Qed.

Lemma dec_limit_big : 4294967296 < dec_limit.
Proof.
  unfold dec_limit. assert (H : 10 ^ 10 <= 10 ^ 4300) by (apply Z.pow_le_mono_r; [reflexivity | discriminate]).
  eapply Z.lt_le_trans; [|exact H]. reflexivity.
Qed.

Lemma nat_1_le_4300 : (1 <= 4300)%nat.
Proof. apply Nat.leb_le. reflexivity. Qed.

Lemma py_unsigned_fmt_nat z : 0 <= z < dec_limit -> py_int0_unsigned (fmt_nat 10 z) = Some z.
Proof.
  intros Hz.
  pose proof (fmt_nat_dec_chars z (proj1 Hz)) as HF.
  pose proof (fmt_nat_nonempty 10 z) as Hne.
  assert (H2 : 2 <= 10) by lia.
  pose proof (fmt_nat_length 10 z 4300 H2 (conj (proj1 Hz) (pow10_4300 _ (proj2 Hz))) nat_1_le_4300) as Hl.
  rewrite py_unsigned_dec by assumption.
  assert (Hl' : Z.of_nat (length (fmt_nat 10 z)) <= 4300).
  { change 4300 with (Z.of_nat 4300). apply Nat2Z.inj_le. exact (proj2 Hl). }
  replace (Z.of_nat (length (fmt_nat 10 z)) >? 4300) with false by lia.
  destruct (fmt_nat_roundtrip_lem 10 z ltac:(lia) (proj1 Hz)) as (_ & H0 & Hp).
  destruct (Z.eq_dec z 0) as [->|Hnz].
  - rewrite (H0 eq_refl). reflexivity.
  - destruct (Hp ltac:(lia)) as (c & t & E & Hc).
    assert (Hv : digits_value 10 (fmt_nat 10 z) = z) by (apply digits_value_fmt_nat; lia).
    rewrite E in *.
    replace (leading_zero (c :: t)) with false; [rewrite Hv; reflexivity|].
    destruct t; cbn [leading_zero]; [reflexivity | lia].
Qed.

Lemma fmt_nat_head_not_minus z : 0 <= z -> exists c t, fmt_nat 10 z = c :: t /\ 48 <= c <= 57.
Proof.
  intros Hz. pose proof (fmt_nat_dec_chars z Hz) as HF. pose proof (fmt_nat_nonempty 10 z) as Hne.
  destruct (fmt_nat 10 z) as [|c t]; [congruence|]. exists c, t. split; [reflexivity|].
  inversion HF; assumption.
Qed.

(* 1a. decimal renderings read back *)
Lemma py_int0_str_dec : forall z, - dec_limit < z < dec_limit -> py_int0 (str_dec z) = Some z.
Proof.
  intros z Hz. unfold str_dec, fmt_int. destruct (z <? 0) eqn:E.
  - rewrite py_int0_cons. change (45 =? 45) with true. cbv iota.
    rewrite py_unsigned_fmt_nat by lia. f_equal. lia.
  - destruct (fmt_nat_head_not_minus z ltac:(lia)) as (c & t & Ef & Hc).
    rewrite <- (py_unsigned_fmt_nat z) by lia. rewrite Ef. rewrite py_int0_cons.
    replace (c =? 45) with false by lia. reflexivity.
Qed.

Lemma py_int0_neg_str_dec : forall z, 0 <= z < dec_limit -> py_int0 (45 :: str_dec z) = Some (- z).
Proof.
  intros z Hz. rewrite py_int0_cons. change (45 =? 45) with true. cbv iota.
  unfold str_dec, fmt_int. replace (z <? 0) with false by lia.
  rewrite py_unsigned_fmt_nat by lia. reflexivity.
Qed.

Lemma py_int0_str_dec_small z : -4294967296 < z < 4294967296 -> py_int0 (str_dec z) = Some z.
Proof.
  intros H. apply py_int0_str_dec. pose proof dec_limit_big. lia.
Qed.

(* 1b. hexadecimal and binary literals, either sign *)
Lemma py_int0_hex_lem : forall h, Forall is_hex_char h ->
  py_int0 (48 :: 120 :: h) = Some (positional 16 (map hex_digit h)) /\
  py_int0 (45 :: 48 :: 120 :: h) = Some (- positional 16 (map hex_digit h)).
Proof.
  intros h HF. rewrite !py_int0_cons. change (48 =? 45) with false. change (45 =? 45) with true. cbv iota.
  rewrite py_unsigned_cons2. change (48 =? 48) with true. change (120 =? 120) with true. cbv iota.
  rewrite digits_value_positional.
  rewrite (map_ext_Forall is_hex_char hexval hex_digit h hexval_hex HF). split; reflexivity.
Qed.

Lemma hexval_bin c : is_bin_char c -> hexval c = dec_digit c.
Proof. intros [-> | ->]; reflexivity. Qed.

Lemma py_int0_bin_lem : forall b, Forall is_bin_char b ->
  py_int0 (48 :: 98 :: b) = Some (positional 2 (map dec_digit b)) /\
  py_int0 (45 :: 48 :: 98 :: b) = Some (- positional 2 (map dec_digit b)).
Proof.
  intros b HF. rewrite !py_int0_cons. change (48 =? 45) with false. change (45 =? 45) with true. cbv iota.
  rewrite py_unsigned_cons2. change (48 =? 48) with true. change (98 =? 120) with false.
  change (98 =? 98) with true. cbv iota.
  rewrite digits_value_positional.
  rewrite (map_ext_Forall is_bin_char hexval dec_digit b hexval_bin HF). split; reflexivity.
Qed.

(* 1c. decimal digit strings in general *)
Lemma all_zero_false s : all_zero s = false <-> exists c, In c s /\ c <> 48.
Proof.
  induction s as [|x t IH]; cbn [all_zero forallb In].
  - split; [discriminate | intros (c & [] & _)].
  - fold (all_zero t). destruct (x =? 48) eqn:E; cbn [andb].
    + rewrite IH. split; intros (c & Hc & Hn); exists c; [tauto|].
      destruct Hc as [<- | Hc]; [lia | tauto].
    + split; [|reflexivity]. intros _. exists x. split; [left; reflexivity | lia].
Qed.

Lemma dec_head_not_minus s : Forall is_dec_char s -> py_int0 s = py_int0_unsigned s.
Proof.
  intros HF. destruct s as [|c t]; [reflexivity|]. rewrite py_int0_cons.
  inversion HF as [|? ? Hc _]; subst. unfold is_dec_char in Hc. replace (c =? 45) with false by lia.
  reflexivity.
Qed.

Lemma py_int0_dec_lem : forall s, Forall is_dec_char s -> s <> [] ->
  (* no leading zero (or a single character): the decimal value, up to 4300 digits *)
  (Z.of_nat (length s) <= 4300 -> leading_zero s = false ->
     py_int0 s = Some (positional 10 (map dec_digit s)) /\
     py_int0 (45 :: s) = Some (- positional 10 (map dec_digit s))) /\
  (* all zeros: 0 *)
  (Z.of_nat (length s) <= 4300 -> (forall c, In c s -> c = 48) -> py_int0 s = Some 0 /\ py_int0 (45 :: s) = Some 0) /\
  (* a leading zero before anything else than zeros: refused *)
  (leading_zero s = true -> (exists c, In c s /\ c <> 48) -> py_int0 s = None /\ py_int0 (45 :: s) = None) /\
  (* more than 4300 characters: refused *)
  (Z.of_nat (length s) > 4300 -> py_int0 s = None /\ py_int0 (45 :: s) = None).
Proof.
  intros s HF Hne.
  assert (Hneg : py_int0 (45 :: s) = match py_int0_unsigned s with Some z => Some (- z) | None => None end).
  { rewrite py_int0_cons. reflexivity. }
  rewrite Hneg, dec_head_not_minus by assumption. rewrite py_unsigned_dec by assumption.
  split; [|split; [|split]].
  - intros Hl Hz. replace (Z.of_nat (length s) >? 4300) with false by lia. rewrite Hz.
    rewrite digits_value_positional. rewrite (map_ext_Forall is_dec_char hexval dec_digit s hexval_dec HF).
    split; reflexivity.
  - intros Hl Hz. replace (Z.of_nat (length s) >? 4300) with false by lia.
    apply all_zero_iff in Hz. rewrite Hz. rewrite all_zero_digits_value by assumption.
    destruct (leading_zero s); split; reflexivity.
  - intros Hz Hc. apply all_zero_false in Hc. rewrite Hz, Hc.
    destruct (Z.of_nat (length s) >? 4300); split; reflexivity.
  - intros Hl. replace (Z.of_nat (length s) >? 4300) with true by lia. split; reflexivity.
Qed.

(* 1d. exactly which literals of the token pattern are refused *)
Lemma ushape_head u : ushape u -> exists c t, u = c :: t /\ 48 <= c <= 57.
Proof.
  intros H. destruct H as [h _ _ | b _ _ | d Hne HF].
  - exists 48, (120 :: h). split; [reflexivity | lia].
  - exists 48, (98 :: b). split; [reflexivity | lia].
  - destruct d as [|c t]; [congruence|]. exists c, t. split; [reflexivity|].
    inversion HF; assumption.
Qed.

Lemma dec_rejected_dec u : dec_rejected u -> Forall is_dec_char u.
Proof. intros [H _]. exact H. Qed.

Lemma py_unsigned_none_iff u : ushape u -> (py_int0_unsigned u = None <-> dec_rejected u).
Proof.
  intros H. destruct H as [h _ _ | b _ _ | d Hne HF].
  - rewrite py_unsigned_cons2. cbn. split; [discriminate|].
    intros [HF _]. inversion HF as [|? ? _ HF1]; subst. inversion HF1 as [|? ? Hx _]; subst.
    unfold is_dec_char in Hx. lia.
  - rewrite py_unsigned_cons2. cbn. split; [discriminate|].
    intros [HF _]. inversion HF as [|? ? _ HF1]; subst. inversion HF1 as [|? ? Hx _]; subst.
    unfold is_dec_char in Hx. lia.
  - rewrite py_unsigned_dec by assumption. unfold dec_rejected.
    destruct (Z.of_nat (length d) >? 4300) eqn:El.
    + split; [intros _; split; [exact HF | left; lia] | reflexivity].
    + destruct (leading_zero d) eqn:Ez.
      * destruct d as [|c1 [|c2 t]]; try discriminate Ez. cbn [leading_zero] in Ez.
        apply Z.eqb_eq in Ez. subst c1.
        destruct (all_zero (48 :: c2 :: t)) eqn:Ea.
        -- split; [discriminate|]. intros [_ [Hl | (t' & Et & _ & c & Hc & Hn)]]; [lia|].
           injection Et as <-. rewrite all_zero_iff in Ea. exfalso. apply Hn. apply Ea. right. exact Hc.
        -- split; [|reflexivity]. intros _. split; [exact HF|]. right.
           exists (c2 :: t). split; [reflexivity|]. split; [discriminate|].
           apply all_zero_false in Ea. destruct Ea as (c & [<- | Hc] & Hn); [congruence|].
           exists c. split; assumption.
      * split; [discriminate|]. intros [_ [Hl | (t' & Et & Hne' & _)]]; [lia|].
        subst d. destruct t' as [|c2 t]; [congruence|]. cbn [leading_zero] in Ez. discriminate Ez.
Qed.

Lemma py_int0_none_iff_lem : forall s, imm_shape s ->
  (py_int0 s = None <-> exists u, (s = u \/ s = 45 :: u) /\ dec_rejected u).
Proof.
  intros s [Hs | (u0 & -> & Hu)].
  - destruct (ushape_head s Hs) as (c & t & -> & Hc).
    rewrite py_int0_cons. replace (c =? 45) with false by lia.
    rewrite (py_unsigned_none_iff _ Hs). split.
    + intros H. exists (c :: t). split; [left; reflexivity | exact H].
    + intros (u & [<- | E] & H); [exact H|]. injection E as -> _. lia.
  - rewrite py_int0_cons. change (45 =? 45) with true. cbv iota.
    split.
    + intros H. exists u0. split; [right; reflexivity|]. apply (py_unsigned_none_iff _ Hu).
      destruct (py_int0_unsigned u0); [discriminate | reflexivity].
    + intros (u & [<- | E] & H).
      * apply dec_rejected_dec in H. inversion H as [|? ? Hx _]; subst. unfold is_dec_char in Hx. lia.
      * injection E as <-. apply (py_unsigned_none_iff _ Hu) in H. rewrite H. reflexivity.
Qed.

(* every literal of the token pattern that is accepted denotes an integer: nothing else can happen *)
Lemma py_int0_total_lem : forall s, imm_shape s ->
  (exists z, py_int0 s = Some z) \/ (exists u, (s = u \/ s = 45 :: u) /\ dec_rejected u).
Proof.
  intros s Hs. destruct (py_int0 s) as [z|] eqn:E; [left; exists z; reflexivity | right].
  apply py_int0_none_iff_lem; assumption.
Qed.

(** * 6. Addresses of name and name[i] *)

Lemma elem_address_lem : forall vars n a size ln,
  var_lookup vars n = Some (a, size) ->
  var_address vars (n, None) ln = POk a /\
  (forall d i, py_int10 d = Some i -> var_address vars (n, Some d) ln = POk (a + size * i)) /\
  (forall d, py_int10 d = None -> var_address vars (n, Some d) ln = PErr (PSyntax ln)).
Proof.
  intros vars n a size ln H. unfold var_address. cbn [fst snd]. rewrite H.
  split; [reflexivity|]. split; intros d; [intros i Hd | intros Hd]; rewrite Hd; reflexivity.
Qed.

Lemma elem_address_unknown_lem : forall vars n idx ln,
  var_lookup vars n = None -> var_address vars (n, idx) ln = PErr (PVariable ln).
Proof. intros vars n idx ln H. unfold var_address. cbn [fst]. rewrite H. reflexivity. Qed.

(* the index is read in base 10: a digit string of at most 4300 digits denotes its value *)
Lemma py_int10_dec_lem : forall d, Forall is_dec_char d -> Z.of_nat (length d) <= 4300 ->
  py_int10 d = Some (positional 10 (map dec_digit d)) /\ 0 <= positional 10 (map dec_digit d).
Proof.
  intros d HF Hl. unfold py_int10, max_str_digits.
  replace (Z.of_nat (length d) >? 4300) with false by lia.
  rewrite digits_value_positional.
  rewrite (map_ext_Forall is_dec_char hexval dec_digit d hexval_dec HF). split; [reflexivity|].
  clear Hl. induction HF as [|c t Hc Ht IH]; cbn [map positional]; [lia|].
  unfold is_dec_char, dec_digit in *.
  assert (0 <= 10 ^ Z.of_nat (length (map dec_digit t))) by (apply Z.pow_nonneg; lia). nia.
Qed.

(** * 3/4. Pseudo-instructions *)

(* run a list of instructions in sequence, stopping at the first exception *)
Fixpoint exec_list (l : list instr) (s : st) : st * option err :=
  match l with
  | [] => (s, None)
  | i :: t => match behavior i s with
              | (s', None) => exec_list t s'
              | r => r
              end
  end.

(* the instructions one source line assembles to: expansion, then instantiation of every entry *)
Definition assemble_line (vars : vartab) (labels : zmap) (addr ln : Z) (b : tbody) : pres (list instr) :=
  match expand_one vars ln b with
  | PErr e => PErr e
  | POk bs => instantiate (map (fun b' => (ln, EBody b')) bs) labels addr
  end.

Lemma exec_list_app a b s :
  exec_list (a ++ b) s = match exec_list a s with (s', None) => exec_list b s' | r => r end.
Proof.
  revert s. induction a as [|i t IH]; intros s; cbn [app exec_list]; [reflexivity|].
  destruct (behavior i s) as [s' [e|]]; [reflexivity | apply IH].
Qed.

Lemma mset_mset_same m k a b : mset (mset m k a) k b = mset m k b.
Proof.
  induction m as [|[k' v'] t IH]; cbn [mset].
  - rewrite Z.eqb_refl. reflexivity.
  - destruct (k' =? k) eqn:E; cbn [mset]; rewrite ?Z.eqb_refl, ?E; [reflexivity|]. rewrite IH. reflexivity.
Qed.

Lemma rset_rset s r a b : rset (rset s r a) r b = rset s r b.
Proof.
  unfold rset. destruct ((0 <? r) && (r <? 32)) eqn:E; [|reflexivity].
  unfold with_regs. cbn. rewrite mset_mset_same. reflexivity.
Qed.

Lemma rget_rset_same s r v : 0 < r < 32 -> rget (rset s r v) r = v.
Proof.
  intros H. unfold rget, rset. replace ((0 <? r) && (r <? 32)) with true by lia.
  cbn [regs with_regs]. apply mget_mset_eq.
Qed.

Lemma rget_rset_other s r v k : k <> r -> rget (rset s r v) k = rget s k.
Proof.
  intros H. unfold rget, rset. destruct ((0 <? r) && (r <? 32)); [|reflexivity].
  cbn [regs with_regs]. apply mget_mset_neq. congruence.
Qed.

Lemma rset_frame s r v :
  ms (rset s r v) = ms s /\ out (rset s r v) = out s /\ pc (rset s r v) = pc s /\ im (rset s r v) = im s /\
  exitc (rset s r v) = exitc s /\ cycles (rset s r v) = cycles s.
Proof. unfold rset. destruct (_ && _); repeat split; reflexivity. Qed.

(* the two-instruction constant loader *)
Lemma lui_addi_exec s r hi lo v : 0 < r < 32 -> hi_lo v = (hi, lo) ->
  exec_list [mk (ILui r hi); mk (II ADDI r r lo)] s = (rset s r (U32 v), None).
Proof.
  intros Hr Hv. destruct (hi_lo_correct_lem v hi lo Hv) as (_ & _ & _ & _ & E).
  cbn [exec_list mk behavior i_behavior]. rewrite rget_rset_same by assumption. rewrite rset_rset.
  f_equal. f_equal. rewrite <- E. rewrite !U32_eq. lia.
Qed.

(* instantiation of the re-parsed token trees *)
Lemma inst_lui rd r imm z labels addr ln : reg_num rd = Some r -> py_int0 imm = Some z ->
  instantiate_one (tok_u MN_LUI rd imm) labels addr ln = POk (mk (ILui r z)).
Proof.
  intros Hr Hz. unfold instantiate_one, tok_u, need_reg, need_int, pbind.
  cbn [k_mn k_rd k_imm k_reg1 k_reg2]. rewrite Hr, Hz. reflexivity.
Qed.

Lemma inst_addi r1 r2 n1 n2 imm z labels addr ln :
  reg_num r1 = Some n1 -> reg_num r2 = Some n2 -> py_int0 imm = Some z ->
  instantiate_one (tok_rri MN_ADDI r1 r2 imm) labels addr ln = POk (mk (II ADDI n1 n2 z)).
Proof.
  intros H1 H2 Hz. unfold instantiate_one, tok_rri, need_reg, need_int, pbind.
  cbn [k_mn k_rd k_imm k_reg1 k_reg2]. rewrite H1, H2, Hz. reflexivity.
Qed.

Lemma inst_load mn r1 r2 n1 n2 imm z labels addr ln : 27 <= mn <= 31 ->
  reg_num r1 = Some n1 -> reg_num r2 = Some n2 -> py_int0 imm = Some z ->
  instantiate_one (tok_rri mn r1 r2 imm) labels addr ln = POk (mk (ILoad (lop_of_mn mn) n1 n2 z)).
Proof.
  intros Hm H1 H2 Hz. unfold instantiate_one, tok_rri, need_reg, need_int, pbind.
  cbn [k_mn k_rd k_imm k_reg1 k_reg2]. rewrite H1, H2, Hz.
  assert (C : mn = 27 \/ mn = 28 \/ mn = 29 \/ mn = 30 \/ mn = 31) by lia.
  destruct C as [-> | [-> | [-> | [-> | ->]]]]; reflexivity.
Qed.

Lemma inst_store mn r1 r2 n1 n2 imm z labels addr ln : 34 <= mn <= 36 ->
  reg_num r1 = Some n1 -> reg_num r2 = Some n2 -> py_int0 imm = Some z ->
  instantiate_one (tok_rri mn r1 r2 imm) labels addr ln = POk (mk (IStore (sop_of_mn mn) n2 n1 z)).
Proof.
  intros Hm H1 H2 Hz. unfold instantiate_one, tok_rri, need_reg, need_int, pbind.
  cbn [k_mn k_rd k_imm k_reg1 k_reg2]. rewrite H1, H2, Hz.
  assert (C : mn = 34 \/ mn = 35 \/ mn = 36) by lia.
  destruct C as [-> | [-> | ->]]; reflexivity.
Qed.

Lemma reg_x0 : reg_num x0tok = Some 0.
Proof. reflexivity. Qed.

Lemma hi_lo_reparse v hi lo : hi_lo v = (hi, lo) ->
  py_int0 (str_dec hi) = Some hi /\ py_int0 (str_dec lo) = Some lo.
Proof.
  intros H. destruct (hi_lo_correct_lem v hi lo H) as (Hlo & Hhi & _).
  change (2 ^ 20) with 1048576 in Hhi. split; apply py_int0_str_dec_small; lia.
Qed.

(* 3. li *)
Lemma li_correct_lem : forall vars labels addr ln i rd imm c r s,
  k_mn i = MN_LI -> k_rd i = Some rd -> k_imm i = Some imm ->
  py_int0 imm = Some c -> reg_num rd = Some r -> 0 < r < 32 -> wf_regs (regs s) ->
  exists ins,
    assemble_line vars labels addr ln (BIns i) = POk ins /\
    ins = (if (-2048 <=? c) && (c <=? 2047) then [mk (II ADDI r 0 c)]
           else [mk (ILui r (fst (hi_lo c))); mk (II ADDI r r (snd (hi_lo c)))]) /\
    (length ins = 1%nat <-> -2048 <= c <= 2047) /\ (length ins = 2%nat <-> ~ -2048 <= c <= 2047) /\
    exec_list ins s = (rset s r (c mod 2 ^ 32), None).
Proof.
  intros vars labels addr ln i rd imm c r s Hmn Hrd Himm Hc Hr Hr32 [Hregs H0].
  unfold assemble_line, expand_one. rewrite Hmn, Hrd, Himm, Hc. change (MN_LI =? MN_LI) with true. cbv iota.
  destruct (hi_lo c) as [hi lo] eqn:Ehl. cbn [fst snd].
  destruct (hi_lo_reparse c hi lo Ehl) as [Phi Plo].
  destruct ((c >? 2047) || (c <? -2048)) eqn:Erange.
  - replace ((-2048 <=? c) && (c <=? 2047)) with false by lia.
    eexists. split.
    + cbn [map instantiate]. rewrite (inst_lui rd r _ hi) by assumption.
      rewrite (inst_addi rd rd r r _ lo) by assumption. cbn [pbind]. reflexivity.
    + split; [reflexivity|]. cbn [length]. split; [lia|]. split; [lia|].
      apply lui_addi_exec; assumption.
  - replace ((-2048 <=? c) && (c <=? 2047)) with true by lia.
    eexists. split.
    + cbn [map instantiate]. rewrite (inst_addi rd x0tok r 0 _ c); [cbn [pbind]; reflexivity | assumption | reflexivity |].
      apply py_int0_str_dec_small. lia.
    + split; [reflexivity|]. cbn [length]. split; [lia|]. split; [lia|].
      cbn [exec_list mk behavior i_behavior]. f_equal. f_equal.
      unfold rget. rewrite H0. destruct (sext_all c) as (E12 & _). rewrite E12. unfold sextn; cbv zeta.
      change (2 ^ 12) with 4096. change (2 ^ (12 - 1)) with 2048. change (2 ^ 32) with 4294967296.
      rewrite !U32_eq. destruct (c mod 4096 <? 2048) eqn:E; lia.
Qed.

(* 4. la, load by name, store by name *)
Lemma la_correct_lem : forall vars labels addr ln i v rd target r s,
  k_mn i = MN_LA -> k_var i = Some v -> k_reg1 i = Some rd ->
  var_address vars v ln = POk target -> reg_num rd = Some r -> 0 < r < 32 ->
  exists ins,
    assemble_line vars labels addr ln (BIns i) = POk ins /\
    ins = [mk (ILui r (fst (hi_lo target))); mk (II ADDI r r (snd (hi_lo target)))] /\
    exec_list ins s = (rset s r (U32 target), None).
Proof.
  intros vars labels addr ln i v rd target r s Hmn Hv Hrd Ha Hr Hr32.
  unfold assemble_line, expand_one. rewrite Hmn, Hv, Ha, Hrd.
  change (MN_LA =? MN_LI) with false. change (is_load_mn MN_LA) with false.
  change (MN_LA =? MN_LA) with true. cbv iota. cbn [orb]. cbv iota.
  destruct (hi_lo target) as [hi lo] eqn:Ehl. cbn [fst snd].
  destruct (hi_lo_reparse target hi lo Ehl) as [Phi Plo].
  eexists. split.
  - cbn [map instantiate]. rewrite (inst_lui rd r _ hi) by assumption.
    rewrite (inst_addi rd rd r r _ lo) by assumption. cbn [pbind]. reflexivity.
  - split; [reflexivity|]. apply lui_addi_exec; assumption.
Qed.

Lemma load_by_name_correct_lem : forall vars labels addr ln i v rd target r s,
  27 <= k_mn i <= 31 -> k_var i = Some v -> k_reg1 i = Some rd ->
  var_address vars v ln = POk target -> reg_num rd = Some r -> 0 < r < 32 ->
  let o := lop_of_mn (k_mn i) in
  let s1 := rset s r (U32 target) in
  exists ins,
    assemble_line vars labels addr ln (BIns i) = POk ins /\
    ins = [mk (ILui r (fst (hi_lo target))); mk (II ADDI r r (snd (hi_lo target))); ILoad o r r 0] /\
    exec_list ins s = behavior (ILoad o r r 0) s1 /\
    behavior (ILoad o r r 0) s1 =
      match st_read s1 (load_bits o) (U32 target) true with
      | (Ok w, s') => (rset s' r (load_ext o w), None)
      | (Err e, s') => (s', Some e)
      end.
Proof.
  intros vars labels addr ln i v rd target r s Hmn Hv Hrd Ha Hr Hr32 o s1.
  unfold assemble_line, expand_one. rewrite Hv, Ha, Hrd.
  replace (k_mn i =? MN_LI) with false by (unfold MN_LI; lia).
  replace (is_load_mn (k_mn i)) with true by (unfold is_load_mn; lia).
  cbn [orb]. cbv iota.
  destruct (hi_lo target) as [hi lo] eqn:Ehl. cbn [fst snd].
  destruct (hi_lo_reparse target hi lo Ehl) as [Phi Plo].
  eexists. split; [|split; [reflexivity|split]].
  - cbn [app map instantiate]. rewrite (inst_lui rd r _ hi) by assumption.
    rewrite (inst_addi rd rd r r _ lo) by assumption.
    rewrite (inst_load (k_mn i) rd rd r r [48] 0) by (try assumption; reflexivity).
    cbn [pbind]. reflexivity.
  - change [mk (ILui r hi); mk (II ADDI r r lo); ILoad o r r 0]
      with ([mk (ILui r hi); mk (II ADDI r r lo)] ++ [ILoad o r r 0]).
    rewrite exec_list_app. rewrite (lui_addi_exec s r hi lo target) by assumption.
    cbn [exec_list]. fold s1. destruct (behavior (ILoad o r r 0) s1) as [s' [e|]]; reflexivity.
  - assert (Ht1 : rget s1 r = U32 target) by (unfold s1; apply rget_rset_same; assumption).
    cbn [behavior]. rewrite Ht1. rewrite Z.add_0_r. reflexivity.
Qed.

Lemma store_by_name_correct_lem : forall vars labels addr ln i v rs rt target x t s,
  34 <= k_mn i <= 36 -> k_var i = Some v -> k_reg1 i = Some rs -> k_reg2 i = Some rt ->
  var_address vars v ln = POk target -> reg_num rs = Some x -> reg_num rt = Some t -> 0 < t < 32 ->
  let o := sop_of_mn (k_mn i) in
  let s1 := rset s t (U32 target) in
  exists ins,
    assemble_line vars labels addr ln (BIns i) = POk ins /\
    ins = [mk (ILui t (fst (hi_lo target))); mk (II ADDI t t (snd (hi_lo target))); IStore o t x 0] /\
    exec_list ins s = behavior (IStore o t x 0) s1 /\
    behavior (IStore o t x 0) s1 =
      match st_write s1 (store_bits o) (U32 target) (U (store_bits o) (rget s1 x)) false with
      | (None, s') => (s', None)
      | (Some e, s') => (s', Some e)
      end /\
    rget s1 t = U32 target /\
    rget s1 x = (if x =? t then U32 target else rget s x).
Proof.
  intros vars labels addr ln i v rs rt target x t s Hmn Hv Hrs Hrt Ha Hx Ht Ht32 o s1.
  unfold assemble_line, expand_one. rewrite Hv, Ha, Hrs, Hrt.
  replace (k_mn i =? MN_LI) with false by (unfold MN_LI; lia).
  replace (is_load_mn (k_mn i)) with false by (unfold is_load_mn; lia).
  replace (k_mn i =? MN_LA) with false by (unfold MN_LA; lia).
  replace (is_store_mn (k_mn i)) with true by (unfold is_store_mn; lia).
  cbn [orb]. cbv iota.
  destruct (hi_lo target) as [hi lo] eqn:Ehl. cbn [fst snd].
  destruct (hi_lo_reparse target hi lo Ehl) as [Phi Plo].
  assert (Ht1 : rget s1 t = U32 target) by (unfold s1; apply rget_rset_same; assumption).
  eexists. split; [|split; [reflexivity|split; [|split; [|split]]]].
  - cbn [map instantiate]. rewrite (inst_lui rt t _ hi) by assumption.
    rewrite (inst_addi rt rt t t _ lo) by assumption.
    rewrite (inst_store (k_mn i) rs rt x t [48] 0) by (try assumption; reflexivity).
    cbn [pbind]. reflexivity.
  - change [mk (ILui t hi); mk (II ADDI t t lo); IStore o t x 0]
      with ([mk (ILui t hi); mk (II ADDI t t lo)] ++ [IStore o t x 0]).
    rewrite exec_list_app. rewrite (lui_addi_exec s t hi lo target) by assumption.
    cbn [exec_list]. fold s1. destruct (behavior (IStore o t x 0) s1) as [s' [e|]]; reflexivity.
  - cbn [behavior]. rewrite Ht1. change (U32 0) with 0. rewrite Z.add_0_r.
    replace (U32 (U32 target)) with (U32 target) by (rewrite !U32_eq; lia). reflexivity.
  - exact Ht1.
  - destruct (x =? t) eqn:E.
    + apply Z.eqb_eq in E. subst x. exact Ht1.
    + unfold s1. apply rget_rset_other. lia.
Qed.

(* the same with the variable table spelled out: name[i] and plain name *)
Lemma la_elem_lem : forall vars labels addr ln i n idx rd a size r s,
  k_mn i = MN_LA -> k_var i = Some (n, idx) -> k_reg1 i = Some rd ->
  var_lookup vars n = Some (a, size) -> reg_num rd = Some r -> 0 < r < 32 ->
  forall target,
  (idx = None /\ target = a \/ exists d k, idx = Some d /\ py_int10 d = Some k /\ target = a + size * k) ->
  exists ins,
    assemble_line vars labels addr ln (BIns i) = POk ins /\ length ins = 2%nat /\
    exec_list ins s = (rset s r (U32 target), None) /\
    rget (rset s r (U32 target)) r = target mod 2 ^ 32 /\
    (forall k, k <> r -> rget (rset s r (U32 target)) k = rget s k) /\
    ms (rset s r (U32 target)) = ms s /\ out (rset s r (U32 target)) = out s.
Proof.
  intros vars labels addr ln i n idx rd a size r s Hmn Hv Hrd Hl Hr Hr32 target Hidx.
  assert (Ha : var_address vars (n, idx) ln = POk target).
  { destruct (elem_address_lem vars n a size ln Hl) as (E1 & E2 & _).
    destruct Hidx as [[-> ->] | (d & k & -> & Hd & ->)]; [exact E1 | apply E2; exact Hd]. }
  destruct (la_correct_lem vars labels addr ln i (n, idx) rd target r s Hmn Hv Hrd Ha Hr Hr32)
    as (ins & H1 & H2 & H3).
  exists ins. split; [exact H1|]. split; [rewrite H2; reflexivity|]. split; [exact H3|].
  split; [apply rget_rset_same; assumption|]. split; [intros k Hk; apply rget_rset_other; assumption|].
  destruct (rset_frame s r (U32 target)) as (F1 & F2 & _). split; assumption.
Qed.

(** * 5. The data segment *)

(* vocabulary: the intended layout, computed without any memory *)
Definition esize (ty : Z) : Z := if ty =? 0 then 1 else if ty =? 1 then 2 else 4.   (* byte half word *)
(* the n low bytes of v, least significant first *)
Fixpoint le_bytes (n : nat) (v : Z) : list Z :=
  match n with O => [] | S k => v mod 256 :: le_bytes k (v / 256) end.
(* all literals of a declaration are accepted by int(.., 0) *)
Fixpoint lit_values (vals : list str) : option (list Z) :=
  match vals with
  | [] => Some []
  | v :: t => match py_int0 v, lit_values t with
              | Some z, Some zs => Some (z :: zs)
              | _, _ => None
              end
  end.

Record vlay := { vl_name : Z; vl_start : Z; vl_esize : Z; vl_bytes : list Z; vl_extent : Z }.

(* one declaration: name, recorded element size, byte overlay, extent in bytes *)
Definition decl_image (l : rline) : option (Z * Z * list Z * Z) :=
  match l with
  | RVarDecl name ty vals =>
      match lit_values vals with
      | Some zs => Some (name, esize ty,
                         flat_map (fun z => le_bytes (Z.to_nat (esize ty)) (z mod 2 ^ (8 * esize ty))) zs,
                         esize ty * Z.of_nat (length zs))
      | None => None
      end
  | RStrDecl name s =>
      Some (name, 1, map (fun c => c mod 256) (strip_quotes s) ++ [0], Z.of_nat (length (strip_quotes s)) + 1)
  | RZeroDecl name v => match py_int10 v with Some n => Some (name, 4, [], 4 * n) | None => None end
  | _ => None
  end.

(* declarations in order, each at the next multiple of 4 *)
Fixpoint lay (data : list (Z * rline)) (a : Z) : option (list vlay * Z) :=
  match data with
  | [] => Some ([], a)
  | (_, l) :: t =>
      match decl_image l with
      | None => None
      | Some (name, sz, bytes, ext) =>
          match lay t (align4 a + ext) with
          | Some (L, e) => Some ({| vl_name := name; vl_start := align4 a; vl_esize := sz;
                                    vl_bytes := bytes; vl_extent := ext |} :: L, e)
          | None => None
          end
      end
  end.

Definition table (L : list vlay) : vartab := map (fun v => (vl_name v, (vl_start v, vl_esize v))) L.

(* the memory contents the layout prescribes on top of a previous contents f *)
Definition in_var (v : vlay) (x : Z) : Prop := vl_start v <= x < vl_start v + Z.of_nat (length (vl_bytes v)).
Fixpoint overlay (L : list vlay) (f : Z -> Z) (x : Z) : Z :=
  match L with
  | [] => f x
  | v :: t => if (vl_start v <=? x) && (x <? vl_start v + Z.of_nat (length (vl_bytes v)))
              then nth (Z.to_nat (x - vl_start v)) (vl_bytes v) 0
              else overlay t f x
  end.

(* first variable at align4 a, every next one at align4 of the end of its predecessor *)
Fixpoint chain (a : Z) (L : list vlay) (e : Z) : Prop :=
  match L with
  | [] => e = a
  | v :: t => vl_start v = align4 a /\ chain (vl_start v + vl_extent v) t e
  end.

(* what the tokenizer guarantees: the count of .zero is a digit string *)
Definition zero_ok (data : list (Z * rline)) : Prop :=
  forall ln name v, In (ln, RZeroDecl name v) data -> Forall is_dec_char v.

(* writing a byte list at consecutive addresses *)
Fixpoint put_bytes (m : zmap) (a : Z) (bs : list Z) : zmap :=
  match bs with [] => m | b :: t => put_bytes (mset m a b) (a + 1) t end.

(** ** arithmetic of the layout *)
Lemma align4_spec a : a <= align4 a < a + 4 /\ align4 a mod 4 = 0.
Proof. unfold align4. destruct (a mod 4 =? 0) eqn:E; lia. Qed.

Lemma esize_cases ty : esize ty = 1 \/ esize ty = 2 \/ esize ty = 4.
Proof. unfold esize. destruct (ty =? 0); [tauto|]. destruct (ty =? 1); tauto. Qed.

Lemma le_bytes_length n v : length (le_bytes n v) = n.
Proof. revert v. induction n as [|n IH]; intros v; cbn [le_bytes length]; [reflexivity | rewrite IH; reflexivity]. Qed.

Lemma flat_map_length_const {A} (f : A -> list Z) k l : (forall x, length (f x) = k) ->
  length (flat_map f l) = (k * length l)%nat.
Proof.
  intros H. induction l as [|x t IH]; cbn [flat_map length]; [lia|].
  rewrite app_length, H, IH. lia.
Qed.

Lemma nth_le_bytes n : forall v b, (b < n)%nat -> nth b (le_bytes n v) 0 = (v / 256 ^ Z.of_nat b) mod 256.
Proof.
  induction n as [|n IH]; intros v b Hb; [lia|]. cbn [le_bytes]. destruct b as [|b]; cbn [nth].
  - change (Z.of_nat 0) with 0. rewrite Z.pow_0_r, Z.div_1_r. reflexivity.
  - rewrite IH by lia. rewrite Nat2Z.inj_succ, Z.pow_succ_r by lia.
    rewrite Z.div_div by (try lia; apply Z.pow_pos_nonneg; lia). reflexivity.
Qed.

Lemma nth_flat_map_const {A} (f : A -> list Z) k (d0 : A) : (forall x, length (f x) = k) ->
  forall l j b, (j < length l)%nat -> (b < k)%nat ->
  nth (j * k + b) (flat_map f l) 0 = nth b (f (nth j l d0)) 0.
Proof.
  intros H. induction l as [|x t IH]; intros j b Hj Hb; cbn [length] in Hj; [lia|].
  cbn [flat_map]. destruct j as [|j].
  - cbn [Nat.mul Nat.add nth]. rewrite app_nth1 by (rewrite H; exact Hb). reflexivity.
  - rewrite app_nth2 by (rewrite H; lia). rewrite H.
    replace (S j * k + b - k)%nat with (j * k + b)%nat by lia. cbn [nth]. apply IH; lia.
Qed.

Lemma dec_value_nonneg d : Forall is_dec_char d -> 0 <= digits_value 10 d.
Proof.
  intros HF. rewrite digits_value_positional.
  rewrite (map_ext_Forall is_dec_char hexval dec_digit d hexval_dec HF).
  induction HF as [|c t Hc Ht IH]; cbn [map positional]; [lia|].
  unfold is_dec_char, dec_digit in *.
  assert (0 <= 10 ^ Z.of_nat (length (map dec_digit t))) by (apply Z.pow_nonneg; lia). nia.
Qed.

Lemma py_int10_nonneg d n : Forall is_dec_char d -> py_int10 d = Some n -> 0 <= n.
Proof.
  intros HF H. unfold py_int10 in H. destruct (_ >? _); [discriminate|]. injection H as <-.
  apply dec_value_nonneg; assumption.
Qed.

(** ** the assoc-list memory under byte writes *)
Lemma mget_put_bytes bs : forall m a x,
  mget (put_bytes m a bs) x =
  if (a <=? x) && (x <? a + Z.of_nat (length bs)) then nth (Z.to_nat (x - a)) bs 0 else mget m x.
Proof.
  induction bs as [|b t IH]; intros m a x; cbn [put_bytes length].
  - replace ((a <=? x) && (x <? a + Z.of_nat 0)) with false by lia. reflexivity.
  - rewrite IH. rewrite Nat2Z.inj_succ. rewrite mget_mset.
    destruct (Z.eq_dec x a) as [->|Hne].
    + replace ((a + 1 <=? a) && (a <? a + 1 + Z.of_nat (length t))) with false by lia.
      rewrite Z.eqb_refl. replace ((a <=? a) && (a <? a + Z.succ (Z.of_nat (length t)))) with true by lia.
      replace (a - a) with 0 by lia. reflexivity.
    + replace (a =? x) with false by lia.
      destruct ((a + 1 <=? x) && (x <? a + 1 + Z.of_nat (length t))) eqn:E.
      * replace ((a <=? x) && (x <? a + Z.succ (Z.of_nat (length t)))) with true by lia.
        replace (Z.to_nat (x - a)) with (S (Z.to_nat (x - (a + 1)))) by lia. reflexivity.
      * replace ((a <=? x) && (x <? a + Z.succ (Z.of_nat (length t)))) with false by lia. reflexivity.
Qed.

Lemma put_bytes_app b1 : forall m a b2,
  put_bytes m a (b1 ++ b2) = put_bytes (put_bytes m a b1) (a + Z.of_nat (length b1)) b2.
Proof.
  induction b1 as [|b t IH]; intros m a b2; cbn [app put_bytes length].
  - change (Z.of_nat 0) with 0. rewrite Z.add_0_r. reflexivity.
  - rewrite IH. f_equal. lia.
Qed.

(** ** one direct write on a flat memory, inside the data address range *)
Lemma write_mult_put a : forall k m i v, 16384 <= a + i -> a + i + Z.of_nat k <= 4294967296 ->
  write_mult rv_memcfg m a k i v = (put_bytes m (a + i) (le_bytes k v), None).
Proof.
  induction k as [|k IH]; intros m i v H1 H2; cbn [write_mult le_bytes put_bytes]; [reflexivity|].
  unfold write_cell, eff_addr, in_range. cbn [aovf alen alo ahi cw rv_memcfg].
  change (2 ^ 32) with 4294967296. replace ((a + i) mod 4294967296) with (a + i) by lia.
  replace ((16384 <=? a + i) && (a + i <? 4294967296)) with true by lia.
  change (2 ^ 8 - 1) with 255. rewrite land_255. rewrite shr_div by lia. change (2 ^ 8) with 256.
  rewrite IH by lia. replace (a + (i + 1)) with (a + i + 1) by lia. reflexivity.
Qed.

Lemma ncells_rv k : ncells rv_memcfg (8 * Z.of_nat k) = k.
Proof. unfold ncells. cbn [cw rv_memcfg]. replace (8 * Z.of_nat k / 8) with (Z.of_nat k) by lia. apply Nat2Z.id. Qed.

Lemma dwrite_flat_ok m k a v : 16384 <= a -> a + Z.of_nat k <= 4294967296 ->
  dwrite (MFlat m) (8 * Z.of_nat k) a v = POk (MFlat (put_bytes m a (le_bytes k v))).
Proof.
  intros H1 H2. unfold dwrite, ms_write, mem_write. rewrite ncells_rv.
  rewrite write_mult_put by lia. rewrite Z.add_0_r. reflexivity.
Qed.

Lemma write_vals_flat k ln : forall vals m a zs, lit_values vals = Some zs ->
  16384 <= a -> a + Z.of_nat k * Z.of_nat (length zs) <= 4294967296 ->
  write_vals (MFlat m) (8 * Z.of_nat k) (Z.of_nat k) a vals ln =
  POk (MFlat (put_bytes m a (flat_map (fun z => le_bytes k (z mod 2 ^ (8 * Z.of_nat k))) zs)),
       a + Z.of_nat k * Z.of_nat (length zs)).
Proof.
  induction vals as [|v t IH]; intros m a zs Hz H1 H2; cbn [lit_values] in Hz.
  - injection Hz as <-. cbn [write_vals flat_map put_bytes length]. do 2 f_equal. lia.
  - destruct (py_int0 v) as [z|] eqn:Ev; [|discriminate].
    destruct (lit_values t) as [zs'|] eqn:Et; [|discriminate]. injection Hz as <-.
    cbn [length] in H2. rewrite Nat2Z.inj_succ in H2.
    cbn [write_vals]. rewrite Ev. rewrite dwrite_flat_ok by nia.
    rewrite (IH _ _ zs') by (try reflexivity; nia).
    cbn [flat_map length]. rewrite put_bytes_app, le_bytes_length. unfold U.
    rewrite Nat2Z.inj_succ. do 2 f_equal. lia.
Qed.

Lemma write_chars_flat : forall cs m a, 16384 <= a -> a + Z.of_nat (length cs) <= 4294967296 ->
  write_chars (MFlat m) a cs =
  POk (MFlat (put_bytes m a (map (fun c => c mod 256) cs)), a + Z.of_nat (length cs)).
Proof.
  induction cs as [|c t IH]; intros m a H1 H2; cbn [write_chars map put_bytes length].
  - do 2 f_equal. lia.
  - cbn [length] in H2. rewrite Nat2Z.inj_succ in H2.
    change (dwrite (MFlat m) 8 a (U8 c)) with (dwrite (MFlat m) (8 * Z.of_nat 1) a (U8 c)).
    rewrite (dwrite_flat_ok m 1 a (U8 c)) by lia. rewrite IH by lia.
    cbn [le_bytes put_bytes]. rewrite U8_eq, Z.mod_mod by lia. rewrite Nat2Z.inj_succ. do 2 f_equal. lia.
Qed.

(** ** success on any memory system determines the table (no range hypotheses) *)
Lemma write_vals_ok ln : forall vals ms nbits stride a ms' a',
  write_vals ms nbits stride a vals ln = POk (ms', a') ->
  exists zs, lit_values vals = Some zs /\ a' = a + stride * Z.of_nat (length zs).
Proof.
  induction vals as [|v t IH]; intros ms nbits stride a ms' a' H; cbn [write_vals] in H.
  - injection H as <- <-. exists []. split; [reflexivity | cbn [length]; lia].
  - destruct (py_int0 v) as [z|] eqn:Ev; [|discriminate].
    destruct (dwrite ms nbits a (U nbits z)) as [m1|]; [|discriminate].
    destruct (IH _ _ _ _ _ _ H) as (zs & Hz & Ha). exists (z :: zs). cbn [lit_values]. rewrite Ev, Hz.
    split; [reflexivity|]. cbn [length]. rewrite Nat2Z.inj_succ. lia.
Qed.

Lemma write_chars_ok : forall cs ms a ms' a', write_chars ms a cs = POk (ms', a') -> a' = a + Z.of_nat (length cs).
Proof.
  induction cs as [|c t IH]; intros ms a ms' a' H; cbn [write_chars] in H.
  - injection H as <- <-. cbn [length]. lia.
  - destruct (dwrite ms 8 a (U8 c)) as [m1|]; [|discriminate].
    rewrite (IH _ _ _ _ H). cbn [length]. rewrite Nat2Z.inj_succ. lia.
Qed.

Lemma table_cons v L vars : (vars ++ [(vl_name v, (vl_start v, vl_esize v))]) ++ table L = vars ++ table (v :: L).
Proof. rewrite <- app_assoc. reflexivity. Qed.

Lemma var_lookup_app vars n x k :
  var_lookup (vars ++ [(n, x)]) k =
  match var_lookup vars k with Some y => Some y | None => if n =? k then Some x else None end.
Proof.
  induction vars as [|[k' v'] t IH]; cbn [app var_lookup]; [reflexivity|].
  destruct (k' =? k); [reflexivity | exact IH].
Qed.

(* the conclusions about the variable table *)
Definition table_ok (vars vars' : vartab) (L : list vlay) : Prop :=
  vars' = vars ++ table L /\
  (forall k y, var_lookup vars k = Some y -> var_lookup vars' k = Some y) /\
  (forall v, In v L -> var_lookup vars' (vl_name v) = Some (vl_start v, vl_esize v)).

Lemma table_ok_step vars vars' v L :
  var_lookup vars (vl_name v) = None ->
  table_ok (vars ++ [(vl_name v, (vl_start v, vl_esize v))]) vars' L -> table_ok vars vars' (v :: L).
Proof.
  intros Hn (H1 & H2 & H3). split; [|split].
  - rewrite H1. apply table_cons.
  - intros k y Hk. apply H2. rewrite var_lookup_app, Hk. reflexivity.
  - intros w [<- | Hw]; [|apply H3; exact Hw].
    apply H2. rewrite var_lookup_app, Hn, Z.eqb_refl. reflexivity.
Qed.

Lemma write_data_lay : forall data ms a vars ms' vars',
  write_data data ms a vars = POk (ms', vars') ->
  exists L e, lay data a = Some (L, e) /\ table_ok vars vars' L /\ (a <= 4294967296 -> e <= 4294967296).
Proof.
  induction data as [|[ln l] t IH]; intros ms a vars ms' vars' H; cbn [write_data] in H.
  - injection H as <- <-. exists [], a. split; [reflexivity|]. split; [|intros Ha; exact Ha]. split; [|split].
    + rewrite app_nil_r; reflexivity.
    + intros k y Hk; exact Hk.
    + intros v [].
  - destruct l as [d|name ty vals|name s|name v|name|inl b]; try discriminate H.
    + (* byte / half / word *)
      destruct (var_lookup vars name) eqn:Edup; [discriminate H|].
      assert (G : forall nbits stride, esize ty = stride ->
        match write_vals ms nbits stride (align4 a) vals ln with
        | PErr e => PErr e
        | POk (m', a') => if a' >? data_limit then PErr (PMemSize (data_limit / 4)) else write_data t m' a' (vars ++ [(name, (align4 a, stride))])
        end = POk (ms', vars') ->
        exists L e, lay ((ln, RVarDecl name ty vals) :: t) a = Some (L, e) /\ table_ok vars vars' L /\
                    (a <= 4294967296 -> e <= 4294967296)).
      2: { unfold esize in G. destruct (ty =? 0); [|destruct (ty =? 1)]; eapply G; try exact H; reflexivity. }
      intros nbits stride Hs Hw.
      destruct (write_vals ms nbits stride (align4 a) vals ln) as [[m1 a1]|] eqn:Ew; [|discriminate].
      destruct (a1 >? data_limit) eqn:Elim; [discriminate|]. unfold data_limit in Elim.
      destruct (write_vals_ok _ _ _ _ _ _ _ _ Ew) as (zs & Hz & Ha1). cbn [lay decl_image]. rewrite Hz.
      destruct (IH _ _ _ _ _ Hw) as (L & e & HL & Hv & He). subst a1. rewrite Hs, HL.
      eexists _, e. split; [reflexivity|]. split; [apply table_ok_step; [exact Edup | exact Hv]|].
      intros _. apply He. lia.
    + (* string *)
      destruct (var_lookup vars name) eqn:Edup; [discriminate H|].
      destruct (write_chars ms (align4 a) (strip_quotes s)) as [[m1 a1]|] eqn:Ew; [|discriminate].
      destruct (dwrite m1 8 a1 0) as [m2|]; [|discriminate].
      destruct (a1 + 1 >? data_limit) eqn:Elim; [discriminate|]. unfold data_limit in Elim.
      apply write_chars_ok in Ew. subst a1.
      destruct (IH _ _ _ _ _ H) as (L & e & HL & Hv & He). cbn [lay decl_image].
      replace (align4 a + (Z.of_nat (length (strip_quotes s)) + 1))
        with (align4 a + Z.of_nat (length (strip_quotes s)) + 1) by lia.
      rewrite HL. eexists _, e. split; [reflexivity|]. split; [apply table_ok_step; [exact Edup | exact Hv]|].
      intros _. apply He. lia.
    + (* .zero *)
      destruct (var_lookup vars name) eqn:Edup; [discriminate H|].
      cbn [lay decl_image]. destruct (py_int10 v) as [n|]; [|discriminate].
      destruct (align4 a + 4 * n >? data_limit) eqn:Elim; [discriminate|]. unfold data_limit in Elim.
      destruct (IH _ _ _ _ _ H) as (L & e & HL & Hv & He). rewrite HL.
      eexists _, e. split; [reflexivity|]. split; [apply table_ok_step; [exact Edup | exact Hv]|].
      intros _. apply He. lia.
Qed.

(** ** structure of the layout *)
Lemma decl_image_extent l name sz bytes ext : decl_image l = Some (name, sz, bytes, ext) ->
  (forall nm v, l = RZeroDecl nm v -> Forall is_dec_char v) ->
  Z.of_nat (length bytes) <= ext /\ (sz = 1 \/ sz = 2 \/ sz = 4).
Proof.
  intros H Hz. destruct l as [d|nm ty vals|nm s|nm v|nm|inl b]; cbn [decl_image] in H; try discriminate H.
  - destruct (lit_values vals) as [zs|]; [|discriminate]. injection H as _ <- <- <-.
    split; [|apply esize_cases].
    rewrite (flat_map_length_const _ (Z.to_nat (esize ty))) by (intros; apply le_bytes_length).
    destruct (esize_cases ty) as [E | [E | E]]; rewrite E; lia.
  - injection H as _ <- <- <-. split; [|tauto]. rewrite app_length, map_length. cbn [length]. lia.
  - destruct (py_int10 v) as [n|] eqn:En; [|discriminate]. injection H as _ <- <- <-.
    split; [|tauto]. cbn [length]. pose proof (py_int10_nonneg v n (Hz _ _ eq_refl) En). lia.
Qed.

Lemma zero_ok_tail p t : zero_ok (p :: t) -> zero_ok t.
Proof. intros H ln name v Hin. apply (H ln name v). right. exact Hin. Qed.

Definition placed (a e : Z) (v : vlay) : Prop :=
  a <= vl_start v /\ vl_start v mod 4 = 0 /\
  Z.of_nat (length (vl_bytes v)) <= vl_extent v /\ vl_start v + vl_extent v <= e /\
  (vl_esize v = 1 \/ vl_esize v = 2 \/ vl_esize v = 4).

Lemma lay_props : forall data a L e, lay data a = Some (L, e) -> zero_ok data ->
  chain a L e /\ a <= e /\ Forall (placed a e) L /\
  Forall2 (fun d v => decl_image (snd d) = Some (vl_name v, vl_esize v, vl_bytes v, vl_extent v)) data L.
Proof.
  induction data as [|[ln l] t IH]; intros a L e H Hz; cbn [lay] in H.
  - injection H as <- <-. cbn [chain]. repeat split; try lia; constructor.
  - destruct (decl_image l) as [[[[name sz] bytes] ext]|] eqn:Ed; [|discriminate].
    destruct (lay t (align4 a + ext)) as [[Lt et]|] eqn:El; [|discriminate]. injection H as <- <-.
    destruct (IH _ _ _ El (zero_ok_tail _ _ Hz)) as (C & Hle & HF & H2).
    destruct (decl_image_extent _ _ _ _ _ Ed) as [Hext Hsz].
    { intros nm v ->. apply (Hz ln nm v). left. reflexivity. }
    pose proof (align4_spec a) as Hal.
    cbn [chain vl_start vl_extent]. split; [split; [reflexivity | exact C]|].
    split; [lia|]. split.
    + constructor.
      * unfold placed. cbn [vl_start vl_bytes vl_extent vl_esize]. repeat split; try lia; try exact Hsz.
      * eapply Forall_impl; [|exact HF]. intros v (P1 & P2 & P3 & P4 & P5). unfold placed. repeat split; try lia; try exact P5.
    + constructor; [exact Ed | exact H2].
Qed.

Lemma image_out L f x : (forall v, In v L -> ~ in_var v x) -> overlay L f x = f x.
Proof.
  induction L as [|v t IH]; intros H; cbn [overlay]; [reflexivity|].
  destruct ((vl_start v <=? x) && (x <? vl_start v + Z.of_nat (length (vl_bytes v)))) eqn:E.
  - exfalso. apply (H v); [left; reflexivity|]. unfold in_var. lia.
  - apply IH. intros w Hw. apply H. right. exact Hw.
Qed.

Lemma image_ext L f g x : f x = g x -> overlay L f x = overlay L g x.
Proof.
  intros H. induction L as [|v t IH]; cbn [overlay]; [exact H|]. rewrite IH. reflexivity.
Qed.

Lemma image_after_put Lt m a0 bytes x :
  (forall v, In v Lt -> a0 + Z.of_nat (length bytes) <= vl_start v) ->
  overlay Lt (mget (put_bytes m a0 bytes)) x =
  if (a0 <=? x) && (x <? a0 + Z.of_nat (length bytes)) then nth (Z.to_nat (x - a0)) bytes 0
  else overlay Lt (mget m) x.
Proof.
  intros H. destruct ((a0 <=? x) && (x <? a0 + Z.of_nat (length bytes))) eqn:E.
  - rewrite image_out.
    + rewrite mget_put_bytes, E. reflexivity.
    + intros v Hv. specialize (H v Hv). unfold in_var. lia.
  - apply image_ext. rewrite mget_put_bytes, E. reflexivity.
Qed.

(* a cell inside a variable holds that variable's byte (the ranges are disjoint) *)
Lemma image_in : forall data a L e f v x, lay data a = Some (L, e) -> zero_ok data ->
  In v L -> in_var v x -> overlay L f x = nth (Z.to_nat (x - vl_start v)) (vl_bytes v) 0.
Proof.
  induction data as [|[ln l] t IH]; intros a L e f v x H Hz Hin Hx; cbn [lay] in H.
  - injection H as <- <-. destruct Hin.
  - destruct (decl_image l) as [[[[name sz] bytes] ext]|] eqn:Ed; [|discriminate].
    destruct (lay t (align4 a + ext)) as [[Lt et]|] eqn:El; [|discriminate]. injection H as <- <-.
    destruct (decl_image_extent _ _ _ _ _ Ed) as [Hext _].
    { intros nm w ->. apply (Hz ln nm w). left. reflexivity. }
    cbn [overlay vl_start vl_bytes]. destruct Hin as [<- | Hin].
    + unfold in_var in Hx. cbn [vl_start vl_bytes] in Hx.
      replace ((align4 a <=? x) && (x <? align4 a + Z.of_nat (length bytes))) with true by lia. reflexivity.
    + destruct (lay_props _ _ _ _ El (zero_ok_tail _ _ Hz)) as (_ & _ & HF & _).
      rewrite Forall_forall in HF. destruct (HF v Hin) as (P1 & _).
      unfold in_var in Hx.
      replace ((align4 a <=? x) && (x <? align4 a + Z.of_nat (length bytes))) with false by lia.
      eapply IH; [exact El | exact (zero_ok_tail _ _ Hz) | exact Hin | exact Hx].
Qed.

(** ** contents of a flat memory after the data pass *)
Lemma write_data_flat : forall data m a vars ms' vars' L e,
  write_data data (MFlat m) a vars = POk (ms', vars') -> lay data a = Some (L, e) -> zero_ok data ->
  16384 <= a -> e <= 4294967296 ->
  exists m', ms' = MFlat m' /\ forall x, mget m' x = overlay L (mget m) x.
Proof.
  induction data as [|[ln l] t IH]; intros m a vars ms' vars' L e H HL Hz Ha He;
    cbn [write_data] in H; cbn [lay] in HL.
  - injection H as <- <-. injection HL as <- <-. exists m. split; [reflexivity | intros x; reflexivity].
  - destruct (decl_image l) as [[[[name sz] bytes] ext]|] eqn:Ed; [|discriminate].
    destruct (lay t (align4 a + ext)) as [[Lt et]|] eqn:El; [|discriminate]. injection HL as <- <-.
    destruct (decl_image_extent _ _ _ _ _ Ed) as [Hext _].
    { intros nm w ->. apply (Hz ln nm w). left. reflexivity. }
    destruct (lay_props _ _ _ _ El (zero_ok_tail _ _ Hz)) as (_ & Hle & HF & _).
    pose proof (align4_spec a) as Hal.
    assert (Hafter : forall v, In v Lt -> align4 a + Z.of_nat (length bytes) <= vl_start v).
    { intros v Hv. rewrite Forall_forall in HF. destruct (HF v Hv) as (P1 & _). lia. }
    destruct l as [d|nm ty vals|nm s|nm w|nm|inl b]; cbn [decl_image] in Ed; try discriminate Ed.
    + (* byte / half / word *)
      destruct (var_lookup vars nm); [discriminate H|].
      destruct (lit_values vals) as [zs|] eqn:Elit; [|discriminate Ed].
      assert (G : forall k nbits stride, nbits = 8 * Z.of_nat k -> stride = Z.of_nat k -> esize ty = stride ->
        match write_vals (MFlat m) nbits stride (align4 a) vals ln with
        | PErr e => PErr e
        | POk (m', a') => if a' >? data_limit then PErr (PMemSize (data_limit / 4)) else write_data t m' a' (vars ++ [(nm, (align4 a, stride))])
        end = POk (ms', vars') ->
        exists m', ms' = MFlat m' /\
          forall x, mget m' x = overlay ({| vl_name := name; vl_start := align4 a; vl_esize := sz;
                                         vl_bytes := bytes; vl_extent := ext |} :: Lt) (mget m) x).
      2: { unfold esize in G. destruct (ty =? 0); [|destruct (ty =? 1)].
           - apply (G 1%nat 8 1); try reflexivity. exact H.
           - apply (G 2%nat 16 2); try reflexivity. exact H.
           - apply (G 4%nat 32 4); try reflexivity. exact H. }
      intros k nbits stride -> -> Hs Hw. rewrite Hs in Ed. rewrite Nat2Z.id in Ed.
      injection Ed as <- <- <- <-.
      rewrite (write_vals_flat k ln vals m (align4 a) zs Elit) in Hw by lia.
      destruct (_ >? data_limit) in Hw; [discriminate Hw|].
      destruct (IH _ _ _ _ _ _ _ Hw El (zero_ok_tail _ _ Hz)) as (m' & -> & Hm'); [lia | lia |].
      exists m'. split; [reflexivity|]. intros x. rewrite Hm'. cbn [overlay vl_start vl_bytes].
      apply image_after_put. exact Hafter.
    + (* string *)
      destruct (var_lookup vars nm); [discriminate H|]. injection Ed as <- <- <- <-.
      rewrite app_length, map_length in Hext, Hafter. cbn [length] in Hext, Hafter.
      rewrite write_chars_flat in H by lia.
      change (dwrite (MFlat ?mm) 8 ?aa 0) with (dwrite (MFlat mm) (8 * Z.of_nat 1) aa 0) in H.
      rewrite dwrite_flat_ok in H by lia.
      destruct (_ >? data_limit) in H; [discriminate H|].
      replace (align4 a + (Z.of_nat (length (strip_quotes s)) + 1))
        with (align4 a + Z.of_nat (length (strip_quotes s)) + 1) in El by lia.
      destruct (IH _ _ _ _ _ _ _ H El (zero_ok_tail _ _ Hz)) as (m' & -> & Hm'); [lia | lia |].
      exists m'. split; [reflexivity|]. intros x. rewrite Hm'. cbn [overlay vl_start vl_bytes].
      change (le_bytes 1 0) with [0].
      rewrite <- (map_length (fun c => c mod 256) (strip_quotes s)) at 1.
      rewrite <- put_bytes_app.
      apply image_after_put. rewrite app_length, map_length. cbn [length]. exact Hafter.
    + (* .zero *)
      destruct (var_lookup vars nm); [discriminate H|].
      destruct (py_int10 w) as [n|]; [|discriminate]. injection Ed as <- <- <- <-.
      destruct (_ >? data_limit) in H; [discriminate H|].
      destruct (IH _ _ _ _ _ _ _ H El (zero_ok_tail _ _ Hz)) as (m' & -> & Hm'); [lia | lia |].
      exists m'. split; [reflexivity|]. intros x. rewrite Hm'. cbn [overlay vl_start vl_bytes length].
      replace ((align4 a <=? x) && (x <? align4 a + Z.of_nat 0)) with false by lia. reflexivity.
Qed.

(** ** reading the byte overlay of a declaration *)
Lemma lit_values_iff vals : forall zs, lit_values vals = Some zs <-> Forall2 (fun v z => py_int0 v = Some z) vals zs.
Proof.
  induction vals as [|v t IH]; intros zs; cbn [lit_values].
  - split; [intros H; injection H as <-; constructor | intros H; inversion H; reflexivity].
  - split.
    + destruct (py_int0 v) as [z|] eqn:Ev; [|discriminate].
      destruct (lit_values t) as [zs'|]; [|discriminate]. intros H; injection H as <-.
      constructor; [exact Ev | apply IH; reflexivity].
    + intros H. inversion H as [|? z ? zs' Hv Ht]; subst. rewrite Hv.
      apply IH in Ht. rewrite Ht. reflexivity.
Qed.

Lemma decl_bytes_lem :
  (* .byte / .half / .word: element j, byte b (little endian) of the value reduced modulo the width *)
  (forall name ty vals nm sz bytes ext,
     decl_image (RVarDecl name ty vals) = Some (nm, sz, bytes, ext) ->
     exists zs, Forall2 (fun v z => py_int0 v = Some z) vals zs /\
       nm = name /\ sz = esize ty /\ ext = sz * Z.of_nat (length zs) /\ Z.of_nat (length bytes) = ext /\
       forall j b, (j < length zs)%nat -> (b < Z.to_nat sz)%nat ->
         nth (j * Z.to_nat sz + b) bytes 0 = (nth j zs 0 mod 2 ^ (8 * sz)) / 256 ^ Z.of_nat b mod 256) /\
  (* .string: the character codes between the quotes modulo 256, then a zero byte *)
  (forall name s nm sz bytes ext,
     decl_image (RStrDecl name s) = Some (nm, sz, bytes, ext) ->
     let cs := strip_quotes s in
     nm = name /\ sz = 1 /\ ext = Z.of_nat (length cs) + 1 /\ Z.of_nat (length bytes) = ext /\
     (forall j, (j < length cs)%nat -> nth j bytes 0 = nth j cs 0 mod 256) /\
     nth (length cs) bytes 0 = 0) /\
  (* .zero n: nothing written, 4n bytes reserved, element size 4 *)
  (forall name v nm sz bytes ext,
     decl_image (RZeroDecl name v) = Some (nm, sz, bytes, ext) ->
     exists n, py_int10 v = Some n /\ nm = name /\ sz = 4 /\ bytes = [] /\ ext = 4 * n).
Proof.
  split; [|split].
  - intros name ty vals nm sz bytes ext H. cbn [decl_image] in H.
    destruct (lit_values vals) as [zs|] eqn:Ez; [|discriminate]. injection H as <- <- <- <-.
    exists zs. split; [apply lit_values_iff; exact Ez|]. split; [reflexivity|]. split; [reflexivity|].
    split; [reflexivity|]. split.
    + rewrite (flat_map_length_const _ (Z.to_nat (esize ty))) by (intros; apply le_bytes_length).
      destruct (esize_cases ty) as [E | [E | E]]; rewrite E; lia.
    + intros j b Hj Hb.
      rewrite (nth_flat_map_const _ (Z.to_nat (esize ty)) 0) by (try assumption; intros; apply le_bytes_length).
      apply nth_le_bytes. exact Hb.
  - intros name s nm sz bytes ext H cs. cbn [decl_image] in H. injection H as <- <- <- <-.
    fold cs. split; [reflexivity|]. split; [reflexivity|]. split; [reflexivity|]. split.
    + rewrite app_length, map_length. cbn [length]. lia.
    + split.
      * intros j Hj. rewrite app_nth1 by (rewrite map_length; exact Hj).
        change 0 with ((fun c => c mod 256) 0) at 1. rewrite map_nth. reflexivity.
      * rewrite app_nth2 by (rewrite map_length; lia). rewrite map_length, Nat.sub_diag. reflexivity.
  - intros name v nm sz bytes ext H. cbn [decl_image] in H.
    destruct (py_int10 v) as [n|]; [|discriminate]. injection H as <- <- <- <-.
    exists n. repeat split; reflexivity.
Qed.

(** ** 5. the layout theorem *)
Lemma layout_lem : forall data m a vars ms' vars',
  write_data data (MFlat m) a vars = POk (ms', vars') -> zero_ok data -> 16384 <= a <= 2 ^ 32 ->
  exists L e m',
    lay data a = Some (L, e) /\ e <= 2 ^ 32 /\ ms' = MFlat m' /\
    (* the variable table: one entry per declaration, in order, after the existing ones *)
    vars' = vars ++ table L /\
    (forall k y, var_lookup vars k = Some y -> var_lookup vars' k = Some y) /\
    (forall v, In v L -> var_lookup vars' (vl_name v) = Some (vl_start v, vl_esize v)) /\
    (* placement: first at align4 a, each next one at align4 of the end of its predecessor *)
    chain a L e /\ Forall (placed a e) L /\
    Forall2 (fun d v => decl_image (snd d) = Some (vl_name v, vl_esize v, vl_bytes v, vl_extent v)) data L /\
    (* contents: every variable holds its bytes (later declarations never overwrite earlier ones),
       every other cell is unchanged *)
    (forall x, mget m' x = overlay L (mget m) x) /\
    (forall v x, In v L -> in_var v x -> mget m' x = nth (Z.to_nat (x - vl_start v)) (vl_bytes v) 0) /\
    (forall x, (forall v, In v L -> ~ in_var v x) -> mget m' x = mget m x).
Proof.
  intros data m a vars ms' vars' H Hz Ha. change (2 ^ 32) with 4294967296 in *.
  destruct (write_data_lay _ _ _ _ _ _ H) as (L & e & HL & (T1 & T2 & T3) & He).
  specialize (He (proj2 Ha)).
  destruct (lay_props _ _ _ _ HL Hz) as (C & _ & HF & H2).
  destruct (write_data_flat _ _ _ _ _ _ _ _ H HL Hz (proj1 Ha) He) as (m' & -> & Hm').
  exists L, e, m'. split; [exact HL|]. split; [exact He|]. split; [reflexivity|].
  split; [exact T1|]. split; [exact T2|]. split; [exact T3|].
  split; [exact C|]. split; [exact HF|]. split; [exact H2|].
  split; [exact Hm'|]. split.
  - intros v x Hv Hx. rewrite Hm'. eapply image_in; eassumption.
  - intros x Hx. rewrite Hm'. apply image_out. exact Hx.
Qed.

(** ** the cached case: direct writes go to the backing memory only *)
Definition lift_lower {X} (d : dcache) (r : pres (memsys * X)) : pres (memsys * X) :=
  match r with
  | POk (ms', x) => POk (MCache (upd_lower d (ms_lower ms')), x)
  | PErr e => PErr e
  end.

Definition dres (r : zmap * option err) (wrap : zmap -> memsys) : pres memsys :=
  match r with
  | (m', None) => POk (wrap m')
  | (_, Some (EAddr x _ _ _)) => PErr (PMemAddr x)
  | (_, Some _) => PErr (PUncaught 0)
  end.

Lemma dwrite_flat_eq m nbits a v : dwrite (MFlat m) nbits a v = dres (mem_write rv_memcfg m nbits a v) MFlat.
Proof.
  unfold dwrite, ms_write, dres. destruct (mem_write rv_memcfg m nbits a v) as [m' [e|]]; reflexivity.
Qed.

Lemma dwrite_cache_eq d nbits a v :
  dwrite (MCache d) nbits a v = dres (mem_write rv_memcfg (lower d) nbits a v) (fun m' => MCache (upd_lower d m')).
Proof.
  unfold dwrite, ms_write, dc_write, dres.
  destruct (mem_write rv_memcfg (lower d) nbits a v) as [m' [e|]]; reflexivity.
Qed.

Lemma lift_lower_upd {X} d m1 (r : pres (memsys * X)) : lift_lower (upd_lower d m1) r = lift_lower d r.
Proof. destruct r as [[ms' x]|e]; reflexivity. Qed.

Lemma write_vals_cache ln nbits stride : forall vals d a,
  write_vals (MCache d) nbits stride a vals ln = lift_lower d (write_vals (MFlat (lower d)) nbits stride a vals ln).
Proof.
  induction vals as [|v t IH]; intros d a; cbn [write_vals].
  - destruct d; reflexivity.
  - destruct (py_int0 v) as [z|]; [|reflexivity].
    rewrite dwrite_flat_eq, dwrite_cache_eq.
    destruct (mem_write rv_memcfg (lower d) nbits a (U nbits z)) as [m1 [e|]]; cbn [dres].
    + destruct e; reflexivity.
    + rewrite IH. cbn [lower upd_lower]. apply lift_lower_upd.
Qed.

Lemma write_chars_cache : forall cs d a,
  write_chars (MCache d) a cs = lift_lower d (write_chars (MFlat (lower d)) a cs).
Proof.
  induction cs as [|c t IH]; intros d a; cbn [write_chars].
  - destruct d; reflexivity.
  - rewrite dwrite_flat_eq, dwrite_cache_eq.
    destruct (mem_write rv_memcfg (lower d) 8 a (U8 c)) as [m1 [e|]]; cbn [dres].
    + destruct e; reflexivity.
    + rewrite IH. cbn [lower upd_lower]. apply lift_lower_upd.
Qed.

(* results on a flat memory are flat *)
Lemma write_vals_flat_shape ln nbits stride : forall vals m a ms' a',
  write_vals (MFlat m) nbits stride a vals ln = POk (ms', a') -> ms' = MFlat (ms_lower ms').
Proof.
  induction vals as [|v t IH]; intros m a ms' a' H; cbn [write_vals] in H.
  - injection H as <- <-. reflexivity.
  - destruct (py_int0 v) as [z|]; [|discriminate]. rewrite dwrite_flat_eq in H.
    destruct (mem_write rv_memcfg m nbits a (U nbits z)) as [m1 [e|]]; cbn [dres] in H.
    + destruct e; discriminate.
    + eapply IH; exact H.
Qed.

Lemma write_chars_flat_shape : forall cs m a ms' a',
  write_chars (MFlat m) a cs = POk (ms', a') -> ms' = MFlat (ms_lower ms').
Proof.
  induction cs as [|c t IH]; intros m a ms' a' H; cbn [write_chars] in H.
  - injection H as <- <-. reflexivity.
  - rewrite dwrite_flat_eq in H.
    destruct (mem_write rv_memcfg m 8 a (U8 c)) as [m1 [e|]]; cbn [dres] in H.
    + destruct e; discriminate.
    + eapply IH; exact H.
Qed.

Lemma write_data_cache_lem : forall data d a vars,
  write_data data (MCache d) a vars = lift_lower d (write_data data (MFlat (lower d)) a vars).
Proof.
  induction data as [|[ln l] t IH]; intros d a vars; cbn [write_data].
  - destruct d; reflexivity.
  - destruct l as [dd|name ty vals|name s|name v|name|inl b]; try reflexivity.
    + destruct (var_lookup vars name); [reflexivity|].
      assert (G : forall nbits stride,
        match write_vals (MCache d) nbits stride (align4 a) vals ln with
        | PErr e => PErr e
        | POk (m', a') => if a' >? data_limit then PErr (PMemSize (data_limit / 4)) else write_data t m' a' (vars ++ [(name, (align4 a, stride))])
        end =
        lift_lower d
          match write_vals (MFlat (lower d)) nbits stride (align4 a) vals ln with
          | PErr e => PErr e
          | POk (m', a') => if a' >? data_limit then PErr (PMemSize (data_limit / 4)) else write_data t m' a' (vars ++ [(name, (align4 a, stride))])
          end).
      2: { destruct (ty =? 0); [|destruct (ty =? 1)]; apply G. }
      intros nbits stride. rewrite write_vals_cache.
      destruct (write_vals (MFlat (lower d)) nbits stride (align4 a) vals ln) as [[m1 a1]|e] eqn:Ew; [|reflexivity].
      cbn [lift_lower]. destruct (a1 >? data_limit); [reflexivity|].
      rewrite IH. cbn [lower upd_lower]. rewrite lift_lower_upd.
      rewrite (write_vals_flat_shape _ _ _ _ _ _ _ _ Ew) at 2. reflexivity.
    + destruct (var_lookup vars name); [reflexivity|]. rewrite write_chars_cache.
      destruct (write_chars (MFlat (lower d)) (align4 a) (strip_quotes s)) as [[m1 a1]|e] eqn:Ew; [|reflexivity].
      cbn [lift_lower]. rewrite (write_chars_flat_shape _ _ _ _ _ Ew). cbn [ms_lower].
      rewrite dwrite_flat_eq, dwrite_cache_eq. cbn [lower upd_lower].
      destruct (mem_write rv_memcfg (ms_lower m1) 8 a1 0) as [m2 [e|]]; cbn [dres].
      * destruct e; reflexivity.
      * destruct (a1 + 1 >? data_limit); [reflexivity|].
        rewrite IH. cbn [lower upd_lower]. rewrite !lift_lower_upd. reflexivity.
    + destruct (var_lookup vars name); [reflexivity|].
      destruct (py_int10 v) as [n|]; [|reflexivity].
      destruct (align4 a + 4 * n >? data_limit); [reflexivity | apply IH].
Qed.

(** * 7. Segment order *)

(* vocabulary *)
Definition plain_rline (x : Z * rline) : Prop := rdir_of (snd x) = None.
(* the same lines under other line numbers *)
Definition renumber {A} (f : Z -> Z) (l : list (Z * A)) : list (Z * A) := map (fun p => (f (fst p), snd p)) l.
(* an error value without the line number it carries (addresses and sizes are kept) *)
Definition erase_line (e : perr) : perr :=
  match e with
  | PSyntax _ => PSyntax 0 | PLabel _ => PLabel 0 | POdd _ => POdd 0 | PDupLabel _ => PDupLabel 0
  | PDirective _ => PDirective 0 | PDataSyntax _ => PDataSyntax 0 | PDataDup _ => PDataDup 0
  | PVariable _ => PVariable 0 | PUncaught _ => PUncaught 0
  | PMemSize w => PMemSize w | PMemAddr a => PMemAddr a
  end.
Definition rel_res {A B} (R : A -> B -> Prop) (r1 : pres A) (r2 : pres B) : Prop :=
  match r1, r2 with
  | POk x, POk y => R x y
  | PErr e1, PErr e2 => erase_line e1 = erase_line e2
  | _, _ => False
  end.
(* both succeed with equal results, or both fail with the same error up to its line number *)
Definition same_outcome {A} (r1 r2 : pres A) : Prop := rel_res eq r1 r2.

Lemma rel_res_refl {A} (r : pres A) : rel_res eq r r.
Proof. destruct r; cbn; reflexivity. Qed.

Lemma rel_pbind {A A' B B'} (R : A -> A' -> Prop) (Q : B -> B' -> Prop) r1 r2 k1 k2 :
  rel_res R r1 r2 -> (forall x y, R x y -> rel_res Q (k1 x) (k2 y)) ->
  rel_res Q (pbind r1 k1) (pbind r2 k2).
Proof.
  intros H K. destruct r1 as [x|e1], r2 as [y|e2]; cbn in H |- *; try contradiction.
  - apply K; exact H.
  - exact H.
Qed.

(** ** the segmenter on the two orders *)
Lemma segment_loop_plain_g {A} (dir_of : A -> option Z) P :
  Forall (fun x => dir_of (snd x) = None) P -> forall rest de te data text,
  segment_loop A dir_of (P ++ rest) de te data text = segment_loop A dir_of rest de te data text.
Proof.
  intros HP. induction HP as [|[ln x] t Hx Ht IH]; intros rest de te data text; [reflexivity|].
  cbn [app segment_loop]. cbn [snd] in Hx. rewrite Hx. apply IH.
Qed.

Lemma segment_loop_all_plain_g {A} (dir_of : A -> option Z) P de te data text :
  Forall (fun x => dir_of (snd x) = None) P -> segment_loop A dir_of P de te data text = POk (data, text).
Proof.
  intros HP. rewrite <- (app_nil_r P). rewrite segment_loop_plain_g by assumption. reflexivity.
Qed.

Lemma segment_rv_data_text a b D T :
  Forall plain_rline D -> Forall plain_rline T -> ~ In b (map fst D) ->
  segment rdir_of ((a, RDirective 1) :: D ++ (b, RDirective 0) :: T) = POk (D, T).
Proof.
  intros HD HT Hb. cbn [segment rdir_of].
  rewrite (segment_loop_plain_g rdir_of D HD). cbn [segment_loop rdir_of].
  change (0 =? 1) with false. cbv iota.
  rewrite split_at_line_found by assumption. cbn [rev app].
  apply segment_loop_all_plain_g; assumption.
Qed.

Lemma segment_rv_text_data c d D T :
  Forall plain_rline D -> Forall plain_rline T -> ~ In d (map fst T) ->
  segment rdir_of ((c, RDirective 0) :: T ++ (d, RDirective 1) :: D) = POk (D, T).
Proof.
  intros HD HT Hd. cbn [segment rdir_of].
  rewrite (segment_loop_plain_g rdir_of T HT). cbn [segment_loop rdir_of].
  change (1 =? 1) with true. cbv iota.
  rewrite split_at_line_found by assumption. cbn [rev app].
  apply segment_loop_all_plain_g; assumption.
Qed.

(** ** the data pass does not depend on line numbers *)
Lemma write_vals_erase nbits stride ln ln' : forall vals m a,
  same_outcome (write_vals m nbits stride a vals ln) (write_vals m nbits stride a vals ln').
Proof.
  induction vals as [|v t IH]; intros m a; cbn [write_vals]; [apply rel_res_refl|].
  destruct (py_int0 v) as [z|]; [|reflexivity].
  destruct (dwrite m nbits a (U nbits z)) as [m1|e]; [apply IH | reflexivity].
Qed.

Lemma write_data_erase : forall D1 D2 m a vars, map snd D1 = map snd D2 ->
  same_outcome (write_data D1 m a vars) (write_data D2 m a vars).
Proof.
  induction D1 as [|[ln l] t IH]; intros [|[ln' l'] t'] m a vars H; try discriminate H.
  - apply rel_res_refl.
  - cbn [map snd] in H. injection H as <- Ht. cbn [write_data].
    destruct l as [d|name ty vals|name s|name v|name|inl b]; try reflexivity.
    + destruct (var_lookup vars name); [reflexivity|].
      assert (G : forall nbits stride, same_outcome
        match write_vals m nbits stride (align4 a) vals ln with
        | PErr e => PErr e
        | POk (m', a') => if a' >? data_limit then PErr (PMemSize (data_limit / 4)) else write_data t m' a' (vars ++ [(name, (align4 a, stride))])
        end
        match write_vals m nbits stride (align4 a) vals ln' with
        | PErr e => PErr e
        | POk (m', a') => if a' >? data_limit then PErr (PMemSize (data_limit / 4)) else write_data t' m' a' (vars ++ [(name, (align4 a, stride))])
        end).
      2: { destruct (ty =? 0); [|destruct (ty =? 1)]; apply G. }
      intros nbits stride. pose proof (write_vals_erase nbits stride ln ln' vals m (align4 a)) as R.
      unfold same_outcome in R.
      destruct (write_vals m nbits stride (align4 a) vals ln) as [[m1 a1]|e1],
               (write_vals m nbits stride (align4 a) vals ln') as [[m1' a1']|e1']; cbn in R; try contradiction.
      * injection R as <- <-. destruct (a1 >? data_limit); [reflexivity | apply IH; exact Ht].
      * exact R.
    + destruct (var_lookup vars name); [reflexivity|].
      destruct (write_chars m (align4 a) (strip_quotes s)) as [[m1 a1]|e]; [|reflexivity].
      destruct (dwrite m1 8 a1 0) as [m2|e]; [|reflexivity].
      destruct (a1 + 1 >? data_limit); [reflexivity | apply IH; exact Ht].
    + destruct (var_lookup vars name); [reflexivity|].
      destruct (py_int10 v) as [n|]; [|reflexivity].
      destruct (align4 a + 4 * n >? data_limit); [reflexivity | apply IH; exact Ht].
Qed.

(** ** in-line labels and expansion under renumbering *)
Lemma split_inline_renumber f : forall T,
  split_inline (renumber f T) = (renumber f (fst (split_inline T)), renumber f (snd (split_inline T))).
Proof.
  induction T as [|[ln l] t IH]; [reflexivity|].
  cbn [renumber map fst snd split_inline]. fold (renumber f t). rewrite IH.
  destruct (split_inline t) as [es labs]. cbn [fst snd].
  destruct l as [d|name ty vals|name s|name v|name|[inl|] b]; reflexivity.
Qed.

Lemma split_inline_lines : forall T,
  incl (map fst (fst (split_inline T))) (map fst T) /\ incl (map fst (snd (split_inline T))) (map fst T).
Proof.
  induction T as [|[ln l] t [IH1 IH2]]; [split; apply incl_refl|].
  cbn [split_inline]. destruct (split_inline t) as [es labs]. cbn [fst snd] in IH1, IH2.
  assert (Ha : incl (map fst ((ln, ELabel 0) :: es)) (map fst ((ln, l) :: t))).
  { cbn [map fst]. intros x [<- | Hx]; [left; reflexivity | right; apply IH1; exact Hx]. }
  assert (Hb : incl (map fst labs) (map fst ((ln, l) :: t))).
  { intros x Hx. right. apply IH2; exact Hx. }
  assert (Hc : forall nm, incl (map fst ((ln, nm) :: labs)) (map fst ((ln, l) :: t))).
  { intros nm. cbn [map fst]. intros x [<- | Hx]; [left; reflexivity | right; apply IH2; exact Hx]. }
  destruct l as [d|name ty vals|name s|name v|name|[inl|] b]; cbn [fst snd]; split; try exact Ha; try exact Hb.
  apply Hc.
Qed.

Lemma var_address_erase vars v ln ln' : same_outcome (var_address vars v ln) (var_address vars v ln').
Proof.
  unfold var_address. destruct (var_lookup vars (fst v)) as [[a size]|]; [|reflexivity].
  destruct (snd v) as [d|]; [|reflexivity]. destruct (py_int10 d); reflexivity.
Qed.

Lemma expand_one_erase vars ln ln' b : same_outcome (expand_one vars ln b) (expand_one vars ln' b).
Proof.
  destruct b as [k|i|]; [apply rel_res_refl | | apply rel_res_refl].
  unfold expand_one.
  destruct (k_mn i =? MN_LI).
  { destruct (k_rd i); [|reflexivity]. destruct (k_imm i) as [s|]; [|reflexivity].
    destruct (py_int0 s) as [z|]; [|reflexivity]. destruct (hi_lo z). destruct (_ || _); reflexivity. }
  destruct (is_load_mn (k_mn i) || (k_mn i =? MN_LA)).
  { destruct (k_var i) as [v|]; [|reflexivity].
    pose proof (var_address_erase vars v ln ln') as R. unfold same_outcome in R.
    destruct (var_address vars v ln) as [x|e1], (var_address vars v ln') as [x'|e1']; cbn in R; try contradiction.
    - subst x'. destruct (k_reg1 i); [|reflexivity]. destruct (hi_lo x). destruct (is_load_mn _); reflexivity.
    - exact R. }
  destruct (is_store_mn (k_mn i)).
  { destruct (k_var i) as [v|]; [|reflexivity].
    pose proof (var_address_erase vars v ln ln') as R. unfold same_outcome in R.
    destruct (var_address vars v ln) as [x|e1], (var_address vars v ln') as [x'|e1']; cbn in R; try contradiction.
    - subst x'. destruct (k_reg1 i); [|reflexivity]. destruct (k_reg2 i); [|reflexivity].
      destruct (hi_lo x). reflexivity.
    - exact R. }
  destruct (k_mn i =? MN_MV); [|reflexivity].
  destruct (k_rd i); [|reflexivity]. destruct (k_rs i); reflexivity.
Qed.

Lemma expand_all_renumber vars f : forall es,
  rel_res (fun r1 r2 => r2 = renumber f r1) (expand_all vars es) (expand_all vars (renumber f es)).
Proof.
  induction es as [|[ln e] t IH]; [reflexivity|].
  cbn [renumber map fst snd expand_all]. fold (renumber f t).
  destruct e as [name|b].
  - destruct (expand_all vars t) as [r|e1], (expand_all vars (renumber f t)) as [r'|e1']; cbn in IH |- *;
      try contradiction; [subst r'; reflexivity | exact IH].
  - pose proof (expand_one_erase vars ln (f ln) b) as R. unfold same_outcome in R.
    destruct (expand_one vars ln b) as [bs|e0], (expand_one vars (f ln) b) as [bs'|e0']; cbn in R; try contradiction;
      [subst bs' | exact R].
    destruct (expand_all vars t) as [r|e1], (expand_all vars (renumber f t)) as [r'|e1']; cbn in IH |- *;
      try contradiction; [subst r' | exact IH].
    unfold renumber. rewrite map_app, map_map. reflexivity.
Qed.

Lemma expand_all_lines vars : forall es r, expand_all vars es = POk r -> incl (map fst r) (map fst es).
Proof.
  induction es as [|[ln e] t IH]; intros r H; cbn [expand_all] in H.
  - injection H as <-. apply incl_refl.
  - destruct e as [name|b].
    + destruct (expand_all vars t) as [r0|]; [|discriminate]. injection H as <-.
      cbn [map fst]. intros x [<- | Hx]; [left; reflexivity | right; apply (IH _ eq_refl); exact Hx].
    + destruct (expand_one vars ln b) as [bs|]; [|discriminate].
      destruct (expand_all vars t) as [r0|]; [|discriminate]. injection H as <-.
      rewrite map_app, map_map. cbn [fst map]. intros x Hx. apply in_app_or in Hx. destruct Hx as [Hx | Hx].
      * left. apply in_map_iff in Hx. destruct Hx as (y & <- & _). reflexivity.
      * right. apply (IH _ eq_refl); exact Hx.
Qed.

(** ** labels *)
Definition inj_on (f : Z -> Z) (ls : list Z) : Prop := forall x y, In x ls -> In y ls -> f x = f y -> x = y.

Lemma mget_opt_renumber f ls : inj_on f ls -> forall inl ln, incl (map fst inl) ls -> In ln ls ->
  mget_opt (renumber f inl) (f ln) = mget_opt inl ln.
Proof.
  intros Hf. induction inl as [|[k v] t IH]; intros ln Hi Hl; [reflexivity|].
  cbn [renumber map fst snd mget_opt]. fold (renumber f t).
  assert (Hk : In k ls) by (apply Hi; left; reflexivity).
  assert (E : (f k =? f ln) = (k =? ln)).
  { destruct (k =? ln) eqn:E1.
    - apply Z.eqb_eq in E1. subst. apply Z.eqb_refl.
    - apply Z.eqb_neq. intros E2. apply Z.eqb_neq in E1. apply E1. apply Hf; assumption. }
  rewrite E. destruct (k =? ln); [reflexivity|]. apply IH; [|exact Hl].
  intros x Hx. apply Hi. right. exact Hx.
Qed.

Lemma add_label_erase_rv labels name v ln ln' : same_outcome (add_label labels name v ln) (add_label labels name v ln').
Proof. unfold add_label. destruct (mget_opt labels name); reflexivity. Qed.

Lemma rv_labels_renumber f ls : inj_on f ls -> forall text inl addr labels last,
  incl (map fst text) ls -> incl (map fst inl) ls -> (forall l, last = Some l -> In l ls) ->
  same_outcome (rv_labels text inl addr labels last)
               (rv_labels (renumber f text) (renumber f inl) addr labels (option_map f last)).
Proof.
  intros Hf. induction text as [|[ln e] t IH]; intros inl addr labels last Ht Hi Hl; [apply rel_res_refl|].
  cbn [renumber map fst snd rv_labels]. fold (renumber f t).
  assert (Hln : In ln ls) by (apply Ht; left; reflexivity).
  assert (Ht' : incl (map fst t) ls) by (intros x Hx; apply Ht; right; exact Hx).
  assert (Hnext : forall l, Some ln = Some l -> In l ls) by (intros l E; injection E as <-; exact Hln).
  destruct e as [name|b].
  - pose proof (add_label_erase_rv labels name addr ln (f ln)) as R. unfold same_outcome in R.
    destruct (add_label labels name addr ln) as [lb|e1], (add_label labels name addr (f ln)) as [lb'|e1'];
      cbn in R; try contradiction; [subst lb' | exact R].
    apply (IH inl addr lb (Some ln)); assumption.
  - rewrite (mget_opt_renumber f ls Hf inl ln Hi Hln).
    assert (Efirst : match option_map f last with Some l => negb (l =? f ln) | None => true end =
                     match last with Some l => negb (l =? ln) | None => true end).
    { destruct last as [l|]; [|reflexivity]. cbn [option_map]. f_equal.
      assert (Hlin : In l ls) by (apply Hl; reflexivity).
      destruct (l =? ln) eqn:E1.
      - apply Z.eqb_eq in E1. subst. apply Z.eqb_refl.
      - apply Z.eqb_neq. intros E2. apply Z.eqb_neq in E1. apply E1. apply Hf; assumption. }
    rewrite Efirst.
    set (first := match last with Some l => negb (l =? ln) | None => true end).
    assert (R : same_outcome
      (match mget_opt inl ln with
       | Some name => if first then add_label labels name addr ln else POk labels
       | None => POk labels end)
      (match mget_opt inl ln with
       | Some name => if first then add_label labels name addr (f ln) else POk labels
       | None => POk labels end)).
    { destruct (mget_opt inl ln) as [name|]; [|reflexivity]. destruct first; [apply add_label_erase_rv | reflexivity]. }
    unfold same_outcome in R.
    destruct (match mget_opt inl ln with
       | Some name => if first then add_label labels name addr ln else POk labels
       | None => POk labels end) as [lb|e1],
      (match mget_opt inl ln with
       | Some name => if first then add_label labels name addr (f ln) else POk labels
       | None => POk labels end) as [lb'|e1']; cbn in R; try contradiction; [subst lb' | exact R].
    apply (IH inl _ lb (Some ln)); assumption.
Qed.

(** ** instantiation *)
Lemma need_reg_erase r ln ln' : same_outcome (need_reg r ln) (need_reg r ln').
Proof. unfold need_reg. destruct r as [t|]; [destruct (reg_num t)|]; reflexivity. Qed.

Lemma need_int_erase s ln ln' : same_outcome (need_int s ln) (need_int s ln').
Proof. unfold need_int. destruct s as [t|]; [destruct (py_int0 t)|]; reflexivity. Qed.

Lemma label_or_imm_erase i labels addr ln ln' :
  same_outcome (label_or_imm i labels addr ln) (label_or_imm i labels addr ln').
Proof.
  unfold label_or_imm, same_outcome. destruct (k_imm i) as [s|].
  - apply (rel_pbind eq); [apply need_int_erase|]. intros x y <-. destruct (_ =? 0); reflexivity.
  - apply (rel_pbind eq).
    + destruct (k_offset i); [apply need_int_erase | reflexivity].
    + intros x y <-. destruct (k_label i) as [l|]; [destruct (mget_opt labels l)|]; reflexivity.
Qed.

Ltac erase_binds :=
  repeat (apply (rel_pbind eq);
          [first [apply need_reg_erase | apply need_int_erase | apply label_or_imm_erase] | intros ? ? <-]);
  try reflexivity.

Lemma instantiate_one_erase i labels addr ln ln' :
  same_outcome (instantiate_one i labels addr ln) (instantiate_one i labels addr ln').
Proof.
  unfold instantiate_one, same_outcome.
  destruct (negb (in_instruction_map (k_mn i))); [reflexivity|].
  destruct (k_mn i <=? 17); [erase_binds|].
  destruct ((k_mn i <=? 33) || (k_mn i =? 46)); [erase_binds|].
  destruct (k_mn i <=? 36); [erase_binds|].
  destruct (k_mn i <=? 42); [erase_binds|].
  destruct (k_mn i <=? 44); [erase_binds|].
  destruct (k_mn i =? 45); [erase_binds|].
  destruct (k_mn i =? 47); [reflexivity|].
  destruct (k_mn i <=? 50); erase_binds.
Qed.

Lemma instantiate_renumber f labels : forall text addr,
  same_outcome (instantiate text labels addr) (instantiate (renumber f text) labels addr).
Proof.
  induction text as [|[ln e] t IH]; intros addr; [apply rel_res_refl|].
  cbn [renumber map fst snd instantiate]. fold (renumber f t). unfold same_outcome.
  destruct e as [name|[k|i|]].
  - apply IH.
  - destruct (k =? 0); [|destruct (k =? 1)].
    + apply (rel_pbind eq); [apply IH | intros x y <-; reflexivity].
    + apply (rel_pbind eq); [apply IH | intros x y <-; reflexivity].
    + apply IH.
  - apply (rel_pbind eq); [apply instantiate_one_erase|]. intros x y <-.
    apply (rel_pbind eq); [apply IH | intros r r' <-; reflexivity].
  - reflexivity.
Qed.

(** ** the assembler after segmentation *)
Definition assemble_rest (data text0 : list (Z * rline)) (m : memsys) : pres (memsys * image) :=
  let '(text1, inlabs) := split_inline text0 in
  pbind (write_data data m 16384 []) (fun mv =>
  let '(m', vars) := mv in
  pbind (expand_all vars text1) (fun text2 =>
  pbind (rv_labels text2 inlabs 0 [] None) (fun labels =>
  pbind (instantiate text2 labels 0) (fun ins =>
  if 4 * Z.of_nat (List.length ins) >? imem_limit then PErr (PMemAddr imem_limit)
  else POk (m', {| i_instrs := ins; i_labels := labels; i_vars := vars |}))))).

Lemma assemble_unfold toks m :
  assemble toks m = pbind (segment rdir_of toks) (fun dt => assemble_rest (fst dt) (snd dt) m).
Proof.
  unfold assemble, assemble_rest. destruct (segment rdir_of toks) as [[data text0]|e]; reflexivity.
Qed.

Lemma assemble_rest_renumber D1 D2 T1 f m :
  map snd D1 = map snd D2 -> inj_on f (map fst T1) ->
  same_outcome (assemble_rest D1 T1 m) (assemble_rest D2 (renumber f T1) m).
Proof.
  intros HD Hf. unfold assemble_rest. rewrite split_inline_renumber.
  destruct (split_inline_lines T1) as [Hl1 Hl2].
  destruct (split_inline T1) as [text1 inlabs]. cbn [fst snd] in *.
  unfold same_outcome. apply (rel_pbind eq); [apply write_data_erase; exact HD|].
  intros [m' vars] ? <-.
  pose proof (expand_all_renumber vars f text1) as R.
  pose proof (expand_all_lines vars text1) as Hlines.
  destruct (expand_all vars text1) as [text2|e1], (expand_all vars (renumber f text1)) as [text2'|e1'];
    cbn in R |- *; try contradiction; [subst text2' | exact R].
  specialize (Hlines _ eq_refl).
  apply (rel_pbind eq).
  - apply (rv_labels_renumber f (map fst T1) Hf text2 inlabs 0 [] None).
    + intros x Hx. apply Hl1, Hlines, Hx.
    + exact Hl2.
    + intros l E; discriminate E.
  - intros labels ? <-. apply (rel_pbind eq); [apply instantiate_renumber|].
    intros ins ? <-. apply rel_res_refl.
Qed.

Lemma plain_transfer D1 D2 : map snd D1 = map snd D2 -> Forall plain_rline D1 -> Forall plain_rline D2.
Proof.
  revert D2. induction D1 as [|[ln l] t IH]; intros [|[ln' l'] t'] H HF; try discriminate H; [constructor|].
  cbn [map snd] in H. injection H as <- Ht. inversion HF as [|? ? Hx Hr]; subst.
  constructor; [exact Hx | apply IH; assumption].
Qed.

Lemma plain_renumber f T : Forall plain_rline T -> Forall plain_rline (renumber f T).
Proof.
  intros H. induction H as [|[ln l] t Hx Ht IH]; [constructor|].
  cbn [renumber map]. constructor; [exact Hx | exact IH].
Qed.

Lemma layout_segment_order_lem : forall a b c d D1 T1 D2 f m,
  Forall plain_rline D1 -> Forall plain_rline T1 ->
  map snd D1 = map snd D2 ->
  (forall x y, In x (map fst T1) -> In y (map fst T1) -> f x = f y -> x = y) ->
  ~ In b (map fst D1) -> ~ In d (map fst (renumber f T1)) ->
  let L1 := (a, RDirective 1) :: D1 ++ (b, RDirective 0) :: T1 in
  let L2 := (c, RDirective 0) :: renumber f T1 ++ (d, RDirective 1) :: D2 in
  same_outcome (assemble L1 m) (assemble L2 m).
Proof.
  intros a b c d D1 T1 D2 f m HD HT Hsnd Hf Hb Hd L1 L2. unfold L1, L2.
  rewrite !assemble_unfold.
  rewrite segment_rv_data_text by assumption.
  rewrite segment_rv_text_data
    by first [assumption | eapply plain_transfer; eassumption | apply plain_renumber; assumption].
  cbn [pbind fst snd]. apply assemble_rest_renumber; assumption.
Qed.

(** * Packaged statements for Props/C05.v *)
Lemma literal_value_decimal_lem :
  (forall z, - 10 ^ 4300 < z < 10 ^ 4300 -> py_int0 (str_dec z) = Some z) /\
  (forall z, 0 <= z < 10 ^ 4300 -> py_int0 (45 :: str_dec z) = Some (- z)).
Proof. exact (conj py_int0_str_dec py_int0_neg_str_dec). Qed.

Lemma rset_meaning_lem : forall s r v,
  (0 < r < 32 -> rget (rset s r v) r = v) /\
  (forall k, k <> r -> rget (rset s r v) k = rget s k) /\
  ms (rset s r v) = ms s /\ out (rset s r v) = out s /\ pc (rset s r v) = pc s /\ im (rset s r v) = im s /\
  exitc (rset s r v) = exitc s /\ cycles (rset s r v) = cycles s.
Proof.
  intros s r v. split; [apply rget_rset_same|]. split; [intros k; apply rget_rset_other|]. apply rset_frame.
Qed.

Lemma segment_two_orders_lem :
  (forall a b D T, Forall plain_rline D -> Forall plain_rline T -> ~ In b (map fst D) ->
     segment rdir_of ((a, RDirective 1) :: D ++ (b, RDirective 0) :: T) = POk (D, T)) /\
  (forall c d D T, Forall plain_rline D -> Forall plain_rline T -> ~ In d (map fst T) ->
     segment rdir_of ((c, RDirective 0) :: T ++ (d, RDirective 1) :: D) = POk (D, T)).
Proof. exact (conj segment_rv_data_text segment_rv_text_data). Qed.
