(* Proofs/LiftEcall.v — the C-string scan and process_ecall under the simulation [sim]:
   the scan fuel (which depends on the memory system) never matters, and the scan through a
   cache reads what the flat memory holds. *)
From Coq Require Import Lia ZifyBool.
From ArchSim Require Import Spec.RefCache.
From ArchSim Require Import Model.Base Model.Mem Model.Cache Model.Fmt Model.RV Model.Single
  Spec.RV32IM Proofs.WordLemmas Proofs.MapLemmas Proofs.CacheArith Proofs.CacheInv Proofs.C03Proofs
  Proofs.C01Mem Proofs.C01Step Proofs.C01Extra Proofs.LiftFlat Proofs.LiftAccess Proofs.LiftSim.
Open Scope Z_scope.
Local Arguments Z.mul : simpl never.
Local Arguments Z.add : simpl never.
Local Arguments Z.sub : simpl never.
Local Arguments Z.pow : simpl never.
Local Arguments Z.div : simpl never.
Local Arguments Z.modulo : simpl never.
Local Arguments Z.of_nat : simpl never.
Local Arguments Z.to_nat : simpl never.

Definition rmapA {A} (g : mcfg) (r : res A) : res A :=
  match r with Ok v => Ok v | Err e => Err (emap g false e) end.

Lemma rmap_rmapA g r : rmap g r = rmapA g r.
Proof. destruct r; reflexivity. Qed.
Lemma rmapA_none {A} (r : res A) : rmapA None r = r.
Proof. destruct r; reflexivity. Qed.

Lemma xw8 a : xw 8 a = false.
Proof. unfold xw. change (8 / 8) with 1. lia. Qed.

Lemma okw8 : okw 8. Proof. left. reflexivity. Qed.
Lemma okw16 : okw 16. Proof. right. left. reflexivity. Qed.
Lemma okw32 : okw 32. Proof. right. right. reflexivity. Qed.

(** * The scan through any memory system, same fuel *)
Lemma cs_sim k : forall s t a acc r s', sim s t -> read_cstring k s a acc = (r, s') ->
  exists r', read_cstring k t a acc = (r', t) /\ sim s' t /\ ms_cfg (ms s') = ms_cfg (ms s) /\
             r = rmapA (ms_cfg (ms s)) r'.
Proof.
  induction k as [|k IH]; intros s t a acc r s' S H; cbn [read_cstring] in *.
  - injection H as <- <-. eexists. split; [reflexivity|]. split; [exact S|]. split; [reflexivity|].
    cbn [rmapA]. destruct (ms_cfg (ms s)) as [[c wt]|]; reflexivity.
  - destruct (st_read s 8 a false) as [rb s1] eqn:Hr.
    destruct (sim_st_read s t 8 a false rb s1 S okw8 Hr) as (rb' & Hr' & S1 & Hcfg & Hin & _).
    rewrite Hr'. specialize (Hin (xw8 a)). subst rb.
    destruct rb' as [b|e]; cbn [rmap] in H.
    + destruct (b =? 0).
      * injection H as <- <-. eexists. split; [reflexivity|]. split; [exact S1|]. split; [exact Hcfg | reflexivity].
      * destruct (IH s1 t (a + 1) (acc ++ [b mod 128]) r s' S1 H) as (r' & Hr2 & S2 & Hcfg2 & ->).
        exists r'. split; [exact Hr2|]. split; [exact S2|]. rewrite Hcfg2, Hcfg. split; reflexivity.
    + injection H as <- <-. eexists. split; [reflexivity|]. split; [exact S1|]. split; [exact Hcfg | reflexivity].
Qed.

(** * The reference scan: extensional in the memory, monotone in the fuel *)
Lemma wrap_in32b a : in32b (wrap a).
Proof. unfold wrap, in32b. lia. Qed.

Lemma spec_cstring_ext k : forall f f' a, mext f f' -> spec_cstring k f a = spec_cstring k f' a.
Proof.
  induction k as [|k IH]; intros f f' a H; cbn [spec_cstring]; [reflexivity|].
  rewrite (H _ (wrap_in32b a)), (IH f f' (a + 1) H). reflexivity.
Qed.

Lemma spec_cstring_mono k : forall f a j, spec_cstring k f a <> CsFuel ->
  spec_cstring (k + j) f a = spec_cstring k f a.
Proof.
  induction k as [|k IH]; intros f a j H; cbn [spec_cstring Nat.add] in *; [exfalso; apply H; reflexivity|].
  destruct (valid_addr (wrap a)); [|reflexivity].
  destruct (mget f (wrap a) =? 0); [reflexivity|].
  rewrite (IH f (a + 1) j); [reflexivity|].
  intros E. rewrite E in H. apply H. reflexivity.
Qed.

Lemma spec_cstring_fuel_indep k1 k2 f1 f2 a : mext f1 f2 ->
  (length f1 < k1)%nat -> (length f2 < k2)%nat -> spec_cstring k1 f2 a = spec_cstring k2 f2 a.
Proof.
  intros Hx H1 H2.
  assert (N1 : spec_cstring k1 f2 a <> CsFuel).
  { rewrite <- (spec_cstring_ext k1 f1 f2 a Hx). intros E. apply cs_fuel_bound in E. lia. }
  assert (N2 : spec_cstring k2 f2 a <> CsFuel) by (intros E; apply cs_fuel_bound in E; lia).
  rewrite <- (spec_cstring_mono k1 f2 a k2 N1), <- (spec_cstring_mono k2 f2 a k1 N2).
  rewrite (Nat.add_comm k1 k2). reflexivity.
Qed.

Lemma cstring_fuel_big s : ms_ok (ms s) -> (length (ms_flat (ms s)) < cstring_fuel s)%nat.
Proof.
  unfold cstring_fuel. destruct (ms s) as [m|d]; cbn [ms_ok ms_flat]; intros H; [lia|].
  apply flat_of_length. exact H.
Qed.

(* on a flat state the scan result does not depend on which sufficient fuel is used *)
Lemma read_cstring_fuel_indep t f k1 k2 f1 a acc : ms t = MFlat f -> bytes_ok f -> mext f1 f ->
  (length f1 < k1)%nat -> (length f < k2)%nat ->
  read_cstring k1 t a acc = read_cstring k2 t a acc.
Proof.
  intros Hm Hb Hx H1 H2.
  rewrite (cstring_refines k1 t f a acc Hm Hb), (cstring_refines k2 t f a acc Hm Hb).
  rewrite (spec_cstring_fuel_indep k1 k2 f1 f a Hx H1 H2). reflexivity.
Qed.

(** * process_ecall *)
Lemma sim_ecall s t r s' : sim s t -> process_ecall s = (r, s') ->
  exists r', process_ecall t = (r', t) /\ sim s' t /\ ms_cfg (ms s') = ms_cfg (ms s) /\
             r = rmapA (ms_cfg (ms s)) r'.
Proof.
  intros S H. unfold process_ecall in *. rewrite <- !(sim_rget s t _ S).
  set (code := rget s 17) in *. set (arg := rget s 10) in *.
  assert (Triv : forall x : res ecall_result, (x, s) = (r, s') -> (forall e, x <> Err e) ->
            exists r', (x, t) = (r', t) /\ sim s' t /\ ms_cfg (ms s') = ms_cfg (ms s) /\
                       r = rmapA (ms_cfg (ms s)) r').
  { intros x E Hne. injection E as <- <-. exists x. split; [reflexivity|]. split; [exact S|].
    split; [reflexivity|]. destruct x; [reflexivity | exfalso; eapply Hne; reflexivity]. }
  destruct (code =? 1); [apply Triv; [exact H | discriminate]|].
  destruct (code =? 2); [apply Triv; [exact H | discriminate]|].
  destruct (code =? 4).
  { pose proof (sm_mem _ _ S) as (Hok & f & Hmt & Hfb & Hf).
    destruct (read_cstring (cstring_fuel s) s arg []) as [rs s1] eqn:Hr.
    destruct (cs_sim _ s t arg [] rs s1 S Hr) as (rs' & Hr' & S1 & Hcfg & ->).
    assert (Hfu : read_cstring (cstring_fuel t) t arg [] = read_cstring (cstring_fuel s) t arg []).
    { symmetry. apply (read_cstring_fuel_indep t f _ _ (ms_flat (ms s)) arg [] Hmt Hfb).
      - intros x Hx. rewrite (Hf x Hx). apply ms_flat_logical; assumption.
      - apply cstring_fuel_big. exact Hok.
      - unfold cstring_fuel. rewrite Hmt. lia. }
    rewrite Hfu, Hr'.
    destruct rs' as [tx|e]; cbn [rmapA] in H; injection H as <- <-;
      (eexists; split; [reflexivity|]; split; [exact S1|]; split; [exact Hcfg | reflexivity]). }
  destruct (code =? 11); [apply Triv; [exact H | discriminate]|].
  destruct (code =? 34); [apply Triv; [exact H | discriminate]|].
  destruct (code =? 35); [apply Triv; [exact H | discriminate]|].
  destruct (code =? 36); [apply Triv; [exact H | discriminate]|].
  destruct (code =? 10); [apply Triv; [exact H | discriminate]|].
  destruct (code =? 93); [apply Triv; [exact H | discriminate]|].
  injection H as <- <-. eexists. split; [reflexivity|]. split; [exact S|]. split; [reflexivity|].
  cbn [rmapA]. destruct (ms_cfg (ms s)) as [[c wt]|]; reflexivity.
Qed.
