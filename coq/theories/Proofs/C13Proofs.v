(* C13Proofs.v — life cycle of a simulation (simulation.py, riscv_simulation.py, toy_simulation.py):
   done is stable, step()/run() are no-ops once done, the boolean step() returns, run() = step()
   until done (for every sufficient fuel), empty programs, and loading a program after earlier
   loads.  Three machines: single-cycle (Single.v), five-stage (Pipe.v), TOY (Toy.v).
   All statements hold for ALL model states (no invariant) unless a hypothesis is written. *)
From Coq Require Import Lia ZifyBool.
From ArchSim Require Import Model.Base Model.Mem Model.Cache Model.Fmt Model.RV Model.Single
  Model.RVSplit Model.Pipe Model.Toy Model.Asm Proofs.C06Proofs Proofs.C20Proofs.
Open Scope Z_scope.

Local Arguments Z.mul : simpl never.
Local Arguments Z.add : simpl never.
Local Arguments Z.sub : simpl never.
Local Arguments Z.pow : simpl never.
Local Arguments Z.div : simpl never.
Local Arguments Z.modulo : simpl never.

(* ------------------------------------------------------------------------------------------ *)
(** * 1. Single-cycle machine *)

(* step() called for its effect only *)
Definition single_next (s : st) : st := snd (fst (single_sim_step s)).
Fixpoint single_iter (n : nat) (s : st) : st :=
  match n with O => s | S k => single_iter k (single_next s) end.

(* "call step() while the simulation is not done", at most k times; ends like run() *)
Fixpoint single_steps (k : nat) (s : st) : st * run_end :=
  match k with
  | O => (s, if single_done s then Done else OutOfFuel)
  | S k' =>
      if single_done s then (s, Done)
      else match single_sim_step s with
           | (_, s', Some f) => (s', Faulted f)
           | (_, s', None) => single_steps k' s'
           end
  end.

(* "call step() until it returns False", at most k times *)
Fixpoint single_steps_ret (k : nat) (s : st) : st * run_end :=
  match k with
  | O => (s, if single_done s then Done else OutOfFuel)
  | S k' =>
      match single_sim_step s with
      | (_, s', Some f) => (s', Faulted f)
      | (true, s', None) => single_steps_ret k' s'
      | (false, s', None) => (s', Done)
      end
  end.

Lemma done_stable_single_lemma s : single_done s = true ->
  single_sim_step s = (false, s, None) /\ forall n, single_run n s = (s, Done).
Proof.
  intros Hd. split.
  - unfold single_sim_step. rewrite Hd. reflexivity.
  - intros [|n]; cbn [single_run]; rewrite Hd; reflexivity.
Qed.

Lemma single_iter_done n s : single_done s = true -> single_iter n s = s.
Proof.
  intros Hd. induction n as [|k IH]; cbn [single_iter]; [reflexivity|].
  unfold single_next. destruct (done_stable_single_lemma s Hd) as [-> _]. exact IH.
Qed.

(* done is stable under any number of step() and run() calls, in any order *)
Lemma done_stays_single_lemma s : single_done s = true ->
  forall n, single_done (single_iter n s) = true /\ single_done (fst (single_run n s)) = true.
Proof.
  intros Hd n. rewrite (single_iter_done n s Hd).
  destruct (done_stable_single_lemma s Hd) as [_ ->]. auto.
Qed.

Lemma step_result_single_lemma s b s' : single_sim_step s = (b, s', None) ->
  b = negb (single_done s').
Proof.
  unfold single_sim_step. destruct (single_done s) eqn:Hd.
  - intros H. injection H as <- <-. rewrite Hd. reflexivity.
  - destruct (single_pipeline_step s) as [s1 [f|]]; intros H; [discriminate|].
    injection H as <- <-. reflexivity.
Qed.

Lemma step_result_iff_single_lemma s b s' : single_sim_step s = (b, s', None) ->
  (b = false <-> single_done s' = true).
Proof.
  intros H. rewrite (step_result_single_lemma s b s' H).
  destruct (single_done s'); cbn [negb]; split; intros; congruence.
Qed.

(* when step() raises, the model's flag is false (Python has no return value then) *)
Lemma step_fault_single_lemma s b s' f : single_sim_step s = (b, s', Some f) ->
  single_done s = false /\ single_pipeline_step s = (s', Some f) /\ b = false.
Proof.
  unfold single_sim_step. destruct (single_done s) eqn:Hd; [discriminate|].
  destruct (single_pipeline_step s) as [s1 [g|]]; intros H; [|discriminate].
  injection H as <- <- <-. auto.
Qed.

Lemma run_eq_steps_single_lemma n : forall s, single_run n s = single_steps n s.
Proof.
  induction n as [|k IH]; intros s; cbn [single_run single_steps]; [reflexivity|].
  destruct (single_done s) eqn:Hd; [reflexivity|].
  unfold single_sim_step. rewrite Hd.
  destruct (single_pipeline_step s) as [s1 [f|]]; [reflexivity|]. apply IH.
Qed.

Lemma run_eq_steps_ret_single_lemma n : forall s, single_run n s = single_steps_ret n s.
Proof.
  induction n as [|k IH]; intros s; cbn [single_run single_steps_ret]; [reflexivity|].
  unfold single_sim_step. destruct (single_done s) eqn:Hd; [reflexivity|].
  destruct (single_pipeline_step s) as [s1 [f|]]; [reflexivity|].
  destruct (single_done s1) eqn:Hd1; cbn [negb].
  - destruct (done_stable_single_lemma s1 Hd1) as [_ ->]. reflexivity.
  - apply IH.
Qed.

(* once run() has ended (done or fault), more fuel changes nothing *)
Lemma run_fuel_mono_single_lemma n : forall s s' e, single_run n s = (s', e) -> e <> OutOfFuel ->
  forall n', (n <= n')%nat -> single_run n' s = (s', e).
Proof.
  induction n as [|k IH]; intros s s' e Hr He n' Hle.
  - cbn [single_run] in Hr. destruct (single_done s) eqn:Hd.
    + injection Hr as <- <-. apply (done_stable_single_lemma s Hd).
    + injection Hr as <- <-. congruence.
  - destruct n' as [|k']; [lia|]. cbn [single_run] in *.
    destruct (single_done s) eqn:Hd; [exact Hr|].
    destruct (single_pipeline_step s) as [s1 [f|]]; [exact Hr|].
    apply (IH s1 s' e Hr He). lia.
Qed.

(* run() = calling step() m times for ANY m at least the fuel run() needed *)
Lemma run_eq_iter_single_lemma n : forall s s', single_run n s = (s', Done) ->
  forall m, (n <= m)%nat -> single_iter m s = s' /\ single_done s' = true.
Proof.
  induction n as [|k IH]; intros s s' Hr m Hle.
  - cbn [single_run] in Hr. destruct (single_done s) eqn:Hd; [|discriminate].
    injection Hr as <-. split; [apply single_iter_done|]; exact Hd.
  - cbn [single_run] in Hr. destruct (single_done s) eqn:Hd.
    + injection Hr as <-. split; [apply single_iter_done|]; exact Hd.
    + destruct (single_pipeline_step s) as [s1 [f|]] eqn:Hs; [discriminate|].
      destruct m as [|m']; [lia|]. cbn [single_iter].
      assert (Hn : single_next s = s1).
      { unfold single_next, single_sim_step. rewrite Hd, Hs. reflexivity. }
      rewrite Hn. apply (IH s1 s' Hr). lia.
Qed.

Lemma instr_at_nil a : instr_at [] a = None.
Proof.
  unfold instr_at. destruct (_ && _); [|reflexivity]. destruct (Z.to_nat (a / 4)); reflexivity.
Qed.

Lemma has_instr_nil i a : prog i = [] -> has_instr i a = false.
Proof. intros H. unfold has_instr. rewrite H, instr_at_nil. reflexivity. Qed.

Lemma empty_program_done_single_lemma s : prog (im s) = [] ->
  single_done s = true /\ single_sim_step s = (false, s, None) /\
  forall n, single_run n s = (s, Done).
Proof.
  intros H. assert (Hd : single_done s = true).
  { unfold single_done. rewrite (has_instr_nil _ _ H). destruct (exitc s); reflexivity. }
  split; [exact Hd|]. apply done_stable_single_lemma. exact Hd.
Qed.

(* ------------------------------------------------------------------------------------------ *)
(** * 2. Five-stage machine *)

Definition pipe_next (p : pstate) : pstate := snd (fst (pipe_sim_step p)).
Fixpoint pipe_iter (n : nat) (p : pstate) : pstate :=
  match n with O => p | S k => pipe_iter k (pipe_next p) end.

Fixpoint pipe_steps (k : nat) (p : pstate) : pstate * prun_end :=
  match k with
  | O => (p, if pipe_done p then PDone else POutOfFuel)
  | S k' =>
      if pipe_done p then (p, PDone)
      else match pipe_sim_step p with
           | (_, p', Some f) => (p', PFaulted f)
           | (_, p', None) => pipe_steps k' p'
           end
  end.

Fixpoint pipe_steps_ret (k : nat) (p : pstate) : pstate * prun_end :=
  match k with
  | O => (p, if pipe_done p then PDone else POutOfFuel)
  | S k' =>
      match pipe_sim_step p with
      | (_, p', Some f) => (p', PFaulted f)
      | (true, p', None) => pipe_steps_ret k' p'
      | (false, p', None) => (p', PDone)
      end
  end.

Lemma done_stable_pipe_lemma p : pipe_done p = true ->
  pipe_sim_step p = (false, p, None) /\ forall n, pipe_run n p = (p, PDone).
Proof.
  intros Hd. split.
  - unfold pipe_sim_step. rewrite Hd. reflexivity.
  - intros [|n]; cbn [pipe_run]; rewrite Hd; reflexivity.
Qed.

Lemma pipe_iter_done n p : pipe_done p = true -> pipe_iter n p = p.
Proof.
  intros Hd. induction n as [|k IH]; cbn [pipe_iter]; [reflexivity|].
  unfold pipe_next. destruct (done_stable_pipe_lemma p Hd) as [-> _]. exact IH.
Qed.

Lemma done_stays_pipe_lemma p : pipe_done p = true ->
  forall n, pipe_done (pipe_iter n p) = true /\ pipe_done (fst (pipe_run n p)) = true.
Proof.
  intros Hd n. rewrite (pipe_iter_done n p Hd).
  destruct (done_stable_pipe_lemma p Hd) as [_ ->]. auto.
Qed.

Lemma step_result_pipe_lemma p b p' : pipe_sim_step p = (b, p', None) ->
  b = negb (pipe_done p').
Proof.
  unfold pipe_sim_step. destruct (pipe_done p) eqn:Hd.
  - intros H. injection H as <- <-. rewrite Hd. reflexivity.
  - destruct (pipe_step p) as [p1 [f|]]; intros H; [discriminate|].
    injection H as <- <-. reflexivity.
Qed.

Lemma step_result_iff_pipe_lemma p b p' : pipe_sim_step p = (b, p', None) ->
  (b = false <-> pipe_done p' = true).
Proof.
  intros H. rewrite (step_result_pipe_lemma p b p' H).
  destruct (pipe_done p'); cbn [negb]; split; intros; congruence.
Qed.

Lemma step_fault_pipe_lemma p b p' f : pipe_sim_step p = (b, p', Some f) ->
  pipe_done p = false /\ pipe_step p = (p', Some f) /\ b = false.
Proof.
  unfold pipe_sim_step. destruct (pipe_done p) eqn:Hd; [discriminate|].
  destruct (pipe_step p) as [p1 [g|]]; intros H; [|discriminate].
  injection H as <- <- <-. auto.
Qed.

Lemma run_eq_steps_pipe_lemma n : forall p, pipe_run n p = pipe_steps n p.
Proof.
  induction n as [|k IH]; intros p; cbn [pipe_run pipe_steps]; [reflexivity|].
  destruct (pipe_done p) eqn:Hd; [reflexivity|].
  unfold pipe_sim_step. rewrite Hd.
  destruct (pipe_step p) as [p1 [f|]]; [reflexivity|]. apply IH.
Qed.

Lemma run_eq_steps_ret_pipe_lemma n : forall p, pipe_run n p = pipe_steps_ret n p.
Proof.
  induction n as [|k IH]; intros p; cbn [pipe_run pipe_steps_ret]; [reflexivity|].
  unfold pipe_sim_step. destruct (pipe_done p) eqn:Hd; [reflexivity|].
  destruct (pipe_step p) as [p1 [f|]]; [reflexivity|].
  destruct (pipe_done p1) eqn:Hd1; cbn [negb].
  - destruct (done_stable_pipe_lemma p1 Hd1) as [_ ->]. reflexivity.
  - apply IH.
Qed.

Lemma run_fuel_mono_pipe_lemma n : forall p p' e, pipe_run n p = (p', e) -> e <> POutOfFuel ->
  forall n', (n <= n')%nat -> pipe_run n' p = (p', e).
Proof.
  induction n as [|k IH]; intros p p' e Hr He n' Hle.
  - cbn [pipe_run] in Hr. destruct (pipe_done p) eqn:Hd.
    + injection Hr as <- <-. apply (done_stable_pipe_lemma p Hd).
    + injection Hr as <- <-. congruence.
  - destruct n' as [|k']; [lia|]. cbn [pipe_run] in *.
    destruct (pipe_done p) eqn:Hd; [exact Hr|].
    destruct (pipe_step p) as [p1 [f|]]; [exact Hr|].
    apply (IH p1 p' e Hr He). lia.
Qed.

Lemma run_eq_iter_pipe_lemma n : forall p p', pipe_run n p = (p', PDone) ->
  forall m, (n <= m)%nat -> pipe_iter m p = p' /\ pipe_done p' = true.
Proof.
  induction n as [|k IH]; intros p p' Hr m Hle.
  - cbn [pipe_run] in Hr. destruct (pipe_done p) eqn:Hd; [|discriminate].
    injection Hr as <-. split; [apply pipe_iter_done|]; exact Hd.
  - cbn [pipe_run] in Hr. destruct (pipe_done p) eqn:Hd.
    + injection Hr as <-. split; [apply pipe_iter_done|]; exact Hd.
    + destruct (pipe_step p) as [p1 [f|]] eqn:Hs; [discriminate|].
      destruct m as [|m']; [lia|]. cbn [pipe_iter].
      assert (Hn : pipe_next p = p1).
      { unfold pipe_next, pipe_sim_step. rewrite Hd, Hs. reflexivity. }
      rewrite Hn. apply (IH p1 p' Hr). lia.
Qed.

Lemma pipe_empty_init s hz : pipe_empty (pipe_init s hz) = true.
Proof. reflexivity. Qed.

Lemma empty_program_done_pipe_lemma s hz : prog (im s) = [] ->
  pipe_done (pipe_init s hz) = true /\
  pipe_sim_step (pipe_init s hz) = (false, pipe_init s hz, None) /\
  forall n, pipe_run n (pipe_init s hz) = (pipe_init s hz, PDone).
Proof.
  intros H. assert (Hd : pipe_done (pipe_init s hz) = true).
  { unfold pipe_done. rewrite pipe_empty_init. cbn [pst pipe_init].
    rewrite (has_instr_nil _ _ H). destruct (exitc s); reflexivity. }
  split; [exact Hd|]. apply done_stable_pipe_lemma. exact Hd.
Qed.

(* ------------------------------------------------------------------------------------------ *)
(** * 3. TOY (whole steps, i.e. at instruction boundaries t_nextcycle = 1) *)

(* ToySimulation.step: the flag returned is "not is_done()" evaluated after the step *)
Definition toy_sim_step (s : tstate) : bool * tstate * toutcome :=
  let '(s', o) := toy_step s in (negb (toy_done s'), s', o).

Fixpoint toy_steps_until (k : nat) (s : tstate) : tstate * toutcome * bool :=
  match k with
  | O => (s, TNone, toy_done s)
  | S k' =>
      if toy_done s then (s, TNone, true)
      else match toy_sim_step s with
           | (_, s', TNone) => toy_steps_until k' s'
           | (_, s', o) => (s', o, false)
           end
  end.

Fixpoint toy_steps_ret (k : nat) (s : tstate) : tstate * toutcome * bool :=
  match k with
  | O => (s, TNone, toy_done s)
  | S k' =>
      match toy_sim_step s with
      | (true, s', TNone) => toy_steps_ret k' s'
      | (false, s', TNone) => (s', TNone, true)
      | (_, s', o) => (s', o, false)
      end
  end.

Lemma toy_run_done n s : toy_done s = true -> toy_run n s = (s, TNone, true).
Proof. intros Hd. destruct n; cbn [toy_run]; rewrite Hd; reflexivity. Qed.

Lemma done_stable_toy_lemma s : toy_done s = true ->
  (t_nextcycle s = 1 -> toy_step s = (s, TNone) /\ toy_sim_step s = (false, s, TNone)) /\
  (forall n, toy_run n s = (s, TNone, true)) /\
  fst (toy_step s) = s.
Proof.
  intros Hd. split; [|split].
  - intros Hn. pose proof (toy_step_done_noop s Hd Hn) as H. split; [exact H|].
    unfold toy_sim_step. rewrite H, Hd. reflexivity.
  - intros n. apply toy_run_done. exact Hd.
  - unfold toy_step. destruct (negb (t_nextcycle s =? 1)); [reflexivity|].
    rewrite (first_half_done s Hd), (second_half_done s Hd). reflexivity.
Qed.

Lemma done_stays_toy_lemma s : toy_done s = true ->
  forall n, toy_steps n s = s /\ fst (fst (toy_run n s)) = s.
Proof.
  intros Hd n. split.
  - induction n as [|k IH]; cbn [toy_steps]; [reflexivity|].
    destruct (done_stable_toy_lemma s Hd) as (_ & _ & ->). exact IH.
  - rewrite (toy_run_done n s Hd). reflexivity.
Qed.

Lemma step_result_toy_lemma s b s' o : toy_sim_step s = (b, s', o) ->
  b = negb (toy_done s') /\ (b = false <-> toy_done s' = true).
Proof.
  unfold toy_sim_step. destruct (toy_step s) as [s1 o1]. intros H. injection H as <- <- <-.
  split; [reflexivity|]. destruct (toy_done s1); split; intros; cbn [negb] in *; congruence.
Qed.

(* a successful whole step from a boundary ends at a boundary *)
Lemma toy_step_boundary s s' : toy_done s = false -> t_nextcycle s = 1 ->
  toy_step s = (s', TNone) -> t_nextcycle s' = 1.
Proof.
  intros Hd Hn H. destruct (halves_of_step s s' Hn H) as (s1 & H1 & H2).
  destruct (first_half_ok s s1 Hd Hn H1) as [Hn1 Hd1].
  exact (second_half_ok s1 s' Hd1 Hn1 H2).
Qed.

Lemma run_eq_steps_toy_lemma n : forall s, toy_run n s = toy_steps_until n s.
Proof.
  induction n as [|k IH]; intros s; cbn [toy_run toy_steps_until]; [reflexivity|].
  destruct (toy_done s) eqn:Hd; [reflexivity|].
  unfold toy_sim_step. destruct (toy_step s) as [s1 [| |e]]; [apply IH|reflexivity|reflexivity].
Qed.

Lemma run_eq_steps_ret_toy_lemma n : forall s, t_nextcycle s = 1 ->
  toy_run n s = toy_steps_ret n s.
Proof.
  induction n as [|k IH]; intros s Hn; cbn [toy_run toy_steps_ret]; [reflexivity|].
  destruct (toy_done s) eqn:Hd.
  - destruct (done_stable_toy_lemma s Hd) as (H & _ & _). destruct (H Hn) as [_ ->]. reflexivity.
  - unfold toy_sim_step. destruct (toy_step s) as [s1 [| |e]] eqn:Hs.
    + destruct (toy_done s1) eqn:Hd1; cbn [negb].
      * apply toy_run_done. exact Hd1.
      * apply IH. exact (toy_step_boundary s s1 Hd Hn Hs).
    + destruct (negb (toy_done s1)); reflexivity.
    + destruct (negb (toy_done s1)); reflexivity.
Qed.

Lemma run_fuel_mono_toy_lemma n : forall s s' o fin, toy_run n s = (s', o, fin) ->
  fin = true \/ o <> TNone -> forall n', (n <= n')%nat -> toy_run n' s = (s', o, fin).
Proof.
  induction n as [|k IH]; intros s s' o fin Hr He n' Hle.
  - cbn [toy_run] in Hr. injection Hr as <- <- <-.
    destruct He as [Hd|Hne]; [|congruence]. rewrite Hd. apply toy_run_done. exact Hd.
  - destruct n' as [|k']; [lia|]. cbn [toy_run] in *.
    destruct (toy_done s) eqn:Hd; [exact Hr|].
    destruct (toy_step s) as [s1 [| |e]]; [|exact Hr|exact Hr].
    apply (IH s1 s' o fin Hr He). lia.
Qed.

(* run() = m step() calls (C06's [toy_steps]) for every m at least the fuel run() needed *)
Lemma run_eq_iter_toy_lemma n : forall s s', t_nextcycle s = 1 ->
  toy_run n s = (s', TNone, true) ->
  forall m, (n <= m)%nat -> toy_steps m s = s' /\ toy_done s' = true /\ t_nextcycle s' = 1.
Proof.
  induction n as [|k IH]; intros s s' Hn Hr m Hle.
  - cbn [toy_run] in Hr. injection Hr as <- Hd.
    split; [apply toy_steps_done; assumption|]. auto.
  - cbn [toy_run] in Hr. destruct (toy_done s) eqn:Hd.
    + injection Hr as <-. split; [apply toy_steps_done; assumption|]. auto.
    + destruct (toy_step s) as [s1 [| |e]] eqn:Hs; [|discriminate|discriminate].
      destruct m as [|m']; [lia|]. cbn [toy_steps]. rewrite Hs. cbn [fst].
      apply (IH s1 s' (toy_step_boundary s s1 Hd Hn Hs) Hr). lia.
Qed.

Lemma empty_program_done_toy_lemma s : t_loaded s = None ->
  toy_done s = true /\ (forall n, toy_run n s = (s, TNone, true)) /\
  (t_nextcycle s = 1 -> toy_sim_step s = (false, s, TNone)).
Proof.
  intros H. assert (Hd : toy_done s = true) by (unfold toy_done; rewrite H; reflexivity).
  destruct (done_stable_toy_lemma s Hd) as (H1 & H2 & _).
  split; [exact Hd|]. split; [exact H2|]. intros Hn. apply (H1 Hn).
Qed.

(* a successful load of a program without instructions leaves a done simulation; so does a
   newly constructed simulation *)
Lemma toy_load_empty_done_lemma s toks s' : toy_load s toks = (s', None) ->
  toy_has_instructions s' = false -> toy_done s' = true.
Proof.
  unfold toy_load. intros H Hh.
  destruct (segment tdir_of toks) as [[data text]|e]; [|discriminate].
  destruct (toy_labels toks 0 []) as [labels|e]; [|discriminate].
  destruct (toy_write_data _ data _ labels []) as [[[last labels'] m]|e]; [|discriminate].
  destruct (toy_instantiate text labels') as [ins|e]; [|discriminate].
  destruct (_ >? last); [discriminate|].
  destruct (toy_write_instrs _ m 0 ins) as [m'|e]; [|discriminate].
  injection H as <-. unfold toy_has_instructions in Hh. cbn [t_maxpc] in Hh.
  unfold toy_done. cbn [t_loaded]. destruct ins as [|i r]; [reflexivity|].
  cbn [length] in Hh. lia.
Qed.

Lemma toy_init_done_lemma sz nc st : toy_done (toy_init sz nc st) = true.
Proof. reflexivity. Qed.

(* ------------------------------------------------------------------------------------------ *)
(** * 4. Loading after earlier loads (RISC-V) *)

Lemma dc_reset_idem d : dc_reset (dc_reset d) = dc_reset d.
Proof. reflexivity. Qed.

Lemma ms_reset_idem m : ms_reset (ms_reset m) = ms_reset m.
Proof. destruct m; reflexivity. Qed.

Lemma im_reset_idem i : im_reset (im_reset i) = im_reset i.
Proof. unfold im_reset. destruct (icc i); reflexivity. Qed.

(* im_reset depends only on the instruction-cache configuration, not on the program or on the
   cache contents / counters *)
Definition icfg_of (i : imem) : option (ccfg * Z) :=
  match icc i with Some c => Some (cfg (ic c), ipenalty c) | None => None end.

Lemma im_reset_cfg_only i1 i2 : icfg_of i1 = icfg_of i2 -> im_reset i1 = im_reset i2.
Proof.
  unfold icfg_of, im_reset. destruct (icc i1), (icc i2); intros H; try discriminate;
    [injection H as -> ->|]; reflexivity.
Qed.

Lemma im_reset_prog p i : im_reset {| prog := p; icc := icc (im_reset i) |} = im_reset i.
Proof. unfold im_reset. cbn [icc]. destruct (icc i); reflexivity. Qed.

(* ms_reset depends only on the data-cache configuration and its three counters (which
   BaseCacheMemorySystem.reset keeps) *)
Definition dshell_of (m : memsys) : option (ccfg * bool * Z * (Z * Z * bool)) :=
  match m with
  | MFlat _ => None
  | MCache d => Some (cfg (dc d), wthrough d, penalty d, (hits d, accesses d, lasthit d))
  end.

Lemma ms_reset_shell_only m1 m2 : dshell_of m1 = dshell_of m2 -> ms_reset m1 = ms_reset m2.
Proof.
  destruct m1 as [a|d1], m2 as [b|d2]; cbn [dshell_of ms_reset]; intros H; try discriminate;
    [reflexivity|]. injection H as H1 H2 H3 H4 H5 H6. unfold dc_reset.
  rewrite H1, H2, H3, H4, H5, H6. reflexivity.
Qed.

Lemma dshell_reset m : dshell_of (ms_reset m) = dshell_of m.
Proof. destruct m; reflexivity. Qed.

(* the parser's direct writes never touch cache directory, configuration or counters *)
Lemma ms_write_direct_shell m nb a v e m' p : ms_write m nb a v true = (e, m', p) ->
  ms_reset m' = ms_reset m.
Proof.
  destruct m as [z|d]; cbn [ms_write].
  - destruct (mem_write rv_memcfg z nb a v) as [z' e']. intros H. injection H as <- <- <-.
    reflexivity.
  - unfold dc_write. destruct (mem_write rv_memcfg (lower d) nb a v) as [z' e'].
    intros H. injection H as <- <- <-. reflexivity.
Qed.

Lemma ms_write_direct_counters m nb a v e m' p : ms_write m nb a v true = (e, m', p) ->
  dshell_of m' = dshell_of m /\ p = 0.
Proof.
  destruct m as [z|d]; cbn [ms_write].
  - destruct (mem_write rv_memcfg z nb a v) as [z' e']. intros H. injection H as <- <- <-.
    auto.
  - unfold dc_write. destruct (mem_write rv_memcfg (lower d) nb a v) as [z' e'].
    intros H. injection H as <- <- <-. auto.
Qed.

Lemma dwrite_shell m nb a v m' : dwrite m nb a v = POk m' -> ms_reset m' = ms_reset m.
Proof.
  unfold dwrite. destruct (ms_write m nb a v true) as [[e m1] p] eqn:E.
  destruct e as [[| | | |]|]; intros H; try discriminate. injection H as <-.
  exact (ms_write_direct_shell _ _ _ _ _ _ _ E).
Qed.

Lemma write_vals_shell vals : forall m nb st a ln m' a',
  write_vals m nb st a vals ln = POk (m', a') -> ms_reset m' = ms_reset m.
Proof.
  induction vals as [|v t IH]; intros m nb st a ln m' a' H; cbn [write_vals] in H.
  - injection H as <- _. reflexivity.
  - destruct (py_int0 v) as [z|]; [|discriminate].
    destruct (dwrite m nb a (U nb z)) as [m1|e] eqn:E; [|discriminate].
    rewrite (IH _ _ _ _ _ _ _ H). exact (dwrite_shell _ _ _ _ _ E).
Qed.

Lemma write_chars_shell cs : forall m a m' a',
  write_chars m a cs = POk (m', a') -> ms_reset m' = ms_reset m.
Proof.
  induction cs as [|c t IH]; intros m a m' a' H; cbn [write_chars] in H.
  - injection H as <- _. reflexivity.
  - destruct (dwrite m 8 a (U8 c)) as [m1|e] eqn:E; [|discriminate].
    rewrite (IH _ _ _ _ H). exact (dwrite_shell _ _ _ _ _ E).
Qed.

Lemma write_data_shell data : forall m a vars m' vars',
  write_data data m a vars = POk (m', vars') -> ms_reset m' = ms_reset m.
Proof.
  induction data as [|[ln l] t IH]; intros m a vars m' vars' H; cbn [write_data] in H.
  - injection H as <- _. reflexivity.
  - destruct l as [d|name ty vals|name s|name v|name|inl b]; try discriminate.
    + destruct (var_lookup vars name); [discriminate|].
      destruct (if ty =? 0 then (8, 1) else if ty =? 1 then (16, 2) else (32, 4)) as [nb sd].
      destruct (write_vals m nb sd (align4 a) vals ln) as [[m1 a1]|e] eqn:E; [|discriminate].
      destruct (_ >? data_limit); [discriminate|].
      rewrite (IH _ _ _ _ _ H). exact (write_vals_shell _ _ _ _ _ _ _ _ E).
    + destruct (var_lookup vars name); [discriminate|].
      destruct (write_chars m (align4 a) (strip_quotes s)) as [[m1 a1]|e] eqn:E; [|discriminate].
      destruct (dwrite m1 8 a1 0) as [m2|e] eqn:E2; [|discriminate].
      destruct (_ >? data_limit); [discriminate|].
      rewrite (IH _ _ _ _ _ H), (dwrite_shell _ _ _ _ _ E2).
      exact (write_chars_shell _ _ _ _ _ E).
    + destruct (var_lookup vars name); [discriminate|].
      destruct (py_int10 v) as [n|]; [|discriminate].
      destruct (_ >? data_limit); [discriminate|]. exact (IH _ _ _ _ _ H).
Qed.

(* the assembler only writes data memory directly *)
Lemma assemble_shell toks m m' img : assemble toks m = POk (m', img) ->
  ms_reset m' = ms_reset m.
Proof.
  unfold assemble, pbind. destruct (segment rdir_of toks) as [[data text0]|e]; [|discriminate].
  destruct (split_inline text0) as [text1 inlabs].
  destruct (write_data data m 16384 []) as [[m1 vars]|e] eqn:E; [|discriminate].
  destruct (expand_all vars text1) as [text2|e]; [|discriminate].
  destruct (rv_labels text2 inlabs 0 [] None) as [labels|e]; [|discriminate].
  destruct (instantiate text2 labels 0) as [ins|e]; [|discriminate].
  destruct (_ >? imem_limit); [discriminate|]. intros H. injection H as <- _.
  exact (write_data_shell _ _ _ _ _ _ E).
Qed.

(* rv_load touches only [ms] and [im]; what it leaves there resets to what s resets to *)
Lemma rv_load_shape s t : exists M I,
  fst (fst (rv_load s t)) = with_im (with_ms s M) I /\
  ms_reset M = ms_reset (ms s) /\ im_reset I = im_reset (im s).
Proof.
  unfold rv_load. cbn [ms im with_im with_ms].
  destruct (assemble t (ms_reset (ms s))) as [[m' img]|e] eqn:E.
  - exists m', {| prog := i_instrs img; icc := icc (im_reset (im s)) |}. cbn [fst].
    split; [reflexivity|]. split.
    + rewrite (assemble_shell _ _ _ _ E). apply ms_reset_idem.
    + apply im_reset_prog.
  - exists (ms_reset (ms s)), (im_reset (im s)). cbn [fst].
    split; [reflexivity|]. split; [apply ms_reset_idem | apply im_reset_idem].
Qed.

Lemma rv_load_dep s M I t : ms_reset M = ms_reset (ms s) -> im_reset I = im_reset (im s) ->
  rv_load (with_im (with_ms s M) I) t = rv_load s t.
Proof.
  intros HM HI. unfold rv_load. cbn [ms im with_im with_ms]. rewrite HM, HI. reflexivity.
Qed.

Lemma rv_load_frame_lemma s t : let s' := fst (fst (rv_load s t)) in
  pc s' = pc s /\ regs s' = regs s /\ out s' = out s /\ exitc s' = exitc s /\
  icount s' = icount s /\ bcount s' = bcount s /\ pcount s' = pcount s /\
  cycles s' = cycles s /\ stalls s' = stalls s /\ flushes s' = flushes s /\
  dshell_of (ms s') = dshell_of (ms s) /\ icfg_of (im_reset (im s')) = icfg_of (im_reset (im s)).
Proof.
  cbv zeta. destruct (rv_load_shape s t) as (M & I & -> & HM & HI).
  cbn [pc regs out exitc icount bcount pcount cycles stalls flushes ms im with_im with_ms].
  repeat (split; [reflexivity|]). split.
  - rewrite <- (dshell_reset M), HM. apply dshell_reset.
  - rewrite HI. reflexivity.
Qed.

(* THE theorem: a load after one earlier load (successful or failed) = the load alone.
   State, error and image are all equal.  No hypothesis on s. *)
Lemma reload_eq_fresh_lemma s t1 t : rv_load (fst (fst (rv_load s t1))) t = rv_load s t.
Proof.
  destruct (rv_load_shape s t1) as (M & I & -> & HM & HI). apply rv_load_dep; assumption.
Qed.

(* ... after any number of earlier loads *)
Definition rv_loads (ts : list (list (Z * rline))) (s : st) : st :=
  fold_left (fun a t => fst (fst (rv_load a t))) ts s.

Lemma reload_eq_fresh_many_lemma ts : forall s t, rv_load (rv_loads ts s) t = rv_load s t.
Proof.
  induction ts as [|t1 r IH]; intros s t; cbn [rv_loads fold_left]; [reflexivity|].
  change (fold_left _ r ?x) with (rv_loads r x). rewrite IH. apply reload_eq_fresh_lemma.
Qed.

(** What "has not started" buys.  load_program does not reset pc, registers, output, exit code,
    the performance counters, the pipeline latches or the data-cache hit/access counters
    ([rv_load_frame_lemma]; [dc_reset] keeps hits/accesses/lasthit).  So a load into s equals a
    load into a NEWLY CONSTRUCTED simulation exactly when those components still have their
    initial values — which is what "not started" means for a simulation that has only been
    loaded.  [not_started] says this; it holds of [init_st [] m ic] with an initial memory
    system, is preserved by loads, and gives equality with the load into [fresh_like s]. *)
Definition ms_fresh (m : memsys) : memsys :=
  match m with
  | MFlat _ => MFlat []
  | MCache d => MCache (dcache_init (cfg (dc d)) (wthrough d) (penalty d))
  end.

Definition fresh_like (s : st) : st := init_st [] (ms_fresh (ms s)) (icc (im_reset (im s))).

Definition not_started (s : st) : Prop :=
  pc s = 0 /\ regs s = [] /\ out s = [] /\ exitc s = None /\ icount s = 0 /\ bcount s = 0 /\
  pcount s = 0 /\ cycles s = 0 /\ stalls s = 0 /\ flushes s = 0 /\
  dshell_of (ms s) = dshell_of (ms_fresh (ms s)).

Lemma ms_fresh_fresh m : ms_fresh (ms_fresh m) = ms_fresh m.
Proof. destruct m; reflexivity. Qed.

Lemma not_started_fresh s : not_started (fresh_like s).
Proof.
  unfold not_started, fresh_like, init_st. cbn [pc regs out exitc icount bcount pcount cycles stalls flushes ms].
  repeat (split; [reflexivity|]). rewrite ms_fresh_fresh. reflexivity.
Qed.

Lemma not_started_init m ic : not_started (init_st [] (ms_fresh m) ic).
Proof.
  unfold not_started, init_st. cbn [pc regs out exitc icount bcount pcount cycles stalls flushes ms].
  repeat (split; [reflexivity|]). rewrite ms_fresh_fresh. reflexivity.
Qed.

Lemma ms_fresh_shell m1 m2 : dshell_of m1 = dshell_of m2 -> ms_fresh m1 = ms_fresh m2.
Proof.
  destruct m1 as [a|d1], m2 as [b|d2]; cbn [dshell_of ms_fresh]; intros H; try discriminate;
    [reflexivity|]. injection H as H1 H2 H3 _ _ _. rewrite H1, H2, H3. reflexivity.
Qed.

Lemma not_started_load s t : not_started s -> not_started (fst (fst (rv_load s t))).
Proof.
  unfold not_started. intros H. pose proof (rv_load_frame_lemma s t) as F. cbv zeta in F.
  destruct F as (F1 & F2 & F3 & F4 & F5 & F6 & F7 & F8 & F9 & F10 & F11 & _).
  rewrite F1, F2, F3, F4, F5, F6, F7, F8, F9, F10, F11.
  rewrite (ms_fresh_shell _ _ F11). exact H.
Qed.

Lemma load_eq_fresh_of_not_started_lemma s t : not_started s ->
  rv_load s t = rv_load (fresh_like s) t.
Proof.
  intros (H1 & H2 & H3 & H4 & H5 & H6 & H7 & H8 & H9 & H10 & H11).
  assert (Hs : s = with_im (with_ms (fresh_like s) (ms s)) (im s)).
  { destruct s. cbn in *. subst. reflexivity. }
  rewrite Hs at 1. apply rv_load_dep.
  - apply ms_reset_shell_only. exact H11.
  - unfold fresh_like, init_st. cbn [im]. symmetry. apply im_reset_prog.
Qed.

(* the five-stage simulation: load acts on the architectural state; latches are not reset *)
Definition pipe_with_arch (p : pstate) (s : st) : pstate :=
  {| pst := s; lat := lat p; stalled := stalled p; saved := saved p; hazards := hazards p |}.
Definition pipe_load (p : pstate) (t : list (Z * rline)) : pstate * option perr * option image :=
  let '(s', e, img) := rv_load (pst p) t in (pipe_with_arch p s', e, img).
Definition pipe_loads (ts : list (list (Z * rline))) (p : pstate) : pstate :=
  fold_left (fun a t => fst (fst (pipe_load a t))) ts p.

Lemma pipe_load_fst p t : fst (fst (pipe_load p t)) = pipe_with_arch p (fst (fst (rv_load (pst p) t))).
Proof. unfold pipe_load. destruct (rv_load (pst p) t) as [[s' e] img]. reflexivity. Qed.

Lemma pipe_reload_eq_fresh_lemma p t1 t : pipe_load (fst (fst (pipe_load p t1))) t = pipe_load p t.
Proof.
  rewrite pipe_load_fst. unfold pipe_load at 1. cbn [pst pipe_with_arch].
  rewrite reload_eq_fresh_lemma. unfold pipe_load.
  destruct (rv_load (pst p) t) as [[s' e] img]. reflexivity.
Qed.

Lemma pipe_reload_eq_fresh_many_lemma ts : forall p t, pipe_load (pipe_loads ts p) t = pipe_load p t.
Proof.
  induction ts as [|t1 r IH]; intros p t; cbn [pipe_loads fold_left]; [reflexivity|].
  change (fold_left _ r ?x) with (pipe_loads r x). rewrite IH. apply pipe_reload_eq_fresh_lemma.
Qed.

(* loads keep an un-started pipeline un-started: latches, stall state untouched *)
Lemma pipe_load_frame_lemma p t : let p' := fst (fst (pipe_load p t)) in
  lat p' = lat p /\ stalled p' = stalled p /\ saved p' = saved p /\ hazards p' = hazards p.
Proof. cbv zeta. rewrite pipe_load_fst. repeat split; reflexivity. Qed.

(* ------------------------------------------------------------------------------------------ *)
(** * 5. Loading after earlier loads (TOY) *)

(* toy_load reads only size, next_cycle and has_started of the old state ... *)
Lemma toy_load_dep s1 s2 t : t_size s1 = t_size s2 -> t_nextcycle s1 = t_nextcycle s2 ->
  t_started s1 = t_started s2 -> toy_load s1 t = toy_load s2 t.
Proof. intros H1 H2 H3. unfold toy_load. rewrite H1, H2, H3. reflexivity. Qed.

(* ... and a successful or failed load keeps exactly those three *)
Lemma toy_load_frame_lemma s t : let s' := fst (toy_load s t) in
  t_size s' = t_size s /\ t_nextcycle s' = t_nextcycle s /\ t_started s' = t_started s.
Proof.
  cbv zeta. unfold toy_load.
  destruct (segment tdir_of t) as [[data text]|e]; [|repeat split; reflexivity].
  destruct (toy_labels t 0 []) as [labels|e]; [|repeat split; reflexivity].
  destruct (toy_write_data _ data _ labels []) as [[[last labels'] m]|e]; [|repeat split; reflexivity].
  destruct (toy_instantiate text labels') as [ins|e]; [|repeat split; reflexivity].
  destruct (_ >? last); [repeat split; reflexivity|].
  destruct (toy_write_instrs _ m 0 ins) as [m'|e]; repeat split; reflexivity.
Qed.

Lemma toy_reload_eq_fresh_lemma s t1 t : toy_load (fst (toy_load s t1)) t = toy_load s t.
Proof.
  pose proof (toy_load_frame_lemma s t1) as F. cbv zeta in F. destruct F as (F1 & F2 & F3).
  apply toy_load_dep; assumption.
Qed.

Definition toy_loads (ts : list (list (Z * tline))) (s : tstate) : tstate :=
  fold_left (fun a t => fst (toy_load a t)) ts s.

Lemma toy_reload_eq_fresh_many_lemma ts : forall s t, toy_load (toy_loads ts s) t = toy_load s t.
Proof.
  induction ts as [|t1 r IH]; intros s t; cbn [toy_loads fold_left]; [reflexivity|].
  change (fold_left _ r ?x) with (toy_loads r x). rewrite IH. apply toy_reload_eq_fresh_lemma.
Qed.

(* the TOY load rebuilds everything else: the result equals the load into the newly constructed
   simulation of the same size, WHATEVER s was, given next_cycle/has_started agree (for a
   simulation that has not started: next_cycle = 1, has_started = False) *)
Lemma toy_load_eq_fresh_lemma s t :
  toy_load s t = toy_load (toy_init (t_size s) (t_nextcycle s) (t_started s)) t.
Proof. apply toy_load_dep; reflexivity. Qed.
