(* C01Arith.v — the fixedint-shaped ALU of the model equals the reference arithmetic *)
From Coq Require Import Lia ZifyBool.
From ArchSim Require Import Model.Base Model.Fmt Model.RV Spec.RV32IM Proofs.WordLemmas.
Open Scope Z_scope.
Ltac Zify.zify_post_hook ::= Z.to_euclidean_division_equations.

Lemma I32_signed a : in32 a -> I32 a = signed a.
Proof.
  unfold in32, signed; intros H. rewrite I32_eq; cbv zeta.
  replace (a mod 4294967296) with a by lia. reflexivity.
Qed.

Lemma signed_range a : in32 a -> -2147483648 <= signed a < 2147483648.
Proof. unfold in32, signed; intros; destruct (_ <? _) eqn:E; lia. Qed.

Lemma wrap_eq z : wrap z = z mod 4294967296. Proof. reflexivity. Qed.
Lemma wrap_U32 z : wrap z = U32 z. Proof. reflexivity. Qed.

Lemma mod32_range b : 0 <= b mod 32 < 32. Proof. lia. Qed.

Lemma pow2_pos n : 0 <= n -> 0 < 2 ^ n. Proof. intros; apply Z.pow_pos_nonneg; lia. Qed.

Lemma pow2_le_31 sh : 0 <= sh < 32 -> 1 <= 2 ^ sh <= 2147483648.
Proof.
  intros H. split.
  - pose proof (pow2_pos sh); lia.
  - change 2147483648 with (2 ^ 31). apply Z.pow_le_mono_r; lia.
Qed.

Lemma sra_core a sh : in32 a -> 0 <= sh < 32 ->
  U32 (I32 (Z.shiftr (I32 a) sh)) = wrap (signed a / 2 ^ sh).
Proof.
  intros Ha Hs. rewrite (I32_signed a) by assumption. rewrite shr_div by lia.
  rewrite U32_I32. reflexivity.
Qed.

Lemma r_behavior_spec o a b : in32 a -> in32 b -> r_behavior o a b = spec_r o a b.
Proof.
  intros Ha Hb. pose proof (mod32_range b) as Hsh.
  assert (Hsh32 : U32 (b mod 32) = b mod 32) by (apply U32_id; unfold in32; lia).
  destruct o; cbn [r_behavior spec_r]; cbv zeta.
  - reflexivity.
  - reflexivity.
  - rewrite Hsh32, shl_mul by lia. reflexivity.
  - rewrite !I32_signed by assumption. unfold b2z. reflexivity.
  - reflexivity.
  - apply U32_id, lxor_in32; assumption.
  - rewrite Hsh32, shr_div by lia. apply U32_id. unfold in32 in *.
    pose proof (pow2_le_31 (b mod 32) Hsh). split.
    + apply Z.div_pos; lia.
    + apply Z.div_lt_upper_bound; nia.
  - rewrite Hsh32. rewrite (I32_small (b mod 32)) by lia. apply sra_core; assumption.
  - apply U32_id, lor_in32; assumption.
  - apply U32_id, land_in32; assumption.
  - reflexivity.
  - rewrite !I32_signed by assumption. rewrite shr_div by lia. reflexivity.
  - rewrite shr_div by lia. apply U32_id. unfold in32 in *. change (2 ^ 32) with 4294967296.
    split; [apply Z.div_pos; nia | apply Z.div_lt_upper_bound; nia].
  - rewrite !I32_signed by assumption. rewrite shr_div by lia. reflexivity.
  - (* DIV *)
    rewrite !I32_signed by assumption. unfold pyfdiv.
    destruct (b =? 0) eqn:Eb; [reflexivity|].
    destruct ((signed a =? -2147483648) && (signed b =? -1)) eqn:Eo.
    + apply andb_prop in Eo as [E1 E2]. apply Z.eqb_eq in E1, E2. rewrite E1, E2. reflexivity.
    + reflexivity.
  - (* DIVU *)
    destruct (b =? 0) eqn:Eb; [reflexivity|].
    apply U32_id. unfold in32 in *. split; [apply Z.div_pos; lia | apply Z.div_lt_upper_bound; nia].
  - (* REM *)
    rewrite !I32_signed by assumption. unfold pyfdiv.
    destruct (b =? 0) eqn:Eb; [reflexivity|].
    assert (Hr: signed a - signed a ÷ signed b * signed b = Z.rem (signed a) (signed b)).
    { pose proof (Z.quot_rem' (signed a) (signed b)). lia. }
    rewrite Hr.
    destruct ((signed a =? -2147483648) && (signed b =? -1)) eqn:Eo.
    + apply andb_prop in Eo as [E1 E2]. apply Z.eqb_eq in E1, E2. rewrite E1, E2. reflexivity.
    + reflexivity.
  - (* REMU *)
    destruct (b =? 0) eqn:Eb; [reflexivity|].
    apply U32_id. unfold in32 in *. pose proof (Z.mod_pos_bound a b). lia.
Qed.

Lemma r_behavior_range o a b : in32 a -> in32 b -> in32 (r_behavior o a b).
Proof.
  intros Ha Hb. destruct o; cbn [r_behavior]; try apply U32_range;
    try (unfold b2z; destruct (_ <? _); unfold in32; lia);
    destruct (b =? 0); try apply U32_range; assumption.
Qed.

Lemma i_behavior_spec o a imm : in32 a -> -2048 <= imm < 2048 -> i_behavior o a imm = spec_i o a imm.
Proof.
  intros Ha Hi. destruct o; cbn [i_behavior spec_i].
  - unfold wrap, U32, U. change (2 ^ 32) with 4294967296. lia.
  - rewrite I32_signed by assumption. rewrite (I32_small imm) by lia. reflexivity.
  - reflexivity.
  - apply U32_id, lxor_in32; [assumption | apply U32_range].
  - apply U32_id, lor_in32; [assumption | apply U32_range].
  - apply U32_id, land_in32; [assumption | apply U32_range].
Qed.

Lemma i_behavior_range o a imm : in32 (i_behavior o a imm).
Proof.
  destruct o; cbn [i_behavior]; try apply U32_range; unfold b2z; destruct (_ <? _); unfold in32; lia.
Qed.

Lemma sh_behavior_spec o a sh : in32 a -> 0 <= sh < 32 -> sh_behavior o a sh = spec_sh o a sh.
Proof.
  intros Ha Hs.
  assert (H32 : U32 sh = sh) by (apply U32_id; unfold in32; lia).
  assert (H16 : U16 sh = sh) by (rewrite U16_eq; lia).
  destruct o; cbn [sh_behavior spec_sh].
  - rewrite H32, shl_mul by lia. reflexivity.
  - rewrite H32, shr_div by lia. apply U32_id. unfold in32 in *.
    pose proof (pow2_le_31 sh Hs). split; [apply Z.div_pos; lia | apply Z.div_lt_upper_bound; nia].
  - rewrite H16. apply sra_core; assumption.
Qed.

Lemma sh_behavior_range o a sh : in32 (sh_behavior o a sh).
Proof. destruct o; cbn [sh_behavior]; apply U32_range. Qed.

Lemma b_cond_spec o a b : in32 a -> in32 b -> b_cond o a b = spec_cond o a b.
Proof.
  intros Ha Hb. destruct o; cbn [b_cond spec_cond]; rewrite ?I32_signed by assumption; try reflexivity.
  - rewrite Z.geb_leb. reflexivity.
  - rewrite Z.geb_leb. reflexivity.
Qed.

(* load value extension *)
Lemma load_ext_spec o v : 0 <= v < 2 ^ load_bits o -> load_ext o v = lop_value o v.
Proof.
  intros Hv. destruct o; cbn [load_ext lop_value load_bits] in *; try reflexivity.
  - apply U32_id; unfold in32; lia.
  - apply U32_id; unfold in32; lia.
Qed.

Lemma load_ext_range o v : 0 <= v < 2 ^ load_bits o -> in32 (load_ext o v).
Proof.
  intros Hv. destruct o; cbn [load_ext load_bits] in *; try apply U32_range. unfold in32; lia.
Qed.

(* JALR target *)
Lemma jalr_target a imm : in32 a -> -2048 <= imm < 2048 ->
  Z.land (I32 (I32 a + I16 imm)) (2 ^ 32 - 2) = 2 * (wrap (a + imm) / 2).
Proof.
  intros Ha Hi. rewrite land_clear_bit0. rewrite I32_mod. rewrite (I16_small imm) by lia.
  rewrite wrap_eq. f_equal. f_equal.
  rewrite Zplus_mod. rewrite I32_mod. rewrite <- Zplus_mod. reflexivity.
Qed.
