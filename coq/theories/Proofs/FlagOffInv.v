(* FlagOffInv.v — property C08, phase B, part 5: the simulation invariant between the pipeline
   with hazard detection OFF and the delayed-write-back reference machine (FlagOffDwb.v).

   It is the invariant [InvAt] of PipeInv.v with the single-cycle state replaced by a lag state
   L = (lt, lr1, lr2) aligned with write-back (lt = the in-order state after the instructions that
   have left WB) and the chain of pre-states  L, advL l3 L, advL l2 (advL l3 L), ...  in which an
   occupied latch advances by [lstep] and a bubble by [bub].  The slot in latch k is described, in
   the vocabulary of PipeInv.v (Dok / Eok / Mok, plain, onp), relative to the VIEW state
   [uview Lk] = lt Lk with the registers lr2 Lk: that is the single-cycle pre-state whose operands
   the slot has read.  The key identity  lr2 (advL a (advL b M)) = regs (lt M)  says that the slot
   decoded in a cycle sees the register file left by that cycle's WB, whatever the latches hold. *)
From Coq Require Import Lia ZifyBool.
From ArchSim Require Import Model.Base Model.Mem Model.Cache Model.Fmt Model.RV Model.Single
  Model.RVSplit Model.Pipe Proofs.MapLemmas Proofs.WordLemmas Proofs.C01Step Proofs.SplitExec Proofs.C02Split
  Proofs.PipeLaws Proofs.PipeShape Proofs.PipeInv Proofs.PipeInvBase Proofs.PipeInvStages
  Proofs.FlagOffDwb.
Open Scope Z_scope.

Local Arguments Z.mul : simpl never.
Local Arguments Z.add : simpl never.
Local Arguments Z.sub : simpl never.

(** * Fields of the lag chain *)
Lemma advL_none L : advL None L = bub L. Proof. reflexivity. Qed.
Lemma advL_some x L : advL (Some x) L = lnxt L. Proof. reflexivity. Qed.
Lemma advL_ne l l' L : nonempty l = nonempty l' -> advL l L = advL l' L.
Proof. unfold advL. intros ->. reflexivity. Qed.

(* the decode view two slots later is the register file now *)
Lemma lr2_adv2 a b M : lr2 (advL a (advL b M)) = regs (lt M).
Proof. destruct a, b; reflexivity. Qed.
Lemma lr2_adv a M : lr2 (advL a M) = lr1 M.
Proof. destruct a; reflexivity. Qed.
Lemma lr1_adv a M : lr1 (advL a M) = regs (lt M).
Proof. destruct a; reflexivity. Qed.

(* everything but the registers moves as the single-cycle machine does from the view state *)
Lemma advL_ms l L : ms (lt (advL l L)) = ms (adv l (uview L)). Proof. destruct l; reflexivity. Qed.
Lemma advL_out l L : out (lt (advL l L)) = out (adv l (uview L)). Proof. destruct l; reflexivity. Qed.
Lemma advL_exitc l L : exitc (lt (advL l L)) = exitc (adv l (uview L)). Proof. destruct l; reflexivity. Qed.
Lemma advL_bcount l L : bcount (lt (advL l L)) = bcount (adv l (uview L)). Proof. destruct l; reflexivity. Qed.
Lemma advL_pcount l L : pcount (lt (advL l L)) = pcount (adv l (uview L)). Proof. destruct l; reflexivity. Qed.
Lemma advL_icount l L : icount (lt (advL l L)) = icount (adv l (uview L)). Proof. destruct l; reflexivity. Qed.
Lemma advL_pc l L : pc (lt (advL l L)) = pc (adv l (uview L)). Proof. destruct l; reflexivity. Qed.
Lemma advL_im l L : im (lt (advL l L)) = im (adv l (uview L)). Proof. destruct l; reflexivity. Qed.

Lemma uview_fields L :
  ms (uview L) = ms (lt L) /\ out (uview L) = out (lt L) /\ exitc (uview L) = exitc (lt L) /\
  bcount (uview L) = bcount (lt L) /\ pcount (uview L) = pcount (lt L) /\
  icount (uview L) = icount (lt L) /\ pc (uview L) = pc (lt L) /\ im (uview L) = im (lt L) /\
  regs (uview L) = lr2 L.
Proof. repeat split. Qed.

(** * Well-formed lag states *)
Definition wfL (L : lag) : Prop := wf (lt L) /\ wf_regs (lr1 L) /\ wf_regs (lr2 L).

Lemma wf_with_regs s r : wf s -> wf_regs r -> wf (with_regs s r).
Proof. intros W Hr. destruct W. constructor; cbn; assumption. Qed.

Lemma wfL_uview L : wfL L -> wf (uview L).
Proof. intros (W & _ & W2). apply wf_with_regs; assumption. Qed.

Lemma wfL_bub L : wfL L -> wfL (bub L).
Proof. intros (W & W1 & W2). split; [exact W|]. split; [apply (wf_r _ W)|exact W1]. Qed.

Lemma wf_regs_commit t u' : wf t -> wf u' -> wf_regs (commit_regs t u').
Proof.
  intros W W'. unfold commit_regs. destruct (cur_wreg t) as [rd|]; [|apply (wf_r _ W)].
  destruct ((0 <? rd) && (rd <? 32)) eqn:E; [|apply (wf_r _ W)].
  apply wf_regs_set; [apply (wf_r _ W)|apply (wf_r _ W')|lia].
Qed.

Lemma wfL_lnxt L i : wfL L -> exitc (lt L) = None -> instr_at (prog (im (lt L))) (pc (lt L)) = Some i ->
  wfL (lnxt L) /\ prog (im (lt (lnxt L))) = prog (im (lt L)).
Proof.
  intros WL Hex Hi. pose proof (wfL_uview L WL) as Wu. destruct WL as (W & W1 & W2).
  destruct (wf_nxt (uview L) i Wu Hex Hi) as [Wn Hp].
  split; [|exact Hp]. split; [|split; [apply (wf_r _ W)|exact W1]].
  unfold lnxt, lstep, vstep. cbn [fst snd lt]. fold (uview L). fold (nxt (uview L)).
  apply wf_with_regs; [exact Wn|].
  destruct (snd (single_pipeline_step (uview L))); [apply (wf_r _ W)|apply wf_regs_commit; assumption].
Qed.

(** * The register write of a retiring slot *)
Definition wb_val (y : slot) : Z := match wb_data y with Some d => U32 d | None => 0 end.

Lemma wb_regs_write y s0 : snd (write_back (sl_instr y) (sl_wreg y) (wb_data y) s0) = None ->
  sl_wreg y = write_reg (sl_instr y) ->
  forall s, wb_regs (Some y) s =
    match write_reg (sl_instr y) with
    | Some r => if (0 <? r) && (r <? 32) then mset (regs s) r (wb_val y) else regs s
    | None => regs s
    end.
Proof.
  intros Hok Hw s. cbn [wb_regs]. unfold wb_val. rewrite Hw in *.
  destruct (sl_instr y); cbn [write_back write_reg] in *; try reflexivity;
    destruct (wb_data y); try discriminate Hok; unfold rset; cbn [fst];
    match goal with |- context [(0 <? ?r) && (?r <? 32)] => destruct ((0 <? r) && (r <? 32)) end; reflexivity.
Qed.

(* the slot that went through EX and MEM from the decode of i in the view state *)
Lemma stage_slot_fields t i s x2 te x3 tm :
  ex_on (Some (dsl t i)) None None s = (Some x2, te, None) ->
  mem_on (Some x2) te = (Some x3, tm, None) ->
  sl_instr x3 = i /\ sl_wreg x3 = write_reg i.
Proof.
  intros He Hm. apply ex_on_shape in He. destruct He as (cmp & res & stall & ex & fl & Hx2 & _).
  injection Hx2 as ->. apply mem_on_shape in Hm. destruct Hm as [rd Hx3]. injection Hx3 as ->.
  split; reflexivity.
Qed.

Section Bridge.
Variables (L : lag) (i : instr).
Hypothesis WL : wfL L.
Hypothesis Hex : exitc (lt L) = None.
Hypothesis Hi : instr_at (prog (im (lt L))) (pc (lt L)) = Some i.
Hypothesis Hs : supported i = true.

(* the registers of the reference machine after the instruction = WB of its slot on the
   registers before *)
Lemma lnxt_regs x2 te x3 tm s1 :
  ex_on (Some (dsl (uview L) i)) None None (pre (uview L)) = (Some x2, te, None) ->
  mem_on (Some x2) te = (Some x3, tm, None) ->
  regs s1 = regs (lt L) ->
  snd (lstep L) = None /\ wb_regs (Some x3) s1 = regs (lt (lnxt L)).
Proof.
  intros He Hm Hr. pose proof (wfL_uview L WL) as Wu.
  destruct (nxt_fields (uview L) i Wu Hex Hi Hs _ _ _ _ He Hm) as (Hok & Hrg & _).
  destruct (stage_slot_fields _ _ _ _ _ _ _ He Hm) as [Hi3 Hw3].
  destruct (wb_never_faults (uview L) i _ _ _ _ _ s1 Hs He Hm) as [tw Hw].
  assert (Hwb : snd (write_back (sl_instr x3) (sl_wreg x3) (wb_data x3) (with_icount s1 (icount s1 + 1))) = None).
  { rewrite wb_on_some in Hw. destruct (write_back _ _ _ _) as [s2 [e|]]; [discriminate Hw|reflexivity]. }
  rewrite <- Hi3 in Hw3.
  pose proof (wb_regs_write x3 _ Hwb Hw3) as HW.
  split; [exact Hok|].
  unfold lnxt, lstep, vstep. cbn [fst snd lt]. fold (uview L). fold (nxt (uview L)). rewrite Hok.
  cbn [regs with_regs]. unfold commit_regs, cur_wreg. rewrite Hi, <- Hi3.
  rewrite (HW s1), Hrg, (HW tm), Hr.
  destruct (write_reg (sl_instr x3)) as [r|]; [|reflexivity].
  destruct ((0 <? r) && (r <? 32)); [|reflexivity]. rewrite mget_mset_eq. reflexivity.
Qed.
End Bridge.

Section WithProgram.
Variable P : list instr.
Hypothesis Hsup : Forall (fun i => supported i = true) P.

(** * WB against the lag state *)
Lemma wb_stageL L l3 s1 : prog (im (lt L)) = P -> lv3 P (uview L) l3 -> wfL L -> exitc (lt L) = None ->
  regs s1 = regs (lt L) ->
  exists s2, wb_on l3 s1 = (option_map wb_slot l3, s2, None) /\
    flush_of (option_map wb_slot l3) = None /\
    regs s2 = regs (lt (advL l3 L)) /\ ms s2 = ms s1 /\ out s2 = out s1 /\ bcount s2 = bcount s1 /\
    pcount s2 = pcount s1 /\ exitc s2 = exitc s1 /\ pc s2 = pc s1 /\ im s2 = im s1 /\
    icount s2 - icount s1 = icount (lt (advL l3 L)) - icount (lt L) /\
    wfL (advL l3 L) /\ prog (im (lt (advL l3 L))) = P /\ exitc (lt (advL l3 L)) = None.
Proof.
  intros HP L3 WL Hex Hr. destruct l3 as [x3|].
  2:{ exists s1. rewrite wb_on_none. cbn [option_map flush_of advL nonempty bub lt].
      csplit; try assumption; try reflexivity; try lia. apply wfL_bub; exact WL. }
  cbn [lv3] in L3. destruct L3 as (Wu & (_ & Ha & Hi) & (e & te & tm & He & Hm) & Hok & Hex1).
  change (pc (uview L)) with (pc (lt L)) in *.
  assert (Hi' : instr_at (prog (im (lt L))) (pc (lt L)) = Some (sl_instr x3)) by (rewrite HP; exact Hi).
  pose proof (instr_supported P Hsup _ _ Hi) as Hs.
  destruct (nxt_fields (uview L) _ Wu Hex Hi' Hs _ _ _ _ He Hm) as (_ & _ & _ & _ & Hexn & _ & _ & Hic & _).
  destruct (lnxt_regs L _ WL Hex Hi' Hs _ _ _ _ s1 He Hm Hr) as [HokL HrL].
  destruct (wb_never_faults (uview L) _ _ _ _ _ _ s1 Hs He Hm) as [s2 Hw]. exists s2.
  assert (Hx3 : sl_exit x3 = None).
  { rewrite Hexn in Hex1. destruct (sl_exit x3); [discriminate|reflexivity]. }
  pose proof (wb_on_regs _ _ _ _ Hw) as Hr2. pose proof (wb_on_exitc _ _ _ _ Hw) as Hx2.
  pose proof (wb_on_law _ _ _ _ _ Hw) as ((Hpc & Him & _) & Hms & Hout & Hbc & Hpcn & _ & Hic2).
  destruct (wfL_lnxt L _ WL Hex Hi') as [WLn Hpn].
  cbn [option_map advL nonempty flush_of wb_slot sl_flush]. split; [exact Hw|].
  split; [unfold wb_flush; rewrite Hx3; reflexivity|].
  split; [rewrite Hr2; exact HrL|].
  rewrite Hx3 in Hx2. cbn [nonempty] in Hic2.
  change (icount (lt (lnxt L))) with (icount (nxt (uview L))).
  change (exitc (lt (lnxt L))) with (exitc (nxt (uview L))).
  change (icount (uview L)) with (icount (lt L)) in Hic.
  csplit; try assumption; try congruence. lia.
Qed.

(** * The invariant *)
Record DInvAt (p : pstate) (L : lag) (l0 l1 l2 l3 l4 : latch) (dead : nat) : Prop := mkDInvAt {
  dv_lat : lat p = [l0; l1; l2; l3; l4];
  dv_shape : Shape no_icache p;
  dv_hz : hazards p = false;
  dv_progp : prog (im (pst p)) = P;
  dv_progs : prog (im (lt L)) = P;
  dv_wf : wfL L;
  dv_exit_s : exitc (lt L) = None;
  dv_dead : (dead <= 3)%nat;
  dv_d1 : Dsh_latch l1;
  (* the slots, oldest first, each against its own view state *)
  dv_l3 : lv3 P (uview L) l3;
  dv_l2 : lv P True (dead = 3%nat) (uview (advL l3 L)) l2 Eok;
  dv_l1 : lv P (dead <= 2)%nat (dead = 2%nat) (uview (advL l2 (advL l3 L))) l1 Dok;
  dv_l0 : lv P (dead <= 1)%nat (dead = 1%nat) (uview (advL l1 (advL l2 (advL l3 L)))) l0 (fun _ _ => True);
  dv_fetch : dead = 0%nat ->
             let LF := advL l0 (advL l1 (advL l2 (advL l3 L))) in
             wfL LF /\ prog (im (lt LF)) = P /\ exitc (lt LF) = None /\ pc (pst p) = pc (lt LF);
  (* the architectural state *)
  dv_regs : regs (pst p) = regs (lt L);
  dv_ms : ms (pst p) = ms (lt (advL l3 L));
  dv_bcount : bcount (pst p) = bcount (lt (advL l3 L));
  dv_pcount : pcount (pst p) = pcount (lt (advL l3 L));
  dv_out : out (pst p) = out (lt (if fired l2 then advL l2 (advL l3 L) else advL l3 L));
  dv_exitc : exitc (pst p) = None;
  dv_icount : icount (pst p) = icount (lt L);
  dv_fired : fired l2 = match stalled p with
                        | Some (k, _) => if k =? 2 then false else nonempty l2
                        | None => nonempty l2
                        end }.

Definition DInv (p : pstate) (L : lag) : Prop :=
  exists l0 l1 l2 l3 l4 dead, DInvAt p L l0 l1 l2 l3 l4 dead.

Definition lag_init (s : st) : lag := {| lt := s; lr1 := regs s; lr2 := regs s |}.

Lemma dinv_init s : wf s -> prog (im s) = P -> exitc s = None -> DInv (pipe_init s false) (lag_init s).
Proof.
  intros W HP Hex. exists None, None, None, None, None, 0%nat.
  assert (WL : wfL (lag_init s)) by (split; [exact W|split; apply (wf_r _ W)]).
  constructor; cbn [pipe_init pst lat stalled saved hazards advL nonempty fired lv lag_init lt bub];
    try reflexivity; try assumption; try lia.
  - apply shape_init. unfold no_icache. apply (wf_noic s W).
  - intros _. split; [|split; [exact HP|split; [exact Hex|reflexivity]]].
    split; [exact W|split; apply (wf_r _ W)].
Qed.

(** * The pipeline is done exactly when the reference machine is *)
Lemma ddone_iff p L l0 l1 l2 l3 l4 dead : DInvAt p L l0 l1 l2 l3 l4 dead ->
  pipe_done p = single_done (lt L).
Proof.
  intros [Hl Sh Hz HPp HPs W Hexs Hd D1 L3 L2 L1 L0 HF Hrg Hms Hbc Hpcn Hout Hexc Hic].
  unfold pipe_done, single_done, pipe_empty, has_instr. rewrite Hexc, Hexs, Hl, HPp, HPs. lat5.
  assert (Hon : forall x, onp P (uview L) x -> instr_at P (pc (lt L)) <> None).
  { intros x (_ & _ & Hi). change (pc (uview L)) with (pc (lt L)) in Hi. rewrite Hi. discriminate. }
  destruct l3 as [x3|]; cbn [nonempty orb negb andb advL lv3] in *.
  { rewrite Bool.orb_true_r. cbn [negb andb]. destruct L3 as (_ & Ho & _).
    apply Hon in Ho. destruct (instr_at P (pc (lt L))); [reflexivity|congruence]. }
  destruct l2 as [x2|]; cbn [nonempty orb negb andb advL lv] in *.
  { rewrite Bool.orb_true_r. cbn [negb andb]. destruct (L2 Logic.I) as (_ & Ho & _).
    apply Hon in Ho. destruct (instr_at P (pc (lt L))); [reflexivity|congruence]. }
  destruct l1 as [x1|]; cbn [nonempty orb negb andb advL lv] in *.
  { rewrite Bool.orb_true_r. cbn [negb andb]. destruct (L1 ltac:(lia)) as (_ & Ho & _).
    apply Hon in Ho. destruct (instr_at P (pc (lt L))); [reflexivity|congruence]. }
  destruct l0 as [x0|]; cbn [nonempty orb negb andb advL lv] in *.
  { destruct (L0 ltac:(lia)) as (_ & Ho & _).
    apply Hon in Ho. destruct (instr_at P (pc (lt L))); [reflexivity|congruence]. }
  assert (H0 : dead = 0%nat) by lia. destruct (HF H0) as (_ & _ & _ & Hpc). rewrite Hpc. reflexivity.
Qed.

(* the architectural state of an empty pipeline *)
Lemma dinv_empty_agree p L l0 l1 l4 dead : DInvAt p L l0 l1 None None l4 dead -> arch_agree p (lt L).
Proof.
  intros [Hl Sh Hz HPp HPs W Hexs Hd D1 L3 L2 L1 L0 HF Hrg Hms Hbc Hpcn Hout Hexc Hic].
  cbn [advL nonempty fired bub lt] in *. unfold arch_agree. rewrite Hexc, Hexs. repeat split; assumption.
Qed.

Lemma ddone_empty p L l0 l1 l2 l3 l4 dead : DInvAt p L l0 l1 l2 l3 l4 dead ->
  single_done (lt L) = true -> l3 = None /\ l2 = None.
Proof.
  intros [Hl Sh Hz HPp HPs W Hexs Hd D1 L3 L2 L1 L0 HF Hrg Hms Hbc Hpcn Hout Hexc Hic] Hdone.
  unfold single_done, has_instr in Hdone. rewrite Hexs, HPs in Hdone.
  assert (Hon : forall M x, pc (lt M) = pc (lt L) -> onp P (uview M) x -> False).
  { intros M x HM (_ & _ & Hi). change (pc (uview M)) with (pc (lt M)) in Hi. rewrite HM in Hi. rewrite Hi in Hdone. discriminate. }
  destruct l3 as [x3|]; [exfalso; destruct L3 as (_ & Ho & _); eapply Hon; eauto|].
  split; [reflexivity|]. cbn [advL nonempty] in L2.
  destruct l2 as [x2|]; [exfalso; destruct (L2 Logic.I) as (_ & Ho & _); eapply (Hon (bub L)); eauto|reflexivity].
Qed.

End WithProgram.
