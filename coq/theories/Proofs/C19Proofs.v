(* C19Proofs.v — property C19: TOY instruction encoding / decoding, literals, and the assembler
   (toy_parser.py after tokenisation): layout of instructions and data, label resolution,
   independence of the segment order, error typing of toy_load.

   The first section holds the (model-independent) reading functions and shapes that the
   statements in Props/C19.v use; everything after it is proofs. *)
From Coq Require Import Lia ZifyBool.
From ArchSim Require Import Model.Base Model.Mem Model.Fmt Model.Toy Proofs.MapLemmas Proofs.WordLemmas.
Open Scope Z_scope.

Ltac Zify.zify_post_hook ::= Z.to_euclidean_division_equations.
Local Arguments Z.mul : simpl never.
Local Arguments Z.add : simpl never.
Local Arguments Z.sub : simpl never.
Local Arguments Z.pow : simpl never.
Local Arguments Z.div : simpl never.
Local Arguments Z.modulo : simpl never.
Local Arguments Z.land : simpl never.
Local Arguments Z.shiftl : simpl never.
Local Arguments Z.shiftr : simpl never.
Local Arguments Z.of_nat : simpl never.

(** * Specification vocabulary *)

(* a well-formed instruction: one of the thirteen opcodes, a 12-bit address *)
Definition tinstr_wf (i : tinstr) : Prop := 0 <= top i <= 12 /\ 0 <= taddr i < 4096.

(* positional value of a big-endian digit list: d_{n-1} ... d_0  |->  sum d_k * base^k *)
Fixpoint positional (base : Z) (ds : list Z) : Z :=
  match ds with
  | [] => 0
  | d :: t => d * base ^ Z.of_nat (length t) + positional base t
  end.

Definition is_dec_char (c : Z) : Prop := 48 <= c <= 57.                       (* '0'..'9' *)
Definition is_hex_char (c : Z) : Prop := 48 <= c <= 57 \/ 65 <= c <= 70 \/ 97 <= c <= 102.
Definition dec_digit (c : Z) : Z := c - 48.
Definition hex_digit (c : Z) : Z :=
  if c <=? 57 then c - 48                 (* '0'..'9' *)
  else if c <=? 70 then c - 65 + 10       (* 'A'..'F' *)
  else c - 97 + 10.                       (* 'a'..'f' *)

(* a literal that is not of the form "0x..." and has more than 4300 characters: Python's int()
   refuses it (sys.int_max_str_digits) *)
Definition hex_prefixed (s : str) : Prop := exists h, s = 48 :: 120 :: h.
Definition long_decimal (s : str) : Prop := ~ hex_prefixed s /\ Z.of_nat (length s) > 4300.

(* counting instruction lines and data words *)
Fixpoint ninstr (l : list (Z * tline)) : nat :=
  match l with
  | [] => O
  | (_, TLInstr _ _ _) :: t => S (ninstr t)
  | _ :: t => ninstr t
  end.
Fixpoint nvals (l : list (Z * tline)) : nat :=
  match l with
  | [] => O
  | (_, TLVar _ vals) :: t => (length vals + nvals t)%nat
  | _ :: t => nvals t
  end.

(* line shapes *)
Definition declares_label (x : tline) (name : Z) : Prop :=
  x = TLLabel name \/ exists op opnd, x = TLInstr (Some name) op opnd.
Definition var_line (x : Z * tline) : Prop := exists name vals, snd x = TLVar name vals.
Definition code_line (x : Z * tline) : Prop :=
  (exists name, snd x = TLLabel name) \/ (exists inl op opnd, snd x = TLInstr inl op opnd).
Definition plain_line (x : Z * tline) : Prop := tdir_of (snd x) = None.

Definition line_literals (x : tline) : list str :=
  match x with
  | TLVar _ vals => vals
  | TLInstr _ _ (TAddrLit s) => [s]
  | _ => []
  end.
(* what the tokenizer guarantees: an address-type mnemonic always carries an operand *)
Definition tokens_wf (toks : list (Z * tline)) : Prop :=
  forall ln inl op, In (ln, TLInstr inl op TNoOperand) toks -> is_address_type op = false.

Definition perr_line (e : perr) : option Z :=
  match e with
  | PSyntax ln | PLabel ln | POdd ln | PDupLabel ln | PDirective ln
  | PDataSyntax ln | PDataDup ln | PVariable ln | PUncaught ln => Some ln
  | PMemSize _ | PMemAddr _ => None
  end.

(* the parser's intermediate results on a successful parse: data lines, text lines, the final
   label table (labels, then variables) and the instantiated instructions *)
Definition toy_parse (size : Z) (toks : list (Z * tline))
  : option (list (Z * tline) * list (Z * tline) * zmap * list tinstr) :=
  match segment tdir_of toks with
  | PErr _ => None
  | POk (data, text) =>
      match toy_labels toks 0 [] with
      | PErr _ => None
      | POk labels0 =>
          match toy_write_data (toy_memcfg size) data (size - 1) labels0 [] with
          | PErr _ => None
          | POk (_, labels, _) =>
              match toy_instantiate text labels with
              | PErr _ => None
              | POk ins => Some (data, text, labels, ins)
              end
          end
      end
  end.

(* what an instruction line denotes, given the label table *)
Definition instr_denotes (labels : zmap) (op : Z) (opnd : toperand) (i : tinstr) : Prop :=
  if is_address_type op then
    match opnd with
    | TAddrLit s => exists z, toy_value s = Some z /\ i = mk_tinstr op z
    | TLabel l => exists a, mget_opt labels l = Some a /\ i = mk_tinstr op a
    | TNoOperand => False
    end
  else i = mk_tinstr op 0.

Definition nop : tinstr := {| top := 12; taddr := 0 |}.

(** * 1-3. Encoding and decoding *)

Lemma land_shr12 w : 0 <= w < 65536 -> Z.land (Z.shiftr w 12) 15 = w / 4096.
Proof.
  intros Hw. change 15 with (Z.ones 4). rewrite Z.land_ones, Z.shiftr_div_pow2 by lia.
  change (2 ^ 12) with 4096. change (2 ^ 4) with 16. lia.
Qed.
Lemma land_4095 w : Z.land w 4095 = w mod 4096.
Proof. change 4095 with (Z.ones 12). rewrite Z.land_ones by lia. reflexivity. Qed.
Lemma shl12 a : Z.shiftl a 12 = a * 4096.
Proof. rewrite Z.shiftl_mul_pow2 by lia. reflexivity. Qed.

Lemma encode_eq i : toy_encode i = top i * 4096 + taddr i.
Proof. unfold toy_encode. rewrite shl12. reflexivity. Qed.

Lemma encode_range i : 0 <= top i < 16 -> 0 <= taddr i < 4096 -> 0 <= toy_encode i < 65536.
Proof. intros Ho Ha. rewrite encode_eq. lia. Qed.

Lemma decode_eq w : 0 <= w < 65536 ->
  toy_decode w = {| top := (if w / 4096 <=? 11 then w / 4096 else 12); taddr := w mod 4096 |}.
Proof.
  intros Hw. unfold toy_decode, mk_tinstr. rewrite land_shr12, land_4095 by assumption.
  f_equal.
  - destruct (w / 4096 <=? 11) eqn:E; lia.
  - lia.
Qed.

Lemma decode_encode_lem : forall i, tinstr_wf i ->
  toy_decode (toy_encode i) = i /\ 0 <= toy_encode i < 65536 /\
  op_code_value i = top i /\ address_section_value i = taddr i.
Proof.
  intros [op a] [Hop Ha]. cbn [top taddr] in Hop, Ha.
  assert (Hr: 0 <= toy_encode {| top := op; taddr := a |} < 65536)
    by (apply encode_range; cbn [top taddr]; lia).
  unfold op_code_value, address_section_value.
  rewrite decode_eq, land_shr12, land_4095 by assumption.
  rewrite encode_eq in *. cbn [top taddr] in *.
  assert (Hd: (op * 4096 + a) / 4096 = op) by lia.
  assert (Hm: (op * 4096 + a) mod 4096 = a) by lia.
  rewrite Hd, Hm. repeat split; try lia.
  f_equal. destruct (op <=? 11) eqn:E; lia.
Qed.

Lemma decode_total_lem : forall w, 0 <= w < 65536 ->
  toy_decode w = {| top := (if w / 4096 <=? 11 then w / 4096 else 12); taddr := w mod 4096 |} /\
  tinstr_wf (toy_decode w) /\
  (w / 4096 <= 12 -> toy_encode (toy_decode w) = w).
Proof.
  intros w Hw. rewrite decode_eq by assumption. split; [reflexivity|]. split.
  - unfold tinstr_wf; cbn [top taddr]. destruct (w / 4096 <=? 11) eqn:E; lia.
  - intros Hle. rewrite encode_eq. cbn [top taddr]. destruct (w / 4096 <=? 11) eqn:E; lia.
Qed.

Lemma mk_tinstr_wf_lem : forall op a, 0 <= op <= 12 ->
  tinstr_wf (mk_tinstr op a) /\ top (mk_tinstr op a) = op /\ taddr (mk_tinstr op a) = a mod 4096.
Proof.
  intros op a Hop. unfold tinstr_wf, mk_tinstr; cbn [top taddr]. lia.
Qed.

(* every instruction the assembler builds encodes into 16 bits, whatever the opcode argument *)
Lemma mk_tinstr_encode_range op a : 0 <= toy_encode (mk_tinstr op a) < 65536.
Proof. apply encode_range; unfold mk_tinstr; cbn [top taddr]; lia. Qed.

(** * 4. Literals *)

Lemma fold_positional (f : Z -> Z) base s : forall acc,
  fold_left (fun a c => a * base + f c) s acc =
  acc * base ^ Z.of_nat (length s) + positional base (map f s).
Proof.
  induction s as [|c t IH]; intros acc; cbn [fold_left map positional length].
  - change (Z.of_nat 0) with 0. rewrite Z.pow_0_r. lia.
  - rewrite IH. rewrite map_length. rewrite Nat2Z.inj_succ, Z.pow_succ_r by lia. ring.
Qed.

Lemma digits_value_positional base s :
  digits_value base s = positional base (map hexval s).
Proof. unfold digits_value. rewrite fold_positional. lia. Qed.

Lemma hexval_dec c : is_dec_char c -> hexval c = dec_digit c.
Proof.
  unfold is_dec_char, hexval, dec_digit; intros Hc.
  destruct ((48 <=? c) && (c <=? 57)) eqn:E; lia.
Qed.
Lemma hexval_hex c : is_hex_char c -> hexval c = hex_digit c.
Proof.
  unfold is_hex_char, hexval, hex_digit; intros Hc.
  destruct ((48 <=? c) && (c <=? 57)) eqn:E1; destruct ((65 <=? c) && (c <=? 70)) eqn:E2;
    destruct (c <=? 57) eqn:E3; destruct (c <=? 70) eqn:E4; lia.
Qed.

Lemma map_ext_Forall {A B} (P : A -> Prop) (f g : A -> B) l :
  (forall x, P x -> f x = g x) -> Forall P l -> map f l = map g l.
Proof.
  intros Hfg HF. induction HF as [|x t Hx Ht IH]; cbn [map]; [reflexivity|].
  rewrite Hfg, IH by assumption. reflexivity.
Qed.

(* the two shapes of toy_value *)
Lemma toy_value_cases s :
  (exists h, s = 48 :: 120 :: h /\ toy_value s = Some (digits_value 16 h)) \/
  (~ hex_prefixed s /\
   toy_value s = if Z.of_nat (length s) >? max_str_digits then None else Some (digits_value 10 s)).
Proof.
  destruct s as [|c1 s1].
  { right; split; [intros [h Hh]; discriminate Hh | reflexivity]. }
  destruct c1 as [|p|p];
    try (right; split; [intros [h Hh]; discriminate Hh | reflexivity]).
  do 6 (destruct p as [p|p|];
        try (right; split; [intros [h Hh]; discriminate Hh | reflexivity])).
  destruct s1 as [|c2 s2].
  { right; split; [intros [h Hh]; discriminate Hh | reflexivity]. }
  destruct c2 as [|p|p];
    try (right; split; [intros [h Hh]; discriminate Hh | reflexivity]).
  do 7 (destruct p as [p|p|];
        try (right; split; [intros [h Hh]; discriminate Hh | reflexivity])).
  left. exists s2. split; reflexivity.
Qed.

Lemma toy_value_none_iff s : toy_value s = None <-> long_decimal s.
Proof.
  unfold long_decimal. destruct (toy_value_cases s) as [[h [Hs Hv]] | [Hn Hv]].
  - split; [rewrite Hv; discriminate|]. intros [Hnh _]. exfalso; apply Hnh; exists h; exact Hs.
  - rewrite Hv. unfold max_str_digits. destruct (Z.of_nat (length s) >? 4300) eqn:E.
    + split; [intros _; split; [exact Hn | lia] | reflexivity].
    + split; [discriminate | intros [_ Hl]; lia].
Qed.

Lemma dec_not_hex_prefixed s : Forall is_dec_char s -> ~ hex_prefixed s.
Proof.
  intros HF [h Hh]. subst s. inversion HF as [|? ? _ HF1]; subst.
  inversion HF1 as [|? ? Hx _]; subst. unfold is_dec_char in Hx. lia.
Qed.

Lemma toy_literals_lem :
  (forall s, Forall is_dec_char s -> Z.of_nat (length s) <= 4300 ->
     toy_value s = Some (positional 10 (map dec_digit s))) /\
  (forall h, Forall is_hex_char h ->
     toy_value (48 :: 120 :: h) = Some (positional 16 (map hex_digit h))) /\
  (forall s, Forall is_dec_char s -> (toy_value s = None <-> Z.of_nat (length s) > 4300)) /\
  (forall s, toy_value s = None <-> long_decimal s).
Proof.
  split; [|split; [|split]].
  - intros s HF Hl. destruct (toy_value_cases s) as [[h [Hs _]] | [_ Hv]].
    + exfalso. apply (dec_not_hex_prefixed s HF). exists h; exact Hs.
    + rewrite Hv. unfold max_str_digits. destruct (Z.of_nat (length s) >? 4300) eqn:E; [lia|].
      rewrite digits_value_positional. f_equal. f_equal.
      apply (map_ext_Forall is_dec_char); [exact hexval_dec | exact HF].
  - intros h HF. destruct (toy_value_cases (48 :: 120 :: h)) as [[h' [Hs Hv]] | [Hn _]].
    + injection Hs as Hs; subst h'. rewrite Hv. rewrite digits_value_positional. f_equal. f_equal.
      apply (map_ext_Forall is_hex_char); [exact hexval_hex | exact HF].
    + exfalso; apply Hn; exists h; reflexivity.
  - intros s HF. rewrite toy_value_none_iff. unfold long_decimal.
    split; [intros [_ H]; exact H | intros H; split; [apply dec_not_hex_prefixed; exact HF | exact H]].
  - exact toy_value_none_iff.
Qed.

(** * Memory writes of the TOY memory: one cell *)

Lemma land_U16 z : Z.land (U16 z) 65535 = z mod 65536.
Proof.
  unfold U16, U. change (2 ^ 16) with 65536. change 65535 with (Z.ones 16).
  rewrite Z.land_ones by lia. change (2 ^ 16) with 65536. lia.
Qed.

Lemma toy_mem_write size m a v :
  mem_write (toy_memcfg size) m 16 a v =
  if (0 <=? a) && (a <? size) then (mset m a (Z.land v 65535), None)
  else (m, Some (EAddr a 0 (size - 1) false)).
Proof.
  unfold mem_write, ncells. cbn [cw toy_memcfg].
  change (Z.to_nat (16 / 16)) with 1%nat. cbn [write_mult].
  unfold write_cell, eff_addr, in_range, addr_err. cbn [aovf alo ahi cw toy_memcfg].
  rewrite Z.add_0_r. change (2 ^ 16 - 1) with 65535.
  destruct ((0 <=? a) && (a <? size)); reflexivity.
Qed.

Lemma toy_mem_write_4096 m a v : 0 <= a < 4096 ->
  mem_write (toy_memcfg 4096) m 16 a v = (mset m a (Z.land v 65535), None).
Proof.
  intros Ha. rewrite toy_mem_write. destruct ((0 <=? a) && (a <? 4096)) eqn:E; [reflexivity | lia].
Qed.

(** * Label tables *)

Definition lbl_ext (lb lb' : zmap) : Prop :=
  forall k x, mget_opt lb k = Some x -> mget_opt lb' k = Some x.

Lemma lbl_ext_refl lb : lbl_ext lb lb.
Proof. intros k x H; exact H. Qed.
Lemma lbl_ext_trans a b c : lbl_ext a b -> lbl_ext b c -> lbl_ext a c.
Proof. intros H1 H2 k x H; apply H2, H1, H. Qed.

Lemma mget_opt_app l k n v :
  mget_opt (l ++ [(n, v)]) k =
  match mget_opt l k with Some x => Some x | None => if n =? k then Some v else None end.
Proof.
  induction l as [|[k' v'] t IH]; cbn [app mget_opt]; [reflexivity|].
  destruct (k' =? k); [reflexivity | exact IH].
Qed.

Lemma add_label_ok labels name v ln lb :
  add_label labels name v ln = POk lb ->
  lb = labels ++ [(name, v)] /\ mget_opt labels name = None.
Proof.
  unfold add_label. destruct (mget_opt labels name) eqn:E; [discriminate|].
  intros H; injection H as <-. split; reflexivity.
Qed.
Lemma add_label_err labels name v ln e : add_label labels name v ln = PErr e -> e = PDupLabel ln.
Proof.
  unfold add_label. destruct (mget_opt labels name); [|discriminate].
  intros H; injection H as <-; reflexivity.
Qed.
Lemma add_label_erase labels name v ln ln' lb :
  add_label labels name v ln = POk lb -> add_label labels name v ln' = POk lb.
Proof. unfold add_label. destruct (mget_opt labels name); [discriminate | intros H; exact H]. Qed.

Lemma lbl_ext_add labels name v : mget_opt labels name = None ->
  lbl_ext labels (labels ++ [(name, v)]) /\ mget_opt (labels ++ [(name, v)]) name = Some v.
Proof.
  intros Hn. split.
  - intros k x Hk. rewrite mget_opt_app, Hk. reflexivity.
  - rewrite mget_opt_app, Hn, Z.eqb_refl. reflexivity.
Qed.

Lemma ninstr_cons p l : ninstr (p :: l) = (ninstr [p] + ninstr l)%nat.
Proof. destruct p as [ln [d|n vs|inl op opnd|n]]; reflexivity. Qed.
Lemma ninstr_app a b : ninstr (a ++ b) = (ninstr a + ninstr b)%nat.
Proof.
  induction a as [|p t IH]; [reflexivity|]. cbn [app].
  rewrite (ninstr_cons p (t ++ b)), (ninstr_cons p t), IH. lia.
Qed.
Lemma nvals_cons p l : nvals (p :: l) = (nvals [p] + nvals l)%nat.
Proof. destruct p as [ln [d|n vs|inl op opnd|n]]; cbn [nvals]; lia. Qed.
Lemma nvals_app a b : nvals (a ++ b) = (nvals a + nvals b)%nat.
Proof.
  induction a as [|p t IH]; [reflexivity|]. cbn [app].
  rewrite (nvals_cons p (t ++ b)), (nvals_cons p t), IH. lia.
Qed.

(** ** _process_labels *)

Lemma toy_labels_spec l : forall pcv lb lb', toy_labels l pcv lb = POk lb' ->
  lbl_ext lb lb' /\
  (forall pre ln x post name, l = pre ++ (ln, x) :: post -> declares_label x name ->
     mget_opt lb' name = Some (pcv + Z.of_nat (ninstr pre))).
Proof.
  induction l as [|[ln0 x0] t IH]; intros pcv lb lb' H.
  - cbn [toy_labels] in H. injection H as <-. split; [apply lbl_ext_refl|].
    intros pre ln x post name Hl _. destruct pre; discriminate Hl.
  - assert (G: forall pcv1 lb1, toy_labels t pcv1 lb1 = POk lb' -> lbl_ext lb lb1 ->
              (forall name, declares_label x0 name -> mget_opt lb1 name = Some pcv) ->
              pcv1 = pcv + Z.of_nat (ninstr [(ln0, x0)]) ->
              lbl_ext lb lb' /\
              (forall pre ln x post name, (ln0, x0) :: t = pre ++ (ln, x) :: post ->
                 declares_label x name -> mget_opt lb' name = Some (pcv + Z.of_nat (ninstr pre)))).
    { intros pcv1 lb1 Ht Hext Hdecl Hpc. destruct (IH _ _ _ Ht) as [IHe IHl]. split.
      - eapply lbl_ext_trans; eassumption.
      - intros pre ln x post name Hl Hd. destruct pre as [|p pre'].
        + cbn [app] in Hl. injection Hl as Hln Hx Hpost. subst ln x post. cbn [ninstr].
          replace (pcv + Z.of_nat 0) with pcv by lia. apply IHe, Hdecl, Hd.
        + cbn [app] in Hl. injection Hl as Hp Hl'. subst p.
          rewrite (IHl _ _ _ _ _ Hl' Hd). f_equal. rewrite (ninstr_cons (ln0, x0) pre'). lia. }
    destruct x0 as [d|name vals|[name|] op opnd|name]; cbn [toy_labels] in H.
    + apply (G pcv lb H); [apply lbl_ext_refl | | cbn [ninstr]; lia].
      intros nm [Hd|[op [opnd Hd]]]; discriminate Hd.
    + apply (G pcv lb H); [apply lbl_ext_refl | | cbn [ninstr]; lia].
      intros nm [Hd|[op [opnd Hd]]]; discriminate Hd.
    + destruct (add_label lb name pcv ln0) as [lb1|e] eqn:Ea; [|discriminate H].
      apply add_label_ok in Ea as [-> Hnone].
      destruct (lbl_ext_add lb name pcv Hnone) as [He Hg].
      apply (G (pcv + 1) _ H); [exact He | | cbn [ninstr]; lia].
      intros nm [Hd|[op' [opnd' Hd]]]; [discriminate Hd|]. injection Hd as <- _ _. exact Hg.
    + apply (G (pcv + 1) lb H); [apply lbl_ext_refl | | cbn [ninstr]; lia].
      intros nm [Hd|[op' [opnd' Hd]]]; discriminate Hd.
    + destruct (add_label lb name pcv ln0) as [lb1|e] eqn:Ea; [|discriminate H].
      apply add_label_ok in Ea as [-> Hnone].
      destruct (lbl_ext_add lb name pcv Hnone) as [He Hg].
      apply (G pcv _ H); [exact He | | cbn [ninstr]; lia].
      intros nm [Hd|[op' [opnd' Hd]]]; [|discriminate Hd]. injection Hd as <-. exact Hg.
Qed.

Lemma toy_labels_err l : forall pcv lb e, toy_labels l pcv lb = PErr e ->
  exists ln, e = PDupLabel ln /\ In ln (map fst l).
Proof.
  induction l as [|[ln0 x0] t IH]; intros pcv lb e H; [discriminate H|].
  assert (G: forall pcv1 lb1, toy_labels t pcv1 lb1 = PErr e ->
             exists ln, e = PDupLabel ln /\ In ln (map fst ((ln0, x0) :: t))).
  { intros pcv1 lb1 Ht. destruct (IH _ _ _ Ht) as [ln [He Hin]]. exists ln; split; [exact He|].
    right; exact Hin. }
  destruct x0 as [d|name vals|[name|] op opnd|name]; cbn [toy_labels] in H;
    try (eapply G; exact H).
  - destruct (add_label lb name pcv ln0) as [lb1|e1] eqn:Ea; [eapply G; exact H|].
    injection H as <-. apply add_label_err in Ea. exists ln0; split; [exact Ea | left; reflexivity].
  - destruct (add_label lb name pcv ln0) as [lb1|e1] eqn:Ea; [eapply G; exact H|].
    injection H as <-. apply add_label_err in Ea. exists ln0; split; [exact Ea | left; reflexivity].
Qed.

(* lines that declare no label and are no instruction do not matter to the label pass *)
Definition quiet_line (x : Z * tline) : Prop :=
  match snd x with TLDirective _ | TLVar _ _ => True | _ => False end.

Lemma toy_labels_skip_front A B : Forall quiet_line A -> forall pcv lb,
  toy_labels (A ++ B) pcv lb = toy_labels B pcv lb.
Proof.
  intros HA. induction HA as [|[ln x] t Hx Ht IH]; intros pcv lb; [reflexivity|].
  cbn [app]. unfold quiet_line in Hx; cbn [snd] in Hx.
  destruct x as [d|name vals|inl op opnd|name]; try contradiction; cbn [toy_labels]; apply IH.
Qed.

Lemma toy_labels_skip_back A : Forall quiet_line A -> forall B pcv lb,
  toy_labels (B ++ A) pcv lb = toy_labels B pcv lb.
Proof.
  intros HA B. induction B as [|[ln x] t IH]; intros pcv lb.
  - cbn [app]. rewrite <- (app_nil_r A) at 1. rewrite toy_labels_skip_front by assumption. reflexivity.
  - cbn [app]. destruct x as [d|name vals|[name|] op opnd|name]; cbn [toy_labels];
      try apply IH.
    + destruct (add_label lb name pcv ln); [apply IH | reflexivity].
    + destruct (add_label lb name pcv ln); [apply IH | reflexivity].
Qed.

Lemma toy_labels_erase l : forall l' pcv lb r, map snd l = map snd l' ->
  toy_labels l pcv lb = POk r -> toy_labels l' pcv lb = POk r.
Proof.
  induction l as [|[ln x] t IH]; intros [|[ln' x'] t'] pcv lb r Hm H; try discriminate Hm.
  - exact H.
  - cbn [map snd] in Hm. injection Hm as Hx Ht. subst x'.
    destruct x as [d|name vals|[name|] op opnd|name]; cbn [toy_labels] in *;
      try (eapply IH; eassumption).
    + destruct (add_label lb name pcv ln) as [lb1|e1] eqn:Ea; [|discriminate H].
      rewrite (add_label_erase _ _ _ _ ln' _ Ea). eapply IH; eassumption.
    + destruct (add_label lb name pcv ln) as [lb1|e1] eqn:Ea; [|discriminate H].
      rewrite (add_label_erase _ _ _ _ ln' _ Ea). eapply IH; eassumption.
Qed.

(** ** Writing values *)

Lemma write_vals_spec size vals : forall m a ln m',
  toy_write_vals (toy_memcfg size) m a vals ln = POk m' ->
  (forall j, (j < length vals)%nat ->
     exists z, toy_value (nth j vals []) = Some z /\ mget m' (a + Z.of_nat j) = z mod 65536) /\
  (forall k, k < a \/ a + Z.of_nat (length vals) <= k -> mget m' k = mget m k) /\
  (vals <> [] -> 0 <= a /\ a + Z.of_nat (length vals) <= size).
Proof.
  induction vals as [|v t IH]; intros m a ln m' H.
  - cbn [toy_write_vals] in H. injection H as <-. split; [|split].
    + intros j Hj. cbn [length] in Hj. lia.
    + intros; reflexivity.
    + intros Hne; contradiction Hne; reflexivity.
  - cbn [toy_write_vals] in H. destruct (toy_value v) as [z|] eqn:Ev; [|discriminate H].
    rewrite toy_mem_write in H. destruct ((0 <=? a) && (a <? size)) eqn:Er; [|discriminate H].
    destruct (IH _ _ _ _ H) as [IHv [IHf IHr]]. cbn [length]. split; [|split].
    + intros [|j] Hj.
      * exists z. cbn [nth]. split; [exact Ev|]. replace (a + Z.of_nat 0) with a by lia.
        rewrite IHf by lia. rewrite mget_mset_eq. apply land_U16.
      * destruct (IHv j ltac:(lia)) as [z' [Hz' Hm']]. exists z'. cbn [nth]. split; [exact Hz'|].
        rewrite <- Hm'. f_equal. lia.
    + intros k Hk. rewrite IHf by lia. apply mget_mset_neq. lia.
    + intros _. destruct t as [|v2 t2].
      * cbn [length]. lia.
      * assert (Hne: v2 :: t2 <> []) by discriminate. specialize (IHr Hne). lia.
Qed.

Lemma write_vals_err size vals : forall m a ln e,
  0 <= a -> a + Z.of_nat (length vals) <= size ->
  toy_write_vals (toy_memcfg size) m a vals ln = PErr e ->
  e = PSyntax ln /\ exists lit, In lit vals /\ long_decimal lit.
Proof.
  induction vals as [|v t IH]; intros m a ln e Ha Hb H; [discriminate H|].
  cbn [length] in Hb.
  cbn [toy_write_vals] in H. destruct (toy_value v) as [z|] eqn:Ev.
  - rewrite toy_mem_write in H. destruct ((0 <=? a) && (a <? size)) eqn:Er; [|lia].
    assert (Ha1: 0 <= a + 1) by lia. assert (Hb1: a + 1 + Z.of_nat (length t) <= size) by lia.
    destruct (IH _ _ _ _ Ha1 Hb1 H) as [He [lit [Hin Hlong]]].
    split; [exact He|]. exists lit; split; [right; exact Hin | exact Hlong].
  - injection H as <-. split; [reflexivity|]. exists v; split; [left; reflexivity|].
    apply toy_value_none_iff; exact Ev.
Qed.

Lemma write_vals_erase c vals : forall m a ln ln' m',
  toy_write_vals c m a vals ln = POk m' -> toy_write_vals c m a vals ln' = POk m'.
Proof.
  induction vals as [|v t IH]; intros m a ln ln' m' H; [exact H|].
  cbn [toy_write_vals] in *. destruct (toy_value v) as [z|]; [|discriminate H].
  destruct (mem_write c m 16 a (U16 z)) as [m1 [e1|]].
  - destruct e1; discriminate H.
  - eapply IH; exact H.
Qed.

(** ** _write_data *)

Lemma write_data_spec size data : forall last labels m last' labels' m',
  toy_write_data (toy_memcfg size) data last labels m = POk (last', labels', m') ->
  last' = last - Z.of_nat (nvals data) /\
  Forall var_line data /\
  (data <> [] -> -1 <= last') /\
  (forall k, last < k -> mget m' k = mget m k) /\
  lbl_ext labels labels' /\
  (forall pre ln name vals post, data = pre ++ (ln, TLVar name vals) :: post ->
     let start := last + 1 - Z.of_nat (nvals pre + length vals) in
     mget_opt labels' name = Some start /\
     forall j, (j < length vals)%nat ->
       exists z, toy_value (nth j vals []) = Some z /\ mget m' (start + Z.of_nat j) = z mod 65536).
Proof.
  induction data as [|[ln0 x0] t IH]; intros last labels m last' labels' m' H.
  - cbn [toy_write_data] in H. injection H as <- <- <-. cbn [nvals].
    split; [lia|]. split; [constructor|]. split; [intros Hne; contradiction Hne; reflexivity|].
    split; [reflexivity|]. split; [apply lbl_ext_refl|].
    intros pre ln name vals post Hl. destruct pre; discriminate Hl.
  - cbn [toy_write_data] in H.
    destruct x0 as [d|name0 vals0|inl op opnd|name0]; try discriminate H.
    destruct (last - Z.of_nat (length vals0) + 1 <? 0) eqn:Eneg; [discriminate H|].
    destruct (add_label labels name0 (last - Z.of_nat (length vals0) + 1) ln0) as [lb1|e1] eqn:Ea;
      [|discriminate H].
    destruct (toy_write_vals (toy_memcfg size) m (last - Z.of_nat (length vals0) + 1) vals0 ln0)
      as [m1|e1] eqn:Ew; [|discriminate H].
    apply add_label_ok in Ea as [-> Hnone].
    destruct (lbl_ext_add labels name0 (last - Z.of_nat (length vals0) + 1) Hnone) as [He Hg].
    destruct (write_vals_spec _ _ _ _ _ _ Ew) as [Wv [Wf _]].
    destruct (IH _ _ _ _ _ _ H) as [IHl [IHF [IHn [IHf [IHe IHv]]]]].
    cbn [nvals]. split; [lia|]. split.
    { constructor; [|exact IHF]. exists name0, vals0; reflexivity. }
    split.
    { intros _. destruct t as [|p t'].
      - cbn [nvals] in IHl. lia.
      - assert (Hne: p :: t' <> []) by discriminate. exact (IHn Hne). }
    split.
    { intros k Hk. rewrite IHf by lia. apply Wf. lia. }
    split.
    { eapply lbl_ext_trans; eassumption. }
    intros pre ln name vals post Hl. destruct pre as [|p pre'].
    + cbn [app] in Hl. injection Hl as Hln Hname Hvals Hpost. subst ln name vals post.
      cbn [nvals]. cbv zeta.
      replace (last + 1 - Z.of_nat (0 + length vals0)) with (last - Z.of_nat (length vals0) + 1) by lia.
      split; [apply IHe; exact Hg|].
      intros j Hj. destruct (Wv j Hj) as [z [Hz Hm]]. exists z; split; [exact Hz|].
      rewrite IHf by lia. exact Hm.
    + cbn [app] in Hl. injection Hl as Hp Hl'. subst p.
      destruct (IHv _ _ _ _ _ Hl') as [IHlab IHcells]. cbv zeta.
      rewrite (nvals_cons (ln0, TLVar name0 vals0) pre'). cbn [nvals].
      replace (last + 1 - Z.of_nat (length vals0 + 0 + nvals pre' + length vals))
        with (last - Z.of_nat (length vals0) + 1 - Z.of_nat (nvals pre' + length vals)) by lia.
      split; [exact IHlab | exact IHcells].
Qed.

Definition err_ok (size : Z) (l : list (Z * tline)) (e : perr) : Prop :=
  match e with
  | POdd _ | PVariable _ | PDataDup _ => False
  | PSyntax ln =>
      exists x, In (ln, x) l /\ exists lit, In lit (line_literals x) /\ long_decimal lit
  | PLabel ln | PDupLabel ln | PDirective ln | PDataSyntax ln => In ln (map fst l)
  | PMemSize w => w = size
  | PMemAddr _ => False
  | PUncaught ln =>
      exists x, In (ln, x) l /\
        exists inl op, x = TLInstr inl op TNoOperand /\ is_address_type op = true
  end.

Lemma err_ok_incl size l l' e : incl l l' -> err_ok size l e -> err_ok size l' e.
Proof.
  intros Hi. assert (Hm: forall ln, In ln (map fst l) -> In ln (map fst l')).
  { intros ln Hin. apply in_map_iff in Hin as [[k x] [Hk Hin]]. apply in_map_iff.
    exists (k, x); split; [exact Hk | apply Hi; exact Hin]. }
  destruct e; cbn [err_ok]; try (intros H; exact H); try apply Hm.
  all: intros [x [Hin Hx]]; exists x; split; [apply Hi; exact Hin | exact Hx].
Qed.

Lemma err_ok_cons size p l e : err_ok size l e -> err_ok size (p :: l) e.
Proof. apply err_ok_incl. intros x Hx; right; exact Hx. Qed.

Lemma write_data_err size data : forall last labels m e, last <= size - 1 ->
  toy_write_data (toy_memcfg size) data last labels m = PErr e -> err_ok size data e.
Proof.
  induction data as [|[ln0 x0] t IH]; intros last labels m e Hlast H; [discriminate H|].
  cbn [toy_write_data] in H.
  destruct x0 as [d|name0 vals0|inl op opnd|name0];
    try (injection H as <-; cbn [err_ok map fst]; left; reflexivity).
  destruct (last - Z.of_nat (length vals0) + 1 <? 0) eqn:Eneg.
  { injection H as <-. reflexivity. }
  destruct (add_label labels name0 (last - Z.of_nat (length vals0) + 1) ln0) as [lb1|e1] eqn:Ea.
  2:{ injection H as <-. apply add_label_err in Ea; subst e1. cbn [err_ok map fst]. left; reflexivity. }
  destruct (toy_write_vals (toy_memcfg size) m (last - Z.of_nat (length vals0) + 1) vals0 ln0)
    as [m1|e1] eqn:Ew.
  - apply err_ok_cons. eapply (IH (last - Z.of_nat (length vals0))); [lia | exact H].
  - injection H as <-.
    assert (Ha1: 0 <= last - Z.of_nat (length vals0) + 1) by lia.
    assert (Hb1: last - Z.of_nat (length vals0) + 1 + Z.of_nat (length vals0) <= size) by lia.
    destruct (write_vals_err _ _ _ _ _ _ Ha1 Hb1 Ew) as [-> [lit [Hin Hlong]]].
    cbn [err_ok]. exists (TLVar name0 vals0). split; [left; reflexivity|].
    exists lit; split; [exact Hin | exact Hlong].
Qed.

Lemma write_data_erase c l : forall l' last lb m r, map snd l = map snd l' ->
  toy_write_data c l last lb m = POk r -> toy_write_data c l' last lb m = POk r.
Proof.
  induction l as [|[ln x] t IH]; intros [|[ln' x'] t'] last lb m r Hm H; try discriminate Hm.
  - exact H.
  - cbn [map snd] in Hm. injection Hm as Hx Ht. subst x'.
    cbn [toy_write_data] in *.
    destruct x as [d|name vals|inl op opnd|name]; try discriminate H.
    destruct (last - Z.of_nat (length vals) + 1 <? 0); [discriminate H|].
    destruct (add_label lb name (last - Z.of_nat (length vals) + 1) ln) as [lb1|e1] eqn:Ea;
      [|discriminate H].
    rewrite (add_label_erase _ _ _ _ ln' _ Ea).
    destruct (toy_write_vals c m (last - Z.of_nat (length vals) + 1) vals ln) as [m1|e1] eqn:Ew;
      [|discriminate H].
    rewrite (write_vals_erase _ _ _ _ _ ln' _ Ew). eapply IH; eassumption.
Qed.

(** ** _load_instructions *)

Definition built (i : tinstr) : Prop := exists op a, i = mk_tinstr op a.

Lemma instantiate_spec text : forall labels ins, toy_instantiate text labels = POk ins ->
  length ins = ninstr text /\ Forall built ins /\
  Forall (fun x => ~ var_line x) text /\
  (forall pre ln inl op opnd post, text = pre ++ (ln, TLInstr inl op opnd) :: post ->
     instr_denotes labels op opnd (nth (ninstr pre) ins nop)).
Proof.
  induction text as [|[ln0 x0] t IH]; intros labels ins H.
  - cbn [toy_instantiate] in H. injection H as <-. split; [reflexivity|]. split; [constructor|].
    split; [constructor|]. intros pre ln inl op opnd post Hl. destruct pre; discriminate Hl.
  - assert (G: forall ins1, toy_instantiate t labels = POk ins1 ->
              (forall inl op opnd, x0 = TLInstr inl op opnd ->
                 exists i, ins = i :: ins1 /\ built i /\ instr_denotes labels op opnd i) ->
              ((forall inl op opnd, x0 <> TLInstr inl op opnd) -> ins = ins1) ->
              (forall name vals, x0 <> TLVar name vals) ->
              length ins = ninstr ((ln0, x0) :: t) /\ Forall built ins /\
              Forall (fun x => ~ var_line x) ((ln0, x0) :: t) /\
              (forall pre ln inl op opnd post,
                 (ln0, x0) :: t = pre ++ (ln, TLInstr inl op opnd) :: post ->
                 instr_denotes labels op opnd (nth (ninstr pre) ins nop))).
    { intros ins1 Ht Hi Hn Hv. destruct (IH _ _ Ht) as [IHlen [IHb [IHnv IHd]]].
      assert (Hnv: Forall (fun x => ~ var_line x) ((ln0, x0) :: t)).
      { constructor; [|exact IHnv]. intros [name [vals Hx]]. cbn [snd] in Hx. exact (Hv _ _ Hx). }
      destruct x0 as [d|name0 vals0|inl0 op0 opnd0|name0];
        try (rewrite Hn by (intros; discriminate); cbn [ninstr];
             split; [exact IHlen|]; split; [exact IHb|]; split; [exact Hnv|];
             intros pre ln inl op opnd post Hl; destruct pre as [|p pre'];
             [discriminate Hl|]; cbn [app] in Hl; injection Hl as Hp Hl'; subst p;
             cbn [ninstr]; eapply IHd; exact Hl').
      destruct (Hi _ _ _ eq_refl) as [i [-> [Hbi Hdi]]]. cbn [ninstr length].
      split; [rewrite IHlen; reflexivity|]. split; [constructor; assumption|]. split; [exact Hnv|].
      intros pre ln inl op opnd post Hl. destruct pre as [|p pre'].
      - cbn [app] in Hl. injection Hl as _ _ Hop Hopnd _. subst op opnd. cbn [ninstr nth]. exact Hdi.
      - cbn [app] in Hl. injection Hl as Hp Hl'. subst p. cbn [ninstr nth]. eapply IHd; exact Hl'. }
    cbn [toy_instantiate] in H.
    destruct x0 as [d|name0 vals0|inl0 op0 opnd0|name0]; try discriminate H.
    + apply (G ins H); [intros; discriminate | reflexivity | intros; discriminate].
    + set (this := if is_address_type op0 then _ else _) in H.
      destruct this as [i|e1] eqn:Ethis; [|discriminate H].
      destruct (toy_instantiate t labels) as [r|e1] eqn:Er; [|discriminate H].
      injection H as <-.
      apply (G r eq_refl); [| intros Hc; exfalso; eapply Hc; reflexivity | intros; discriminate].
      intros inl op opnd Hx. injection Hx as _ <- <-. exists i. split; [reflexivity|].
      subst this. unfold instr_denotes. destruct (is_address_type op0).
      * destruct opnd0 as [s|l|].
        -- destruct (toy_value s) as [z|] eqn:Ev; [|discriminate Ethis]. injection Ethis as <-.
           split; [eexists; eexists; reflexivity|]. exists z; split; [reflexivity|reflexivity].
        -- destruct (mget_opt labels l) as [z|] eqn:Ev; [|discriminate Ethis]. injection Ethis as <-.
           split; [eexists; eexists; reflexivity|]. exists z; split; [reflexivity|reflexivity].
        -- discriminate Ethis.
      * injection Ethis as <-. split; [eexists; eexists; reflexivity | reflexivity].
    + apply (G ins H); [intros; discriminate | reflexivity | intros; discriminate].
Qed.

Lemma instantiate_err size text : forall labels e,
  toy_instantiate text labels = PErr e -> err_ok size text e.
Proof.
  induction text as [|[ln0 x0] t IH]; intros labels e H; [discriminate H|].
  cbn [toy_instantiate] in H.
  destruct x0 as [d|name0 vals0|inl0 op0 opnd0|name0].
  - apply err_ok_cons. eapply IH; exact H.
  - injection H as <-. cbn [err_ok map fst]. left; reflexivity.
  - set (this := if is_address_type op0 then _ else _) in H.
    destruct this as [i|e1] eqn:Ethis.
    + destruct (toy_instantiate t labels) as [r|e2] eqn:Er; [discriminate H|].
      injection H as <-. apply err_ok_cons. eapply IH; exact Er.
    + injection H as <-. subst this. destruct (is_address_type op0) eqn:Eat; [|discriminate Ethis].
      destruct opnd0 as [s|l|].
      * destruct (toy_value s) as [z|] eqn:Ev; [discriminate Ethis|]. injection Ethis as <-.
        cbn [err_ok]. exists (TLInstr inl0 op0 (TAddrLit s)). split; [left; reflexivity|].
        exists s. split; [left; reflexivity | apply toy_value_none_iff; exact Ev].
      * destruct (mget_opt labels l); [discriminate Ethis|]. injection Ethis as <-.
        cbn [err_ok map fst]. left; reflexivity.
      * injection Ethis as <-. cbn [err_ok]. exists (TLInstr inl0 op0 TNoOperand).
        split; [left; reflexivity|]. exists inl0, op0. split; [reflexivity | exact Eat].
  - apply err_ok_cons. eapply IH; exact H.
Qed.

Lemma instantiate_erase l : forall l' lb r, map snd l = map snd l' ->
  toy_instantiate l lb = POk r -> toy_instantiate l' lb = POk r.
Proof.
  induction l as [|[ln x] t IH]; intros [|[ln' x'] t'] lb r Hm H; try discriminate Hm.
  - exact H.
  - cbn [map snd] in Hm. injection Hm as Hx Ht. subst x'.
    cbn [toy_instantiate] in *.
    destruct x as [d|name vals|inl op opnd|name]; try discriminate H;
      try (eapply IH; eassumption).
    destruct (is_address_type op).
    + destruct opnd as [s|l|].
      * destruct (toy_value s); [|discriminate H].
        destruct (toy_instantiate t lb) as [r1|e1] eqn:Er; [|discriminate H].
        rewrite (IH _ _ _ Ht Er). exact H.
      * destruct (mget_opt lb l); [|discriminate H].
        destruct (toy_instantiate t lb) as [r1|e1] eqn:Er; [|discriminate H].
        rewrite (IH _ _ _ Ht Er). exact H.
      * discriminate H.
    + destruct (toy_instantiate t lb) as [r1|e1] eqn:Er; [|discriminate H].
      rewrite (IH _ _ _ Ht Er). exact H.
Qed.

Lemma write_instrs_spec size l : forall m a m',
  toy_write_instrs (toy_memcfg size) m a l = POk m' ->
  (forall j, (j < length l)%nat ->
     mget m' (a + Z.of_nat j) = toy_encode (nth j l nop) mod 65536) /\
  (forall k, k < a \/ a + Z.of_nat (length l) <= k -> mget m' k = mget m k).
Proof.
  induction l as [|i t IH]; intros m a m' H.
  - cbn [toy_write_instrs] in H. injection H as <-. split.
    + intros j Hj. cbn [length] in Hj. lia.
    + intros; reflexivity.
  - cbn [toy_write_instrs] in H. rewrite toy_mem_write in H.
    destruct ((0 <=? a) && (a <? size)) eqn:Er; [|discriminate H].
    destruct (IH _ _ _ H) as [IHv IHf]. cbn [length]. split.
    + intros [|j] Hj.
      * cbn [nth]. replace (a + Z.of_nat 0) with a by lia.
        rewrite IHf by lia. rewrite mget_mset_eq. apply land_U16.
      * cbn [nth]. rewrite <- (IHv j ltac:(lia)). f_equal. lia.
    + intros k Hk. rewrite IHf by lia. apply mget_mset_neq. lia.
Qed.

Lemma write_instrs_err size l : forall m a e, 0 <= a -> a + Z.of_nat (length l) <= size ->
  toy_write_instrs (toy_memcfg size) m a l = PErr e -> False.
Proof.
  induction l as [|i t IH]; intros m a e Ha Hb H; [discriminate H|].
  cbn [length] in Hb.
  cbn [toy_write_instrs] in H. rewrite toy_mem_write in H.
  destruct ((0 <=? a) && (a <? size)) eqn:Er; [|lia].
  eapply (IH _ (a + 1)); [| |exact H]; lia.
Qed.

(** ** _segment *)

Lemma split_at_line_found (A : Type) ln (x : A) pre post : forall acc,
  ~ In ln (map fst pre) ->
  split_at_line A ln (pre ++ (ln, x) :: post) acc = (rev acc ++ pre, post).
Proof.
  induction pre as [|[k y] t IH]; intros acc Hn.
  - cbn [app split_at_line]. rewrite Z.eqb_refl, app_nil_r. reflexivity.
  - cbn [app split_at_line]. cbn [map fst In] in Hn. destruct (k =? ln) eqn:E.
    + apply Z.eqb_eq in E. exfalso; apply Hn; left; exact E.
    + rewrite IH by tauto. cbn [rev]. rewrite <- app_assoc. reflexivity.
Qed.

Lemma split_at_line_incl (A : Type) ln l : forall acc b a,
  split_at_line A ln l acc = (b, a) ->
  (forall x, In x b -> In x acc \/ In x l) /\ (forall x, In x a -> In x l).
Proof.
  induction l as [|[k y] t IH]; intros acc b a H; cbn [split_at_line] in H.
  - injection H as <- <-. split; [|intros x []]. intros x Hx. left. apply in_rev; exact Hx.
  - destruct (k =? ln).
    + injection H as <- <-. split.
      * intros x Hx. left. apply in_rev; exact Hx.
      * intros x Hx. right; exact Hx.
    + destruct (IH _ _ _ H) as [Hb Ha]. split.
      * intros x Hx. destruct (Hb x Hx) as [[Hc|Hc]|Hc]; [right; left; exact Hc | left; exact Hc |
                                                           right; right; exact Hc].
      * intros x Hx. right; apply Ha; exact Hx.
Qed.

Lemma segment_loop_plain A : Forall plain_line A -> forall rest de te data text,
  segment_loop tline tdir_of (A ++ rest) de te data text =
  segment_loop tline tdir_of rest de te data text.
Proof.
  intros HA. induction HA as [|[ln x] t Hx Ht IH]; intros rest de te data text; [reflexivity|].
  cbn [app segment_loop]. unfold plain_line in Hx; cbn [snd] in Hx. rewrite Hx. apply IH.
Qed.

Lemma segment_loop_all_plain A de te data text : Forall plain_line A ->
  segment_loop tline tdir_of A de te data text = POk (data, text).
Proof.
  intros HA. rewrite <- (app_nil_r A). rewrite segment_loop_plain by assumption. reflexivity.
Qed.

Lemma segment_loop_both_err A ln d B data text : Forall plain_line A ->
  segment_loop tline tdir_of (A ++ (ln, TLDirective d) :: B) true true data text =
  PErr (PDirective ln).
Proof.
  intros HA. rewrite segment_loop_plain by assumption. cbn [segment_loop tdir_of].
  destruct (d =? 1); reflexivity.
Qed.

Lemma segment_loop_ok_incl (L : list (Z * tline)) rest : forall de te data text d' t',
  segment_loop tline tdir_of rest de te data text = POk (d', t') ->
  incl data L -> incl text L -> incl d' L /\ incl t' L.
Proof.
  induction rest as [|[ln x] t IH]; intros de te data text d' t' H Hd Ht; cbn [segment_loop] in H.
  - injection H as <- <-. split; assumption.
  - destruct (tdir_of x) as [d|]; [|eapply IH; eassumption].
    destruct (d =? 1).
    + destruct de; [discriminate H|].
      destruct (split_at_line tline ln text []) as [before after] eqn:Es.
      destruct (split_at_line_incl _ _ _ _ _ _ Es) as [Hb Ha].
      eapply IH; [exact H | |].
      * intros y Hy. apply Ht, Ha, Hy.
      * intros y Hy. destruct (Hb y Hy) as [[]|Hc]. apply Ht, Hc.
    + destruct te; [discriminate H|].
      destruct (split_at_line tline ln data []) as [before after] eqn:Es.
      destruct (split_at_line_incl _ _ _ _ _ _ Es) as [Hb Ha].
      eapply IH; [exact H | |].
      * intros y Hy. destruct (Hb y Hy) as [[]|Hc]. apply Hd, Hc.
      * intros y Hy. apply Hd, Ha, Hy.
Qed.

Lemma segment_loop_err rest : forall de te data text e,
  segment_loop tline tdir_of rest de te data text = PErr e ->
  exists ln, e = PDirective ln /\ In ln (map fst rest).
Proof.
  induction rest as [|[ln x] t IH]; intros de te data text e H; cbn [segment_loop] in H;
    [discriminate H|].
  assert (G: forall de1 te1 d1 t1, segment_loop tline tdir_of t de1 te1 d1 t1 = PErr e ->
             exists ln', e = PDirective ln' /\ In ln' (map fst ((ln, x) :: t))).
  { intros de1 te1 d1 t1 Ht. destruct (IH _ _ _ _ _ Ht) as [ln' [He Hin]].
    exists ln'; split; [exact He | right; exact Hin]. }
  destruct (tdir_of x) as [d|]; [|eapply G; exact H].
  destruct (d =? 1).
  - destruct de.
    + injection H as <-. exists ln; split; [reflexivity | left; reflexivity].
    + destruct (split_at_line tline ln text []) as [before after]. eapply G; exact H.
  - destruct te.
    + injection H as <-. exists ln; split; [reflexivity | left; reflexivity].
    + destruct (split_at_line tline ln data []) as [before after]. eapply G; exact H.
Qed.

Lemma segment_unfold p t :
  exists de te data text,
    segment tdir_of (p :: t) = segment_loop tline tdir_of t de te data text /\
    incl data (p :: t) /\ incl text (p :: t).
Proof.
  destruct p as [ln x]. unfold segment.
  assert (Ht: incl t ((ln, x) :: t)) by (intros y Hy; right; exact Hy).
  assert (Hn: incl (@nil (Z * tline)) ((ln, x) :: t)) by (intros y []).
  destruct (tdir_of x) as [[|[q|q|]|q]|].
  all: try (exists false, true, [], t; split; [reflexivity | split; assumption]).
  - exists true, false, t, []; split; [reflexivity | split; assumption].
  - exists false, true, [], ((ln, x) :: t); split; [reflexivity | split; [assumption | apply incl_refl]].
Qed.

Lemma segment_ok_incl toks data text : segment tdir_of toks = POk (data, text) ->
  incl data toks /\ incl text toks.
Proof.
  destruct toks as [|p t].
  - cbn [segment]. intros H; injection H as <- <-. split; apply incl_refl.
  - destruct (segment_unfold p t) as [de [te [d0 [t0 [-> [Hd Ht]]]]]].
    intros H. eapply segment_loop_ok_incl; eassumption.
Qed.

Lemma segment_err size toks e : segment tdir_of toks = PErr e -> err_ok size toks e.
Proof.
  destruct toks as [|p t]; [discriminate|].
  destruct (segment_unfold p t) as [de [te [d0 [t0 [-> _]]]]].
  intros H. destruct (segment_loop_err _ _ _ _ _ _ H) as [ln [-> Hin]].
  cbn [err_ok]. cbn [map]. right; exact Hin.
Qed.

(* the shapes *)
Lemma segment_nil : segment tdir_of [] = POk ([], []).
Proof. reflexivity. Qed.

Lemma segment_data_text a b D T :
  Forall plain_line D -> Forall plain_line T -> ~ In b (map fst D) ->
  segment tdir_of ((a, TLDirective 1) :: D ++ (b, TLDirective 0) :: T) = POk (D, T).
Proof.
  intros HD HT Hb. cbn [segment tdir_of].
  rewrite segment_loop_plain by assumption. cbn [segment_loop tdir_of].
  change (0 =? 1) with false. cbv iota.
  rewrite split_at_line_found by assumption. cbn [rev app].
  apply segment_loop_all_plain; assumption.
Qed.

Lemma segment_text_data c d D T :
  Forall plain_line D -> Forall plain_line T -> ~ In d (map fst T) ->
  segment tdir_of ((c, TLDirective 0) :: T ++ (d, TLDirective 1) :: D) = POk (D, T).
Proof.
  intros HD HT Hd. cbn [segment tdir_of].
  rewrite segment_loop_plain by assumption. cbn [segment_loop tdir_of].
  change (1 =? 1) with true. cbv iota.
  rewrite split_at_line_found by assumption. cbn [rev app].
  apply segment_loop_all_plain; assumption.
Qed.

Lemma segment_only_data a D : Forall plain_line D ->
  segment tdir_of ((a, TLDirective 1) :: D) = POk (D, []).
Proof. intros HD. cbn [segment tdir_of]. apply segment_loop_all_plain; assumption. Qed.

Lemma segment_only_text c T : Forall plain_line T ->
  segment tdir_of ((c, TLDirective 0) :: T) = POk ([], T).
Proof. intros HT. cbn [segment tdir_of]. apply segment_loop_all_plain; assumption. Qed.

Lemma segment_undirected T : Forall plain_line T -> segment tdir_of T = POk ([], T).
Proof.
  intros HT. destruct T as [|[ln x] t]; [reflexivity|].
  inversion HT as [|? ? Hx Ht]; subst. unfold plain_line in Hx; cbn [snd] in Hx.
  unfold segment. rewrite Hx. apply segment_loop_all_plain; assumption.
Qed.

Lemma segment_undirected_data p T d D :
  Forall plain_line (p :: T) -> Forall plain_line D -> ~ In d (map fst (p :: T)) ->
  segment tdir_of (p :: T ++ (d, TLDirective 1) :: D) = POk (D, p :: T).
Proof.
  intros HT HD Hd. destruct p as [ln x].
  inversion HT as [|? ? Hx Ht]; subst. unfold plain_line in Hx; cbn [snd] in Hx.
  unfold segment. rewrite Hx.
  rewrite segment_loop_plain by assumption. cbn [segment_loop tdir_of].
  change (1 =? 1) with true. cbv iota.
  change ((ln, x) :: T ++ (d, TLDirective 1) :: D) with (((ln, x) :: T) ++ (d, TLDirective 1) :: D).
  rewrite split_at_line_found by assumption. cbn [rev app].
  apply segment_loop_all_plain; assumption.
Qed.

Lemma segment_second_data a A ln B : Forall plain_line A ->
  segment tdir_of ((a, TLDirective 1) :: A ++ (ln, TLDirective 1) :: B) = PErr (PDirective ln).
Proof.
  intros HA. cbn [segment tdir_of]. rewrite segment_loop_plain by assumption.
  cbn [segment_loop tdir_of]. reflexivity.
Qed.

Lemma segment_second_text c A ln B : Forall plain_line A ->
  segment tdir_of ((c, TLDirective 0) :: A ++ (ln, TLDirective 0) :: B) = PErr (PDirective ln).
Proof.
  intros HA. cbn [segment tdir_of]. rewrite segment_loop_plain by assumption.
  cbn [segment_loop tdir_of]. reflexivity.
Qed.

Lemma segment_text_after_undirected p A ln B : Forall plain_line (p :: A) ->
  segment tdir_of (p :: A ++ (ln, TLDirective 0) :: B) = PErr (PDirective ln).
Proof.
  intros HA. destruct p as [k x].
  inversion HA as [|? ? Hx Ht]; subst. unfold plain_line in Hx; cbn [snd] in Hx.
  unfold segment. rewrite Hx. rewrite segment_loop_plain by assumption.
  cbn [segment_loop tdir_of]. reflexivity.
Qed.

Lemma segment_third_directive_dt a b D T ln d B :
  Forall plain_line D -> Forall plain_line T -> ~ In b (map fst D) ->
  segment tdir_of ((a, TLDirective 1) :: D ++ (b, TLDirective 0) :: T ++ (ln, TLDirective d) :: B)
  = PErr (PDirective ln).
Proof.
  intros HD HT Hb. cbn [segment tdir_of].
  rewrite segment_loop_plain by assumption. cbn [segment_loop tdir_of].
  change (0 =? 1) with false. cbv iota.
  rewrite split_at_line_found by assumption. cbn [rev app].
  apply segment_loop_both_err; assumption.
Qed.

Lemma segment_third_directive_td c d0 D T ln d B :
  Forall plain_line D -> Forall plain_line T -> ~ In d0 (map fst T) ->
  segment tdir_of ((c, TLDirective 0) :: T ++ (d0, TLDirective 1) :: D ++ (ln, TLDirective d) :: B)
  = PErr (PDirective ln).
Proof.
  intros HD HT Hd. cbn [segment tdir_of].
  rewrite segment_loop_plain by assumption. cbn [segment_loop tdir_of].
  change (1 =? 1) with true. cbv iota.
  rewrite split_at_line_found by assumption. cbn [rev app].
  apply segment_loop_both_err; assumption.
Qed.

(** * toy_load *)

Definition toy_final (s : tstate) (ins : list tinstr) (m' : zmap) : tstate :=
  {| t_pc := 1; t_accu := 0; t_mem := m'; t_size := t_size s;
     t_loaded := match ins with i :: _ => Some i | [] => None end;
     t_maxpc := Some (Z.of_nat (length ins) - 1); t_cur := None; t_next := 0;
     t_vis := match ins with
              | i :: _ => {| v_accu_old := None; v_alu_out := None; v_jump := false;
                             v_ram_out := Some (U16 (toy_encode i));
                             v_op_old := None; v_pc_old := Some 0 |}
              | [] => vis0
              end;
     t_icount := 0; t_cycles := 0; t_bcount := 0;
     t_nextcycle := t_nextcycle s; t_started := t_started s |}.

Definition toy_fresh (s : tstate) (m : zmap) : tstate :=
  {| t_pc := 1; t_accu := 0; t_mem := m; t_size := t_size s; t_loaded := None; t_maxpc := None;
     t_cur := None; t_next := 0; t_vis := vis0; t_icount := 0; t_cycles := 0; t_bcount := 0;
     t_nextcycle := t_nextcycle s; t_started := t_started s |}.

Lemma toy_load_unfold s toks :
  toy_load s toks =
  let size := t_size s in
  let c := toy_memcfg size in
  match segment tdir_of toks with
  | PErr e => (toy_fresh s [], Some e)
  | POk (data, text) =>
      match toy_labels toks 0 [] with
      | PErr e => (toy_fresh s [], Some e)
      | POk labels =>
          match toy_write_data c data (size - 1) labels [] with
          | PErr e => (toy_fresh s [], Some e)
          | POk (last, labels', m) =>
              match toy_instantiate text labels' with
              | PErr e => (toy_fresh s m, Some e)
              | POk ins =>
                  if Z.of_nat (length ins) - 1 >? last then (toy_fresh s m, Some (PMemSize size))
                  else match toy_write_instrs c m 0 ins with
                       | PErr e => (toy_fresh s m, Some e)
                       | POk m' => (toy_final s ins m', None)
                       end
              end
          end
      end
  end.
Proof. reflexivity. Qed.

Definition stages (size : Z) (toks data text : list (Z * tline)) (labels : zmap)
           (ins : list tinstr) (last : Z) (m : zmap) : Prop :=
  exists labels0,
    segment tdir_of toks = POk (data, text) /\
    toy_labels toks 0 [] = POk labels0 /\
    toy_write_data (toy_memcfg size) data (size - 1) labels0 [] = POk (last, labels, m) /\
    toy_instantiate text labels = POk ins.

Lemma toy_parse_stages size toks data text labels ins :
  toy_parse size toks = Some (data, text, labels, ins) <->
  exists last m, stages size toks data text labels ins last m.
Proof.
  unfold toy_parse, stages. split.
  - destruct (segment tdir_of toks) as [[d t]|e] eqn:Es; [|discriminate].
    destruct (toy_labels toks 0 []) as [lb0|e] eqn:El; [|discriminate].
    destruct (toy_write_data (toy_memcfg size) d (size - 1) lb0 []) as [[[last lb] m]|e] eqn:Ew;
      [|discriminate].
    destruct (toy_instantiate t lb) as [r|e] eqn:Ei; [|discriminate].
    intros H; injection H as <- <- <- <-.
    exists last, m, lb0. repeat split; assumption.
  - intros [last [m [lb0 [Hs [Hl [Hw Hi]]]]]]. rewrite Hs, Hl, Hw, Hi. reflexivity.
Qed.

Lemma toy_load_ok_iff s toks s' :
  toy_load s toks = (s', None) <->
  exists data text labels ins last m m',
    stages (t_size s) toks data text labels ins last m /\
    Z.of_nat (length ins) - 1 <= last /\
    toy_write_instrs (toy_memcfg (t_size s)) m 0 ins = POk m' /\
    s' = toy_final s ins m'.
Proof.
  rewrite toy_load_unfold. cbv zeta. unfold stages. split.
  - destruct (segment tdir_of toks) as [[d t]|e] eqn:Es; [|discriminate].
    destruct (toy_labels toks 0 []) as [lb0|e] eqn:El; [|discriminate].
    destruct (toy_write_data (toy_memcfg (t_size s)) d (t_size s - 1) lb0 [])
      as [[[last lb] m]|e] eqn:Ew; [|discriminate].
    destruct (toy_instantiate t lb) as [r|e] eqn:Ei; [|discriminate].
    destruct (Z.of_nat (length r) - 1 >? last) eqn:Eg; [discriminate|].
    destruct (toy_write_instrs (toy_memcfg (t_size s)) m 0 r) as [m'|e] eqn:Ewi; [|discriminate].
    intros H; injection H as <-.
    exists d, t, lb, r, last, m, m'. split; [exists lb0; repeat split; assumption|].
    split; [lia|]. split; [exact Ewi | reflexivity].
  - intros [d [t [lb [r [last [m [m' [[lb0 [Hs [Hl [Hw Hi]]]] [Hle [Hwi ->]]]]]]]]]].
    rewrite Hs, Hl, Hw, Hi. destruct (Z.of_nat (length r) - 1 >? last) eqn:Eg; [lia|].
    rewrite Hwi. reflexivity.
Qed.

Lemma toy_load_err s toks s' e : toy_load s toks = (s', Some e) -> err_ok (t_size s) toks e.
Proof.
  rewrite toy_load_unfold. cbv zeta.
  destruct (segment tdir_of toks) as [[d t]|e1] eqn:Es.
  2:{ intros H; injection H as _ <-. apply segment_err; exact Es. }
  destruct (segment_ok_incl _ _ _ Es) as [Hd Ht].
  destruct (toy_labels toks 0 []) as [lb0|e1] eqn:El.
  2:{ intros H; injection H as _ <-. destruct (toy_labels_err _ _ _ _ El) as [ln [-> Hin]].
      exact Hin. }
  destruct (toy_write_data (toy_memcfg (t_size s)) d (t_size s - 1) lb0 [])
    as [[[last lb] m]|e1] eqn:Ew.
  2:{ intros H; injection H as _ <-. eapply err_ok_incl; [exact Hd|].
      eapply write_data_err; [|exact Ew]. lia. }
  destruct (toy_instantiate t lb) as [r|e1] eqn:Ei.
  2:{ intros H; injection H as _ <-. eapply err_ok_incl; [exact Ht|]. eapply instantiate_err; exact Ei. }
  destruct (Z.of_nat (length r) - 1 >? last) eqn:Eg.
  { intros H; injection H as _ <-. reflexivity. }
  destruct (toy_write_instrs (toy_memcfg (t_size s)) m 0 r) as [m'|e1] eqn:Ewi; [discriminate|].
  intros _. exfalso. destruct (write_data_spec _ _ _ _ _ _ _ _ Ew) as [Dl _].
  assert (Ha1: 0 <= 0) by lia.
  assert (Hb1: 0 + Z.of_nat (length r) <= t_size s) by lia.
  exact (write_instrs_err _ _ _ _ _ Ha1 Hb1 Ewi).
Qed.

(** * 6. Error typing *)

Lemma toy_load_outcomes_lem : forall s toks s' e, toy_load s toks = (s', Some e) ->
  (forall ln, perr_line e = Some ln -> In ln (map fst toks)) /\
  (match e with POdd _ | PVariable _ | PDataDup _ | PMemAddr _ => False
           | PMemSize w => w = t_size s | _ => True end) /\
  (forall ln, e = PSyntax ln ->
     exists x lit, In (ln, x) toks /\ In lit (line_literals x) /\ long_decimal lit) /\
  (forall ln, e = PUncaught ln ->
     exists inl op, In (ln, TLInstr inl op TNoOperand) toks /\ is_address_type op = true).
Proof.
  intros s toks s' e H. apply toy_load_err in H.
  assert (Hfst: forall ln x, In (ln, x) toks -> In ln (map fst toks)).
  { intros ln x Hin. apply in_map_iff. exists (ln, x); split; [reflexivity | exact Hin]. }
  split; [|split; [|split]].
  - intros ln Hl. destruct e; cbn [perr_line] in Hl; try discriminate Hl;
      injection Hl as <-; cbn [err_ok] in H; try contradiction; try exact H.
    all: destruct H as [x [Hin _]]; eapply Hfst; exact Hin.
  - destruct e; cbn [err_ok] in H; try contradiction; try exact Logic.I. exact H.
  - intros ln ->. cbn [err_ok] in H. destruct H as [x [Hin [lit [Hl Hlong]]]].
    exists x, lit. split; [exact Hin | split; [exact Hl | exact Hlong]].
  - intros ln ->. cbn [err_ok] in H. destruct H as [x [Hin [inl [op [-> Hat]]]]].
    exists inl, op. split; [exact Hin | exact Hat].
Qed.

(* with the tokenizer's guarantee, nothing but parser errors comes out of the loader *)
Lemma toy_load_no_uncaught_lem : forall s toks s' e, tokens_wf toks ->
  toy_load s toks = (s', Some e) -> forall ln, e <> PUncaught ln.
Proof.
  intros s toks s' e Hwf H ln He.
  destruct (toy_load_outcomes_lem _ _ _ _ H) as [_ [_ [_ Hu]]].
  destruct (Hu ln He) as [inl [op [Hin Hat]]].
  rewrite (Hwf _ _ _ Hin) in Hat. discriminate Hat.
Qed.

(** * 5. Layout of a successfully assembled program *)

Lemma built_encode_mod i : built i -> toy_encode i mod 65536 = toy_encode i.
Proof. intros [op [a ->]]. pose proof (mk_tinstr_encode_range op a). lia. Qed.

(* cells at or below the final "last unused" address are not touched by the data pass *)
Lemma write_data_low size data : forall last labels m last' labels' m',
  toy_write_data (toy_memcfg size) data last labels m = POk (last', labels', m') ->
  forall k, k <= last - Z.of_nat (nvals data) -> mget m' k = mget m k.
Proof.
  induction data as [|[ln0 x0] t IH]; intros last labels m last' labels' m' H k Hk.
  - cbn [toy_write_data] in H. injection H as <- <- <-. reflexivity.
  - cbn [toy_write_data] in H.
    destruct x0 as [d|name0 vals0|inl op opnd|name0]; try discriminate H.
    destruct (last - Z.of_nat (length vals0) + 1 <? 0) eqn:Eneg; [discriminate H|].
    destruct (add_label labels name0 (last - Z.of_nat (length vals0) + 1) ln0) as [lb1|e1] eqn:Ea;
      [|discriminate H].
    destruct (toy_write_vals (toy_memcfg size) m (last - Z.of_nat (length vals0) + 1) vals0 ln0)
      as [m1|e1] eqn:Ew; [|discriminate H].
    destruct (write_vals_spec _ _ _ _ _ _ Ew) as [_ [Wf _]].
    cbn [nvals] in Hk.
    rewrite (IH _ _ _ _ _ _ H k) by lia. apply Wf. lia.
Qed.

Lemma toy_load_ok_parse s toks s' data text labels ins :
  toy_load s toks = (s', None) ->
  toy_parse (t_size s) toks = Some (data, text, labels, ins) ->
  exists last m m',
    stages (t_size s) toks data text labels ins last m /\
    Z.of_nat (length ins) - 1 <= last /\
    toy_write_instrs (toy_memcfg (t_size s)) m 0 ins = POk m' /\
    s' = toy_final s ins m'.
Proof.
  intros H Hp.
  apply toy_load_ok_iff in H as [d [t [lb [r [last [m [m' [Hst [Hle [Hwi ->]]]]]]]]]].
  assert (Hp': toy_parse (t_size s) toks = Some (d, t, lb, r))
    by (apply toy_parse_stages; exists last, m; exact Hst).
  rewrite Hp in Hp'. injection Hp' as -> -> -> ->.
  exists last, m, m'. repeat split; assumption.
Qed.

Lemma toy_assemble_layout_lem : forall s toks s', toy_load s toks = (s', None) ->
  exists data text labels ins,
    toy_parse (t_size s) toks = Some (data, text, labels, ins) /\
    length ins = ninstr text /\
    (forall i, (i < length ins)%nat ->
       mget (t_mem s') (Z.of_nat i) = toy_encode (nth i ins nop)) /\
    Z.of_nat (length ins) + Z.of_nat (nvals data) <= t_size s /\
    (forall k, Z.of_nat (length ins) <= k < t_size s - Z.of_nat (nvals data) ->
       mget (t_mem s') k = 0) /\
    t_maxpc s' = Some (Z.of_nat (length ins) - 1) /\
    t_loaded s' = hd_error ins /\
    t_pc s' = 1 /\ t_accu s' = 0 /\ t_icount s' = 0 /\ t_cycles s' = 0 /\ t_bcount s' = 0 /\
    t_cur s' = None /\ t_next s' = 0 /\
    t_size s' = t_size s /\ t_nextcycle s' = t_nextcycle s /\ t_started s' = t_started s.
Proof.
  intros s toks s' H.
  apply toy_load_ok_iff in H as [d [t [lb [r [last [m [m' [Hst [Hle [Hwi ->]]]]]]]]]].
  exists d, t, lb, r.
  split; [apply toy_parse_stages; exists last, m; exact Hst|].
  destruct Hst as [lb0 [Hs [Hl [Hw Hi]]]].
  destruct (instantiate_spec _ _ _ Hi) as [Ilen [Ib _]].
  destruct (write_instrs_spec _ _ _ _ _ Hwi) as [Wv Wf].
  destruct (write_data_spec _ _ _ _ _ _ _ _ Hw) as [Dl _].
  cbn [toy_final t_mem t_maxpc t_loaded t_pc t_accu t_icount t_cycles t_bcount t_cur t_next
       t_size t_nextcycle t_started].
  split; [exact Ilen|]. split.
  { intros i Hi'. replace (Z.of_nat i) with (0 + Z.of_nat i) by lia. rewrite (Wv i Hi').
    apply built_encode_mod. rewrite Forall_forall in Ib. apply Ib. apply nth_In; exact Hi'. }
  split; [lia|]. split.
  { intros k Hk. rewrite Wf by lia.
    rewrite (write_data_low _ _ _ _ _ _ _ _ Hw k) by lia. reflexivity. }
  repeat split; reflexivity.
Qed.

Lemma toy_data_layout_lem : forall s toks s' data text labels ins,
  toy_load s toks = (s', None) ->
  toy_parse (t_size s) toks = Some (data, text, labels, ins) ->
  Forall var_line data /\
  forall pre ln name vals post, data = pre ++ (ln, TLVar name vals) :: post ->
    let start := t_size s - Z.of_nat (nvals pre + length vals) in
    Z.of_nat (length ins) <= start /\
    mget_opt labels name = Some start /\
    forall j, (j < length vals)%nat ->
      exists z, toy_value (nth j vals []) = Some z /\
                mget (t_mem s') (start + Z.of_nat j) = z mod 65536.
Proof.
  intros s toks s' data text labels ins H Hp.
  destruct (toy_load_ok_parse _ _ _ _ _ _ _ H Hp) as [last [m [m' [Hst [Hle [Hwi ->]]]]]].
  destruct Hst as [lb0 [Hs [Hl [Hw Hi]]]].
  destruct (write_instrs_spec _ _ _ _ _ Hwi) as [_ Wf].
  destruct (write_data_spec _ _ _ _ _ _ _ _ Hw) as [Dl [DF [_ [_ [_ Dv]]]]].
  split; [exact DF|].
  intros pre ln name vals post Hd. cbv zeta.
  destruct (Dv _ _ _ _ _ Hd) as [Dlab Dcells]. cbv zeta in Dlab, Dcells.
  replace (t_size s - 1 + 1 - Z.of_nat (nvals pre + length vals))
    with (t_size s - Z.of_nat (nvals pre + length vals)) in * by lia.
  assert (Hn: nvals data = (nvals pre + length vals + nvals post)%nat).
  { rewrite Hd, nvals_app, (nvals_cons _ post). cbn [nvals]. lia. }
  split; [lia|]. split; [exact Dlab|].
  intros j Hj. destruct (Dcells j Hj) as [z [Hz Hm]]. exists z; split; [exact Hz|].
  cbn [toy_final t_mem]. rewrite Wf by lia. exact Hm.
Qed.

Lemma toy_labels_resolve_lem : forall size toks data text labels ins,
  toy_parse size toks = Some (data, text, labels, ins) ->
  (forall pre ln x post name, toks = pre ++ (ln, x) :: post -> declares_label x name ->
     mget_opt labels name = Some (Z.of_nat (ninstr pre))) /\
  (forall pre ln name vals post, data = pre ++ (ln, TLVar name vals) :: post ->
     mget_opt labels name = Some (size - Z.of_nat (nvals pre + length vals))) /\
  (forall pre ln inl op opnd post, text = pre ++ (ln, TLInstr inl op opnd) :: post ->
     instr_denotes labels op opnd (nth (ninstr pre) ins nop)) /\
  length ins = ninstr text.
Proof.
  intros size toks data text labels ins Hp.
  apply toy_parse_stages in Hp as [last [m [lb0 [Hs [Hl [Hw Hi]]]]]].
  destruct (toy_labels_spec _ _ _ _ Hl) as [_ Ll].
  destruct (write_data_spec _ _ _ _ _ _ _ _ Hw) as [_ [_ [_ [_ [De Dv]]]]].
  destruct (instantiate_spec _ _ _ Hi) as [Ilen [_ [_ Id]]].
  split; [|split; [|split]].
  - intros pre ln x post name Ht Hd. apply De. rewrite (Ll _ _ _ _ _ Ht Hd). f_equal; lia.
  - intros pre ln name vals post Hd. destruct (Dv _ _ _ _ _ Hd) as [Dlab _]. cbv zeta in Dlab.
    rewrite Dlab. f_equal; lia.
  - exact Id.
  - exact Ilen.
Qed.

(* an address-type instruction whose operand is a label or a variable name gets that address,
   wherever the declaration stands (before or after the instruction, in either segment) *)
Lemma toy_label_operand_lem : forall size toks data text labels ins,
  toy_parse size toks = Some (data, text, labels, ins) ->
  forall preI lnI inl op l postI, text = preI ++ (lnI, TLInstr inl op (TLabel l)) :: postI ->
    is_address_type op = true ->
    (forall preL ln x postL, toks = preL ++ (ln, x) :: postL -> declares_label x l ->
       nth (ninstr preI) ins nop = mk_tinstr op (Z.of_nat (ninstr preL))) /\
    (forall preV ln vals postV, data = preV ++ (ln, TLVar l vals) :: postV ->
       nth (ninstr preI) ins nop = mk_tinstr op (size - Z.of_nat (nvals preV + length vals))).
Proof.
  intros size toks data text labels ins Hp preI lnI inl op l postI Ht Hat.
  destruct (toy_labels_resolve_lem _ _ _ _ _ _ Hp) as [Rl [Rv [Ri _]]].
  specialize (Ri _ _ _ _ _ _ Ht). unfold instr_denotes in Ri. rewrite Hat in Ri.
  destruct Ri as [a [Ha ->]]. split.
  - intros preL ln x postL Hl Hd. rewrite (Rl _ _ _ _ _ Hl Hd) in Ha. injection Ha as <-. reflexivity.
  - intros preV ln vals postV Hd. rewrite (Rv _ _ _ _ _ Hd) in Ha. injection Ha as <-. reflexivity.
Qed.

(* conversely, a program that loads has no oversized decimal literal in a data line or as the
   operand of an address-type instruction *)
Lemma toy_load_ok_literals_lem : forall s toks s' data text labels ins,
  toy_load s toks = (s', None) ->
  toy_parse (t_size s) toks = Some (data, text, labels, ins) ->
  (forall ln name vals lit, In (ln, TLVar name vals) data -> In lit vals -> ~ long_decimal lit) /\
  (forall ln inl op lit, In (ln, TLInstr inl op (TAddrLit lit)) text -> is_address_type op = true ->
     ~ long_decimal lit).
Proof.
  intros s toks s' data text labels ins H Hp.
  destruct (toy_data_layout_lem _ _ _ _ _ _ _ H Hp) as [_ Dv].
  destruct (toy_labels_resolve_lem _ _ _ _ _ _ Hp) as [_ [_ [Ri _]]].
  split.
  - intros ln name vals lit Hin Hlit Hlong.
    apply in_split in Hin as [pre [post Hd]].
    destruct (Dv _ _ _ _ _ Hd) as [_ [_ Dc]].
    apply (In_nth _ _ []) in Hlit as [j [Hj Hn]].
    destruct (Dc j Hj) as [z [Hz _]].
    assert (Hz': toy_value lit = Some z) by (rewrite <- Hn; exact Hz).
    apply toy_value_none_iff in Hlong. rewrite Hlong in Hz'. discriminate Hz'.
  - intros ln inl op lit Hin Hat Hlong.
    apply in_split in Hin as [pre [post Ht]].
    specialize (Ri _ _ _ _ _ _ Ht). unfold instr_denotes in Ri. rewrite Hat in Ri.
    destruct Ri as [z [Hz _]].
    apply toy_value_none_iff in Hlong. rewrite Hlong in Hz. discriminate Hz.
Qed.

(** ** Segment order *)

Lemma stages_transfer size toks toks' D T D' T' lb ins last m :
  stages size toks D T lb ins last m ->
  segment tdir_of toks' = POk (D', T') ->
  map snd D = map snd D' -> map snd T = map snd T' ->
  (forall r, toy_labels toks 0 [] = POk r -> toy_labels toks' 0 [] = POk r) ->
  stages size toks' D' T' lb ins last m.
Proof.
  intros [lb0 [Hs [Hl [Hw Hi]]]] Hs' HD HT Hlab. exists lb0.
  split; [exact Hs'|]. split; [apply Hlab; exact Hl|].
  split; [eapply write_data_erase; eassumption | eapply instantiate_erase; eassumption].
Qed.

(* two token lists that denote the same program: same data lines and same text lines up to
   line numbers, same label pass *)
Definition same_program (toks toks' : list (Z * tline)) : Prop :=
  exists D T D' T',
    segment tdir_of toks = POk (D, T) /\ segment tdir_of toks' = POk (D', T') /\
    map snd D = map snd D' /\ map snd T = map snd T' /\
    forall r, toy_labels toks 0 [] = POk r <-> toy_labels toks' 0 [] = POk r.

Lemma same_program_sym a b : same_program a b -> same_program b a.
Proof.
  intros [D [T [D' [T' [Hs [Hs' [HD [HT Hl]]]]]]]]. exists D', T', D, T.
  repeat split; try assumption; try (symmetry; assumption); apply Hl.
Qed.

Lemma same_program_load_imp s toks toks' : same_program toks toks' ->
  forall s', toy_load s toks = (s', None) -> toy_load s toks' = (s', None).
Proof.
  intros [D [T [D' [T' [Hs [Hs' [HD [HT Hlab]]]]]]]] s' H.
  apply toy_load_ok_iff in H as [d [t [lb [r [last [m [m' [Hst [Hle [Hwi ->]]]]]]]]]].
  apply toy_load_ok_iff.
  assert (Hdt: d = D /\ t = T).
  { destruct Hst as [lb0 [Hs0 _]]. rewrite Hs in Hs0. injection Hs0 as <- <-. split; reflexivity. }
  destruct Hdt as [-> ->].
  exists D', T', lb, r, last, m, m'. split.
  - eapply stages_transfer; try eassumption. intros r0 Hr0; apply Hlab; exact Hr0.
  - repeat split; assumption.
Qed.

Lemma same_program_parse_imp size toks toks' : same_program toks toks' ->
  forall lb ins, (exists d t, toy_parse size toks = Some (d, t, lb, ins)) ->
                 (exists d t, toy_parse size toks' = Some (d, t, lb, ins)).
Proof.
  intros [D [T [D' [T' [Hs [Hs' [HD [HT Hlab]]]]]]]] lb ins [d [t Hp]].
  apply toy_parse_stages in Hp as [last [m Hst]].
  assert (Hdt: d = D /\ t = T).
  { destruct Hst as [lb0 [Hs0 _]]. rewrite Hs in Hs0. injection Hs0 as <- <-. split; reflexivity. }
  destruct Hdt as [-> ->].
  exists D', T'. apply toy_parse_stages. exists last, m.
  eapply stages_transfer; try eassumption. intros r0 Hr0; apply Hlab; exact Hr0.
Qed.

Lemma same_program_consequences s toks toks' : same_program toks toks' ->
  (forall s', toy_load s toks = (s', None) <-> toy_load s toks' = (s', None)) /\
  (forall size lb ins, (exists d t, toy_parse size toks = Some (d, t, lb, ins)) <->
                       (exists d t, toy_parse size toks' = Some (d, t, lb, ins))).
Proof.
  intros Hsp. pose proof (same_program_sym _ _ Hsp) as Hsp'. split.
  - intros s'. split; apply same_program_load_imp; assumption.
  - intros size lb ins. split; apply same_program_parse_imp; assumption.
Qed.

Lemma Forall_snd_transfer (P : tline -> Prop) l : forall l', map snd l = map snd l' ->
  Forall (fun x : Z * tline => P (snd x)) l -> Forall (fun x : Z * tline => P (snd x)) l'.
Proof.
  induction l as [|x t IH]; intros [|x' t'] Hm HF; try discriminate Hm; [constructor|].
  cbn [map] in Hm. injection Hm as Hx Ht. inversion HF as [|? ? Hp Hr]; subst.
  constructor; [rewrite <- Hx; exact Hp | apply IH; assumption].
Qed.

Lemma var_line_transfer l l' : map snd l = map snd l' -> Forall var_line l -> Forall var_line l'.
Proof. apply (Forall_snd_transfer (fun y => exists name vals, y = TLVar name vals)). Qed.
Lemma code_line_transfer l l' : map snd l = map snd l' -> Forall code_line l -> Forall code_line l'.
Proof.
  apply (Forall_snd_transfer (fun y => (exists name, y = TLLabel name) \/
                                       (exists inl op opnd, y = TLInstr inl op opnd))).
Qed.

Lemma var_line_plain x : var_line x -> plain_line x.
Proof. intros [name [vals Hx]]. unfold plain_line. rewrite Hx. reflexivity. Qed.
Lemma var_line_quiet x : var_line x -> quiet_line x.
Proof. intros [name [vals Hx]]. unfold quiet_line. rewrite Hx. exact Logic.I. Qed.
Lemma code_line_plain x : code_line x -> plain_line x.
Proof.
  intros [[name Hx]|[inl [op [opnd Hx]]]]; unfold plain_line; rewrite Hx; reflexivity.
Qed.

Lemma toy_labels_erase_iff l l' pcv lb : map snd l = map snd l' ->
  forall r, toy_labels l pcv lb = POk r <-> toy_labels l' pcv lb = POk r.
Proof.
  intros Hm r. split; apply toy_labels_erase; [exact Hm | symmetry; exact Hm].
Qed.

Lemma labels_data_text a b D T : Forall var_line D ->
  toy_labels ((a, TLDirective 1) :: D ++ (b, TLDirective 0) :: T) 0 [] = toy_labels T 0 [].
Proof.
  intros HD. cbn [toy_labels]. rewrite toy_labels_skip_front.
  - reflexivity.
  - eapply Forall_impl; [|exact HD]. exact var_line_quiet.
Qed.

Lemma labels_text_data c d D T : Forall var_line D ->
  toy_labels ((c, TLDirective 0) :: T ++ (d, TLDirective 1) :: D) 0 [] = toy_labels T 0 [].
Proof.
  intros HD. cbn [toy_labels]. apply toy_labels_skip_back.
  constructor; [exact Logic.I|]. eapply Forall_impl; [|exact HD]. exact var_line_quiet.
Qed.

Lemma segment_order_same_program : forall a b c d D1 T1 D2 T2,
  Forall var_line D1 -> Forall code_line T1 ->
  map snd D1 = map snd D2 -> map snd T1 = map snd T2 ->
  ~ In b (map fst D1) -> ~ In d (map fst T2) ->
  same_program ((a, TLDirective 1) :: D1 ++ (b, TLDirective 0) :: T1)
               ((c, TLDirective 0) :: T2 ++ (d, TLDirective 1) :: D2).
Proof.
  intros a b c d D1 T1 D2 T2 HD1 HT1 HD HT Hb Hd.
  pose proof (var_line_transfer _ _ HD HD1) as HD2.
  pose proof (code_line_transfer _ _ HT HT1) as HT2.
  exists D1, T1, D2, T2.
  split; [apply segment_data_text; try assumption;
          eapply Forall_impl; try eassumption; [exact var_line_plain | exact code_line_plain]|].
  split; [apply segment_text_data; try assumption;
          eapply Forall_impl; try eassumption; [exact var_line_plain | exact code_line_plain]|].
  split; [exact HD|]. split; [exact HT|].
  intros r. rewrite labels_data_text, labels_text_data by assumption.
  apply toy_labels_erase_iff; exact HT.
Qed.

Lemma segment_order_plain_same_program : forall a b T1 T3,
  Forall code_line T1 -> map snd T1 = map snd T3 ->
  same_program ((a, TLDirective 1) :: [] ++ (b, TLDirective 0) :: T1) T3.
Proof.
  intros a b T1 T3 HT1 HT.
  pose proof (code_line_transfer _ _ HT HT1) as HT3.
  exists [], T1, [], T3.
  split; [apply segment_data_text; [constructor | | intros []];
          eapply Forall_impl; try eassumption; exact code_line_plain|].
  split; [apply segment_undirected; eapply Forall_impl; try eassumption; exact code_line_plain|].
  split; [reflexivity|]. split; [exact HT|].
  intros r. rewrite labels_data_text by constructor.
  apply toy_labels_erase_iff; exact HT.
Qed.

Lemma segment_order_irrelevant_lem : forall s a b c d D1 T1 D2 T2,
  Forall var_line D1 -> Forall code_line T1 ->
  map snd D1 = map snd D2 -> map snd T1 = map snd T2 ->
  ~ In b (map fst D1) -> ~ In d (map fst T2) ->
  let L1 := (a, TLDirective 1) :: D1 ++ (b, TLDirective 0) :: T1 in
  let L2 := (c, TLDirective 0) :: T2 ++ (d, TLDirective 1) :: D2 in
  (forall s', toy_load s L1 = (s', None) <-> toy_load s L2 = (s', None)) /\
  (forall size lb ins, (exists dt tx, toy_parse size L1 = Some (dt, tx, lb, ins)) <->
                       (exists dt tx, toy_parse size L2 = Some (dt, tx, lb, ins))).
Proof.
  intros s a b c d D1 T1 D2 T2 HD1 HT1 HD HT Hb Hd. cbv zeta.
  apply same_program_consequences. apply segment_order_same_program; assumption.
Qed.

Lemma segment_order_plain_lem : forall s a b T1 T3,
  Forall code_line T1 -> map snd T1 = map snd T3 ->
  let L1 := (a, TLDirective 1) :: (b, TLDirective 0) :: T1 in
  (forall s', toy_load s L1 = (s', None) <-> toy_load s T3 = (s', None)) /\
  (forall size lb ins, (exists dt tx, toy_parse size L1 = Some (dt, tx, lb, ins)) <->
                       (exists dt tx, toy_parse size T3 = Some (dt, tx, lb, ins))).
Proof.
  intros s a b T1 T3 HT1 HT. cbv zeta.
  apply same_program_consequences. apply (segment_order_plain_same_program a b T1 T3); assumption.
Qed.

(* data lines hold no instructions: a label's value, counted over the whole token list, is its
   instruction index inside the text block, whatever the order of the segments *)
Lemma ninstr_var_lines D : Forall var_line D -> ninstr D = O.
Proof.
  intros HD. induction HD as [|[ln x] t [name [vals Hx]] Ht IH]; [reflexivity|].
  cbn [snd] in Hx. subst x. cbn [ninstr]. exact IH.
Qed.

Lemma ninstr_shapes_lem : forall a b D pre, Forall var_line D ->
  ninstr ((a, TLDirective 1) :: D ++ (b, TLDirective 0) :: pre) = ninstr pre /\
  ninstr ((a, TLDirective 0) :: pre) = ninstr pre /\
  (forall post, ninstr ((a, TLDirective 0) :: (pre ++ post) ++ (b, TLDirective 1) :: D)
                = ninstr (pre ++ post)).
Proof.
  intros a b D pre HD. split; [|split].
  - cbn [ninstr]. rewrite ninstr_app. cbn [ninstr]. rewrite (ninstr_var_lines D) by assumption. lia.
  - reflexivity.
  - intros post. cbn [ninstr]. rewrite (ninstr_app (pre ++ post)). cbn [ninstr].
    rewrite (ninstr_var_lines D) by assumption. lia.
Qed.

(** ** segment_spec *)

Lemma segment_spec_lem :
  (* shapes that are accepted *)
  segment tdir_of [] = POk ([], []) /\
  (forall T, Forall plain_line T -> segment tdir_of T = POk ([], T)) /\
  (forall c T, Forall plain_line T -> segment tdir_of ((c, TLDirective 0) :: T) = POk ([], T)) /\
  (forall a D, Forall plain_line D -> segment tdir_of ((a, TLDirective 1) :: D) = POk (D, [])) /\
  (forall a b D T, Forall plain_line D -> Forall plain_line T -> ~ In b (map fst D) ->
     segment tdir_of ((a, TLDirective 1) :: D ++ (b, TLDirective 0) :: T) = POk (D, T)) /\
  (forall c d D T, Forall plain_line D -> Forall plain_line T -> ~ In d (map fst T) ->
     segment tdir_of ((c, TLDirective 0) :: T ++ (d, TLDirective 1) :: D) = POk (D, T)) /\
  (forall p T d D, Forall plain_line (p :: T) -> Forall plain_line D -> ~ In d (map fst (p :: T)) ->
     segment tdir_of (p :: T ++ (d, TLDirective 1) :: D) = POk (D, p :: T)) /\
  (* shapes that are rejected, at the offending line *)
  (forall a A ln B, Forall plain_line A ->
     segment tdir_of ((a, TLDirective 1) :: A ++ (ln, TLDirective 1) :: B) = PErr (PDirective ln)) /\
  (forall c A ln B, Forall plain_line A ->
     segment tdir_of ((c, TLDirective 0) :: A ++ (ln, TLDirective 0) :: B) = PErr (PDirective ln)) /\
  (forall p A ln B, Forall plain_line (p :: A) ->
     segment tdir_of (p :: A ++ (ln, TLDirective 0) :: B) = PErr (PDirective ln)) /\
  (forall a b D T ln d B, Forall plain_line D -> Forall plain_line T -> ~ In b (map fst D) ->
     segment tdir_of ((a, TLDirective 1) :: D ++ (b, TLDirective 0) :: T ++ (ln, TLDirective d) :: B)
     = PErr (PDirective ln)) /\
  (forall c d0 D T ln d B, Forall plain_line D -> Forall plain_line T -> ~ In d0 (map fst T) ->
     segment tdir_of ((c, TLDirective 0) :: T ++ (d0, TLDirective 1) :: D ++ (ln, TLDirective d) :: B)
     = PErr (PDirective ln)).
Proof.
  split; [exact segment_nil|].
  split; [exact segment_undirected|].
  split; [exact segment_only_text|].
  split; [exact segment_only_data|].
  split; [exact segment_data_text|].
  split; [exact segment_text_data|].
  split; [exact segment_undirected_data|].
  split; [exact segment_second_data|].
  split; [exact segment_second_text|].
  split; [exact segment_text_after_undirected|].
  split; [exact segment_third_directive_dt | exact segment_third_directive_td].
Qed.
